(** Model of [slab::Slab] as used for output handles and outgoing channels:
    occupied entries, the LIFO list of freed keys, and the number of slots ever
    used.  (The crate threads the free list through the vacant slots; the
    stack below is that list.)  [vacant_key] is the key the next insert gets. *)
From Coq Require Export NArith List Bool.
Export ListNotations.
Open Scope N_scope.

Section Slab.
Context {A : Type}.
Record slab := mkSlab { sl_occ : list (N * A); sl_free : list N; sl_len : N }.

Definition slab_empty : slab := mkSlab [] [] 0.
Definition vacant_key (s : slab) : N := match sl_free s with k :: _ => k | [] => sl_len s end.
Definition slab_insert (s : slab) (a : A) : slab :=
  match sl_free s with
  | k :: r => mkSlab (sl_occ s ++ [(k, a)]) r (sl_len s)
  | [] => mkSlab (sl_occ s ++ [(sl_len s, a)]) [] (sl_len s + 1)
  end.
Fixpoint occ_get (k : N) (l : list (N * A)) : option A :=
  match l with [] => None | (k', a) :: r => if k' =? k then Some a else occ_get k r end.
Fixpoint occ_remove (k : N) (l : list (N * A)) : list (N * A) :=
  match l with [] => [] | (k', a) :: r => if k' =? k then occ_remove k r else (k', a) :: occ_remove k r end.
Definition slab_get (s : slab) (k : N) : option A := occ_get k (sl_occ s).
(** [try_remove]; [Slab::remove] is this and a panic on [None] *)
Definition slab_try_remove (s : slab) (k : N) : option A * slab :=
  match occ_get k (sl_occ s) with
  | Some a => (Some a, mkSlab (occ_remove k (sl_occ s)) (k :: sl_free s) (sl_len s))
  | None => (None, s)
  end.
Definition slab_count (s : slab) : N := N.of_nat (length (sl_occ s)).
End Slab.
Arguments slab A : clear implicits.
