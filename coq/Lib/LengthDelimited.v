(** Model of tokio-util's [LengthDelimitedCodec] decoder as configured in
    transport/mod.rs [length_delimited_decoder]: 4-byte big-endian length
    field, length_adjustment(-4) (the field counts itself), max_frame_length.
    [FramedRead] accumulates the bytes read so far and asks the decoder for
    frames until it needs more; after an error the stream ends. *)
From FV Require Import Base.Bytes.

Inductive ld_step := NeedMore | Frame (body rest : bytes) | LdError.

(** [decode_head] + [decode_data] on the accumulated buffer *)
Definition ld_next (maxf : N) (buf : bytes) : ld_step :=
  match take_n 4 buf with
  | None => NeedMore
  | Some (h, r) =>
      let n := from_be h in
      if maxf <? n then LdError                    (* frame size too big *)
      else if n <? 4 then LdError                  (* length underflows after the adjustment *)
      else if lenN r <? n - 4 then NeedMore
      else match take_n (N.to_nat (n - 4)) r with
           | Some (body, rest) => Frame body rest
           | None => NeedMore
           end
  end.

(** all complete frames in the buffer; the flag says that the stream has failed *)
Fixpoint ld_parse (fuel : nat) (maxf : N) (buf : bytes) : list bytes * bytes * bool :=
  match fuel with
  | O => ([], buf, false)
  | S f =>
      match ld_next maxf buf with
      | NeedMore => ([], buf, false)
      | LdError => ([], buf, true)
      | Frame body rest =>
          let '(fs, r, e) := ld_parse f maxf rest in (body :: fs, r, e)
      end
  end.

Definition ld_parse_all (maxf : N) (buf : bytes) := ld_parse (S (length buf)) maxf buf.

(** the reader state: undelivered bytes, and whether the stream has ended in an error *)
Record ld_state := mkLD { ld_buf : bytes; ld_failed : bool }.

(** one read of [chunk] bytes from the socket *)
Definition ld_feed (maxf : N) (st : ld_state) (chunk : bytes) : ld_state * list bytes :=
  if ld_failed st then (st, [])
  else let '(fs, r, e) := ld_parse_all maxf (ld_buf st ++ chunk) in (mkLD r e, fs).

Fixpoint ld_feed_all (maxf : N) (st : ld_state) (chunks : list bytes) : ld_state * list bytes :=
  match chunks with
  | [] => (st, [])
  | c :: r => let '(st1, f1) := ld_feed maxf st c in
              let '(st2, f2) := ld_feed_all maxf st1 r in (st2, f1 ++ f2)
  end.

(** [FrameDecoder::decode] up to the performative: doff / type / channel, then the body *)
Inductive fdec := FdShort | FdNotImplemented | FdEmpty (channel : N) | FdBody (channel : N) (body : bytes).
Definition frame_decode (b : bytes) : fdec :=
  match b with
  | doff :: ftype :: c1 :: c0 :: body =>
      if negb (ftype =? 0) then FdNotImplemented
      else if negb (doff =? 2) then FdNotImplemented
      else match body with [] => FdEmpty (c1 * 256 + c0) | _ => FdBody (c1 * 256 + c0) body end
  | _ => FdShort
  end.
