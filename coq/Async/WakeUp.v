(** The credit wake-up protocol between a sending task (waiter) and the
    session task (producer) over [tokio::sync::Notify]
    (link/state.rs [Consume for SenderFlowState], util/producer.rs [produce]).

    Notify is modelled by the generation counter of [notify_waiters] calls: a
    [Notified] future records the counter when it is created and completes
    once the counter differs.  Every transition is one atomic step (the credit
    is updated under a lock, the counter is atomic); the scheduler may pick any
    enabled step: the relation quantifies over all interleavings. *)
From Coq Require Import NArith List Bool Arith.
Import ListNotations.

Inductive order := CheckThenRegister | RegisterThenCheck.

Inductive wpc :=
| WStart                 (* top of the consume loop *)
| WGap                   (* CheckThenRegister only: credit check failed, Notified not yet created *)
| WReg (snap : nat)      (* RegisterThenCheck only: Notified created, credit not yet checked *)
| WParked (snap : nat)   (* awaiting the Notified future created at generation [snap] *)
| WDone.

Record cfg := mkC {
  c_credit : N;          (* link_credit *)
  c_gen : nat;           (* number of notify_waiters() calls so far *)
  c_pend : bool;         (* producer has updated the state but not yet notified *)
  c_grants : list N;     (* flows still to be applied by the session task (new credit values) *)
  c_w : wpc
}.

Definition init (grants : list N) : cfg := mkC 0 0 false grants WStart.

Section Steps.
Variable o : order.
Variable need : N.

Inductive step : cfg -> cfg -> Prop :=
(* producer: update_state under the lock, then notify_waiters *)
| P_update c g gs : c_pend c = false -> c_grants c = g :: gs ->
    step c (mkC g (c_gen c) true gs (c_w c))
| P_notify c : c_pend c = true ->
    step c (mkC (c_credit c) (S (c_gen c)) false (c_grants c) (c_w c))
(* waiter, register-then-check (the code after the repair) *)
| W_reg c : o = RegisterThenCheck -> c_w c = WStart ->
    step c (mkC (c_credit c) (c_gen c) (c_pend c) (c_grants c) (WReg (c_gen c)))
| W_check_ok c s : o = RegisterThenCheck -> c_w c = WReg s -> (need <= c_credit c)%N ->
    step c (mkC (c_credit c - need) (c_gen c) (c_pend c) (c_grants c) WDone)
| W_check_fail c s : o = RegisterThenCheck -> c_w c = WReg s -> (c_credit c < need)%N ->
    step c (mkC (c_credit c) (c_gen c) (c_pend c) (c_grants c) (WParked s))
(* waiter, check-then-register (the code before the repair) *)
| W_check_ok' c : o = CheckThenRegister -> c_w c = WStart -> (need <= c_credit c)%N ->
    step c (mkC (c_credit c - need) (c_gen c) (c_pend c) (c_grants c) WDone)
| W_check_fail' c : o = CheckThenRegister -> c_w c = WStart -> (c_credit c < need)%N ->
    step c (mkC (c_credit c) (c_gen c) (c_pend c) (c_grants c) WGap)
| W_reg' c : o = CheckThenRegister -> c_w c = WGap ->
    step c (mkC (c_credit c) (c_gen c) (c_pend c) (c_grants c) (WParked (c_gen c)))
(* the Notified future completes once a notify_waiters happened after its creation *)
| W_wake c s : c_w c = WParked s -> s <> c_gen c ->
    step c (mkC (c_credit c) (c_gen c) (c_pend c) (c_grants c) WStart).

Inductive reach : cfg -> cfg -> Prop :=
| reach_refl c : reach c c
| reach_step c c1 c2 : reach c c1 -> step c1 c2 -> reach c c2.

Definition stuck (c : cfg) : Prop := forall c', ~ step c c'.

(** the send sleeps for ever although sufficient credit has been granted *)
Definition lost_wakeup (c : cfg) : Prop :=
  stuck c /\ (need <= c_credit c)%N /\ c_w c <> WDone.
End Steps.
