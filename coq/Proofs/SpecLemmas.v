(** Facts about the reference decoder of Codec/Spec.v that both SpecEnc.v and
    SpecDec.v use: the byte-level primitives ([sbe], [stake]), unfolding
    equations of the fuelled knot, monotonicity of [spec_data] / [spec_value]
    in their two parameters and, from it, monotonicity of [spec_dec] in fuel. *)
From FV Require Import Base.Bytes Codec.Value Codec.Spec Proofs.BytesProofs.
From Coq Require Import Lia ZArith ZifyN ZifyBool ZifyNat.
Ltac Zify.zify_post_hook ::= Z.div_mod_to_equations.
Open Scope N_scope.

(** ** primitives *)
Lemma from_be_1 x : from_be [x] = x.
Proof. unfold from_be. cbn [rev app from_le]. lia. Qed.

Lemma sbe_1 x r : sbe 1 (x :: r) = Some (x, r).
Proof. unfold sbe. cbn [take_n]. rewrite from_be_1. reflexivity. Qed.

Lemma sbe_1_inv bs n r : sbe 1 bs = Some (n, r) -> bs = n :: r.
Proof.
  destruct bs as [|x t]; [discriminate|]. rewrite sbe_1. intros H; injection H as <- <-. reflexivity.
Qed.

Lemma sbe_to_be k n rest : n < 256 ^ N.of_nat k -> sbe k (to_be k n ++ rest) = Some (n, rest).
Proof.
  intros H. unfold sbe. rewrite take_n_app_k by apply to_be_length.
  rewrite from_be_to_be by exact H. reflexivity.
Qed.

Lemma take_n_split k : forall bs h t, take_n k bs = Some (h, t) -> bs = h ++ t /\ length h = k.
Proof.
  induction k as [|k IH]; intros bs h t H; cbn in H.
  - injection H as <- <-. split; reflexivity.
  - destruct bs as [|b r]; [discriminate|]. destruct (take_n k r) as [[h' t']|] eqn:E; [|discriminate].
    injection H as <- <-. destruct (IH _ _ _ E) as [-> <-]. split; reflexivity.
Qed.

Lemma sbe_inv k bs n r : sbe k bs = Some (n, r) -> exists h, bs = h ++ r /\ length h = k /\ n = from_be h.
Proof.
  unfold sbe. destruct (take_n k bs) as [[h t]|] eqn:E; [|discriminate].
  intros H; injection H as <- <-. destruct (take_n_split _ _ _ _ E) as [-> Hl]. eauto.
Qed.

Lemma stake_inv k bs h t : stake k bs = Some (h, t) -> bs = h ++ t /\ lenN h = k.
Proof.
  unfold stake. destruct (lenN bs <? k); [discriminate|]. intros H.
  destruct (take_n_split _ _ _ _ H) as [-> Hl]. split; [reflexivity|]. unfold lenN. lia.
Qed.

Lemma stake_app (b rest : bytes) : stake (lenN b) (b ++ rest) = Some (b, rest).
Proof.
  unfold stake. rewrite lenN_app. destruct (lenN b + lenN rest <? lenN b) eqn:E; [lia|].
  unfold lenN at 1. rewrite Nat2N.id. apply take_n_app.
Qed.

Lemma stake_app_k k (b rest : bytes) : lenN b = k -> stake k (b ++ rest) = Some (b, rest).
Proof. intros <-. apply stake_app. Qed.

(** ** the fuelled knot *)
Lemma spec_dec_S f :
  spec_dec (S f) = spec_value (spec_dec f) (spec_data (spec_dec f) (fun code bs => spec_data_inner f code bs)).
Proof. reflexivity. Qed.
Lemma spec_data_inner_S f code bs :
  spec_data_inner (S f) code bs = spec_data (spec_dec f) (fun c b => spec_data_inner f c b) code bs.
Proof. reflexivity. Qed.

(** ** monotonicity in the two parameters *)
Definition sub1 (f g : bytes -> option (value * bytes)) : Prop := forall bs x, f bs = Some x -> g bs = Some x.
Definition sub2 (f g : N -> bytes -> option (value * bytes)) : Prop := forall c bs x, f c bs = Some x -> g c bs = Some x.

Section Mono.
Variables vd1 vd2 : bytes -> option (value * bytes).
Variables dd1 dd2 : N -> bytes -> option (value * bytes).
Hypothesis Hvd : sub1 vd1 vd2.
Hypothesis Hdd : sub2 dd1 dd2.

Lemma values_exact_mono n : forall body l, values_exact vd1 n body = Some l -> values_exact vd2 n body = Some l.
Proof.
  induction n as [|n IH]; intros body l; cbn [values_exact]; [auto|].
  destruct (vd1 body) as [[v r]|] eqn:E; [|discriminate]. rewrite (Hvd _ _ E).
  destruct (values_exact vd1 n r) as [l'|] eqn:E'; [|discriminate]. rewrite (IH _ _ E'). auto.
Qed.

Lemma pairs_exact_mono n : forall body l, pairs_exact vd1 n body = Some l -> pairs_exact vd2 n body = Some l.
Proof.
  induction n as [|n IH]; intros body l; cbn [pairs_exact]; [auto|].
  destruct (vd1 body) as [[k r]|] eqn:E; [|discriminate]. rewrite (Hvd _ _ E).
  destruct (vd1 r) as [[v r']|] eqn:E2; [|discriminate]. rewrite (Hvd _ _ E2).
  destruct (pairs_exact vd1 n r') as [l'|] eqn:E'; [|discriminate]. rewrite (IH _ _ E'). auto.
Qed.

Lemma datas_exact_mono c n : forall body l, datas_exact dd1 c n body = Some l -> datas_exact dd2 c n body = Some l.
Proof.
  induction n as [|n IH]; intros body l; cbn [datas_exact]; [auto|].
  destruct (dd1 c body) as [[v r]|] eqn:E; [|discriminate]. rewrite (Hdd _ _ _ E).
  destruct (datas_exact dd1 c n r) as [l'|] eqn:E'; [|discriminate]. rewrite (IH _ _ E'). auto.
Qed.

Ltac mono_compound :=
  let s := fresh in let r := fresh in let i := fresh in let r' := fresh in let c := fresh in let b := fresh in
  match goal with |- match sbe ?w ?bs with _ => _ end = _ -> _ =>
    destruct (sbe w bs) as [[s r]|]; [|discriminate];
    destruct (stake s r) as [[i r']|]; [|discriminate];
    destruct (sbe w i) as [[c b]|]; [|discriminate]
  end.

Lemma spec_data_mono code bs x : spec_data vd1 dd1 code bs = Some x -> spec_data vd2 dd2 code bs = Some x.
Proof.
  unfold spec_data.
  repeat match goal with
  | |- (if ?c then _ else _) = _ -> _ => destruct c; [exact (fun H => H)|]
  end.
  - (* list8 *) destruct (code =? 192).
    { mono_compound. destruct (MAXCOUNT <? _); [discriminate|].
      destruct (values_exact vd1 _ _) as [l|] eqn:E; [|discriminate]. rewrite (values_exact_mono _ _ _ E). auto. }
    destruct (code =? 208).
    { mono_compound. destruct (MAXCOUNT <? _); [discriminate|].
      destruct (values_exact vd1 _ _) as [l|] eqn:E; [|discriminate]. rewrite (values_exact_mono _ _ _ E). auto. }
    destruct (code =? 193).
    { mono_compound. destruct (MAXCOUNT <? _); [discriminate|]. destruct (negb _); [discriminate|].
      destruct (pairs_exact vd1 _ _) as [l|] eqn:E; [|discriminate]. rewrite (pairs_exact_mono _ _ _ E). auto. }
    destruct (code =? 209).
    { mono_compound. destruct (MAXCOUNT <? _); [discriminate|]. destruct (negb _); [discriminate|].
      destruct (pairs_exact vd1 _ _) as [l|] eqn:E; [|discriminate]. rewrite (pairs_exact_mono _ _ _ E). auto. }
    destruct (code =? 224).
    { mono_compound. destruct (MAXCOUNT <? _); [discriminate|].
      match goal with |- match match ?b with [] => _ | _ :: _ => _ end with _ => _ end = _ -> _ => destruct b as [|ec elems]; [auto|] end.
      destruct (ec =? 0); [discriminate|].
      destruct (datas_exact dd1 _ _ _) as [l|] eqn:E; [|discriminate]. rewrite (datas_exact_mono _ _ _ _ E). auto. }
    destruct (code =? 240).
    { mono_compound. destruct (MAXCOUNT <? _); [discriminate|].
      match goal with |- match match ?b with [] => _ | _ :: _ => _ end with _ => _ end = _ -> _ => destruct b as [|ec elems]; [auto|] end.
      destruct (ec =? 0); [discriminate|].
      destruct (datas_exact dd1 _ _ _) as [l|] eqn:E; [|discriminate]. rewrite (datas_exact_mono _ _ _ _ E). auto. }
    discriminate.
Qed.

Lemma spec_value_mono bs x : spec_value vd1 dd1 bs = Some x -> spec_value vd2 dd2 bs = Some x.
Proof.
  unfold spec_value. destruct bs as [|c r]; [auto|]. destruct (c =? 0); [|apply Hdd].
  destruct r as [|dc dr]; [auto|].
  destruct ((dc =? 163) || (dc =? 179) || (dc =? 128) || (dc =? 83) || (dc =? 68)); [|discriminate].
  destruct (dd1 dc dr) as [[d r1]|] eqn:E; [|discriminate]. rewrite (Hdd _ _ _ E).
  destruct d; try discriminate.
  - destruct (vd1 r1) as [[v r2]|] eqn:E2; [|discriminate]. rewrite (Hvd _ _ E2). auto.
  - destruct (vd1 r1) as [[v r2]|] eqn:E2; [|discriminate]. rewrite (Hvd _ _ E2). auto.
Qed.
End Mono.

(** ** more fuel never changes a [Some] result *)
Lemma spec_mono_step f :
  sub1 (spec_dec f) (spec_dec (S f)) /\
  sub2 (fun c b => spec_data_inner f c b) (fun c b => spec_data_inner (S f) c b).
Proof.
  induction f as [|f [IH1 IH2]].
  - split; intros ? **; discriminate.
  - split.
    + intros bs x. rewrite (spec_dec_S (S f)), (spec_dec_S f).
      apply spec_value_mono; [exact IH1|]. intros c b y. apply spec_data_mono; assumption.
    + intros c bs x. rewrite (spec_data_inner_S (S f)), (spec_data_inner_S f).
      apply spec_data_mono; assumption.
Qed.

Lemma spec_dec_mono f g bs x : (f <= g)%nat -> spec_dec f bs = Some x -> spec_dec g bs = Some x.
Proof.
  induction 1 as [|g _ IH]; [auto|]. intros H. apply (proj1 (spec_mono_step g)). auto.
Qed.

Lemma spec_valid_mono f g bs v : (f <= g)%nat -> spec_valid f bs = Some v -> spec_valid g bs = Some v.
Proof.
  unfold spec_valid. intros Hle. destruct (spec_dec f bs) as [[v' r]|] eqn:E; [|discriminate].
  rewrite (spec_dec_mono f g bs _ Hle E). auto.
Qed.
