From FV Require Import Base.Serial.
From Coq Require Import ZArith Lia ZifyN ZifyBool.
Ltac Zify.zify_post_hook ::= Z.div_mod_to_equations.
Open Scope N_scope.

Ltac unfold_serial := unfold in_window, in_windowb, sdist, wadd, wsub, sat_add, sat_sub, U32MAX, u32, W in *.

Lemma wadd_lt a b : wadd a b < W.
Proof. unfold_serial. lia. Qed.

Lemma wsub_lt a b : wsub a b < W.
Proof. unfold_serial. lia. Qed.

Lemma wsub_self a : a < W -> wsub a a = 0.
Proof. unfold_serial. intros. lia. Qed.

Lemma sdist_self a : a < W -> sdist a a = 0.
Proof. apply wsub_self. Qed.

Lemma sdist_wadd1 a x : x < W -> sdist a x + 1 < W -> sdist a (wadd x 1) = sdist a x + 1.
Proof. unfold_serial. intros. lia. Qed.

Lemma wadd_0 a : a < W -> wadd a 0 = a.
Proof. unfold_serial. intros. lia. Qed.

Lemma wadd_assoc1 a k : wadd (wadd a k) 1 = wadd a (k + 1).
Proof. unfold_serial. lia. Qed.

Lemma wadd_wadd a b c : wadd (wadd a b) c = wadd a (b + c).
Proof. unfold_serial. lia. Qed.

Lemma sdist_wadd a k : a < W -> k < W -> sdist a (wadd a k) = k.
Proof. unfold_serial. intros. lia. Qed.

Lemma in_windowb_spec a w x : in_windowb a w x = true <-> in_window a w x.
Proof. unfold in_windowb, in_window. apply N.ltb_lt. Qed.
