(** Round trip of messages at the level of sections: what the message serializer writes, the
    message deserializer reads back as the same sections - whichever optional sections are present,
    for a body of one amqp-value section, or any number of data sections, or any number of
    amqp-sequence sections. *)
From Coq Require Import NArith List Lia.
From FV Require Import Base.Bytes Codec.Value Codec.Enc Codec.Dec Codec.Message.
From FV Require Import Proofs.BytesProofs Proofs.RoundTripScalars Proofs.RoundTrip Proofs.CompositeProofs.
Import ListNotations.
Open Scope N_scope.

Inductive item := ISec (k : sclass) (v : value) | IBody (d : descriptor) (vs : list value).
Definition item_secs (i : item) : list value := match i with ISec _ v => [v] | IBody _ vs => vs end.
Definition apply_item (m : msg) (i : item) : msg :=
  match i with ISec k v => set_section k v m | IBody _ vs => set_body vs m end.

Definition sec_valid (fuel : nat) (d : descriptor) (v : value) : Prop :=
  exists x, v = VDescribed d x /\ wf v = true /\ (depth v <= fuel)%nat.

Definition item_valid (fuel : nat) (i : item) : Prop :=
  match i with
  | ISec k v => exists c, sec_valid fuel (DCode c) v /\ class_of_code c = Some k /\ (k = SBody -> c = 119)
  | IBody d vs => vs <> [] /\ (d = DCode 117 \/ d = DCode 118) /\ Forall (sec_valid fuel d) vs
  end.

Definition first_desc (its : list item) : option descriptor :=
  match its with
  | ISec _ (VDescribed d _) :: _ => Some d
  | IBody d (_ :: _) :: _ => Some d
  | _ => None
  end.

Fixpoint separated (its : list item) : Prop :=
  match its with
  | [] => True
  | IBody d _ :: rest => first_desc rest <> Some d /\ separated rest
  | _ :: rest => separated rest
  end.

(** the bytes of a described value start with 0x00 and its descriptor *)
Lemma section_shape d x p :
  enc Plain (VDescribed d x) = Some p ->
  exists db xb, enc_descriptor Plain d = Some db /\ enc Plain x = Some xb /\ p = 0 :: db ++ xb.
Proof.
  cbn [enc]. unfold opt_app. destruct (enc_descriptor Plain d) as [db|]; [|discriminate].
  destruct (enc Plain x) as [xb|]; [|discriminate]. intros E. injection E as <-. eauto.
Qed.

Lemma peek_section fuel d v p rest :
  sec_valid fuel d v -> enc Plain v = Some p ->
  dec_descriptor None (p ++ rest) = Ok (d, match enc Plain (match v with VDescribed _ x => x | _ => VNull end) with Some xb => xb ++ rest | None => rest end) /\
  dec fuel None (p ++ rest) = Ok (v, None, rest) /\
  exists r, p ++ rest = 0 :: r.
Proof.
  intros (x & -> & Hwf & Hd) E.
  destruct (section_shape d x p E) as (db & xb & Ed & Ex & ->).
  cbn [wf] in Hwf. apply andb_true_iff in Hwf. destruct Hwf as [Hwd Hwx].
  split; [|split].
  - rewrite Ex. cbn [app]. rewrite <- app_assoc. apply dec_descriptor_rt; assumption.
  - apply (roundtrip_fuel (VDescribed d x)); [cbn [wf]; rewrite Hwd, Hwx; reflexivity|exact Hd|].
    cbn [enc]. unfold opt_app. rewrite Ed, Ex. reflexivity.
  - cbn [app]. eauto.
Qed.

Lemma known_zero : known_code 0 = true. Proof. reflexivity. Qed.

(** ** the batch of a data / amqp-sequence body *)
Lemma batch_reads fuel d : forall vs ps n acc tail,
  Forall (sec_valid fuel d) vs ->
  Forall2 (fun v p => enc Plain v = Some p) vs ps ->
  (length vs < n)%nat ->
  (tail = [] \/ exists d' r, dec_descriptor None tail = Ok (d', r) /\ descriptor_eqb d' d = false /\ exists t, tail = 0 :: t) ->
  batch n fuel d (concat ps ++ tail) acc = Ok (rev acc ++ vs, tail).
Proof.
  induction vs as [|v vs IH]; intros ps n acc tail Hv F2 Hn Htail.
  - inversion F2; subst. cbn [concat app]. rewrite app_nil_r.
    destruct n as [|n]; [cbn in Hn; lia|]. cbn [batch].
    destruct Htail as [-> |(d' & r & Hd' & Hne & t & ->)]; [reflexivity|].
    rewrite known_zero. cbn [negb]. change (0 =? 0) with true. cbv iota.
    rewrite Hd'. cbn [bind]. rewrite Hne. reflexivity.
  - inversion F2 as [|? p ? ps' Hvp F2']; subst. inversion Hv as [|? ? Hv1 Hv']; subst.
    destruct n as [|n]; [cbn in Hn; lia|]. cbn [concat]. rewrite <- app_assoc.
    destruct (peek_section fuel d v p (concat ps' ++ tail) Hv1 Hvp) as (Hpeek & Hdec & r0 & Hz).
    cbn [batch]. rewrite Hz. rewrite known_zero. cbn [negb]. change (0 =? 0) with true. cbv iota.
    rewrite <- Hz. rewrite Hpeek. cbn [bind]. rewrite descriptor_eqb_refl. rewrite Hdec. cbn [bind].
    rewrite (IH ps' n (v :: acc) tail Hv' F2' ltac:(cbn [length] in Hn; lia) Htail).
    cbn [rev]. rewrite <- app_assoc. reflexivity.
Qed.

Lemma msg_loop_nil c fuel m : msg_loop c fuel m [] = Ok m.
Proof. destruct c; reflexivity. Qed.

(** what follows in the byte stream after an item *)
Lemma tail_stops fuel d its parts :
  Forall (item_valid fuel) its -> first_desc its <> Some d ->
  Forall2 (fun v p => enc Plain v = Some p) (concat (map item_secs its)) parts ->
  concat parts = [] \/ exists d' r, dec_descriptor None (concat parts) = Ok (d', r) /\ descriptor_eqb d' d = false /\ exists t, concat parts = 0 :: t.
Proof.
  intros Hv Hfd F2. destruct its as [|i its]; [inversion F2; subst; left; reflexivity|].
  inversion Hv as [|? ? Hi _]; subst. right.
  assert (Hfirst : exists d' v p parts', sec_valid fuel d' v /\ enc Plain v = Some p /\ parts = p :: parts' /\ first_desc (i :: its) = Some d').
  { destruct i as [k v|d0 vs].
    - destruct Hi as (c & Hs & _). cbn [map item_secs concat app] in F2. inversion F2 as [|? p ? parts' Hp _]; subst.
      exists (DCode c), v, p, parts'. destruct Hs as (x & -> & ?). repeat split; auto. exists x. auto.
    - destruct Hi as (Hne & _ & Hall). destruct vs as [|v vs]; [contradiction|].
      cbn [map item_secs concat app] in F2. inversion F2 as [|? p ? parts' Hp _]; subst.
      inversion Hall; subst. exists d0, v, p, parts'. repeat split; auto. }
  destruct Hfirst as (d' & v & p & parts' & Hs & Hp & -> & Hfd').
  cbn [concat]. destruct (peek_section fuel d' v p (concat parts') Hs Hp) as (Hpeek & _ & r0 & Hz).
  eexists d', _. split; [exact Hpeek|]. split.
  - destruct (descriptor_eqb d' d) eqn:E; [|reflexivity]. apply descriptor_eqb_eq in E. subst d'. congruence.
  - eauto.
Qed.

Lemma length_concat_ge (parts : list bytes) :
  Forall (fun p => (1 <= length p)%nat) parts -> (length parts <= length (concat parts))%nat.
Proof. induction 1 as [|p parts Hp _ IH]; cbn [concat length]; [lia|]. rewrite app_length. lia. Qed.

Lemma Forall2_app_inv {A B} (R : A -> B -> Prop) l1 l2 l :
  Forall2 R (l1 ++ l2) l -> exists a b, l = a ++ b /\ Forall2 R l1 a /\ Forall2 R l2 b.
Proof.
  revert l. induction l1 as [|x l1 IH]; intros l H; cbn [app] in H.
  - exists [], l. repeat split; [constructor|exact H].
  - inversion H as [|? y ? l' Hxy H']; subst. destruct (IH l' H') as (a & b & -> & Ha & Hb).
    exists (y :: a), b. repeat split; [constructor; auto|exact Hb].
Qed.

(** ** the loop over items *)
Theorem items_decode fuel : forall its c m0 parts,
  (length its <= c)%nat -> Forall (item_valid fuel) its -> separated its ->
  Forall2 (fun v p => enc Plain v = Some p) (concat (map item_secs its)) parts ->
  msg_loop c fuel m0 (concat parts) = Ok (fold_left apply_item its m0).
Proof.
  induction its as [|i its IH]; intros c m0 parts Hc Hv Hsep F2.
  - inversion F2; subst. cbn [concat fold_left]. apply msg_loop_nil.
  - destruct c as [|c]; [cbn [length] in Hc; lia|].
    inversion Hv as [|? ? Hi Hv']; subst. cbn [map concat] in F2.
    destruct (Forall2_app_inv _ _ _ _ F2) as (pa & pb & -> & Fa & Fb).
    rewrite concat_app. cbn [fold_left].
    destruct i as [k v|d vs].
    + (* one section *)
      destruct Hi as (cd & Hs & Hcls & Hbody).
      cbn [item_secs] in Fa. inversion Fa as [|? p ? ? Hp Fnil]; subst. inversion Fnil; subst.
      cbn [concat]. rewrite app_nil_r.
      destruct (peek_section fuel (DCode cd) v p (concat pb) Hs Hp) as (Hpeek & Hdec & r0 & Hz).
      cbn [msg_loop]. rewrite Hz. rewrite <- Hz. rewrite Hpeek. cbn [bind code_of_descriptor]. rewrite Hcls.
      assert (Hrest : msg_loop c fuel (set_section k v m0) (concat pb) = Ok (fold_left apply_item its (apply_item m0 (ISec k v)))).
      { apply IH; auto. cbn [length] in Hc. lia. }
      destruct k; try (rewrite Hdec; cbn [bind]; exact Hrest).
      rewrite (Hbody eq_refl). change (119 =? 119) with true. cbv iota. rewrite Hdec. cbn [bind]. exact Hrest.
    + (* a batch *)
      destruct Hi as (Hne & Hd & Hall). destruct Hsep as [Hfd Hsep'].
      cbn [item_secs] in Fa.
      destruct vs as [|v vs]; [contradiction|].
      inversion Fa as [|? p ? pa' Hp Fa']; subst. inversion Hall as [|? ? Hv1 _]; subst.
      destruct (peek_section fuel d v p (concat pa' ++ concat pb) Hv1 Hp) as (Hpeek & _ & r0 & Hz).
      cbn [concat]. rewrite <- app_assoc.
      cbn [msg_loop]. rewrite Hz. rewrite <- Hz. rewrite Hpeek. cbn [bind].
      assert (Hcode : exists code, code_of_descriptor d = Some code /\ class_of_code code = Some SBody /\ (code =? 119) = false).
      { destruct Hd as [-> | ->]; eexists; repeat split; reflexivity. }
      destruct Hcode as (code & -> & -> & ->).
      assert (Hne' : Forall (fun q => (1 <= length q)%nat) (p :: pa')).
      { clear - Fa Hall. revert Hall. induction Fa as [|x q l ql Hxq _ IH]; intros Hall; constructor.
        - inversion Hall as [|? ? (y & -> & _) _]; subst. destruct (section_shape _ _ _ Hxq) as (db & xb & _ & _ & ->). cbn. lia.
        - apply IH. inversion Hall; auto. }
      pose proof (length_concat_ge _ Hne') as Hlen. cbn [concat] in Hlen.
      pose proof (Forall2_length _ _ _ Fa) as Hl2.
      rewrite app_assoc.
      change (p ++ concat pa') with (concat (p :: pa')).
      rewrite (batch_reads fuel d (v :: vs) (p :: pa') (S (length (concat (p :: pa') ++ concat pb))) [] (concat pb) Hall Fa).
      * cbn [bind rev app]. apply IH; auto. cbn [length] in Hc. lia.
      * rewrite app_length. cbn [concat length] in *. lia.
      * exact (tail_stops fuel d its pb Hv' Hfd Fb).
Qed.

(** ** a message as a list of items *)
Definition opt_item (k : sclass) (o : option value) : list item :=
  match o with Some v => [ISec k v] | None => [] end.
Definition body_item (l : list value) : list item :=
  match l with
  | [] => []
  | [v] => if section_with 119 v then [ISec SBody v]
           else if section_with 117 v then [IBody (DCode 117) l] else [IBody (DCode 118) l]
  | _ => if forallb (section_with 117) l then [IBody (DCode 117) l] else [IBody (DCode 118) l]
  end.
Definition items_of (m : msg) : list item :=
  opt_item SHeader (m_header m) ++ opt_item SDA (m_da m) ++ opt_item SMA (m_ma m) ++ opt_item SProps (m_props m) ++
  opt_item SAP (m_ap m) ++ body_item (m_body m) ++ opt_item SFooter (m_footer m).

Lemma section_with_valid fuel c v :
  section_with c v = true -> (depth v <= fuel)%nat -> sec_valid fuel (DCode c) v.
Proof.
  destruct v as [d x| | | | | | | | | | | | | | | | | | | | | | | |]; try discriminate. destruct d as [n|c']; [discriminate|].
  unfold section_with. intros H Hd. apply andb_true_iff in H. destruct H as [Hc Hwf]. apply N.eqb_eq in Hc. subst c'.
  exists x. auto.
Qed.

Lemma opt_item_valid fuel k c o :
  opt_section c o = true -> class_of_code c = Some k -> (k = SBody -> c = 119) ->
  Forall (fun v => (depth v <= fuel)%nat) (opt_list o) -> Forall (item_valid fuel) (opt_item k o).
Proof.
  destruct o as [v|]; cbn [opt_section opt_item opt_list]; intros H Hc Hb Hd; constructor; [|constructor].
  inversion Hd; subst. exists c. split; [apply section_with_valid; assumption|]. auto.
Qed.

Lemma body_item_valid fuel l :
  body_ok l = true -> Forall (fun v => (depth v <= fuel)%nat) l -> Forall (item_valid fuel) (body_item l).
Proof.
  intros Hok Hd. destruct l as [|v [|v2 l]]; [discriminate| |].
  - cbn [body_ok body_item] in *. inversion Hd; subst.
    destruct (section_with 119 v) eqn:E9.
    + constructor; [|constructor]. exists 119. split; [apply section_with_valid; assumption|]. split; [reflexivity|auto].
    + destruct (section_with 117 v) eqn:E7.
      * constructor; [|constructor]. split; [discriminate|]. split; [left; reflexivity|]. constructor; [apply section_with_valid; assumption|constructor].
      * rewrite orb_false_l, orb_false_r in Hok. constructor; [|constructor]. split; [discriminate|]. split; [right; reflexivity|].
        constructor; [apply section_with_valid; assumption|constructor].
  - cbn [body_ok body_item] in *.
    destruct (forallb (section_with 117) (v :: v2 :: l)) eqn:E7.
    + constructor; [|constructor]. split; [discriminate|]. split; [left; reflexivity|].
      apply Forall_forall. intros w Hin. rewrite forallb_forall in E7. rewrite Forall_forall in Hd. apply section_with_valid; auto.
    + rewrite orb_false_l in Hok. constructor; [|constructor]. split; [discriminate|]. split; [right; reflexivity|].
      apply Forall_forall. intros w Hin. rewrite forallb_forall in Hok. rewrite Forall_forall in Hd. apply section_with_valid; auto.
Qed.

Lemma body_item_secs l : l <> [] -> concat (map item_secs (body_item l)) = l.
Proof.
  destruct l as [|v [|v2 l]]; [contradiction| |]; intros _; cbn [body_item].
  - destruct (section_with 119 v); [reflexivity|]. destruct (section_with 117 v); cbn; reflexivity.
  - destruct (forallb (section_with 117) (v :: v2 :: l)); cbn [map item_secs concat]; rewrite app_nil_r; reflexivity.
Qed.

Lemma opt_item_secs k o : concat (map item_secs (opt_item k o)) = opt_list o.
Proof. destruct o; reflexivity. Qed.

Lemma separated_secs_app : forall A B, Forall (fun i => match i with ISec _ _ => True | IBody _ _ => False end) A ->
  separated B -> separated (A ++ B).
Proof.
  induction A as [|i A IH]; intros B HA HB; cbn [app]; [exact HB|].
  inversion HA as [|? ? Hi HA']; subst. destruct i; [|contradiction]. cbn [separated]. apply IH; auto.
Qed.

Lemma opt_item_secs_only k o : Forall (fun i => match i with ISec _ _ => True | IBody _ _ => False end) (opt_item k o).
Proof. destruct o; cbn; repeat constructor. Qed.

Lemma body_footer_separated l f :
  opt_section 120 f = true -> separated (body_item l ++ opt_item SFooter f).
Proof.
  intros Hf.
  assert (Hfd : forall d, (d = DCode 117 \/ d = DCode 118) -> first_desc (opt_item SFooter f) <> Some d).
  { intros d Hd. destruct f as [v|]; cbn [opt_item first_desc]; [|discriminate].
    cbn [opt_section] in Hf. destruct v as [d0 x| | | | | | | | | | | | | | | | | | | | | | | |]; try discriminate.
    destruct d0 as [n|c]; [discriminate|]. unfold section_with in Hf. apply andb_true_iff in Hf. destruct Hf as [Hc _].
    apply N.eqb_eq in Hc. subst c. destruct Hd as [-> | ->]; discriminate. }
  assert (Hsf : separated (opt_item SFooter f)) by (destruct f; exact I).
  destruct l as [|v [|v2 l]]; cbn [body_item app]; [exact Hsf| |].
  - destruct (section_with 119 v); [exact Hsf|]. destruct (section_with 117 v); cbn [app separated]; split; auto.
  - destruct (forallb (section_with 117) (v :: v2 :: l)); cbn [app separated]; split; auto.
Qed.

Lemma fold_items_is_message m :
  m_body m <> [] -> fold_left apply_item (items_of m) empty_msg = m.
Proof.
  destruct m as [h da ma p ap l f]. cbn [m_body]. intros Hl. unfold items_of. cbn [m_header m_da m_ma m_props m_ap m_body m_footer].
  assert (Hb : forall m0, fold_left apply_item (body_item l) m0 = set_body l m0).
  { intros m0. destruct l as [|v [|v2 l']]; [contradiction| |]; cbn [body_item].
    - destruct (section_with 119 v); [reflexivity|]. destruct (section_with 117 v); reflexivity.
    - destruct (forallb (section_with 117) (v :: v2 :: l')); reflexivity. }
  rewrite !fold_left_app. rewrite Hb.
  destruct h, da, ma, p, ap, f; reflexivity.
Qed.

Lemma items_length m : (length (items_of m) <= 7)%nat.
Proof.
  unfold items_of. rewrite !app_length.
  assert (Ho : forall k o, (length (opt_item k o) <= 1)%nat) by (intros k o; destruct o; cbn; lia).
  assert (Hb : (length (body_item (m_body m)) <= 1)%nat).
  { destruct (m_body m) as [|v [|v2 l]]; cbn [body_item]; [cbn; lia| |].
    - destruct (section_with 119 v); [cbn; lia|]. destruct (section_with 117 v); cbn; lia.
    - destruct (forallb (section_with 117) (v :: v2 :: l)); cbn; lia. }
  pose proof (Ho SHeader (m_header m)). pose proof (Ho SDA (m_da m)). pose proof (Ho SMA (m_ma m)).
  pose proof (Ho SProps (m_props m)). pose proof (Ho SAP (m_ap m)). pose proof (Ho SFooter (m_footer m)). lia.
Qed.

Theorem message_roundtrip m fuel b :
  msg_ok m = true -> Forall (fun v => (depth v <= fuel)%nat) (sections_of m) ->
  enc_message m = Some b -> dec_message fuel b = Ok m.
Proof.
  intros Hok Hd E. unfold msg_ok in Hok.
  repeat (apply andb_true_iff in Hok; let H := fresh "H" in destruct Hok as [Hok H]).
  rename Hok into Hh. rename H4 into Hda. rename H3 into Hma. rename H2 into Hp. rename H1 into Hap. rename H0 into Hbody. rename H into Hf.
  assert (Hne : m_body m <> []) by (destruct (m_body m); [discriminate|discriminate]).
  assert (Hsecs : concat (map item_secs (items_of m)) = sections_of m).
  { unfold items_of, sections_of. rewrite !map_app, !concat_app, !opt_item_secs, (body_item_secs _ Hne).
    destruct (m_body m); [contradiction|reflexivity]. }
  unfold enc_message in E. destruct (cat_opt (map (enc Plain) (sections_of m))) as [buf|] eqn:Ec; [|discriminate].
  injection E as <-. destruct (cat_opt_some _ _ _ Ec) as (parts & F2 & ->).
  unfold dec_message.
  replace (Ok m) with (Ok (fold_left apply_item (items_of m) empty_msg)) by (rewrite (fold_items_is_message m Hne); reflexivity).
  rewrite <- Hsecs in F2.
  assert (Hdb : sections_of m = opt_list (m_header m) ++ opt_list (m_da m) ++ opt_list (m_ma m) ++ opt_list (m_props m) ++
                 opt_list (m_ap m) ++ m_body m ++ opt_list (m_footer m)).
  { unfold sections_of. destruct (m_body m); [contradiction|reflexivity]. }
  rewrite Hdb in Hd. repeat (apply Forall_app in Hd; let H := fresh "D" in destruct Hd as [H Hd]).
  apply items_decode; auto.
  - apply items_length.
  - unfold items_of. repeat (apply Forall_app; split).
    + exact (opt_item_valid fuel SHeader 112 _ Hh eq_refl ltac:(discriminate) D).
    + exact (opt_item_valid fuel SDA 113 _ Hda eq_refl ltac:(discriminate) D0).
    + exact (opt_item_valid fuel SMA 114 _ Hma eq_refl ltac:(discriminate) D1).
    + exact (opt_item_valid fuel SProps 115 _ Hp eq_refl ltac:(discriminate) D2).
    + exact (opt_item_valid fuel SAP 116 _ Hap eq_refl ltac:(discriminate) D3).
    + apply body_item_valid; [exact Hbody|exact D4].
    + exact (opt_item_valid fuel SFooter 120 _ Hf eq_refl ltac:(discriminate) Hd).
  - unfold items_of. repeat (apply separated_secs_app; [apply opt_item_secs_only|]).
    apply body_footer_separated. exact Hf.
Qed.

(** non-vacuity, and the empty body: what is written for it reads back as an amqp-value null *)
Definition ex_msg : msg :=
  mkMsg (Some (VDescribed (DCode 112) (VList [VBool true])))
        None None
        (Some (VDescribed (DCode 115) (VList [VString [105; 100]])))
        None
        [VDescribed (DCode 117) (VBinary [1; 2]); VDescribed (DCode 117) (VBinary []); VDescribed (DCode 117) (VBinary [3])]
        (Some (VDescribed (DCode 120) (VMap []))).
Example message_example :
  msg_ok ex_msg = true /\
  (exists b, enc_message ex_msg = Some b /\ dec_message 4 b = Ok ex_msg) /\
  (exists b, enc_message empty_msg = Some b /\ dec_message 4 b = Ok (set_body [VDescribed (DCode 119) VNull] empty_msg)).
Proof.
  split; [vm_compute; reflexivity|]. split.
  - exists (match enc_message ex_msg with Some b => b | None => [] end). split; vm_compute; reflexivity.
  - exists (match enc_message empty_msg with Some b => b | None => [] end). split; vm_compute; reflexivity.
Qed.
