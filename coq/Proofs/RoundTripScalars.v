(** Round trip of the non-compound values, in all three serializer positions. *)
From FV Require Import Base.Bytes Codec.Value Codec.Enc Codec.Dec Proofs.BytesProofs.
From Coq Require Import Lia ZArith ZifyN ZifyBool ZifyNat.
Ltac Zify.zify_post_hook ::= Z.div_mod_to_equations.
Open Scope N_scope.

Definition is_compound (v : value) : bool :=
  match v with VDescribed _ _ | VList _ | VMap _ | VArray _ => true | _ => false end.

(** the constructor an element of this kind gets in array position *)
Definition acode (v : value) : N :=
  match v with
  | VBool _ => 86 | VUbyte _ => 80 | VUshort _ => 96 | VUint _ => 112 | VUlong _ => 128
  | VByte _ => 81 | VShort _ => 97 | VInt _ => 113 | VLong _ => 129 | VFloat _ => 114
  | VDouble _ => 130 | VDec32 _ => 116 | VDec64 _ => 132 | VDec128 _ => 148 | VChar _ => 115
  | VTimestamp _ => 131 | VUuid _ => 152 | VBinary _ => 176 | VString _ => 177 | VSymbol _ => 179
  | _ => 0
  end.

Lemma read_be_to_be k n rest : n < 256 ^ N.of_nat k -> read_be k (to_be k n ++ rest) = Ok (n, rest).
Proof.
  intros H. unfold read_be, read_n. rewrite take_n_app_k by apply to_be_length.
  cbn [bind]. rewrite from_be_to_be by exact H. reflexivity.
Qed.

Lemma read_n_app (b rest : bytes) k : length b = k -> read_n k (b ++ rest) = Ok (b, rest).
Proof. intros H. unfold read_n. rewrite take_n_app_k by exact H. reflexivity. Qed.

Lemma read_len_app (b rest : bytes) : read_len (lenN b) (b ++ rest) = Ok (b, rest).
Proof.
  unfold read_len. rewrite lenN_app.
  destruct (lenN b + lenN rest <? lenN b) eqn:E; [lia|].
  unfold lenN at 1. rewrite Nat2N.id. apply read_n_app. reflexivity.
Qed.

Lemma len_of_okb_eq (b : bytes) k : (lenN b =? N.of_nat k) = true -> length b = k.
Proof. unfold lenN. intros H. apply N.eqb_eq in H. lia. Qed.

Ltac solve_pow := cbn; lia.
Arguments to_be : simpl never.
Arguments from_be : simpl never.

(** variable-width types in plain position *)
Lemma var_plain c8 c32 (b : bytes) out rest :
  known_code c8 = true -> known_code c32 = true -> c8 <> c32 ->
  lenN b <= U32MAX4 ->
  enc_var Plain c8 c32 b = Some out ->
  exists code r, out ++ rest = code :: r /\ known_code code = true /\ (code = c8 \/ code = c32) /\
                 read_var code c8 c32 r = Ok (b, rest).
Proof.
  intros K8 K32 Hne Hl E. unfold enc_var in E.
  destruct (lenN b <=? U8MAX1) eqn:E8.
  - injection E as <-. exists c8, (lenN b :: b ++ rest). repeat split; auto.
    unfold read_var. rewrite N.eqb_refl. cbn [read_byte bind]. apply read_len_app.
  - destruct (lenN b <=? U32MAX4) eqn:E32; [|discriminate].
    injection E as <-. exists c32, (to_be 4 (lenN b) ++ b ++ rest). repeat split; auto.
    all: try (cbn [app]; rewrite <- app_assoc; reflexivity).
    unfold read_var. destruct (c32 =? c8) eqn:Ec; [apply N.eqb_eq in Ec; congruence|].
    rewrite N.eqb_refl. rewrite read_be_to_be by (unfold U32MAX4 in *; cbn; lia).
    cbn [bind]. apply read_len_app.
Qed.

(** variable-width types in array position (32-bit length, constructor [c32] held by the decoder) *)
Lemma var_array c8 c32 (b : bytes) rest :
  c8 <> c32 -> lenN b <= U32MAX4 ->
  enc_var First c8 c32 b = Some (c32 :: to_be 4 (lenN b) ++ b) /\
  enc_var Other c8 c32 b = Some (to_be 4 (lenN b) ++ b) /\
  read_var c32 c8 c32 ((to_be 4 (lenN b) ++ b) ++ rest) = Ok (b, rest).
Proof.
  intros Hne Hl. unfold enc_var, U32MAX4 in *.
  assert (Hm : lenN b mod 4294967296 = lenN b) by (apply N.mod_small; lia).
  rewrite Hm. repeat split.
  unfold read_var. destruct (c32 =? c8) eqn:Ec; [apply N.eqb_eq in Ec; congruence|].
  rewrite N.eqb_refl, <- app_assoc. rewrite read_be_to_be by (cbn; lia). cbn [bind]. apply read_len_app.
Qed.

Lemma sext8_small32 bits : bits < 4294967296 -> small_signed 32 bits = true -> sext8 32 (bits mod 256) = bits.
Proof.
  unfold small_signed, sext8. change (2 ^ 32) with 4294967296. intros H S.
  destruct (bits mod 256 <? 128) eqn:E; lia.
Qed.
Lemma sext8_small64 bits : bits < 18446744073709551616 -> small_signed 64 bits = true -> sext8 64 (bits mod 256) = bits.
Proof.
  unfold small_signed, sext8. change (2 ^ 64) with 18446744073709551616. intros H S.
  destruct (bits mod 256 <? 128) eqn:E; lia.
Qed.

Ltac dec_go :=
  cbn [app]; unfold dec_body;
  cbn -[to_be from_be read_be read_n read_var read_len check_utf8 sext8 is_scalar utf8_valid lenN].

Ltac wf_split H :=
  repeat match type of H with
  | (_ && _) = true => let H1 := fresh H in let H2 := fresh H in apply andb_true_iff in H; destruct H as [H1 H2]; wf_split H1; wf_split H2
  end.

Lemma known_163 : known_code 163 = true. Proof. reflexivity. Qed.
Lemma known_179 : known_code 179 = true. Proof. reflexivity. Qed.

(** every non-compound value, plain position *)
Lemma scalar_plain self v b rest :
  is_compound v = false -> wf v = true -> enc Plain v = Some b ->
  dec_body self None (b ++ rest) = Ok (v, None, rest).
Proof.
  intros Hc Hwf E. destruct v; try discriminate Hc; cbn [enc wf] in *.
  - (* Null *) injection E as <-. reflexivity.
  - (* Bool *) injection E as <-. destruct b0; reflexivity.
  - (* Ubyte *) injection E as <-. reflexivity.
  - (* Ushort *) injection E as <-. dec_go. rewrite read_be_to_be by (cbn; lia). reflexivity.
  - (* Uint *) injection E as <-. unfold enc_uint.
    destruct (n =? 0) eqn:E0; [apply N.eqb_eq in E0; subst; reflexivity|].
    destruct (n <=? 255) eqn:E1; [reflexivity|].
    dec_go. rewrite read_be_to_be by (cbn; lia). reflexivity.
  - (* Ulong *) injection E as <-. unfold enc_ulong.
    destruct (n =? 0) eqn:E0; [apply N.eqb_eq in E0; subst; reflexivity|].
    destruct (n <=? 255) eqn:E1; [reflexivity|].
    dec_go. rewrite read_be_to_be by (cbn; lia). reflexivity.
  - (* Byte *) injection E as <-. reflexivity.
  - (* Short *) injection E as <-. dec_go. rewrite read_be_to_be by (cbn; lia). reflexivity.
  - (* Int *) injection E as <-. unfold enc_int.
    destruct (small_signed 32 n) eqn:Es.
    + dec_go. rewrite sext8_small32 by (auto; lia). reflexivity.
    + dec_go. rewrite read_be_to_be by (cbn; lia). reflexivity.
  - (* Long *) injection E as <-. unfold enc_long.
    destruct (small_signed 64 n) eqn:Es.
    + dec_go. rewrite sext8_small64 by (auto; lia). reflexivity.
    + dec_go. rewrite read_be_to_be by (cbn; lia). reflexivity.
  - (* Float *) injection E as <-. dec_go. rewrite read_be_to_be by (cbn; lia). reflexivity.
  - (* Double *) injection E as <-. dec_go. rewrite read_be_to_be by (cbn; lia). reflexivity.
  - (* Dec32 *) injection E as <-. wf_split Hwf. dec_go.
    rewrite read_n_app by (apply (len_of_okb_eq b0 4); assumption). reflexivity.
  - (* Dec64 *) injection E as <-. wf_split Hwf. dec_go.
    rewrite read_n_app by (apply (len_of_okb_eq b0 8); assumption). reflexivity.
  - (* Dec128 *) injection E as <-. wf_split Hwf. dec_go.
    rewrite read_n_app by (apply (len_of_okb_eq b0 16); assumption). reflexivity.
  - (* Char *) injection E as <-. dec_go.
    assert (n < 4294967296) by (unfold is_scalar in Hwf; lia).
    rewrite read_be_to_be by (cbn; lia). cbn [bind]. rewrite Hwf. reflexivity.
  - (* Timestamp *) injection E as <-. dec_go. rewrite read_be_to_be by (cbn; lia). reflexivity.
  - (* Uuid *) injection E as <-. wf_split Hwf. dec_go.
    rewrite read_n_app by (apply (len_of_okb_eq b0 16); assumption). reflexivity.
  - (* Binary *) unfold len_ok in Hwf. wf_split Hwf.
    destruct (var_plain 160 176 b0 b rest eq_refl eq_refl ltac:(discriminate) ltac:(lia) E)
      as (code & r & Heq & Hk & Hcode & Hread).
    rewrite Heq. destruct Hcode as [-> | ->]; dec_go; rewrite Hread; reflexivity.
  - (* String *) unfold len_ok in Hwf. wf_split Hwf.
    destruct (var_plain 161 177 b0 b rest eq_refl eq_refl ltac:(discriminate) ltac:(lia) E)
      as (code & r & Heq & Hk & Hcode & Hread).
    rewrite Heq. destruct Hcode as [-> | ->]; dec_go; rewrite Hread; unfold check_utf8; cbn [bind fst];
      match goal with H : utf8_valid _ = true |- _ => rewrite H end; reflexivity.
  - (* Symbol *) unfold len_ok in Hwf. wf_split Hwf.
    destruct (var_plain 163 179 b0 b rest eq_refl eq_refl ltac:(discriminate) ltac:(lia) E)
      as (code & r & Heq & Hk & Hcode & Hread).
    rewrite Heq. destruct Hcode as [-> | ->]; dec_go; rewrite Hread; unfold check_utf8; cbn [bind fst];
      match goal with H : utf8_valid _ = true |- _ => rewrite H end; reflexivity.
Qed.

(** every supported element kind, array position: first element = constructor ++ payload,
    other elements = payload; the decoder, holding the constructor, reads the payload back *)
Lemma scalar_array self v rest :
  array_elem_kind_ok (kind v) = true -> wf v = true ->
  exists p, enc First v = Some (acode v :: p) /\ enc Other v = Some p /\ 1 <= lenN p /\
            known_code (acode v) = true /\
            dec_body self (Some (acode v)) (p ++ rest) = Ok (v, Some (acode v), rest).
Proof.
  intros Hk Hwf. destruct v; try discriminate Hk; cbn [enc wf acode] in *.
  - (* Bool *) exists [if b then 1 else 0]. destruct b; repeat split; try reflexivity; cbn; lia.
  - exists [n]. repeat split; try reflexivity; cbn; lia.
  - exists (to_be 2 n). repeat split; try reflexivity; [rewrite lenN_to_be; lia|].
    dec_go. rewrite read_be_to_be by (cbn; lia). reflexivity.
  - exists (to_be 4 n). repeat split; try reflexivity; [rewrite lenN_to_be; lia|].
    dec_go. rewrite read_be_to_be by (cbn; lia). reflexivity.
  - exists (to_be 8 n). repeat split; try reflexivity; [rewrite lenN_to_be; lia|].
    dec_go. rewrite read_be_to_be by (cbn; lia). reflexivity.
  - exists [n]. repeat split; try reflexivity; cbn; lia.
  - exists (to_be 2 n). repeat split; try reflexivity; [rewrite lenN_to_be; lia|].
    dec_go. rewrite read_be_to_be by (cbn; lia). reflexivity.
  - exists (to_be 4 n). repeat split; try reflexivity; [rewrite lenN_to_be; lia|].
    dec_go. rewrite read_be_to_be by (cbn; lia). reflexivity.
  - exists (to_be 8 n). repeat split; try reflexivity; [rewrite lenN_to_be; lia|].
    dec_go. rewrite read_be_to_be by (cbn; lia). reflexivity.
  - exists (to_be 4 n). repeat split; try reflexivity; [rewrite lenN_to_be; lia|].
    dec_go. rewrite read_be_to_be by (cbn; lia). reflexivity.
  - exists (to_be 8 n). repeat split; try reflexivity; [rewrite lenN_to_be; lia|].
    dec_go. rewrite read_be_to_be by (cbn; lia). reflexivity.
  - wf_split Hwf. exists b. repeat split; try reflexivity; [apply N.eqb_eq in Hwf1; lia|].
    dec_go. rewrite read_n_app by (apply (len_of_okb_eq b 4); assumption). reflexivity.
  - wf_split Hwf. exists b. repeat split; try reflexivity; [apply N.eqb_eq in Hwf1; lia|].
    dec_go. rewrite read_n_app by (apply (len_of_okb_eq b 8); assumption). reflexivity.
  - wf_split Hwf. exists b. repeat split; try reflexivity; [apply N.eqb_eq in Hwf1; lia|].
    dec_go. rewrite read_n_app by (apply (len_of_okb_eq b 16); assumption). reflexivity.
  - assert (n < 4294967296) by (unfold is_scalar in Hwf; lia).
    exists (to_be 4 n). repeat split; try reflexivity; [rewrite lenN_to_be; lia|].
    dec_go. rewrite read_be_to_be by (cbn; lia). cbn [bind]. rewrite Hwf. reflexivity.
  - exists (to_be 8 n). repeat split; try reflexivity; [rewrite lenN_to_be; lia|].
    dec_go. rewrite read_be_to_be by (cbn; lia). reflexivity.
  - wf_split Hwf. exists b. repeat split; try reflexivity; [apply N.eqb_eq in Hwf1; lia|].
    dec_go. rewrite read_n_app by (apply (len_of_okb_eq b 16); assumption). reflexivity.
  - unfold len_ok in Hwf. wf_split Hwf.
    destruct (var_array 160 176 b rest ltac:(discriminate) ltac:(lia)) as (A & B & C).
    exists (to_be 4 (lenN b) ++ b). repeat split; auto.
    + rewrite lenN_app, lenN_to_be. lia.
    + dec_go. rewrite C. reflexivity.
  - unfold len_ok in Hwf. wf_split Hwf.
    destruct (var_array 161 177 b rest ltac:(discriminate) ltac:(lia)) as (A & B & C).
    exists (to_be 4 (lenN b) ++ b). repeat split; auto.
    + rewrite lenN_app, lenN_to_be. lia.
    + dec_go. rewrite C. unfold check_utf8; cbn [bind fst]. rewrite Hwf1. reflexivity.
  - unfold len_ok in Hwf. wf_split Hwf.
    destruct (var_array 163 179 b rest ltac:(discriminate) ltac:(lia)) as (A & B & C).
    exists (to_be 4 (lenN b) ++ b). repeat split; auto.
    + rewrite lenN_app, lenN_to_be. lia.
    + dec_go. rewrite C. unfold check_utf8; cbn [bind fst]. rewrite Hwf1. reflexivity.
Qed.

(** the array constructor depends on the kind only *)
Lemma acode_kind v w : kind v = kind w -> acode v = acode w.
Proof. destruct v, w; cbn; intros H; try reflexivity; discriminate. Qed.
