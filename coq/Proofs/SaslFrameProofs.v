(** The SASL frame codec reads back what it writes and is total; a PLAIN listener driven by the
    bytes of a frame lets a client in only if those bytes are a sasl-init whose initial response
    is  authzid NUL user NUL password. *)
From Coq Require Import NArith List Lia Bool.
From FV Require Import Base.Bytes Codec.Value Codec.Enc Codec.Dec Codec.Composite Codec.CompositeSpec Frame.SaslFrame.
From FV Require Import Proofs.BytesProofs Proofs.RoundTripScalars Proofs.RoundTrip Proofs.DecTotal.
From FV Require Import Tie.Tie_Composites Proofs.CompositeProofs Proofs.CompositeTable Proofs.AmqpFrameProofs.
From FV Require Import Auth.SaslListener Auth.Plain Auth.SaslWire Proofs.SaslProofs.
Import ListNotations.
Open Scope N_scope.

Lemma sasl_codes_distinct : NoDup (map s_code sasl_schemas).
Proof. apply nodupb_NoDup. vm_compute. reflexivity. Qed.

Lemma sasl_schemas_ok s : In s sasl_schemas -> schema_ok s = true.
Proof.
  intros [<- |H]; [vm_compute; reflexivity|].
  apply filter_In in H. apply table_schema_ok. tauto.
Qed.

Theorem sasl_frame_roundtrip f b fuel :
  sframe_ok f -> Forall (fun v => (depth v <= fuel)%nat) (sf_fields f) -> (1 <= fuel)%nat ->
  enc_sasl_frame f = Some b -> dec_sasl_frame fuel b = Ok f.
Proof.
  destruct f as [s vs]. unfold sframe_ok. cbn [sf_schema sf_fields]. intros [Hin Hok] Hdep Hf E.
  unfold enc_sasl_frame in E. cbn [sf_schema sf_fields] in E.
  destruct (enc_composite Plain s vs) as [cb|] eqn:Ec; [|discriminate]. injection E as <-.
  cbn [dec_sasl_frame]. change (negb (1 =? 1)) with false. change (negb (2 =? 2)) with false. cbv iota.
  rewrite <- (app_nil_r cb).
  rewrite (enum_roundtrip sasl_schemas s vs fuel cb [] Hin sasl_codes_distinct (sasl_schemas_ok s Hin) Hok Hdep Hf Ec).
  reflexivity.
Qed.

Theorem dec_sasl_frame_total bs :
  (forall fuel, dec_sasl_frame fuel bs <> Panic) /\ dec_sasl_frame (S (length bs)) bs <> OutOfFuel.
Proof.
  assert (Hgen : forall fuel, dec_sasl_frame fuel bs <> Panic /\ ((length bs < fuel)%nat -> dec_sasl_frame fuel bs <> OutOfFuel)).
  { intros fuel. unfold dec_sasl_frame.
    destruct bs as [|doff [|ftype [|c1 [|c0 body]]]]; try (split; discriminate).
    destruct (negb (ftype =? 1)); [split; discriminate|]. destruct (negb (doff =? 2)); [split; discriminate|].
    pose proof (dec_via_enum_total fuel sasl_schemas body) as [Hp Ho].
    destruct (dec_via_enum fuel sasl_schemas body) as [[[s vs] rest]| | |]; cbn [bind]; try congruence; try (split; discriminate).
    split; [discriminate|]. intros Hlen. exfalso. apply Ho; [cbn [length] in *; lia|reflexivity]. }
  split; [intros fuel; apply Hgen|]. apply Hgen. lia.
Qed.

Theorem sasl_header_rules fuel doff ftype c1 c0 body :
  (ftype <> 1 \/ doff <> 2) -> exists e, dec_sasl_frame fuel (doff :: ftype :: c1 :: c0 :: body) = Err e.
Proof.
  intros H. cbn [dec_sasl_frame]. destruct (ftype =? 1) eqn:Et; cbn [negb]; [|eauto].
  destruct (doff =? 2) eqn:Ed; cbn [negb]; [|eauto].
  apply N.eqb_eq in Et, Ed. destruct H; contradiction.
Qed.

Theorem sasl_short_frame_refused fuel bs : (length bs <= 4)%nat -> exists e, dec_sasl_frame fuel bs = Err e.
Proof.
  intros H. destruct bs as [|a [|b [|c [|d r]]]]; cbn [dec_sasl_frame]; eauto.
  destruct r; [|cbn [length] in H; lia].
  destruct (negb (b =? 1)); [eauto|]. destruct (negb (a =? 2)); [eauto|].
  unfold dec_via_enum. cbn. eauto.
Qed.

(** ** PLAIN *)
Lemma split0_spec bs x y : split0 bs = Some (x, y) -> bs = x ++ 0 :: y /\ ~ In 0 x.
Proof.
  revert x y. induction bs as [|b r IH]; intros x y H; cbn [split0] in H; [discriminate|].
  destruct (b =? 0) eqn:Eb.
  - injection H as <- <-. apply N.eqb_eq in Eb. subst. split; [reflexivity|intros []].
  - destruct (split0 r) as [[x' y']|]; [|discriminate]. injection H as <- <-.
    destruct (IH x' y' eq_refl) as [-> Hn]. split; [reflexivity|].
    intros [Hb|Hi]; [subst; discriminate|exact (Hn Hi)].
Qed.

Lemma split0_complete x y : ~ In 0 x -> split0 (x ++ 0 :: y) = Some (x, y).
Proof.
  induction x as [|b x IH]; intros Hn; cbn [app split0]; [reflexivity|].
  destruct (b =? 0) eqn:Eb; [apply N.eqb_eq in Eb; subst; exfalso; apply Hn; left; reflexivity|].
  rewrite IH; [reflexivity|]. intros Hi. apply Hn. right. exact Hi.
Qed.

(** the check passes exactly on  authzid NUL user NUL password  (no NUL in authzid or user) *)
Theorem plain_ok_iff user pass resp :
  plain_ok user pass resp = true <->
  exists authzid, resp = authzid ++ 0 :: user ++ 0 :: pass /\ ~ In 0 authzid /\ ~ In 0 user.
Proof.
  unfold plain_ok. split.
  - destruct (split0 resp) as [[z r1]|] eqn:E1; [|discriminate].
    destruct (split0 r1) as [[u p]|] eqn:E2; [|discriminate].
    intros H. apply andb_true_iff in H. destruct H as [Hu Hp].
    apply bytes_eqb_eq in Hu, Hp. subst.
    destruct (split0_spec _ _ _ E1) as [-> Hz]. destruct (split0_spec _ _ _ E2) as [-> Hun].
    exists z. auto.
  - intros (z & -> & Hz & Hu). rewrite (split0_complete z _ Hz). rewrite (split0_complete user _ Hu).
    rewrite !bytes_eqb_refl. reflexivity.
Qed.

(** whatever the bytes of the frame: the listener goes on to the AMQP header only for a well-typed
    sasl-init carrying the configured user and password; every other byte string fails the
    negotiation at once - accept() returns an error, nothing that marks an authenticated
    connection is written *)
Theorem plain_frame_bytes fuel user pass bs :
  let r := plain_on_frame_bytes fuel user pass bs in
  (exists m authzid h, dec_sasl_frame fuel bs =
       Ok {| sf_schema := nth 1 sasl_schemas mechanisms_schema;
             sf_fields := [VSymbol m; VBinary (authzid ++ 0 :: user ++ 0 :: pass); h] |}
     /\ ~ In 0 authzid /\ r = (LAmqpHdr, [LOutOk; LH]))
  \/ (fst r = LFailed /\ In LAcceptErr (snd r) /\ existsb granted (snd r) = false).
Proof.
  cbv zeta. unfold plain_on_frame_bytes.
  destruct (dec_sasl_frame fuel bs) as [f| | |] eqn:Ed; try solve [right; cbn; auto].
  destruct (typed_ok f) eqn:Et; [|solve [right; cbn; auto]].
  unfold cact_of_frame. destruct (s_code (sf_schema f) =? 65) eqn:Ec; [|solve [right; cbn; auto]].
  destruct f as [s vs]. cbn [sf_schema sf_fields] in *.
  unfold typed_ok in Et. cbn [sf_schema sf_fields] in Et.
  destruct vs as [|m [|r [|h [|? ?]]]]; try discriminate Et.
  - (* one field: code 65 is neither 64, 66, 67 *)
    apply N.eqb_eq in Ec. rewrite Ec in Et. cbn in Et. discriminate.
  - apply N.eqb_eq in Ec. rewrite Ec in Et. cbn in Et. discriminate.
  - rewrite Ec in Et. cbn [andb] in Et.
    apply andb_true_iff in Et. destruct Et as [Et Hh]. apply andb_true_iff in Et. destruct Et as [Hm Hr].
    destruct m; try discriminate Hm.
    destruct r; try solve [right; cbn; auto].
    destruct (plain_ok user pass b0) eqn:Ep; [|solve [right; cbn; auto]].
    apply plain_ok_iff in Ep. destruct Ep as (z & -> & Hz & Hu).
    left. exists b, z, h. split; [|split; [exact Hz|reflexivity]].
    (* the schema is the sasl-init row: the only one with code 65 *)
    assert (Hs : s = nth 1 sasl_schemas mechanisms_schema).
    { unfold dec_sasl_frame in Ed.
      destruct bs as [|d0 [|t0 [|x0 [|x1 body]]]]; try discriminate Ed.
      destruct (negb (t0 =? 1)); [discriminate|]. destruct (negb (d0 =? 2)); [discriminate|].
      unfold dec_via_enum in Ed.
      destruct (dec_descriptor None body) as [[d r1]| | |]; cbn [bind] in Ed; try discriminate Ed.
      destruct (dispatch sasl_schemas d) as [s'|] eqn:Edisp; [|discriminate Ed].
      destruct (dec_composite fuel s' body) as [[vs' rest']| | |]; cbn [bind] in Ed; try discriminate Ed.
      injection Ed as <- _.
      assert (Hin : In s' sasl_schemas).
      { clear -Edisp. induction sasl_schemas as [|a l IH]; cbn in Edisp; [discriminate|].
        destruct (descriptor_matches a d); [injection Edisp as <-; left; reflexivity|right; auto]. }
      apply N.eqb_eq in Ec. vm_compute in Hin.
      repeat (destruct Hin as [<- |Hin]; [try (vm_compute in Ec; discriminate Ec); try (vm_compute; reflexivity)|]).
      contradiction. }
    rewrite Hs. reflexivity.
Qed.

(** non-vacuity: the frame the library's own client writes for user "u", password "p" *)
Example plain_init_example :
  plain_on_frame_bytes 4 [117] [112]
    [2; 1; 0; 0; 0; 83; 65; 192; 14; 2; 163; 5; 80; 76; 65; 73; 78; 160; 4; 0; 117; 0; 112] = (LAmqpHdr, [LOutOk; LH])
  /\ plain_on_frame_bytes 4 [117] [112]
    [2; 1; 0; 0; 0; 83; 65; 192; 14; 2; 163; 5; 80; 76; 65; 73; 78; 160; 4; 0; 117; 0; 113] = (LFailed, [LOutFail; LAcceptErr; LEof]).
Proof. split; vm_compute; reflexivity. Qed.
