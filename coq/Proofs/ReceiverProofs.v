(** Proofs about the receiving-link model (Link/Receiver.v). *)
From FV Require Import Base.Serial Link.Receiver.
From Coq Require Import Lia ZArith ZifyN ZifyBool ZifyNat.
Ltac Zify.zify_post_hook ::= Z.div_mod_to_equations.
Open Scope N_scope.

(** * reassembly (C10) *)

(** a continuation or final frame that does not contradict the first frame: every optional
    field is omitted or repeats the first frame's value *)
Definition agrees {A} (eqb : A -> A -> bool) (first : A) (o : option A) : bool :=
  match o with None => true | Some v => eqb v first end.

Definition continues (d t f : N) (x : xfer) : bool :=
  agrees N.eqb d (x_did x) && agrees N.eqb t (x_tag x) && agrees N.eqb f (x_fmt x) && negb (x_aborted x).

Lemma agrees_or_opt d o : agrees N.eqb d o = true -> or_opt N.eqb (Some d) o = Some (Some d).
Proof.
  destruct o as [v|]; cbn; [|reflexivity]. intros H. apply N.eqb_eq in H. subst v.
  rewrite N.eqb_refl. reflexivity.
Qed.

Lemma merge_continues i d t f x :
  i_did i = Some d -> i_tag i = Some t -> i_fmt i = Some f -> continues d t f x = true ->
  merge i x = Some (mkI (Some d) (Some t) (Some f) (or_settled (i_settled i) (x_settled x)) (i_rsm i) (i_buf i ++ x_pay x)).
Proof.
  intros Hd Ht Hf H. unfold continues in H.
  apply andb_prop in H as [H Ha]. apply andb_prop in H as [H H3]. apply andb_prop in H as [H1 H2].
  unfold merge. rewrite Hd, Ht, Hf, (agrees_or_opt _ _ H1), (agrees_or_opt _ _ H2), (agrees_or_opt _ _ H3). reflexivity.
Qed.

(** the state of a link whose application is inside recv() with nothing queued, in the middle of delivery (d, t, f) *)
Definition mid (s : rstate) (d t f : N) (buf : list N) : Prop :=
  r_waiting s = true /\ r_queue s = [] /\
  exists i, r_inc s = Some i /\ i_did i = Some d /\ i_tag i = Some t /\ i_fmt i = Some f /\ i_buf i = buf.

Lemma complete_queue s i : r_queue (fst (complete s i)) = r_queue s.
Proof.
  unfold complete. cbn [set_inc r_credit r_queue]. destruct (_ <? 1); [reflexivity|].
  destruct (i_did i); [destruct (i_tag i)|]; cbn [r_second fst r_queue]; try reflexivity.
  destruct (match i_settled i with Some true => true | _ => false end); [reflexivity|].
  destruct (negb _ && _); reflexivity.
Qed.

Lemma process_queue s x : r_queue (fst (process s x)) = r_queue s.
Proof.
  unfold process. destruct (x_aborted x); [reflexivity|]. destruct (x_more x).
  - destruct (r_inc s) as [i|]; [destruct (merge i x) as [i'|]; [destruct (i_tag i')|]|unfold start; cbn [i_tag]; destruct (x_tag x)]; reflexivity.
  - destruct (r_inc s) as [i|]; [destruct (merge i x) as [i'|]|]; try apply complete_queue; reflexivity.
Qed.

Lemma pump_one s x : r_waiting s = true -> r_queue s = [x] ->
  pump 2 s =
  let s0 := mkR (r_mode s) (r_second s) (r_credit s) (r_dc s) (r_drain s) (r_processed s) (r_inc s)
                [] (r_waiting s) (r_held s) (r_unsettled s) (r_reg s) in
  let '(s1, o) := process s0 x in
  match o with [] => (s1, []) | _ => (stop_waiting s1, o) end.
Proof.
  intros Hw Hq. cbn [pump]. rewrite Hw, Hq. cbn zeta.
  match goal with |- context [process ?s0 x] => pose proof (process_queue s0 x) as Q end.
  destruct (process _ x) as [s1 o]. cbn [fst r_queue] in Q. destruct o; [|reflexivity].
  rewrite Q. destruct (r_waiting s1); reflexivity.
Qed.

(** a continuation frame with more=true: nothing is returned, the payload is appended *)
Lemma step_continuation s d t f buf x :
  mid s d t f buf -> continues d t f x = true -> x_more x = true ->
  snd (rstep s (EXfer x)) = [] /\ mid (fst (rstep s (EXfer x))) d t f (buf ++ x_pay x) /\
  r_credit (fst (rstep s (EXfer x))) = r_credit s /\ r_dc (fst (rstep s (EXfer x))) = r_dc s /\
  r_held (fst (rstep s (EXfer x))) = r_held s /\ r_second (fst (rstep s (EXfer x))) = r_second s.
Proof.
  intros (Hw & Hq & i & Hi & Hd & Ht & Hf & Hb) Hc Hm.
  assert (Hab : x_aborted x = false).
  { unfold continues in Hc. apply andb_prop in Hc as [_ Ha]. destruct (x_aborted x); [discriminate|reflexivity]. }
  cbn [rstep]. unfold fuel_of. cbn [r_queue length]. rewrite Hq. cbn [app length].
  rewrite (pump_one _ x) by (cbn; auto).
  cbn [r_mode r_second r_credit r_dc r_drain r_processed r_inc r_waiting r_held r_unsettled r_reg].
  unfold process. cbn [r_inc]. rewrite Hab, Hm, Hi, (merge_continues i d t f x Hd Ht Hf Hc).
  cbn [i_tag set_inc r_mode r_second r_credit r_dc r_drain r_processed r_inc r_queue r_waiting r_held r_unsettled r_reg fst snd].
  split; [reflexivity|]. split; [|repeat split; reflexivity].
  split; [exact Hw|]. split; [reflexivity|].
  eexists. split; [reflexivity|]. cbn. rewrite Hb. auto.
Qed.

(** the final frame: the whole message is returned, exactly the concatenation *)
Lemma step_final s d t f buf x :
  mid s d t f buf -> continues d t f x = true -> x_more x = false -> 1 <= r_credit s ->
  exists info r,
    snd (rstep s (EXfer x)) = [r] /\
    (r = ORecv info (Some f) (buf ++ x_pay x) \/ r = ORecvErr EIllegalRsm) /\
    d_id info = d /\ d_tag info = t /\
    r_inc (fst (rstep s (EXfer x))) = None /\ r_waiting (fst (rstep s (EXfer x))) = false /\
    r_queue (fst (rstep s (EXfer x))) = [] /\
    r_credit (fst (rstep s (EXfer x))) = r_credit s - 1 /\ r_dc (fst (rstep s (EXfer x))) = wadd (r_dc s) 1.
Proof.
  intros (Hw & Hq & i & Hi & Hd & Ht & Hf & Hb) Hc Hm Hcr.
  assert (Hab : x_aborted x = false).
  { unfold continues in Hc. apply andb_prop in Hc as [_ Ha]. destruct (x_aborted x); [discriminate|reflexivity]. }
  cbn [rstep]. unfold fuel_of. cbn [r_queue length]. rewrite Hq. cbn [app length].
  rewrite (pump_one _ x) by (cbn; auto).
  cbn [r_mode r_second r_credit r_dc r_drain r_processed r_inc r_waiting r_held r_unsettled r_reg].
  unfold process. cbn [r_inc]. rewrite Hab, Hm, Hi, (merge_continues i d t f x Hd Ht Hf Hc).
  unfold complete. cbn [set_inc r_credit r_mode r_second r_dc r_drain r_processed r_inc r_queue r_waiting r_held r_unsettled r_reg i_did i_tag i_settled i_fmt i_buf i_rsm].
  destruct (r_credit s <? 1) eqn:E; [lia|].
  rewrite Hb.
  destruct (match or_settled (i_settled i) (x_settled x) with Some true => true | _ => false end).
  - exists (mkD d t None). eexists. cbn [fst snd stop_waiting r_inc r_waiting r_queue r_credit r_dc].
    split; [reflexivity|]. split; [left; reflexivity|]. repeat split; reflexivity.
  - destruct (negb (r_second s) && match i_rsm i with Some true => true | _ => false end).
    + exists (mkD d t None). eexists. cbn [fst snd stop_waiting r_inc r_waiting r_queue r_credit r_dc].
      split; [reflexivity|]. split; [right; reflexivity|]. repeat split; reflexivity.
    + exists (mkD d t (i_rsm i)). eexists. cbn [fst snd stop_waiting r_inc r_waiting r_queue r_credit r_dc].
      split; [reflexivity|]. split; [left; reflexivity|]. repeat split; reflexivity.
Qed.

(** the first frame of a multi-frame delivery *)
Lemma step_first s d t f x :
  r_waiting s = true -> r_queue s = [] -> r_inc s = None ->
  x_did x = Some d -> x_tag x = Some t -> x_fmt x = Some f -> x_aborted x = false -> x_more x = true ->
  snd (rstep s (EXfer x)) = [] /\ mid (fst (rstep s (EXfer x))) d t f (x_pay x) /\
  r_credit (fst (rstep s (EXfer x))) = r_credit s /\ r_dc (fst (rstep s (EXfer x))) = r_dc s.
Proof.
  intros Hw Hq Hi Hd Ht Hf Hab Hm.
  cbn [rstep]. unfold fuel_of. cbn [r_queue length]. rewrite Hq. cbn [app length].
  rewrite (pump_one _ x) by (cbn; auto).
  cbn [r_mode r_second r_credit r_dc r_drain r_processed r_inc r_waiting r_held r_unsettled r_reg].
  unfold process. cbn [r_inc]. rewrite Hab, Hm, Hi. unfold start. cbn [i_tag]. rewrite Ht.
  cbn [set_inc r_mode r_second r_credit r_dc r_drain r_processed r_inc r_queue r_waiting r_held r_unsettled r_reg fst snd].
  split; [reflexivity|]. split; [|split; reflexivity].
  split; [exact Hw|]. split; [reflexivity|]. eexists. split; [reflexivity|]. cbn. rewrite Hd, Hf. auto.
Qed.

(** any number of consistent continuation frames *)
Lemma run_continuations xs : forall s d t f buf,
  mid s d t f buf -> forallb (fun x => continues d t f x && x_more x) xs = true ->
  let r := rrun s (map EXfer xs) in
  concat (snd r) = [] /\ mid (fst r) d t f (buf ++ concat (map x_pay xs)) /\
  r_credit (fst r) = r_credit s /\ r_dc (fst r) = r_dc s /\ r_held (fst r) = r_held s /\ r_second (fst r) = r_second s.
Proof.
  induction xs as [|x xs IH]; intros s d t f buf Hmid Hall; cbn [map rrun concat].
  - cbn. rewrite app_nil_r. auto 6.
  - cbn [forallb] in Hall. apply andb_prop in Hall as [Hx Hall]. apply andb_prop in Hx as [Hc Hm].
    destruct (step_continuation s d t f buf x Hmid Hc Hm) as (Ho & Hmid' & Hcr & Hdc & Hh & Hs).
    destruct (rstep s (EXfer x)) as [s1 o] eqn:E1. cbn [fst snd] in *.
    specialize (IH s1 d t f (buf ++ x_pay x) Hmid' Hall). cbn zeta in IH.
    destruct (rrun s1 (map EXfer xs)) as [s2 os] eqn:E2. cbn [fst snd concat] in *.
    destruct IH as (A & B & C & D & E & F). subst o. cbn [app].
    split; [exact A|]. rewrite <- app_assoc in B. split; [exact B|]. repeat split; congruence.
Qed.

(** an aborted frame discards the delivery in progress and returns nothing *)
Lemma step_abort s x :
  r_waiting s = true -> r_queue s = [] -> x_aborted x = true ->
  snd (rstep s (EXfer x)) = [] /\ r_inc (fst (rstep s (EXfer x))) = None /\
  r_waiting (fst (rstep s (EXfer x))) = true /\ r_queue (fst (rstep s (EXfer x))) = [] /\
  r_credit (fst (rstep s (EXfer x))) = r_credit s /\ r_dc (fst (rstep s (EXfer x))) = r_dc s /\
  r_held (fst (rstep s (EXfer x))) = r_held s.
Proof.
  intros Hw Hq Hab.
  cbn [rstep]. unfold fuel_of. cbn [r_queue length]. rewrite Hq. cbn [app length].
  rewrite (pump_one _ x) by (cbn; auto).
  cbn [r_mode r_second r_credit r_dc r_drain r_processed r_inc r_waiting r_held r_unsettled r_reg].
  unfold process. rewrite Hab. cbn. repeat split; try reflexivity. exact Hw.
Qed.

(** a contradictory continuation is an error, the delivery is dropped, nothing is delivered *)
Lemma step_contradiction s i x :
  r_waiting s = true -> r_queue s = [] -> r_inc s = Some i -> x_aborted x = false -> merge i x = None ->
  snd (rstep s (EXfer x)) = [ORecvErr EInconsistent] /\ r_inc (fst (rstep s (EXfer x))) = None /\
  r_credit (fst (rstep s (EXfer x))) = r_credit s /\ r_dc (fst (rstep s (EXfer x))) = r_dc s /\
  r_held (fst (rstep s (EXfer x))) = r_held s.
Proof.
  intros Hw Hq Hi Hab Hm.
  cbn [rstep]. unfold fuel_of. cbn [r_queue length]. rewrite Hq. cbn [app length].
  rewrite (pump_one _ x) by (cbn; auto).
  cbn [r_mode r_second r_credit r_dc r_drain r_processed r_inc r_waiting r_held r_unsettled r_reg].
  unfold process. cbn [r_inc]. rewrite Hab, Hi, Hm. destruct (x_more x); cbn; repeat split; reflexivity.
Qed.

(** * credit enforcement (C09) *)

Definition is_recv (o : obs) : bool := match o with ORecv _ _ _ => true | _ => false end.
Definition is_flow (o : obs) : bool := match o with OFlow _ _ _ _ => true | _ => false end.
Definition count_recv (os : list obs) : N := N.of_nat (length (filter is_recv os)).

Lemma complete_credit s i : let r := complete s i in
  forallb (fun o => negb (is_flow o)) (snd r) = true /\
  r_credit (fst r) + count_recv (snd r) <= r_credit s /\
  (count_recv (snd r) = 1 -> 1 <= r_credit s).
Proof.
  unfold complete. cbn [set_inc r_credit]. destruct (r_credit s <? 1) eqn:E.
  - cbn. split; [reflexivity|]. split; [lia|]. unfold count_recv. cbn. lia.
  - destruct (i_did i); [destruct (i_tag i)|]; cbn [r_second r_credit fst snd];
      repeat match goal with |- context [if ?b then _ else _] => destruct b end;
      cbn; unfold count_recv; cbn; (split; [reflexivity|]); split; lia.
Qed.

Lemma process_credit s x : let r := process s x in
  forallb (fun o => negb (is_flow o)) (snd r) = true /\
  r_credit (fst r) + count_recv (snd r) <= r_credit s.
Proof.
  unfold process.
  destruct (x_aborted x); [cbn; unfold count_recv; cbn; split; [reflexivity|lia]|].
  destruct (x_more x).
  - destruct (r_inc s) as [i|].
    + destruct (merge i x) as [i'|]; [destruct (i_tag i')|]; cbn; unfold count_recv; cbn; split; try reflexivity; lia.
    + unfold start. cbn [i_tag]. destruct (x_tag x); cbn; unfold count_recv; cbn; split; try reflexivity; lia.
  - destruct (r_inc s) as [i|].
    + destruct (merge i x) as [i'|].
      * destruct (complete_credit s i') as (A & B & _). auto.
      * cbn; unfold count_recv; cbn; split; [reflexivity|lia].
    + destruct (complete_credit s (start x)) as (A & B & _). auto.
Qed.

Lemma pump_credit fuel : forall s, let r := pump fuel s in
  forallb (fun o => negb (is_flow o)) (snd r) = true /\
  r_credit (fst r) + count_recv (snd r) <= r_credit s.
Proof.
  induction fuel as [|f IH]; intros s; cbn [pump].
  - cbn. unfold count_recv. cbn. split; [reflexivity|lia].
  - destruct (r_waiting s); [|cbn; unfold count_recv; cbn; split; [reflexivity|lia]].
    destruct (r_queue s) as [|x q]; [cbn; unfold count_recv; cbn; split; [reflexivity|lia]|].
    set (s0 := mkR _ _ _ _ _ _ _ q _ _ _ _).
    pose proof (process_credit s0 x) as P. cbn zeta in P.
    destruct (process s0 x) as [s1 o] eqn:E. cbn [fst snd] in P.
    assert (r_credit s0 = r_credit s) by reflexivity.
    destruct o as [|o0 o'].
    + specialize (IH s1). cbn zeta in IH. destruct (pump f s1) as [s2 o2]. cbn [fst snd] in *.
      unfold count_recv in P. cbn in P. split; [tauto|lia].
    + cbn [fst snd stop_waiting r_credit]. split; [tauto|lia].
Qed.

Definition quiet (o : obs) : Prop := match o with OFlow _ _ _ _ | ODisp _ _ _ => True | _ => False end.

Lemma quiet_count l : Forall quiet l -> count_recv l = 0 /\ ~ In (ORecvErr ETransferLimit) l.
Proof.
  induction 1 as [|o l Ho _ IH]; [split; [reflexivity|tauto]|].
  destruct IH as [A B]. unfold count_recv in *. destruct o; cbn in Ho |- *; try contradiction; (split; [exact A|intuition discriminate]).
Qed.

Lemma processed_more_quiet s k : Forall quiet (snd (processed_more s k)).
Proof.
  unfold processed_more. destruct (r_mode s) as [|n]; [constructor|].
  destruct (n / 2 <=? r_processed s + k); cbn; repeat constructor.
Qed.

Lemma dispose_one_quiet s d : Forall quiet (snd (dispose_one s d)).
Proof.
  unfold dispose_one.
  match goal with |- context [processed_more ?s1 1] => pose proof (processed_more_quiet s1 1) as Q; destruct (processed_more s1 1) as [s2 o2] end.
  cbn [snd] in *. apply Forall_app. split; [|exact Q]. destruct (existsb _ _); repeat constructor.
Qed.

Lemma dispose_chunk_quiet s c : Forall quiet (snd (dispose_chunk s c)).
Proof. unfold dispose_chunk. destruct c; cbn; repeat constructor. Qed.

Lemma dispose_all_quiet s ds : Forall quiet (snd (dispose_all s ds)).
Proof.
  unfold dispose_all.
  match goal with |- context [fold_left ?f ?l ?a] => set (F := f); set (L := l) end.
  assert (G : forall l u0 o0, Forall quiet o0 -> Forall quiet (snd (fold_left F l (u0, o0)))).
  { induction l as [|c l IHl]; intros u0 o0 H0; cbn [fold_left]; [exact H0|].
    unfold F at 2. match goal with |- context [dispose_chunk ?s1 c] => pose proof (dispose_chunk_quiet s1 c) as Q; destruct (dispose_chunk s1 c) as [u' o'] end.
    apply IHl. apply Forall_app. split; [exact H0|exact Q]. }
  specialize (G L (r_unsettled s) [] (Forall_nil _)).
  destruct (fold_left F L (r_unsettled s, [])) as [u o]. cbn [snd] in G.
  match goal with |- context [processed_more ?s1 ?k] => pose proof (processed_more_quiet s1 k) as Q; destruct (processed_more s1 k) as [s2 o2] end.
  cbn [snd] in *. apply Forall_app. split; assumption.
Qed.

(** a step that returns deliveries writes no flow and takes them off the credit; every other step returns none *)
Lemma rstep_credit s e : let r := rstep s e in
  (count_recv (snd r) = 0 \/
   (forallb (fun o => negb (is_flow o)) (snd r) = true /\ r_credit (fst r) + count_recv (snd r) <= r_credit s)).
Proof.
  destruct e; cbn [rstep].
  - right. match goal with |- context [pump ?f ?s1] => pose proof (pump_credit f s1) as P end. cbn zeta in P. exact P.
  - destruct (r_waiting s); [left; reflexivity|].
    right. match goal with |- context [pump ?f ?s1] => pose proof (pump_credit f s1) as P end. cbn zeta in P. exact P.
  - left. reflexivity.
  - left. reflexivity.
  - left. destruct (r_drain s); reflexivity.
  - left. destruct dc; destruct echo; reflexivity.
  - left. destruct (if newest then rev (r_held s) else r_held s) as [|d rest]; [reflexivity|].
    apply quiet_count, dispose_one_quiet.
  - left. destruct (r_held s) as [|d0 ds]; [reflexivity|]. apply quiet_count, dispose_all_quiet.
  - left. reflexivity.
Qed.

(** * replenishment in automatic mode (C09) *)

Definition single (d : N) (pay : list N) : xfer := mkX (Some d) (Some d) (Some 0) None false None false pay.

(** one round of an honest sender and a diligent application: transfer, recv, accept *)
Definition round (d : N) (pay : list N) : list ev := [EXfer (single d pay); ERecv; EAccept false].

Definition idle_auto (n : N) (s : rstate) : Prop :=
  r_mode s = Auto n /\ r_waiting s = false /\ r_queue s = [] /\ r_inc s = None /\ r_held s = [] /\
  r_credit s + r_processed s = n /\ (r_processed s < n / 2 \/ r_processed s = 0).

Lemma idle_auto_has_credit n s : 1 <= n -> idle_auto n s -> 1 <= r_credit s.
Proof.
  intros Hn (_ & _ & _ & _ & _ & Hsum & [Hp | Hp]); [|lia].
  assert (n / 2 <= n - 1) by (zify; lia). lia.
Qed.

Lemma arrive_not_waiting s x : r_waiting s = false ->
  let r := rstep s (EXfer x) in
  snd r = [] /\ r_queue (fst r) = r_queue s ++ [x] /\ r_waiting (fst r) = false /\ r_mode (fst r) = r_mode s /\
  r_credit (fst r) = r_credit s /\ r_processed (fst r) = r_processed s /\ r_inc (fst r) = r_inc s /\ r_held (fst r) = r_held s.
Proof.
  intros Hw. cbn [rstep]. unfold fuel_of. cbn [pump r_waiting]. rewrite Hw. cbn. auto 10.
Qed.

Lemma recv_single s d pay : r_waiting s = false -> r_queue s = [single d pay] -> r_inc s = None -> 1 <= r_credit s ->
  let r := rstep s ERecv in
  exists info, snd r = [ORecv info (Some 0) pay] /\ d_id info = d /\
  r_queue (fst r) = [] /\ r_waiting (fst r) = false /\ r_mode (fst r) = r_mode s /\
  r_credit (fst r) = r_credit s - 1 /\ r_processed (fst r) = r_processed s /\ r_inc (fst r) = None /\
  r_held (fst r) = r_held s ++ [info].
Proof.
  intros Hw Hq Hi Hc. cbn [rstep]. rewrite Hw. unfold fuel_of. cbn [r_queue length]. rewrite Hq. cbn [length].
  rewrite (pump_one _ (single d pay)) by (cbn; auto).
  cbn [r_mode r_second r_credit r_dc r_drain r_processed r_inc r_waiting r_held r_unsettled r_reg].
  unfold process. cbn [x_aborted single x_more r_inc]. rewrite Hi.
  unfold complete, start. cbn [set_inc r_credit r_mode r_second r_dc r_drain r_processed r_inc r_queue r_waiting r_held r_unsettled r_reg
                              i_did i_tag i_settled i_fmt i_buf i_rsm x_did x_tag x_fmt x_settled x_rsm x_pay single].
  destruct (r_credit s <? 1) eqn:E; [lia|].
  rewrite andb_false_r. cbn. eexists. repeat split; reflexivity.
Qed.

Lemma accept_auto s n info : r_waiting s = false -> r_held s = [info] -> r_mode s = Auto n ->
  let r := rstep s (EAccept false) in
  Forall quiet (snd r) /\ r_held (fst r) = [] /\ r_waiting (fst r) = false /\ r_queue (fst r) = r_queue s /\
  r_inc (fst r) = r_inc s /\ r_mode (fst r) = Auto n /\
  (if n / 2 <=? r_processed s + 1 then r_credit (fst r) = n /\ r_processed (fst r) = 0
   else r_credit (fst r) = r_credit s /\ r_processed (fst r) = r_processed s + 1).
Proof.
  intros Hw Hh Hm. cbn [rstep]. rewrite Hh.
  split; [apply dispose_one_quiet|].
  unfold dispose_one, drop_held, processed_more.
  cbn [r_mode r_second r_credit r_dc r_drain r_processed r_inc r_queue r_waiting r_held r_unsettled r_reg].
  rewrite Hm. destruct (n / 2 <=? r_processed s + 1); cbn; auto 10.
Qed.

Lemma round_ok n s d pay : 1 <= n -> idle_auto n s ->
  let r := rrun s (round d pay) in
  idle_auto n (fst r) /\
  exists info o3, snd r = [[]; [ORecv info (Some 0) pay]; o3] /\ d_id info = d /\ Forall quiet o3.
Proof.
  intros Hn I. pose proof (idle_auto_has_credit n s Hn I) as Hc.
  destruct I as (Hm & Hw & Hq & Hi & Hh & Hsum & Hp).
  unfold round. cbn [rrun].
  pose proof (arrive_not_waiting s (single d pay) Hw) as A. cbn zeta in A.
  destruct (rstep s (EXfer (single d pay))) as [s1 o1]. cbn [fst snd] in A.
  destruct A as (-> & Aq & Aw & Am & Ac & Ap & Ai & Ah). rewrite Hq in Aq. cbn [app] in Aq.
  pose proof (recv_single s1 d pay Aw Aq (eq_trans Ai Hi) ltac:(lia)) as B. cbn zeta in B.
  destruct (rstep s1 ERecv) as [s2 o2]. cbn [fst snd] in B.
  destruct B as (info & -> & Bid & Bq & Bw & Bm & Bc & Bp & Bi & Bh). rewrite Ah, Hh in Bh. cbn [app] in Bh.
  pose proof (accept_auto s2 n info Bw Bh (eq_trans Bm (eq_trans Am Hm))) as C. cbn zeta in C.
  destruct (rstep s2 (EAccept false)) as [s3 o3]. cbn [fst snd] in *.
  destruct C as (Cq & Ch & Cw & Cqu & Ci & Cm & Cc).
  split.
  - unfold idle_auto. rewrite Cm, Cw, Cqu, Bq, Ci, Bi, Ch. repeat split; try reflexivity.
    + rewrite Bp, Ap in Cc. destruct (n / 2 <=? r_processed s + 1) eqn:E; destruct Cc as [-> ->]; lia.
    + rewrite Bp, Ap in Cc. destruct (n / 2 <=? r_processed s + 1) eqn:E; destruct Cc as [C1 ->]; [right; reflexivity|left; lia].
  - exists info, o3. auto.
Qed.

Lemma rrun_app es1 : forall s es2,
  rrun s (es1 ++ es2) = let '(s1, o1) := rrun s es1 in let '(s2, o2) := rrun s1 es2 in (s2, o1 ++ o2).
Proof.
  induction es1 as [|e es1 IH]; intros s es2; cbn [rrun app].
  - destruct (rrun s es2); reflexivity.
  - destruct (rstep s e) as [s1 o]. rewrite IH.
    destruct (rrun s1 es1) as [s2 o1]. destruct (rrun s2 es2) as [s3 o2]. reflexivity.
Qed.

(** an arbitrarily long stream: every delivery is returned, none is refused *)
Lemma stream_never_stalls n : 1 <= n -> forall (ds : list (N * list N)) s,
  idle_auto n s ->
  let r := rrun s (concat (map (fun p => round (fst p) (snd p)) ds)) in
  idle_auto n (fst r) /\
  count_recv (concat (snd r)) = N.of_nat (length ds) /\
  ~ In (ORecvErr ETransferLimit) (concat (snd r)).
Proof.
  intros Hn ds. induction ds as [|[d pay] ds IH]; intros s I; cbn [map concat].
  - cbn. split; [exact I|]. split; [reflexivity|tauto].
  - rewrite rrun_app. cbn [fst snd].
    pose proof (round_ok n s d pay Hn I) as R. cbn zeta in R.
    destruct (rrun s (round d pay)) as [s1 o1] eqn:E1. cbn [fst snd] in R.
    destruct R as (I1 & info & c & -> & Hid & Hq).
    specialize (IH s1 I1). cbn zeta in IH.
    destruct (rrun s1 _) as [s2 o2] eqn:E2. cbn [fst snd] in *.
    destruct IH as (I2 & C2 & N2).
    destruct (quiet_count c Hq) as [Hc1 Hc2].
    split; [exact I2|]. split.
    + assert (Hsplit : forall a b, count_recv (a ++ b) = count_recv a + count_recv b).
      { intros a b. unfold count_recv. rewrite filter_app, app_length. lia. }
      change (concat ([[]; [ORecv info (Some 0) pay]; c] ++ o2)) with ([ORecv info (Some 0) pay] ++ (c ++ concat o2)).
      rewrite !Hsplit, Hc1, C2. unfold count_recv. cbn [filter is_recv length]. rewrite Nat2N.inj_succ. lia.
    + cbn [concat app In]. rewrite in_app_iff. intuition discriminate.
Qed.

Lemma idle_auto_init n second idc : idle_auto n (rinit (Auto n) second idc).
Proof. unfold idle_auto, rinit. cbn. repeat split; try reflexivity; lia. Qed.

(** * delivery-count accounting (C09) *)

(** how many deliveries a list of observations says were counted *)
Definition counted (o : obs) : bool :=
  match o with
  | ORecv _ _ _ => true
  | ORecvErr ENoDeliveryId | ORecvErr ENoDeliveryTag | ORecvErr EIllegalRsm => true
  | _ => false
  end.

(** with no credit left a completed delivery is refused, not returned *)
Lemma complete_refuses s i : r_credit s = 0 -> snd (complete s i) = [ORecvErr ETransferLimit].
Proof. intros H. unfold complete. cbn [set_inc r_credit]. rewrite H. reflexivity. Qed.

(** a whole multi-frame delivery: first frame, any consistent continuations, final frame *)
Lemma reassembly s d t f x0 xs xf :
  r_waiting s = true -> r_queue s = [] -> r_inc s = None -> 1 <= r_credit s ->
  x_did x0 = Some d -> x_tag x0 = Some t -> x_fmt x0 = Some f -> x_aborted x0 = false -> x_more x0 = true ->
  forallb (fun x => continues d t f x && x_more x) xs = true ->
  continues d t f xf = true -> x_more xf = false ->
  let r := rrun s (EXfer x0 :: map EXfer xs ++ [EXfer xf]) in
  exists info res,
    concat (removelast (snd r)) = [] /\ last (snd r) [] = [res] /\
    (res = ORecv info (Some f) (x_pay x0 ++ concat (map x_pay xs) ++ x_pay xf) \/ res = ORecvErr EIllegalRsm) /\
    d_id info = d /\ d_tag info = t /\
    r_inc (fst r) = None /\ r_credit (fst r) = r_credit s - 1 /\ r_dc (fst r) = wadd (r_dc s) 1.
Proof.
  intros Hw Hq Hi Hc Hd Ht Hf Hab Hm Hall Hcf Hmf. cbn zeta. cbn [rrun].
  destruct (step_first s d t f x0 Hw Hq Hi Hd Ht Hf Hab Hm) as (O1 & M1 & C1 & D1).
  destruct (rstep s (EXfer x0)) as [s1 o1]. cbn [fst snd] in *. subst o1.
  rewrite rrun_app.
  pose proof (run_continuations xs s1 d t f (x_pay x0) M1 Hall) as R. cbn zeta in R.
  destruct (rrun s1 (map EXfer xs)) as [s2 o2]. cbn [fst snd] in R.
  destruct R as (O2 & M2 & C2 & D2 & _ & _).
  cbn [rrun].
  destruct (step_final s2 d t f _ xf M2 Hcf Hmf ltac:(lia)) as (info & res & O3 & Hres & Hid & Htag & I3 & W3 & Q3 & C3 & D3).
  destruct (rstep s2 (EXfer xf)) as [s3 o3]. cbn [fst snd] in *. subst o3.
  exists info, res.
  assert (L : forall (l : list (list obs)) a, removelast (l ++ [a]) = l /\ last (l ++ [a]) [] = a).
  { intros l a. split; [apply removelast_last|apply last_last]. }
  change ([] :: o2 ++ [[res]]) with (([] :: o2) ++ [[res]]).
  destruct (L ([] :: o2) [res]) as [L1 L2]. rewrite L1, L2. cbn [concat app].
  split; [exact O2|]. split; [reflexivity|]. rewrite <- app_assoc in Hres. split; [exact Hres|].
  repeat split; try assumption; congruence.
Qed.

Lemma processed_more_flow s k dc c dr ec :
  In (OFlow dc c dr ec) (snd (processed_more s k)) ->
  dc = r_dc (fst (processed_more s k)) /\ c = r_credit (fst (processed_more s k)).
Proof.
  unfold processed_more. destruct (r_mode s) as [|n]; [intros []|].
  destruct (n / 2 <=? r_processed s + k); cbn; [|intros []].
  intros [E|[]]. injection E as <- <- _ _. split; reflexivity.
Qed.

(** every flow a step writes carries the delivery-count and the credit the link holds after that step *)
Lemma flow_reports_state s e dc c dr ec :
  In (OFlow dc c dr ec) (snd (rstep s e)) ->
  dc = r_dc (fst (rstep s e)) /\ c = r_credit (fst (rstep s e)).
Proof.
  destruct e; cbn [rstep].
  - match goal with |- context [pump ?f ?s1] => pose proof (pump_credit f s1) as P end. cbn zeta in P.
    destruct P as [P _]. rewrite forallb_forall in P. intros H. specialize (P _ H). discriminate.
  - destruct (r_waiting s); [intros []|].
    match goal with |- context [pump ?f ?s1] => pose proof (pump_credit f s1) as P end. cbn zeta in P.
    destruct P as [P _]. rewrite forallb_forall in P. intros H. specialize (P _ H). discriminate.
  - intros [].
  - cbn. intros [H|[]]. injection H as <- <- _ _. split; reflexivity.
  - destruct (r_drain s); cbn; [intros []|]. intros [H|[]]. injection H as <- <- _ _. split; reflexivity.
  - destruct dc0; destruct echo; cbn; intros H; try contradiction; destruct H as [H|H]; try contradiction;
      injection H as <- <- _ _; split; reflexivity.
  - destruct (if newest then rev (r_held s) else r_held s) as [|d rest]; [intros []|].
    unfold dispose_one.
    match goal with |- context [processed_more ?s1 1] => pose proof (processed_more_flow s1 1 dc c dr ec) as Q; destruct (processed_more s1 1) as [s2 o2] end.
    cbn [fst snd] in *. intros H. apply in_app_iff in H as [H|H]; [|exact (Q H)].
    destruct (existsb _ _); cbn in H; intuition discriminate.
  - destruct (r_held s) as [|d0 ds]; [intros []|].
    unfold dispose_all.
    match goal with |- context [fold_left ?f ?l ?a] => set (F := f); set (L := l) end.
    assert (G : forall l u0 o0, (forall x, In x o0 -> is_flow x = false) -> forall x, In x (snd (fold_left F l (u0, o0))) -> is_flow x = false).
    { induction l as [|ch l IHl]; intros u0 o0 H0; cbn [fold_left]; [exact H0|].
      unfold F at 2. unfold dispose_chunk. destruct ch as [|c0 c']; cbn [r_unsettled].
      - rewrite app_nil_r. apply IHl. exact H0.
      - apply IHl. intros x Hx. apply in_app_iff in Hx as [Hx|[<-|[]]]; [apply H0; exact Hx|reflexivity]. }
    specialize (G L (r_unsettled (drop_held s [])) [] (fun _ H => match H with end)).
    destruct (fold_left F L _) as [u o]. cbn [snd] in G.
    match goal with |- context [processed_more ?s1 ?k] => pose proof (processed_more_flow s1 k dc c dr ec) as Q; destruct (processed_more s1 k) as [s2 o2] end.
    cbn [fst snd] in *. intros H. apply in_app_iff in H as [H|H]; [|exact (Q H)].
    specialize (G _ H). discriminate.
  - intros [].
Qed.


(** * cancelling recv() (C16) *)

(** while a recv() is pending nothing is left in the queue: whatever has arrived has been looked at *)
Definition drained (s : rstate) : Prop := r_waiting s = true -> r_queue s = [].

Lemma pump_drained fuel : forall s, (length (r_queue s) < fuel)%nat -> drained (fst (pump fuel s)).
Proof.
  induction fuel as [|f IH]; intros s Hl; [inversion Hl|]. cbn [pump].
  destruct (r_waiting s) eqn:Hw; [|cbn; unfold drained; congruence].
  destruct (r_queue s) as [|x q] eqn:Hq; [cbn; unfold drained; auto|].
  set (s0 := mkR _ _ _ _ _ _ _ q _ _ _ _).
  pose proof (process_queue s0 x) as Q. destruct (process s0 x) as [s1 o]. cbn [fst r_queue] in Q.
  destruct o.
  - apply IH. rewrite Q. subst s0. cbn [r_queue]. cbn [length] in Hl. apply Nat.succ_lt_mono in Hl. exact Hl.
  - cbn [fst]. unfold drained, stop_waiting. cbn. discriminate.
Qed.

Lemma rstep_drained s e : drained s -> drained (fst (rstep s e)).
Proof.
  intros D. destruct e; cbn [rstep].
  - apply pump_drained. unfold fuel_of. cbn [r_queue]. auto.
  - destruct (r_waiting s) eqn:Hw; [exact D|]. apply pump_drained. unfold fuel_of. cbn [r_queue]. auto.
  - unfold drained, stop_waiting. cbn. discriminate.
  - unfold flow_out, drained. cbn. exact D.
  - destruct (r_drain s); unfold flow_out, drained; cbn; exact D.
  - destruct dc; unfold drained; cbn; exact D.
  - destruct (if newest then rev (r_held s) else r_held s) as [|d rest]; [exact D|].
    unfold dispose_one, processed_more, drop_held, drained.
    cbn [r_mode r_processed r_waiting r_queue]. destruct (r_mode s) as [|n]; [|destruct (n / 2 <=? _)]; cbn; exact D.
  - destruct (r_held s) as [|d0 ds]; [exact D|].
    unfold dispose_all. match goal with |- context [fold_left ?f ?l ?a] => destruct (fold_left f l a) as [u o] end.
    unfold processed_more, drop_held, drained. cbn [r_mode r_processed r_waiting r_queue].
    destruct (r_mode s) as [|n]; [|destruct (n / 2 <=? _)]; cbn; exact D.
  - unfold drained. cbn. exact D.
Qed.

Lemma rrun_drained es : forall s, drained s -> drained (fst (rrun s es)).
Proof.
  induction es as [|e es IH]; intros s D; cbn [rrun]; [exact D|].
  pose proof (rstep_drained s e D) as D1. destruct (rstep s e) as [s1 o]. cbn [fst] in D1.
  specialize (IH s1 D1). destruct (rrun s1 es) as [s2 os]. exact IH.
Qed.

(** dropping a pending recv() and calling recv() again changes nothing: no output, the same state -
    every delivery, whole or partial, that the cancelled call had taken in is still there *)
Lemma cancel_then_recv_is_identity s : drained s -> r_waiting s = true ->
  rrun s [ECancelRecv; ERecv] = (s, [[]; []]).
Proof.
  intros D Hw. specialize (D Hw). destruct s. cbn in D, Hw. subst. reflexivity.
Qed.

(** ... and a cancellation when no recv() is pending does nothing at all *)
Lemma cancel_idle s : r_waiting s = false -> rstep s ECancelRecv = (s, []).
Proof. intros Hw. cbn [rstep]. unfold stop_waiting. destruct s. cbn in *. subst. reflexivity. Qed.

Lemma drained_init m second idc : drained (rinit m second idc).
Proof. unfold drained, rinit. cbn. discriminate. Qed.

(** a recv() dropped at ANY point of ANY history, and re-issued, leaves the rest of the history unchanged:
    same final state, same observations (the two extra steps observe nothing) *)
Lemma cancel_anywhere m second idc es1 es2 :
  let s0 := rinit m second idc in
  r_waiting (fst (rrun s0 es1)) = true ->
  fst (rrun s0 (es1 ++ ECancelRecv :: ERecv :: es2)) = fst (rrun s0 (es1 ++ es2)) /\
  concat (snd (rrun s0 (es1 ++ ECancelRecv :: ERecv :: es2))) = concat (snd (rrun s0 (es1 ++ es2))).
Proof.
  intros s0 Hw.
  pose proof (rrun_drained es1 s0 (drained_init m second idc)) as D.
  rewrite (rrun_app es1 s0 (ECancelRecv :: ERecv :: es2)), (rrun_app es1 s0 es2).
  destruct (rrun s0 es1) as [s1 o1]. cbn [fst] in Hw, D.
  change (ECancelRecv :: ERecv :: es2) with ([ECancelRecv; ERecv] ++ es2).
  rewrite (rrun_app [ECancelRecv; ERecv] s1 es2), (cancel_then_recv_is_identity s1 D Hw).
  destruct (rrun s1 es2) as [s2 o2]. cbn [fst snd]. split; [reflexivity|].
  rewrite !concat_app. reflexivity.
Qed.
