From FV Require Import Base.Serial Session.Window Session.Disposition.
From Coq Require Import Lia ZArith ZifyN ZifyBool ZifyNat.
Open Scope N_scope.

(** ** association lists *)
Lemma assoc_mem_remove tag m : assoc_mem tag (assoc_remove tag m) = false.
Proof.
  induction m as [|[t s] m IH]; cbn; auto. destruct (t =? tag) eqn:E; auto. cbn. rewrite E. exact IH.
Qed.

Lemma dkey_eqb_refl k : dkey_eqb k k = true.
Proof. destruct k as [b n]. unfold dkey_eqb. cbn. rewrite Bool.eqb_reflx, N.eqb_refl. reflexivity. Qed.
Lemma dkey_eqb_eq a b : dkey_eqb a b = true -> a = b.
Proof.
  destruct a as [x n], b as [y m]. unfold dkey_eqb. cbn. intros H. apply andb_true_iff in H. destruct H as [H1 H2].
  apply Bool.eqb_prop in H1. apply N.eqb_eq in H2. congruence.
Qed.

Lemma dm_get_remove_same k m : dm_get k (dm_remove k m) = None.
Proof.
  induction m as [|[k' v] m IH]; cbn; auto. destruct (dkey_eqb k k') eqn:E; auto. cbn. rewrite E. exact IH.
Qed.
Lemma dm_get_remove_other k k' m : dkey_eqb k k' = false -> dm_get k (dm_remove k' m) = dm_get k m.
Proof.
  intros H. induction m as [|[k2 v] m IH]; cbn; auto.
  destruct (dkey_eqb k' k2) eqn:E.
  - apply dkey_eqb_eq in E. subst k2. rewrite H. exact IH.
  - cbn. destruct (dkey_eqb k k2); auto.
Qed.

(** ** one delivery-id of the loop *)
Definition sender_second (s : dstate) (ih : N) : bool :=
  match links_get ih (d_links s) with Some (LSender true _) => true | _ => false end.

Definition sender_has (s : dstate) (ih tag : N) : bool :=
  match links_get ih (d_links s) with Some (LSender _ uns) => assoc_mem tag uns | _ => false end.

(** the echo decision: exactly the terminal unsettled reports on second-mode sender links *)
Lemma dispose_one_echo role settled st s id s' res e :
  dispose_one role settled st s id = (s', res, e) ->
  e = (if negb settled && terminal st &&
          match dm_get (role, id) (d_map s) with Some (ih, _) => sender_second s ih | None => false end
       then [id] else []).
Proof.
  unfold dispose_one, sender_second. destruct (dm_get (role, id) (d_map s)) as [[ih tag]|].
  - destruct (links_get ih (d_links s)) as [l|].
    + destruct l as [sec uns|uns]; unfold relay_disposition.
      * destruct settled.
        -- intros H; injection H as <- <- <-. reflexivity.
        -- destruct (terminal st).
           ++ intros H; injection H as <- <- <-. destruct sec; reflexivity.
           ++ intros H; injection H as <- <- <-. reflexivity.
      * destruct settled; intros H; injection H as <- <- <-; rewrite ?andb_false_r; reflexivity.
    + intros H; injection H as <- <- <-. rewrite ?andb_false_r. reflexivity.
  - intros H; injection H as <- <- <-. rewrite ?andb_false_r. reflexivity.
Qed.

(** a send is resolved only by a settling or terminal disposition that names its own
    delivery-id, with that disposition's state, and only if it was still unsettled *)
Lemma dispose_one_resolution role settled st s id s' res e ih tag o :
  dispose_one role settled st s id = (s', res, e) -> In (ih, tag, o) res ->
  o = st /\ (settled = true \/ terminal st = true) /\
  dm_get (role, id) (d_map s) = Some (ih, tag) /\ sender_has s ih tag = true /\ sender_has s' ih tag = false.
Proof.
  unfold dispose_one, sender_has. destruct (dm_get (role, id) (d_map s)) as [[ih0 tag0]|]; [|intros H; injection H as <- <- <-; intros []].
  destruct (links_get ih0 (d_links s)) as [l|] eqn:El; [|intros H; injection H as <- <- <-; intros []].
  assert (Hset : forall l', links_get ih0 (links_set ih0 l' (d_links s)) = Some l').
  { intros l'. clear - El. induction (d_links s) as [|[h l0] ls IH]; cbn in *; [discriminate|].
    destruct (h =? ih0) eqn:E; cbn; rewrite E; auto. }
  destruct l as [sec uns|uns]; unfold relay_disposition.
  - destruct settled.
    + destruct (assoc_mem tag0 uns) eqn:Em; intros H; injection H as <- <- <-; cbn [d_links]; intros Hin; [|destruct Hin].
      destruct Hin as [Hin|[]]. injection Hin as <- <- <-. rewrite El, Hset, assoc_mem_remove. auto.
    + destruct (terminal st) eqn:Et.
      * destruct (assoc_mem tag0 uns) eqn:Em; intros H; injection H as <- <- <-; cbn [d_links]; intros Hin; [|destruct Hin].
        destruct Hin as [Hin|[]]. injection Hin as <- <- <-. rewrite El, Hset, assoc_mem_remove. auto.
      * intros H; injection H as <- <- <-. intros [].
  - destruct settled; intros H; injection H as <- <- <-; intros [].
Qed.

(** once settled or echoed the session no longer knows the delivery *)
Lemma dispose_one_forgets role settled st s id s' res e :
  dispose_one role settled st s id = (s', res, e) ->
  (settled = true \/ e = [id]) -> dm_get (role, id) (d_map s') = None.
Proof.
  unfold dispose_one. destruct (dm_get (role, id) (d_map s)) as [[ih tag]|] eqn:Eg.
  - destruct (links_get ih (d_links s)) as [l|].
    + destruct (relay_disposition ih l settled st tag) as [[l' r] ec] eqn:Er.
      intros H; injection H as <- <- <-. cbn [d_map]. intros [->|He].
      * destruct ec; apply dm_get_remove_same.
      * destruct ec; [|discriminate]. apply dm_get_remove_same.
    + intros H; injection H as <- <- <-. cbn [d_map]. intros [->|He]; [apply dm_get_remove_same|discriminate].
  - intros H; injection H as <- <- <-. intros _. exact Eg.
Qed.


(** ** runs of consecutive ids cover exactly the ids *)
Definition covered (rs : list (N * N)) (x : N) : Prop := exists r, In r rs /\ fst r <= x <= snd r.

Lemma runs_from_cover : forall ids f l x, f <= l ->
  (covered (runs_from f l ids) x <-> (f <= x <= l \/ In x ids)).
Proof.
  induction ids as [|x0 r IH]; intros f l x Hfl; cbn [runs_from].
  - unfold covered. split.
    + intros ((a, b) & [Heq|[]] & H). injection Heq as <- <-. left. exact H.
    + intros [H|[]]. exists (f, l). split; [left; reflexivity|exact H].
  - destruct (x0 =? l + 1) eqn:E.
    + apply N.eqb_eq in E. rewrite IH by lia. cbn [In].
      split; [intros [H|H]; [destruct (N.eq_dec x x0); [right; left; lia|left; lia]|right; right; exact H]
             |intros [H|[H|H]]; [left; lia|left; lia|right; exact H]].
    + unfold covered in *. split.
      * intros (rr & [Heq|Hin] & H).
        -- subst rr. left. exact H.
        -- assert (C : covered (runs_from x0 x0 r) x) by (exists rr; auto).
           apply IH in C; [|lia]. cbn [In]. destruct C as [C|C]; [right; left; lia|right; right; exact C].
      * intros [H|[H|H]].
        -- exists (f, l). split; [left; reflexivity|exact H].
        -- subst x0. assert (C : covered (runs_from x x r) x) by (apply IH; [lia|left; lia]).
           destruct C as (rr & Hin & Hc). exists rr. split; [right; exact Hin|exact Hc].
        -- assert (C : covered (runs_from x0 x0 r) x) by (apply IH; [lia|right; exact H]).
           destruct C as (rr & Hin & Hc). exists rr. split; [right; exact Hin|exact Hc].
Qed.

Lemma runs_cover ids x : covered (runs ids) x <-> In x ids.
Proof.
  destruct ids as [|x0 r]; cbn [runs].
  - unfold covered. split; [intros (rr & [] & _)|intros []].
  - rewrite runs_from_cover by lia. cbn [In].
    split; [intros [H|H]; [left; lia|right; exact H]|intros [H|H]; [left; lia|right; exact H]].
Qed.

(** ** the loop over the ids *)
Lemma links_get_set_other ih ih' l ls : ih' <> ih -> links_get ih' (links_set ih l ls) = links_get ih' ls.
Proof.
  intros H. induction ls as [|[h l0] ls IH]; cbn; auto.
  destruct (h =? ih) eqn:E; cbn.
  - apply N.eqb_eq in E. subst h. destruct (ih =? ih') eqn:E2; [apply N.eqb_eq in E2; congruence|reflexivity].
  - destruct (h =? ih'); auto.
Qed.
Lemma links_get_set_same ih l l0 ls : links_get ih ls = Some l0 -> links_get ih (links_set ih l ls) = Some l.
Proof.
  induction ls as [|[h l1] ls IH]; cbn; [discriminate|]. destruct (h =? ih) eqn:E; cbn; rewrite E; auto.
Qed.

Lemma relay_keeps_mode ih l settled st tag l' res ec :
  relay_disposition ih l settled st tag = (l', res, ec) ->
  match l, l' with
  | LSender a _, LSender b _ => a = b
  | LReceiver _, LReceiver _ => True
  | _, _ => False
  end.
Proof.
  destruct l as [sec uns|uns]; unfold relay_disposition.
  - destruct settled; [intros H; injection H as <- _ _; reflexivity|].
    destruct (terminal st); intros H; injection H as <- _ _; reflexivity.
  - destruct settled; intros H; injection H as <- _ _; exact I.
Qed.

Lemma dispose_one_preserves role settled st s id s' res e :
  dispose_one role settled st s id = (s', res, e) ->
  (forall ih, sender_second s' ih = sender_second s ih) /\
  (forall id', id' <> id -> dm_get (role, id') (d_map s') = dm_get (role, id') (d_map s)).
Proof.
  unfold dispose_one. destruct (dm_get (role, id) (d_map s)) as [[ih tag]|] eqn:Eg.
  - assert (Hother : forall id', id' <> id -> dkey_eqb (role, id') (role, id) = false).
    { intros id' Hne. unfold dkey_eqb. cbn. rewrite Bool.eqb_reflx. cbn. apply N.eqb_neq. exact Hne. }
    destruct (links_get ih (d_links s)) as [l|] eqn:El.
    + destruct (relay_disposition ih l settled st tag) as [[l' r] ec] eqn:Er.
      intros H; injection H as <- <- <-. cbn [d_map d_links]. split.
      * intros ih'. unfold sender_second. cbn [d_links]. destruct (N.eq_dec ih' ih) as [->|Hne].
        -- rewrite (links_get_set_same _ _ _ _ El), El. pose proof (relay_keeps_mode _ _ _ _ _ _ _ _ Er) as Hm.
           destruct l, l'; try contradiction; subst; reflexivity.
        -- rewrite links_get_set_other by exact Hne. reflexivity.
      * intros id' Hne. specialize (Hother id' Hne).
        destruct ec, settled; rewrite ?dm_get_remove_other by exact Hother; reflexivity.
    + intros H; injection H as <- <- <-. cbn [d_map d_links]. split; [reflexivity|].
      intros id' Hne. destruct settled; rewrite ?dm_get_remove_other by (apply Hother; exact Hne); reflexivity.
  - intros H; injection H as <- <- <-. split; reflexivity.
Qed.

(** which ids get an echo, decided on the state before the disposition *)
Definition echo_wanted (role settled : bool) (st : option N) (s : dstate) (id : N) : bool :=
  negb settled && terminal st &&
  match dm_get (role, id) (d_map s) with Some (ih, _) => sender_second s ih | None => false end.

Lemma dispose_ids_echo role settled st : forall ids s s' res echoed,
  NoDup ids -> dispose_ids role settled st s ids = (s', res, echoed) ->
  echoed = filter (echo_wanted role settled st s) ids.
Proof.
  induction ids as [|id r IH]; intros s s' res echoed Hnd E; cbn [dispose_ids] in E.
  - injection E as <- <- <-. reflexivity.
  - destruct (dispose_one role settled st s id) as [[s1 r1] e1] eqn:E1.
    destruct (dispose_ids role settled st s1 r) as [[s2 r2] e2] eqn:E2. injection E as <- <- <-.
    inversion Hnd as [|? ? Hnotin Hnd']; subst.
    rewrite (IH _ _ _ _ Hnd' E2). rewrite (dispose_one_echo _ _ _ _ _ _ _ _ E1).
    destruct (dispose_one_preserves _ _ _ _ _ _ _ _ E1) as [Hsec Hmap].
    cbn [filter]. fold (echo_wanted role settled st s id).
    assert (Hf : filter (echo_wanted role settled st s1) r = filter (echo_wanted role settled st s) r).
    { apply filter_ext_in. intros x Hx. unfold echo_wanted. rewrite Hmap by (intros ->; contradiction).
      destruct (dm_get (role, x) (d_map s)) as [[ih ?]|]; [rewrite Hsec|]; reflexivity. }
    rewrite Hf. destruct (echo_wanted role settled st s id); reflexivity.
Qed.

(** resolutions of the whole loop: each names a delivery-id of the range and carries the
    disposition's own state *)
Lemma dispose_ids_resolutions role settled st : forall ids s s' res echoed ih tag o,
  dispose_ids role settled st s ids = (s', res, echoed) -> In (ih, tag, o) res ->
  o = st /\ (settled = true \/ terminal st = true) /\ exists id, In id ids.
Proof.
  induction ids as [|id r IH]; intros s s' res echoed ih tag o E Hin; cbn [dispose_ids] in E.
  - injection E as <- <- <-. destruct Hin.
  - destruct (dispose_one role settled st s id) as [[s1 r1] e1] eqn:E1.
    destruct (dispose_ids role settled st s1 r) as [[s2 r2] e2] eqn:E2. injection E as <- <- <-.
    apply in_app_or in Hin. destruct Hin as [Hin|Hin].
    + destruct (dispose_one_resolution _ _ _ _ _ _ _ _ _ _ _ E1 Hin) as (A & B & _).
      repeat split; auto. exists id. left; reflexivity.
    + destruct (IH _ _ _ _ _ _ _ E2 Hin) as (A & B & (id' & C)). repeat split; auto. exists id'. right; exact C.
Qed.

(** ** the ids visited by the range loop *)
Lemma insert_sorted_in x y l : In y (insert_sorted x l) <-> y = x \/ In y l.
Proof.
  induction l as [|z l IH]; cbn [insert_sorted In]; [intuition|].
  destruct (x <=? z); cbn [In]; rewrite ?IH; intuition.
Qed.
Lemma insert_sorted_nodup x l : ~ In x l -> NoDup l -> NoDup (insert_sorted x l).
Proof.
  induction l as [|z l IH]; intros Hn Hd; cbn [insert_sorted]; [constructor; auto|].
  destruct (x <=? z); [constructor; auto|].
  inversion Hd; subst. constructor.
  - rewrite insert_sorted_in. intros [->|H]; [apply Hn; left; reflexivity|contradiction].
  - apply IH; auto. intros H. apply Hn. right; exact H.
Qed.
Lemma fold_insert_in l y : In y (fold_right insert_sorted [] l) <-> In y l.
Proof. induction l as [|x l IH]; cbn; [tauto|]. rewrite insert_sorted_in, IH. intuition. Qed.
Lemma fold_insert_nodup l : NoDup l -> NoDup (fold_right insert_sorted [] l).
Proof.
  induction 1 as [|x l Hn Hd IH]; cbn; [constructor|]. apply insert_sorted_nodup; auto. rewrite fold_insert_in. exact Hn.
Qed.

Definition keys_unique (m : dmap) : Prop := NoDup (map fst m).

Lemma dm_get_in m k v : keys_unique m -> (dm_get k m = Some v <-> In (k, v) m).
Proof.
  unfold keys_unique. induction m as [|[k' v'] m IH]; intros Hu; cbn; [split; [discriminate|tauto]|].
  inversion Hu; subst. destruct (dkey_eqb k k') eqn:E.
  - apply dkey_eqb_eq in E. subst k'. split.
    + intros H; injection H as ->. left; reflexivity.
    + intros [H|H]; [injection H as ->; reflexivity|].
      exfalso. apply H1. apply (in_map fst) in H. exact H.
  - rewrite IH by assumption. split; [intros H; right; exact H|].
    intros [H|H]; [injection H as -> ->; rewrite dkey_eqb_refl in E; discriminate|exact H].
Qed.

Lemma ids_in_range_spec role first last m x : keys_unique m ->
  (In x (ids_in_range role first last m) <-> first <= x <= last /\ exists v, dm_get (role, x) m = Some v).
Proof.
  intros Hu. unfold ids_in_range. rewrite fold_insert_in, in_map_iff. split.
  - intros ([[r i] v] & Hs & Hin). cbn in Hs. subst i. apply filter_In in Hin. destruct Hin as [Hin Hc].
    cbn in Hc. apply andb_true_iff in Hc. destruct Hc as [Hc H3]. apply andb_true_iff in Hc. destruct Hc as [H1 H2].
    apply Bool.eqb_prop in H1. subst r. split; [lia|]. exists v. apply dm_get_in; assumption.
  - intros (Hr & v & Hg). exists ((role, x), v). split; [reflexivity|]. apply filter_In. split.
    + apply dm_get_in; assumption.
    + cbn. rewrite Bool.eqb_reflx. cbn. apply andb_true_iff. split; lia.
Qed.

Lemma ids_in_range_nodup role first last m : keys_unique m -> NoDup (ids_in_range role first last m).
Proof.
  intros Hu. unfold ids_in_range. apply fold_insert_nodup.
  unfold keys_unique in Hu. induction m as [|[[r i] v] m IH]; cbn; [constructor|].
  inversion Hu; subst. specialize (IH H2).
  destruct (Bool.eqb r role && (first <=? i) && (i <=? last)) eqn:E; cbn [map]; [|exact IH].
  constructor; [|exact IH]. intros Hin. apply in_map_iff in Hin. destruct Hin as ([[r' i'] v'] & Hs & Hf).
  cbn in Hs. subst i'. apply filter_In in Hf. destruct Hf as [Hf Hc]. cbn in Hc.
  apply andb_true_iff in Hc. destruct Hc as [Hc _]. apply andb_true_iff in Hc. destruct Hc as [Hc _].
  apply Bool.eqb_prop in Hc. subst r'.
  apply andb_true_iff in E. destruct E as [E _]. apply andb_true_iff in E. destruct E as [E _].
  apply Bool.eqb_prop in E. subst r.
  apply H1. apply (in_map fst) in Hf. exact Hf.
Qed.

(** ** the whole disposition *)
Definition echo_covers (es : list echo) (x : N) : Prop :=
  exists e, In e es /\ fst (fst e) <= x <= snd (fst e).

Theorem echo_exact s role first last st s' res es :
  keys_unique (d_map s) ->
  on_incoming_disposition s role first last false st = (s', res, es) ->
  let lastv := match last with Some l => l | None => first end in
  (forall x, echo_covers es x <-> (first <= x <= lastv /\ echo_wanted role false st s x = true)) /\
  (forall e, In e es -> snd e = st).
Proof.
  intros Hu E lastv. unfold on_incoming_disposition in E. fold lastv in E.
  destruct (dispose_ids role false st s (ids_in_range role first lastv (d_map s))) as [[s1 r1] e1] eqn:Ed.
  injection E as <- <- <-.
  pose proof (dispose_ids_echo role false st _ _ _ _ _ (ids_in_range_nodup role first lastv _ Hu) Ed) as He.
  split.
  - intros x. unfold echo_covers. split.
    + intros (e & Hin & Hc). apply in_map_iff in Hin. destruct Hin as ((a, b) & <- & Hr). cbn in Hc.
      assert (C : covered (runs e1) x) by (exists (a, b); auto).
      apply runs_cover in C. rewrite He in C. apply filter_In in C. destruct C as [C1 C2].
      apply ids_in_range_spec in C1; [|exact Hu]. tauto.
    + intros (Hr & Hw). assert (Hin : In x e1).
      { rewrite He. apply filter_In. split; [|exact Hw]. apply ids_in_range_spec; [exact Hu|]. split; [exact Hr|].
        unfold echo_wanted in Hw. destruct (dm_get (role, x) (d_map s)) as [v|]; [eauto|].
        rewrite andb_false_r in Hw. discriminate. }
      apply runs_cover in Hin. destruct Hin as ((a, b) & Hin & Hc).
      exists (a, b, st). split; [apply in_map_iff; exists (a, b); auto|exact Hc].
  - intros e Hin. apply in_map_iff in Hin. destruct Hin as (r & <- & _). reflexivity.
Qed.

Theorem settled_no_echo s role first last st s' res es :
  on_incoming_disposition s role first last true st = (s', res, es) -> es = [].
Proof.
  unfold on_incoming_disposition.
  destruct (dispose_ids role true st s _) as [[s1 r1] e1]. intros H; injection H as <- <- <-. reflexivity.
Qed.

Theorem resolutions_own s role first last settled st s' res es ih tag o :
  on_incoming_disposition s role first last settled st = (s', res, es) ->
  In (ih, tag, o) res ->
  o = st /\ (settled = true \/ terminal st = true).
Proof.
  unfold on_incoming_disposition.
  destruct (dispose_ids role settled st s _) as [[s1 r1] e1] eqn:Ed. intros H; injection H as <- <- <-.
  intros Hin. destruct (dispose_ids_resolutions _ _ _ _ _ _ _ _ _ _ _ Ed Hin) as (A & B & _). auto.
Qed.
