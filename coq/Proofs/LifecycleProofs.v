(** Proofs about the connection lifecycle model (Conn/Lifecycle.v). *)
From FV Require Import Conn.Lifecycle.
From Coq Require Import Lia.

Definition is_write (o : obs) : bool :=
  match o with WHeader | WOpen | WClose | WCloseErr _ => true | _ => false end.
Definition is_close (o : obs) : bool :=
  match o with WClose | WCloseErr _ => true | _ => false end.
Definition writes (os : list obs) : list obs := filter is_write os.

Lemma writes_app a b : writes (a ++ b) = writes a ++ writes b.
Proof. apply filter_app. Qed.

(** what has been written, by state *)
Definition closed_wire (l : list obs) : Prop :=
  exists c, is_close c = true /\ l = [WHeader; WOpen; c].
Definition err_wire (l : list obs) : Prop :=
  exists k, l = [WHeader; WOpen; WCloseErr k].

Definition G (s : cstate) (l : list obs) : Prop :=
  match s with
  | SStart q => l = [] /\ forallb is_peer q = true
  | SHdrSent => l = [WHeader]
  | SOpenSent | SOpened => l = [WHeader; WOpen]
  | SOpenFailed | SDiscardLocal _ | SDiscardProto _ _ => err_wire l
  | SCloseSent _ => l = [WHeader; WOpen; WClose]
  | SEnded _ _ => closed_wire l
  | SDead => l = [WHeader] \/ closed_wire l
  end.

(** the wire grammar: header, then open, then at most one close, then nothing *)
Definition wire_ok (l : list obs) : Prop :=
  l = [] \/ l = [WHeader] \/ l = [WHeader; WOpen] \/ closed_wire l.

Lemma G_wire_ok s l : G s l -> wire_ok l.
Proof.
  unfold wire_ok; destruct s; cbn; intros H; try tauto.
  all: right; right; right.
  all: try (destruct H as (k & ->); exists (WCloseErr k); split; reflexivity).
  all: try (exists WClose; split; [reflexivity|exact H]).
Qed.

Ltac close_wire :=
  match goal with
  | |- closed_wire _ => eexists; split; [|reflexivity]; reflexivity
  | |- err_wire _ => eexists; reflexivity
  | |- _ \/ closed_wire _ => right; eexists; split; [|reflexivity]; reflexivity
  | |- _ = _ \/ _ => left; reflexivity
  | |- _ = _ => reflexivity
  end.

Lemma finish_G w r l : l = [WHeader; WOpen; WClose] \/ err_wire l ->
  G (fst (finish w r)) (l ++ writes (snd (finish w r))).
Proof.
  intros [-> | (k & ->)]; destruct w; cbn; close_wire.
Qed.

Lemma step1_G s e l : G s l -> (forall q, s = SStart q -> e <> EOpen -> True) ->
  G (fst (step1 s e)) (l ++ writes (snd (step1 s e))).
Proof.
  intros H _. destruct s as [q| | | | |w|w|k w|r h|].
  - destruct H as [-> Hq]. destruct e; cbn; try reflexivity; split; try reflexivity; try exact Hq;
      rewrite forallb_app, Hq; reflexivity.
  - cbn in H; subst l. destruct e as [| | | |b|i| | | | | |]; cbn; try close_wire.
  - cbn in H; subst l. destruct e as [| | | |[|]|i| | | | | |]; cbn; try close_wire.
  - destruct H as (k & ->). destruct e as [| | | |[|]|i| | | | | |]; cbn; try close_wire.
  - cbn in H; subst l. destruct e as [| | | |[|]|i| | | | | |]; cbn; try close_wire.
  - cbn in H; subst l.
    destruct e as [| | | |[|]|i| | | | | |]; destruct w; cbn [step1];
      try (apply finish_G; left; reflexivity); cbn; reflexivity.
  - assert (H' : err_wire l) by exact H.
    destruct e as [| | | |[|]|i| | | | | |]; destruct w; cbn [step1];
      try (apply finish_G; right; exact H'); cbn; rewrite app_nil_r; exact H'.
  - assert (H' : err_wire l) by exact H.
    destruct e as [| | | |[|]|i| | | | | |]; destruct w; cbn [step1];
      try (apply finish_G; right; exact H');
      cbn; rewrite ?app_nil_r; exact H'.
  - destruct e; destruct h; cbn; rewrite app_nil_r; exact H.
  - destruct e; cbn; rewrite app_nil_r; exact H.
Qed.

Lemma replay_G q : forall s l, G s l ->
  G (fst (replay s q)) (l ++ writes (snd (replay s q))).
Proof.
  induction q as [|e q IH]; intros s l H; cbn [replay].
  - cbn. rewrite app_nil_r. exact H.
  - destruct (step1 s e) as [s1 o1] eqn:E1. destruct (replay s1 q) as [s2 o2] eqn:E2.
    cbn [fst snd]. rewrite writes_app, app_assoc.
    pose proof (step1_G s e l H (fun _ _ _ => I)) as H1. rewrite E1 in H1. cbn [fst snd] in H1.
    pose proof (IH s1 _ H1) as H2. rewrite E2 in H2. exact H2.
Qed.

Lemma step_G s e l : G s l -> G (fst (step s e)) (l ++ writes (snd (step s e))).
Proof.
  intros H. destruct s as [q| | | | |w|w|k w|r h|]; try (apply step1_G; [exact H|auto]).
  destruct e; try (apply (step1_G (SStart q)); [exact H|auto]).
  cbn [step]. destruct (step1 (SStart q) EOpen) as [s1 o1] eqn:E1.
  destruct (replay s1 q) as [s2 o2] eqn:E2. cbn [fst snd].
  rewrite writes_app, app_assoc.
  pose proof (step1_G (SStart q) EOpen l H (fun _ _ _ => I)) as H1. rewrite E1 in H1. cbn [fst snd] in H1.
  pose proof (replay_G q s1 _ H1) as H2. rewrite E2 in H2. exact H2.
Qed.

Lemma run_G evs : forall s l, G s l ->
  G (fst (run s evs)) (l ++ writes (concat (snd (run s evs)))).
Proof.
  induction evs as [|e evs IH]; intros s l H; cbn [run].
  - cbn. rewrite app_nil_r. exact H.
  - destruct (step s e) as [s1 o] eqn:E1. destruct (run s1 evs) as [s2 os] eqn:E2.
    cbn [fst snd concat]. rewrite writes_app, app_assoc.
    pose proof (step_G s e l H) as H1. rewrite E1 in H1. cbn [fst snd] in H1.
    pose proof (IH s1 _ H1) as H2. rewrite E2 in H2. exact H2.
Qed.

Definition init := SStart [].

Lemma G_init : G init [].
Proof. split; reflexivity. Qed.

Lemma reach_G evs s os : run init evs = (s, os) -> G s (writes (concat os)).
Proof.
  intros E. pose proof (run_G evs init [] G_init) as H. rewrite E in H. exact H.
Qed.

(** * the grammar of what is written *)
Lemma wire_grammar evs s os : run init evs = (s, os) -> wire_ok (writes (concat os)).
Proof. intros E. eapply G_wire_ok, reach_G, E. Qed.

(** once the transport has been shut down nothing more is written, nothing more completes
    except answers to API calls on the handle *)
Definition stopped (s : cstate) : bool :=
  match s with SEnded _ _ | SDead => true | _ => false end.

Lemma stopped_step s e : stopped s = true ->
  stopped (fst (step s e)) = true /\ writes (snd (step s e)) = [] /\ ~ In WEof (snd (step s e)).
Proof.
  destruct s as [q| | | | |w|w|k w|r h|]; try discriminate; intros _.
  - destruct e; destruct h; cbn; intuition congruence.
  - destruct e; cbn; intuition congruence.
Qed.

Lemma weof_stops s e : In WEof (snd (step1 s e)) -> stopped (fst (step1 s e)) = true.
Proof.
  destruct s as [q| | | | |w|w|k w|r h|]; destruct e as [| | | |[|]|i| | | | | |];
    try destruct w; try destruct h; cbn;
    try (destruct (is_peer _); cbn); intuition discriminate.
Qed.

(** * a close from the peer is answered *)
Lemma peer_close_answered evs s os b :
  run init evs = (s, os) -> writes (concat os) = [WHeader; WOpen] ->
  exists c, is_close c = true /\ In c (snd (step s (EPClose b))).
Proof.
  intros E W. pose proof (reach_G _ _ _ E) as H. rewrite W in H.
  destruct s as [q| | | | |w|w|k w|r h|]; cbn in H;
    try discriminate; try (destruct H as [H _]; discriminate);
    try (destruct H as (? & H); discriminate);
    try (destruct H as (? & _ & H); discriminate);
    try (destruct H as [H | (? & _ & H)]; discriminate).
  - destruct b; cbn; exists WClose; split; try reflexivity; left; reflexivity.
  - destruct b; cbn; exists WClose; split; try reflexivity; left; reflexivity.
Qed.

(** * discarding after a close with an error *)
Definition discarding (s : cstate) : bool :=
  match s with SOpenFailed | SDiscardLocal _ | SDiscardProto _ _ => true | _ => false end.

Definition is_peer_close_or_eof (e : ev) : bool :=
  match e with EPClose _ | EEof => true | _ => false end.

Lemma discarding_ignores s e : discarding s = true -> is_peer_close_or_eof e = false ->
  snd (step s e) = [] /\ discarding (fst (step s e)) = true /\
  (is_peer e = true -> fst (step s e) = s).
Proof.
  destruct s as [q| | | | |w|w|k w|r h|]; try discriminate; intros _;
    destruct e as [| | | |[|]|i| | | | | |]; try discriminate; intros _; cbn;
    try (destruct w; cbn); repeat split; intros; congruence.
Qed.

Lemma error_close_discards evs s os k :
  run init evs = (s, os) -> writes (concat os) = [WHeader; WOpen; WCloseErr k] ->
  discarding s = true \/ stopped s = true.
Proof.
  intros E W. pose proof (reach_G _ _ _ E) as H. rewrite W in H.
  destruct s as [q| | | | |w|w|k' w|r h|]; cbn in H |- *; try tauto;
    try discriminate; try (destruct H as [H _]; discriminate).
Qed.

(** * an illegal frame closes the connection with an error *)
Lemma illegal_frame_closes evs s os i :
  run init evs = (s, os) -> writes (concat os) = [WHeader; WOpen] ->
  exists k, snd (step s (EPIllegal i)) = [WCloseErr k] /\ discarding (fst (step s (EPIllegal i))) = true.
Proof.
  intros E W. pose proof (reach_G _ _ _ E) as H. rewrite W in H.
  destruct s as [q| | | | |w|w|k w|r h|]; cbn in H;
    try discriminate; try (destruct H as [H _]; discriminate);
    try (destruct H as (? & H); discriminate);
    try (destruct H as (? & _ & H); discriminate);
    try (destruct H as [H | (? & _ & H)]; discriminate).
  - cbn. eexists; split; reflexivity.
  - cbn; eexists; split; reflexivity.
Qed.

(** a second open is just as illegal *)
Lemma second_open_closes :
  snd (step SOpened EPOpen) = [WCloseErr KIllegalState] /\
  discarding (fst (step SOpened EPOpen)) = true.
Proof. split; reflexivity. Qed.

(** * what the handle reports *)
(** frames that can still be in flight when the local close is written *)
Definition inflight (e : ev) : bool :=
  match e with EPIllegal _ | EPEmpty | EPOpen => true | _ => false end.

Lemma closesent_inflight w evs : forallb inflight evs = true ->
  run (SCloseSent w) evs = (SCloseSent w, map (fun _ => []) evs).
Proof.
  induction evs as [|e evs IH]; intros H; [reflexivity|].
  cbn in H. apply andb_prop in H as [He H]. cbn [run map].
  assert (E : step (SCloseSent w) e = (SCloseSent w, [])) by (destruct e; try discriminate; destruct w; reflexivity).
  rewrite E, (IH H). reflexivity.
Qed.

Lemma run_app evs1 : forall s evs2,
  run s (evs1 ++ evs2) =
  let '(s1, o1) := run s evs1 in let '(s2, o2) := run s1 evs2 in (s2, o1 ++ o2).
Proof.
  induction evs1 as [|e evs1 IH]; intros s evs2; cbn [run app].
  - destruct (run s evs2); reflexivity.
  - destruct (step s e) as [s1 o]. rewrite IH.
    destruct (run s1 evs1) as [s2 o1]. destruct (run s2 evs2) as [s3 o2]. reflexivity.
Qed.

(** a clean close: close() is called on an open connection, the peer answers
    with a close without error, whatever was in flight in between *)
Lemma clean_close_reports_ok pre os fl b :
  run init pre = (SOpened, os) -> forallb inflight fl = true ->
  exists os',
    run init (pre ++ [EClose] ++ fl ++ [EPClose b]) =
      (SEnded (if b then RErr KRemoteClosedWithError else ROk) HReported,
       os ++ [[WClose]] ++ os' ++ [[DClose (if b then RErr KRemoteClosedWithError else ROk); WEof]]) /\
    concat os' = [].
Proof.
  intros E F. exists (map (fun _ => []) fl). split.
  - rewrite run_app, E. cbn [app run step step1].
    rewrite run_app, (closesent_inflight _ _ F). destruct b; reflexivity.
  - induction fl; [reflexivity|cbn; apply IHfl; cbn in F; apply andb_prop in F; tauto].
Qed.

(** the peer closes an open connection: the close is answered and the handle
    reports the peer's close, with the error when there was one, at the first call *)
Lemma peer_close_reported (b : bool) :
  let r := if b then RErr KRemoteClosedWithError else RErr KRemoteClosed in
  step SOpened (EPClose b) = (SEnded r HLive, [WClose; WEof]) /\
  step (SEnded r HLive) EClose = (SEnded r HReported, [DClose r]).
Proof. destruct b; split; reflexivity. Qed.

(** whenever a close call completes in the step that consumes a peer close
    carrying an error, it reports that error *)
Lemma peer_error_wins s r o :
  In (DClose r) (snd (step s (EPClose true))) -> o = snd (step s (EPClose true)) ->
  r = RErr KRemoteClosedWithError.
Proof.
  intros H _. destruct s as [q| | | | |w|w|k w|r' h|]; cbn in H;
    try (destruct w; cbn in H); try (destruct h; cbn in H);
    repeat match goal with H : _ \/ _ |- _ => destruct H as [H|H] end;
    try tauto; try discriminate; try (injection H as <-; reflexivity).
Qed.

(** and the result stored for a later call is the peer's error too *)
Lemma peer_error_stored s r h :
  fst (step s (EPClose true)) = SEnded r h -> stopped s = false -> r = RErr KRemoteClosedWithError.
Proof.
  destruct s as [q| | | | |w|w|k w|r' h'|]; cbn; try discriminate;
    try (destruct w; cbn); intros H _; try discriminate; try (injection H as <- _; reflexivity).
Qed.

(** open() reports the peer's error when the peer closes instead of opening *)
Lemma open_reports_peer_error :
  step SOpenSent (EPClose true) = (SDead, [WClose; DOpen (RErr KRemoteClosedWithError); WEof]).
Proof. reflexivity. Qed.
