(** The composite theorems instantiated for the specification's table (which the
    tie proves equal to the table regenerated from the source). *)
From Coq Require Import NArith List String Lia.
From FV Require Import Base.Bytes Codec.Value Codec.Enc Codec.Dec Codec.Composite Codec.CompositeSpec.
From FV Require Import Gen.Composites Tie.Tie_Composites Proofs.CompositeProofs.
Import ListNotations.

Lemma table_schema_ok s : In s spec_schemas -> schema_ok s = true.
Proof. intros H. pose proof spec_schemas_ok as A. rewrite forallb_forall in A. auto. Qed.

Lemma table_names_wf : forallb (fun s => wf_descriptor (DName (s_name s))) spec_schemas = true.
Proof. vm_compute. reflexivity. Qed.

Theorem table_roundtrip s :
  In s spec_schemas ->
  forall vs fuel b rest,
    fields_ok (s_fields s) vs = true ->
    Forall (fun v => (depth v <= fuel)%nat) vs -> (1 <= fuel)%nat ->
    enc_composite Plain s vs = Some b ->
    dec_composite fuel s (b ++ rest) = Ok (vs, rest).
Proof. intros Hin vs fuel b rest. apply composite_roundtrip. apply table_schema_ok. exact Hin. Qed.

(** every layout the specification allows, with the descriptor given by code or by name *)
Theorem table_layouts_accepted s :
  In s spec_schemas ->
  forall d vs ws fuel b rest,
    (d = DCode (s_code s) \/ d = DName (s_name s)) ->
    fields_ok (s_fields s) vs = true ->
    presentation (s_fields s) vs ws = true ->
    forallb wf ws = true -> (lenN ws <= MAXCOUNT)%N -> Forall (fun w => (depth w <= fuel)%nat) ws ->
    enc Plain (VDescribed d (VList ws)) = Some b ->
    dec_composite fuel s (b ++ rest) = Ok (vs, rest).
Proof.
  intros Hin d vs ws fuel b rest Hd Hok Hp Hwf Hc Hdep E.
  pose proof (table_schema_ok s Hin) as Hs. unfold schema_ok in Hs.
  apply andb_true_iff in Hs. destruct Hs as [Hs _]. apply andb_true_iff in Hs. destruct Hs as [_ Hcode].
  pose proof table_names_wf as Hn. rewrite forallb_forall in Hn. specialize (Hn s Hin).
  apply (composite_presentation_accepted s d vs ws fuel b rest); auto.
  - destruct Hd as [-> | ->]; [exact Hcode|exact Hn].
  - destruct Hd as [-> | ->]; cbn [descriptor_matches]; [apply N.eqb_refl|apply bytes_eqb_refl].
Qed.

Theorem table_dispatch s : In s spec_schemas -> dispatch spec_schemas (DCode (s_code s)) = Some s.
Proof. intros Hin. apply dispatch_finds; [exact Hin|exact spec_codes_distinct]. Qed.

(** a list that ends before a mandatory field - or whose bytes end there - is refused *)
Theorem truncated_mandatory_refused fuel ks left bs :
  (left = 0%N \/ bs = []) -> existsb (fun k => match k with FMand => true | _ => false end) ks = true ->
  exists e, dec_fields fuel ks left bs = Err e.
Proof. apply dec_fields_mandatory_missing. Qed.

(** ** non-vacuity: an open frame body with a default written out / elided *)
Definition open_schema : schema := nth 0 spec_schemas {| s_name := []; s_code := 0; s_fields := [] |}.
Definition open_fields : list value :=
  [VString [99; 49]; VNull; VUint 4294967295; VUshort 100; VUint 30000; VNull;
   VNull; VArray [VSymbol [120]; VSymbol [121; 122]]; VNull; VNull].
Example open_example :
  In open_schema spec_schemas /\ fields_ok (s_fields open_schema) open_fields = true /\
  enc_composite Plain open_schema open_fields =
    Some [0; 83; 16; 192; 32; 8; 161; 2; 99; 49; 64; 64; 96; 0; 100; 112; 0; 0; 117; 48; 64; 64;
          224; 13; 2; 179; 0; 0; 0; 1; 120; 0; 0; 0; 2; 121; 122] /\
  (* the same frame with max-frame-size written out, list32 and the descriptor by name *)
  presentation (s_fields open_schema) open_fields
    [VString [99; 49]; VNull; VUint 4294967295; VUshort 100; VUint 30000; VArray []; VNull;
     VArray [VSymbol [120]; VSymbol [121; 122]]; VNull] = true.
Proof. repeat split; vm_compute; auto. Qed.
