(** A stream of messages of any sizes, cut into frames of any size, through a receiving link in automatic
    credit mode whose application takes and accepts every delivery: every message is returned, exactly once,
    in order, unchanged, and the link never runs out of credit (C01 composed with C09 and C10). *)
From Coq Require Import List NArith Bool Lia.
From FV Require Import Base.Serial Frame.SessionSplit Link.Receiver Proofs.SessionSplitProofs Proofs.ReceiverProofs Proofs.EndToEnd.
Import ListNotations.
Open Scope N_scope.

(** ** transfers never touch the credit mode or the count of processed deliveries *)

Lemma complete_keeps s i : r_mode (fst (complete s i)) = r_mode s /\ r_processed (fst (complete s i)) = r_processed s.
Proof.
  unfold complete. cbn [set_inc r_credit]. destruct (_ <? 1); [cbn; auto|].
  destruct (i_did i); [destruct (i_tag i)|]; cbn [r_second fst]; try (cbn; auto; fail).
  destruct (match i_settled i with Some true => true | _ => false end); [cbn; auto|].
  destruct (negb _ && _); cbn; auto.
Qed.

Lemma process_keeps s x : r_mode (fst (process s x)) = r_mode s /\ r_processed (fst (process s x)) = r_processed s.
Proof.
  unfold process. destruct (x_aborted x); [cbn; auto|].
  destruct (x_more x).
  - destruct (r_inc s) as [i|].
    + destruct (merge i x) as [i'|]; [destruct (i_tag i')|]; cbn; auto.
    + unfold start. cbn [i_tag]. destruct (x_tag x); cbn; auto.
  - destruct (r_inc s) as [i|].
    + destruct (merge i x) as [i'|]; [apply complete_keeps|cbn; auto].
    + apply complete_keeps.
Qed.

Lemma pump_keeps fuel : forall s, r_mode (fst (pump fuel s)) = r_mode s /\ r_processed (fst (pump fuel s)) = r_processed s.
Proof.
  induction fuel as [|f IH]; intros s; cbn [pump]; [cbn; auto|].
  destruct (r_waiting s); [|cbn; auto].
  destruct (r_queue s) as [|x q]; [cbn; auto|].
  set (s0 := mkR _ _ _ _ _ _ _ q _ _ _ _).
  pose proof (process_keeps s0 x) as [P1 P2].
  assert (M0 : r_mode s0 = r_mode s) by reflexivity. assert (M1 : r_processed s0 = r_processed s) by reflexivity.
  destruct (process s0 x) as [s1 o]. cbn [fst] in P1, P2.
  destruct o as [|o0 o'].
  - destruct (IH s1) as [I1 I2]. split; congruence.
  - cbn [fst stop_waiting r_mode r_processed]. split; congruence.
Qed.

Lemma xfer_keeps s x : r_mode (fst (rstep s (EXfer x))) = r_mode s /\ r_processed (fst (rstep s (EXfer x))) = r_processed s.
Proof. cbn [rstep]. match goal with |- context [pump ?f ?s1] => destruct (pump_keeps f s1) as [A B] end. split; [exact A|exact B]. Qed.

Lemma xfers_keep xs : forall s, r_mode (fst (rrun s (map EXfer xs))) = r_mode s /\ r_processed (fst (rrun s (map EXfer xs))) = r_processed s.
Proof.
  induction xs as [|x xs IH]; intros s; cbn [map rrun]; [cbn; auto|].
  destruct (xfer_keeps s x) as [A B]. destruct (rstep s (EXfer x)) as [s1 o]. cbn [fst] in A, B.
  destruct (IH s1) as [C D]. destruct (rrun s1 (map EXfer xs)) as [s2 os]. cbn [fst] in *. split; congruence.
Qed.

(** ** the state after a delivery has been handed to the waiting recv() *)

Definition taken (s s' : rstate) (info : dinfo) : Prop :=
  r_waiting s' = false /\ r_queue s' = [] /\ r_inc s' = None /\ r_credit s' = r_credit s - 1 /\ r_held s' = r_held s ++ [info].

Lemma final_plain_state s d t f buf x :
  mid s d t f buf -> inc_rsm s = None -> continues d t f x = true -> x_more x = false -> 1 <= r_credit s ->
  exists info, snd (rstep s (EXfer x)) = [ORecv info (Some f) (buf ++ x_pay x)] /\ d_id info = d /\ d_tag info = t /\
               taken s (fst (rstep s (EXfer x))) info.
Proof.
  intros (Hw & Hq & i & Hi & Hd & Ht & Hf & Hb) Hr Hc Hm Hcr.
  unfold inc_rsm in Hr. rewrite Hi in Hr.
  assert (Hab : x_aborted x = false).
  { unfold continues in Hc. apply andb_prop in Hc as [_ Ha]. destruct (x_aborted x); [discriminate|reflexivity]. }
  cbn [rstep]. unfold fuel_of. cbn [r_queue length]. rewrite Hq. cbn [app length].
  rewrite (pump_one _ x) by (cbn; auto).
  cbn [r_mode r_second r_credit r_dc r_drain r_processed r_inc r_waiting r_held r_unsettled r_reg].
  unfold process. cbn [r_inc]. rewrite Hab, Hm, Hi, (merge_continues i d t f x Hd Ht Hf Hc).
  unfold complete. cbn [set_inc r_credit r_mode r_second r_dc r_drain r_processed r_inc r_queue r_waiting r_held r_unsettled r_reg i_did i_tag i_settled i_fmt i_buf i_rsm].
  destruct (r_credit s <? 1) eqn:E; [lia|]. rewrite Hb, Hr.
  unfold taken.
  destruct (match or_settled (i_settled i) (x_settled x) with Some true => true | _ => false end).
  - eexists. cbn. repeat split; reflexivity.
  - rewrite andb_false_r. eexists. cbn. repeat split; reflexivity.
Qed.

Lemma step_only_state s d t f p :
  r_waiting s = true -> r_queue s = [] -> r_inc s = None -> 1 <= r_credit s ->
  snd (rstep s (EXfer (first_frame d t f false p))) = [ORecv (mkD d t None) (Some f) p] /\
  taken s (fst (rstep s (EXfer (first_frame d t f false p)))) (mkD d t None).
Proof.
  intros Hw Hq Hi Hc. cbn [rstep]. unfold fuel_of. cbn [r_queue length]. rewrite Hq. cbn [app length].
  rewrite (pump_one _ (first_frame d t f false p)) by (cbn; auto).
  cbn [r_mode r_second r_credit r_dc r_drain r_processed r_inc r_waiting r_held r_unsettled r_reg].
  unfold process. cbn [x_aborted first_frame x_more r_inc]. rewrite Hi.
  unfold complete, start. cbn [set_inc r_credit r_mode r_second r_dc r_drain r_processed r_inc r_queue r_waiting r_held r_unsettled r_reg
                              i_did i_tag i_settled i_fmt i_buf i_rsm x_did x_tag x_fmt x_settled x_rsm x_pay first_frame].
  destruct (r_credit s <? 1) eqn:E; [lia|]. rewrite andb_false_r. unfold taken. cbn. repeat split; reflexivity.
Qed.

(** the message [m], cut for any frame size, fed to a waiting recv(): one delivery, the bytes of [m], and the link
    is left with the delivery in the application's hands and one credit less *)
Theorem end_to_end_state s mfb lf lr d t f (m : list N) :
  lf <= mfb -> lr < mfb ->
  r_waiting s = true -> r_queue s = [] -> r_inc s = None -> 1 <= r_credit s ->
  let sizes := session_split mfb lf lr (N.of_nat (length m)) in
  let r := rrun s (map EXfer (frames_of d t f (cut sizes m))) in
  exists info, concat (snd r) = [ORecv info (Some f) m] /\ d_id info = d /\ d_tag info = t /\ taken s (fst r) info.
Proof.
  intros Hf Hr Hw Hq Hi Hc. cbn zeta.
  pose proof (split_sum mfb lf lr (N.of_nat (length m))) as Hsum.
  pose proof (cut_concat _ m Hsum) as Hcat.
  destruct (session_split mfb lf lr (N.of_nat (length m))) as [|k0 ks] eqn:Es.
  { exfalso. pose proof (split_fit mfb lf lr (N.of_nat (length m)) Hf Hr) as F. rewrite Es in F. exact F. }
  cbn [cut] in *. set (p0 := firstn (N.to_nat k0) m) in *. set (m' := skipn (N.to_nat k0) m) in *.
  destruct (cut ks m') as [|p1 ps] eqn:Ec.
  - cbn [frames_of map rrun]. cbn [concat] in Hcat. rewrite app_nil_r in Hcat. rewrite Hcat.
    destruct (step_only_state s d t f m Hw Hq Hi Hc) as [S T].
    destruct (rstep s (EXfer (first_frame d t f false m))) as [s1 o1]. cbn [fst snd] in *. subst o1.
    exists (mkD d t None). cbn [concat app]. repeat split; try reflexivity; apply T.
  - assert (Hne : p1 :: ps <> []) by discriminate.
    destruct (@exists_last _ (p1 :: ps) Hne) as (qs & q & Eq).
    assert (Hfr : exists xs xf, frames_of d t f (p0 :: p1 :: ps) = first_frame d t f true p0 :: xs ++ [xf] /\
              forallb (fun x => continues d t f x && x_more x) xs = true /\
              continues d t f xf = true /\ x_more xf = false /\
              concat (map x_pay xs) ++ x_pay xf = concat (p1 :: ps)).
    { cbn [frames_of]. rewrite Eq. destruct qs as [|q0 qs'].
      - exists [], (next_frame false q). cbn. rewrite app_nil_r. auto.
      - destruct (next_frames_shape (q0 :: qs') q d t f ltac:(discriminate)) as (xs & xf & E & A & B & C & D).
        exists xs, xf. rewrite E. auto. }
    destruct Hfr as (xs & xf & Efr & Hall & Hcf & Hmf & Hpay). rewrite Efr.
    cbn [map rrun].
    destruct (step_first s d t f (first_frame d t f true p0) Hw Hq Hi eq_refl eq_refl eq_refl eq_refl eq_refl) as (O1 & M1 & C1 & _).
    pose proof (first_rsm s d t f (first_frame d t f true p0) Hw Hq Hi eq_refl eq_refl eq_refl eq_refl eq_refl) as R1.
    assert (H1 : r_held (fst (rstep s (EXfer (first_frame d t f true p0)))) = r_held s).
    { cbn [rstep]. unfold fuel_of. cbn [r_queue length]. rewrite Hq. cbn [app length].
      rewrite (pump_one _ (first_frame d t f true p0)) by (cbn; auto).
      cbn [r_mode r_second r_credit r_dc r_drain r_processed r_inc r_waiting r_held r_unsettled r_reg].
      unfold process. cbn [r_inc x_aborted x_more first_frame]. rewrite Hi. unfold start. cbn. reflexivity. }
    destruct (rstep s (EXfer (first_frame d t f true p0))) as [s1 o1]. cbn [fst snd] in *. subst o1.
    rewrite map_app, rrun_app.
    pose proof (run_continuations xs s1 d t f _ M1 Hall) as RC. cbn zeta in RC.
    pose proof (conts_rsm xs s1 d t f _ M1 Hall) as R2.
    destruct (rrun s1 (map EXfer xs)) as [s2 o2]. cbn [fst snd] in *.
    destruct RC as (O2 & M2 & C2 & _ & H2 & _).
    cbn [map rrun].
    destruct (final_plain_state s2 d t f _ xf M2 (eq_trans R2 R1) Hcf Hmf ltac:(lia)) as (info & O3 & Hid & Htag & T3).
    destruct (rstep s2 (EXfer xf)) as [s3 o3]. cbn [fst snd] in *. subst o3.
    exists info. split; [|split; [assumption|split; [assumption|]]].
    + cbn [concat app]. rewrite concat_app, O2. cbn [concat app].
      cbn [x_pay first_frame]. rewrite <- app_assoc, Hpay.
      change (p0 ++ concat (p1 :: ps)) with (concat (p0 :: p1 :: ps)). rewrite Hcat. reflexivity.
    + destruct T3 as (T1 & T2 & T3' & T4 & T5). unfold taken. repeat split; try assumption; [lia|congruence].
Qed.

(** ** one round: recv() is called, the frames of the message arrive, the application accepts *)

Definition mround (mfb lf lr d : N) (m : list N) : list ev :=
  ERecv :: map EXfer (frames_of d d 0 (cut (session_split mfb lf lr (N.of_nat (length m))) m)) ++ [EAccept false].

Lemma recv_idle s : r_waiting s = false -> r_queue s = [] ->
  rstep s ERecv = (mkR (r_mode s) (r_second s) (r_credit s) (r_dc s) (r_drain s) (r_processed s) (r_inc s)
                       (r_queue s) true (r_held s) (r_unsettled s) (r_reg s), []).
Proof. intros Hw Hq. cbn [rstep]. rewrite Hw. unfold fuel_of. cbn [pump r_queue r_waiting length]. rewrite Hq. reflexivity. Qed.

Definition payloads (os : list obs) : list (list N) :=
  flat_map (fun o => match o with ORecv _ _ p => [p] | _ => [] end) os.

Lemma payloads_app a b : payloads (a ++ b) = payloads a ++ payloads b.
Proof. unfold payloads. apply flat_map_app. Qed.

Lemma payloads_quiet l : Forall quiet l -> payloads l = [].
Proof. induction 1 as [|o l Ho _ IH]; [reflexivity|]. destruct o; cbn in *; try contradiction; exact IH. Qed.

Lemma mround_ok n mfb lf lr s d m : 1 <= n -> lf <= mfb -> lr < mfb -> idle_auto n s ->
  let r := rrun s (mround mfb lf lr d m) in
  idle_auto n (fst r) /\ payloads (concat (snd r)) = [m] /\ ~ In (ORecvErr ETransferLimit) (concat (snd r)).
Proof.
  intros Hn Hf Hr I. pose proof (idle_auto_has_credit n s Hn I) as Hc.
  destruct I as (Hm & Hw & Hq & Hi & Hh & Hsum & Hp).
  unfold mround. cbn [rrun]. rewrite (recv_idle s Hw Hq).
  set (s0 := mkR _ _ _ _ _ _ _ _ true _ _ _).
  rewrite rrun_app.
  pose proof (end_to_end_state s0 mfb lf lr d d 0 m Hf Hr eq_refl Hq Hi Hc) as E. cbn zeta in E.
  pose proof (xfers_keep (frames_of d d 0 (cut (session_split mfb lf lr (N.of_nat (length m))) m)) s0) as K.
  destruct (rrun s0 (map EXfer _)) as [s1 o1]. cbn [fst snd] in E, K.
  destruct E as (info & O1 & _ & _ & (Tw & Tq & Ti & Tc & Th)). destruct K as [Km Kp].
  cbn [r_mode r_processed r_held r_credit s0] in *.
  rewrite Hh in Th. cbn [app] in Th.
  cbn [rrun].
  pose proof (accept_auto s1 n info Tw Th (eq_trans Km Hm)) as C. cbn zeta in C.
  destruct (rstep s1 (EAccept false)) as [s2 o2]. cbn [fst snd] in *.
  destruct C as (Cq & Ch & Cw & Cqu & Ci & Cm & Cc).
  split; [|split].
  - unfold idle_auto. rewrite Cm, Cw, Cqu, Tq, Ci, Ti, Ch. repeat split; try reflexivity.
    + rewrite Kp in Cc. destruct (n / 2 <=? r_processed s + 1) eqn:E; destruct Cc as [-> ->]; lia.
    + rewrite Kp in Cc. destruct (n / 2 <=? r_processed s + 1) eqn:E; destruct Cc as [C1 ->]; [right; reflexivity|left; lia].
  - cbn [concat app]. rewrite concat_app, payloads_app. cbn [concat]. rewrite app_nil_r, O1, (payloads_quiet o2 Cq).
    reflexivity.
  - cbn [concat app]. rewrite concat_app. cbn [concat]. rewrite app_nil_r, O1. rewrite in_app_iff.
    destruct (quiet_count o2 Cq) as [_ Hn2]. intros [H|H]; [|exact (Hn2 H)].
    destruct H as [H|H]; [discriminate|contradiction].
Qed.

(** ** the stream *)

Theorem stream_intact n mfb lf lr : 1 <= n -> lf <= mfb -> lr < mfb ->
  forall (ms : list (N * list N)) s, idle_auto n s ->
  let r := rrun s (concat (map (fun p => mround mfb lf lr (fst p) (snd p)) ms)) in
  idle_auto n (fst r) /\ payloads (concat (snd r)) = map snd ms /\ ~ In (ORecvErr ETransferLimit) (concat (snd r)).
Proof.
  intros Hn Hf Hr ms. induction ms as [|[d m] ms IH]; intros s I; cbn [map concat].
  - cbn. split; [exact I|]. split; [reflexivity|tauto].
  - rewrite rrun_app. cbn [fst snd].
    pose proof (mround_ok n mfb lf lr s d m Hn Hf Hr I) as R. cbn zeta in R.
    destruct (rrun s (mround mfb lf lr d m)) as [s1 o1]. cbn [fst snd] in R.
    destruct R as (I1 & P1 & N1).
    specialize (IH s1 I1). cbn zeta in IH.
    destruct (rrun s1 _) as [s2 o2]. cbn [fst snd] in *.
    destruct IH as (I2 & P2 & N2).
    split; [exact I2|]. split.
    + rewrite concat_app, payloads_app, P1, P2. reflexivity.
    + rewrite concat_app, in_app_iff. tauto.
Qed.

Example stream_example :
  let ms := [(0, map N.of_nat (seq 0 700)); (1, []); (2, map N.of_nat (seq 5 1200)); (3, [7])] in
  payloads (concat (snd (rrun (rinit (Auto 3) false 0) (concat (map (fun p => mround 504 30 12 (fst p) (snd p)) ms))))) = map snd ms.
Proof. vm_compute. reflexivity. Qed.
