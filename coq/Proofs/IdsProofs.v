From FV Require Import Lib.Slab Session.Ids.
From Coq Require Import Lia ZArith ZifyN ZifyBool ZifyNat.
Open Scope N_scope.
From Coq Require Import Permutation.

Lemma NoDup_app_comm {T} (l1 l2 : list T) : NoDup (l1 ++ l2) -> NoDup (l2 ++ l1).
Proof. intros H. eapply Permutation_NoDup; [apply Permutation_app_comm|exact H]. Qed.

(** ** the slab *)
Section SlabFacts.
Context {A : Type}.
Definition keys (s : slab A) : list N := map fst (sl_occ s).

Definition WF (s : slab A) : Prop :=
  NoDup (keys s ++ sl_free s) /\
  (forall k, In k (keys s ++ sl_free s) -> k < sl_len s) /\
  (forall k, k < sl_len s -> In k (keys s ++ sl_free s)).

Lemma WF_empty : WF (@slab_empty A).
Proof. unfold WF, keys; cbn. repeat split; [constructor|intros k []|intros k H; lia]. Qed.

Lemma vacant_key_fresh s : WF s -> ~ In (vacant_key s) (keys s).
Proof.
  intros (Hnd & Hlt & _). unfold vacant_key. destruct (sl_free s) as [|k r] eqn:E.
  - intros Hin. specialize (Hlt (sl_len s)). rewrite app_nil_r in Hlt. specialize (Hlt Hin). lia.
  - intros Hin. apply NoDup_remove_2 in Hnd. apply Hnd. apply in_or_app. left. exact Hin.
Qed.

Lemma keys_insert s a : keys (slab_insert s a) = keys s ++ [vacant_key s].
Proof.
  unfold slab_insert, vacant_key, keys. destruct (sl_free s); cbn; rewrite map_app; reflexivity.
Qed.

Lemma WF_insert s a : WF s -> WF (slab_insert s a).
Proof.
  intros (Hnd & Hlt & Hall). unfold WF. rewrite keys_insert.
  unfold slab_insert, vacant_key. destruct (sl_free s) as [|k r] eqn:E; cbn [sl_free sl_len sl_occ].
  - rewrite ?app_nil_r in *. repeat split.
    + apply NoDup_app_comm. cbn. constructor; [|exact Hnd]. intros Hin. specialize (Hlt _ Hin). lia.
    + intros k Hin. apply in_app_or in Hin. destruct Hin as [Hin|[<-|[]]]; [specialize (Hlt _ Hin)|]; lia.
    + intros k Hk. destruct (N.eq_dec k (sl_len s)) as [->|Hne]; [apply in_or_app; right; left; reflexivity|].
      apply in_or_app. left. apply Hall. lia.
  - repeat split.
    + rewrite <- app_assoc. cbn. exact Hnd.
    + intros k' Hin. apply Hlt. rewrite <- app_assoc in Hin. exact Hin.
    + intros k' Hk. rewrite <- app_assoc. cbn. apply Hall. exact Hk.
Qed.

Lemma occ_get_in k (l : list (N * A)) a : occ_get k l = Some a -> In k (map fst l).
Proof.
  induction l as [|[k' a'] l IH]; cbn; [discriminate|]. destruct (k' =? k) eqn:E.
  - apply N.eqb_eq in E. subst. intros _. left; reflexivity.
  - intros H. right. apply IH; exact H.
Qed.
Lemma occ_get_none k (l : list (N * A)) : occ_get k l = None -> ~ In k (map fst l).
Proof.
  induction l as [|[k' a'] l IH]; cbn; [tauto|]. destruct (k' =? k) eqn:E; [discriminate|].
  intros H [Hin|Hin]; [apply N.eqb_neq in E; congruence|exact (IH H Hin)].
Qed.
Lemma occ_remove_keys k (l : list (N * A)) x : In x (map fst (occ_remove k l)) <-> In x (map fst l) /\ x <> k.
Proof.
  induction l as [|[k' a'] l IH]; cbn; [tauto|]. destruct (k' =? k) eqn:E.
  - apply N.eqb_eq in E. subst k'. rewrite IH. intuition congruence.
  - apply N.eqb_neq in E. cbn. rewrite IH. intuition congruence.
Qed.
Lemma occ_remove_nodup k (l : list (N * A)) : NoDup (map fst l) -> NoDup (map fst (occ_remove k l)).
Proof.
  induction l as [|[k' a'] l IH]; cbn; [constructor|]. intros H; inversion H; subst.
  destruct (k' =? k); [apply IH; assumption|]. cbn. constructor; [|apply IH; assumption].
  rewrite occ_remove_keys. tauto.
Qed.

Lemma WF_try_remove s k o s' : WF s -> slab_try_remove s k = (o, s') -> WF s'.
Proof.
  intros (Hnd & Hlt & Hall). unfold slab_try_remove. destruct (occ_get k (sl_occ s)) as [a|] eqn:E.
  - intros H; injection H as <- <-. unfold WF, keys. cbn [sl_occ sl_free sl_len].
    pose proof (occ_get_in _ _ _ E) as Hin. repeat split.
    + apply NoDup_app_comm. cbn. apply NoDup_app_comm in Hnd. 
      assert (Hnk : ~ In k (sl_free s)).
      { intros Hf. apply NoDup_app_comm in Hnd. clear - Hnd Hin Hf. unfold keys in Hnd.
        induction (map fst (sl_occ s)) as [|x l IH]; cbn in *; [destruct Hin|].
        inversion Hnd; subst. destruct Hin as [->|Hin]; [apply H1; apply in_or_app; right; exact Hf|auto]. }
      constructor.
      * intros Hi. apply in_app_or in Hi. destruct Hi as [Hi|Hi]; [contradiction|].
        apply occ_remove_keys in Hi. tauto.
      * apply NoDup_app_comm. apply NoDup_app_comm in Hnd.
        clear - Hnd. unfold keys in Hnd. revert Hnd. generalize (sl_free s) as fr.
        induction (sl_occ s) as [|[k' a'] l IH]; intros fr Hnd; cbn in *; [exact Hnd|].
        inversion Hnd; subst. destruct (k' =? k); [apply IH; assumption|]. cbn. constructor; [|apply IH; assumption].
        intros Hi. apply H1. apply in_app_or in Hi. apply in_or_app. destruct Hi as [Hi|Hi]; [left|right; exact Hi].
        apply occ_remove_keys in Hi. tauto.
    + intros x Hi. apply Hlt. apply in_app_or in Hi. apply in_or_app. destruct Hi as [Hi|[<-|Hi]].
      * left. apply occ_remove_keys in Hi. tauto.
      * left. exact Hin.
      * right. exact Hi.
    + intros x Hx. specialize (Hall x Hx). apply in_app_or in Hall. apply in_or_app.
      destruct (N.eq_dec x k) as [->|Hne]; [right; left; reflexivity|].
      destruct Hall as [Hi|Hi]; [left; apply occ_remove_keys; tauto|right; right; exact Hi].
  - intros H; injection H as <- <-. repeat split; assumption.
Qed.

(** a key handed out is either new or was released before *)
Lemma vacant_key_origin s : WF s -> vacant_key s = sl_len s \/ In (vacant_key s) (sl_free s).
Proof. intros _. unfold vacant_key. destruct (sl_free s); [left; reflexivity|right; left; reflexivity]. Qed.
End SlabFacts.

(** ** association lists *)
Lemma al_get_remove_same {V} k (m : list (N * V)) : al_get k (al_remove k m) = None.
Proof. induction m as [|[k' v] m IH]; cbn; auto. destruct (k' =? k) eqn:E; auto. cbn. rewrite E. exact IH. Qed.
Lemma al_get_remove_other {V} k k' (m : list (N * V)) : k' <> k -> al_get k' (al_remove k m) = al_get k' m.
Proof.
  intros H. induction m as [|[k2 v] m IH]; cbn; auto. destruct (k2 =? k) eqn:E.
  - apply N.eqb_eq in E. subst k2. destruct (k =? k') eqn:E2; [apply N.eqb_eq in E2; congruence|exact IH].
  - cbn. destruct (k2 =? k'); auto.
Qed.
Lemma al_get_app_none {V} k (m m' : list (N * V)) : al_get k m = None -> al_get k (m ++ m') = al_get k m'.
Proof. induction m as [|[k2 v] m IH]; cbn; auto. destruct (k2 =? k); [discriminate|exact IH]. Qed.
Lemma al_get_app_some {V} k (m m' : list (N * V)) v : al_get k m = Some v -> al_get k (m ++ m') = Some v.
Proof. induction m as [|[k2 v2] m IH]; cbn; [discriminate|]. destruct (k2 =? k); auto. Qed.
Lemma al_get_set_same {V} k (v : V) m : al_get k (al_set k v m) = Some v.
Proof. unfold al_set. rewrite al_get_app_none by apply al_get_remove_same. cbn. rewrite N.eqb_refl. reflexivity. Qed.
Lemma al_get_set_other {V} k k' (v : V) m : k' <> k -> al_get k' (al_set k v m) = al_get k' m.
Proof.
  intros H. unfold al_set. destruct (al_get k' (al_remove k m)) as [x|] eqn:E.
  - rewrite (al_get_app_some _ _ _ _ E). rewrite al_get_remove_other in E by exact H. auto.
  - rewrite al_get_app_none by exact E. cbn. destruct (k =? k') eqn:E2; [apply N.eqb_eq in E2; congruence|].
    rewrite al_get_remove_other in E by exact H. auto.
Qed.

(** ** links of a session *)
Definition LInv (s : lsess) : Prop :=
  WF (ls_slab s) /\
  NoDup (map snd (sl_occ (ls_slab s))) /\
  (forall h name, In (h, name) (sl_occ (ls_slab s)) -> al_get name (ls_by_name s) <> None).

Lemma LInv_init : LInv ls_init.
Proof. unfold LInv, ls_init. cbn. split; [apply WF_empty|split; [constructor|intros h n []]]. Qed.

Lemma WF_keys_nodup {A} (s : slab A) : WF s -> NoDup (keys s).
Proof.
  intros (H & _). induction (keys s) as [|x l IH]; cbn in *; [constructor|].
  inversion H; subst. constructor; [|apply IH; assumption]. intros Hin. apply H2. apply in_or_app. left; exact Hin.
Qed.

Lemma occ_insert {A} (s : slab A) a : sl_occ (slab_insert s a) = sl_occ s ++ [(vacant_key s, a)].
Proof. unfold slab_insert, vacant_key. destruct (sl_free s); reflexivity. Qed.

Lemma alloc_link_inv s name keep s' h :
  LInv s -> alloc_link s name keep = (s', LOk h) ->
  LInv s' /\ h = vacant_key (ls_slab s) /\ ~ In h (keys (ls_slab s)) /\
  ~ In name (map snd (sl_occ (ls_slab s))) /\
  (h = sl_len (ls_slab s) \/ In h (sl_free (ls_slab s))) /\
  ls_by_in s' = ls_by_in s.
Proof.
  intros (Hwf & Hnames & Hmap). unfold alloc_link. destruct (negb (ls_mapped s)); [discriminate|].
  destruct (al_get name (ls_by_name s)) eqn:Eg; [discriminate|]. intros H; injection H as <- <-.
  assert (Hfresh : ~ In name (map snd (sl_occ (ls_slab s)))).
  { intros Hin. apply in_map_iff in Hin. destruct Hin as ([h0 n0] & Hs & Hin). cbn in Hs. subst n0.
    exact (Hmap _ _ Hin Eg). }
  unfold LInv. cbn [ls_slab ls_by_name ls_by_in].
  split; [split; [apply WF_insert; exact Hwf|split]|
          split; [reflexivity|split; [apply vacant_key_fresh; exact Hwf|split; [exact Hfresh|split; [apply vacant_key_origin; exact Hwf|reflexivity]]]]].
  - rewrite occ_insert, map_app. cbn. apply NoDup_app_comm. cbn. constructor; [exact Hfresh|exact Hnames].
  - intros h0 n0 Hin. rewrite occ_insert in Hin. apply in_app_or in Hin. destruct Hin as [Hin|[Hin|[]]].
    + destruct (N.eq_dec n0 name) as [->|Hne]; [rewrite al_get_set_same; discriminate|].
      rewrite al_get_set_other by exact Hne. eapply Hmap; exact Hin.
    + injection Hin as _ <-. rewrite al_get_set_same. discriminate.
Qed.

Lemma occ_remove_subset {A} k (l : list (N * A)) x : In x (occ_remove k l) -> In x l /\ fst x <> k.
Proof.
  induction l as [|[k' a] l IH]; cbn; [tauto|]. destruct (k' =? k) eqn:E.
  - intros H. destruct (IH H). split; [right|]; assumption.
  - apply N.eqb_neq in E. intros [<-|H]; [split; [left; reflexivity|exact E]|]. destruct (IH H). split; [right|]; assumption.
Qed.
Lemma occ_remove_names_nodup {A} k (l : list (N * A)) : NoDup (map snd l) -> NoDup (map snd (occ_remove k l)).
Proof.
  induction l as [|[k' a] l IH]; cbn; [constructor|]. intros H; inversion H; subst.
  destruct (k' =? k); [apply IH; assumption|]. cbn. constructor; [|apply IH; assumption].
  intros Hin. apply H2. apply in_map_iff in Hin. destruct Hin as (x & <- & Hx). apply occ_remove_subset in Hx.
  apply in_map. tauto.
Qed.
Lemma occ_get_In {A} k (l : list (N * A)) a : occ_get k l = Some a -> In (k, a) l.
Proof.
  induction l as [|[k' a'] l IH]; cbn; [discriminate|]. destruct (k' =? k) eqn:E.
  - apply N.eqb_eq in E. subst. intros H; injection H as ->. left; reflexivity.
  - intros H. right. auto.
Qed.

Theorem lstep_inv s o s' r : LInv s -> lstep s o = (s', r) -> LInv s'.
Proof.
  intros HI. destruct o; cbn [lstep].
  - destruct (alloc_link s name true) as [s1 [h|e|]] eqn:E; intros H; injection H as <- <-.
    + apply (alloc_link_inv _ _ _ _ _ HI E).
    + unfold alloc_link in E. destruct (negb (ls_mapped s)); [injection E as <- _; exact HI|].
      destruct (al_get name (ls_by_name s)); [injection E as <- _; exact HI|discriminate].
    + unfold alloc_link in E. destruct (negb (ls_mapped s)); [discriminate|]. destruct (al_get name (ls_by_name s)); discriminate.
  - destruct (alloc_link s name false) as [s1 [h|e|]] eqn:E; intros H; injection H as <- <-.
    + destruct (alloc_link_inv _ _ _ _ _ HI E) as (HI1 & _). exact HI1.
    + unfold alloc_link in E. destruct (negb (ls_mapped s)); [injection E as <- _; exact HI|].
      destruct (al_get name (ls_by_name s)); [injection E as <- _; exact HI|discriminate].
    + unfold alloc_link in E. destruct (negb (ls_mapped s)); [discriminate|]. destruct (al_get name (ls_by_name s)); discriminate.
  - destruct HI as (A & B & C). destruct (al_get name (ls_by_name s)) as [[h|]|] eqn:E; intros H; injection H as <- <-;
      try (exact (conj A (conj B C))).
    split; [exact A|split; [exact B|]]. cbn [ls_slab ls_by_name]. intros h0 n0 Hin. destruct (N.eq_dec n0 name) as [->|Hne].
    + rewrite al_get_set_same. discriminate.
    + rewrite al_get_set_other by exact Hne. eapply C; exact Hin.
  - destruct HI as (A & B & C). destruct (al_get ih (ls_by_in s)); intros H; injection H as <- <-; exact (conj A (conj B C)).
  - destruct HI as (A & B & C). destruct (slab_try_remove (ls_slab s) h) as [[name|] sl] eqn:E; intros H; injection H as <- <-;
      [|exact (conj A (conj B C))].
    pose proof (WF_try_remove _ _ _ _ A E) as A'.
    unfold slab_try_remove in E. destruct (occ_get h (sl_occ (ls_slab s))) as [nm|] eqn:Eg; [|discriminate].
    injection E as -> <-. split; [exact A'|split]; cbn [ls_slab ls_by_name sl_occ].
    + apply occ_remove_names_nodup; exact B.
    + intros h0 n0 Hin. apply occ_remove_subset in Hin. destruct Hin as [Hin Hne]. cbn in Hne.
      assert (n0 <> name).
      { intros ->. apply occ_get_In in Eg. clear - B Hin Eg Hne.
        induction (sl_occ (ls_slab s)) as [|[k a] l IH]; cbn in *; [tauto|]. inversion B; subst.
        destruct Hin as [Hin|Hin], Eg as [Eg|Eg].
        - injection Hin as -> _. injection Eg as -> _. congruence.
        - injection Hin as -> ->. apply H1. apply (in_map snd) in Eg. exact Eg.
        - injection Eg as -> ->. apply H1. apply (in_map snd) in Hin. exact Hin.
        - auto. }
      rewrite al_get_remove_other by assumption. eapply C; exact Hin.
  - destruct (al_get ih (ls_by_in s)); intros H; injection H as <- <-; exact HI.
Qed.

Fixpoint lrun (s : lsess) (ops : list lop) : lsess * list lres :=
  match ops with
  | [] => (s, [])
  | o :: r => let '(s1, x) := lstep s o in let '(s2, xs) := lrun s1 r in (s2, x :: xs)
  end.

Theorem lrun_inv ops : forall s s' rs, LInv s -> lrun s ops = (s', rs) -> LInv s'.
Proof.
  induction ops as [|o r IH]; intros s s' rs HI E; cbn in E; [injection E as <- _; exact HI|].
  destruct (lstep s o) as [s1 x] eqn:E1. destruct (lrun s1 r) as [s2 xs] eqn:E2. injection E as <- _.
  eapply IH; [|exact E2]. eapply lstep_inv; eauto.
Qed.

(** routing: after the peer's attach for a link, frames with that input handle reach that
    link (and only it) until the handle is detached or attached again *)
Theorem attach_then_route s name ih s' :
  lstep s (OpInAttach name ih) = (s', LUnit) ->
  exists h, al_get name (ls_by_name s) = Some (Some h) /\ lstep s' (OpRoute ih) = (s', LOk h) /\
            (forall ih', ih' <> ih -> snd (lstep s' (OpRoute ih')) = snd (lstep s (OpRoute ih'))).
Proof.
  cbn [lstep]. destruct (al_get name (ls_by_name s)) as [[h|]|] eqn:E; try discriminate.
  intros H; injection H as <-. exists h. cbn [ls_by_in]. repeat split.
  - rewrite al_get_set_same. reflexivity.
  - intros ih' Hne. rewrite al_get_set_other by exact Hne. destruct (al_get ih' (ls_by_in s)); reflexivity.
Qed.

(** ** sessions of a connection *)
Definition CInv (s : conn) : Prop :=
  WF (cn_slab s) /\ (forall c, In c (keys (cn_slab s)) -> c <= cn_max s).

Lemma CInv_init lm rm : CInv (cn_init lm rm).
Proof. unfold CInv, cn_init. cbn. split; [apply WF_empty|intros c []]. Qed.

Theorem cstep_inv s o s' r : CInv s -> cstep s o = (s', r) -> CInv s' /\ cn_max s' = cn_max s.
Proof.
  intros (A & B). destruct o; cbn [cstep].
  - destruct (cn_max s <? vacant_key (cn_slab s)) eqn:E; intros H; injection H as <- <-; [split; [split|]; auto|].
    split; [|reflexivity]. split; cbn [cn_slab cn_max]; [apply WF_insert; exact A|].
    intros c Hin. rewrite keys_insert in Hin. apply in_app_or in Hin. destruct Hin as [Hin|[<-|[]]]; [auto|lia].
  - destruct (slab_try_remove (cn_slab s) c) as [[u|] sl] eqn:E; intros H; injection H as <- <-; [|split; [split|]; auto].
    split; [|reflexivity]. split; cbn [cn_slab cn_max]; [eapply WF_try_remove; eauto|].
    unfold slab_try_remove in E. destruct (occ_get c (sl_occ (cn_slab s))); [|discriminate]. injection E as _ <-.
    intros c0 Hin. unfold keys in Hin. cbn [sl_occ] in Hin. apply occ_remove_keys in Hin. apply B. unfold keys. tauto.
  - destruct (negb (cn_opened s)); [intros H; injection H as <- <-; split; [split|]; auto|].
    destruct remote as [out|]; [|intros H; injection H as <- <-; split; [split|]; auto].
    destruct (slab_get (cn_slab s) out); intros H; injection H as <- <-; split; try split; auto.
  - destruct (negb (cn_opened s)); [intros H; injection H as <- <-; split; [split|]; auto|].
    destruct (al_get inc (cn_by_in s)); intros H; injection H as <- <-; split; try split; auto.
  - destruct (al_get inc (cn_by_in s)); intros H; injection H as <- <-; split; try split; auto.
Qed.

(** a session is begun only on a fresh channel not above the agreed channel-max,
    and refused locally otherwise *)
Theorem alloc_session_spec s s' r : CInv s -> cstep s OpAllocSession = (s', r) ->
  match r with
  | COk c => c <= cn_max s /\ ~ In c (keys (cn_slab s)) /\ In c (keys (cn_slab s')) /\
             (c = sl_len (cn_slab s) \/ In c (sl_free (cn_slab s)))
  | CErr EChannelMax => s' = s /\ cn_max s < vacant_key (cn_slab s)
  | _ => False
  end.
Proof.
  intros (A & B). cbn [cstep]. destruct (cn_max s <? vacant_key (cn_slab s)) eqn:E; intros H; injection H as <- <-.
  - split; [reflexivity|lia].
  - repeat split; [lia|apply vacant_key_fresh; exact A| |apply vacant_key_origin; exact A].
    cbn [cn_slab]. rewrite keys_insert. apply in_or_app. right. left. reflexivity.
Qed.

Theorem begin_then_route s inc out s' :
  cstep s (OpInBegin inc (Some out)) = (s', COk out) ->
  cstep s' (OpRouteCh inc) = (s', COk out) /\
  (forall inc', inc' <> inc -> snd (cstep s' (OpRouteCh inc')) = snd (cstep s (OpRouteCh inc'))).
Proof.
  cbn [cstep]. destruct (negb (cn_opened s)); [discriminate|]. destruct (slab_get (cn_slab s) out); [|discriminate].
  intros H; injection H as <-. cbn [cn_by_in]. split.
  - rewrite al_get_set_same. reflexivity.
  - intros inc' Hne. rewrite al_get_set_other by exact Hne. destruct (al_get inc' (cn_by_in s)); reflexivity.
Qed.

(** ** link-level split: one tag per delivery *)
From FV Require Import Base.Bytes Frame.Transfer Link.Split Proofs.BytesProofs Proofs.FrameProofs.

Lemma split_rest_spec mms : 0 < mms -> forall fuel payload, (length payload <= fuel)%nat ->
  let fs := split_rest fuel mms payload in
  Forall (fun f => lf_tag f = None) fs /\
  concat (map lf_part fs) = payload /\
  map lf_more fs = repeat true (length fs - 1) ++ [false].
Proof.
  intros Hm. induction fuel as [|f IH]; intros payload Hf; cbn [split_rest].
  - destruct payload; [|cbn in Hf; lia]. cbn. repeat split; auto.
  - destruct (mms <? lenN payload) eqn:E.
    + destruct (split_at (N.to_nat mms) payload) as [part rest] eqn:Es.
      destruct (split_at_spec _ _ _ _ Es) as [Hcat Hlen].
      assert (Hr : (length rest <= f)%nat).
      { apply (f_equal (@length _)) in Hcat. rewrite app_length in Hcat. unfold lenN in *. lia. }
      destruct (IH rest Hr) as (A & B & C). cbn zeta in *. repeat split.
      * constructor; [reflexivity|exact A].
      * cbn [map concat lf_part]. rewrite B. exact Hcat.
      * cbn [map lf_more length]. rewrite C.
        assert (1 <= length (split_rest f mms rest))%nat.
        { destruct f; cbn [split_rest]; [cbn; lia|]. destruct (mms <? lenN rest); [|cbn; lia].
          destruct (split_at (N.to_nat mms) rest); cbn; lia. }
        replace (S (length (split_rest f mms rest)) - 1)%nat with (S (length (split_rest f mms rest) - 1)) by lia.
        reflexivity.
    + cbn. rewrite app_nil_r. repeat split; auto.
Qed.

Theorem link_split_spec mms tag payload :
  let fs := link_split mms tag payload in
  (exists first rest, fs = first :: rest /\ lf_tag first = Some tag /\ Forall (fun f => lf_tag f = None) rest) /\
  concat (map lf_part fs) = payload /\
  map lf_more fs = repeat true (length fs - 1) ++ [false].
Proof.
  unfold link_split. destruct (negb (mms =? 0) && (mms <? lenN payload)) eqn:E.
  - apply andb_true_iff in E. destruct E as [E1 E2]. apply negb_true_iff, N.eqb_neq in E1.
    destruct (split_at (N.to_nat mms) payload) as [part rest] eqn:Es.
    destruct (split_at_spec _ _ _ _ Es) as [Hcat Hlen].
    destruct (split_rest_spec mms ltac:(lia) (length rest) rest (le_n _)) as (A & B & C). cbn zeta in *.
    repeat split.
    + eexists _, _. split; [reflexivity|]. split; [reflexivity|exact A].
    + cbn [map concat lf_part]. rewrite B. exact Hcat.
    + cbn [map lf_more length]. rewrite C.
      assert (1 <= length (split_rest (length rest) mms rest))%nat.
      { destruct (length rest); cbn [split_rest]; [cbn; lia|]. destruct (mms <? lenN rest); [|cbn; lia].
        destruct (split_at (N.to_nat mms) rest); cbn; lia. }
      replace (S (length (split_rest (length rest) mms rest)) - 1)%nat
        with (S (length (split_rest (length rest) mms rest) - 1)) by lia.
      reflexivity.
  - cbn. rewrite app_nil_r. repeat split; auto. eexists _, _. split; [reflexivity|]. split; [reflexivity|constructor].
Qed.
