(** Round trip of arbitrary well-formed values: dec (enc v ++ rest) = (v, rest). *)
From FV Require Import Base.Bytes Codec.Value Codec.Enc Codec.Dec Proofs.BytesProofs Proofs.RoundTripScalars.
From Coq Require Import Lia ZArith ZifyN ZifyBool ZifyNat.
Ltac Zify.zify_post_hook ::= Z.div_mod_to_equations.
Open Scope N_scope.
Arguments to_be : simpl never.
Arguments from_be : simpl never.
Opaque to_be from_be N.mul N.add N.sub N.modulo N.div.

(** ** induction principle for the nested value type *)
Section ValueInd.
Variable P : value -> Prop.
Hypothesis Hscalar : forall v, is_compound v = false -> P v.
Hypothesis Hdesc : forall d v, P v -> P (VDescribed d v).
Hypothesis Hlist : forall l, Forall P l -> P (VList l).
Hypothesis Hmap : forall l, Forall (fun p => P (fst p) /\ P (snd p)) l -> P (VMap l).
Hypothesis Harr : forall l, Forall P l -> P (VArray l).

Fixpoint value_ind' (v : value) : P v :=
  let fix go (l : list value) : Forall P l :=
    match l with [] => Forall_nil _ | x :: r => Forall_cons x (value_ind' x) (go r) end in
  let fix gom (l : list (value * value)) : Forall (fun p => P (fst p) /\ P (snd p)) l :=
    match l with
    | [] => Forall_nil _
    | p :: r => Forall_cons p (conj (value_ind' (fst p)) (value_ind' (snd p))) (gom r)
    end in
  match v with
  | VDescribed d x => Hdesc d x (value_ind' x)
  | VList l => Hlist l (go l)
  | VMap l => Hmap l (gom l)
  | VArray l => Harr l (go l)
  | VNull => Hscalar VNull eq_refl
  | VBool b => Hscalar (VBool b) eq_refl
  | VUbyte n => Hscalar (VUbyte n) eq_refl
  | VUshort n => Hscalar (VUshort n) eq_refl
  | VUint n => Hscalar (VUint n) eq_refl
  | VUlong n => Hscalar (VUlong n) eq_refl
  | VByte n => Hscalar (VByte n) eq_refl
  | VShort n => Hscalar (VShort n) eq_refl
  | VInt n => Hscalar (VInt n) eq_refl
  | VLong n => Hscalar (VLong n) eq_refl
  | VFloat n => Hscalar (VFloat n) eq_refl
  | VDouble n => Hscalar (VDouble n) eq_refl
  | VDec32 b => Hscalar (VDec32 b) eq_refl
  | VDec64 b => Hscalar (VDec64 b) eq_refl
  | VDec128 b => Hscalar (VDec128 b) eq_refl
  | VChar n => Hscalar (VChar n) eq_refl
  | VTimestamp n => Hscalar (VTimestamp n) eq_refl
  | VUuid b => Hscalar (VUuid b) eq_refl
  | VBinary b => Hscalar (VBinary b) eq_refl
  | VString b => Hscalar (VString b) eq_refl
  | VSymbol b => Hscalar (VSymbol b) eq_refl
  end.
End ValueInd.

(** ** generic facts *)
Definition RT (f : nat) (v : value) : Prop :=
  forall b rest, enc Plain v = Some b -> dec f None (b ++ rest) = Ok (v, None, rest).

Lemma dec_unfold f e bs : dec (S f) e bs = dec_body (dec f) e bs.
Proof. reflexivity. Qed.

Lemma dec_none_nil f : forall x, dec f None [] <> Ok x.
Proof. destruct f; intros x H; cbn in H; discriminate. Qed.

Lemma RT_nonempty f v b : RT f v -> enc Plain v = Some b -> 1 <= lenN b.
Proof.
  intros H E. destruct b as [|x b]; [|rewrite lenN_cons; lia].
  exfalso. specialize (H [] [] E). cbn [app] in H. exact (dec_none_nil f _ H).
Qed.

(** a successful decode starts with a known format code *)
Lemma dec_ok_head f bs x : dec f None bs = Ok x -> exists c r, bs = c :: r /\ known_code c = true.
Proof.
  destruct f; [discriminate|]. rewrite dec_unfold. unfold dec_body, peek_code.
  destruct bs as [|c r]; [discriminate|]. destruct (known_code c) eqn:K; [|discriminate].
  intros _. eauto.
Qed.

Lemma cat_opt_some {A} (g : A -> option bytes) l buf :
  cat_opt (map g l) = Some buf ->
  exists parts, Forall2 (fun x p => g x = Some p) l parts /\ buf = concat parts.
Proof.
  revert buf; induction l as [|x l IH]; intros buf H; cbn in H.
  - injection H as <-. exists []. split; constructor.
  - destruct (g x) as [p|] eqn:Ex; [|discriminate].
    destruct (cat_opt (map g l)) as [t|] eqn:Et; [|discriminate]. injection H as <-.
    destruct (IH t eq_refl) as (parts & F & ->). exists (p :: parts). split; [constructor; auto|reflexivity].
Qed.

Lemma lenN_concat_ge (parts : list bytes) :
  Forall (fun p => 1 <= lenN p) parts -> lenN parts <= lenN (concat parts).
Proof.
  induction 1 as [|p parts Hp _ IH]; cbn [concat]; [reflexivity|].
  rewrite lenN_cons, lenN_app. lia.
Qed.

Lemma Forall2_length {A B} (R : A -> B -> Prop) l1 l2 : Forall2 R l1 l2 -> length l1 = length l2.
Proof. induction 1; cbn; auto. Qed.

(** ** lists *)
Lemma list_loop_rt f : forall l parts,
  Forall2 (fun x p => enc Plain x = Some p) l parts ->
  Forall (RT f) l ->
  forall acc rest,
    list_loop (dec f) (length l) None (concat parts ++ rest) acc = Ok (rev acc ++ l, None, rest).
Proof.
  induction 1 as [|x p l parts Hxp _ IH]; intros HRT acc rest; cbn [length list_loop concat app].
  - rewrite rev_append_rev, !app_nil_r. reflexivity.
  - inversion HRT as [|? ? Hx Hl]; subst. rewrite <- app_assoc, (Hx p _ Hxp). cbn [bind].
    rewrite IH by exact Hl. cbn [rev]. rewrite <- app_assoc. reflexivity.
Qed.

Lemma dec_body_list self r : forall c, (c = 69 \/ c = 192 \/ c = 208) ->
  dec_body self None (c :: r) = let* (l, e1, r') := dec_seq self None (c :: r) in Ok (VList l, e1, r').
Proof. intros c [->|[->| ->]]; reflexivity. Qed.

Lemma dec_seq_list8 self len count r : 1 <= len ->
  dec_seq self None (192 :: len :: count :: r) = list_loop self (N.to_nat count) None r [].
Proof.
  intros H. unfold dec_seq. cbn -[N.to_nat]. unfold checked_sub_len.
  destruct (len <? 1) eqn:E; [lia|]. reflexivity.
Qed.

Lemma dec_seq_list32 self len count r : 4 <= len -> len < 4294967296 -> count <= MAXCOUNT ->
  dec_seq self None (208 :: to_be 4 len ++ to_be 4 count ++ r) = list_loop self (N.to_nat count) None r [].
Proof.
  intros H1 H2 H3. unfold dec_seq. cbn -[N.to_nat to_be read_be].
  rewrite read_be_to_be by (cbn; lia). cbn -[N.to_nat to_be read_be].
  rewrite read_be_to_be by (unfold MAXCOUNT in *; cbn; lia). cbn -[N.to_nat to_be read_be].
  destruct (MAXCOUNT <? count) eqn:E; [lia|]. unfold checked_sub_len.
  destruct (len <? 4) eqn:E4; [lia|]. reflexivity.
Qed.

Lemma rt_list f l :
  Forall (RT f) l -> lenN l <= MAXCOUNT -> RT (S f) (VList l).
Proof.
  intros HRT Hcount b rest E. cbn [enc] in E.
  destruct (cat_opt (map (enc Plain) l)) as [buf|] eqn:Ec; [|discriminate].
  destruct (cat_opt_some _ _ _ Ec) as (parts & F2 & ->).
  assert (Hne : Forall (fun p => 1 <= lenN p) parts).
  { clear - F2 HRT. induction F2 as [|x p l parts Hxp _ IH]; constructor.
    - inversion HRT; subst. eapply RT_nonempty; eauto.
    - apply IH. inversion HRT; auto. }
  pose proof (lenN_concat_ge parts Hne) as Hge.
  assert (Hlen : lenN l = lenN parts) by (unfold lenN; rewrite (Forall2_length _ _ _ F2); reflexivity).
  rewrite dec_unfold. unfold write_list in E.
  destruct (lenN (concat parts) =? 0) eqn:E0.
  - injection E as <-. apply N.eqb_eq in E0.
    assert (l = []) by (destruct l; [reflexivity|rewrite lenN_cons in Hlen; lia]). subst l.
    reflexivity.
  - destruct (lenN (concat parts) <=? U8MAX1) eqn:E8.
    + injection E as <-. cbn [with_code app]. rewrite dec_body_list by auto.
      rewrite dec_seq_list8 by lia. unfold U8MAX1 in *.
      replace (N.to_nat (lenN l mod 256)) with (length l) by (unfold lenN in *; rewrite N.mod_small; lia).
      rewrite (list_loop_rt f l parts F2 HRT [] rest). reflexivity.
    + destruct (lenN (concat parts) <=? U32MAX4) eqn:E32; [|discriminate].
      injection E as <-. cbn [with_code app]. rewrite <- !app_assoc. rewrite dec_body_list by auto.
      unfold U32MAX4, MAXCOUNT in *.
      rewrite N.mod_small by lia.
      rewrite dec_seq_list32 by (unfold MAXCOUNT; lia).
      replace (N.to_nat (lenN l)) with (length l) by (unfold lenN; lia).
      rewrite (list_loop_rt f l parts F2 HRT [] rest). reflexivity.
Qed.

(** ** maps *)
Lemma omap_insert_fresh k v m : key_fresh k m = true -> omap_insert k v m = m ++ [(k, v)].
Proof.
  unfold key_fresh. induction m as [|[k' v'] m IH]; cbn [omap_insert existsb app fst]; intros H; [reflexivity|].
  apply negb_true_iff in H. apply orb_false_iff in H. destruct H as [H1 H2].
  rewrite H1. f_equal. apply IH. apply negb_true_iff. exact H2.
Qed.

Definition enc_pair (p : value * value) : option bytes := opt_app (enc Plain (fst p)) (enc Plain (snd p)).

Lemma map_loop_rt f : forall l parts,
  Forall2 (fun p part => enc_pair p = Some part) l parts ->
  Forall (fun p => RT f (fst p) /\ RT f (snd p)) l ->
  forall acc rest fuel,
    keys_fresh acc l = true -> (length l < fuel)%nat ->
    map_loop (dec f) fuel (2 * lenN l) None (concat parts ++ rest) acc = Ok (acc ++ l, None, rest).
Proof.
  induction 1 as [|[k v] part l parts Hp _ IH]; intros HRT acc rest fuel Hfresh Hfuel.
  - destruct fuel; [cbn in Hfuel; lia|]. cbn [map_loop]. change (2 * lenN (@nil (value * value)) =? 0) with true. cbn iota.
    rewrite app_nil_r. reflexivity.
  - destruct fuel; [cbn in Hfuel; lia|]. cbn [map_loop length] in *.
    rewrite lenN_cons.
    destruct (2 * (1 + lenN l) =? 0) eqn:E0; [lia|].
    destruct (2 * (1 + lenN l) =? 1) eqn:E1; [lia|].
    inversion HRT as [|? ? [Hk Hv] Hl]; subst. cbn [fst snd] in *.
    unfold enc_pair, opt_app in Hp. cbn [fst snd] in Hp.
    destruct (enc Plain k) as [bk|] eqn:Ek; [|discriminate].
    destruct (enc Plain v) as [bv|] eqn:Ev; [|discriminate]. injection Hp as <-.
    cbn [concat]. rewrite <- !app_assoc. rewrite (Hk bk _ Ek). cbn [bind].
    rewrite (Hv bv _ Ev). cbn [bind].
    cbn [keys_fresh] in Hfresh. apply andb_true_iff in Hfresh. destruct Hfresh as [Hf1 Hf2].
    rewrite omap_insert_fresh by exact Hf1.
    replace (2 * (1 + lenN l) - 2) with (2 * lenN l) by lia.
    rewrite IH; auto; [|lia]. rewrite <- app_assoc. reflexivity.
Qed.

Lemma dec_body_map self r : forall c, (c = 193 \/ c = 209) ->
  dec_body self None (c :: r) = let* (l, e1, r') := dec_map self None (c :: r) in Ok (VMap l, e1, r').
Proof. intros c [->| ->]; reflexivity. Qed.

Lemma dec_map_map8 self size count r : 1 <= size ->
  dec_map self None (193 :: size :: count :: r) = map_loop self (S (N.to_nat count)) count None r [].
Proof.
  intros H. unfold dec_map. cbn -[N.to_nat map_loop]. unfold checked_sub_len.
  destruct (size <? 1) eqn:E; [lia|]. reflexivity.
Qed.

Lemma dec_map_map32 self size count r : 4 <= size -> size < 4294967296 -> count <= MAXCOUNT ->
  dec_map self None (209 :: to_be 4 size ++ to_be 4 count ++ r) = map_loop self (S (N.to_nat count)) count None r [].
Proof.
  intros H1 H2 H3. unfold dec_map. cbn -[N.to_nat read_be map_loop].
  rewrite read_be_to_be by (cbn; lia). cbn -[N.to_nat read_be map_loop].
  rewrite read_be_to_be by (unfold MAXCOUNT in *; cbn; lia). cbn -[N.to_nat read_be map_loop].
  destruct (MAXCOUNT <? count) eqn:E; [lia|]. unfold checked_sub_len.
  destruct (size <? 4) eqn:E4; [lia|]. reflexivity.
Qed.

Lemma enc_map_unfold c l :
  enc c (VMap l) = match cat_opt (map enc_pair l) with
                   | Some buf => write_map c (2 * lenN l) buf | None => None end.
Proof. reflexivity. Qed.

Lemma rt_map f l :
  Forall (fun p => RT f (fst p) /\ RT f (snd p)) l -> keys_fresh [] l = true -> 2 * lenN l <= MAXCOUNT ->
  RT (S f) (VMap l).
Proof.
  intros HRT Hfresh Hcount b rest E. rewrite enc_map_unfold in E.
  destruct (cat_opt (map enc_pair l)) as [buf|] eqn:Ec; [|discriminate].
  destruct (cat_opt_some _ _ _ Ec) as (parts & F2 & ->).
  assert (Hne : Forall (fun p => 2 <= lenN p) parts).
  { clear - F2 HRT. induction F2 as [|[k v] p l parts Hxp _ IH]; constructor.
    - inversion HRT as [|? ? [Hk Hv] Hl]; subst. unfold enc_pair, opt_app in Hxp. cbn [fst snd] in *.
      destruct (enc Plain k) as [bk|] eqn:Ek; [|discriminate].
      destruct (enc Plain v) as [bv|] eqn:Ev; [|discriminate]. injection Hxp as <-.
      pose proof (RT_nonempty _ _ _ Hk Ek). pose proof (RT_nonempty _ _ _ Hv Ev).
      rewrite lenN_app. lia.
    - apply IH. inversion HRT; auto. }
  assert (Hge : 2 * lenN parts <= lenN (concat parts)).
  { clear - Hne. induction Hne as [|p parts Hp _ IH]; cbn [concat]; [cbn; lia|].
    rewrite lenN_cons, lenN_app. lia. }
  assert (Hlen : lenN l = lenN parts) by (unfold lenN; rewrite (Forall2_length _ _ _ F2); reflexivity).
  rewrite dec_unfold. unfold write_map in E.
  destruct (lenN (concat parts) <=? U8MAX1) eqn:E8.
  - injection E as <-. unfold with_code. rewrite <- !app_comm_cons. rewrite dec_body_map by auto.
    rewrite dec_map_map8 by lia. unfold U8MAX1 in *.
    rewrite N.mod_small by lia.
    rewrite (map_loop_rt f l parts F2 HRT [] rest) by (auto; unfold lenN; lia). reflexivity.
  - destruct (lenN (concat parts) <=? U32MAX4) eqn:E32; [|discriminate].
    injection E as <-. unfold with_code. rewrite <- !app_comm_cons. rewrite <- !app_assoc. rewrite dec_body_map by auto.
    unfold U32MAX4, MAXCOUNT in *.
    rewrite N.mod_small by lia.
    rewrite dec_map_map32 by (unfold MAXCOUNT; lia).
    rewrite (map_loop_rt f l parts F2 HRT [] rest) by (auto; unfold lenN; lia). reflexivity.
Qed.

(** ** arrays *)
Lemma array_loop_rt c f : forall l ps,
  Forall2 (fun y p => forall rest, dec_body (dec f) (Some c) (p ++ rest) = Ok (y, Some c, rest)) l ps ->
  forall acc rest size start,
    lenN (concat ps) + lenN rest <= start -> start - lenN rest <= size ->
    array_loop (dec (S f)) (length l) size start (Some c) (concat ps ++ rest) acc
    = Ok (rev acc ++ l, None, rest).
Proof.
  induction 1 as [|y p l ps Hy _ IH]; intros acc rest size start H1 H2; cbn [length array_loop concat].
  - rewrite rev_append_rev, !app_nil_r. reflexivity.
  - rewrite <- app_assoc. rewrite dec_unfold, Hy. cbn [bind].
    cbn [concat] in H1. rewrite lenN_app in H1.
    destruct (size <? start - lenN (concat ps ++ rest)) eqn:E.
    + rewrite lenN_app in E. lia.
    + rewrite IH by (try rewrite lenN_app; lia). cbn [rev]. rewrite <- app_assoc. reflexivity.
Qed.

Lemma dec_body_array self r : forall c, (c = 224 \/ c = 240) ->
  dec_body self None (c :: r) = let* (l, e1, r') := dec_seq self None (c :: r) in Ok (VArray l, e1, r').
Proof. intros c [->| ->]; reflexivity. Qed.

Lemma take_code_cons c r : known_code c = true -> take_code None (c :: r) = Ok (c, r).
Proof. intros H. unfold take_code. rewrite H. reflexivity. Qed.

Lemma dec_seq_array8 self len count fc r :
  count <= len -> count <> 0 -> count <= MAXCOUNT -> known_code fc = true -> 2 <= len ->
  dec_seq self None (224 :: len :: count :: fc :: r)
  = array_loop self (N.to_nat count) (len - 2) (lenN r) (Some fc) r [].
Proof.
  intros H1 H2 H3 H4 H5. unfold dec_seq. rewrite take_code_cons by reflexivity.
  cbn -[N.to_nat array_loop lenN known_code take_code].
  destruct ((MAXCOUNT <? count) || (len <? count)) eqn:E; [lia|].
  destruct (count =? 0) eqn:E0; [lia|]. rewrite take_code_cons by exact H4. cbn -[N.to_nat array_loop lenN known_code].
  unfold checked_sub_len. destruct (len <? 2) eqn:E2; [lia|]. reflexivity.
Qed.

Lemma dec_seq_array32 self len count fc r :
  count <= len -> count <> 0 -> count <= MAXCOUNT -> known_code fc = true -> 5 <= len -> len < 4294967296 ->
  dec_seq self None (240 :: to_be 4 len ++ to_be 4 count ++ fc :: r)
  = array_loop self (N.to_nat count) (len - 5) (lenN r) (Some fc) r [].
Proof.
  intros H1 H2 H3 H4 H5 H6. unfold dec_seq. rewrite take_code_cons by reflexivity.
  cbn -[N.to_nat array_loop lenN read_be known_code take_code].
  rewrite read_be_to_be by (cbn; lia). cbn -[N.to_nat array_loop lenN read_be known_code take_code].
  rewrite read_be_to_be by (unfold MAXCOUNT in *; cbn; lia). cbn -[N.to_nat array_loop lenN read_be known_code take_code].
  destruct ((MAXCOUNT <? count) || (len <? count)) eqn:E; [lia|].
  destruct (count =? 0) eqn:E0; [lia|]. rewrite take_code_cons by exact H4. cbn -[N.to_nat array_loop lenN known_code].
  unfold checked_sub_len. destruct (len <? 5) eqn:E2; [lia|]. reflexivity.
Qed.

Lemma enc_array_unfold c x r :
  enc c (VArray (x :: r)) = match cat_opt (enc First x :: map (enc Other) r) with
                            | Some buf => write_array c (lenN (x :: r)) buf | None => None end.
Proof. reflexivity. Qed.

(** the empty array: size 1, count 0, no element constructor; the decoder skips size - 1 = 0 bytes *)
Lemma rt_array_empty f : RT (S f) (VArray []).
Proof.
  intros b rest E. cbn in E. injection E as <-.
  change (0 + 1) with 1. change (0 mod 256) with 0. cbn [app].
  rewrite dec_unfold, dec_body_array by auto.
  unfold dec_seq. cbn -[read_len lenN]. change (1 - 1) with 0.
  change (read_len 0 rest) with (read_len (lenN (@nil N)) ([] ++ rest)).
  rewrite read_len_app. reflexivity.
Qed.

Lemma rt_array f l :
  forallb wf l = true -> lenN l <= MAXCOUNT ->
  match l with
  | [] => True
  | x :: r => array_elem_kind_ok (kind x) = true /\ forallb (fun y => kind y =? kind x) r = true
  end ->
  RT (S (S f)) (VArray l).
Proof.
  intros Hwf Hcount Hhom b rest E. destruct l as [|x r].
  - exact (rt_array_empty (S f) b rest E).
  - destruct Hhom as [Hk Hsame]. cbn [forallb] in Hwf. apply andb_true_iff in Hwf. destruct Hwf as [Hwx Hwr].
    rewrite enc_array_unfold in E.
    set (c := acode x) in *.
    (* payloads of the tail *)
    assert (Htail : exists ps,
              map (enc Other) r = map Some ps /\
              Forall (fun p => 1 <= lenN p) ps /\
              Forall2 (fun y p => forall rest, dec_body (dec f) (Some c) (p ++ rest) = Ok (y, Some c, rest)) r ps).
    { clear E Hcount. induction r as [|y r IH].
      - exists []. repeat split; constructor.
      - cbn [forallb] in Hwr, Hsame. apply andb_true_iff in Hwr. destruct Hwr as [Hwy Hwr].
        apply andb_true_iff in Hsame. destruct Hsame as [Hky Hsame]. apply N.eqb_eq in Hky.
        destruct (IH Hwr Hsame) as (ps & A & B & C).
        assert (Hkoy : array_elem_kind_ok (kind y) = true) by (rewrite Hky; exact Hk).
        destruct (scalar_array (dec f) y [] Hkoy Hwy) as (p & _ & Eo & Hp & _ & _).
        exists (p :: ps). cbn [map]. rewrite Eo, A. repeat split; [constructor; auto|].
        constructor; [|exact C]. intros rest'.
        destruct (scalar_array (dec f) y rest' Hkoy Hwy) as (p' & _ & Eo' & _ & _ & Hd).
        assert (p' = p) by congruence. subst p'. unfold c. rewrite <- (acode_kind y x Hky). exact Hd. }
    destruct Htail as (ps & Hmap & Hps1 & Hdec).
    destruct (scalar_array (dec f) x [] Hk Hwx) as (px & Ef & _ & Hpx & Hkc & _).
    assert (Hdx : forall rest, dec_body (dec f) (Some c) (px ++ rest) = Ok (x, Some c, rest)).
    { intros rest'. destruct (scalar_array (dec f) x rest' Hk Hwx) as (p' & Ef' & _ & _ & _ & Hd).
      assert (p' = px) by congruence. subst p'. exact Hd. }
    rewrite Ef, Hmap in E. fold c in E, Hkc.
    match type of E with context [cat_opt ?t] =>
      assert (Hcat : cat_opt t = Some (c :: px ++ concat ps)) end.
    { clear. cbn [cat_opt]. assert (H : cat_opt (map Some ps) = Some (concat ps)).
      { induction ps as [|p ps IH]; cbn [map cat_opt concat]; [reflexivity|rewrite IH; reflexivity]. }
      rewrite H. reflexivity. }
    rewrite Hcat in E.
    assert (Hn : lenN r <= lenN (concat ps)).
    { assert (lenN r = lenN ps).
      { unfold lenN. f_equal. apply (f_equal (@length _)) in Hmap. rewrite !map_length in Hmap. exact Hmap. }
      pose proof (lenN_concat_ge ps Hps1). lia. }
    pose proof (Forall2_cons x px Hdx Hdec) as Hall.
    assert (Hlen : length (x :: r) = N.to_nat (lenN (x :: r))) by (unfold lenN; lia).
    rewrite dec_unfold. unfold write_array in E. rewrite lenN_cons in Hcount.
    rewrite !lenN_cons, lenN_app in E.
    destruct (1 + (lenN px + lenN (concat ps)) <=? U8MAX1) eqn:E8.
    + injection E as <-. unfold with_code. rewrite <- !app_comm_cons. rewrite dec_body_array by auto.
      unfold U8MAX1, MAXCOUNT in *. rewrite N.mod_small by lia.
      rewrite dec_seq_array8 by (unfold MAXCOUNT; auto; lia).
      rewrite <- (lenN_cons x r), <- Hlen.
      change ((px ++ concat ps) ++ rest) with (concat (px :: ps) ++ rest).
      rewrite (array_loop_rt c f (x :: r) (px :: ps) Hall [] rest)
        by (cbn [concat]; rewrite ?lenN_app, ?lenN_cons; lia).
      reflexivity.
    + destruct (1 + (lenN px + lenN (concat ps)) <=? U32MAX4) eqn:E32; [|discriminate].
      injection E as <-. unfold with_code. rewrite <- !app_comm_cons, <- !app_assoc.
      rewrite dec_body_array by auto.
      unfold U32MAX4, MAXCOUNT in *. rewrite N.mod_small by lia.
      rewrite <- !app_comm_cons.
      rewrite dec_seq_array32 by (unfold MAXCOUNT; auto; lia).
      rewrite <- (lenN_cons x r), <- Hlen.
      change ((px ++ concat ps) ++ rest) with (concat (px :: ps) ++ rest).
      rewrite (array_loop_rt c f (x :: r) (px :: ps) Hall [] rest)
        by (cbn [concat]; rewrite ?lenN_app, ?lenN_cons; lia).
      reflexivity.
Qed.

(** ** described values *)
Lemma dec_descriptor_rt d db rest :
  wf_descriptor d = true -> enc_descriptor Plain d = Some db ->
  dec_descriptor None (0 :: db ++ rest) = Ok (d, rest).
Proof.
  intros Hwf E. destruct d as [s|n]; cbn [enc_descriptor wf_descriptor] in *.
  - unfold len_ok in Hwf. wf_split Hwf.
    destruct (var_plain 163 179 s db rest eq_refl eq_refl ltac:(discriminate) ltac:(lia) E)
      as (code & r & Heq & Hk & Hcode & Hread).
    rewrite Heq. unfold dec_descriptor.
    destruct Hcode as [-> | ->]; cbn -[read_var check_utf8]; rewrite Hread; unfold check_utf8; cbn [bind fst];
      rewrite Hwf1; reflexivity.
  - injection E as <-. unfold enc_ulong.
    destruct (n =? 0) eqn:E0; [apply N.eqb_eq in E0; subst; reflexivity|].
    destruct (n <=? 255) eqn:E1; [reflexivity|].
    unfold dec_descriptor. cbn -[read_be]. rewrite read_be_to_be by (cbn; lia). reflexivity.
Qed.

Lemma rt_described f d x :
  RT f x -> wf_descriptor d = true -> RT (S f) (VDescribed d x).
Proof.
  intros Hx Hd b rest E. cbn [enc] in E. unfold opt_app in E.
  destruct (enc_descriptor Plain d) as [db|] eqn:Ed; [|discriminate].
  destruct (enc Plain x) as [xb|] eqn:Ex; [|discriminate]. injection E as <-.
  rewrite dec_unfold. cbn [app]. rewrite <- app_assoc.
  pose proof (Hx xb rest Ex) as Hdx.
  destruct (dec_ok_head _ _ _ Hdx) as (c1 & r1 & Heq1 & Hk1).
  change (dec_body (dec f) None (0 :: db ++ xb ++ rest)) with (dec_described (dec f) None (0 :: db ++ xb ++ rest)).
  unfold dec_described. change (negb (known_code 0)) with false. cbv iota.
  rewrite (dec_descriptor_rt d db (xb ++ rest) Hd Ed). cbn [bind].
  rewrite Heq1, Hk1. cbn [negb]. rewrite <- Heq1, Hdx. reflexivity.
Qed.

(** ** the round-trip theorem *)
Lemma forallb_Forall {A} (p : A -> bool) l : forallb p l = true -> Forall (fun x => p x = true) l.
Proof. intros H. apply Forall_forall. rewrite forallb_forall in H. exact H. Qed.

Lemma depth_pos v : (1 <= depth v)%nat.
Proof. destruct v; cbn; lia. Qed.

Lemma fold_max_le {A} (g : A -> nat) l x : In x l -> (g x <= fold_right (fun y m => Nat.max (g y) m) 0%nat l)%nat.
Proof. induction l as [|y l IH]; cbn; [tauto|]. intros [->|H]; [lia|]. specialize (IH H). lia. Qed.

Theorem roundtrip_fuel v : wf v = true -> forall f, (depth v <= f)%nat -> RT f v.
Proof.
  induction v as [v Hs|d x IH|l IH|l IH|l IH] using value_ind'; intros Hwf f Hf.
  - (* scalars *)
    pose proof (depth_pos v). destruct f as [|f]; [lia|]. intros b rest E.
    rewrite dec_unfold. apply scalar_plain; auto.
  - cbn [wf depth] in *. apply andb_true_iff in Hwf. destruct Hwf as [Hd Hx].
    destruct f as [|f]; [lia|]. apply rt_described; auto. apply IH; auto. lia.
  - cbn [wf depth] in *. apply andb_true_iff in Hwf. destruct Hwf as [Hl Hc].
    destruct f as [|f]; [lia|]. apply rt_list; [|lia].
    apply Forall_forall. intros x Hx. rewrite Forall_forall in IH. apply IH; auto.
    + rewrite forallb_forall in Hl. auto.
    + pose proof (fold_max_le depth l x Hx). lia.
  - cbn [wf depth] in *. apply andb_true_iff in Hwf. destruct Hwf as [Hwf Hc].
    apply andb_true_iff in Hwf. destruct Hwf as [Hl Hfresh].
    destruct f as [|f]; [lia|]. apply rt_map; auto; [|lia].
    apply Forall_forall. intros p Hp. rewrite Forall_forall in IH. destruct (IH p Hp) as [IHk IHv].
    rewrite forallb_forall in Hl. specialize (Hl p Hp). apply andb_true_iff in Hl. destruct Hl as [Hk Hv].
    pose proof (fold_max_le (fun p => Nat.max (depth (fst p)) (depth (snd p))) l p Hp) as Hm. cbn beta in Hm.
    split; [apply IHk|apply IHv]; auto; lia.
  - cbn [wf depth] in *. apply andb_true_iff in Hwf. destruct Hwf as [Hwf Hhom].
    apply andb_true_iff in Hwf. destruct Hwf as [Hl Hc].
    destruct f as [|[|f]].
    + lia.
    + (* fuel 1: only the empty array has depth 1 *)
      destruct l as [|x r]; [|pose proof (depth_pos x); cbn in Hf; lia].
      apply rt_array_empty.
    + apply rt_array; auto; [lia|]. destruct l as [|x r]; [exact I|].
      apply andb_true_iff in Hhom. exact Hhom.
Qed.

Theorem roundtrip v b rest :
  wf v = true -> enc_bytes v = Some b ->
  from_slice (depth v) (b ++ rest) = Ok (v, rest).
Proof.
  intros Hwf E. unfold from_slice. rewrite (roundtrip_fuel v Hwf (depth v) (le_n _) b rest E). reflexivity.
Qed.
