From FV Require Import Base.Bytes Frame.Transfer Proofs.BytesProofs.
From Coq Require Import Lia ZArith ZifyN ZifyBool ZifyNat.
Open Scope N_scope.
Arguments to_be : simpl never.

Lemma split_at_spec k : forall bs h t, split_at k bs = (h, t) ->
  h ++ t = bs /\ length h = Nat.min k (length bs).
Proof.
  induction k as [|k IH]; intros bs h t H; cbn [split_at] in H.
  - injection H as <- <-. split; [reflexivity|cbn; lia].
  - destruct bs as [|b r]; [injection H as <- <-; split; reflexivity|].
    destruct (split_at k r) as [h' t'] eqn:E. injection H as <- <-.
    destruct (IH _ _ _ E) as [A B]. split; [cbn; rewrite A; reflexivity|cbn; lia].
Qed.

Lemma write_header_len ch : lenN (write_header ch) = 4.
Proof. reflexivity. Qed.

(** the shape of what [encode_transfer] produces: frames with the given performative
    encodings and a partition of the payload *)
Definition frame_of (hdr perf part : bytes) : bytes := hdr ++ perf ++ part.

Lemma mid_frames_spec hdr pmid mfb : lenN pmid < mfb ->
  forall fuel payload frames last,
    (length payload <= fuel)%nat ->
    mid_frames fuel hdr pmid mfb payload = (frames, last) ->
    exists parts,
      frames = map (frame_of hdr pmid) parts /\
      concat parts ++ last = payload /\
      Forall (fun part => lenN pmid + lenN part = mfb) parts /\
      lenN pmid + lenN last <= mfb.
Proof.
  intros Hp. induction fuel as [|f IH]; intros payload frames last Hf E; cbn [mid_frames] in E.
  - injection E as <- <-. destruct payload; [|cbn in Hf; lia]. exists []. cbn. repeat split; auto. lia.
  - destruct (mfb <? lenN pmid + lenN payload) eqn:Ec.
    + destruct (split_at (N.to_nat (mfb - lenN pmid)) payload) as [part rest] eqn:Es.
      destruct (mid_frames f hdr pmid mfb rest) as [fr la] eqn:Em. injection E as <- <-.
      destruct (split_at_spec _ _ _ _ Es) as [Hcat Hlen].
      assert (Hpl : lenN part = mfb - lenN pmid).
      { unfold lenN in *. rewrite Hlen. lia. }
      assert (Hrest : (length rest <= f)%nat).
      { apply (f_equal (@length _)) in Hcat. rewrite app_length in Hcat. unfold lenN in *. lia. }
      destruct (IH rest fr la Hrest Em) as (parts & A & B & C & D).
      exists (part :: parts). cbn [map concat]. repeat split.
      * rewrite A. reflexivity.
      * rewrite <- app_assoc, B. exact Hcat.
      * constructor; [lia|exact C].
      * exact D.
    + injection E as <- <-. exists []. cbn. repeat split; auto. lia.
Qed.

Record transfer_layout (m channel : N) (p : perfs) (payload : bytes) (chunks : list bytes) : Prop := {
  tl_single :
    lenN (p_single p) + lenN payload <= m - 4 ->
    chunks = [frame_of (write_header channel) (p_single p) payload];
  tl_multi :
    m - 4 < lenN (p_single p) + lenN payload ->
    exists first mids last,
      chunks = frame_of (write_header channel) (p_first p) first
               :: map (frame_of (write_header channel) (p_mid p)) mids
               ++ [frame_of (write_header channel) (p_last p) last] /\
      first ++ concat mids ++ last = payload /\
      lenN (p_first p) + lenN first = m - 4 /\
      Forall (fun part => lenN (p_mid p) + lenN part = m - 4) mids /\
      lenN (p_mid p) + lenN last <= m - 4
}.

Lemma encode_transfer_spec m channel p payload :
  lenN (p_first p) <= m - 4 -> lenN (p_mid p) < m - 4 ->
  lenN (p_single p) <= lenN (p_first p) ->
  exists chunks, encode_transfer m channel p payload = Some chunks /\ transfer_layout m channel p payload chunks.
Proof.
  intros H1 H2 H3. unfold encode_transfer.
  destruct (m - 4 <? lenN (p_single p) + lenN payload) eqn:Ec.
  - destruct ((m - 4 <? lenN (p_first p)) || (m - 4 <=? lenN (p_mid p))) eqn:Eb; [lia|].
    destruct (split_at (N.to_nat (m - 4 - lenN (p_first p))) payload) as [part rest] eqn:Es.
    destruct (mid_frames (length payload) (write_header channel) (p_mid p) (m - 4) rest) as [mids last] eqn:Em.
    eexists. split; [reflexivity|].
    destruct (split_at_spec _ _ _ _ Es) as [Hcat Hlen].
    assert (Hrest : (length rest <= length payload)%nat).
    { apply (f_equal (@length _)) in Hcat. rewrite app_length in Hcat. lia. }
    destruct (mid_frames_spec _ _ _ H2 _ _ _ _ Hrest Em) as (parts & A & B & C & D).
    constructor; [lia|]. intros _. exists part, parts, last. repeat split; auto.
    + rewrite A. reflexivity.
    + rewrite B. exact Hcat.
    + unfold lenN in *. rewrite Hlen. lia.
  - eexists. split; [reflexivity|]. constructor; [reflexivity|lia].
Qed.

(** ** start_send cuts exactly on the frame boundaries *)
Lemma split_at_app (a b : bytes) : split_at (length a) (a ++ b) = (a, b).
Proof. induction a as [|x a IH]; cbn; [destruct b; reflexivity|rewrite IH; reflexivity]. Qed.

Lemma rechunk_exact m : 0 < m -> forall chunks last fuel,
  Forall (fun c => lenN c = m) chunks -> lenN last <= m ->
  (length (concat chunks ++ last) <= fuel)%nat -> (chunks <> [] -> 0 < lenN last) ->
  rechunk fuel m (concat chunks ++ last) = chunks ++ [last].
Proof.
  intros Hm. induction chunks as [|c chunks IH]; intros last fuel Hall Hl Hf Hne.
  - cbn [concat app]. destruct fuel; cbn [rechunk]; [reflexivity|].
    destruct (m <? lenN last) eqn:E; [lia|reflexivity].
  - inversion Hall as [|? ? Hc Hcs]; subst. cbn [concat]. rewrite <- app_assoc.
    assert (0 < lenN last) by (apply Hne; discriminate).
    destruct fuel as [|fuel]; [rewrite !app_length in Hf; unfold lenN in *; lia|].
    cbn [rechunk]. rewrite lenN_app.
    destruct (lenN c <? lenN c + lenN (concat chunks ++ last)) eqn:E; [|rewrite lenN_app in E; lia].
    replace (N.to_nat (lenN c)) with (length c) by (unfold lenN; lia).
    rewrite split_at_app. cbn [app]. f_equal. apply IH; auto.
    cbn [concat] in Hf. rewrite <- app_assoc, app_length in Hf. unfold lenN in *. lia.
Qed.

Lemma ld_encode_len c : lenN (ld_encode c) = lenN c + 4.
Proof. unfold ld_encode. rewrite lenN_app, lenN_to_be. change (N.of_nat 4) with 4. lia. Qed.

Lemma frame_of_len hdr perf part : lenN (frame_of hdr perf part) = lenN hdr + lenN perf + lenN part.
Proof. unfold frame_of. rewrite !lenN_app. lia. Qed.

Lemma removelast_app_last {A} (l : list A) x : exists init last, l ++ [x] = init ++ [last] /\ init = l /\ last = x.
Proof. eauto. Qed.

Theorem wire_transfer_spec M ch p payload :
  512 <= M ->
  lenN (p_first p) <= M - 8 -> lenN (p_mid p) < M - 8 ->
  lenN (p_single p) <= lenN (p_first p) -> lenN (p_last p) <= lenN (p_mid p) ->
  exists chunks,
    wire_transfer M ch p payload = Some (map ld_encode chunks) /\
    transfer_layout (M - 4) ch p payload chunks /\
    Forall (fun w => lenN w <= M) (map ld_encode chunks) /\
    Forall (fun c => exists body, c = write_header ch ++ body) chunks.
Proof.
  intros HM H1 H2 H3 H4. unfold wire_transfer, encoder_max, MIN_MAX_FRAME_SIZE.
  replace (N.max 512 M - 4) with (M - 4) by lia. set (m := M - 4).
  destruct (encode_transfer_spec m ch p payload ltac:(lia) ltac:(lia) H3) as (chunks & E & L).
  rewrite E. exists chunks.
  destruct (N.le_gt_cases (lenN (p_single p) + lenN payload) (m - 4)) as [Hs|Hs].
  - (* one frame *)
    pose proof (tl_single _ _ _ _ _ L Hs) as ->.
    assert (Hlen : lenN (frame_of (write_header ch) (p_single p) payload) <= m).
    { rewrite frame_of_len, write_header_len. lia. }
    cbn [concat]. rewrite app_nil_r.
    pose proof (rechunk_exact m ltac:(lia) [] (frame_of (write_header ch) (p_single p) payload)
                  (length (frame_of (write_header ch) (p_single p) payload)) (Forall_nil _) Hlen (le_n _)
                  ltac:(intros H; congruence)) as R.
    cbn [concat app] in R. rewrite R. split; [reflexivity|]. split; [exact L|]. split.
    + constructor; [|constructor]. rewrite ld_encode_len. lia.
    + constructor; [|constructor]. eexists. reflexivity.
  - destruct (tl_multi _ _ _ _ _ L Hs) as (first & mids & last & -> & Hcat & Hf & Hm & Hl).
    set (hdr := write_header ch).
    set (init := frame_of hdr (p_first p) first :: map (frame_of hdr (p_mid p)) mids).
    set (lastc := frame_of hdr (p_last p) last).
    change (frame_of hdr (p_first p) first :: map (frame_of hdr (p_mid p)) mids ++ [lastc]) with (init ++ [lastc]) in *.
    assert (Hinit : Forall (fun c => lenN c = m) init).
    { unfold init. constructor.
      - rewrite frame_of_len. unfold hdr. rewrite write_header_len. lia.
      - apply Forall_forall. intros c Hc. apply in_map_iff in Hc. destruct Hc as (part & <- & Hp).
        rewrite Forall_forall in Hm. specialize (Hm part Hp).
        rewrite frame_of_len. unfold hdr. rewrite write_header_len. lia. }
    assert (Hlast : lenN lastc <= m /\ 0 < lenN lastc).
    { unfold lastc. rewrite frame_of_len. unfold hdr. rewrite write_header_len. lia. }
    rewrite concat_app. cbn [concat]. rewrite app_nil_r.
    rewrite (rechunk_exact m ltac:(lia) init lastc _ Hinit (proj1 Hlast) (le_n _) (fun _ => proj2 Hlast)).
    split; [reflexivity|]. split; [exact L|]. split.
    + rewrite map_app. apply Forall_app. split.
      * apply Forall_forall. intros w Hw. apply in_map_iff in Hw. destruct Hw as (c & <- & Hc).
        rewrite Forall_forall in Hinit. rewrite ld_encode_len, (Hinit c Hc). lia.
      * constructor; [|constructor]. rewrite ld_encode_len. lia.
    + apply Forall_app. split.
      * unfold init. constructor; [eexists; reflexivity|].
        apply Forall_forall. intros c Hc. apply in_map_iff in Hc. destruct Hc as (part & <- & _). eexists; reflexivity.
      * constructor; [|constructor]. eexists; reflexivity.
Qed.

(** any other performative: within the limit exactly one complete frame, beyond it an error *)
Theorem wire_other_spec M ch perf :
  512 <= M ->
  (lenN perf <= M - 8 -> wire_other M ch perf = Some [ld_encode (write_header ch ++ perf)] /\
                         lenN (ld_encode (write_header ch ++ perf)) <= M) /\
  (M - 8 < lenN perf -> wire_other M ch perf = None).
Proof.
  intros HM. unfold wire_other, encoder_max, MIN_MAX_FRAME_SIZE.
  replace (N.max 512 M - 4) with (M - 4) by lia. rewrite lenN_app, write_header_len. split; intros H.
  - destruct (M - 4 <? 4 + lenN perf) eqn:E; [lia|]. split; [reflexivity|].
    rewrite ld_encode_len, lenN_app, write_header_len. lia.
  - destruct (M - 4 <? 4 + lenN perf) eqn:E; [reflexivity|lia].
Qed.
