(** End to end on the models: what the sending session cuts into frames
    (Frame/SessionSplit.v) the receiving link (Link/Receiver.v) puts together
    again, byte for byte, once. *)
From FV Require Import Base.Serial Frame.SessionSplit Link.Receiver Proofs.SessionSplitProofs Proofs.ReceiverProofs.
From Coq Require Import Lia ZArith ZifyN ZifyBool ZifyNat.
Open Scope N_scope.

(** cut a byte string into pieces of the given lengths *)
Fixpoint cut (sizes : list N) (m : list N) : list (list N) :=
  match sizes with
  | [] => []
  | k :: r => firstn (N.to_nat k) m :: cut r (skipn (N.to_nat k) m)
  end.

Lemma cut_concat sizes : forall m, sumN sizes = N.of_nat (length m) -> concat (cut sizes m) = m.
Proof.
  induction sizes as [|k r IH]; intros m H; cbn [cut concat].
  - cbn in H. destruct m; [reflexivity|cbn in H; lia].
  - cbn [sumN fold_right] in H. fold (sumN r) in H.
    rewrite IH; [apply firstn_skipn|]. rewrite skipn_length. lia.
Qed.

(** the transfer frames of one delivery: id, tag and format on the first, [more] on all but the last *)
Definition first_frame (d t f : N) (more : bool) (p : list N) : xfer := mkX (Some d) (Some t) (Some f) None more None false p.
Definition next_frame (more : bool) (p : list N) : xfer := mkX None None None None more None false p.

Fixpoint next_frames (ps : list (list N)) : list xfer :=
  match ps with
  | [] => []
  | [p] => [next_frame false p]
  | p :: r => next_frame true p :: next_frames r
  end.

Definition frames_of (d t f : N) (ps : list (list N)) : list xfer :=
  match ps with
  | [] => []
  | [p] => [first_frame d t f false p]
  | p :: r => first_frame d t f true p :: next_frames r
  end.

Lemma next_frames_shape ps p d t f : ps <> [] ->
  exists xs xf, next_frames (ps ++ [p]) = xs ++ [xf] /\
    forallb (fun x => continues d t f x && x_more x) xs = true /\
    continues d t f xf = true /\ x_more xf = false /\
    concat (map x_pay xs) ++ x_pay xf = concat (ps ++ [p]).
Proof.
  intros _. induction ps as [|q ps IH].
  - exists [], (next_frame false p). cbn. rewrite app_nil_r. auto.
  - destruct IH as (xs & xf & E & A & B & C & D).
    exists (next_frame true q :: xs), xf.
    cbn [app next_frames]. destruct (ps ++ [p]) as [|z zs] eqn:Ez; [destruct ps; discriminate|].
    rewrite E. cbn [app]. split; [reflexivity|]. cbn [forallb map concat]. rewrite A.
    split; [reflexivity|]. split; [exact B|]. split; [exact C|].
    cbn [x_pay next_frame]. rewrite <- app_assoc, D. reflexivity.
Qed.

(** the mode override carried by the delivery in progress *)
Definition inc_rsm (s : rstate) : option bool := match r_inc s with Some i => i_rsm i | None => None end.

Lemma first_rsm s d t f x :
  r_waiting s = true -> r_queue s = [] -> r_inc s = None ->
  x_did x = Some d -> x_tag x = Some t -> x_fmt x = Some f -> x_aborted x = false -> x_more x = true ->
  inc_rsm (fst (rstep s (EXfer x))) = x_rsm x.
Proof.
  intros Hw Hq Hi Hd Ht Hf Hab Hm.
  cbn [rstep]. unfold fuel_of. cbn [r_queue length]. rewrite Hq. cbn [app length].
  rewrite (pump_one _ x) by (cbn; auto).
  cbn [r_mode r_second r_credit r_dc r_drain r_processed r_inc r_waiting r_held r_unsettled r_reg].
  unfold process. cbn [r_inc]. rewrite Hab, Hm, Hi. unfold start. cbn [i_tag]. rewrite Ht. reflexivity.
Qed.

Lemma cont_rsm s d t f buf x :
  mid s d t f buf -> continues d t f x = true -> x_more x = true ->
  inc_rsm (fst (rstep s (EXfer x))) = inc_rsm s.
Proof.
  intros (Hw & Hq & i & Hi & Hd & Ht & Hf & Hb) Hc Hm.
  assert (Hab : x_aborted x = false).
  { unfold continues in Hc. apply andb_prop in Hc as [_ Ha]. destruct (x_aborted x); [discriminate|reflexivity]. }
  unfold inc_rsm at 2. rewrite Hi.
  cbn [rstep]. unfold fuel_of. cbn [r_queue length]. rewrite Hq. cbn [app length].
  rewrite (pump_one _ x) by (cbn; auto).
  cbn [r_mode r_second r_credit r_dc r_drain r_processed r_inc r_waiting r_held r_unsettled r_reg].
  unfold process. cbn [r_inc]. rewrite Hab, Hm, Hi, (merge_continues i d t f x Hd Ht Hf Hc). reflexivity.
Qed.

Lemma conts_rsm xs : forall s d t f buf,
  mid s d t f buf -> forallb (fun x => continues d t f x && x_more x) xs = true ->
  inc_rsm (fst (rrun s (map EXfer xs))) = inc_rsm s.
Proof.
  induction xs as [|x xs IH]; intros s d t f buf Hmid Hall; cbn [map rrun]; [reflexivity|].
  cbn [forallb] in Hall. apply andb_prop in Hall as [Hx Hall]. apply andb_prop in Hx as [Hc Hm].
  pose proof (cont_rsm s d t f buf x Hmid Hc Hm) as R.
  destruct (step_continuation s d t f buf x Hmid Hc Hm) as (_ & Hmid' & _).
  destruct (rstep s (EXfer x)) as [s1 o]. cbn [fst] in *.
  pose proof (IH s1 d t f _ Hmid' Hall) as R2. destruct (rrun s1 (map EXfer xs)) as [s2 os]. cbn [fst] in *. congruence.
Qed.

(** without a mode override the final frame always returns the message *)
Lemma final_plain s d t f buf x :
  mid s d t f buf -> inc_rsm s = None -> continues d t f x = true -> x_more x = false -> 1 <= r_credit s ->
  exists info, snd (rstep s (EXfer x)) = [ORecv info (Some f) (buf ++ x_pay x)] /\ d_id info = d /\ d_tag info = t.
Proof.
  intros (Hw & Hq & i & Hi & Hd & Ht & Hf & Hb) Hr Hc Hm Hcr.
  unfold inc_rsm in Hr. rewrite Hi in Hr.
  assert (Hab : x_aborted x = false).
  { unfold continues in Hc. apply andb_prop in Hc as [_ Ha]. destruct (x_aborted x); [discriminate|reflexivity]. }
  cbn [rstep]. unfold fuel_of. cbn [r_queue length]. rewrite Hq. cbn [app length].
  rewrite (pump_one _ x) by (cbn; auto).
  cbn [r_mode r_second r_credit r_dc r_drain r_processed r_inc r_waiting r_held r_unsettled r_reg].
  unfold process. cbn [r_inc]. rewrite Hab, Hm, Hi, (merge_continues i d t f x Hd Ht Hf Hc).
  unfold complete. cbn [set_inc r_credit r_mode r_second r_dc r_drain r_processed r_inc r_queue r_waiting r_held r_unsettled r_reg i_did i_tag i_settled i_fmt i_buf i_rsm].
  destruct (r_credit s <? 1) eqn:E; [lia|]. rewrite Hb, Hr.
  destruct (match or_settled (i_settled i) (x_settled x) with Some true => true | _ => false end).
  - eexists. cbn. split; [reflexivity|]. split; reflexivity.
  - rewrite andb_false_r. eexists. cbn. split; [reflexivity|]. split; reflexivity.
Qed.

(** a delivery that fits one frame *)
(** a delivery that fits one frame *)
Lemma step_only s d t f p :
  r_waiting s = true -> r_queue s = [] -> r_inc s = None -> 1 <= r_credit s ->
  snd (rstep s (EXfer (first_frame d t f false p))) = [ORecv (mkD d t None) (Some f) p].
Proof.
  intros Hw Hq Hi Hc. cbn [rstep]. unfold fuel_of. cbn [r_queue length]. rewrite Hq. cbn [app length].
  rewrite (pump_one _ (first_frame d t f false p)) by (cbn; auto).
  cbn [r_mode r_second r_credit r_dc r_drain r_processed r_inc r_waiting r_held r_unsettled r_reg].
  unfold process. cbn [x_aborted first_frame x_more r_inc]. rewrite Hi.
  unfold complete, start. cbn [set_inc r_credit r_mode r_second r_dc r_drain r_processed r_inc r_queue r_waiting r_held r_unsettled r_reg
                              i_did i_tag i_settled i_fmt i_buf i_rsm x_did x_tag x_fmt x_settled x_rsm x_pay first_frame].
  destruct (r_credit s <? 1) eqn:E; [lia|]. rewrite andb_false_r. reflexivity.
Qed.

(** whatever the frame size: the message [m], cut by the sending session for a frame body limit [mfb], arrives
    as exactly one delivery whose bytes are [m], and nothing is delivered before its last frame *)
Theorem end_to_end s mfb lf lr d t f (m : list N) :
  lf <= mfb -> lr < mfb ->
  r_waiting s = true -> r_queue s = [] -> r_inc s = None -> 1 <= r_credit s ->
  let sizes := session_split mfb lf lr (N.of_nat (length m)) in
  let r := rrun s (map EXfer (frames_of d t f (cut sizes m))) in
  concat (removelast (snd r)) = [] /\
  exists info, last (snd r) [] = [ORecv info (Some f) m] /\ d_id info = d /\ d_tag info = t.
Proof.
  intros Hf Hr Hw Hq Hi Hc. cbn zeta.
  pose proof (split_sum mfb lf lr (N.of_nat (length m))) as Hsum.
  pose proof (cut_concat _ m Hsum) as Hcat.
  destruct (session_split mfb lf lr (N.of_nat (length m))) as [|k0 ks] eqn:Es.
  { exfalso. pose proof (split_fit mfb lf lr (N.of_nat (length m)) Hf Hr) as F. rewrite Es in F. exact F. }
  cbn [cut] in *. set (p0 := firstn (N.to_nat k0) m) in *. set (m' := skipn (N.to_nat k0) m) in *.
  destruct (cut ks m') as [|p1 ps] eqn:Ec.
  - (* one frame *)
    cbn [frames_of map rrun]. cbn [concat] in Hcat. rewrite app_nil_r in Hcat. rewrite Hcat.
    pose proof (step_only s d t f m Hw Hq Hi Hc) as S.
    destruct (rstep s (EXfer (first_frame d t f false m))) as [s1 o1]. cbn [snd] in *. subst o1.
    cbn. split; [reflexivity|]. eexists. split; [reflexivity|]. split; reflexivity.
  - (* several frames: first, continuations, last *)
    assert (Hne : p1 :: ps <> []) by discriminate.
    destruct (@exists_last _ (p1 :: ps) Hne) as (qs & q & Eq).
    assert (Hfr : exists xs xf, frames_of d t f (p0 :: p1 :: ps) = first_frame d t f true p0 :: xs ++ [xf] /\
              forallb (fun x => continues d t f x && x_more x) xs = true /\
              continues d t f xf = true /\ x_more xf = false /\
              concat (map x_pay xs) ++ x_pay xf = concat (p1 :: ps)).
    { cbn [frames_of]. rewrite Eq. destruct qs as [|q0 qs'].
      - exists [], (next_frame false q). cbn. rewrite app_nil_r. auto.
      - destruct (next_frames_shape (q0 :: qs') q d t f ltac:(discriminate)) as (xs & xf & E & A & B & C & D).
        exists xs, xf. rewrite E. auto. }
    destruct Hfr as (xs & xf & Efr & Hall & Hcf & Hmf & Hpay). rewrite Efr.
    cbn [map rrun].
    destruct (step_first s d t f (first_frame d t f true p0) Hw Hq Hi eq_refl eq_refl eq_refl eq_refl eq_refl) as (O1 & M1 & C1 & _).
    pose proof (first_rsm s d t f (first_frame d t f true p0) Hw Hq Hi eq_refl eq_refl eq_refl eq_refl eq_refl) as R1.
    destruct (rstep s (EXfer (first_frame d t f true p0))) as [s1 o1]. cbn [fst snd] in *. subst o1.
    rewrite map_app, rrun_app.
    pose proof (run_continuations xs s1 d t f _ M1 Hall) as RC. cbn zeta in RC.
    pose proof (conts_rsm xs s1 d t f _ M1 Hall) as R2.
    destruct (rrun s1 (map EXfer xs)) as [s2 o2]. cbn [fst snd] in *.
    destruct RC as (O2 & M2 & C2 & _).
    cbn [map rrun].
    destruct (final_plain s2 d t f _ xf M2 (eq_trans R2 R1) Hcf Hmf ltac:(lia)) as (info & O3 & Hid & Htag).
    destruct (rstep s2 (EXfer xf)) as [s3 o3]. cbn [fst snd] in *. subst o3.
    change ([] :: o2 ++ [[ORecv info (Some f) ((x_pay (first_frame d t f true p0) ++ concat (map x_pay xs)) ++ x_pay xf)]])
      with (([] :: o2) ++ [[ORecv info (Some f) ((x_pay (first_frame d t f true p0) ++ concat (map x_pay xs)) ++ x_pay xf)]]).
    rewrite removelast_last, last_last. cbn [concat app]. split; [exact O2|].
    exists info. split; [|split; assumption].
    cbn [x_pay first_frame]. rewrite <- app_assoc, Hpay. change (p0 ++ concat (p1 :: ps)) with (concat (p0 :: p1 :: ps)). rewrite Hcat. reflexivity.
Qed.
