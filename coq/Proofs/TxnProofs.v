(** Proofs about the listener-side transactional resource model (Txn/Manager.v). *)
From FV Require Import Txn.Manager.
From Coq Require Import Lia ZifyN ZifyBool.
Open Scope N_scope.

(** * Lists *)

Lemma mem_cons x c l : mem x (c :: l) = N.eqb x c || mem x l.
Proof. reflexivity. Qed.

Lemma mem_remove_neq x c l : x <> c -> mem x (remove c l) = mem x l.
Proof.
  intros Hn. induction l as [|a r IH]; [reflexivity|].
  unfold remove in *. cbn [filter]. destruct (N.eqb c a) eqn:E; cbn [negb].
  - apply N.eqb_eq in E. subst a. rewrite mem_cons. rewrite IH.
    destruct (N.eqb x c) eqn:E2; [apply N.eqb_eq in E2; contradiction|reflexivity].
  - rewrite !mem_cons. rewrite IH. reflexivity.
Qed.

Lemma NoDup_snoc (A : Type) (l : list A) (x : A) : NoDup l -> ~ In x l -> NoDup (l ++ [x]).
Proof.
  induction l as [|a r IH]; intros Hd Hn; cbn [app].
  - constructor; [intros []|constructor].
  - inversion Hd as [|a' r' Ha Hr]; subst. constructor.
    + intros Hin. apply in_app_iff in Hin. destruct Hin as [Hin|[Hin|[]]]; [contradiction|].
      apply Hn. left. symmetry. exact Hin.
    + apply IH; [exact Hr|]. intros Hin. apply Hn. right. exact Hin.
Qed.

Lemma NoDup_map_filter (A B : Type) (f : A -> B) (p : A -> bool) (l : list A) :
  NoDup (map f l) -> NoDup (map f (filter p l)).
Proof.
  induction l as [|a r IH]; intros Hd; [exact Hd|].
  cbn [map] in Hd. inversion Hd as [|a' r' Ha Hr]; subst.
  cbn [filter]. destruct (p a); [|apply IH; exact Hr].
  cbn [map]. constructor; [|apply IH; exact Hr].
  intros Hin. apply Ha. apply in_map_iff in Hin. destruct Hin as [y [Hy Hin]].
  apply filter_In in Hin. apply in_map_iff. exists y. split; [exact Hy|apply Hin].
Qed.

Lemma deliveries_map ps : deliveries (map deliver ps) = ps.
Proof.
  induction ps as [|[l m] r IH]; [reflexivity|].
  cbn [map deliver fst snd deliveries]. rewrite IH. reflexivity.
Qed.

(** * The table of live transactions *)

Lemma find_tx_some id ts t : find_tx id ts = Some t -> In t ts /\ t_id t = id.
Proof.
  induction ts as [|a r IH]; cbn [find_tx]; [discriminate|].
  destruct (N.eqb (t_id a) id) eqn:E; intros H.
  - injection H as H. subst a. split; [left; reflexivity|apply N.eqb_eq; exact E].
  - destruct (IH H) as [H1 H2]. split; [right; exact H1|exact H2].
Qed.

Lemma find_tx_none id ts : find_tx id ts = None -> forall t, In t ts -> t_id t <> id.
Proof.
  induction ts as [|a r IH]; cbn [find_tx]; intros H t Hin; [destruct Hin|].
  destruct (N.eqb (t_id a) id) eqn:E; [discriminate|].
  destruct Hin as [Hin|Hin]; [subst a; apply N.eqb_neq; exact E|apply IH; assumption].
Qed.

Lemma find_tx_unique id ts t : NoDup (map t_id ts) -> In t ts -> t_id t = id -> find_tx id ts = Some t.
Proof.
  induction ts as [|a r IH]; intros Hd Hin Hid; [destruct Hin|].
  cbn [map] in Hd. inversion Hd as [|a' r' Ha Hr]; subst. cbn [find_tx].
  destruct Hin as [Hin|Hin].
  - subst a. rewrite N.eqb_refl. reflexivity.
  - destruct (N.eqb (t_id a) (t_id t)) eqn:E.
    + apply N.eqb_eq in E. exfalso. apply Ha. rewrite E. apply in_map. exact Hin.
    + apply IH; [exact Hr|exact Hin|reflexivity].
Qed.

Lemma find_tx_snoc_old id ts x t : find_tx id ts = Some t -> find_tx id (ts ++ [x]) = Some t.
Proof.
  induction ts as [|a r IH]; cbn [find_tx app]; [discriminate|].
  destruct (N.eqb (t_id a) id); [auto|exact IH].
Qed.

Lemma find_tx_snoc_none id ts x : find_tx id ts = None -> find_tx id (ts ++ [x]) = if N.eqb (t_id x) id then Some x else None.
Proof.
  induction ts as [|a r IH]; cbn [find_tx app]; [reflexivity|].
  destruct (N.eqb (t_id a) id); [discriminate|exact IH].
Qed.

Lemma find_tx_add_same id p ts :
  find_tx id (add_post id p ts) =
  match find_tx id ts with Some t => Some (mkT (t_id t) (t_ctl t) (t_posts t ++ [p])) | None => None end.
Proof.
  induction ts as [|a r IH]; [reflexivity|].
  cbn [add_post find_tx]. destruct (N.eqb (t_id a) id) eqn:E; cbn [find_tx t_id].
  - rewrite E. reflexivity.
  - rewrite E. exact IH.
Qed.

Lemma find_tx_add_other id id' p ts : id' <> id -> find_tx id' (add_post id p ts) = find_tx id' ts.
Proof.
  intros Hn. induction ts as [|a r IH]; [reflexivity|].
  cbn [add_post find_tx]. destruct (N.eqb (t_id a) id) eqn:E; cbn [find_tx t_id].
  - apply N.eqb_eq in E. destruct (N.eqb (t_id a) id') eqn:E2; [apply N.eqb_eq in E2; congruence|reflexivity].
  - destruct (N.eqb (t_id a) id'); [reflexivity|exact IH].
Qed.

Lemma find_tx_drop_same id ts : find_tx id (drop_tx id ts) = None.
Proof.
  induction ts as [|a r IH]; [reflexivity|].
  unfold drop_tx in *. cbn [filter]. destruct (N.eqb (t_id a) id) eqn:E; cbn [negb]; [exact IH|].
  cbn [find_tx]. rewrite E. exact IH.
Qed.

Lemma find_tx_drop_other id id' ts : id' <> id -> find_tx id' (drop_tx id ts) = find_tx id' ts.
Proof.
  intros Hn. induction ts as [|a r IH]; [reflexivity|].
  unfold drop_tx in *. cbn [filter]. destruct (N.eqb (t_id a) id) eqn:E; cbn [negb find_tx].
  - apply N.eqb_eq in E. destruct (N.eqb (t_id a) id') eqn:E2; [apply N.eqb_eq in E2; congruence|exact IH].
  - destruct (N.eqb (t_id a) id'); [reflexivity|exact IH].
Qed.

Lemma find_tx_drop_ctl_keep id c ts t :
  find_tx id ts = Some t -> t_ctl t <> c -> find_tx id (drop_ctl c ts) = Some t.
Proof.
  intros H Hn. induction ts as [|a r IH]; [discriminate|].
  cbn [find_tx] in H. unfold drop_ctl in *. cbn [filter].
  destruct (N.eqb (t_id a) id) eqn:E.
  - injection H as H. subst a. destruct (N.eqb (t_ctl t) c) eqn:E2; [apply N.eqb_eq in E2; contradiction|].
    cbn [negb find_tx]. rewrite E. reflexivity.
  - destruct (negb (N.eqb (t_ctl a) c)); [cbn [find_tx]; rewrite E|]; apply IH; exact H.
Qed.

Lemma find_tx_filter_none id p ts : find_tx id ts = None -> find_tx id (filter p ts) = None.
Proof.
  induction ts as [|a r IH]; [reflexivity|]. cbn [find_tx filter].
  destruct (N.eqb (t_id a) id) eqn:E; [discriminate|]. intros H.
  destruct (p a); [cbn [find_tx]; rewrite E|]; apply IH; exact H.
Qed.

Lemma In_add_post t' id p ts :
  In t' (add_post id p ts) ->
  In t' ts \/ exists t, In t ts /\ t_id t = id /\ t' = mkT (t_id t) (t_ctl t) (t_posts t ++ [p]).
Proof.
  induction ts as [|a r IH]; cbn [add_post]; [intros []|].
  destruct (N.eqb (t_id a) id) eqn:E; intros [H|H].
  - right. exists a. split; [left; reflexivity|]. split; [apply N.eqb_eq; exact E|symmetry; exact H].
  - left. right. exact H.
  - left. left. exact H.
  - destruct (IH H) as [H1|[t0 [H1 H2]]]; [left; right; exact H1|].
    right. exists t0. split; [right; exact H1|exact H2].
Qed.

Lemma map_id_add_post id p ts : map t_id (add_post id p ts) = map t_id ts.
Proof.
  induction ts as [|a r IH]; [reflexivity|].
  cbn [add_post]. destruct (N.eqb (t_id a) id); cbn [map t_id]; [reflexivity|rewrite IH; reflexivity].
Qed.

(** * What one step does to each component *)

Lemma run_cons s e r :
  run s (e :: r) = (fst (run (fst (step s e)) r), snd (step s e) :: snd (run (fst (step s e)) r)).
Proof. cbn [run]. destruct (step s e) as [s1 o]. cbn [fst snd]. destruct (run s1 r) as [s2 os]. reflexivity. Qed.

Lemma enabled_alive s e : enabled s e = true -> alive s = true.
Proof. unfold enabled. intros H. apply andb_prop in H. apply H. Qed.

Definition live_after (s : state) (e : event) : list txn :=
  if enabled s e then
    match e with
    | ECtlDetach c => drop_ctl c (live s)
    | EDeclare c => live s ++ [mkT (next_id s) c []]
    | EPost l (Some id) _ m => match find_tx id (live s) with Some _ => add_post id (l, m) (live s) | None => [] end
    | ECommit c id | ERollback c id => match owned s c id with Some _ => drop_tx id (live s) | None => live s end
    | ESessionEnd | EConnLost => []
    | _ => live s
    end
  else live s.

Lemma live_step s e : live (fst (step s e)) = live_after s e.
Proof.
  unfold step, live_after. destruct (enabled s e); [|reflexivity].
  destruct e as [c|c|l|c|l [id|] b m|c id|c id| |]; cbn [act]; try reflexivity.
  - destruct (find_tx id (live s)); reflexivity.
  - destruct (owned s c id); reflexivity.
  - destruct (owned s c id); reflexivity.
Qed.

Definition deliv_after (s : state) (e : event) : list (N * N) :=
  if enabled s e then
    match e with
    | EPost l None _ m => [(l, m)]
    | ECommit c id => match owned s c id with Some t => t_posts t | None => [] end
    | _ => []
    end
  else [].

Lemma deliveries_step s e : deliveries (snd (step s e)) = deliv_after s e.
Proof.
  unfold step, deliv_after. destruct (enabled s e); [|reflexivity].
  destruct e as [c|c|l|c|l [id|] b m|c id|c id| |]; cbn [act]; try reflexivity.
  - destruct (find_tx id (live s)); [destruct b|]; reflexivity.
  - destruct (owned s c id) as [t|]; [|reflexivity]. cbn [snd deliveries]. apply deliveries_map.
  - destruct (owned s c id); reflexivity.
Qed.

Lemma delivered_step s e : delivered (fst (step s e)) = delivered s ++ deliveries (snd (step s e)).
Proof.
  rewrite deliveries_step. unfold step, deliv_after. destruct (enabled s e); [|symmetry; apply app_nil_r].
  destruct e as [c|c|l|c|l [id|] b m|c id|c id| |]; cbn [act]; try (symmetry; apply app_nil_r); try reflexivity.
  - destruct (find_tx id (live s)); symmetry; apply app_nil_r.
  - destruct (owned s c id); [reflexivity|symmetry; apply app_nil_r].
  - destruct (owned s c id); symmetry; apply app_nil_r.
Qed.

Lemma next_step s e :
  next_id (fst (step s e)) = if enabled s e then match e with EDeclare _ => N.succ (next_id s) | _ => next_id s end else next_id s.
Proof.
  unfold step. destruct (enabled s e); [|reflexivity].
  destruct e as [c|c|l|c|l [id|] b m|c id|c id| |]; cbn [act]; try reflexivity.
  - destruct (find_tx id (live s)); reflexivity.
  - destruct (owned s c id); reflexivity.
  - destruct (owned s c id); reflexivity.
Qed.

Lemma next_mono s e : next_id s <= next_id (fst (step s e)).
Proof. rewrite next_step. destruct (enabled s e); [destruct e|]; lia. Qed.

Lemma next_mono_run es : forall s, next_id s <= next_id (fst (run s es)).
Proof.
  induction es as [|e r IH]; intros s; [cbn [run fst]; lia|].
  rewrite run_cons. cbn [fst]. specialize (IH (fst (step s e))). pose proof (next_mono s e) as H. lia.
Qed.

Lemma alive_step_back s e : alive (fst (step s e)) = true -> alive s = true.
Proof.
  unfold step. destruct (enabled s e) eqn:En; [|exact (fun H => H)].
  intros _. apply (enabled_alive _ _ En).
Qed.

Lemma alive_run_back es : forall s, alive (fst (run s es)) = true -> alive s = true.
Proof.
  induction es as [|e r IH]; intros s H; [exact H|].
  rewrite run_cons in H. cbn [fst] in H. apply (alive_step_back s e). apply IH. exact H.
Qed.

Lemma owned_some s c id t : owned s c id = Some t -> find_tx id (live s) = Some t /\ t_ctl t = c.
Proof.
  unfold owned. destruct (find_tx id (live s)) as [t0|]; [|discriminate].
  destruct (N.eqb (t_ctl t0) c) eqn:E; [|discriminate]. intros H. injection H as H. subst t0.
  split; [reflexivity|apply N.eqb_eq; exact E].
Qed.

Lemma owned_of s c id ps : posts s id = Some ps -> owner s id = Some c ->
  exists t, owned s c id = Some t /\ t_posts t = ps.
Proof.
  unfold posts, owner, owned. destruct (find_tx id (live s)) as [t|]; [|discriminate].
  intros H1 H2. injection H1 as H1. injection H2 as H2. exists t. rewrite H2. rewrite N.eqb_refl. split; [reflexivity|exact H1].
Qed.

(** * Well-formed states (an invariant of every run) *)

Record wf (s : state) : Prop := mkWf {
  wf_nodup : NoDup (map t_id (live s));
  wf_below : forall t, In t (live s) -> t_id t < next_id s;
  wf_owner : forall t, In t (live s) -> mem (t_ctl t) (ctls s) = true;
  wf_dead : alive s = false -> live s = []
}.

Lemma wf_init : wf init.
Proof. constructor; cbn; [constructor|intros t []|intros t []|reflexivity]. Qed.

Lemma wf_dead_state s : wf (dead s).
Proof. constructor; cbn; [constructor|intros t []|intros t []|reflexivity]. Qed.

Lemma wf_step s e : wf s -> wf (fst (step s e)).
Proof.
  intros W. unfold step. destruct (enabled s e) eqn:En; [|exact W].
  pose proof (enabled_alive _ _ En) as Hal.
  unfold enabled in En. rewrite Hal in En. cbn [andb] in En.
  destruct W as [Wd Wb Wo Wx].
  destruct e as [c|c|l|c|l [id|] b m|c id|c id| |]; cbn [act].
  - (* ECtlAttach *) constructor; cbn [fst live next_id ctls alive]; [exact Wd|exact Wb| |discriminate].
    intros t Ht. rewrite mem_cons. rewrite (Wo t Ht). apply orb_true_r.
  - (* ECtlDetach *) constructor; cbn [fst live next_id ctls alive]; [| | |discriminate].
    + apply NoDup_map_filter. exact Wd.
    + intros t Ht. apply filter_In in Ht. apply Wb. apply Ht.
    + intros t Ht. apply filter_In in Ht. destruct Ht as [Ht Hc].
      rewrite mem_remove_neq; [apply Wo; exact Ht|].
      intros Heq. rewrite Heq in Hc. rewrite N.eqb_refl in Hc. discriminate Hc.
  - (* ELinkAttach *) constructor; cbn [fst live next_id ctls alive]; [exact Wd|exact Wb|exact Wo|discriminate].
  - (* EDeclare *) constructor; cbn [fst live next_id ctls alive]; [| | |discriminate].
    + rewrite map_app. cbn [map t_id]. apply NoDup_snoc; [exact Wd|].
      intros Hin. apply in_map_iff in Hin. destruct Hin as [t [Hid Ht]]. specialize (Wb t Ht). lia.
    + intros t Ht. apply in_app_iff in Ht. destruct Ht as [Ht|[Ht|[]]].
      * specialize (Wb t Ht). lia.
      * subst t. cbn [t_id]. lia.
    + intros t Ht. apply in_app_iff in Ht. destruct Ht as [Ht|[Ht|[]]]; [apply Wo; exact Ht|].
      subst t. cbn [t_ctl]. exact En.
  - (* EPost under id *) destruct (find_tx id (live s)) as [t0|]; [|apply wf_dead_state].
    constructor; cbn [fst live next_id ctls alive]; [| | |discriminate].
    + rewrite map_id_add_post. exact Wd.
    + intros t Ht. apply In_add_post in Ht. destruct Ht as [Ht|[t1 [Ht [_ Heq]]]]; [apply Wb; exact Ht|].
      subst t. cbn [t_id]. apply Wb. exact Ht.
    + intros t Ht. apply In_add_post in Ht. destruct Ht as [Ht|[t1 [Ht [_ Heq]]]]; [apply Wo; exact Ht|].
      subst t. cbn [t_ctl]. apply Wo. exact Ht.
  - (* EPost plain *) constructor; cbn [fst live next_id ctls alive]; [exact Wd|exact Wb|exact Wo|discriminate].
  - (* ECommit *) destruct (owned s c id) as [t0|]; [|constructor; assumption].
    constructor; cbn [fst live next_id ctls alive]; [| | |discriminate].
    + apply NoDup_map_filter. exact Wd.
    + intros t Ht. apply filter_In in Ht. apply Wb. apply Ht.
    + intros t Ht. apply filter_In in Ht. apply Wo. apply Ht.
  - (* ERollback *) destruct (owned s c id) as [t0|]; [|constructor; assumption].
    constructor; cbn [fst live next_id ctls alive]; [| | |discriminate].
    + apply NoDup_map_filter. exact Wd.
    + intros t Ht. apply filter_In in Ht. apply Wb. apply Ht.
    + intros t Ht. apply filter_In in Ht. apply Wo. apply Ht.
  - apply wf_dead_state.
  - apply wf_dead_state.
Qed.

Lemma wf_run es : forall s, wf s -> wf (fst (run s es)).
Proof.
  induction es as [|e r IH]; intros s W; [exact W|].
  rewrite run_cons. cbn [fst]. apply IH. apply wf_step. exact W.
Qed.

Lemma wf_reach es : wf (fst (run init es)).
Proof. apply wf_run. exact wf_init. Qed.

Lemma run_app es1 : forall s es2,
  run s (es1 ++ es2) = (fst (run (fst (run s es1)) es2), snd (run s es1) ++ snd (run (fst (run s es1)) es2)).
Proof.
  induction es1 as [|e r IH]; intros s es2.
  - cbn [app run fst snd]. destruct (run s es2); reflexivity.
  - cbn [app]. rewrite !run_cons. rewrite IH. reflexivity.
Qed.

Lemma delivered_run es : forall s,
  delivered (fst (run s es)) = delivered s ++ flat_map deliveries (snd (run s es)).
Proof.
  induction es as [|e r IH]; intros s; [cbn [run fst snd flat_map]; symmetry; apply app_nil_r|].
  rewrite run_cons. cbn [fst snd flat_map]. rewrite IH. rewrite delivered_step. rewrite app_assoc. reflexivity.
Qed.

Lemma owner_enabled s id c : wf s -> owner s id = Some c -> alive s = true /\ mem c (ctls s) = true.
Proof.
  intros W H. unfold owner in H. destruct (find_tx id (live s)) as [t|] eqn:F; [|discriminate].
  injection H as H. apply find_tx_some in F. destruct F as [Hin _]. split.
  - destruct (alive s) eqn:A; [reflexivity|]. rewrite (wf_dead s W A) in Hin. destruct Hin.
  - rewrite <- H. apply (wf_owner s W). exact Hin.
Qed.

(** * (a) Isolation and (c) loss *)

Definition holds (t : txn) (m : N) : Prop := exists l, In (l, m) (t_posts t).
(** message m sits in some transaction's buffer *)
Definition buffered (s : state) (m : N) : Prop := exists t, In t (live s) /\ holds t m.
(** ... and only in buffers of transaction id *)
Definition only_under (s : state) (m id : N) : Prop := forall t, In t (live s) -> holds t m -> t_id t = id.

Definition is_post_of (m : N) (e : event) : bool := match e with EPost _ _ _ m' => N.eqb m' m | _ => false end.
Definition is_commit_of (id : N) (e : event) : bool := match e with ECommit _ id' => N.eqb id' id | _ => false end.
Definition delivers (m : N) (o : list output) : Prop := exists l, In (l, m) (deliveries o).

Lemma live_after_sub s e m t' :
  In t' (live_after s e) -> is_post_of m e = false -> holds t' m ->
  exists t, In t (live s) /\ holds t m /\ t_id t = t_id t'.
Proof.
  unfold live_after. destruct (enabled s e); [|intros H _ Hh; exists t'; auto].
  destruct e as [c|c|l|c|l [id|] b m0|c id|c id| |]; intros Hin Hp Hh;
    try (exists t'; split; [exact Hin|split; [exact Hh|reflexivity]]).
  - apply filter_In in Hin. exists t'. split; [apply Hin|split; [exact Hh|reflexivity]].
  - apply in_app_iff in Hin. destruct Hin as [Hin|[Hin|[]]]; [exists t'; auto|].
    subst t'. destruct Hh as [l0 []].
  - destruct (find_tx id (live s)) as [t0|]; [|destruct Hin].
    apply In_add_post in Hin. destruct Hin as [Hin|[t [Hin [Hid Heq]]]]; [exists t'; auto|].
    exists t. split; [exact Hin|]. subst t'. cbn [t_id]. split; [|reflexivity].
    destruct Hh as [l0 Hl]. cbn [t_posts] in Hl. apply in_app_iff in Hl. destruct Hl as [Hl|[Hl|[]]]; [exists l0; exact Hl|].
    injection Hl as _ Hm. cbn [is_post_of] in Hp. rewrite Hm in Hp. rewrite N.eqb_refl in Hp. discriminate Hp.
  - destruct (owned s c id); [|exists t'; auto]. apply filter_In in Hin. exists t'. split; [apply Hin|auto].
  - destruct (owned s c id); [|exists t'; auto]. apply filter_In in Hin. exists t'. split; [apply Hin|auto].
  - destruct Hin.
  - destruct Hin.
Qed.

Lemma unbuffered_step s e m : ~ buffered s m -> is_post_of m e = false -> ~ buffered (fst (step s e)) m.
Proof.
  intros Hn Hp [t' [Hin Hh]]. rewrite live_step in Hin.
  destruct (live_after_sub s e m t' Hin Hp Hh) as [t [H1 [H2 _]]]. apply Hn. exists t. auto.
Qed.

Lemma only_under_step s e m id : only_under s m id -> is_post_of m e = false -> only_under (fst (step s e)) m id.
Proof.
  intros Ho Hp t' Hin Hh. rewrite live_step in Hin.
  destruct (live_after_sub s e m t' Hin Hp Hh) as [t [H1 [H2 H3]]]. rewrite <- H3. apply Ho; assumption.
Qed.

Lemma unbuffered_run es : forall s m, ~ buffered s m -> Forall (fun e => is_post_of m e = false) es ->
  ~ buffered (fst (run s es)) m.
Proof.
  induction es as [|e r IH]; intros s m Hn Hf; [exact Hn|].
  inversion Hf as [|e' r' He Hr]; subst. rewrite run_cons. cbn [fst]. apply IH; [|exact Hr].
  apply unbuffered_step; assumption.
Qed.

Lemma unbuffered_init m : ~ buffered init m.
Proof. intros [t [[] _]]. Qed.

(** a step hands message m to the application only if it is a plain post of m or the commit of a
    transaction that holds m *)
Lemma delivers_step s e m : delivers m (snd (step s e)) ->
  (exists l b, e = EPost l None b m) \/
  (exists c id t, e = ECommit c id /\ In t (live s) /\ t_id t = id /\ t_ctl t = c /\ holds t m).
Proof.
  unfold delivers. rewrite deliveries_step. unfold deliv_after. destruct (enabled s e); [|intros [l []]].
  destruct e as [c|c|l|c|l [id|] b m0|c id|c id| |]; try (intros [l0 Hx]; exact (match Hx with end)).
  - intros [l0 [H|[]]]. injection H as H1 H2. subst. left. exists l0, b. reflexivity.
  - destruct (owned s c id) as [t|] eqn:O; [|intros [l0 []]]. intros [l0 Hl].
    apply owned_some in O. destruct O as [F Hc]. apply find_tx_some in F. destruct F as [Hin Hid].
    right. exists c, id, t. split; [reflexivity|]. split; [exact Hin|]. split; [exact Hid|]. split; [exact Hc|].
    exists l0. exact Hl.
Qed.

(** (c) a message that is in no buffer and is not posted again is never delivered *)
Theorem no_source es : forall s m, ~ buffered s m -> Forall (fun e => is_post_of m e = false) es ->
  Forall (fun o => ~ delivers m o) (snd (run s es)).
Proof.
  induction es as [|e r IH]; intros s m Hn Hf; [constructor|].
  inversion Hf as [|e' r' He Hr]; subst. rewrite run_cons. cbn [snd]. constructor.
  - intros Hd. apply delivers_step in Hd. destruct Hd as [[l [b Heq]]|[c [id [t [Heq [Hin [_ [_ Hh]]]]]]]].
    + subst e. cbn [is_post_of] in He. rewrite N.eqb_refl in He. discriminate He.
    + apply Hn. exists t. auto.
  - apply IH; [|exact Hr]. apply unbuffered_step; assumption.
Qed.

(** (a) a message that sits only in buffers of transaction id is not delivered as long as no commit
    of id happens *)
Theorem isolated es : forall s m id, only_under s m id ->
  Forall (fun e => is_post_of m e = false) es -> Forall (fun e => is_commit_of id e = false) es ->
  Forall (fun o => ~ delivers m o) (snd (run s es)).
Proof.
  induction es as [|e r IH]; intros s m id Ho Hf Hc; [constructor|].
  inversion Hf as [|e' r' He Hr]; subst. inversion Hc as [|e' r' Hce Hcr]; subst.
  rewrite run_cons. cbn [snd]. constructor.
  - intros Hd. apply delivers_step in Hd. destruct Hd as [[l [b Heq]]|[c [id' [t [Heq [Hin [Hid [_ Hh]]]]]]]].
    + subst e. cbn [is_post_of] in He. rewrite N.eqb_refl in He. discriminate He.
    + subst e. cbn [is_commit_of] in Hce. rewrite <- Hid in Hce. rewrite (Ho t Hin Hh) in Hce.
      rewrite N.eqb_refl in Hce. discriminate Hce.
  - apply (IH _ m id); [|exact Hr|exact Hcr]. apply only_under_step; assumption.
Qed.

Lemma only_under_after_post s l id b m : ~ buffered s m -> only_under (fst (step s (EPost l (Some id) b m))) m id.
Proof.
  intros Hn t' Hin Hh. rewrite live_step in Hin. unfold live_after in Hin.
  destruct (enabled s (EPost l (Some id) b m)); [|exfalso; apply Hn; exists t'; auto].
  destruct (find_tx id (live s)) as [t0|]; [|destruct Hin].
  apply In_add_post in Hin. destruct Hin as [Hin|[t [Hin [Hid Heq]]]]; [exfalso; apply Hn; exists t'; auto|].
  subst t'. cbn [t_id]. exact Hid.
Qed.

(** (a) isolation: a message posted under transaction id (and under no other, and not plainly) is
    handed to the application neither by the post nor by any later step before a commit of id *)
Theorem isolation s l id b m es : ~ buffered s m ->
  Forall (fun e => is_post_of m e = false) es -> Forall (fun e => is_commit_of id e = false) es ->
  Forall (fun o => ~ delivers m o) (snd (run s (EPost l (Some id) b m :: es))).
Proof.
  intros Hn Hf Hc. rewrite run_cons. cbn [snd]. constructor.
  - intros [l0 Hd]. rewrite deliveries_step in Hd. unfold deliv_after in Hd.
    destruct (enabled s (EPost l (Some id) b m)); destruct Hd.
  - apply (isolated es _ m id); [|exact Hf|exact Hc]. apply only_under_after_post. exact Hn.
Qed.

Theorem isolation_init es1 l id b m es2 :
  Forall (fun e => is_post_of m e = false) es1 ->
  Forall (fun e => is_post_of m e = false) es2 -> Forall (fun e => is_commit_of id e = false) es2 ->
  exists os1 os2, snd (run init (es1 ++ EPost l (Some id) b m :: es2)) = os1 ++ os2 /\
    length os1 = length es1 /\ Forall (fun o => ~ delivers m o) os2.
Proof.
  intros H1 H2 H3. rewrite run_app. cbn [snd].
  exists (snd (run init es1)), (snd (run (fst (run init es1)) (EPost l (Some id) b m :: es2))).
  split; [reflexivity|]. split.
  - clear. generalize init. induction es1 as [|e r IH]; intros s; [reflexivity|].
    rewrite run_cons. cbn [snd length]. rewrite IH. reflexivity.
  - apply isolation; [|exact H2|exact H3]. apply unbuffered_run; [apply unbuffered_init|exact H1].
Qed.

(** the events that finish transaction id of control link c without committing it *)
Definition finishes (c id : N) (e : event) : bool :=
  match e with
  | ERollback c' id' => N.eqb c' c && N.eqb id' id
  | ECtlDetach c' => N.eqb c' c
  | ESessionEnd | EConnLost => true
  | _ => false
  end.

Lemma find_tx_drop_ctl_gone id c ts t :
  NoDup (map t_id ts) -> find_tx id ts = Some t -> t_ctl t = c -> find_tx id (drop_ctl c ts) = None.
Proof.
  intros Hd F Hc. destruct (find_tx id (drop_ctl c ts)) as [t'|] eqn:F'; [|reflexivity].
  apply find_tx_some in F'. destruct F' as [Hin Hid]. unfold drop_ctl in Hin. apply filter_In in Hin.
  destruct Hin as [Hin Hne]. rewrite (find_tx_unique id ts t' Hd Hin Hid) in F. injection F as F. subst t'.
  rewrite Hc in Hne. rewrite N.eqb_refl in Hne. discriminate Hne.
Qed.

Lemma finish_step s c id m e : wf s -> only_under s m id -> owner s id = Some c -> finishes c id e = true ->
  ~ buffered (fst (step s e)) m /\ deliveries (snd (step s e)) = [] /\ posts (fst (step s e)) id = None.
Proof.
  intros W Ho Hw Hf. destruct (owner_enabled s id c W Hw) as [Hal Hm].
  unfold owner in Hw. destruct (find_tx id (live s)) as [t|] eqn:F; [|discriminate]. injection Hw as Hw.
  unfold buffered, posts. rewrite deliveries_step. unfold deliv_after. rewrite live_step. unfold live_after, step.
  destruct e as [c'|c'|l|c'|l tx b m0|c' id'|c' id'| |]; try discriminate Hf; cbn [finishes] in Hf.
  - apply N.eqb_eq in Hf. subst c'. unfold enabled. rewrite Hal, Hm. cbn [andb act snd].
    split; [|split; [reflexivity|]].
    + intros [t' [Hin Hh]]. unfold drop_ctl in Hin. apply filter_In in Hin. destruct Hin as [Hin Hne].
      pose proof (Ho t' Hin Hh) as Hid. rewrite (find_tx_unique id (live s) t' (wf_nodup s W) Hin Hid) in F.
      injection F as F. subst t'. rewrite Hw in Hne. rewrite N.eqb_refl in Hne. discriminate Hne.
    + rewrite (find_tx_drop_ctl_gone id c (live s) t (wf_nodup s W) F Hw). reflexivity.
  - apply andb_prop in Hf. destruct Hf as [H1 H2]. apply N.eqb_eq in H1. apply N.eqb_eq in H2. subst c' id'.
    unfold enabled. rewrite Hal, Hm. cbn [andb act]. unfold owned. rewrite F. rewrite Hw. rewrite N.eqb_refl. cbn [snd].
    split; [|split; [reflexivity|]].
    + intros [t' [Hin Hh]]. unfold drop_tx in Hin. apply filter_In in Hin. destruct Hin as [Hin Hne].
      rewrite (Ho t' Hin Hh) in Hne. rewrite N.eqb_refl in Hne. discriminate Hne.
    + rewrite find_tx_drop_same. reflexivity.
  - unfold enabled. rewrite Hal. cbn [andb act snd find_tx].
    split; [intros [t' [[] _]]|split; reflexivity].
  - unfold enabled. rewrite Hal. cbn [andb act snd find_tx].
    split; [intros [t' [[] _]]|split; reflexivity].
Qed.

(** (c) rollback, loss of the control link, end of the session: the step delivers nothing, the
    transaction is gone, and what it held is never delivered by any later step *)
Theorem rollback_never s c id m e es : wf s -> only_under s m id -> owner s id = Some c ->
  finishes c id e = true -> Forall (fun e' => is_post_of m e' = false) es ->
  deliveries (snd (step s e)) = [] /\ posts (fst (step s e)) id = None /\
  Forall (fun o => ~ delivers m o) (snd (run (fst (step s e)) es)).
Proof.
  intros W Ho Hw Hf Hp. destruct (finish_step s c id m e W Ho Hw Hf) as [H1 [H2 H3]].
  split; [exact H2|]. split; [exact H3|]. apply no_source; assumption.
Qed.

(** once the session is gone nothing happens any more *)
Theorem dead_silent es : forall s, alive s = false -> Forall (fun o => o = []) (snd (run s es)) /\ fst (run s es) = s.
Proof.
  induction es as [|e r IH]; intros s Ha; [split; [constructor|reflexivity]|].
  rewrite run_cons. cbn [fst snd].
  assert (Hs : step s e = (s, [])) by (unfold step, enabled; rewrite Ha; reflexivity).
  rewrite Hs. cbn [fst snd]. destruct (IH s Ha) as [H1 H2]. split; [constructor; [reflexivity|exact H1]|exact H2].
Qed.

(** a post under an id that is not live takes the whole session down (with every transaction) *)
Theorem unknown_post_ends_session s l id b m : enabled s (EPost l (Some id) b m) = true -> posts s id = None ->
  step s (EPost l (Some id) b m) = (dead s, [OSessionEnd (Some UnknownId)]).
Proof.
  intros En Hp. unfold step. rewrite En. cbn [act]. unfold posts in Hp.
  destruct (find_tx id (live s)); [discriminate|reflexivity].
Qed.

(** * (b) Atomicity and order *)

Definition on_link (l : N) (ps : list (N * N)) : list N := map snd (filter (fun p => N.eqb (fst p) l) ps).

Theorem commit_exact s c id ps : wf s -> posts s id = Some ps -> owner s id = Some c ->
  snd (step s (ECommit c id)) = OAccepted :: map deliver ps /\
  deliveries (snd (step s (ECommit c id))) = ps /\
  (forall l, queue (fst (step s (ECommit c id))) l = queue s l ++ on_link l ps) /\
  posts (fst (step s (ECommit c id))) id = None.
Proof.
  intros W Hp Hw. destruct (owner_enabled s id c W Hw) as [Hal Hm].
  destruct (owned_of s c id ps Hp Hw) as [t [Ho Ht]].
  assert (Hs : step s (ECommit c id) =
    (mkS true (next_id s) (ctls s) (links s) (drop_tx id (live s)) (delivered s ++ ps), OAccepted :: map deliver ps)).
  { unfold step, enabled. rewrite Hal, Hm. cbn [andb act]. rewrite Ho. rewrite Ht. reflexivity. }
  rewrite Hs. cbn [fst snd]. split; [reflexivity|]. split; [cbn [deliveries]; apply deliveries_map|]. split.
  - intros l. unfold queue, on_link. cbn [delivered]. rewrite filter_app, map_app. reflexivity.
  - unfold posts. cbn [live]. rewrite find_tx_drop_same. reflexivity.
Qed.

(** the events that leave transaction id of control link c alone *)
Definition quiet (c id : N) (e : event) : bool :=
  match e with
  | ECommit c' id' | ERollback c' id' => negb (N.eqb c' c && N.eqb id' id)
  | ECtlDetach c' => negb (N.eqb c' c)
  | ESessionEnd | EConnLost => false
  | _ => true
  end.

(** the posts under id in a script, in order *)
Fixpoint tx_posts (id : N) (es : list event) : list (N * N) :=
  match es with
  | [] => []
  | EPost l (Some id') _ m :: r => if N.eqb id' id then (l, m) :: tx_posts id r else tx_posts id r
  | _ :: r => tx_posts id r
  end.

Lemma tx_posts_cons id e r : tx_posts id (e :: r) = tx_posts id [e] ++ tx_posts id r.
Proof.
  destruct e as [c|c|l|c|l [id'|] b m|c id'|c id'| |]; try reflexivity.
  cbn [tx_posts]. destruct (N.eqb id' id); reflexivity.
Qed.

(** transaction id is live, belongs to control link c and holds ps *)
Definition entry (s : state) (id c : N) (ps : list (N * N)) : Prop :=
  exists t, find_tx id (live s) = Some t /\ t_ctl t = c /\ t_posts t = ps.

Lemma entry_posts s id c ps : entry s id c ps <-> posts s id = Some ps /\ owner s id = Some c.
Proof.
  unfold entry, posts, owner. split.
  - intros [t [F [Hc Hp]]]. rewrite F. rewrite Hc, Hp. split; reflexivity.
  - destruct (find_tx id (live s)) as [t|]; [|intros [H _]; discriminate H].
    intros [H1 H2]. injection H1 as H1. injection H2 as H2. exists t. auto.
Qed.

Lemma post_known_alive s l id b m : enabled s (EPost l (Some id) b m) = true ->
  alive (fst (step s (EPost l (Some id) b m))) = true -> find_tx id (live s) <> None.
Proof.
  intros En. unfold step. rewrite En. cbn [act]. destruct (find_tx id (live s)); [discriminate|].
  cbn [fst dead alive]. discriminate.
Qed.

Lemma quiet_step s c id ps e : entry s id c ps -> quiet c id e = true -> alive (fst (step s e)) = true ->
  (forall l b m, e = EPost l (Some id) b m -> mem l (links s) = true) ->
  entry (fst (step s e)) id c (ps ++ tx_posts id [e]).
Proof.
  intros [t [F [Hc Hp]]] Hq Hal Hl. unfold entry. rewrite live_step. unfold live_after.
  destruct (enabled s e) eqn:En.
  - destruct e as [c'|c'|l|c'|l [id'|] b m|c' id'|c' id'| |]; try discriminate Hq; cbn [tx_posts];
      try (exists t; rewrite app_nil_r; auto; fail).
    + cbn [quiet] in Hq. exists t. rewrite app_nil_r. split; [|auto].
      apply find_tx_drop_ctl_keep; [exact F|]. rewrite Hc. intros Heq. rewrite Heq in Hq. rewrite N.eqb_refl in Hq. discriminate Hq.
    + exists t. rewrite app_nil_r. split; [|auto]. apply find_tx_snoc_old. exact F.
    + pose proof (post_known_alive s l id' b m En Hal) as Hk.
      destruct (find_tx id' (live s)) as [t1|] eqn:F1; [|contradiction].
      destruct (N.eqb id' id) eqn:E.
      * apply N.eqb_eq in E. subst id'. rewrite find_tx_add_same. rewrite F.
        eexists. split; [reflexivity|]. cbn [t_ctl t_posts]. rewrite Hp. auto.
      * apply N.eqb_neq in E. exists t. rewrite app_nil_r. split; [|auto].
        rewrite find_tx_add_other; [exact F|]. intros Heq. apply E. symmetry. exact Heq.
    + cbn [quiet] in Hq. destruct (owned s c' id') as [t1|] eqn:O; [|exists t; rewrite app_nil_r; auto].
      apply owned_some in O. destruct O as [F1 Hc1].
      exists t. rewrite app_nil_r. split; [|auto]. rewrite find_tx_drop_other; [exact F|].
      intros Heq. subst id'. rewrite F in F1. injection F1 as F1. subst t1. rewrite Hc in Hc1. subst c'.
      rewrite !N.eqb_refl in Hq. discriminate Hq.
    + cbn [quiet] in Hq. destruct (owned s c' id') as [t1|] eqn:O; [|exists t; rewrite app_nil_r; auto].
      apply owned_some in O. destruct O as [F1 Hc1].
      exists t. rewrite app_nil_r. split; [|auto]. rewrite find_tx_drop_other; [exact F|].
      intros Heq. subst id'. rewrite F in F1. injection F1 as F1. subst t1. rewrite Hc in Hc1. subst c'.
      rewrite !N.eqb_refl in Hq. discriminate Hq.
  - assert (Hs : fst (step s e) = s) by (unfold step; rewrite En; reflexivity). rewrite Hs in Hal.
    assert (Ht : tx_posts id [e] = []).
    { destruct e as [c'|c'|l|c'|l [id'|] b m|c' id'|c' id'| |]; try reflexivity. cbn [tx_posts].
      destruct (N.eqb id' id) eqn:E; [|reflexivity]. apply N.eqb_eq in E. subst id'.
      unfold enabled in En. rewrite Hal in En. rewrite (Hl l b m eq_refl) in En. discriminate En. }
    rewrite Ht. rewrite app_nil_r. exists t. auto.
Qed.

Lemma links_step s e l : mem l (links s) = true -> alive (fst (step s e)) = true -> mem l (links (fst (step s e))) = true.
Proof.
  intros Hm. unfold step. destruct (enabled s e); [|intros _; exact Hm].
  destruct e as [c'|c'|l'|c'|l' [id'|] b m|c' id'|c' id'| |]; cbn [act]; try (intros _; exact Hm).
  - intros _. cbn [fst links]. rewrite mem_cons. rewrite Hm. apply orb_true_r.
  - destruct (find_tx id' (live s)); [intros _; exact Hm|cbn; discriminate].
  - destruct (owned s c' id'); intros _; exact Hm.
  - destruct (owned s c' id'); intros _; exact Hm.
  - cbn; discriminate.
  - cbn; discriminate.
Qed.

(** between its declare and its discharge a transaction's buffer is exactly what was posted under it, in order *)
Theorem buffer_history es : forall s c id ps, entry s id c ps ->
  Forall (fun e => quiet c id e = true) es -> alive (fst (run s es)) = true ->
  (forall l b m, In (EPost l (Some id) b m) es -> mem l (links s) = true) ->
  entry (fst (run s es)) id c (ps ++ tx_posts id es).
Proof.
  induction es as [|e r IH]; intros s c id ps He Hq Hal Hl.
  - cbn [run fst tx_posts]. rewrite app_nil_r. exact He.
  - inversion Hq as [|e' r' Hqe Hqr]; subst. rewrite run_cons in Hal |- *. cbn [fst] in Hal |- *.
    pose proof (alive_run_back r _ Hal) as Hal1.
    rewrite tx_posts_cons. rewrite app_assoc. apply IH; [|exact Hqr|exact Hal|].
    + apply quiet_step; [exact He|exact Hqe|exact Hal1|]. intros l b m Heq. apply (Hl l b m). left. exact Heq.
    + intros l b m Hin. apply links_step; [|exact Hal1]. apply (Hl l b m). right. exact Hin.
Qed.

Lemma declare_step s c : wf s -> enabled s (EDeclare c) = true ->
  snd (step s (EDeclare c)) = [ODeclared (next_id s)] /\ entry (fst (step s (EDeclare c))) (next_id s) c [] /\
  links (fst (step s (EDeclare c))) = links s.
Proof.
  intros W En. unfold step. rewrite En. cbn [act fst snd]. split; [reflexivity|]. split; [|reflexivity].
  unfold entry. cbn [live]. exists (mkT (next_id s) c []). split; [|split; reflexivity].
  rewrite find_tx_snoc_none.
  - cbn [t_id]. rewrite N.eqb_refl. reflexivity.
  - destruct (find_tx (next_id s) (live s)) as [t|] eqn:F; [|reflexivity].
    apply find_tx_some in F. destruct F as [Hin Hid]. pose proof (wf_below s W t Hin) as Hb. lia.
Qed.

(** (b) declare ... commit: the commit is accepted and hands over exactly the messages posted under the
    transaction in between, in posting order (hence in posting order on every link) *)
Theorem declare_commit_exact s c es : wf s -> enabled s (EDeclare c) = true ->
  let id := next_id s in
  let s2 := fst (run (fst (step s (EDeclare c))) es) in
  Forall (fun e => quiet c id e = true) es -> alive s2 = true ->
  (forall l b m, In (EPost l (Some id) b m) es -> mem l (links s) = true) ->
  snd (step s2 (ECommit c id)) = OAccepted :: map deliver (tx_posts id es) /\
  (forall l, queue (fst (step s2 (ECommit c id))) l = queue s2 l ++ on_link l (tx_posts id es)).
Proof.
  intros W En id s2 Hq Hal Hl. destruct (declare_step s c W En) as [_ [He Hlk]].
  assert (H2 : entry s2 id c ([] ++ tx_posts id es)).
  { apply buffer_history; [exact He|exact Hq|exact Hal|]. rewrite Hlk. exact Hl. }
  cbn [app] in H2. apply entry_posts in H2. destruct H2 as [Hp Hw].
  assert (W2 : wf s2) by (apply wf_run; apply wf_step; exact W).
  destruct (commit_exact s2 c id _ W2 Hp Hw) as [H3 [_ [H4 _]]]. split; [exact H3|exact H4].
Qed.

(** * (d) Freshness *)

Fixpoint declared (os : list output) : list N :=
  match os with
  | [] => []
  | ODeclared id :: r => id :: declared r
  | _ :: r => declared r
  end.

Lemma declared_app a b : declared (a ++ b) = declared a ++ declared b.
Proof. induction a as [|o r IH]; [reflexivity|]. destruct o; cbn [app declared]; rewrite IH; reflexivity. Qed.

Lemma declared_map_deliver ps : declared (map deliver ps) = [].
Proof. induction ps as [|p r IH]; [reflexivity|exact IH]. Qed.

Lemma declared_In id os : In (ODeclared id) os -> In id (declared os).
Proof.
  induction os as [|o r IH]; intros H; [destruct H|].
  destruct H as [H|H]; [subst o; left; reflexivity|]. destruct o; cbn [declared]; try (apply IH; exact H).
  right. apply IH. exact H.
Qed.

Lemma declared_step s e :
  declared (snd (step s e)) = if enabled s e then match e with EDeclare _ => [next_id s] | _ => [] end else [].
Proof.
  unfold step. destruct (enabled s e); [|reflexivity].
  destruct e as [c|c|l|c|l [id|] b m|c id|c id| |]; cbn [act]; try reflexivity.
  - destruct (find_tx id (live s)); [destruct b|]; reflexivity.
  - destruct (owned s c id); [|reflexivity]. cbn [snd declared]. apply declared_map_deliver.
  - destruct (owned s c id); reflexivity.
Qed.

Lemma fresh_run es : forall s,
  Forall (fun i => next_id s <= i < next_id (fst (run s es))) (declared (concat (snd (run s es)))) /\
  NoDup (declared (concat (snd (run s es)))).
Proof.
  induction es as [|e r IH]; intros s; [split; constructor|].
  rewrite run_cons. cbn [fst snd concat]. rewrite declared_app. destruct (IH (fst (step s e))) as [H1 H2].
  pose proof (next_mono s e) as Hm. pose proof (next_mono_run r (fst (step s e))) as Hm2.
  rewrite declared_step. rewrite next_step in H1, Hm2.
  assert (Hweak : forall n, next_id s <= n ->
    Forall (fun i => n <= i < next_id (fst (run (fst (step s e)) r))) (declared (concat (snd (run (fst (step s e)) r)))) ->
    Forall (fun i => next_id s <= i < next_id (fst (run (fst (step s e)) r))) (declared (concat (snd (run (fst (step s e)) r))))).
  { intros n Hn HF. eapply Forall_impl; [|exact HF]. cbn beta. intros i Hi. lia. }
  destruct (enabled s e); [|split; [apply (Hweak (next_id s)); [lia|exact H1]|exact H2]].
  destruct e as [c|c|l|c|l tx b m|c id|c id| |]; try (split; [apply (Hweak (next_id s)); [lia|exact H1]|exact H2]).
  cbn [app]. split.
  - constructor; [lia|]. apply (Hweak (N.succ (next_id s))); [lia|exact H1].
  - constructor; [|exact H2]. intros Hin. rewrite Forall_forall in H1. specialize (H1 _ Hin). lia.
Qed.

(** (d) the ids answered to the declares of a run are pairwise different *)
Theorem freshness es : NoDup (declared (concat (snd (run init es)))).
Proof. apply fresh_run. Qed.

(** ... said differently: a declare is answered with an id that no earlier declare was answered with *)
Theorem fresh_declare es e id : In (ODeclared id) (snd (step (fst (run init es)) e)) ->
  ~ In id (declared (concat (snd (run init es)))).
Proof.
  intros H Hin. apply declared_In in H. rewrite declared_step in H.
  destruct (fresh_run es init) as [H1 _]. rewrite Forall_forall in H1. specialize (H1 _ Hin).
  destruct (enabled (fst (run init es)) e); [|destruct H].
  destruct e; try (destruct H; fail). destruct H as [H|[]]. lia.
Qed.

(** * (e) Once *)

Lemma find_none_step s e id : find_tx id (live s) = None -> id < next_id s -> find_tx id (live (fst (step s e))) = None.
Proof.
  intros F Hb. rewrite live_step. unfold live_after. destruct (enabled s e); [|exact F].
  destruct e as [c|c|l|c|l [id'|] b m|c id'|c id'| |]; try exact F; try reflexivity.
  - apply find_tx_filter_none. exact F.
  - rewrite find_tx_snoc_none; [|exact F]. cbn [t_id]. destruct (N.eqb (next_id s) id) eqn:E; [|reflexivity].
    apply N.eqb_eq in E. lia.
  - destruct (find_tx id' (live s)) as [t1|] eqn:F1; [|reflexivity].
    rewrite find_tx_add_other; [exact F|]. intros Heq. subst id'. rewrite F in F1. discriminate F1.
  - destruct (owned s c id'); [|exact F]. apply find_tx_filter_none. exact F.
  - destruct (owned s c id'); [|exact F]. apply find_tx_filter_none. exact F.
Qed.

(** an id that was issued and is not live never becomes live again *)
Theorem dead_forever es : forall s id, posts s id = None -> id < next_id s -> posts (fst (run s es)) id = None.
Proof.
  induction es as [|e r IH]; intros s id Hp Hb; [exact Hp|].
  rewrite run_cons. cbn [fst]. pose proof (next_mono s e) as Hm. apply IH; [|lia].
  unfold posts in *. destruct (find_tx id (live s)) eqn:F; [discriminate|].
  rewrite (find_none_step s e id F Hb). reflexivity.
Qed.

Definition mentions (id : N) (e : event) : bool :=
  match e with
  | ECommit _ id' | ERollback _ id' | EPost _ (Some id') _ _ => N.eqb id' id
  | _ => false
  end.

(** the action was not possible (nothing sent), or it was refused with the transaction error *)
Definition refusal (o : list output) : Prop :=
  o = [] \/ o = [ORejected UnknownId] \/ o = [OSessionEnd (Some UnknownId)].

(** discharging or posting under an id that is not live: refused with unknown-id, nothing delivered,
    no transaction touched *)
Theorem unknown_refused s e id : posts s id = None -> mentions id e = true ->
  refusal (snd (step s e)) /\ deliveries (snd (step s e)) = [] /\
  (enabled s e = true ->
   match e with
   | EPost _ _ _ _ => step s e = (dead s, [OSessionEnd (Some UnknownId)])
   | _ => step s e = (s, [ORejected UnknownId])
   end).
Proof.
  intros Hp Hm. unfold posts in Hp. destruct (find_tx id (live s)) eqn:F; [discriminate|].
  unfold refusal, step. destruct (enabled s e); [|split; [left; reflexivity|split; [reflexivity|discriminate]]].
  destruct e as [c|c|l|c|l [id'|] b m|c id'|c id'| |]; try discriminate Hm; cbn [mentions] in Hm;
    apply N.eqb_eq in Hm; subst id'; cbn [act]; unfold owned; rewrite F;
    (split; [auto|split; reflexivity]).
Qed.

Definition trace (s : state) (es : list event) : list (event * list output) := combine es (snd (run s es)).

Lemma trace_cons s e r : trace s (e :: r) = (e, snd (step s e)) :: trace (fst (step s e)) r.
Proof. unfold trace. rewrite run_cons. reflexivity. Qed.

Theorem refused_forever es : forall s id, posts s id = None -> id < next_id s ->
  Forall (fun eo => mentions id (fst eo) = true -> refusal (snd eo) /\ deliveries (snd eo) = []) (trace s es).
Proof.
  induction es as [|e r IH]; intros s id Hp Hb; [constructor|].
  rewrite trace_cons. constructor.
  - cbn [fst snd]. intros Hm. destruct (unknown_refused s e id Hp Hm) as [H1 [H2 _]]. split; assumption.
  - pose proof (next_mono s e) as Hm. apply IH; [|lia].
    pose proof (dead_forever [e] s id Hp Hb) as Hd. rewrite run_cons in Hd. cbn [run fst] in Hd. exact Hd.
Qed.

Definition discharges (c id : N) (e : event) : Prop := e = ECommit c id \/ e = ERollback c id.

(** (e) the first discharge of a live transaction by its control link is accepted; every later discharge of
    the id and every later post under it is refused with unknown-id and delivers nothing *)
Theorem once s c id e es : wf s -> owner s id = Some c -> discharges c id e ->
  In OAccepted (snd (step s e)) /\
  Forall (fun eo => mentions id (fst eo) = true -> refusal (snd eo) /\ deliveries (snd eo) = []) (trace (fst (step s e)) es).
Proof.
  intros W Hw Hd.
  assert (Hb : id < next_id s).
  { unfold owner in Hw. destruct (find_tx id (live s)) as [t|] eqn:F; [|discriminate].
    apply find_tx_some in F. destruct F as [Hin Hid]. rewrite <- Hid. apply (wf_below s W). exact Hin. }
  pose proof (next_mono s e) as Hm.
  destruct (posts s id) as [ps|] eqn:Hp.
  2:{ unfold posts in Hp. unfold owner in Hw. destruct (find_tx id (live s)); discriminate. }
  assert (Hacc : In OAccepted (snd (step s e)) /\ posts (fst (step s e)) id = None).
  { destruct Hd as [Hd|Hd]; subst e.
    - destruct (commit_exact s c id ps W Hp Hw) as [H1 [_ [_ H4]]]. rewrite H1. split; [left; reflexivity|exact H4].
    - destruct (owner_enabled s id c W Hw) as [Hal Hmm]. destruct (owned_of s c id ps Hp Hw) as [t [Ho _]].
      unfold step, enabled. rewrite Hal, Hmm. cbn [andb act]. rewrite Ho. cbn [fst snd]. split; [left; reflexivity|].
      unfold posts. cbn [live]. rewrite find_tx_drop_same. reflexivity. }
  destruct Hacc as [H1 H2]. split; [exact H1|]. apply refused_forever; [exact H2|lia].
Qed.

(** a discharge through a control link that did not declare the transaction is refused and leaves it alone *)
Theorem foreign_discharge_refused s c c' id e : owner s id = Some c -> c' <> c ->
  discharges c' id e -> enabled s e = true -> step s e = (s, [ORejected UnknownId]).
Proof.
  intros Hw Hn Hd En. unfold owner in Hw. destruct (find_tx id (live s)) as [t|] eqn:F; [|discriminate].
  injection Hw as Hw. unfold step. rewrite En.
  destruct Hd as [Hd|Hd]; subst e; cbn [act]; unfold owned; rewrite F; rewrite Hw;
    (destruct (N.eqb c c') eqn:E; [apply N.eqb_eq in E; congruence|reflexivity]).
Qed.

(** * (f) Plain posts *)

Theorem plain_post s l b m : alive s = true -> mem l (links s) = true ->
  snd (step s (EPost l None b m)) = [ODeliver l m] /\
  live (fst (step s (EPost l None b m))) = live s /\
  queue (fst (step s (EPost l None b m))) l = queue s l ++ [m] /\
  (forall l', l' <> l -> queue (fst (step s (EPost l None b m))) l' = queue s l').
Proof.
  intros Hal Hm. unfold step, enabled. rewrite Hal, Hm. cbn [andb act fst snd live].
  split; [reflexivity|]. split; [reflexivity|]. unfold queue. cbn [delivered]. split.
  - rewrite filter_app, map_app. cbn [filter fst]. rewrite N.eqb_refl. reflexivity.
  - intros l' Hn. rewrite filter_app, map_app. cbn [filter fst].
    destruct (N.eqb l l') eqn:E; [apply N.eqb_eq in E; congruence|]. cbn [map]. apply app_nil_r.
Qed.

(** whether a plain post goes through does not depend on the transactions at all *)
Theorem plain_post_independent s l b m : enabled s (EPost l None b m) = alive s && mem l (links s).
Proof. reflexivity. Qed.

(** * Non-vacuity: concrete runs, and the hypotheses of the theorems hold on them *)

(** two links, one transaction: held until the commit, then delivered in posting order; the plain post
    passes at once; the second commit and the post after the discharge are refused *)
Example ex_commit :
  snd (run init [ECtlAttach 0; ELinkAttach 1; ELinkAttach 2; EDeclare 0; EPost 1 (Some 0) false 10;
                 EPost 2 (Some 0) false 11; EPost 1 None false 12; EPost 1 (Some 0) true 13; ECommit 0 0;
                 ECommit 0 0; EPost 1 (Some 0) false 14; EPost 1 None false 15]) =
  [[OAttached]; [OAttached]; [OAttached]; [ODeclared 0]; [OProvisional 0]; [OProvisional 0]; [ODeliver 1 12]; [];
   [OAccepted; ODeliver 1 10; ODeliver 2 11; ODeliver 1 13]; [ORejected UnknownId]; [OSessionEnd (Some UnknownId)]; []].
Proof. vm_compute. reflexivity. Qed.

Example ex_rollback :
  snd (run init [ECtlAttach 0; ELinkAttach 1; EDeclare 0; EPost 1 (Some 0) false 10; ERollback 0 0;
                 EPost 1 None false 11; ERollback 0 0; ECommit 0 0]) =
  [[OAttached]; [OAttached]; [ODeclared 0]; [OProvisional 0]; [OAccepted]; [ODeliver 1 11];
   [ORejected UnknownId]; [ORejected UnknownId]].
Proof. vm_compute. reflexivity. Qed.

Example ex_ctl_loss :
  snd (run init [ECtlAttach 0; ELinkAttach 1; EDeclare 0; EPost 1 (Some 0) false 10; ECtlDetach 0;
                 ECtlAttach 0; ECommit 0 0; EPost 1 None false 11]) =
  [[OAttached]; [OAttached]; [ODeclared 0]; [OProvisional 0]; [ODetached]; [OAttached];
   [ORejected UnknownId]; [ODeliver 1 11]].
Proof. vm_compute. reflexivity. Qed.

Example ex_session_end :
  snd (run init [ECtlAttach 0; ELinkAttach 1; EDeclare 0; EPost 1 (Some 0) false 10; ESessionEnd;
                 ECommit 0 0; EPost 1 None false 11]) =
  [[OAttached]; [OAttached]; [ODeclared 0]; [OProvisional 0]; [OSessionEnd None]; []; []].
Proof. vm_compute. reflexivity. Qed.

Example ex_fresh :
  declared (concat (snd (run init [ECtlAttach 0; EDeclare 0; EDeclare 0; ECommit 0 0; EDeclare 0;
                                   ERollback 0 1; EDeclare 0]))) = [0; 1; 2; 3].
Proof. vm_compute. reflexivity. Qed.

(** two control links: each can discharge only what it declared *)
Example ex_foreign :
  snd (run init [ECtlAttach 0; ECtlAttach 1; ELinkAttach 1; EDeclare 0; EDeclare 1; EPost 1 (Some 0) false 10;
                 EPost 1 (Some 1) false 11; ECommit 1 0; ERollback 1 0; ECtlDetach 1; ECommit 0 0]) =
  [[OAttached]; [OAttached]; [OAttached]; [ODeclared 0]; [ODeclared 1]; [OProvisional 0]; [OProvisional 1];
   [ORejected UnknownId]; [ORejected UnknownId]; [ODetached]; [OAccepted; ODeliver 1 10]].
Proof. vm_compute. reflexivity. Qed.

Example ex_plain :
  snd (run init [ELinkAttach 1; ECtlAttach 0; EDeclare 0; EPost 1 (Some 0) false 10; EPost 1 None false 11;
                 EPost 1 None true 12; ERollback 0 0; EPost 1 None false 13]) =
  [[OAttached]; [OAttached]; [ODeclared 0]; [OProvisional 0]; [ODeliver 1 11]; [ODeliver 1 12]; [OAccepted]; [ODeliver 1 13]].
Proof. vm_compute. reflexivity. Qed.

(** the hypotheses of [isolation] are met by a post that the listener accepts *)
Example ex_isolation_hyps :
  let s := fst (run init [ECtlAttach 0; ELinkAttach 1; EDeclare 0]) in
  let es := [EPost 1 None false 11; EDeclare 0; EPost 1 (Some 1) false 12; ECommit 0 1] in
  ~ buffered s 10 /\ Forall (fun e => is_post_of 10 e = false) es /\ Forall (fun e => is_commit_of 0 e = false) es /\
  snd (step s (EPost 1 (Some 0) false 10)) = [OProvisional 0] /\
  snd (run s (EPost 1 (Some 0) false 10 :: es)) =
    [[OProvisional 0]; [ODeliver 1 11]; [ODeclared 1]; [OProvisional 1]; [OAccepted; ODeliver 1 12]].
Proof.
  cbv zeta. split; [apply unbuffered_run; [apply unbuffered_init|repeat constructor]|].
  split; [repeat constructor|]. split; [repeat constructor|]. split; vm_compute; reflexivity.
Qed.

(** ... and those of [rollback_never], for each way of losing the transaction *)
Example ex_rollback_hyps :
  let s := fst (run init [ECtlAttach 0; ELinkAttach 1; EDeclare 0; EPost 1 (Some 0) false 10]) in
  wf s /\ only_under s 10 0 /\ owner s 0 = Some 0 /\ buffered s 10 /\
  finishes 0 0 (ERollback 0 0) = true /\ finishes 0 0 (ECtlDetach 0) = true /\
  finishes 0 0 ESessionEnd = true /\ finishes 0 0 EConnLost = true.
Proof.
  cbv zeta. split; [apply wf_reach|]. split.
  - change (fst (run init [ECtlAttach 0; ELinkAttach 1; EDeclare 0; EPost 1 (Some 0) false 10]))
      with (fst (step (fst (run init [ECtlAttach 0; ELinkAttach 1; EDeclare 0])) (EPost 1 (Some 0) false 10))).
    apply only_under_after_post. apply unbuffered_run; [apply unbuffered_init|repeat constructor].
  - split; [reflexivity|]. split; [|repeat split; reflexivity].
    exists (mkT 0 0 [(1, 10)]). split; [left; reflexivity|]. exists 1. left. reflexivity.
Qed.

(** ... of [declare_commit_exact] (two links, a second transaction and a plain post in between) *)
Example ex_declare_commit_hyps :
  let s := fst (run init [ECtlAttach 0; ELinkAttach 1; ELinkAttach 2]) in
  let es := [EPost 1 (Some 0) false 10; EPost 2 (Some 0) false 11; EPost 1 None false 12; EDeclare 0;
             EPost 1 (Some 1) false 14; EPost 1 (Some 0) true 13; ERollback 0 1] in
  wf s /\ enabled s (EDeclare 0) = true /\ next_id s = 0 /\
  Forall (fun e => quiet 0 0 e = true) es /\ alive (fst (run (fst (step s (EDeclare 0))) es)) = true /\
  (forall l b m, In (EPost l (Some 0) b m) es -> mem l (links s) = true) /\
  tx_posts 0 es = [(1, 10); (2, 11); (1, 13)].
Proof.
  cbv zeta. split; [apply wf_reach|]. split; [reflexivity|]. split; [reflexivity|]. split; [repeat constructor|].
  split; [reflexivity|]. split; [|reflexivity].
  intros l b m H. cbn [In] in H.
  repeat (destruct H as [H|H]; [inversion H; subst; reflexivity|]). destruct H.
Qed.

(** ... and of [once] *)
Example ex_once_hyps :
  let s := fst (run init [ECtlAttach 0; ELinkAttach 1; EDeclare 0; EDeclare 0]) in
  wf s /\ owner s 1 = Some 0 /\ discharges 0 1 (ECommit 0 1) /\ discharges 0 1 (ERollback 0 1) /\
  mentions 1 (ECommit 0 1) = true /\ mentions 1 (EPost 1 (Some 1) false 5) = true.
Proof. cbv zeta. split; [apply wf_reach|]. repeat split; try reflexivity; [left|right]; reflexivity. Qed.
