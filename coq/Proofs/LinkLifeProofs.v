(** Proofs about the sender-link lifecycle model (Link/LinkLife.v). *)
From FV Require Import Link.LinkLife.

Definition is_det (o : lobs2) : bool := match o with XDetach _ => true | _ => false end.
Definition is_att (o : lobs2) : bool := match o with XAttach => true | _ => false end.
Definition is_xfer (o : lobs2) : bool := match o with XTransfer => true | _ => false end.

(** has this link endpoint written its detach (for the current attach)? *)
Definition detached_locally (s : lstate2) : bool :=
  match s with LDetSent | LClsSent | LDetached _ | LGone => true | _ => false end.

(** the one transition that writes a second detach: close() answered by a non-closing detach *)
Definition second_detach (s : lstate2) (e : lev) : bool :=
  match s, e with LClsSent, VPDetach KDetach => true | _, _ => false end.

(** a state that has written its detach writes no transfer, and no further detach except in [second_detach]
    (a re-attach starts a new attach) *)
Lemma after_detach_quiet s e : detached_locally s = true -> second_detach s e = false ->
  existsb is_xfer (snd (lkstep s e)) = false /\
  (existsb is_det (snd (lkstep s e)) = true -> False).
Proof.
  destruct s as [|rd c| |rd| | | |c|]; try discriminate; intros _ H;
    destruct e as [| | |k| | | | |]; try destruct k; try destruct c; cbn in *; try discriminate; split; auto; discriminate.
Qed.

Lemma second_detach_refutes :
  exists es, let os := concat (snd (lkrun LAttSent es)) in
    length (filter is_det os) = 2%nat /\ length (filter is_att os) = 0%nat.
Proof. exists [VPAttach; VClose; VPDetach KDetach]. cbn. split; reflexivity. Qed.

(** an unseen peer detach is answered by the application's next operation on the link *)
Definition next_op (e : lev) : bool := match e with VSend | VDetach | VClose | VDrop => true | _ => false end.

Lemma peer_detach_answered k c e : next_op e = true ->
  existsb is_det (snd (lkstep (LIdle (Some k) c) e)) = true.
Proof.
  destruct e; try discriminate; intros _; destruct k; destruct c; cbn; reflexivity.
Qed.

(** ... and in kind when the operation is close(), drop or send(); detach() after a closing detach is not *)
Lemma answered_in_kind k c e : (e = VClose \/ e = VDrop \/ e = VSend) ->
  In (XDetach (answer k)) (snd (lkstep (LIdle (Some k) c) e)) \/ In (XDetach true) (snd (lkstep (LIdle (Some k) c) e)).
Proof.
  intros [-> | [-> | ->]]; destruct k; try destruct c; cbn; auto.
Qed.

(** no transfer is written once the peer's detach has arrived *)
Lemma no_transfer_after_peer_detach k c e : existsb is_xfer (snd (lkstep (LIdle (Some k) c) e)) = false.
Proof. destruct e as [| | |k'| | | | |]; destruct k; destruct c; try destruct k'; reflexivity. Qed.

(** a closing detach fails the pending send() at once *)
Lemma closing_detach_fails_send k : k <> KDetach ->
  In (DSend (Some RIllegalState)) (snd (lkstep (LSendWait None) (VPDetach k))).
Proof. destruct k; intros H; try contradiction; cbn; auto. Qed.

Lemma detach_not_in_kind_refutes : forall c,
  snd (lkstep (LIdle (Some KClose) c) VDetach) = [XDetach false; DDetach (Some RDetachedByRemote)].
Proof. intros c. destruct c; reflexivity. Qed.

(** detach() and close() return only when the peer's detach has arrived: in the step that consumes it, or at once
    when it had arrived before the call *)
Lemma detach_close_wait s e r :
  (In (DDetach r) (snd (lkstep s e)) \/ In (DClose r) (snd (lkstep s e))) ->
  (exists k, e = VPDetach k /\ (s = LDetSent \/ s = LClsSent)) \/
  (exists k c, s = LIdle (Some k) c) \/ (exists c, s = LDetached c).
Proof.
  destruct s as [|rd c| |rd| | | |c|]; destruct e as [| | |k| | | | |]; try destruct rd as [k'|]; try destruct k; try destruct k';
    try destruct c; cbn; intros [H|H]; repeat (destruct H as [H|H]); try contradiction; try discriminate;
    try (left; eexists; split; [reflexivity|auto]); try (right; left; eexists; eexists; reflexivity);
    try (right; right; eexists; reflexivity).
Qed.

(** the peer's error reaches the caller of close() and of send() *)
Lemma peer_error_to_close s r : In (DClose r) (snd (lkstep s (VPDetach KCloseErr))) -> r = Some RRemoteClosedWithError.
Proof.
  destruct s as [|rd c| |rd| | | |c|]; try destruct rd as [[| |]|]; try destruct c; cbn; intros H;
    repeat (destruct H as [H|H]); try contradiction; try discriminate; try (injection H as <-; reflexivity).
Qed.

Lemma peer_error_to_send c :
  In (DSend (Some RRemoteClosedWithError)) (snd (lkstep (LIdle (Some KCloseErr) c) VSend)) /\
  In (DClose (Some RRemoteClosedWithError)) (snd (lkstep (LIdle (Some KCloseErr) c) VClose)).
Proof. split; destruct c; cbn; auto. Qed.

(** a clean detach and a clean close *)
Lemma clean_detach_close :
  snd (lkrun LAttSent [VPAttach; VDetach; VPDetach KDetach]) = [[DAttach]; [XDetach false]; [DDetach None]] /\
  snd (lkrun LAttSent [VPAttach; VPFlow; VSend; VPAccept; VClose; VPDetach KClose]) =
    [[DAttach]; []; [XTransfer]; [DSend None]; [XDetach true]; [DClose None]].
Proof. split; reflexivity. Qed.
