(** Proofs about the listener's SASL layer model (Auth/SaslListener.v). *)
From FV Require Import Auth.SaslListener.

Definition cact_eqb (a b : cact) : bool :=
  match a, b with
  | CHs, CHs | CHa, CHa | CHdrX, CHdrX | CInitOk, CInitOk | CInitBad, CInitBad | CRespOk, CRespOk
  | CRespBad, CRespBad | CFrame, CFrame | COpen, COpen | CEof, CEof => true
  | _, _ => false
  end.

Lemma cact_eqb_eq a b : cact_eqb a b = true <-> a = b.
Proof. destruct a, b; cbn; split; intros H; try reflexivity; try discriminate. Qed.

(** the one exchange that authenticates *)
Definition valid_exchange (m : mech) : list cact :=
  match m with MPlain => [CHs; CInitOk] | MScram => [CHs; CInitOk; CRespOk] end.

(** what marks an authenticated connection on the listener's side *)
Definition granted (o : lobs) : bool :=
  match o with LOutOk | LH | LO | LAcceptOk => true | _ => false end.

Fixpoint is_prefix (p l : list cact) : bool :=
  match p, l with
  | [], _ => true
  | x :: p', y :: l' => cact_eqb x y && is_prefix p' l'
  | _ :: _, [] => false
  end.

(** states that have not authenticated anybody *)
Definition pre_auth (s : lstate) : bool :=
  match s with LHdr | LInit | LChal | LFailed => true | _ => false end.

(** [need s]: what the client still has to send, in order, to be authenticated from [s] *)
Definition need (m : mech) (s : lstate) : option (list cact) :=
  match s with
  | LHdr => Some (valid_exchange m)
  | LInit => Some (tl (valid_exchange m))
  | LChal => Some [CRespOk]
  | LFailed => None
  | _ => Some []
  end.

Lemma failed_stays m acts : lrun m LFailed acts = (LFailed, map (fun _ => []) acts).
Proof. induction acts as [|a acts IH]; cbn [lrun map]; [reflexivity|]. cbn [lstep]. rewrite IH. reflexivity. Qed.

Lemma failed_grants_nothing m acts : existsb granted (concat (snd (lrun m LFailed acts))) = false.
Proof. rewrite failed_stays. cbn [snd]. induction acts; cbn; auto. Qed.

(** from a state that has not authenticated anybody, anything granted implies that the remaining
    actions begin with exactly what was still needed *)
Lemma granted_needs m acts : forall s, pre_auth s = true ->
  existsb granted (concat (snd (lrun m s acts))) = true ->
  exists n, need m s = Some n /\ is_prefix n acts = true.
Proof.
  induction acts as [|a acts IH]; intros s Hp Hg; [cbn in Hg; discriminate|].
  cbn [lrun] in Hg. destruct (lstep m s a) as [s1 o] eqn:E1.
  destruct (lrun m s1 acts) as [s2 os] eqn:E2. cbn [snd concat] in Hg.
  rewrite existsb_app in Hg.
  destruct s; try discriminate; destruct a; destruct m; cbn in E1; injection E1 as <- <-; cbn [existsb granted orb] in Hg;
    try (pose proof (failed_grants_nothing MPlain acts) as F; rewrite E2 in F; cbn [snd] in F; rewrite F in Hg; discriminate);
    try (pose proof (failed_grants_nothing MScram acts) as F; rewrite E2 in F; cbn [snd] in F; rewrite F in Hg; discriminate);
    try (eexists; split; [reflexivity|reflexivity]).
  (* LHdr, CHs: continue from LInit *)
  - assert (G : existsb granted (concat (snd (lrun MPlain LInit acts))) = true) by (rewrite E2; exact Hg).
    destruct (IH LInit eq_refl G) as (n & Hn & Hpre). cbn in Hn. injection Hn as <-.
    exists [CHs; CInitOk]. split; [reflexivity|]. cbn. exact Hpre.
  - assert (G : existsb granted (concat (snd (lrun MScram LInit acts))) = true) by (rewrite E2; exact Hg).
    destruct (IH LInit eq_refl G) as (n & Hn & Hpre). cbn in Hn. injection Hn as <-.
    exists [CHs; CInitOk; CRespOk]. split; [reflexivity|]. cbn. exact Hpre.
  (* LInit, CInitOk, SCRAM: continue from LChal *)
  - assert (G : existsb granted (concat (snd (lrun MScram LChal acts))) = true) by (rewrite E2; exact Hg).
    destruct (IH LChal eq_refl G) as (n & Hn & Hpre). cbn in Hn. injection Hn as <-.
    exists [CInitOk; CRespOk]. split; [reflexivity|]. cbn. exact Hpre.
Qed.


(** no connection without authentication *)
Lemma no_open_without_auth m acts s os :
  lrun m LHdr acts = (s, os) -> existsb granted (concat os) = true ->
  is_prefix (valid_exchange m) acts = true.
Proof.
  intros E G. assert (G' : existsb granted (concat (snd (lrun m LHdr acts))) = true) by (rewrite E; exact G).
  destruct (granted_needs m acts LHdr eq_refl G') as (n & Hn & Hpre). cbn in Hn. injection Hn as <-. exact Hpre.
Qed.

(** the first action that departs from the valid exchange fails the negotiation at once, on the listener's side *)
Lemma deviation_fails m s a n0 rest : pre_auth s = true -> need m s = Some (n0 :: rest) -> a <> n0 ->
  fst (lstep m s a) = LFailed /\ In LAcceptErr (snd (lstep m s a)) /\ existsb granted (snd (lstep m s a)) = false.
Proof.
  intros Hp Hn Ha. destruct s; try discriminate; destruct m; cbn in Hn; try discriminate; injection Hn as <- <-;
    destruct a; cbn; try (exfalso; apply Ha; reflexivity); intuition.
Qed.

(** the valid exchange is accepted *)
Lemma valid_accepted m :
  lrun m LHdr (valid_exchange m ++ [CHa; COpen]) =
  (LDone, match m with
          | MPlain => [[LM]; [LOutOk; LH]; [LO]; [LAcceptOk]]
          | MScram => [[LM]; [LCh]; [LOutOk; LH]; [LO]; [LAcceptOk]]
          end).
Proof. destruct m; reflexivity. Qed.
