(** (B) Does the library's decoder model (Codec/Dec.v) accept every encoding the
    specification-derived reference decoder (Codec/Spec.v) accepts, with the
    same result?

    NO, not for all of them.  The theorem as first stated,
       spec_dec fuel bs = Some (v, rest) -> exists fuel', from_slice fuel' bs = Ok (v, rest),
    is FALSE; [spec_valid_is_decoded_refuted] and the theorems next to it give
    concrete byte strings.  The classes on which the two decoders differ:

    (1) REPAIRED in the library and in Codec/Dec.v: an array that carries an
        element constructor although its count is 0 (e0 02 00 70).  The decoder
        used to stop after the count and leave the constructor byte in the
        input, which inside a list gave a DIFFERENT VALUE without any error
        (c0 09 02 e0 02 00 70 a0 02 01 02).  It now skips the bytes the size
        field announces after the count: [leftover_constructor_repaired],
        [silent_misdecode_repaired] state the agreement, and the clause that
        excluded this class is gone from [rarrayk];
    (2) an array whose count exceeds its size field, possible only when the
        element data are zero bytes wide (null, true, false, uint0, ulong0,
        list0): e0 02 03 40, three nulls, is rejected with InvalidValue;
    (3) a non-empty array of list8/list32/map8/map32/array8/array32 elements:
        the element-constructor state is lost (lists, arrays) or leaks into
        the nested values (maps);
    (4) a map with a repeated key: the reference decoder returns the pairs as
        they are on the wire, the library keeps one entry per key
        (c1 05 04 40 40 40 40).

    [spec_valid_is_decoded_partial] proves the statement, with the same fuel,
    for every other encoding: all width variants of every scalar, variable
    width, list, map and descriptor, empty arrays with or without (any)
    element constructor, and arrays of every fixed-width, variable-width and
    zero-width element constructor.  The extra hypotheses are
      - [lib_compatible fuel bs]: the reference decoder still accepts [bs]
        when its array case is replaced by [rarrayk], which differs from the
        one of Spec.v in exactly one line: a non-empty body is refused when
        [size < count] (2) or when [count <> 0] and the element constructor is
        a sized compound (3);
      - [nodup_keys v]: no map inside the decoded value repeats a key (4).
        This one is necessary: the library never returns such a value.
    Proofs/SpecDecTight.v proves that necessity, and that clause (2) is
    necessary for a top-level array; only clause (3) over-approximates. *)
From FV Require Import Base.Bytes Codec.Value Codec.Enc Codec.Dec Codec.Spec
  Proofs.BytesProofs Proofs.RoundTripScalars Proofs.RoundTrip Proofs.SpecLemmas.
From Coq Require Import Lia ZArith ZifyN ZifyBool ZifyNat.
Ltac Zify.zify_post_hook ::= Z.div_mod_to_equations.
Open Scope N_scope.
Arguments to_be : simpl never.
Arguments from_be : simpl never.
Arguments sbe : simpl never.
Arguments stake : simpl never.
Opaque to_be from_be N.mul N.add N.sub N.modulo N.div.

(** ** the restricted reference decoder *)
Definition compound_code (c : N) : bool :=
  (c =? 0) || (c =? 192) || (c =? 208) || (c =? 193) || (c =? 209) || (c =? 224) || (c =? 240).

Section RSpecBody.
Variable value_dec : bytes -> option (value * bytes).
Variable data_dec : N -> bytes -> option (value * bytes).

(** [arrayk] of Spec.v plus the line marked (+) *)
Definition rarrayk (size count : N) (body : bytes) : option value :=
  if MAXCOUNT <? count then None
  else match body with
       | [] => if count =? 0 then Some (VArray []) else None
       | ec :: elems =>
           if ec =? 0 then None                                                   (* as in Spec.v *)
           else if (size <? count) || (negb (count =? 0) && compound_code ec) then None       (* (+) *)
           else match datas_exact data_dec ec (N.to_nat count) elems with Some l => Some (VArray l) | None => None end
       end.

(** [compound w arrayk] of Spec.v, with the size handed to the continuation *)
Definition rcompound (w : nat) (bs : bytes) : option (value * bytes) :=
  match sbe w bs with
  | Some (size, r) =>
      match stake size r with
      | Some (inner, r') =>
          match sbe w inner with
          | Some (count, body) => match rarrayk size count body with Some v => Some (v, r') | None => None end
          | None => None end
      | None => None end
  | None => None end.

Definition rspec_data (code : N) (bs : bytes) : option (value * bytes) :=
  if code =? 224 then rcompound 1 bs
  else if code =? 240 then rcompound 4 bs
  else spec_data value_dec data_dec code bs.
End RSpecBody.

Fixpoint rspec_dec (fuel : nat) : bytes -> option (value * bytes) :=
  match fuel with
  | O => fun _ => None
  | S f => spec_value (rspec_dec f) (rspec_data (rspec_dec f) (fun code bs => rspec_inner f code bs))
  end
with rspec_inner (fuel : nat) (code : N) (bs : bytes) : option (value * bytes) :=
  match fuel with
  | O => None
  | S f => rspec_data (rspec_dec f) (fun c b => rspec_inner f c b) code bs
  end.

Definition lib_compatible (fuel : nat) (bs : bytes) : bool :=
  match rspec_dec fuel bs with Some _ => true | None => false end.

(** no map anywhere inside the value repeats a key *)
Fixpoint nodup_keys (v : value) : bool :=
  match v with
  | VDescribed _ x => nodup_keys x
  | VList l | VArray l => forallb nodup_keys l
  | VMap l => forallb (fun p => nodup_keys (fst p) && nodup_keys (snd p)) l && keys_fresh [] l
  | _ => true
  end.

Lemma rspec_dec_S f :
  rspec_dec (S f) = spec_value (rspec_dec f) (rspec_data (rspec_dec f) (fun code bs => rspec_inner f code bs)).
Proof. reflexivity. Qed.
Lemma rspec_inner_S f code bs :
  rspec_inner (S f) code bs = rspec_data (rspec_dec f) (fun c b => rspec_inner f c b) code bs.
Proof. reflexivity. Qed.

Ltac spec_go :=
  unfold spec_data;
  cbn -[sbe stake to_be from_be is_scalar utf8_valid lenN values_exact pairs_exact datas_exact sext N.to_nat].

(** ** the restricted decoder is a restriction of the reference decoder *)
Lemma rspec_data_sub vd dd code bs x : rspec_data vd dd code bs = Some x -> spec_data vd dd code bs = Some x.
Proof.
  unfold rspec_data.
  destruct (code =? 224) eqn:E1; [apply N.eqb_eq in E1; subst code|
    destruct (code =? 240) eqn:E2; [apply N.eqb_eq in E2; subst code|exact (fun H => H)]].
  all: unfold rcompound, rarrayk; spec_go.
  all: destruct (sbe _ bs) as [[size r]|]; [|discriminate];
       destruct (stake size r) as [[inner r']|]; [|discriminate];
       destruct (sbe _ inner) as [[count body]|]; [|discriminate];
       destruct (MAXCOUNT <? count); [discriminate|];
       destruct body as [|ec elems]; [exact (fun H => H)|];
       destruct (ec =? 0); [discriminate|];
       destruct ((size <? count) || (negb (count =? 0) && compound_code ec)); [discriminate|exact (fun H => H)].
Qed.

Lemma rspec_sub f :
  sub1 (rspec_dec f) (spec_dec f) /\
  sub2 (fun c b => rspec_inner f c b) (fun c b => spec_data_inner f c b).
Proof.
  induction f as [|f [IH1 IH2]].
  - split; intros ? **; discriminate.
  - split.
    + intros bs x. rewrite (rspec_dec_S f), (spec_dec_S f).
      apply spec_value_mono; [exact IH1|]. intros c b y Hy. apply rspec_data_sub in Hy.
      revert Hy. apply spec_data_mono; assumption.
    + intros c bs x. rewrite (rspec_inner_S f), (spec_data_inner_S f). intros Hy. apply rspec_data_sub in Hy.
      revert Hy. apply spec_data_mono; assumption.
Qed.

Theorem lib_compatible_spec fuel bs v rest :
  spec_dec fuel bs = Some (v, rest) -> lib_compatible fuel bs = true -> rspec_dec fuel bs = Some (v, rest).
Proof.
  unfold lib_compatible. intros Hs. destruct (rspec_dec fuel bs) as [x|] eqn:E; [|discriminate]. intros _.
  pose proof (proj1 (rspec_sub fuel) bs x E) as Hx. congruence.
Qed.

(** ** which constructors the reference decoder knows *)
Lemma spec_data_known vd dd code bs x : spec_data vd dd code bs = Some x -> known_code code = true.
Proof.
  unfold spec_data.
  repeat match goal with |- (if ?c =? ?k then _ else _) = _ -> _ =>
    let E := fresh "E" in destruct (c =? k) eqn:E; [intros _; apply N.eqb_eq in E; subst c; reflexivity|] end.
  discriminate.
Qed.

Lemma rspec_data_known vd dd code bs x : rspec_data vd dd code bs = Some x -> known_code code = true.
Proof.
  unfold rspec_data.
  destruct (code =? 224) eqn:E1; [apply N.eqb_eq in E1; subst code; reflexivity|].
  destruct (code =? 240) eqn:E2; [apply N.eqb_eq in E2; subst code; reflexivity|].
  apply spec_data_known.
Qed.

Lemma rspec_inner_known f code bs x : rspec_inner f code bs = Some x -> known_code code = true.
Proof. destruct f; [discriminate|]. rewrite rspec_inner_S. apply rspec_data_known. Qed.

(** ** the library's readers on an extended input *)
Lemma read_n_ext k bs h t extra : take_n k bs = Some (h, t) -> read_n k (bs ++ extra) = Ok (h, t ++ extra).
Proof.
  intros H. destruct (take_n_split _ _ _ _ H) as [-> Hl]. rewrite <- app_assoc.
  apply read_n_app. exact Hl.
Qed.
Lemma read_be_ext k bs n r extra : sbe k bs = Some (n, r) -> read_be k (bs ++ extra) = Ok (n, r ++ extra).
Proof.
  unfold sbe, read_be. destruct (take_n k bs) as [[h t]|] eqn:E; [|discriminate].
  intros H; injection H as <- <-. rewrite (read_n_ext _ _ _ _ extra E). reflexivity.
Qed.
Lemma read_byte_ext bs n r extra : sbe 1 bs = Some (n, r) -> read_byte (bs ++ extra) = Ok (n, r ++ extra).
Proof. intros H. apply sbe_1_inv in H. subst bs. reflexivity. Qed.
Lemma read_len_ext k bs h t extra : stake k bs = Some (h, t) -> read_len k (bs ++ extra) = Ok (h, t ++ extra).
Proof.
  intros H. destruct (stake_inv _ _ _ _ H) as [-> <-]. rewrite <- app_assoc. apply read_len_app.
Qed.
Lemma read_n_stake k bs h t extra :
  stake (N.of_nat k) bs = Some (h, t) -> read_n k (bs ++ extra) = Ok (h, t ++ extra).
Proof.
  intros H. destruct (stake_inv _ _ _ _ H) as [-> Hl]. rewrite <- app_assoc. apply read_n_app.
  unfold lenN in Hl. lia.
Qed.
Lemma read_be_app k (h rest : bytes) : length h = k -> read_be k (h ++ rest) = Ok (from_be h, rest).
Proof. intros H. unfold read_be. rewrite read_n_app by exact H. reflexivity. Qed.

Lemma sext8_sext w b : sext8 w b = sext w b.
Proof. reflexivity. Qed.

(** ** constructors without nested values: one lemma for the plain position
    ([e = None], the constructor is the first byte of [stream]) and the array
    position ([e = Some code], [stream] starts with the data) *)
Ltac dcbn :=
  cbn -[take_code read_be read_n read_byte read_len utf8_valid is_scalar sext8 sext sbe stake lenN N.to_nat
        list_loop array_loop map_loop].
Ltac dcbn_in H :=
  cbn -[take_code read_be read_n read_byte read_len utf8_valid is_scalar sext8 sext sbe stake lenN N.to_nat
        list_loop array_loop map_loop values_exact pairs_exact datas_exact] in H.

Ltac inv_data H extra :=
  repeat (first
  [ match type of H with
    | match sbe 1%nat ?b with _ => _ end = _ =>
        let Es := fresh "Es" in
        destruct (sbe 1%nat b) as [[? ?]|] eqn:Es; [|discriminate H]; rewrite (read_byte_ext _ _ _ extra Es)
    end
  | match type of H with
    | match sbe ?k ?b with _ => _ end = _ =>
        let Es := fresh "Es" in
        destruct (sbe k b) as [[? ?]|] eqn:Es; [|discriminate H]; rewrite (read_be_ext _ _ _ _ extra Es)
    end
  | match type of H with
    | match stake ?k ?b with _ => _ end = _ =>
        let Es := fresh "Es" in
        destruct (stake k b) as [[? ?]|] eqn:Es; [|discriminate H];
        first [rewrite (read_len_ext _ _ _ _ extra Es) | rewrite (read_n_stake 4 _ _ _ extra Es)
              | rewrite (read_n_stake 8 _ _ _ extra Es) | rewrite (read_n_stake 16 _ _ _ extra Es)]
    end
  | match type of H with
    | (if ?c then _ else _) = _ => let Ec := fresh "Ec" in destruct c eqn:Ec; [|discriminate H]
    end
  | match type of H with
    | match (if ?c then _ else _) with _ => _ end = _ => let Ec := fresh "Ec" in destruct c eqn:Ec; [|discriminate H]
    end ]; cbn [bind fst snd]).

Lemma data_sim vd dd self code bs v r e stream extra :
  compound_code code = false ->
  spec_data vd dd code bs = Some (v, r) ->
  peek_code e stream = Ok code -> take_code e stream = Ok (code, bs ++ extra) ->
  dec_body self e stream = Ok (v, e, r ++ extra).
Proof.
  intros Hcc H Hp Ht. unfold dec_body. rewrite Hp. cbn [bind]. unfold spec_data in H.
  repeat match type of H with
  | (if ?c =? ?k then _ else _) = _ =>
      let E := fresh "E" in destruct (c =? k) eqn:E;
      [ apply N.eqb_eq in E; subst c;
        first [ solve [vm_compute in Hcc; discriminate Hcc]
              | clear Hcc Hp; dcbn; try unfold dec_seq; rewrite Ht; dcbn; dcbn_in H ]
      | ]
  end.
  34: discriminate H.
  all: try (inv_data H extra; injection H as <- <-; reflexivity).
  - (* boolean 0x56 *) destruct bs as [|[|[p|p|]] r0]; try discriminate H; injection H as <- <-; reflexivity.
  - inv_data H extra; injection H as <- <-; unfold check_utf8; cbn [fst]; rewrite Ec; reflexivity.
  - inv_data H extra; injection H as <- <-; unfold check_utf8; cbn [fst]; rewrite Ec; reflexivity.
  - inv_data H extra; injection H as <- <-; unfold check_utf8; cbn [fst]; rewrite Ec; reflexivity.
  - inv_data H extra; injection H as <- <-; unfold check_utf8; cbn [fst]; rewrite Ec; reflexivity.
Qed.

(** plain position *)
Lemma data_sim_plain vd dd self c r0 v r extra :
  compound_code c = false -> spec_data vd dd c r0 = Some (v, r) ->
  dec_body self None ((c :: r0) ++ extra) = Ok (v, None, r ++ extra).
Proof.
  intros Hcc H. pose proof (spec_data_known _ _ _ _ _ H) as Hk.
  apply (data_sim vd dd self c r0 v r None _ extra Hcc H); cbn [app peek_code take_code]; rewrite Hk; reflexivity.
Qed.

(** array position *)
Lemma data_sim_elem vd dd self c bs v r extra :
  compound_code c = false -> spec_data vd dd c bs = Some (v, r) ->
  dec_body self (Some c) (bs ++ extra) = Ok (v, Some c, r ++ extra).
Proof. intros Hcc H. apply (data_sim vd dd self c bs v r (Some c) _ extra Hcc H); reflexivity. Qed.

(** ** the 32-bit compound headers and the empty arrays as the library reads them *)
Section Headers.
Variable self : dstate -> bytes -> result (value * dstate * bytes).

Lemma dec_seq_list32' h1 h2 r : length h1 = 4%nat -> length h2 = 4%nat ->
  4 <= from_be h1 -> from_be h2 <= MAXCOUNT ->
  dec_seq self None (208 :: h1 ++ h2 ++ r) = list_loop self (N.to_nat (from_be h2)) None r [].
Proof.
  intros L1 L2 H1 H3. unfold dec_seq. cbn -[N.to_nat read_be].
  rewrite read_be_app by exact L1. cbn -[N.to_nat read_be].
  rewrite read_be_app by exact L2. cbn -[N.to_nat read_be].
  destruct (MAXCOUNT <? from_be h2) eqn:E; [lia|]. unfold checked_sub_len.
  destruct (from_be h1 <? 4) eqn:E4; [lia|]. reflexivity.
Qed.

Lemma dec_map_map32' h1 h2 r : length h1 = 4%nat -> length h2 = 4%nat ->
  4 <= from_be h1 -> from_be h2 <= MAXCOUNT ->
  dec_map self None (209 :: h1 ++ h2 ++ r)
  = map_loop self (S (N.to_nat (from_be h2))) (from_be h2) None r [].
Proof.
  intros L1 L2 H1 H3. unfold dec_map. cbn -[N.to_nat read_be map_loop].
  rewrite read_be_app by exact L1. cbn -[N.to_nat read_be map_loop].
  rewrite read_be_app by exact L2. cbn -[N.to_nat read_be map_loop].
  destruct (MAXCOUNT <? from_be h2) eqn:E; [lia|]. unfold checked_sub_len.
  destruct (from_be h1 <? 4) eqn:E4; [lia|]. reflexivity.
Qed.

Lemma dec_seq_array32' h1 h2 fc r : length h1 = 4%nat -> length h2 = 4%nat ->
  from_be h2 <= from_be h1 -> from_be h2 <> 0 -> from_be h2 <= MAXCOUNT -> known_code fc = true ->
  5 <= from_be h1 ->
  dec_seq self None (240 :: h1 ++ h2 ++ fc :: r)
  = array_loop self (N.to_nat (from_be h2)) (from_be h1 - 5) (lenN r) (Some fc) r [].
Proof.
  intros L1 L2 H1 H2 H3 H4 H5. unfold dec_seq. rewrite take_code_cons by reflexivity.
  cbn -[N.to_nat array_loop lenN read_be known_code take_code].
  rewrite read_be_app by exact L1. cbn -[N.to_nat array_loop lenN read_be known_code take_code].
  rewrite read_be_app by exact L2. cbn -[N.to_nat array_loop lenN read_be known_code take_code].
  destruct ((MAXCOUNT <? from_be h2) || (from_be h1 <? from_be h2)) eqn:E; [lia|].
  destruct (from_be h2 =? 0) eqn:E0; [lia|]. rewrite take_code_cons by exact H4.
  cbn -[N.to_nat array_loop lenN known_code].
  unfold checked_sub_len. destruct (from_be h1 <? 5) eqn:E2; [lia|]. reflexivity.
Qed.

(** count 0: the [size - 1] (resp. [size - 4]) bytes after the count are skipped *)
Lemma dec_seq_array8_empty size body r : size = 1 + lenN body ->
  dec_seq self None (224 :: size :: 0 :: body ++ r) = Ok ([], None, r).
Proof.
  intros ->. unfold dec_seq. cbn -[N.to_nat array_loop lenN read_len]. change (MAXCOUNT <? 0) with false.
  destruct (1 + lenN body <? 0) eqn:E; [lia|]. cbn [orb]. unfold checked_sub_len.
  destruct (1 + lenN body <? 1) eqn:E1; [lia|]. cbn [bind].
  replace (1 + lenN body - 1) with (lenN body) by lia. rewrite read_len_app. reflexivity.
Qed.

Lemma dec_seq_array32_empty h1 h2 body r : length h1 = 4%nat -> length h2 = 4%nat -> from_be h2 = 0 ->
  from_be h1 = 4 + lenN body ->
  dec_seq self None (240 :: h1 ++ h2 ++ body ++ r) = Ok ([], None, r).
Proof.
  intros L1 L2 Hc Hs. unfold dec_seq. cbn -[N.to_nat array_loop lenN read_be read_len].
  rewrite read_be_app by exact L1. cbn -[N.to_nat array_loop lenN read_be read_len].
  rewrite read_be_app by exact L2. cbn -[N.to_nat array_loop lenN read_be read_len]. rewrite Hc.
  change (MAXCOUNT <? 0) with false.
  destruct (from_be h1 <? 0) eqn:E; [lia|]. cbn [orb]. unfold checked_sub_len.
  destruct (from_be h1 <? 4) eqn:E1; [lia|]. cbn [bind].
  replace (from_be h1 - 4) with (lenN body) by lia. rewrite read_len_app. reflexivity.
Qed.
End Headers.

(** ** compound values, relative to a simulation of the nested decoders *)
Section Compound.
Variable self : dstate -> bytes -> result (value * dstate * bytes).
Variable vd : bytes -> option (value * bytes).
Variable ddi : N -> bytes -> option (value * bytes).
Hypothesis Hval : forall bs v r, vd bs = Some (v, r) -> nodup_keys v = true ->
  forall extra, self None (bs ++ extra) = Ok (v, None, r ++ extra).
Hypothesis Helem : forall ec bs v r, compound_code ec = false -> ddi ec bs = Some (v, r) ->
  forall extra, self (Some ec) (bs ++ extra) = Ok (v, Some ec, r ++ extra).
Hypothesis Hknown : forall ec bs x, ddi ec bs = Some x -> known_code ec = true.
Hypothesis Hhead : forall bs x, self None bs = Ok x -> exists c r, bs = c :: r /\ known_code c = true.

Lemma list_loop_sim : forall n body l,
  values_exact vd n body = Some l -> forallb nodup_keys l = true ->
  forall acc extra, list_loop self n None (body ++ extra) acc = Ok (rev acc ++ l, None, extra).
Proof.
  induction n as [|n IH]; intros body l H Hnd acc extra; cbn [values_exact list_loop] in *.
  - destruct body; [|discriminate]. injection H as <-. rewrite rev_append_rev, !app_nil_r. reflexivity.
  - destruct (vd body) as [[v r]|] eqn:Ev; [|discriminate].
    destruct (values_exact vd n r) as [l'|] eqn:El; [|discriminate]. injection H as <-.
    cbn [forallb] in Hnd. apply andb_true_iff in Hnd. destruct Hnd as [Hv Hl'].
    rewrite (Hval _ _ _ Ev Hv). cbn [bind]. rewrite (IH _ _ El Hl'). cbn [rev]. rewrite <- app_assoc. reflexivity.
Qed.

Lemma map_loop_sim : forall n body l,
  pairs_exact vd n body = Some l ->
  forallb (fun p => nodup_keys (fst p) && nodup_keys (snd p)) l = true ->
  forall acc extra fuel, keys_fresh acc l = true -> (n < fuel)%nat ->
  map_loop self fuel (2 * N.of_nat n) None (body ++ extra) acc = Ok (acc ++ l, None, extra).
Proof.
  induction n as [|n IH]; intros body l H Hnd acc extra fuel Hfresh Hfuel;
    (destruct fuel as [|fuel]; [lia|]); cbn [pairs_exact map_loop] in *.
  - destruct body; [|discriminate]. injection H as <-.
    change (2 * N.of_nat 0 =? 0) with true. cbv iota. rewrite app_nil_r. reflexivity.
  - destruct (vd body) as [[k r]|] eqn:Ek; [|discriminate].
    destruct (vd r) as [[v r']|] eqn:Ev; [|discriminate].
    destruct (pairs_exact vd n r') as [l'|] eqn:El; [|discriminate]. injection H as <-.
    cbn [forallb fst snd] in Hnd. apply andb_true_iff in Hnd. destruct Hnd as [Hkv Hl'].
    apply andb_true_iff in Hkv. destruct Hkv as [Hk Hv].
    cbn [keys_fresh] in Hfresh. apply andb_true_iff in Hfresh. destruct Hfresh as [Hf1 Hf2].
    destruct (2 * N.of_nat (S n) =? 0) eqn:E0; [lia|].
    destruct (2 * N.of_nat (S n) =? 1) eqn:E1; [lia|].
    rewrite (Hval _ _ _ Ek Hk). cbn [bind]. rewrite (Hval _ _ _ Ev Hv). cbn [bind].
    rewrite omap_insert_fresh by exact Hf1.
    replace (2 * N.of_nat (S n) - 2) with (2 * N.of_nat n) by lia.
    rewrite (IH _ _ El Hl') by (auto; lia). rewrite <- app_assoc. reflexivity.
Qed.

Lemma array_loop_sim ec : compound_code ec = false -> forall n elems l,
  datas_exact ddi ec n elems = Some l ->
  forall acc extra size start, start - lenN extra <= size ->
  array_loop self n size start (Some ec) (elems ++ extra) acc = Ok (rev acc ++ l, None, extra).
Proof.
  intros Hec. induction n as [|n IH]; intros elems l H acc extra size start Hsz; cbn [datas_exact array_loop] in *.
  - destruct elems; [|discriminate]. injection H as <-. rewrite rev_append_rev, !app_nil_r. reflexivity.
  - destruct (ddi ec elems) as [[v r]|] eqn:Ev; [|discriminate].
    destruct (datas_exact ddi ec n r) as [l'|] eqn:El; [|discriminate]. injection H as <-.
    rewrite (Helem _ _ _ _ Hec Ev). cbn [bind].
    destruct (size <? start - lenN (r ++ extra)) eqn:E; [rewrite lenN_app in E; lia|].
    rewrite (IH _ _ El) by exact Hsz. cbn [rev]. rewrite <- app_assoc. reflexivity.
Qed.

(** *** lists *)

Lemma sim_list8 r0 v r extra :
  spec_data vd ddi 192 r0 = Some (v, r) -> nodup_keys v = true ->
  dec_body self None ((192 :: r0) ++ extra) = Ok (v, None, r ++ extra).
Proof.
  intros H Hnd. unfold spec_data in H. dcbn_in H.
  destruct (sbe 1 r0) as [[size r1]|] eqn:E1; [|discriminate]. apply sbe_1_inv in E1. subst r0.
  destruct (stake size r1) as [[inner r']|] eqn:E2; [|discriminate]. destruct (stake_inv _ _ _ _ E2) as [-> Hsz].
  destruct (sbe 1 inner) as [[count body]|] eqn:E3; [|discriminate]. apply sbe_1_inv in E3. subst inner.
  destruct (MAXCOUNT <? count); [discriminate|].
  destruct (values_exact vd (N.to_nat count) body) as [l|] eqn:El; [|discriminate]. injection H as <- <-.
  cbn [app]. rewrite <- app_assoc. rewrite dec_body_list by auto.
  rewrite dec_seq_list8 by (rewrite lenN_cons in Hsz; lia).
  cbn [nodup_keys] in Hnd. rewrite (list_loop_sim _ _ _ El Hnd). reflexivity.
Qed.

Lemma sim_list32 r0 v r extra :
  spec_data vd ddi 208 r0 = Some (v, r) -> nodup_keys v = true ->
  dec_body self None ((208 :: r0) ++ extra) = Ok (v, None, r ++ extra).
Proof.
  intros H Hnd. unfold spec_data in H. dcbn_in H.
  destruct (sbe 4 r0) as [[size r1]|] eqn:E1; [|discriminate].
  destruct (sbe_inv _ _ _ _ E1) as (h1 & -> & L1 & ->).
  destruct (stake (from_be h1) r1) as [[inner r']|] eqn:E2; [|discriminate]. destruct (stake_inv _ _ _ _ E2) as [-> Hsz].
  destruct (sbe 4 inner) as [[count body]|] eqn:E3; [|discriminate].
  destruct (sbe_inv _ _ _ _ E3) as (h2 & -> & L2 & ->).
  destruct (MAXCOUNT <? from_be h2) eqn:Em; [discriminate|].
  destruct (values_exact vd (N.to_nat (from_be h2)) body) as [l|] eqn:El; [|discriminate]. injection H as <- <-.
  cbn [app]. rewrite <- !app_assoc. rewrite dec_body_list by auto.
  rewrite dec_seq_list32' by (auto; try lia; rewrite lenN_app in Hsz; unfold lenN in Hsz at 1; lia).
  cbn [nodup_keys] in Hnd. rewrite (list_loop_sim _ _ _ El Hnd). reflexivity.
Qed.

(** *** maps *)

Lemma map_loop_count count body l extra :
  (count mod 2 =? 0) = true ->
  pairs_exact vd (N.to_nat (count / 2)) body = Some l -> nodup_keys (VMap l) = true ->
  map_loop self (S (N.to_nat count)) count None (body ++ extra) [] = Ok (l, None, extra).
Proof.
  intros Hev El Hnd. cbn [nodup_keys] in Hnd. apply andb_true_iff in Hnd. destruct Hnd as [Hnd Hfresh].
  replace count with (2 * N.of_nat (N.to_nat (count / 2))) at 2 by lia.
  rewrite (map_loop_sim _ _ _ El Hnd [] extra) by (auto; lia). reflexivity.
Qed.

Lemma sim_map8 r0 v r extra :
  spec_data vd ddi 193 r0 = Some (v, r) -> nodup_keys v = true ->
  dec_body self None ((193 :: r0) ++ extra) = Ok (v, None, r ++ extra).
Proof.
  intros H Hnd. unfold spec_data in H. dcbn_in H.
  destruct (sbe 1 r0) as [[size r1]|] eqn:E1; [|discriminate]. apply sbe_1_inv in E1. subst r0.
  destruct (stake size r1) as [[inner r']|] eqn:E2; [|discriminate]. destruct (stake_inv _ _ _ _ E2) as [-> Hsz].
  destruct (sbe 1 inner) as [[count body]|] eqn:E3; [|discriminate]. apply sbe_1_inv in E3. subst inner.
  destruct (MAXCOUNT <? count); [discriminate|].
  destruct (count mod 2 =? 0) eqn:Hev; [|discriminate]. cbn [negb] in H.
  destruct (pairs_exact vd (N.to_nat (count / 2)) body) as [l|] eqn:El; [|discriminate]. injection H as <- <-.
  cbn [app]. rewrite <- app_assoc. rewrite dec_body_map by auto.
  rewrite dec_map_map8 by (rewrite lenN_cons in Hsz; lia).
  rewrite (map_loop_count _ _ _ _ Hev El Hnd). reflexivity.
Qed.

Lemma sim_map32 r0 v r extra :
  spec_data vd ddi 209 r0 = Some (v, r) -> nodup_keys v = true ->
  dec_body self None ((209 :: r0) ++ extra) = Ok (v, None, r ++ extra).
Proof.
  intros H Hnd. unfold spec_data in H. dcbn_in H.
  destruct (sbe 4 r0) as [[size r1]|] eqn:E1; [|discriminate].
  destruct (sbe_inv _ _ _ _ E1) as (h1 & -> & L1 & ->).
  destruct (stake (from_be h1) r1) as [[inner r']|] eqn:E2; [|discriminate]. destruct (stake_inv _ _ _ _ E2) as [-> Hsz].
  destruct (sbe 4 inner) as [[count body]|] eqn:E3; [|discriminate].
  destruct (sbe_inv _ _ _ _ E3) as (h2 & -> & L2 & ->).
  destruct (MAXCOUNT <? from_be h2) eqn:Em; [discriminate|].
  destruct (from_be h2 mod 2 =? 0) eqn:Hev; [|discriminate]. cbn [negb] in H.
  destruct (pairs_exact vd (N.to_nat (from_be h2 / 2)) body) as [l|] eqn:El; [|discriminate]. injection H as <- <-.
  cbn [app]. rewrite <- !app_assoc. rewrite dec_body_map by auto.
  rewrite dec_map_map32' by (auto; try lia; rewrite lenN_app in Hsz; unfold lenN in Hsz at 1; lia).
  rewrite (map_loop_count _ _ _ _ Hev El Hnd). reflexivity.
Qed.

(** *** arrays *)

Lemma datas_exact_known ec n elems l : n <> 0%nat -> datas_exact ddi ec n elems = Some l -> known_code ec = true.
Proof.
  destruct n as [|n]; [congruence|]. intros _. cbn [datas_exact].
  destruct (ddi ec elems) as [x|] eqn:E; [|discriminate]. intros _. exact (Hknown _ _ _ E).
Qed.

Lemma rarrayk_count0 size body v : rarrayk ddi size 0 body = Some v -> v = VArray [].
Proof.
  unfold rarrayk. change (MAXCOUNT <? 0) with false. cbv iota.
  destruct body as [|ec elems]; [cbn; congruence|].
  destruct (ec =? 0); [discriminate|].
  destruct ((size <? 0) || (negb (0 =? 0) && compound_code ec)); [discriminate|].
  cbn [N.to_nat datas_exact]. destruct elems; [congruence|discriminate].
Qed.

Lemma sim_array8 r0 v r extra :
  rcompound ddi 1 r0 = Some (v, r) ->
  dec_body self None ((224 :: r0) ++ extra) = Ok (v, None, r ++ extra).
Proof.
  intros H. unfold rcompound in H.
  destruct (sbe 1 r0) as [[size r1]|] eqn:E1; [|discriminate]. apply sbe_1_inv in E1. subst r0.
  destruct (stake size r1) as [[inner r']|] eqn:E2; [|discriminate]. destruct (stake_inv _ _ _ _ E2) as [-> Hsz].
  destruct (sbe 1 inner) as [[count body]|] eqn:E3; [|discriminate]. apply sbe_1_inv in E3. subst inner.
  destruct (rarrayk ddi size count body) as [v'|] eqn:Ek; [|discriminate]. injection H as <- <-.
  cbn [app]. rewrite <- app_assoc. rewrite dec_body_array by auto. rewrite lenN_cons in Hsz.
  destruct (count =? 0) eqn:E0.
  - apply N.eqb_eq in E0. subst count. apply rarrayk_count0 in Ek. subst v'.
    cbn [app]. rewrite dec_seq_array8_empty by lia. reflexivity.
  - unfold rarrayk in Ek. destruct (MAXCOUNT <? count) eqn:Em; [discriminate|].
    destruct body as [|ec elems]; [rewrite E0 in Ek; discriminate|].
    destruct (ec =? 0); [discriminate|]. rewrite E0 in Ek. cbn [negb andb] in Ek.
    destruct (size <? count) eqn:Esc; [discriminate|]. cbn [orb] in Ek.
    destruct (compound_code ec) eqn:Ecc; [discriminate|].
    destruct (datas_exact ddi ec (N.to_nat count) elems) as [l|] eqn:El; [|discriminate]. injection Ek as <-.
    rewrite !lenN_cons in Hsz. cbn [app].
    assert (Hn0 : N.to_nat count <> 0%nat) by lia.
    rewrite dec_seq_array8; try lia; [|apply (datas_exact_known _ _ _ _ Hn0 El)].
    rewrite (array_loop_sim ec Ecc _ _ _ El) by (rewrite !lenN_app; lia). reflexivity.
Qed.

Lemma sim_array32 r0 v r extra :
  rcompound ddi 4 r0 = Some (v, r) ->
  dec_body self None ((240 :: r0) ++ extra) = Ok (v, None, r ++ extra).
Proof.
  intros H. unfold rcompound in H.
  destruct (sbe 4 r0) as [[size r1]|] eqn:E1; [|discriminate].
  destruct (sbe_inv _ _ _ _ E1) as (h1 & -> & L1 & ->).
  destruct (stake (from_be h1) r1) as [[inner r']|] eqn:E2; [|discriminate]. destruct (stake_inv _ _ _ _ E2) as [-> Hsz].
  destruct (sbe 4 inner) as [[count body]|] eqn:E3; [|discriminate].
  destruct (sbe_inv _ _ _ _ E3) as (h2 & -> & L2 & ->).
  destruct (rarrayk ddi (from_be h1) (from_be h2) body) as [v'|] eqn:Ek; [|discriminate]. injection H as <- <-.
  cbn [app]. rewrite <- !app_assoc. rewrite dec_body_array by auto.
  rewrite lenN_app in Hsz. unfold lenN in Hsz at 1. rewrite L2 in Hsz.
  destruct (from_be h2 =? 0) eqn:E0.
  - apply N.eqb_eq in E0. rewrite E0 in Ek. apply rarrayk_count0 in Ek. subst v'.
    rewrite dec_seq_array32_empty by (auto; lia). reflexivity.
  - unfold rarrayk in Ek. destruct (MAXCOUNT <? from_be h2) eqn:Em; [discriminate|].
    destruct body as [|ec elems]; [rewrite E0 in Ek; discriminate|].
    destruct (ec =? 0); [discriminate|]. rewrite E0 in Ek. cbn [negb andb] in Ek.
    destruct (from_be h1 <? from_be h2) eqn:Esc; [discriminate|]. cbn [orb] in Ek.
    destruct (compound_code ec) eqn:Ecc; [discriminate|].
    destruct (datas_exact ddi ec (N.to_nat (from_be h2)) elems) as [l|] eqn:El; [|discriminate]. injection Ek as <-.
    rewrite !lenN_cons in Hsz. cbn [app].
    assert (Hn0 : N.to_nat (from_be h2) <> 0%nat) by lia.
    rewrite dec_seq_array32'; auto; try lia; [|apply (datas_exact_known _ _ _ _ Hn0 El)].
    rewrite (array_loop_sim ec Ecc _ _ _ El) by (rewrite !lenN_app; lia). reflexivity.
Qed.
End Compound.

(** *** described values *)
Section Described.
Variable self : dstate -> bytes -> result (value * dstate * bytes).
Variable vd : bytes -> option (value * bytes).
Variable ddi : N -> bytes -> option (value * bytes).
Hypothesis Hval : forall bs v r, vd bs = Some (v, r) -> nodup_keys v = true ->
  forall extra, self None (bs ++ extra) = Ok (v, None, r ++ extra).
Hypothesis Hhead : forall bs x, self None bs = Ok x -> exists c r, bs = c :: r /\ known_code c = true.

Ltac ddcbn :=
  cbn -[read_be read_n read_byte read_len utf8_valid is_scalar sext8 sext sbe stake lenN N.to_nat].

(** the descriptor: sym8 / sym32 / ulong / smallulong / ulong0 *)
Lemma dec_descriptor_sim dc dr dv r1 extra :
  ((dc =? 163) || (dc =? 179) || (dc =? 128) || (dc =? 83) || (dc =? 68)) = true ->
  spec_data vd ddi dc dr = Some (dv, r1) ->
  match dv with
  | VSymbol s => dec_descriptor None (0 :: dc :: dr ++ extra) = Ok (DName s, r1 ++ extra)
  | VUlong n => dec_descriptor None (0 :: dc :: dr ++ extra) = Ok (DCode n, r1 ++ extra)
  | _ => True
  end.
Proof.
  intros Hdc H. rewrite !orb_true_iff in Hdc.
  destruct Hdc as [[[[E|E]|E]|E]|E]; apply N.eqb_eq in E; subst dc; unfold spec_data in H; dcbn_in H.
  - destruct (sbe 1 dr) as [[len r]|] eqn:Es1; [|discriminate].
    destruct (stake len r) as [[h r']|] eqn:Es2; [|discriminate].
    destruct (utf8_valid h) eqn:Eu; [|discriminate]. injection H as <- <-.
    unfold dec_descriptor. cbn [read_byte bind]. ddcbn. rewrite (read_byte_ext _ _ _ extra Es1). cbn [bind].
    rewrite (read_len_ext _ _ _ _ extra Es2). cbn [bind]. unfold check_utf8. cbn [fst]. rewrite Eu. reflexivity.
  - destruct (sbe 4 dr) as [[len r]|] eqn:Es1; [|discriminate].
    destruct (stake len r) as [[h r']|] eqn:Es2; [|discriminate].
    destruct (utf8_valid h) eqn:Eu; [|discriminate]. injection H as <- <-.
    unfold dec_descriptor. cbn [read_byte bind]. ddcbn. rewrite (read_be_ext _ _ _ _ extra Es1). cbn [bind].
    rewrite (read_len_ext _ _ _ _ extra Es2). cbn [bind]. unfold check_utf8. cbn [fst]. rewrite Eu. reflexivity.
  - destruct (sbe 8 dr) as [[n r]|] eqn:Es1; [|discriminate]. injection H as <- <-.
    unfold dec_descriptor. cbn [read_byte bind]. ddcbn. rewrite (read_be_ext _ _ _ _ extra Es1). reflexivity.
  - destruct (sbe 1 dr) as [[n r]|] eqn:Es1; [|discriminate]. injection H as <- <-.
    unfold dec_descriptor. cbn [read_byte bind]. ddcbn. rewrite (read_byte_ext _ _ _ extra Es1). reflexivity.
  - injection H as <- <-. reflexivity.
Qed.

Lemma sim_described r0 v r extra :
  spec_value vd (rspec_data vd ddi) (0 :: r0) = Some (v, r) -> nodup_keys v = true ->
  dec_body self None ((0 :: r0) ++ extra) = Ok (v, None, r ++ extra).
Proof.
  intros H Hnd. unfold spec_value in H. change (0 =? 0) with true in H. cbv iota in H.
  destruct r0 as [|dc dr]; [discriminate|].
  destruct ((dc =? 163) || (dc =? 179) || (dc =? 128) || (dc =? 83) || (dc =? 68)) eqn:Hdc; [|discriminate].
  assert (Hd : rspec_data vd ddi dc dr = spec_data vd ddi dc dr).
  { unfold rspec_data.
    destruct (dc =? 224) eqn:E1; [apply N.eqb_eq in E1; subst dc; discriminate Hdc|].
    destruct (dc =? 240) eqn:E2; [apply N.eqb_eq in E2; subst dc; discriminate Hdc|]. reflexivity. }
  rewrite Hd in H. destruct (spec_data vd ddi dc dr) as [[dv r1]|] eqn:Ed; [|discriminate].
  pose proof (dec_descriptor_sim dc dr dv r1 extra Hdc Ed) as Hdesc.
  destruct dv; try discriminate H.
  all: destruct (vd r1) as [[v' r2]|] eqn:Ev; [|discriminate]; injection H as <- <-; cbn [nodup_keys] in Hnd;
    pose proof (Hval _ _ _ Ev Hnd extra) as Hv'; destruct (Hhead _ _ Hv') as (c1 & t1 & Heq & Hk1);
    cbn [app];
    match goal with |- dec_body _ _ ?s = _ => change (dec_body self None s) with (dec_described self None s) end;
    unfold dec_described; change (negb (known_code 0)) with false; cbv iota;
    rewrite Hdesc; cbn [bind]; rewrite Heq, Hk1; cbn [negb]; rewrite <- Heq, Hv'; reflexivity.
Qed.
End Described.

(** ** the simulation: same fuel, any trailing input, decoder state preserved *)
Theorem sim f :
  (forall bs v r, rspec_dec f bs = Some (v, r) -> nodup_keys v = true ->
     forall extra, dec f None (bs ++ extra) = Ok (v, None, r ++ extra)) /\
  (forall ec bs v r, compound_code ec = false -> rspec_inner f ec bs = Some (v, r) ->
     forall extra, dec f (Some ec) (bs ++ extra) = Ok (v, Some ec, r ++ extra)).
Proof.
  induction f as [|f [IH1 IH2]]; [split; intros; discriminate|].
  pose proof (rspec_inner_known f) as Hknown. pose proof (dec_ok_head f) as Hhead.
  split.
  - intros bs v r H Hnd extra. rewrite (rspec_dec_S f) in H. rewrite dec_unfold.
    destruct bs as [|c r0]; [discriminate|].
    destruct (c =? 0) eqn:Ec0.
    { apply N.eqb_eq in Ec0. subst c. eapply sim_described; eauto. }
    unfold spec_value in H. rewrite Ec0 in H. unfold rspec_data in H.
    destruct (c =? 224) eqn:E224.
    { apply N.eqb_eq in E224. subst c. eapply sim_array8; eauto. }
    destruct (c =? 240) eqn:E240.
    { apply N.eqb_eq in E240. subst c. eapply sim_array32; eauto. }
    destruct (compound_code c) eqn:Ecc.
    + unfold compound_code in Ecc. rewrite Ec0, E224, E240 in Ecc. cbn [orb] in Ecc.
      rewrite ?orb_false_r in Ecc. rewrite !orb_true_iff in Ecc.
      destruct Ecc as [[[E|E]|E]|E]; apply N.eqb_eq in E; subst c.
      * eapply sim_list8; eauto.
      * eapply sim_list32; eauto.
      * eapply sim_map8; eauto.
      * eapply sim_map32; eauto.
    + eapply data_sim_plain; eauto.
  - intros ec bs v r Hcc H extra. rewrite (rspec_inner_S f) in H. unfold rspec_data in H. rewrite dec_unfold.
    destruct (ec =? 224) eqn:E224; [apply N.eqb_eq in E224; subst ec; discriminate Hcc|].
    destruct (ec =? 240) eqn:E240; [apply N.eqb_eq in E240; subst ec; discriminate Hcc|].
    eapply data_sim_elem; eauto.
Qed.

(** ** (B), partial: every encoding the reference decoder accepts, outside the
    three remaining classes (2) (3) (4) listed at the top of this file, is accepted by the library's
    decoder model with the SAME fuel and decodes to the same value and rest *)
Theorem spec_valid_is_decoded_partial : forall fuel bs v rest,
  spec_dec fuel bs = Some (v, rest) ->
  lib_compatible fuel bs = true ->      (* arrays: classes (2) (3) excluded *)
  nodup_keys v = true ->                (* maps: class (4) excluded *)
  from_slice fuel bs = Ok (v, rest).
Proof.
  intros fuel bs v rest Hs Hc Hnd. pose proof (lib_compatible_spec _ _ _ _ Hs Hc) as Hr.
  pose proof (proj1 (sim fuel) bs v rest Hr Hnd []) as H. rewrite !app_nil_r in H.
  unfold from_slice. rewrite H. reflexivity.
Qed.
Print Assumptions spec_valid_is_decoded_partial.

(** the same with trailing input, as the decoder sees it inside a frame *)
Theorem spec_valid_is_decoded_partial_ext : forall fuel bs v rest extra,
  spec_dec fuel bs = Some (v, rest) -> lib_compatible fuel bs = true -> nodup_keys v = true ->
  from_slice fuel (bs ++ extra) = Ok (v, rest ++ extra).
Proof.
  intros fuel bs v rest extra Hs Hc Hnd. pose proof (lib_compatible_spec _ _ _ _ Hs Hc) as Hr.
  unfold from_slice. rewrite (proj1 (sim fuel) bs v rest Hr Hnd extra). reflexivity.
Qed.

(** whole-input form *)
Corollary spec_valid_is_decoded_whole : forall fuel bs v,
  spec_valid fuel bs = Some v -> lib_compatible fuel bs = true -> nodup_keys v = true ->
  from_slice fuel bs = Ok (v, []).
Proof.
  unfold spec_valid. intros fuel bs v H Hc Hnd.
  destruct (spec_dec fuel bs) as [[v' [|x r]]|] eqn:E; try discriminate. injection H as ->.
  apply spec_valid_is_decoded_partial; assumption.
Qed.

(** the restricted decoder is what is simulated; it agrees with the reference decoder wherever it is defined *)
Theorem rspec_is_decoded : forall fuel bs v rest,
  rspec_dec fuel bs = Some (v, rest) -> nodup_keys v = true ->
  spec_dec fuel bs = Some (v, rest) /\ from_slice fuel bs = Ok (v, rest).
Proof.
  intros fuel bs v rest Hr Hnd. split; [exact (proj1 (rspec_sub fuel) bs _ Hr)|].
  pose proof (proj1 (sim fuel) bs v rest Hr Hnd []) as H. rewrite !app_nil_r in H.
  unfold from_slice. rewrite H. reflexivity.
Qed.

(** ** (B) as first stated is refuted *)
Ltac refute H fuel' :=
  do 5 (destruct fuel' as [|fuel']; [vm_compute in H; discriminate H|]); vm_compute in H; discriminate H.

(** smallest witness found, class (2): e0 02 03 40 -- array8, size 2, count 3,
    element constructor null.  A valid encoding of [null, null, null]; the
    library answers InvalidValue because count > size. *)
Theorem spec_valid_is_decoded_refuted :
  exists fuel bs v rest,
    spec_dec fuel bs = Some (v, rest) /\ forall fuel', from_slice fuel' bs <> Ok (v, rest).
Proof.
  exists 2%nat, [224; 2; 3; 64], (VArray [VNull; VNull; VNull]), [].
  split; [vm_compute; reflexivity|]. intros fuel' H. refute H fuel'.
Qed.
Print Assumptions spec_valid_is_decoded_refuted.

Example refuted_reject_result : from_slice 2 [224; 2; 3; 64] = Err EInvalidValue.
Proof. vm_compute. reflexivity. Qed.

(** class (1), REPAIRED: e0 02 00 70 -- array8, size 2, count 0, element
    constructor uint.  The library used to return the empty array and leave
    0x70 unread; it now skips it and agrees with the reference decoder. *)
Theorem leftover_constructor_repaired :
  spec_dec 1 [224; 2; 0; 112] = Some (VArray [], []) /\
  (forall fuel', from_slice (S fuel') [224; 2; 0; 112] = Ok (VArray [], [])).
Proof. split; [vm_compute; reflexivity|]. intros fuel'; vm_compute; reflexivity. Qed.

(** class (1) inside a list, REPAIRED: c0 09 02 e0 02 00 70 a0 02 01 02.  Both
    decoders now read [ [] : array of uint, binary 01 02 ]; before the repair
    the library read [ [] : array, uint 0xa0020102 ] without any error. *)
Theorem silent_misdecode_repaired :
  let bs := [192; 9; 2; 224; 2; 0; 112; 160; 2; 1; 2] in
  spec_valid 2 bs = Some (VList [VArray []; VBinary [1; 2]]) /\
  (forall fuel', from_slice (S (S fuel')) bs = Ok (VList [VArray []; VBinary [1; 2]], [])).
Proof. cbv zeta. split; [vm_compute; reflexivity|]. intros fuel'; vm_compute; reflexivity. Qed.
Print Assumptions silent_misdecode_repaired.

(** both are now inside the domain of the partial theorem, as is an empty array
    whose (unused) element constructor is a compound one *)
Example repaired_by_theorem :
  lib_compatible 1 [224; 2; 0; 112] = true /\
  lib_compatible 2 [192; 9; 2; 224; 2; 0; 112; 160; 2; 1; 2] = true /\
  lib_compatible 1 [224; 2; 0; 192] = true /\
  lib_compatible 1 [240; 0; 0; 0; 5; 0; 0; 0; 0; 209] = true.
Proof. repeat split; vm_compute; reflexivity. Qed.

(** class (4): c1 05 04 40 40 40 40 -- map8 with the key null twice *)
Theorem refuted_duplicate_key :
  let bs := [193; 5; 4; 64; 64; 64; 64] in
  spec_valid 2 bs = Some (VMap [(VNull, VNull); (VNull, VNull)]) /\
  (forall fuel', from_slice (S (S fuel')) bs = Ok (VMap [(VNull, VNull)], [])) /\
  (forall fuel', from_slice fuel' bs <> Ok (VMap [(VNull, VNull); (VNull, VNull)], [])).
Proof.
  cbv zeta. split; [vm_compute; reflexivity|]. split; [intros fuel'; vm_compute; reflexivity|].
  intros fuel' H. refute H fuel'.
Qed.

(** class (3), one witness per excluded element constructor: arrays of two empty
    list8 / list32 / array8 / array32, arrays of one non-empty map8 / map32;
    class (2) with another zero-width constructor (0x41, true) *)
Definition differs (bs : bytes) (v : value) : Prop :=
  spec_valid 3 bs = Some v /\ forall fuel', from_slice fuel' bs <> Ok (v, []).

Theorem refuted_compound_elements :
  differs [224; 6; 2; 192; 1; 0; 1; 0] (VArray [VList []; VList []]) /\
  differs [224; 18; 2; 208; 0; 0; 0; 4; 0; 0; 0; 0; 0; 0; 0; 4; 0; 0; 0; 0] (VArray [VList []; VList []]) /\
  differs [224; 6; 1; 193; 3; 2; 64; 64] (VArray [VMap [(VNull, VNull)]]) /\
  differs [224; 12; 1; 209; 0; 0; 0; 6; 0; 0; 0; 2; 64; 64] (VArray [VMap [(VNull, VNull)]]) /\
  differs [224; 6; 2; 224; 1; 0; 1; 0] (VArray [VArray []; VArray []]) /\
  differs [224; 18; 2; 240; 0; 0; 0; 4; 0; 0; 0; 0; 0; 0; 0; 4; 0; 0; 0; 0] (VArray [VArray []; VArray []]) /\
  differs [224; 2; 3; 65] (VArray [VBool true; VBool true; VBool true]).
Proof.
  unfold differs. repeat match goal with |- _ /\ _ => split end.
  all: match goal with
       | |- forall _, _ => intros fuel' H; refute H fuel'
       | |- _ => vm_compute; reflexivity
       end.
Qed.

(** the hypothesis [lib_compatible] rejects each of them, and [nodup_keys] the duplicate key *)
Example witnesses_excluded :
  lib_compatible 2 [224; 2; 3; 64] = false /\
  lib_compatible 3 [224; 6; 2; 192; 1; 0; 1; 0] = false /\
  nodup_keys (VMap [(VNull, VNull); (VNull, VNull)]) = false.
Proof. repeat split; vm_compute; reflexivity. Qed.

(** ** the partial theorem is not vacuous: width variants the encoder never produces *)
(** described by smallulong, list32 holding: uint (4 bytes) for 0, smallint -1,
    long (8 bytes) for 1, boolean 0x56, str32 "hi", sym32 "k", map32 {sym8 "a" -> vbin32},
    array32 of smallulong, array8 of null (count 2), array8 of list0, array8 of
    boolean-true constructors, described by sym32 *)
Definition variants : bytes :=
  [0; 83; 7;
   208; 0; 0; 0; 86; 0; 0; 0; 13;
     112; 0; 0; 0; 0;
     84; 255;
     129; 0; 0; 0; 0; 0; 0; 0; 1;
     86; 1;
     177; 0; 0; 0; 2; 104; 105;
     179; 0; 0; 0; 1; 107;
     209; 0; 0; 0; 13; 0; 0; 0; 2; 163; 1; 97; 176; 0; 0; 0; 1; 9;
     240; 0; 0; 0; 7; 0; 0; 0; 2; 83; 5; 6;
     224; 2; 2; 64;
     224; 2; 1; 69;
     224; 2; 2; 65;
     0; 179; 0; 0; 0; 1; 100; 68;
     69].

Example variants_decoded :
  spec_valid 4 variants =
    Some (VDescribed (DCode 7)
           (VList [VUint 0; VInt 4294967295; VLong 1; VBool true; VString [104; 105]; VSymbol [107];
                   VMap [(VSymbol [97], VBinary [9])];
                   VArray [VUlong 5; VUlong 6]; VArray [VNull; VNull]; VArray [VList []];
                   VArray [VBool true; VBool true];
                   VDescribed (DName [100]) (VUlong 0); VList []])) /\
  lib_compatible 4 variants = true.
Proof. split; vm_compute; reflexivity. Qed.

Example variants_by_theorem : exists v, spec_valid 4 variants = Some v /\ from_slice 4 variants = Ok (v, []).
Proof.
  destruct variants_decoded as [Hs Hc]. eexists. split; [exact Hs|].
  apply spec_valid_is_decoded_whole; [exact Hs|exact Hc|vm_compute; reflexivity].
Qed.
