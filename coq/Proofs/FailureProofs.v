(** Proofs about the failure-propagation model Conn/Failure.v (property C14).
    Everything is proved for the states reachable by ANY event list, through the
    inductive invariant [Inv]. *)
From FV Require Import Conn.Failure.
Require Import Lia.

Local Arguments N.sub : simpl never.
Local Arguments N.add : simpl never.
Local Arguments N.ltb : simpl never.

(** * Links: an operation in progress is genuinely waiting *)

(** what [poll] leaves behind: no operation, or one that cannot move on *)
Definition blocked (l : link) : Prop :=
  match lop l with
  | None => True
  | Some OSendOutcome => dsend l = DUnsettled
  | Some OOutcome => dfut l = DUnsettled
  | Some (OSendCredit _) => inbox l = [] /\ relay l = true /\ (0 <? credit l) = false
  | Some _ => inbox l = [] /\ relay l = true
  end.

(** routing: [a] = the session engine runs *)
Definition link_wf (a : bool) (l : link) : Prop :=
  (relay l = true -> a = true) /\
  (mapped l = true -> relay l = true) /\
  (usable l = true -> relay l = true -> mapped l = true).

Ltac dvar :=
  repeat match goal with
         | |- context [match ?x with _ => _ end] => is_var x; destruct x; cbn in *
         | |- context [if ?x then _ else _] => is_var x; destruct x; cbn in *
         | |- context [if (0 <? ?c) then _ else _] => let H := fresh "Hc" in destruct (0 <? c) eqn:H; cbn in *
         | |- context [match drop_to_detach ?q with _ => _ end] => let H := fresh "Hd" in destruct (drop_to_detach q) as [[[? ?] ?]|] eqn:H; cbn in *
         end.

Lemma see_detach_blocked : forall x c e r l, blocked (fst (fst (see_detach x c e r l))).
Proof. intros [sm sc] c e r [st m rl q o cr ds df]. unfold see_detach, blocked. cbn. dvar; auto. Qed.

Lemma reattach_blocked : forall x f l, blocked (fst (fst (reattach x f l))).
Proof. intros [sm sc] f [st m rl q o cr ds df]. unfold reattach, blocked. cbn. dvar; auto. Qed.

Lemma poll_blocked : forall x l, blocked (fst (fst (poll x l))).
Proof.
  intros [sm sc] [st m rl q o cr ds df]. unfold poll, poll_reclose, see_detach, reattach, blocked. cbn.
  destruct o as [o|]; [|exact I]. destruct o; cbn; dvar; auto.
Qed.

Lemma gone_wf : forall a l, (relay l = true -> a = true) -> (mapped l = true -> relay l = true) -> link_wf a (gone l).
Proof. intros a [st m rl q o cr ds df] H1 H2. unfold link_wf, usable; cbn in *. repeat split; auto. discriminate. Qed.

Lemma poll_wf : forall a x l, (smap x = true -> a = true) -> link_wf a l -> link_wf a (fst (fst (poll x l))).
Proof.
  intros a [sm sc] [st m rl q o cr ds df] Hx (H1 & H2 & H3).
  unfold poll, poll_reclose, see_detach, reattach, link_wf, usable in *. cbn in *.
  destruct o as [o|]; [|repeat split; auto]. destruct o; cbn; dvar; cbn; repeat split; auto; try discriminate.
Qed.

(** * The invariant of the reachable states *)
Definition conn_ok (c : conn) : Prop :=
  (cph c = CStopped <-> ccell c <> None) /\ (cph c = CStopped -> cpend c = None).
Definition sess_ok (s : sess) : Prop :=
  (scell s <> None <-> (sph s = SEndSent \/ sph s = SStopped)) /\ (endp s = true -> sph s = SEndSent).
Definition link_inv (s : sess) (l : link) : Prop := blocked l /\ link_wf (alive (sph s)) l.
Definition Inv (st : state) : Prop :=
  conn_ok (cn st) /\ sess_ok (ss st) /\ link_inv (ss st) (tx st) /\ link_inv (ss st) (rx st).

Definition other (sd : side) : side := match sd with Snd => Rcv | Rcv => Snd end.

Lemma Inv_put : forall sd l st,
  conn_ok (cn st) -> sess_ok (ss st) -> link_inv (ss st) l -> link_inv (ss st) (get (other sd) st) -> Inv (put sd l st).
Proof. intros [] l st Hc Hs Hl Ho; unfold Inv; cbn in *; auto. Qed.

Lemma Inv_get : forall sd st, Inv st -> link_inv (ss st) (get sd st).
Proof. intros [] st (Hc & Hs & Ht & Hr); cbn; auto. Qed.

Lemma link_stop_wf : forall l, link_wf false (link_stop l).
Proof. intros [st m rl q o cr ds df]. unfold link_stop, link_wf. cbn. destruct m; cbn; repeat split; intros; discriminate. Qed.

Lemma stop_link_inv : forall c sd l s, alive (sph s) = false -> link_inv s (fst (stop_link (mkCtx false c) sd l)).
Proof.
  intros c sd l s Ha. unfold stop_link.
  destruct (poll (mkCtx false c) (link_stop l)) as [[l' rs] w] eqn:Hp. cbn.
  assert (Hl : l' = fst (fst (poll (mkCtx false c) (link_stop l)))) by (rewrite Hp; reflexivity).
  split.
  - rewrite Hl. apply poll_blocked.
  - rewrite Ha, Hl. apply poll_wf; [cbn; discriminate|apply link_stop_wf].
Qed.

Lemma sess_stop_Inv : forall r o st,
  conn_ok (cn st) -> (alive (sph (ss st)) = false -> Inv st) -> Inv (fst (sess_stop r o st)).
Proof.
  intros r o st Hc Hn. unfold sess_stop. destruct (alive (sph (ss st))) eqn:Ha; [|cbn; auto].
  pose proof (stop_link_inv (Some (first (scell (ss st)) r)) Snd (tx st)) as Ht.
  pose proof (stop_link_inv (Some (first (scell (ss st)) r)) Rcv (rx st)) as Hr.
  destruct (stop_link _ Snd (tx st)) as [t ot]. destruct (stop_link _ Rcv (rx st)) as [rr orx]. cbn in *.
  unfold Inv; cbn. split; [exact Hc|]. split.
  - unfold sess_ok; cbn. split; [split; [auto|intros _; discriminate]|discriminate].
  - split; [apply Ht|apply Hr]; reflexivity.
Qed.

Lemma after_write_Inv : forall st, Inv st -> Inv (fst (after_write st)).
Proof.
  intros st Hi. unfold after_write. destruct (out_closed (cph (cn st))); [|exact Hi].
  apply sess_stop_Inv; [apply Hi|auto].
Qed.

Lemma finish_Inv : forall sd h st l rs w, Inv (put sd l st) -> Inv (fst (finish sd h st (l, rs, w))).
Proof.
  intros sd h st l rs w Hi. unfold finish. destruct w; [|exact Hi].
  pose proof (after_write_Inv _ Hi) as Ha. destruct (after_write (put sd l st)) as [st2 o2]. exact Ha.
Qed.

Lemma is_mapped_alive : forall p, is_mapped p = true -> alive p = true.
Proof. intros []; cbn; auto. Qed.

(** the link [sd] has been touched (its routing facts still hold): polling it restores the invariant *)
Lemma poll_link_Inv : forall sd st,
  conn_ok (cn st) -> sess_ok (ss st) -> link_wf (alive (sph (ss st))) (get sd st) ->
  link_inv (ss st) (get (other sd) st) -> Inv (fst (poll_link sd st)).
Proof.
  intros sd st Hc Hs Hw Ho. unfold poll_link.
  destruct (poll (ctx_of (ss st)) (get sd st)) as [[l rs] w] eqn:Hp.
  assert (Hl : l = fst (fst (poll (ctx_of (ss st)) (get sd st)))) by (rewrite Hp; reflexivity).
  apply finish_Inv. apply Inv_put; auto.
  split; rewrite Hl; [apply poll_blocked|apply poll_wf; [cbn; apply is_mapped_alive|exact Hw]].
Qed.

Lemma get_put_same : forall sd l st, get sd (put sd l st) = l.
Proof. intros [] l st; reflexivity. Qed.
Lemma get_put_other : forall sd l st, get (other sd) (put sd l st) = get (other sd) st.
Proof. intros [] l st; reflexivity. Qed.
Lemma cn_put : forall sd l st, cn (put sd l st) = cn st.
Proof. intros [] l st; reflexivity. Qed.
Lemma ss_put : forall sd l st, ss (put sd l st) = ss st.
Proof. intros [] l st; reflexivity. Qed.

(** polling after a change of the link that keeps its routing facts *)
Lemma touch_Inv : forall sd l st,
  Inv st -> link_wf (alive (sph (ss st))) l -> Inv (fst (poll_link sd (put sd l st))).
Proof.
  intros sd l st Hi Hw. apply poll_link_Inv; rewrite ?cn_put, ?ss_put, ?get_put_same, ?get_put_other; try apply Hi; auto.
  apply Inv_get; exact Hi.
Qed.

Lemma wf_set_op_usable : forall a o l, link_wf a l -> usable l = true -> link_wf a (set_op o l).
Proof. intros a o [st m rl q o' cr ds df] (H1 & H2 & H3) Hu. unfold link_wf in *; cbn in *. repeat split; auto. Qed.
Lemma wf_set_credit : forall a v l, link_wf a l -> link_wf a (set_credit v l).
Proof. intros a v [st m rl q o' cr ds df] Hw. exact Hw. Qed.
Lemma wf_set_inbox : forall a v l, link_wf a l -> link_wf a (set_inbox v l).
Proof. intros a v [st m rl q o' cr ds df] Hw. exact Hw. Qed.
Lemma wf_set_dsend : forall a v l, link_wf a l -> link_wf a (set_dsend v l).
Proof. intros a v [st m rl q o' cr ds df] Hw. exact Hw. Qed.
Lemma wf_set_dfut : forall a v l, link_wf a l -> link_wf a (set_dfut v l).
Proof. intros a v [st m rl q o' cr ds df] Hw. exact Hw. Qed.
Lemma wf_unroute : forall a l, link_wf a (set_route false false l).
Proof. intros a [st m rl q o' cr ds df]. unfold link_wf; cbn. repeat split; intros; discriminate. Qed.
Lemma wf_teardown : forall a o v l, link_wf a l -> (v = LDetachSent \/ v = LCloseSent \/ v = lst l) -> (o = ODetachWait \/ o = OCloseWait) ->
  link_wf a (set_op (Some o) (set_lst v l)).
Proof.
  intros a o v [st m rl q o' cr ds df] (H1 & H2 & H3) Hv Ho. unfold link_wf, usable in *; cbn in *. repeat split; auto.
  destruct Ho; subst o; destruct v; discriminate.
Qed.

Lemma conn_stop_Inv : forall r o st, Inv st -> Inv (fst (conn_stop r o st)).
Proof.
  intros r o st Hi. pose proof Hi as (Hc & Hs & Ht & Hr).
  unfold conn_stop. destruct (cph (cn st)) eqn:Hp; try exact Hi.
  all: unfold Inv; cbn; split; [split; [split; [intros _; discriminate|reflexivity]|reflexivity]|].
  all: destruct (sph (ss st)) eqn:Hsp; try (exact (conj Hs (conj Ht Hr))).
  all: destruct Hs as (Hs1 & Hs2); unfold sess_ok, link_inv in *; rewrite Hsp in *; cbn.
  all: split; [split; [split; [intro Hn; exfalso; apply Hs1 in Hn; destruct Hn; discriminate|intros [H|H]; discriminate]|discriminate]|].
  all: split; [apply Ht|apply Hr].
Qed.

Lemma link_wf_mono : forall a a' l, link_wf a l -> (a = true -> a' = true) -> link_wf a' l.
Proof. intros a a' l (H1 & H2 & H3) Ha. repeat split; auto. Qed.

Lemma Inv_mk : forall c s st,
  Inv st -> conn_ok c -> sess_ok s -> (alive (sph (ss st)) = true -> alive (sph s) = true) -> Inv (mkState c s (tx st) (rx st)).
Proof.
  intros c s st (Hc & Hs & (Htb & Htw) & (Hrb & Hrw)) Hc' Hs' Ha. unfold Inv, link_inv; cbn.
  repeat split; auto; try (eapply link_wf_mono; [eassumption|exact Ha]); try apply Hc'; try apply Hs'.
Qed.

Lemma conn_ok_live : forall c p o pd g, conn_ok c -> cph c <> CStopped -> p <> CStopped -> conn_ok (mkConn p (ccell c) o pd g).
Proof.
  intros c p o pd g ((H1 & H2) & H3) Hn Hp. unfold conn_ok; cbn. split; [split|].
  - intro H. contradiction.
  - intro H. exfalso. apply Hn. apply H2. exact H.
  - intro H. contradiction.
Qed.

Lemma conn_ok_fresh : forall p o pd g, p <> CStopped -> conn_ok (mkConn p None o pd g).
Proof.
  intros p o pd g Hp. unfold conn_ok; cbn. split; [split|].
  - intro H. contradiction.
  - intro H. exfalso. apply H. reflexivity.
  - intro H. contradiction.
Qed.

Lemma sess_ok_fresh : forall p h g, p <> SEndSent -> p <> SStopped -> sess_ok (mkSess p None None false h g).
Proof.
  intros p h g H1 H2. unfold sess_ok; cbn. split; [split|discriminate].
  - intro H; exfalso; apply H; reflexivity.
  - intros [H|H]; contradiction.
Qed.

Theorem step_Inv : forall st e, Inv st -> Inv (fst (step st e)).
Proof.
  intros st e Hi. pose proof Hi as (Hc & Hs & (Htb & Htw) & (Hrb & Hrw)).
  pose proof Hc as ((Hc1 & Hc1') & Hc2). pose proof Hs as ((Hs1 & Hs1') & Hs2).
  destruct e as [c| | |sd| |f| |sd c e|e|e|k|]; unfold step.
  - (* calls *)
    destruct c as [| | |sd| |b| | | |sd|sd]; unfold do_call.
    + (* COpen *)
      destruct (cph (cn st)) eqn:Hp; try exact Hi.
      * apply Inv_mk; auto; try (rewrite ?Hsp; cbn; auto; discriminate). apply conn_ok_fresh; discriminate.
      * destruct (cgone (cn st)); [exact Hi|]. apply Inv_mk; auto; try (rewrite ?Hsp; cbn; auto; discriminate). apply conn_ok_fresh; discriminate.
    + (* CBegin *)
      destruct (cpend (cn st)) eqn:Hcp; [exact Hi|]. destruct (cgone (cn st)); [exact Hi|].
      destruct (sph (ss st)) eqn:Hsp; try exact Hi.
      destruct (cph (cn st)) eqn:Hp; try exact Hi.
      apply Inv_mk; auto; try (rewrite ?Hsp; cbn; auto; discriminate).
      * apply conn_ok_live; auto; rewrite ?Hp; discriminate.
      * apply sess_ok_fresh; discriminate.
    + (* CClose *)
      destruct (cpend (cn st)) eqn:Hcp; [exact Hi|]. destruct (cgone (cn st)); [exact Hi|].
      destruct (cph (cn st)) eqn:Hp; try exact Hi.
      * apply Inv_mk; auto; try (rewrite ?Hsp; cbn; auto; discriminate). apply conn_ok_live; auto; rewrite ?Hp; discriminate.
      * apply Inv_mk; auto; try (rewrite ?Hsp; cbn; auto; discriminate). unfold conn_ok; cbn. split; [split; auto|reflexivity].
    + (* CAttach *)
      destruct (shandle (ss st) && negb (sgone (ss st)) && negb (endp (ss st))); [|exact Hi].
      destruct (lst (get sd st)) eqn:Hl; try exact Hi.
      destruct (sph (ss st)) eqn:Hsp; try exact Hi.
      apply after_write_Inv. apply Inv_put; try apply Hi.
      * split; [cbn; auto|]. unfold link_wf, usable; cbn. repeat split; rewrite ?Hsp; cbn; auto; discriminate.
      * apply Inv_get; exact Hi.
    + (* CEnd *)
      destruct (shandle (ss st) && negb (sgone (ss st)) && negb (endp (ss st))); [|exact Hi].
      destruct (sph (ss st)) eqn:Hsp; try exact Hi.
      * apply after_write_Inv. apply Inv_mk; auto; try (rewrite ?Hsp; cbn; auto; discriminate).
        unfold sess_ok; cbn. split; [split; [auto|intros _; discriminate]|reflexivity].
      * apply Inv_mk; auto; try (rewrite ?Hsp; cbn; auto; discriminate).
        unfold sess_ok; cbn. split; [split; [auto|intros _; apply Hs1'; auto]|discriminate].
    + (* CSend *)
      destruct (usable (tx st)) eqn:Hu; [|exact Hi].
      apply (touch_Inv Snd); [exact Hi|]. apply wf_set_op_usable; auto.
    + (* COutcome *)
      destruct (usable (tx st)) eqn:Hu; [|exact Hi]. destruct (dfut (tx st)); try exact Hi.
      all: apply (touch_Inv Snd); [exact Hi|]; apply wf_set_op_usable; auto.
    + (* CRecv *)
      destruct (usable (rx st)) eqn:Hu; [|exact Hi].
      apply (touch_Inv Rcv); [exact Hi|]. apply wf_set_op_usable; auto.
    + (* CAccept *)
      destruct (usable (rx st)) eqn:Hu; [|exact Hi].
      assert (Hp : Inv (put Rcv (set_op None (rx st)) st)).
      { apply Inv_put; [exact Hc|exact Hs| |exact (conj Htb Htw)]. split; [destruct (rx st); exact I|apply wf_set_op_usable; auto]. }
      destruct (is_mapped (sph (ss st))); [|exact Hp].
      pose proof (after_write_Inv _ Hp) as Ha. destruct (after_write (put Rcv (set_op None (rx st)) st)) as [st2 o2]. exact Ha.
    + (* CDetach *)
      destruct (usable (get sd st)) eqn:Hu; [|exact Hi].
      pose proof (Inv_get sd st Hi) as (Hlb & Hlw).
      assert (Hgone : forall q, Inv (put sd (gone (set_inbox q (get sd st))) st)).
      { intro q. apply Inv_put; try apply Hi; [|apply Inv_get; exact Hi]. split; [destruct (get sd st); exact I|].
        destruct Hlw as (H1 & H2 & H3). apply gone_wf; destruct (get sd st); cbn in *; auto. }
      assert (Hgone0 : Inv (put sd (gone (get sd st)) st)).
      { apply Inv_put; try apply Hi; [|apply Inv_get; exact Hi]. split; [destruct (get sd st); exact I|].
        destruct Hlw as (H1 & H2 & H3). apply gone_wf; auto. }
      destruct (lst (get sd st)) eqn:Hl; try exact Hgone0.
      * destruct (is_mapped (sph (ss st))); [|exact Hgone0].
        destruct (drop_to_detach (inbox (get sd st))) as [[[[] e] r]|] eqn:Hd.
        -- apply finish_Inv. apply Hgone.
        -- apply touch_Inv; [exact Hi|]. apply wf_teardown; auto.
        -- apply touch_Inv; [exact Hi|]. apply wf_teardown; auto.
      * apply touch_Inv; [exact Hi|]. replace (set_op (Some ODetachWait) (get sd st)) with (set_op (Some ODetachWait) (set_lst (lst (get sd st)) (get sd st))) by (destruct (get sd st); reflexivity).
        apply wf_teardown; auto.
      * apply touch_Inv; [exact Hi|]. replace (set_op (Some ODetachWait) (get sd st)) with (set_op (Some ODetachWait) (set_lst (lst (get sd st)) (get sd st))) by (destruct (get sd st); reflexivity).
        apply wf_teardown; auto.
    + (* CCloseL *)
      destruct (usable (get sd st)) eqn:Hu; [|exact Hi].
      pose proof (Inv_get sd st Hi) as (Hlb & Hlw).
      assert (Hgone0 : Inv (put sd (gone (get sd st)) st)).
      { apply Inv_put; try apply Hi; [|apply Inv_get; exact Hi]. split; [destruct (get sd st); exact I|].
        destruct Hlw as (H1 & H2 & H3). apply gone_wf; auto. }
      destruct (lst (get sd st)) eqn:Hl; try exact Hgone0.
      * destruct (is_mapped (sph (ss st))); [|exact Hgone0].
        apply touch_Inv; [exact Hi|]. apply wf_teardown; auto.
      * apply touch_Inv; [exact Hi|]. replace (set_op (Some OCloseWait) (get sd st)) with (set_op (Some OCloseWait) (set_lst (lst (get sd st)) (get sd st))) by (destruct (get sd st); reflexivity).
        apply wf_teardown; auto.
      * apply touch_Inv; [exact Hi|]. replace (set_op (Some OCloseWait) (get sd st)) with (set_op (Some OCloseWait) (set_lst (lst (get sd st)) (get sd st))) by (destruct (get sd st); reflexivity).
        apply wf_teardown; auto.
      * (* re-attach and close *)
        destruct (reattach (ctx_of (ss st)) FinClose (set_op None (get sd st))) as [[l rs] w] eqn:Hre.
        apply finish_Inv. apply Inv_put; try apply Hi; [|apply Inv_get; exact Hi].
        assert (Hl' : l = fst (fst (reattach (ctx_of (ss st)) FinClose (set_op None (get sd st))))) by (rewrite Hre; reflexivity).
        split; rewrite Hl'; [apply reattach_blocked|].
        unfold reattach. destruct (smap (ctx_of (ss st))) eqn:Hsm; cbn.
        -- apply is_mapped_alive in Hsm. rewrite Hsm. unfold link_wf, usable; cbn. repeat split; auto; discriminate.
        -- destruct Hlw as (H1 & H2 & H3). apply gone_wf; destruct (get sd st); cbn in *; auto.
  - (* EPOpen *)
    destruct (cph (cn st)) eqn:Hp; try exact Hi.
    apply Inv_mk; auto; try (rewrite ?Hsp; cbn; auto; discriminate). apply conn_ok_fresh; discriminate.
  - (* EPBegin *)
    destruct (cph (cn st)) eqn:Hp; try exact Hi. destruct (sph (ss st)) eqn:Hsp; try exact Hi.
    apply Inv_mk; auto; try (rewrite ?Hsp; cbn; auto; discriminate).
    + apply conn_ok_live; auto; rewrite ?Hp; discriminate.
    + apply sess_ok_fresh; discriminate.
  - (* EPAttach *)
    destruct (routed st && relay (get sd st) && negb (mapped (get sd st))) eqn:Hg; [|exact Hi].
    apply andb_prop in Hg. destruct Hg as (Hg & Hnm). apply andb_prop in Hg. destruct Hg as (Hro & Hrl).
    pose proof (Inv_get sd st Hi) as (Hlb & (H1 & H2 & H3)).
    destruct (lop (get sd st)) as [[]|] eqn:Ho; try exact Hi.
    + (* OAttach *)
      unfold attach_arrived. rewrite Ho. apply finish_Inv. apply Inv_put; try apply Hi; [|apply Inv_get; exact Hi].
      split; [destruct (get sd st); exact I|]. rewrite Hrl. destruct (get sd st); unfold link_wf, usable; cbn in *. repeat split; auto.
    + (* OReattach *)
      unfold attach_arrived. rewrite Ho. destruct (smap (ctx_of (ss st))); apply finish_Inv; apply Inv_put; try apply Hi; try (apply Inv_get; exact Hi).
      * split.
        -- unfold blocked in *. rewrite Ho in Hlb. destruct (get sd st); cbn in *. exact Hlb.
        -- rewrite Hrl. destruct (get sd st); unfold link_wf, usable; cbn in *. repeat split; auto; discriminate.
      * split; [destruct (get sd st); exact I|]. apply gone_wf; destruct (get sd st); cbn in *; auto.
  - (* EPFlow *)
    destruct (routed st && mapped (tx st)); [|exact Hi].
    apply (touch_Inv Snd); [exact Hi|]. apply wf_set_credit; auto.
  - (* EPSettle *)
    destruct (routed st && mapped (tx st)); [|exact Hi].
    apply (touch_Inv Snd); [exact Hi|]. destruct f; [destruct (dfut (tx st))|destruct (dsend (tx st))]; auto using wf_set_dfut, wf_set_dsend.
  - (* EPTransfer *)
    destruct (routed st && mapped (rx st)); [|exact Hi].
    apply (touch_Inv Rcv); [exact Hi|]. apply wf_set_inbox; auto.
  - (* EPDetach *)
    destruct (routed st && mapped (get sd st)); [|exact Hi].
    apply touch_Inv; [exact Hi|]. apply wf_unroute.
  - (* EPEnd *)
    destruct (cph (cn st)) eqn:Hp; try exact Hi. destruct (sph (ss st)) eqn:Hsp; try exact Hi.
    + apply Inv_mk; auto; try (rewrite ?Hsp; cbn; auto; discriminate).
      * apply conn_ok_live; auto; rewrite ?Hp; discriminate.
      * apply sess_ok_fresh; discriminate.
    + apply sess_stop_Inv; [apply Hi|rewrite Hsp; discriminate].
    + apply sess_stop_Inv; [apply Hi|rewrite Hsp; discriminate].
  - (* EPClose *)
    destruct (cph (cn st)) eqn:Hp; try exact Hi; apply conn_stop_Inv; exact Hi.
  - (* ETransport *)
    destruct (cph (cn st)) eqn:Hp; try (apply conn_stop_Inv; exact Hi).
    apply Inv_mk; auto; try (rewrite ?Hsp; cbn; auto; discriminate). apply conn_ok_fresh; discriminate.
  - (* EProp *)
    destruct (cph (cn st)) eqn:Hp; try exact Hi. apply sess_stop_Inv; [apply Hi|auto].
Qed.

Lemma Inv_init : Inv init.
Proof.
  unfold Inv, init, conn_ok, sess_ok, link_inv, blocked, link_wf, usable; cbn.
  repeat split; intros; try discriminate; try contradiction; auto.
  all: try (destruct H; discriminate).
Qed.

Lemma run_Inv : forall es st, Inv st -> Inv (fst (run st es)).
Proof.
  induction es as [|e es IH]; intros st Hi; cbn; [exact Hi|].
  pose proof (step_Inv st e Hi) as H1. destruct (step st e) as [s1 o]. cbn in H1.
  pose proof (IH s1 H1) as H2. destruct (run s1 es) as [s2 os]. exact H2.
Qed.

Definition reachable (st : state) : Prop := exists es, st = fst (run init es).

Theorem reachable_Inv : forall st, reachable st -> Inv st.
Proof. intros st [es ->]. apply run_Inv. exact Inv_init. Qed.

(** * (a) No operation stays pending *)
Definition hung (l : link) : Prop :=
  (lop l = Some OSendOutcome /\ dsend l = DUnsettled) \/ (lop l = Some OOutcome /\ dfut l = DUnsettled).
(** a delivery is unsettled on a link that the session does not route any more *)
Definition orphan (l : link) : Prop := mapped l = false /\ (dsend l = DUnsettled \/ dfut l = DUnsettled).
Definition quiet (l : link) : Prop := lop l = None \/ hung l.
Definition conn_up (p : cphase) : bool := match p with COpenSent | COpened | CCloseSent => true | _ => false end.
Definition conn_failure (e : event) : bool := match e with ETransport _ | EPClose _ => true | _ => false end.

Lemma dead_link_quiet : forall l, blocked l -> relay l = false -> quiet l.
Proof.
  intros [st m rl q o cr ds df] Hb Hr. unfold blocked, quiet, hung in *; cbn in *. subst rl.
  destruct o as [[]|]; auto; try (destruct Hb as (_ & Hb); try destruct Hb as (Hb & _); discriminate).
Qed.

Lemma dead_quiet : forall st, Inv st -> alive (sph (ss st)) = false ->
  endp (ss st) = false /\ quiet (tx st) /\ quiet (rx st) /\ relay (tx st) = false /\ relay (rx st) = false /\ mapped (tx st) = false /\ mapped (rx st) = false.
Proof.
  intros st (Hc & ((Hs1 & Hs1') & Hs2) & (Htb & (Ht1 & Ht2 & Ht3)) & (Hrb & (Hr1 & Hr2 & Hr3))) Ha.
  rewrite Ha in *.
  assert (Hrt : relay (tx st) = false) by (destruct (relay (tx st)); auto; discriminate Ht1; reflexivity).
  assert (Hrr : relay (rx st) = false) by (destruct (relay (rx st)); auto; discriminate Hr1; reflexivity).
  assert (Hmt : mapped (tx st) = false) by (destruct (mapped (tx st)); auto; rewrite Ht2 in Hrt; auto).
  assert (Hmr : mapped (rx st) = false) by (destruct (mapped (rx st)); auto; rewrite Hr2 in Hrr; auto).
  repeat split; auto using dead_link_quiet.
  destruct (endp (ss st)); auto. assert (He : sph (ss st) = SEndSent) by auto. rewrite He in Ha. discriminate Ha.
Qed.

(** the components that the helpers leave alone *)
Lemma sess_stop_cn : forall r o st, cn (fst (sess_stop r o st)) = cn st.
Proof.
  intros r o st. unfold sess_stop. destruct (alive (sph (ss st))); [|reflexivity].
  destruct (stop_link _ Snd (tx st)). destruct (stop_link _ Rcv (rx st)). reflexivity.
Qed.
Lemma after_write_cn : forall st, cn (fst (after_write st)) = cn st.
Proof. intro st. unfold after_write. destruct (out_closed _); [apply sess_stop_cn|reflexivity]. Qed.
Lemma finish_cn : forall sd h st p, cn (fst (finish sd h st p)) = cn st.
Proof.
  intros sd h st [[l rs] w]. unfold finish. destruct w; [|apply cn_put].
  pose proof (after_write_cn (put sd l st)) as H. destruct (after_write (put sd l st)). cbn in *. rewrite H. apply cn_put.
Qed.
Lemma poll_link_cn : forall sd st, cn (fst (poll_link sd st)) = cn st.
Proof. intros sd st. unfold poll_link. apply finish_cn. Qed.

Lemma sess_stop_dead : forall r o st, alive (sph (ss (fst (sess_stop r o st)))) = false.
Proof.
  intros r o st. unfold sess_stop. destruct (alive (sph (ss st))) eqn:Ha; [|exact Ha].
  destruct (stop_link _ Snd (tx st)). destruct (stop_link _ Rcv (rx st)). reflexivity.
Qed.

Ltac cnsimp := repeat (cbn [fst]; rewrite ?cn_put, ?finish_cn, ?poll_link_cn, ?after_write_cn, ?sess_stop_cn); auto.

Lemma stopped_stays : forall st e, cph (cn st) = CStopped -> cph (cn (fst (step st e))) = CStopped.
Proof.
  intros st e Hp. destruct e as [c| | |sd| |f| |sd c e|e|e|k|]; unfold step; rewrite ?Hp; auto.
  - destruct c as [| | |sd| |b| | | |sd|sd]; unfold do_call; rewrite ?Hp; auto.
    + destruct (cpend (cn st)), (cgone (cn st)), (sph (ss st)); auto.
    + destruct (cpend (cn st)), (cgone (cn st)); auto.
    + destruct (_ && _); auto. destruct (lst (get sd st)); auto. destruct (sph (ss st)); cnsimp.
    + destruct (_ && _); auto. destruct (sph (ss st)); cnsimp.
    + destruct (usable (tx st)); cnsimp.
    + destruct (usable (tx st)); auto. destruct (dfut (tx st)); cnsimp.
    + destruct (usable (rx st)); cnsimp.
    + destruct (usable (rx st)); auto. destruct (is_mapped (sph (ss st))); auto.
      pose proof (after_write_cn (put Rcv (set_op None (rx st)) st)) as H. destruct (after_write _). cbn in *. rewrite H. exact Hp.
    + destruct (usable (get sd st)); auto. destruct (lst (get sd st)); cnsimp.
      destruct (is_mapped (sph (ss st))); cnsimp.
      destruct (drop_to_detach (inbox (get sd st))) as [[[[] ?] ?]|]; cnsimp.
    + destruct (usable (get sd st)); auto. destruct (lst (get sd st)); cnsimp.
      destruct (is_mapped (sph (ss st))); cnsimp.
  - destruct (_ && _); auto. destruct (lop (get sd st)) as [[]|]; cnsimp.
  - destruct (_ && _); cnsimp.
  - destruct (_ && _); cnsimp.
  - destruct (_ && _); cnsimp.
  - destruct (_ && _); cnsimp.
  - unfold conn_stop. rewrite Hp. auto.
  - cnsimp.
Qed.

Lemma step_settled_fst : forall st e, fst (step_settled st e) = fst (step (fst (step st e)) EProp).
Proof. intros st e. unfold step_settled. destruct (step st e) as [s1 o1]. cbn [fst]. destruct (step s1 EProp). reflexivity. Qed.
Lemma step_settled_snd : forall st e, snd (step_settled st e) = snd (step st e) ++ snd (step (fst (step st e)) EProp).
Proof. intros st e. unfold step_settled. destruct (step st e) as [s1 o1]. cbn [fst snd]. destruct (step s1 EProp). reflexivity. Qed.

(** the session drops a link: its operation completes, unless it waits for the outcome of a delivery
    that the session did not route any more *)
Lemma stop_link_quiet : forall c sd l,
  lop (fst (stop_link (mkCtx false c) sd l)) = None \/ (hung (fst (stop_link (mkCtx false c) sd l)) /\ orphan l).
Proof.
  intros c sd [st m rl q o cr ds df]. unfold stop_link, link_stop, poll, poll_reclose, see_detach, reattach, fail_slots, hung, orphan. cbn.
  destruct m, ds, df; cbn; destruct o as [[]|]; cbn; auto; dvar; cbn; auto.
  all: try (right; split; [auto|split; auto]; fail).
Qed.

Lemma sess_stop_links : forall r o st, alive (sph (ss st)) = true ->
  tx (fst (sess_stop r o st)) = fst (stop_link (mkCtx false (Some (first (scell (ss st)) r))) Snd (tx st)) /\
  rx (fst (sess_stop r o st)) = fst (stop_link (mkCtx false (Some (first (scell (ss st)) r))) Rcv (rx st)) /\
  sph (ss (fst (sess_stop r o st))) = SStopped /\ endp (ss (fst (sess_stop r o st))) = false /\
  scell (ss (fst (sess_stop r o st))) = Some (first (scell (ss st)) r).
Proof.
  intros r o st Ha. unfold sess_stop. rewrite Ha.
  destruct (stop_link _ Snd (tx st)). destruct (stop_link _ Rcv (rx st)). cbn. auto.
Qed.

Lemma hung_unsettled : forall l, hung l -> dsend l = DUnsettled \/ dfut l = DUnsettled.
Proof. intros l [[_ H]|[_ H]]; auto. Qed.

(** after the propagation step of a stopped connection nothing is in progress any more *)
Lemma prop_quiesces : forall st, Inv st -> cph (cn st) = CStopped ->
  let st' := fst (step st EProp) in
  cph (cn st') = CStopped /\ alive (sph (ss st')) = false /\ cpend (cn st') = None /\ endp (ss st') = false /\
  (lop (tx st') = None \/ (hung (tx st') /\ orphan (tx st))) /\ (lop (rx st') = None \/ (hung (rx st') /\ orphan (rx st))).
Proof.
  intros st Hi Hp st'. pose proof (step_Inv st EProp Hi) as Hi'. fold st' in Hi'.
  assert (Hcn : cn st' = cn st) by (unfold st', step; rewrite Hp; apply sess_stop_cn).
  assert (Hdead : alive (sph (ss st')) = false) by (unfold st', step; rewrite Hp; apply sess_stop_dead).
  split; [rewrite Hcn; exact Hp|]. split; [exact Hdead|]. split; [rewrite Hcn; apply Hi; exact Hp|].
  pose proof (dead_quiet st' Hi' Hdead) as (He & Hqt & Hqr & _). split; [exact He|].
  destruct (alive (sph (ss st))) eqn:Ha.
  - unfold st', step. rewrite Hp.
    pose proof (sess_stop_links (SConnStopped (cell_or_closed (cn st))) SOutOk st Ha) as (Ht & Hr & _).
    rewrite Ht, Hr. split; apply stop_link_quiet.
  - assert (Hst : st' = st) by (unfold st', step, sess_stop; rewrite Hp, Ha; reflexivity).
    pose proof (dead_quiet st Hi Ha) as (_ & Hqt0 & Hqr0 & _ & _ & Hmt & Hmr). rewrite Hst.
    split; [destruct Hqt0 as [H|H]|destruct Hqr0 as [H|H]]; auto; right; split; auto; split; auto using hung_unsettled.
Qed.

Lemma conn_stop_effect : forall r o st, conn_up (cph (cn st)) = true ->
  cph (cn (fst (conn_stop r o st))) = CStopped /\ tx (fst (conn_stop r o st)) = tx st /\ rx (fst (conn_stop r o st)) = rx st /\
  ccell (cn (fst (conn_stop r o st))) = Some (first (ccell (cn st)) r).
Proof. intros r o st Hu. unfold conn_stop. destruct (cph (cn st)); try discriminate Hu; cbn; auto. Qed.

Lemma conn_failure_step : forall st e, conn_up (cph (cn st)) = true -> conn_failure e = true ->
  exists r o, step st e = conn_stop r o st.
Proof.
  intros st e Hu Hf. destruct e; try discriminate Hf; unfold step.
  - destruct (cph (cn st)); try discriminate Hu; eauto.
  - destruct (cph (cn st)); try discriminate Hu; eauto.
Qed.

(** (a), connection level: whatever was in progress on the four handles has completed once the failure has
    propagated, and both engines have stopped; the one exception is the outcome of a delivery that a
    non-closing detach of the peer left unsettled ([orphan]: known finding c14-hang-send-outcome) *)
Theorem conn_failure_quiesces : forall st e, Inv st -> conn_up (cph (cn st)) = true -> conn_failure e = true ->
  let st' := fst (step_settled st e) in
  cph (cn st') = CStopped /\ alive (sph (ss st')) = false /\ cpend (cn st') = None /\ endp (ss st') = false /\
  (lop (tx st') = None \/ (hung (tx st') /\ orphan (tx st))) /\ (lop (rx st') = None \/ (hung (rx st') /\ orphan (rx st))).
Proof.
  intros st e Hi Hu Hf st'. unfold st'. rewrite step_settled_fst.
  destruct (conn_failure_step st e Hu Hf) as (r & o & Hs).
  pose proof (step_Inv st e Hi) as Hi1. rewrite Hs in *.
  pose proof (conn_stop_effect r o st Hu) as (Hp & Ht & Hr & _).
  pose proof (prop_quiesces _ Hi1 Hp) as H. cbn zeta in H. rewrite Ht, Hr in H. exact H.
Qed.

(** the same for every event that finds the connection already stopped: no call can hang on any handle *)
Theorem settled_when_conn_stopped : forall st e, Inv st -> cph (cn st) = CStopped ->
  let st' := fst (step_settled st e) in
  cph (cn st') = CStopped /\ alive (sph (ss st')) = false /\ cpend (cn st') = None /\ endp (ss st') = false /\
  quiet (tx st') /\ quiet (rx st').
Proof.
  intros st e Hi Hp st'. unfold st'. rewrite step_settled_fst.
  pose proof (step_Inv st e Hi) as Hi1. pose proof (stopped_stays st e Hp) as Hp1.
  pose proof (prop_quiesces _ Hi1 Hp1) as (H1 & H2 & H3 & H4 & H5 & H6). cbn zeta in *.
  repeat split; auto; unfold quiet; [destruct H5 as [H|[H _]]|destruct H6 as [H|[H _]]]; auto.
Qed.

(** (a), session level *)
Theorem peer_end_quiesces : forall st e, Inv st -> cph (cn st) = COpened -> alive (sph (ss st)) = true ->
  let st' := fst (step st (EPEnd e)) in
  sph (ss st') = SStopped /\ endp (ss st') = false /\ cn st' = cn st /\
  (lop (tx st') = None \/ (hung (tx st') /\ orphan (tx st))) /\ (lop (rx st') = None \/ (hung (rx st') /\ orphan (rx st))).
Proof.
  intros st e Hi Hp Ha st'. unfold st', step. rewrite Hp.
  destruct (sph (ss st)) eqn:Hsp; try discriminate Ha.
  - match goal with |- context [sess_stop ?r ?o st] =>
      pose proof (sess_stop_links r o st) as H; rewrite Hsp in H; destruct (H eq_refl) as (Ht & Hr & H1 & H2 & _);
      rewrite Ht, Hr, H1, H2, sess_stop_cn end.
    repeat split; auto; apply stop_link_quiet.
  - match goal with |- context [sess_stop ?r ?o st] =>
      pose proof (sess_stop_links r o st) as H; rewrite Hsp in H; destruct (H eq_refl) as (Ht & Hr & H1 & H2 & _);
      rewrite Ht, Hr, H1, H2, sess_stop_cn end.
    repeat split; auto; apply stop_link_quiet.
Qed.

Lemma finish_open : forall sd h st l rs w, out_closed (cph (cn st)) = false ->
  finish sd h st (l, rs, w) = (put sd l st, map (Done h) rs).
Proof.
  intros sd h st l rs w Ho. unfold finish. destruct w; [|reflexivity].
  unfold after_write. rewrite cn_put, Ho. rewrite app_nil_r. reflexivity.
Qed.

Lemma routed_open : forall st, routed st = true -> cph (cn st) = COpened /\ alive (sph (ss st)) = true.
Proof. intros st H. unfold routed in H. destruct (cph (cn st)); try discriminate H. auto. Qed.

Lemma detach_poll : forall x l c e, blocked l ->
  let l' := fst (fst (poll x (set_route false false (set_inbox (inbox l ++ [IDetach c e]) (if c then fail_slots l else l))))) in
  lop l' = None \/ (hung l' /\ c = false) \/ (lop l = Some ODetachWait /\ c = true /\ lop l' = Some (OReattach FinDetach)).
Proof.
  intros [sm sc] [st m rl q o cr ds df] c e Hb. unfold blocked in Hb. cbn in Hb.
  unfold poll, poll_reclose, see_detach, reattach, fail_slots, hung. cbn.
  destruct o as [[]|]; cbn in *; try (destruct Hb as (-> & Hb)); try subst ds; try subst df; destruct c; cbn; auto; dvar; cbn; auto.
  all: try (right; left; split; [auto|reflexivity]; fail).
  all: try (right; right; repeat split; auto; fail).
Qed.

(** (a), link level: the operation in progress on the detached link completes in the same step; exceptions:
    a non-closing detach leaves a pending outcome pending (c14-hang-send-outcome), and a detach() answered by a
    closing detach goes on to the re-attach exchange (which the peer's answers or any stop complete) *)
Theorem peer_detach_quiesces : forall st sd c e, Inv st -> routed st = true -> mapped (get sd st) = true ->
  let l := get sd st in
  let l' := get sd (fst (step st (EPDetach sd c e))) in
  lop l' = None \/ (hung l' /\ c = false) \/ (lop l = Some ODetachWait /\ c = true /\ lop l' = Some (OReattach FinDetach)).
Proof.
  intros st sd c e Hi Hr Hm l l'. unfold l', step. rewrite Hr, Hm. cbn [andb].
  destruct (routed_open st Hr) as (Hp & Ha).
  unfold poll_link. rewrite get_put_same, ss_put.
  match goal with |- context [poll ?x ?l1] => pose proof (detach_poll x (get sd st) c e (proj1 (Inv_get sd st Hi))) as H; destruct (poll x l1) as [[l2 rs] w] end.
  rewrite finish_open by (rewrite cn_put, Hp; reflexivity). cbn [fst]. rewrite get_put_same. exact H.
Qed.

(** * (b) Calls issued after the failure complete at once *)
Lemma poll_no_write : forall c l, snd (poll (mkCtx false c) l) = false.
Proof.
  intros c [st m rl q o cr ds df]. unfold poll, poll_reclose, see_detach, reattach. cbn.
  destruct o as [[]|]; cbn; auto; dvar; cbn; auto.
Qed.

Lemma poll_link_dead : forall sd st, is_mapped (sph (ss st)) = false ->
  poll_link sd st =
  (put sd (fst (fst (poll (ctx_of (ss st)) (get sd st)))) st,
   map (Done (op_handle sd (lop (get sd st)))) (snd (fst (poll (ctx_of (ss st)) (get sd st))))).
Proof.
  intros sd st Hm. unfold poll_link.
  pose proof (poll_no_write (scell (ss st)) (get sd st)) as Hw. unfold ctx_of. rewrite Hm in *.
  destruct (poll _ (get sd st)) as [[l rs] w]. cbn in Hw. subst w. reflexivity.
Qed.

Lemma cell_err_some : forall r, exists sc e, cell_err (Some r) = RErr sc e.
Proof. intros [|e|[|e]]; cbn; eauto. Qed.

Local Arguments cell_err : simpl never.

Lemma stopped_cell : forall st, Inv st -> sph (ss st) = SStopped ->
    exists r, scell (ss st) = Some r.
  Proof.
    intros st Hi Hs. destruct Hi as (_ & ((_ & H) & _) & _). destruct (scell (ss st)); eauto. exfalso. apply H; auto.
  Qed.

  (** send() fails *)
Lemma send_after_stop : forall st, Inv st -> sph (ss st) = SStopped ->
    forall b, usable (tx st) = true ->
    exists sc e, snd (step st (ECall (CSend b))) = [Done HTx (RErr sc e)].
  Proof.
    intros st Hi Hs; assert (Hdead : alive (sph (ss st)) = false) by (rewrite Hs; reflexivity); intros b Hu. destruct (stopped_cell st Hi Hs) as (r & Hc). destruct (cell_err_some r) as (sc & e & He).
    pose proof (dead_quiet st Hi Hdead) as (_ & _ & _ & Hrt & _).
    unfold step, do_call. rewrite Hu. rewrite poll_link_dead by (rewrite ss_put, Hs; reflexivity).
    cbn [snd]. rewrite get_put_same, ss_put. unfold ctx_of. rewrite Hs, Hc.
    destruct (tx st) as [ls m rl q o cr ds df]. cbn in Hrt. subst rl.
    unfold poll, see_detach. cbn. destruct q as [|[|c' e'] q]; cbn; [rewrite He; eauto|eauto|].
    destruct ls; cbn; rewrite ?He; eauto.
  Qed.

  (** recv() fails unless a delivery had arrived before *)
Lemma recv_after_stop : forall st, Inv st -> sph (ss st) = SStopped ->
    usable (rx st) = true ->
    (exists sc e, snd (step st (ECall CRecv)) = [Done HRx (RErr sc e)]) \/
    (snd (step st (ECall CRecv)) = [Done HRx ROk] /\ exists q, inbox (rx st) = IDelivery :: q).
  Proof.
    intros st Hi Hs; assert (Hdead : alive (sph (ss st)) = false) by (rewrite Hs; reflexivity); intros Hu. destruct (stopped_cell st Hi Hs) as (r & Hc). destruct (cell_err_some r) as (sc & e & He).
    pose proof (dead_quiet st Hi Hdead) as (_ & _ & _ & _ & Hrr & _).
    unfold step, do_call. rewrite Hu. rewrite poll_link_dead by (rewrite ss_put, Hs; reflexivity).
    cbn [snd]. rewrite get_put_same, ss_put. unfold ctx_of. rewrite Hs, Hc.
    destruct (rx st) as [ls m rl q o cr ds df]. cbn in Hrr. subst rl.
    unfold poll, see_detach. cbn. destruct q as [|[|c' e'] q]; cbn; [rewrite He; eauto|right; eauto|].
    left. destruct ls; cbn; rewrite ?He; eauto.
  Qed.

  (** accept() fails *)
Lemma accept_after_stop : forall st, Inv st -> sph (ss st) = SStopped ->
    usable (rx st) = true ->
    exists sc e, snd (step st (ECall CAccept)) = [Done HRx (RErr sc e)].
  Proof.
    intros st Hi Hs; assert (Hdead : alive (sph (ss st)) = false) by (rewrite Hs; reflexivity); intros Hu. destruct (stopped_cell st Hi Hs) as (r & Hc). destruct (cell_err_some r) as (sc & e & He).
    unfold step, do_call. rewrite Hu, Hs, Hc. cbn. rewrite He. eauto.
  Qed.

  (** the outcome of an earlier batchable send: the error, or the outcome that had arrived; or the known hang *)
Lemma outcome_after_stop : forall st, Inv st -> sph (ss st) = SStopped ->
    usable (tx st) = true -> dfut (tx st) <> DNone ->
    (exists sc e, snd (step st (ECall COutcome)) = [Done HTx (RErr sc e)]) \/
    (snd (step st (ECall COutcome)) = [Done HTx ROk] /\ dfut (tx st) = DOk) \/
    (snd (step st (ECall COutcome)) = [] /\ dfut (tx st) = DUnsettled /\ mapped (tx st) = false).
  Proof.
    intros st Hi Hs; assert (Hdead : alive (sph (ss st)) = false) by (rewrite Hs; reflexivity); intros Hu Hd. destruct (stopped_cell st Hi Hs) as (r & Hc). destruct (cell_err_some r) as (sc & e & He).
    pose proof (dead_quiet st Hi Hdead) as (_ & _ & _ & _ & _ & Hmt & _).
    unfold step, do_call. rewrite Hu.
    destruct (dfut (tx st)) eqn:Hf; [contradiction Hd; reflexivity| | |].
    all: rewrite poll_link_dead by (rewrite ss_put, Hs; reflexivity).
    all: cbn [snd]; rewrite get_put_same, ss_put; unfold ctx_of; rewrite Hs, Hc.
    all: destruct (tx st) as [ls m rl q o cr ds df]; cbn in Hf, Hmt; subst df m; unfold poll; cbn; rewrite ?He; eauto 8.
  Qed.

  (** attach fails *)
Lemma attach_after_stop : forall st, Inv st -> sph (ss st) = SStopped ->
    forall sd, shandle (ss st) = true -> sgone (ss st) = false -> lst (get sd st) = LNone ->
    exists sc e, snd (step st (ECall (CAttach sd))) = [Done HSess (RErr sc e)].
  Proof.
    intros st Hi Hs; assert (Hdead : alive (sph (ss st)) = false) by (rewrite Hs; reflexivity); intros sd Hh Hg Hl. destruct (stopped_cell st Hi Hs) as (r & Hc). destruct (cell_err_some r) as (sc & e & He).
    pose proof (dead_quiet st Hi Hdead) as (Hep & _).
    unfold step, do_call. rewrite Hh, Hg, Hep, Hl, Hs, Hc. cbn. cbn in He. rewrite He. eauto.
  Qed.

  (** the teardown calls return *)
Lemma detach_after_stop : forall st, Inv st -> sph (ss st) = SStopped ->
    forall sd, usable (get sd st) = true ->
    exists r, snd (step st (ECall (CDetach sd))) = [Done (lhandle sd) r].
  Proof.
    intros st Hi Hs; assert (Hdead : alive (sph (ss st)) = false) by (rewrite Hs; reflexivity); intros sd Hu.
    assert (Hr : relay (get sd st) = false) by (pose proof (dead_quiet st Hi Hdead) as (_ & _ & _ & Hrt & Hrr & _); destruct sd; auto).
    unfold step, do_call. rewrite Hu, Hs. cbn [is_mapped].
    destruct (lst (get sd st)) eqn:Hl; cbn [snd]; eauto.
    all: rewrite poll_link_dead by (rewrite ss_put, Hs; reflexivity).
    all: cbn [snd]; rewrite get_put_same, ss_put; unfold ctx_of; rewrite Hs; cbn [is_mapped].
    all: destruct (get sd st) as [ls m rl q o cr ds df]; cbn in Hr, Hl, Hu; subst rl ls.
    all: unfold poll, reattach, op_handle; cbn; destruct (drop_to_detach q) as [[[[] ?] ?]|]; cbn; eauto.
  Qed.

Lemma close_after_stop : forall st, Inv st -> sph (ss st) = SStopped ->
    forall sd, usable (get sd st) = true ->
    exists r, snd (step st (ECall (CCloseL sd))) = [Done (lhandle sd) r].
  Proof.
    intros st Hi Hs; assert (Hdead : alive (sph (ss st)) = false) by (rewrite Hs; reflexivity); intros sd Hu.
    assert (Hr : relay (get sd st) = false) by (pose proof (dead_quiet st Hi Hdead) as (_ & _ & _ & Hrt & Hrr & _); destruct sd; auto).
    unfold step, do_call. rewrite Hu, Hs. cbn [is_mapped].
    destruct (lst (get sd st)) eqn:Hl; cbn [snd]; eauto.
    1-2: rewrite poll_link_dead by (rewrite ss_put, Hs; reflexivity).
    1-2: cbn [snd]; rewrite get_put_same, ss_put; unfold ctx_of; rewrite Hs; cbn [is_mapped].
    1-2: destruct (get sd st) as [ls m rl q o cr ds df]; cbn in Hr, Hl, Hu; subst rl ls.
    1-2: unfold poll, op_handle; cbn; destruct (drop_to_detach q) as [[[[] ?] ?]|]; cbn; eauto.
    unfold reattach, ctx_of. rewrite Hs. cbn. eauto.
  Qed.

Lemma end_after_stop : forall st, Inv st -> sph (ss st) = SStopped ->
    shandle (ss st) = true -> sgone (ss st) = false ->
    exists r, snd (step st (ECall CEnd)) = [Done HSess r].
  Proof.
    intros st Hi Hs; assert (Hdead : alive (sph (ss st)) = false) by (rewrite Hs; reflexivity); intros Hh Hg. pose proof (dead_quiet st Hi Hdead) as (Hep & _).
    unfold step, do_call. rewrite Hh, Hg, Hep, Hs. cbn. eauto.
  Qed.

(** the connection handle after the connection has stopped: close() reports what stopped the engine, begin() fails *)
Lemma conn_calls_after_stop : forall st, Inv st -> cph (cn st) = CStopped -> cgone (cn st) = false ->
  (exists o, cout (cn st) = Some o /\ snd (step st (ECall CClose)) = [Done HConn (res_of_cresult o)]) \/ cout (cn st) = None.
Proof.
  intros st Hi Hp Hg. destruct (cout (cn st)) eqn:Ho; [left|right; reflexivity].
  exists c. split; [reflexivity|]. unfold step, do_call.
  destruct Hi as ((_ & Hc2) & _). rewrite (Hc2 Hp), Hg, Hp, Ho. reflexivity.
Qed.

Lemma begin_after_conn_stop : forall st, Inv st -> cph (cn st) = CStopped -> cgone (cn st) = false -> sph (ss st) = SNone ->
  exists e, snd (step st (ECall CBegin)) = [Done HConn (RErr ScConn e)].
Proof.
  intros st Hi Hp Hg Hs. unfold step, do_call.
  destruct Hi as ((_ & Hc2) & _). rewrite (Hc2 Hp), Hg, Hs, Hp. cbn. eauto.
Qed.

(** * (c), (d) The reported level and the peer's error condition *)
Definition no_reattach (l : link) : Prop := forall f, lop l <> Some (OReattach f).

(** what the operations of a link report when the session drops it *)
Lemma stop_link_outputs : forall c sd l o, blocked l -> In o (snd (stop_link (mkCtx false (Some c)) sd l)) ->
  (exists h, o = Done h (cell_err (Some c))) \/ ((exists f, lop l = Some (OReattach f)) /\ exists h, o = Done h (RErr ScLink false)).
Proof.
  intros c sd [st m rl q o' cr ds df] o Hb. unfold blocked in Hb. cbn in Hb.
  unfold stop_link, link_stop, poll, poll_reclose, see_detach, reattach, fail_slots. cbn.
  destruct m, ds, df; cbn; destruct o' as [[]|]; cbn in *; try (destruct Hb as (-> & Hb)); try discriminate Hb; cbn; intros Hin;
    repeat (destruct Hin as [Hin|Hin]; [subst o; eauto|]); try contradiction; eauto.
Qed.

Lemma sess_stop_outputs : forall r o st, alive (sph (ss st)) = true ->
  snd (sess_stop r o st) =
  (if endp (ss st) then [Done HSess (res_of_sresult o)] else []) ++
  snd (stop_link (mkCtx false (Some (first (scell (ss st)) r))) Snd (tx st)) ++
  snd (stop_link (mkCtx false (Some (first (scell (ss st)) r))) Rcv (rx st)).
Proof.
  intros r o st Ha. unfold sess_stop. rewrite Ha.
  destruct (stop_link _ Snd (tx st)). destruct (stop_link _ Rcv (rx st)). reflexivity.
Qed.

Lemma sess_stop_scope : forall r o st h x, Inv st -> alive (sph (ss st)) = true -> scell (ss st) = None ->
  no_reattach (tx st) -> no_reattach (rx st) ->
  In (Done h x) (snd (sess_stop r o st)) -> x = res_of_sreason r.
Proof.
  intros r o st h x Hi Ha Hc Hnt Hnr Hin. rewrite sess_stop_outputs in Hin by exact Ha.
  assert (He : endp (ss st) = false).
  { destruct Hi as (_ & ((Hs1 & Hs1') & Hs2) & _). destruct (endp (ss st)); auto.
    exfalso. apply (Hs1' (or_introl (Hs2 eq_refl))). exact Hc. }
  rewrite He, Hc in Hin. cbn [first app] in Hin. apply in_app_or in Hin.
  destruct Hin as [Hin|Hin]; eapply stop_link_outputs in Hin; try (apply Hi).
  - destruct Hin as [(h' & Hd)|((f & Hf) & _)]; [inversion Hd; reflexivity|exfalso; apply (Hnt f Hf)].
  - destruct Hin as [(h' & Hd)|((f & Hf) & _)]; [inversion Hd; reflexivity|exfalso; apply (Hnr f Hf)].
Qed.

(** a connection-level failure that is not the peer's plain answer to a local close *)
Definition genuine (st : state) (e : event) (b : bool) : Prop :=
  match e with
  | ETransport _ => b = false
  | EPClose x => b = x /\ (cph (cn st) = CCloseSent -> x = true)
  | _ => False
  end.

(** (c)+(d), connection level: every operation that the failure completes, on every handle, reports the
    connection level, with the peer's error condition exactly when the peer supplied one.  Premises: the
    session's cell is still empty (the session has not stopped or started to end before: the first reason stays)
    and no link is in the middle of a re-attach (that exchange reports DetachedByRemote) *)
Theorem conn_failure_scope : forall st e b h x, Inv st -> conn_up (cph (cn st)) = true -> scell (ss st) = None ->
  no_reattach (tx st) -> no_reattach (rx st) -> genuine st e b ->
  In (Done h x) (snd (step_settled st e)) -> x = RErr ScConn b.
Proof.
  intros st e b h x Hi Hu Hc Hnt Hnr Hg Hin. rewrite step_settled_snd in Hin.
  assert (Hcc : ccell (cn st) = None).
  { destruct Hi as (((_ & H) & _) & _). destruct (ccell (cn st)) eqn:Hx; auto.
    assert (Hs : cph (cn st) = CStopped) by (apply H; discriminate). rewrite Hs in Hu. discriminate Hu. }
  assert (Hstep : exists r o, step st e = conn_stop r o st /\ creason_remote r = b /\ res_of_cresult o = RErr ScConn b).
  { destruct e; try contradiction Hg; unfold step; cbn in Hg.
    - destruct Hg as (-> & Hg). destruct (cph (cn st)) eqn:Hp; try discriminate Hu; eauto.
      rewrite (Hg eq_refl). eauto.
    - subst b. destruct (cph (cn st)) eqn:Hp; try discriminate Hu; eauto. }
  destruct Hstep as (r & o & Hs & Hr & Ho). pose proof (step_Inv st e Hi) as Hi1. rewrite Hs in *.
  apply in_app_or in Hin. destruct Hin as [Hin|Hin].
  - unfold conn_stop in Hin. rewrite Hcc in Hin. cbn [first] in Hin.
    destruct (cph (cn st)); try discriminate Hu; cbn [snd] in Hin; destruct (cpend (cn st)) as [[]|]; cbn in Hin;
      try contradiction; destruct Hin as [Hin|[]]; inversion Hin; subst; auto.
  - pose proof (conn_stop_effect r o st Hu) as (Hp & Ht & Hrx & Hcell).
    unfold step in Hin. rewrite Hp in Hin.
    destruct (alive (sph (ss (fst (conn_stop r o st))))) eqn:Ha;
      [|unfold sess_stop in Hin; rewrite Ha in Hin; contradiction].
    assert (Hss : ss (fst (conn_stop r o st)) = ss st).
    { unfold conn_stop in *. destruct (cph (cn st)); try discriminate Hu; cbn in *; destruct (sph (ss st)); auto; discriminate Ha. }
    eapply sess_stop_scope in Hin; auto; rewrite ?Hss, ?Ht, ?Hrx; auto.
    subst x. unfold cell_or_closed. rewrite Hcell, Hcc. cbn. rewrite Hr. reflexivity.
Qed.

(** (c)+(d), session level: the peer's end is reported as session-level, with its error condition, by every
    operation in progress on the session handle and on both links; the connection is untouched *)
Theorem peer_end_scope : forall st e h x, Inv st -> cph (cn st) = COpened -> sph (ss st) = SMapped ->
  no_reattach (tx st) -> no_reattach (rx st) ->
  In (Done h x) (snd (step st (EPEnd e))) -> x = RErr ScSess e /\ cn (fst (step st (EPEnd e))) = cn st.
Proof.
  intros st e h x Hi Hp Hs Hnt Hnr Hin.
  assert (Hcc : ccell (cn st) = None).
  { destruct Hi as (((_ & H) & _) & _). destruct (ccell (cn st)) eqn:Hx; auto.
    assert (Hst : cph (cn st) = CStopped) by (apply H; discriminate). rewrite Hst in Hp. discriminate Hp. }
  assert (Hc : scell (ss st) = None).
  { destruct Hi as (_ & ((H & _) & _) & _). destruct (scell (ss st)) eqn:Hx; auto.
    destruct H as [H|H]; [discriminate| |]; rewrite Hs in H; discriminate H. }
  unfold step in *. rewrite Hp, Hs, Hcc in *. split; [|apply sess_stop_cn].
  eapply sess_stop_scope in Hin; auto; [|rewrite Hs; reflexivity]. subst x. destruct e; reflexivity.
Qed.

(** (c)+(d), link level *)
Lemma poll_link_open : forall sd st, out_closed (cph (cn st)) = false ->
  poll_link sd st =
  (put sd (fst (fst (poll (ctx_of (ss st)) (get sd st)))) st,
   map (Done (op_handle sd (lop (get sd st)))) (snd (fst (poll (ctx_of (ss st)) (get sd st))))).
Proof.
  intros sd st Ho. unfold poll_link. destruct (poll _ (get sd st)) as [[l rs] w]. apply finish_open. exact Ho.
Qed.

Lemma other_put : forall sd l st, get (other sd) (put sd l st) = get (other sd) st.
Proof. intros [] l st; reflexivity. Qed.

(** The peer detaches a link: only that link's handle hears of it - the other link, the session and the
    connection stay as they were - and the operation in progress reports the link level with the peer's error.
    The exact exceptions of the code: a closing detach fails a pending outcome with an error that names no level
    and drops the peer's error (c14-peer-error-lost / c14-wrong-scope), a non-closing one leaves it pending
    (c14-hang-send-outcome); a close() crossed by a non-closing detach reports DetachedByRemote without the
    peer's error, a detach() crossed by a closing one goes on to the re-attach exchange. *)
Theorem peer_detach_scope : forall st sd c e, Inv st -> routed st = true -> mapped (get sd st) = true ->
  let st' := fst (step st (EPDetach sd c e)) in
  let o := snd (step st (EPDetach sd c e)) in
  cn st' = cn st /\ ss st' = ss st /\ get (other sd) st' = get (other sd) st /\
  (sph (ss st) = SMapped ->
   match lop (get sd st) with
   | None => o = []
   | Some (OSendCredit _) | Some ORecv => lst (get sd st) = LAttached -> o = [Done (lhandle sd) (RErr ScLink e)]
   | Some OSendOutcome | Some OOutcome => if c then o = [Done (lhandle sd) (RErr ScNone false)] else o = []
   | Some ODetachWait => if c then o = [] else o = [Done (lhandle sd) (if e then RErr ScLink true else ROk)]
   | Some OCloseWait => o = [Done (lhandle sd) (if c then (if e then RErr ScLink true else ROk) else RErr ScLink false)]
   | _ => True
   end).
Proof.
  intros st sd c e Hi Hr Hm st' o. unfold st', o, step. rewrite Hr, Hm. cbn [andb].
  destruct (routed_open st Hr) as (Hp & Ha).
  rewrite poll_link_open by (rewrite cn_put, Hp; reflexivity). cbn [fst snd].
  rewrite !cn_put, !ss_put, !other_put, get_put_same. split; [reflexivity|]. split; [reflexivity|]. split; [reflexivity|].
  intro Hs. pose proof (proj1 (Inv_get sd st Hi)) as Hb. unfold ctx_of. rewrite Hs. cbn [is_mapped].
  assert (Hc : scell (ss st) = None).
  { destruct Hi as (_ & ((H & _) & _) & _). destruct (scell (ss st)) eqn:Hx; auto.
    destruct H as [H|H]; [discriminate| |]; rewrite Hs in H; discriminate H. }
  rewrite Hc.
  destruct (get sd st) as [ls m rl q o' cr ds df]. unfold blocked in Hb. cbn in Hb, Hm |- *. subst m.
  unfold poll, poll_reclose, see_detach, reattach, fail_slots, op_handle. cbn.
  destruct o' as [[]|]; cbn in *; try (destruct Hb as (-> & Hb)); try subst ds; try subst df; destruct c; cbn; auto;
    try (intros ->; reflexivity); try reflexivity.
Qed.

(** A detach that arrived while the handle was idle is reported by the next call on that handle (and answered
    in that step).  Exceptions of the code: accept() returns Ok (c14-data-op-ok-after-failure); a detach()
    finding a closing detach and a close() finding a non-closing one report the link level without the peer's
    error (c14-peer-error-lost). *)
Theorem unseen_detach_next_call : forall st sd c e q, Inv st -> cph (cn st) = COpened -> sph (ss st) = SMapped ->
  lst (get sd st) = LAttached -> lop (get sd st) = None -> inbox (get sd st) = IDetach c e :: q ->
  (sd = Snd -> forall b, snd (step st (ECall (CSend b))) = [Done HTx (RErr ScLink e)]) /\
  (sd = Rcv -> snd (step st (ECall CRecv)) = [Done HRx (RErr ScLink e)]) /\
  (sd = Rcv -> snd (step st (ECall CAccept)) = [Done HRx ROk]) /\
  snd (step st (ECall (CDetach sd))) = [Done (lhandle sd) (if c then RErr ScLink false else if e then RErr ScLink true else ROk)] /\
  snd (step st (ECall (CCloseL sd))) = [Done (lhandle sd) (if c then (if e then RErr ScLink true else ROk) else RErr ScLink false)].
Proof.
  intros st sd c e q Hi Hp Hs Hl Ho Hq.
  assert (Hu : usable (get sd st) = true) by (unfold usable; rewrite Hl, Ho; reflexivity).
  assert (Hoc : forall l, out_closed (cph (cn (put sd l st))) = false) by (intro l; rewrite cn_put, Hp; reflexivity).
  repeat split.
  - intros -> b. unfold step, do_call. cbn [get] in *. rewrite Hu, poll_link_open by apply (Hoc _).
    cbn [snd]. rewrite get_put_same, ss_put. unfold ctx_of. rewrite Hs.
    destruct (tx st) as [ls m rl q' o' cr ds df]. cbn in Hl, Ho, Hq. subst. reflexivity.
  - intros ->. unfold step, do_call. cbn [get] in *. rewrite Hu, poll_link_open by apply (Hoc _).
    cbn [snd]. rewrite get_put_same, ss_put. unfold ctx_of. rewrite Hs.
    destruct (rx st) as [ls m rl q' o' cr ds df]. cbn in Hl, Ho, Hq. subst. reflexivity.
  - intros ->. unfold step, do_call. cbn [get] in *. rewrite Hu, Hs. cbn [is_mapped].
    unfold after_write. rewrite (Hoc (set_op None (rx st))). reflexivity.
  - unfold step, do_call. rewrite Hu, Hl, Hs, Hq. cbn [is_mapped drop_to_detach].
    destruct c.
    + rewrite finish_open by (rewrite Hp; reflexivity). reflexivity.
    + rewrite poll_link_open by apply (Hoc _). cbn [snd]. rewrite get_put_same, ss_put.
      destruct (get sd st) as [ls m rl q' o' cr ds df]. cbn in Hl, Ho, Hq. subst. reflexivity.
  - unfold step, do_call. rewrite Hu, Hl, Hs. cbn [is_mapped].
    rewrite poll_link_open by apply (Hoc _). cbn [snd]. rewrite get_put_same, ss_put.
    destruct (get sd st) as [ls m rl q' o' cr ds df]. cbn in Hl, Ho, Hq. subst. destruct c; reflexivity.
Qed.

(** ... and the calls after that one: the link is gone, the session runs, and the error names no level
    (ExpectImmediateDetach / IllegalState): known finding c14-wrong-scope *)
Theorem second_call_names_no_level : forall st sd, Inv st -> cph (cn st) = COpened -> scell (ss st) = None ->
  (lst (get sd st) = LDetached \/ lst (get sd st) = LClosed) -> lop (get sd st) = None ->
  relay (get sd st) = false -> inbox (get sd st) = [] ->
  (sd = Snd -> forall b, snd (step st (ECall (CSend b))) = [Done HTx (RErr ScNone false)]) /\
  (sd = Rcv -> snd (step st (ECall CRecv)) = [Done HRx (RErr ScNone false)]).
Proof.
  intros st sd Hi Hp Hc Hl Ho Hr Hq.
  assert (Hu : usable (get sd st) = true) by (unfold usable; rewrite Ho; destruct Hl as [-> | ->]; reflexivity).
  assert (Hoc : forall l, out_closed (cph (cn (put sd l st))) = false) by (intro l; rewrite cn_put, Hp; reflexivity).
  split.
  - intros -> b. unfold step, do_call. cbn [get] in *. rewrite Hu, poll_link_open by apply (Hoc _).
    cbn [snd]. rewrite get_put_same, ss_put. unfold ctx_of. rewrite Hc.
    destruct (tx st) as [ls m rl q' o' cr ds df]. cbn in Ho, Hq, Hr. subst. reflexivity.
  - intros ->. unfold step, do_call. cbn [get] in *. rewrite Hu, poll_link_open by apply (Hoc _).
    cbn [snd]. rewrite get_put_same, ss_put. unfold ctx_of. rewrite Hc.
    destruct (rx st) as [ls m rl q' o' cr ds df]. cbn in Ho, Hq, Hr. subst. reflexivity.
Qed.

(** (c)+(d) for the calls issued after a session or connection stop: an error that names the session or the
    connection is the reason recorded in the session's cell (level and peer's error condition); the other errors
    are link-level ones of a link that the peer had detached before (or the known level-less ones) *)
Lemma poll_dead_outputs : forall r l o, In o (snd (fst (poll (mkCtx false (Some r)) l))) ->
  o = ROk \/ o = cell_err (Some r) \/ (exists e, o = RErr ScLink e) \/ o = RErr ScNone false.
Proof.
  intros r [st m rl q o' cr ds df] o. unfold poll, poll_reclose, see_detach, reattach. cbn.
  destruct o' as [[]|]; cbn; try contradiction; dvar; cbn; intros Hin;
    repeat (destruct Hin as [Hin|Hin]; [subst o; eauto 6|]); try contradiction.
Qed.

Definition link_call (c : call) : bool := match c with COpen | CBegin | CClose | CEnd => false | _ => true end.

Lemma in_done_map : forall h h' x rs, In (Done h x) (map (Done h') rs) -> In x rs.
Proof. intros h h' x rs Hin. apply in_map_iff in Hin. destruct Hin as (y & Hy & Hin). inversion Hy; subst. exact Hin. Qed.

Theorem later_errors_name_recorded_reason : forall st r c h sc e, Inv st -> sph (ss st) = SStopped -> scell (ss st) = Some r ->
  link_call c = true -> In (Done h (RErr sc e)) (snd (step st (ECall c))) -> (sc = ScConn \/ sc = ScSess) ->
  RErr sc e = res_of_sreason r.
Proof.
  intros st r c h sc e Hi Hs Hc Hl Hin Hsc.
  assert (Hfin : forall x, (x = ROk \/ x = cell_err (Some r) \/ (exists e', x = RErr ScLink e') \/ x = RErr ScNone false) ->
                           x = RErr sc e -> RErr sc e = res_of_sreason r).
  { intros x [-> | [-> | [(e' & ->) | ->]]] Hx; try discriminate Hx.
    - symmetry. exact Hx.
    - inversion Hx; subst. destruct Hsc; discriminate.
    - inversion Hx; subst. destruct Hsc; discriminate. }
  assert (Hpl : forall sd st1, ss st1 = ss st -> In (Done h (RErr sc e)) (snd (poll_link sd st1)) -> RErr sc e = res_of_sreason r).
  { intros sd st1 Hss Hin1. rewrite poll_link_dead in Hin1 by (rewrite Hss, Hs; reflexivity). cbn [snd] in Hin1.
    apply in_done_map in Hin1. unfold ctx_of in Hin1. rewrite Hss, Hs, Hc in Hin1. cbn [is_mapped] in Hin1.
    eapply Hfin; [eapply poll_dead_outputs; exact Hin1|reflexivity]. }
  assert (Hce : cell_err (scell (ss st)) = RErr sc e -> RErr sc e = res_of_sreason r).
  { rewrite Hc. intro H. symmetry. exact H. }
  unfold step, do_call in Hin. destruct c as [| | |sd| |b| | | |sd|sd]; try discriminate Hl.
  - destruct (_ && _); [|contradiction]. destruct (lst (get sd st)); try contradiction.
    rewrite Hs, Hc in Hin. destruct Hin as [Hin|[]]. injection Hin as Hh Hx. symmetry. exact Hx.
  - destruct (usable (tx st)); [|contradiction]. eapply Hpl; [|exact Hin]. apply ss_put.
  - destruct (usable (tx st)); [|contradiction]. destruct (dfut (tx st)); try contradiction; (eapply Hpl; [|exact Hin]; apply ss_put).
  - destruct (usable (rx st)); [|contradiction]. eapply Hpl; [|exact Hin]. apply ss_put.
  - destruct (usable (rx st)); [|contradiction]. rewrite Hs in Hin. cbn in Hin. destruct Hin as [Hin|[]].
    injection Hin as Hh Hx. apply Hce. exact Hx.
  - destruct (usable (get sd st)); [|contradiction]. rewrite Hs in Hin. cbn [is_mapped] in Hin.
    destruct (lst (get sd st)); cbn [snd] in Hin; try (destruct Hin as [Hin|[]]; injection Hin as Hh Hx; first [discriminate Hx | (subst sc; destruct Hsc; discriminate) | (apply Hce; exact Hx)]).
    + eapply Hpl; [|exact Hin]. apply ss_put.
    + eapply Hpl; [|exact Hin]. apply ss_put.
  - destruct (usable (get sd st)); [|contradiction]. rewrite Hs in Hin. cbn [is_mapped] in Hin.
    destruct (lst (get sd st)); cbn [snd] in Hin; try (destruct Hin as [Hin|[]]; injection Hin as Hh Hx; first [discriminate Hx | (subst sc; destruct Hsc; discriminate) | (apply Hce; exact Hx)]).
    + eapply Hpl; [|exact Hin]. apply ss_put.
    + eapply Hpl; [|exact Hin]. apply ss_put.
    + unfold reattach, ctx_of in Hin. rewrite Hs in Hin. cbn in Hin. destruct Hin as [Hin|[]]. injection Hin as Hh Hx1 Hx2. subst sc. destruct Hsc; discriminate.
Qed.

(** * (e) The stop-reason cells *)
Lemma sess_stop_keeps : forall a o st r, scell (ss st) = Some r -> scell (ss (fst (sess_stop a o st))) = Some r.
Proof.
  intros a o st r Hc. unfold sess_stop. destruct (alive (sph (ss st))); [|exact Hc].
  destruct (stop_link _ Snd (tx st)). destruct (stop_link _ Rcv (rx st)). cbn. rewrite Hc. reflexivity.
Qed.
Lemma after_write_keeps : forall st r, scell (ss st) = Some r -> scell (ss (fst (after_write st))) = Some r.
Proof. intros st r Hc. unfold after_write. destruct (out_closed _); [apply sess_stop_keeps|]; exact Hc. Qed.
Lemma finish_keeps : forall sd h st p r, scell (ss st) = Some r -> scell (ss (fst (finish sd h st p))) = Some r.
Proof.
  intros sd h st [[l rs] w] r Hc. unfold finish. destruct w; [|cbn [fst]; rewrite ss_put; exact Hc].
  pose proof (after_write_keeps (put sd l st) r) as H. rewrite ss_put in H. specialize (H Hc).
  destruct (after_write (put sd l st)). exact H.
Qed.
Lemma poll_link_keeps : forall sd st r, scell (ss st) = Some r -> scell (ss (fst (poll_link sd st))) = Some r.
Proof. intros sd st r Hc. unfold poll_link. apply finish_keeps. exact Hc. Qed.

Lemma stopped_cell_same : forall st e, cph (cn st) = CStopped -> ccell (cn (fst (step st e))) = ccell (cn st).
Proof.
  intros st e Hp. destruct e as [c| | |sd| |f| |sd c e|e|e|k|]; unfold step; rewrite ?Hp; auto.
  - destruct c as [| | |sd| |b| | | |sd|sd]; unfold do_call; rewrite ?Hp; auto.
    + destruct (cpend (cn st)), (cgone (cn st)), (sph (ss st)); auto.
    + destruct (cpend (cn st)), (cgone (cn st)); auto.
    + destruct (_ && _); auto. destruct (lst (get sd st)); auto. destruct (sph (ss st)); cnsimp.
    + destruct (_ && _); auto. destruct (sph (ss st)); cnsimp.
    + destruct (usable (tx st)); cnsimp.
    + destruct (usable (tx st)); auto. destruct (dfut (tx st)); cnsimp.
    + destruct (usable (rx st)); cnsimp.
    + destruct (usable (rx st)); auto. destruct (is_mapped (sph (ss st))); auto.
      pose proof (after_write_cn (put Rcv (set_op None (rx st)) st)) as H. destruct (after_write _). cbn in *. rewrite H. reflexivity.
    + destruct (usable (get sd st)); auto. destruct (lst (get sd st)); cnsimp.
      destruct (is_mapped (sph (ss st))); cnsimp.
      destruct (drop_to_detach (inbox (get sd st))) as [[[[] ?] ?]|]; cnsimp.
    + destruct (usable (get sd st)); auto. destruct (lst (get sd st)); cnsimp.
      destruct (is_mapped (sph (ss st))); cnsimp.
  - destruct (_ && _); auto. destruct (lop (get sd st)) as [[]|]; cnsimp.
  - destruct (_ && _); cnsimp.
  - destruct (_ && _); cnsimp.
  - destruct (_ && _); cnsimp.
  - destruct (_ && _); cnsimp.
  - unfold conn_stop. rewrite Hp. auto.
  - cnsimp.
Qed.

(** the cells are written at most once: the first reason stays *)
Theorem cells_write_once : forall st e, Inv st ->
  (forall r, ccell (cn st) = Some r -> ccell (cn (fst (step st e))) = Some r) /\
  (forall r, scell (ss st) = Some r -> scell (ss (fst (step st e))) = Some r).
Proof.
  intros st e Hi. split.
  - intros r Hc. assert (Hp : cph (cn st) = CStopped).
    { destruct Hi as (((_ & H) & _) & _). apply H. rewrite Hc. discriminate. }
    rewrite stopped_cell_same by exact Hp. exact Hc.
  - intros r Hc.
    assert (Hph : sph (ss st) = SEndSent \/ sph (ss st) = SStopped).
    { destruct Hi as (_ & ((H & _) & _) & _). apply H. rewrite Hc. discriminate. }
    assert (Hx : forall A (x : A), sph (ss st) = SNone \/ sph (ss st) = SBeginSent \/ sph (ss st) = SMapped -> x = x -> False).
    { intros A x [H|[H|H]] _; rewrite H in Hph; destruct Hph; discriminate. }
    destruct e as [c| | |sd| |f| |sd c e|e|e|k|]; unfold step; auto.
    + destruct c as [| | |sd| |b| | | |sd|sd]; unfold do_call; auto.
      * destruct (cph (cn st)); auto. destruct (cgone (cn st)); auto.
      * destruct (cpend (cn st)); auto. destruct (cgone (cn st)); auto. destruct (sph (ss st)) eqn:Hs; auto.
        exfalso. destruct Hph; discriminate.
      * destruct (cpend (cn st)); auto. destruct (cgone (cn st)); auto. destruct (cph (cn st)); auto.
      * destruct (_ && _); auto. destruct (lst (get sd st)); auto. destruct (sph (ss st)); auto.
        apply after_write_keeps. rewrite ss_put. exact Hc.
      * destruct (_ && _); auto. destruct (sph (ss st)); auto.
        apply after_write_keeps. cbn. rewrite Hc. reflexivity.
      * destruct (usable (tx st)); auto. apply poll_link_keeps. rewrite ss_put. exact Hc.
      * destruct (usable (tx st)); auto. destruct (dfut (tx st)); auto; apply poll_link_keeps; rewrite ss_put; exact Hc.
      * destruct (usable (rx st)); auto. apply poll_link_keeps. rewrite ss_put. exact Hc.
      * destruct (usable (rx st)); auto. destruct (is_mapped (sph (ss st))); auto.
        pose proof (after_write_keeps (put Rcv (set_op None (rx st)) st) r Hc) as H. destruct (after_write _). exact H.
      * destruct (usable (get sd st)); auto. destruct (lst (get sd st)); cbn [fst]; rewrite ?ss_put; auto.
        -- destruct (is_mapped (sph (ss st))); cbn [fst]; rewrite ?ss_put; auto.
           destruct (drop_to_detach (inbox (get sd st))) as [[[[] ?] ?]|];
             [apply finish_keeps; exact Hc|apply poll_link_keeps; rewrite ss_put; exact Hc|apply poll_link_keeps; rewrite ss_put; exact Hc].
        -- apply poll_link_keeps; rewrite ss_put; exact Hc.
        -- apply poll_link_keeps; rewrite ss_put; exact Hc.
      * destruct (usable (get sd st)); auto. destruct (lst (get sd st)); cbn [fst]; rewrite ?ss_put; auto.
        -- destruct (is_mapped (sph (ss st))); cbn [fst]; rewrite ?ss_put; auto. apply poll_link_keeps; rewrite ss_put; exact Hc.
        -- apply poll_link_keeps; rewrite ss_put; exact Hc.
        -- apply poll_link_keeps; rewrite ss_put; exact Hc.
        -- apply finish_keeps; exact Hc.
    + destruct (cph (cn st)); auto.
    + destruct (cph (cn st)); auto. destruct (sph (ss st)) eqn:Hs; auto. exfalso. destruct Hph; discriminate.
    + destruct (_ && _); auto. destruct (lop (get sd st)) as [[]|]; auto; apply finish_keeps; exact Hc.
    + destruct (_ && _); auto. apply poll_link_keeps; rewrite ss_put; exact Hc.
    + destruct (_ && _); auto. apply poll_link_keeps; rewrite ss_put; exact Hc.
    + destruct (_ && _); auto. apply poll_link_keeps; rewrite ss_put; exact Hc.
    + destruct (_ && _); auto. apply poll_link_keeps; rewrite ss_put; exact Hc.
    + destruct (cph (cn st)); auto. destruct (sph (ss st)) eqn:Hs; auto; try (apply sess_stop_keeps; exact Hc).
      exfalso. destruct Hph; discriminate.
    + assert (Hcs : forall a o, scell (ss (fst (conn_stop a o st))) = Some r).
      { intros a o. unfold conn_stop. destruct (cph (cn st)); auto; cbn; destruct (sph (ss st)); auto. }
      destruct (cph (cn st)); auto.
    + assert (Hcs : forall a o, scell (ss (fst (conn_stop a o st))) = Some r).
      { intros a o. unfold conn_stop. destruct (cph (cn st)); auto; cbn; destruct (sph (ss st)); auto. }
      destruct (cph (cn st)); auto.
    + destruct (cph (cn st)); auto. apply sess_stop_keeps; exact Hc.
Qed.

(** ... and they are written before the channels close: a stopped engine has its cell set, the session's cell is
    set from the moment its link-frame channel is closed, a stopped session has dropped its relays; so no
    operation that a stop completes reports an error without level *)
Theorem cells_set_when_closed : forall st, Inv st ->
  (cph (cn st) = CStopped -> ccell (cn st) <> None) /\
  ((sph (ss st) = SEndSent \/ sph (ss st) = SStopped) -> scell (ss st) <> None) /\
  (sph (ss st) = SStopped -> relay (tx st) = false /\ relay (rx st) = false).
Proof.
  intros st Hi. pose proof Hi as (((H1 & _) & _) & ((_ & H2) & _) & _).
  split; [exact H1|]. split; [exact H2|].
  intro Hs. assert (Ha : alive (sph (ss st)) = false) by (rewrite Hs; reflexivity).
  pose proof (dead_quiet st Hi Ha) as (_ & _ & _ & Ht & Hr & _). split; assumption.
Qed.

Definition stop_event (e : event) : bool :=
  match e with ETransport _ | EPClose _ | EPEnd _ | EProp => true | _ => false end.

Lemma named_sresult : forall o sc b, res_of_sresult o = RErr sc b -> sc <> ScNone.
Proof. intros [|e] sc b H; cbn in H; [discriminate H|]. injection H as <- _. discriminate. Qed.
Lemma named_cresult : forall o sc b, res_of_cresult o = RErr sc b -> sc <> ScNone.
Proof. intros [| |e] sc b H; cbn in H; [discriminate H| |]; injection H as <- _; discriminate. Qed.
Lemma named_cell : forall c sc b, cell_err (Some c) = RErr sc b -> sc <> ScNone.
Proof. intros [|e|[|e]] sc b H; unfold cell_err in H; cbn in H; injection H as <- _; discriminate. Qed.

Theorem stop_never_unnamed : forall st e h sc b, Inv st -> stop_event e = true ->
  In (Done h (RErr sc b)) (snd (step st e)) -> sc <> ScNone.
Proof.
  intros st e h sc b Hi He Hin.
  assert (Hss : forall a o, In (Done h (RErr sc b)) (snd (sess_stop a o st)) -> sc <> ScNone).
  { intros a o H. destruct (alive (sph (ss st))) eqn:Ha; [|unfold sess_stop in H; rewrite Ha in H; contradiction].
    rewrite sess_stop_outputs in H by exact Ha.
    apply in_app_or in H. destruct H as [H|H].
    - destruct (endp (ss st)); [|contradiction]. destruct H as [H|[]]. injection H as Hh Hx. eapply named_sresult; exact Hx.
    - apply in_app_or in H. destruct H as [H|H]; eapply stop_link_outputs in H; try apply Hi.
      + destruct H as [(h' & Hd)|(_ & (h' & Hd))]; injection Hd as Hh Hx.
        * eapply named_cell. symmetry. exact Hx.
        * subst sc. discriminate.
      + destruct H as [(h' & Hd)|(_ & (h' & Hd))]; injection Hd as Hh Hx.
        * eapply named_cell. symmetry. exact Hx.
        * subst sc. discriminate. }
  assert (Hcs : forall a o, In (Done h (RErr sc b)) (snd (conn_stop a o st)) -> sc <> ScNone).
  { intros a o H. unfold conn_stop in H. destruct (cph (cn st)); try contradiction; cbn [snd] in H;
      destruct (cpend (cn st)) as [[]|]; try contradiction; destruct H as [H|[]]; injection H as Hh Hx;
      first [eapply named_cresult; exact Hx | (subst sc; discriminate)]. }
  destruct e; try discriminate He; unfold step in Hin.
  - destruct (cph (cn st)); try contradiction. destruct (sph (ss st)); try contradiction; eauto.
    destruct Hin as [Hin|[]]. injection Hin as Hh Hx Hy. subst sc. discriminate.
  - destruct (cph (cn st)); try contradiction; eauto.
  - destruct (cph (cn st)); try contradiction; eauto.
  - destruct (cph (cn st)); try contradiction; eauto.
Qed.

(** * Witnesses (non-vacuity) *)
(** the conversation up to both links attached, the sender with credit *)
Definition ex_pre : list event :=
  [ECall COpen; EPOpen; ECall CBegin; EPBegin; ECall (CAttach Snd); EPAttach Snd; EPFlow; ECall (CAttach Rcv); EPAttach Rcv].
Definition ex_up : state := fst (run init ex_pre).
(** ... a send awaiting its outcome and a recv in progress *)
Definition ex_busy : state := fst (run ex_up [ECall (CSend false); ECall CRecv]).

Lemma ex_up_reachable : reachable ex_up /\ reachable ex_busy.
Proof. split; [exists ex_pre|exists (ex_pre ++ [ECall (CSend false); ECall CRecv])]; reflexivity. Qed.

Lemma ex_reference_ok :
  snd (run init ex_pre) = [[]; [Done HConn ROk]; []; [Done HConn ROk]; []; [Done HSess ROk]; []; []; [Done HSess ROk]] /\
  snd (run ex_up [ECall (CSend false); EPSettle false; EPTransfer; ECall CRecv; ECall CAccept; ECall (CDetach Snd); EPDetach Snd false false;
                  ECall (CCloseL Rcv); EPDetach Rcv true false; ECall CEnd; EPEnd false; ECall CClose; EPClose false]) =
  [[]; [Done HTx ROk]; []; [Done HRx ROk]; [Done HRx ROk]; []; [Done HTx ROk]; []; [Done HRx ROk]; []; [Done HSess ROk]; []; [Done HConn ROk]].
Proof. split; vm_compute; reflexivity. Qed.

(** (a): two operations are in progress, the transport breaks, the failure propagates: both have failed with a
    connection-level error, every later call fails at once (b), end() returns, close() reports the error *)
Lemma ex_transport_cut :
  lop (tx ex_busy) = Some OSendOutcome /\ lop (rx ex_busy) = Some ORecv /\ conn_up (cph (cn ex_busy)) = true /\
  snd (run ex_busy [ETransport TEof; EProp; ECall (CSend false); ECall CRecv; ECall CAccept; ECall (CDetach Snd); ECall CEnd; ECall CClose]) =
  [[]; [Done HTx (RErr ScConn false); Done HRx (RErr ScConn false)]; [Done HTx (RErr ScConn false)]; [Done HRx (RErr ScConn false)];
   [Done HRx (RErr ScConn false)]; [Done HTx (RErr ScConn false)]; [Done HSess ROk]; [Done HConn (RErr ScConn false)]] /\
  lop (tx (fst (step_settled ex_busy (ETransport TEof)))) = None /\ lop (rx (fst (step_settled ex_busy (ETransport TEof)))) = None.
Proof. repeat split; vm_compute; reflexivity. Qed.

(** the exception of (a): a non-closing detach of the peer leaves the outcome pending for good *)
Lemma ex_orphan_hang :
  let st := fst (run ex_up [ECall (CSend false); EPDetach Snd false true]) in
  orphan (tx st) /\ lop (tx (fst (step_settled st (ETransport TEof)))) = Some OSendOutcome /\
  snd (run ex_up [ECall (CSend false); EPDetach Snd false true; ETransport TEof; EProp]) = [[]; []; []; []].
Proof. cbv zeta. split; [split; [|left]|split]; vm_compute; reflexivity. Qed.

(** (c), (d): the peer closes with an error: every handle reports the connection level and the error *)
Lemma ex_peer_close_error :
  snd (run ex_busy [EPClose true; EProp; ECall CAccept; ECall (CDetach Snd); ECall CEnd; ECall CClose]) =
  [[]; [Done HTx (RErr ScConn true); Done HRx (RErr ScConn true)]; [Done HRx (RErr ScConn true)]; [Done HTx (RErr ScConn true)];
   [Done HSess ROk]; [Done HConn (RErr ScConn true)]] /\
  scell (ss ex_busy) = None /\ no_reattach (tx ex_busy) /\ no_reattach (rx ex_busy) /\ genuine ex_busy (EPClose true) true.
Proof. repeat split; try (vm_compute; reflexivity); try (intros f; vm_compute; discriminate); try (intros H; vm_compute in H; discriminate H). Qed.

(** the peer ends the session with an error: session level on the session's handles, the connection goes on *)
Lemma ex_peer_end_error :
  snd (run ex_busy [EPEnd true; ECall (CSend true); ECall CEnd; ECall CClose; EPClose false]) =
  [[Done HTx (RErr ScSess true); Done HRx (RErr ScSess true)]; [Done HTx (RErr ScSess true)]; [Done HSess (RErr ScSess true)]; []; [Done HConn ROk]] /\
  cph (cn ex_busy) = COpened /\ sph (ss ex_busy) = SMapped.
Proof. repeat split; vm_compute; reflexivity. Qed.

(** the peer closes the receiving link with an error: only the receiver hears of it, the sender, the session and
    the connection go on to a clean end; the second recv() names no level (known finding) *)
Lemma ex_peer_detach_error :
  snd (run ex_up [ECall CRecv; EPDetach Rcv true true; ECall CRecv; ECall (CSend false); EPSettle false; ECall (CCloseL Rcv);
                  ECall (CDetach Snd); EPDetach Snd false false; ECall CEnd; EPEnd false; ECall CClose; EPClose false]) =
  [[]; [Done HRx (RErr ScLink true)]; [Done HRx (RErr ScNone false)]; []; [Done HTx ROk]; [Done HRx ROk]; []; [Done HTx ROk]; [];
   [Done HSess ROk]; []; [Done HConn ROk]] /\
  routed (fst (run ex_up [ECall CRecv])) = true /\ mapped (rx (fst (run ex_up [ECall CRecv]))) = true.
Proof. repeat split; vm_compute; reflexivity. Qed.

(** exceptions at link level: a closing detach fails the pending outcome without level and without the peer's
    error; accept() after the detach returns Ok, close() after a non-closing detach loses the peer's error; a
    detach() crossing a closing detach runs the re-attach exchange and reports ClosedByRemote *)
Lemma ex_link_exceptions :
  snd (run ex_up [ECall (CSend false); EPDetach Snd true true]) = [[]; [Done HTx (RErr ScNone false)]] /\
  snd (run ex_up [EPDetach Rcv false true; ECall CAccept; ECall (CCloseL Rcv)]) = [[]; [Done HRx ROk]; [Done HRx (RErr ScLink false)]] /\
  snd (run ex_up [ECall (CDetach Snd); EPDetach Snd true true; EPAttach Snd; EPDetach Snd true false]) = [[]; []; []; [Done HTx (RErr ScLink false)]].
Proof. repeat split; vm_compute; reflexivity. Qed.

(** (e): the first reason stays - a session ended by the peer keeps reporting that after the transport has
    failed as well; a link-level error that nobody has looked at is superseded by the later connection failure
    (known finding c14-peer-error-lost-after-pipe-drop) *)
Lemma ex_first_reason_stays :
  snd (run ex_up [EPEnd true; ETransport TReset; EProp; ECall (CSend false); ECall CClose]) =
  [[]; []; []; [Done HTx (RErr ScSess true)]; [Done HConn (RErr ScConn false)]] /\
  scell (ss (fst (run ex_up [EPEnd true; ETransport TReset; EProp]))) = Some (SRemoteEnded true) /\
  snd (run ex_up [EPDetach Snd true true; ETransport TEof; EProp; ECall (CSend false)]) = [[]; []; []; [Done HTx (RErr ScConn false)]].
Proof. repeat split; vm_compute; reflexivity. Qed.

(** the code's gap in (e): a local close() closes the session-frame channel before the connection's cell is
    written; a session that writes then reports ConnectionStopped(Closed) by the fallback, and keeps it although
    the peer answers the close with an error *)
Lemma ex_local_close_gap :
  let st := fst (run ex_up [ECall CClose; ECall (CSend false); EPClose true]) in
  snd (run ex_up [ECall CClose; ECall (CSend false); EPClose true]) = [[]; [Done HTx (RErr ScConn false)]; [Done HConn (RErr ScConn true)]] /\
  ccell (cn st) = Some (CRemoteClosed true) /\ scell (ss st) = Some (SConnStopped CClosed).
Proof. cbv zeta. repeat split; vm_compute; reflexivity. Qed.

(** * The statements over reachable states (Props/C14.v) *)
Theorem R_conn_failure_quiesces : forall st e, reachable st -> conn_up (cph (cn st)) = true -> conn_failure e = true ->
  let st' := fst (step_settled st e) in
  cph (cn st') = CStopped /\ alive (sph (ss st')) = false /\ cpend (cn st') = None /\ endp (ss st') = false /\
  (lop (tx st') = None \/ (hung (tx st') /\ orphan (tx st))) /\ (lop (rx st') = None \/ (hung (rx st') /\ orphan (rx st))).
Proof. intros st e Hr. apply conn_failure_quiesces. apply reachable_Inv. exact Hr. Qed.

Theorem R_settled_when_conn_stopped : forall st e, reachable st -> cph (cn st) = CStopped ->
  let st' := fst (step_settled st e) in
  cph (cn st') = CStopped /\ alive (sph (ss st')) = false /\ cpend (cn st') = None /\ endp (ss st') = false /\
  quiet (tx st') /\ quiet (rx st').
Proof. intros st e Hr. apply settled_when_conn_stopped. apply reachable_Inv. exact Hr. Qed.

Theorem R_peer_end_quiesces : forall st e, reachable st -> cph (cn st) = COpened -> alive (sph (ss st)) = true ->
  let st' := fst (step st (EPEnd e)) in
  sph (ss st') = SStopped /\ endp (ss st') = false /\ cn st' = cn st /\
  (lop (tx st') = None \/ (hung (tx st') /\ orphan (tx st))) /\ (lop (rx st') = None \/ (hung (rx st') /\ orphan (rx st))).
Proof. intros st e Hr. apply peer_end_quiesces. apply reachable_Inv. exact Hr. Qed.

Theorem R_peer_detach_quiesces : forall st sd c e, reachable st -> routed st = true -> mapped (get sd st) = true ->
  let l := get sd st in
  let l' := get sd (fst (step st (EPDetach sd c e))) in
  lop l' = None \/ (hung l' /\ c = false) \/ (lop l = Some ODetachWait /\ c = true /\ lop l' = Some (OReattach FinDetach)).
Proof. intros st sd c e Hr. apply peer_detach_quiesces. apply reachable_Inv. exact Hr. Qed.

Theorem R_calls_after_session_stop : forall st, reachable st -> sph (ss st) = SStopped ->
  (forall b, usable (tx st) = true -> exists sc e, snd (step st (ECall (CSend b))) = [Done HTx (RErr sc e)]) /\
  (usable (rx st) = true ->
     (exists sc e, snd (step st (ECall CRecv)) = [Done HRx (RErr sc e)]) \/
     (snd (step st (ECall CRecv)) = [Done HRx ROk] /\ exists q, inbox (rx st) = IDelivery :: q)) /\
  (usable (rx st) = true -> exists sc e, snd (step st (ECall CAccept)) = [Done HRx (RErr sc e)]) /\
  (usable (tx st) = true -> dfut (tx st) <> DNone ->
     (exists sc e, snd (step st (ECall COutcome)) = [Done HTx (RErr sc e)]) \/
     (snd (step st (ECall COutcome)) = [Done HTx ROk] /\ dfut (tx st) = DOk) \/
     (snd (step st (ECall COutcome)) = [] /\ dfut (tx st) = DUnsettled /\ mapped (tx st) = false)) /\
  (forall sd, shandle (ss st) = true -> sgone (ss st) = false -> lst (get sd st) = LNone ->
     exists sc e, snd (step st (ECall (CAttach sd))) = [Done HSess (RErr sc e)]) /\
  (forall sd, usable (get sd st) = true -> exists r, snd (step st (ECall (CDetach sd))) = [Done (lhandle sd) r]) /\
  (forall sd, usable (get sd st) = true -> exists r, snd (step st (ECall (CCloseL sd))) = [Done (lhandle sd) r]) /\
  (shandle (ss st) = true -> sgone (ss st) = false -> exists r, snd (step st (ECall CEnd)) = [Done HSess r]).
Proof.
  intros st Hr Hs. pose proof (reachable_Inv st Hr) as Hi.
  split; [intros b; apply send_after_stop; assumption|].
  split; [apply recv_after_stop; assumption|].
  split; [apply accept_after_stop; assumption|].
  split; [apply outcome_after_stop; assumption|].
  split; [intros sd; apply attach_after_stop; assumption|].
  split; [intros sd; apply detach_after_stop; assumption|].
  split; [intros sd; apply close_after_stop; assumption|apply end_after_stop; assumption].
Qed.

Theorem R_conn_handle_after_stop : forall st, reachable st -> cph (cn st) = CStopped -> cgone (cn st) = false ->
  ((exists o, cout (cn st) = Some o /\ snd (step st (ECall CClose)) = [Done HConn (res_of_cresult o)]) \/ cout (cn st) = None) /\
  (sph (ss st) = SNone -> exists e, snd (step st (ECall CBegin)) = [Done HConn (RErr ScConn e)]).
Proof.
  intros st Hr Hp Hg. pose proof (reachable_Inv st Hr) as Hi.
  split; [apply conn_calls_after_stop; assumption|intro Hs; apply begin_after_conn_stop; assumption].
Qed.

Theorem R_conn_failure_scope : forall st e b h x, reachable st -> conn_up (cph (cn st)) = true -> scell (ss st) = None ->
  no_reattach (tx st) -> no_reattach (rx st) -> genuine st e b ->
  In (Done h x) (snd (step_settled st e)) -> x = RErr ScConn b.
Proof. intros st e b h x Hr. apply conn_failure_scope. apply reachable_Inv. exact Hr. Qed.

Theorem R_peer_end_scope : forall st e h x, reachable st -> cph (cn st) = COpened -> sph (ss st) = SMapped ->
  no_reattach (tx st) -> no_reattach (rx st) ->
  In (Done h x) (snd (step st (EPEnd e))) -> x = RErr ScSess e /\ cn (fst (step st (EPEnd e))) = cn st.
Proof. intros st e h x Hr. apply peer_end_scope. apply reachable_Inv. exact Hr. Qed.

Theorem R_peer_detach_scope : forall st sd c e, reachable st -> routed st = true -> mapped (get sd st) = true ->
  let st' := fst (step st (EPDetach sd c e)) in
  let o := snd (step st (EPDetach sd c e)) in
  cn st' = cn st /\ ss st' = ss st /\ get (other sd) st' = get (other sd) st /\
  (sph (ss st) = SMapped ->
   match lop (get sd st) with
   | None => o = []
   | Some (OSendCredit _) | Some ORecv => lst (get sd st) = LAttached -> o = [Done (lhandle sd) (RErr ScLink e)]
   | Some OSendOutcome | Some OOutcome => if c then o = [Done (lhandle sd) (RErr ScNone false)] else o = []
   | Some ODetachWait => if c then o = [] else o = [Done (lhandle sd) (if e then RErr ScLink true else ROk)]
   | Some OCloseWait => o = [Done (lhandle sd) (if c then (if e then RErr ScLink true else ROk) else RErr ScLink false)]
   | _ => True
   end).
Proof. intros st sd c e Hr. apply peer_detach_scope. apply reachable_Inv. exact Hr. Qed.

Theorem R_unseen_detach_next_call : forall st sd c e q, reachable st -> cph (cn st) = COpened -> sph (ss st) = SMapped ->
  lst (get sd st) = LAttached -> lop (get sd st) = None -> inbox (get sd st) = IDetach c e :: q ->
  (sd = Snd -> forall b, snd (step st (ECall (CSend b))) = [Done HTx (RErr ScLink e)]) /\
  (sd = Rcv -> snd (step st (ECall CRecv)) = [Done HRx (RErr ScLink e)]) /\
  (sd = Rcv -> snd (step st (ECall CAccept)) = [Done HRx ROk]) /\
  snd (step st (ECall (CDetach sd))) = [Done (lhandle sd) (if c then RErr ScLink false else if e then RErr ScLink true else ROk)] /\
  snd (step st (ECall (CCloseL sd))) = [Done (lhandle sd) (if c then (if e then RErr ScLink true else ROk) else RErr ScLink false)].
Proof. intros st sd c e q Hr. apply unseen_detach_next_call. apply reachable_Inv. exact Hr. Qed.

Theorem R_second_call_names_no_level : forall st sd, reachable st -> cph (cn st) = COpened -> scell (ss st) = None ->
  (lst (get sd st) = LDetached \/ lst (get sd st) = LClosed) -> lop (get sd st) = None ->
  relay (get sd st) = false -> inbox (get sd st) = [] ->
  (sd = Snd -> forall b, snd (step st (ECall (CSend b))) = [Done HTx (RErr ScNone false)]) /\
  (sd = Rcv -> snd (step st (ECall CRecv)) = [Done HRx (RErr ScNone false)]).
Proof. intros st sd Hr. apply second_call_names_no_level. apply reachable_Inv. exact Hr. Qed.

Theorem R_later_errors_name_recorded_reason : forall st r c h sc e, reachable st -> sph (ss st) = SStopped -> scell (ss st) = Some r ->
  link_call c = true -> In (Done h (RErr sc e)) (snd (step st (ECall c))) -> (sc = ScConn \/ sc = ScSess) ->
  RErr sc e = res_of_sreason r.
Proof. intros st r c h sc e Hr. apply later_errors_name_recorded_reason. apply reachable_Inv. exact Hr. Qed.

Theorem R_cells_write_once : forall st e, reachable st ->
  (forall r, ccell (cn st) = Some r -> ccell (cn (fst (step st e))) = Some r) /\
  (forall r, scell (ss st) = Some r -> scell (ss (fst (step st e))) = Some r).
Proof. intros st e Hr. apply cells_write_once. apply reachable_Inv. exact Hr. Qed.

Theorem R_cells_set_when_closed : forall st, reachable st ->
  (cph (cn st) = CStopped -> ccell (cn st) <> None) /\
  ((sph (ss st) = SEndSent \/ sph (ss st) = SStopped) -> scell (ss st) <> None) /\
  (sph (ss st) = SStopped -> relay (tx st) = false /\ relay (rx st) = false).
Proof. intros st Hr. apply cells_set_when_closed. apply reachable_Inv. exact Hr. Qed.

Theorem R_stop_never_unnamed : forall st e h sc b, reachable st -> stop_event e = true ->
  In (Done h (RErr sc b)) (snd (step st e)) -> sc <> ScNone.
Proof. intros st e h sc b Hr. apply stop_never_unnamed. apply reachable_Inv. exact Hr. Qed.
