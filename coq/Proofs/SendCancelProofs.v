(** Proofs about the send-cancellation model (Link/SendCancel.v). *)
From Coq Require Import List NArith Bool Lia Sorted Arith PeanoNat.
From FV Require Import Link.SendCancel.
Import ListNotations.
Open Scope N_scope.

(** ** whole deliveries *)

Lemma whole_from_app a : forall e b, whole_from e a = true -> whole_from e (a ++ b) = whole_from None b.
Proof.
  induction a as [|f a IH]; intros e b H; cbn [app whole_from] in *.
  - destruct e; [discriminate|reflexivity].
  - destruct e as [[t i]|].
    + apply andb_true_iff in H as [H1 H2]. rewrite H1. cbn [andb]. apply IH. exact H2.
    + apply andb_true_iff in H as [H1 H2]. rewrite H1. cbn [andb]. apply IH. exact H2.
Qed.

Lemma whole_app a b : whole a = true -> whole b = true -> whole (a ++ b) = true.
Proof. unfold whole. intros Ha Hb. rewrite (whole_from_app a None b Ha). exact Hb. Qed.

Lemma whole_pieces t m : forall n i, (1 <= n)%nat ->
  whole_from (match i with O => None | S _ => Some (t, i) end) (pieces_from t m i n) = true.
Proof.
  induction n as [|n IH]; intros i Hn; [lia|].
  cbn [pieces_from whole_from f_idx f_tag f_more].
  destruct n as [|n'].
  - cbn [Nat.eqb negb pieces_from whole_from]. destruct i as [|j]; cbn [f_idx f_tag].
    + reflexivity.
    + rewrite N.eqb_refl, Nat.eqb_refl. reflexivity.
  - cbn [Nat.eqb negb]. destruct i as [|j].
    + cbn [Nat.eqb andb]. apply (IH 1%nat). lia.
    + rewrite N.eqb_refl, Nat.eqb_refl. cbn [andb]. apply (IH (S (S j))). lia.
Qed.

Lemma whole_delivery t m n : (1 <= n)%nat -> whole (delivery t m n) = true.
Proof. intros H. unfold whole, delivery. exact (whole_pieces t m n 0%nat H). Qed.

(** ** first frames (one per delivery begun) *)

Definition is_first (f : frame) : bool := Nat.eqb (f_idx f) 0.
Definition first_tags (fs : list frame) : list N := map f_tag (filter is_first fs).
Definition first_msgs (fs : list frame) : list N := map f_msg (filter is_first fs).

Lemma first_tags_app a b : first_tags (a ++ b) = first_tags a ++ first_tags b.
Proof. unfold first_tags. rewrite filter_app, map_app. reflexivity. Qed.
Lemma first_msgs_app a b : first_msgs (a ++ b) = first_msgs a ++ first_msgs b.
Proof. unfold first_msgs. rewrite filter_app, map_app. reflexivity. Qed.

Lemma no_first_in_later t m : forall n i q, filter is_first (firstn q (pieces_from t m (S i) n)) = [].
Proof.
  induction n as [|n IH]; intros i q; cbn [pieces_from].
  - destruct q; reflexivity.
  - destruct q as [|q]; [reflexivity|]. cbn [firstn filter is_first f_idx Nat.eqb]. apply IH.
Qed.

Lemma first_of_prefix t m n q : filter is_first (firstn q (delivery t m n)) =
  match q, n with O, _ => [] | _, O => [] | S _, S n' => [mkF t m 0 (negb (Nat.eqb n' 0))] end.
Proof.
  unfold delivery. destruct q as [|q]; [reflexivity|]. destruct n as [|n']; [reflexivity|].
  cbn [pieces_from firstn filter is_first f_idx Nat.eqb]. rewrite no_first_in_later. reflexivity.
Qed.

(** ** the invariant: whole deliveries, tags strictly increasing and below the delivery-count *)

Definition no_mid_drop (c : call) : Prop :=
  queued (c_pieces c) (c_drop c) = 0%nat \/ queued (c_pieces c) (c_drop c) = c_pieces c.

Definition ok_ev (e : ev) : Prop :=
  match e with Call c => (1 <= c_pieces c)%nat /\ no_mid_drop c | Grant _ => True end.

Definition Inv (s : lstate) : Prop :=
  whole (wire s) = true /\ Forall (fun t => t < dcount s) (first_tags (wire s)) /\
  StronglySorted N.lt (first_tags (wire s)).

Lemma firstn_all_delivery t m n : firstn n (delivery t m n) = delivery t m n.
Proof.
  unfold delivery. generalize 0%nat. induction n as [|n IH]; intros i; [reflexivity|].
  cbn [pieces_from firstn]. rewrite IH. reflexivity.
Qed.

Lemma sorted_snoc (l : list N) (x : N) : StronglySorted N.lt l -> Forall (fun t => t < x) l -> StronglySorted N.lt (l ++ [x]).
Proof.
  induction l as [|a l IH]; intros Hs Hf; cbn [app].
  - constructor; constructor.
  - inversion Hs as [|a' l' Hs' Ha]; subst. inversion Hf as [|a' l' Hax Hf']; subst.
    constructor; [apply IH; assumption|]. apply Forall_app. split; [assumption|]. constructor; [assumption|constructor].
Qed.

Lemma Inv_step s e s' : ok_ev e -> Inv s -> step s e = Some s' -> Inv s'.
Proof.
  intros Hok [Hw [Hb Hs]] Hst. destruct e as [c|n]; cbn [step] in Hst.
  - unfold do_call in Hst. destruct Hok as [Hn Hmid].
    destruct (negb (takes_credit (c_drop c))); [injection Hst as <-; repeat split; assumption|].
    destruct (credit s =? 0).
    { destruct (c_drop c); [injection Hst as <-; repeat split; assumption|discriminate]. }
    injection Hst as <-. unfold Inv. cbn [wire dcount].
    destruct Hmid as [Hq|Hq]; rewrite Hq.
    + cbn [firstn]. rewrite app_nil_r. repeat split; [assumption| |assumption].
      eapply Forall_impl; [|exact Hb]. cbn. intros; lia.
    + rewrite firstn_all_delivery. split; [|split].
      * apply whole_app; [assumption|apply whole_delivery; assumption].
      * rewrite first_tags_app. apply Forall_app. split.
        -- eapply Forall_impl; [|exact Hb]. cbn. intros; lia.
        -- unfold first_tags. rewrite <- (firstn_all_delivery (dcount s) (c_msg c) (c_pieces c)), first_of_prefix.
           destruct (c_pieces c); [lia|]. cbn [map f_tag]. constructor; [lia|constructor].
      * rewrite first_tags_app. unfold first_tags at 2.
        rewrite <- (firstn_all_delivery (dcount s) (c_msg c) (c_pieces c)), first_of_prefix.
        destruct (c_pieces c); [lia|]. cbn [map f_tag]. apply sorted_snoc; assumption.
  - injection Hst as <-. exact (conj Hw (conj Hb Hs)).
Qed.

Lemma Inv_run es : forall s, Forall ok_ev es -> Inv s -> Inv (run s es).
Proof.
  induction es as [|e es IH]; intros s Hok HI; cbn [run]; [exact HI|].
  inversion Hok as [|e' es' He Hes]; subst.
  destruct (step s e) as [s'|] eqn:Hst; [|exact HI].
  apply IH; [assumption|]. eapply Inv_step; eassumption.
Qed.

Lemma Inv_init dc : Inv (init dc).
Proof. unfold Inv, init. cbn. repeat split; constructor. Qed.

(** whatever is dropped and whenever - as long as no call is dropped between two transfers of one message -
    the link's output is a sequence of whole deliveries with strictly increasing tags *)
Theorem never_partial dc es : Forall ok_ev es ->
  whole (wire (run (init dc) es)) = true /\ StronglySorted N.lt (first_tags (wire (run (init dc) es))).
Proof. intros H. destruct (Inv_run es (init dc) H (Inv_init dc)) as [Hw [_ Hs]]. split; assumption. Qed.

(** a message that goes out as one transfer (no max-message-size split) can never be dropped in the middle *)
Lemma single_piece_ok c : c_pieces c = 1%nat -> (1 <= c_pieces c)%nat /\ no_mid_drop c.
Proof.
  intros H. split; [lia|]. unfold no_mid_drop, queued. rewrite H. destruct (c_drop c) as [k|]; [|right; reflexivity].
  destruct k as [|[|k]]; cbn; [left|left|right]; try reflexivity. destruct k; reflexivity.
Qed.

Definition single_piece (e : ev) : Prop := match e with Call c => c_pieces c = 1%nat | Grant _ => True end.

Theorem never_partial_single dc es : Forall single_piece es ->
  whole (wire (run (init dc) es)) = true /\ StronglySorted N.lt (first_tags (wire (run (init dc) es))).
Proof.
  intros H. apply never_partial. eapply Forall_impl; [|exact H]. intros [c|n] Hc; cbn in *; [apply single_piece_ok; exact Hc|exact I].
Qed.

(** with a max-message-size split, a drop between two transfers leaves a partial delivery on the link *)
Lemma partial_refutes : exists es, whole (wire (run (init 0) es)) = false.
Proof. exists [Grant 2; Call (mkC 0 2 (Some 2%nat)); Call (mkC 1 1 None)]. reflexivity. Qed.

(** ** at most once, in order: the deliveries begun on the link are the messages of the calls that got as far
    as their first transfer, in call order *)

Fixpoint begun (s : lstate) (es : list ev) : list N :=
  match es with
  | [] => []
  | e :: r =>
      match step s e with
      | None => []
      | Some s' =>
          (match e with
           | Call c => if takes_credit (c_drop c) && negb (credit s =? 0) && negb (Nat.eqb (queued (c_pieces c) (c_drop c)) 0)
                               && negb (Nat.eqb (c_pieces c) 0)
                       then [c_msg c] else []
           | Grant _ => []
           end) ++ begun s' r
      end
  end.

Lemma first_msgs_prefix t m n q : first_msgs (firstn q (delivery t m n)) =
  if negb (Nat.eqb q 0) && negb (Nat.eqb n 0) then [m] else [].
Proof. unfold first_msgs. rewrite first_of_prefix. destruct q; [reflexivity|]. destruct n; reflexivity. Qed.

Theorem in_order_at_most_once es : forall s, first_msgs (wire (run s es)) = first_msgs (wire s) ++ begun s es.
Proof.
  induction es as [|e es IH]; intros s; cbn [run begun]; [rewrite app_nil_r; reflexivity|].
  destruct (step s e) as [s'|] eqn:Hst; [|rewrite app_nil_r; reflexivity].
  rewrite IH, app_assoc. f_equal.
  destruct e as [c|n]; cbn [step] in Hst.
  - unfold do_call in Hst. destruct (takes_credit (c_drop c)); cbn [negb andb] in *.
    + destruct (credit s =? 0); cbn [negb andb].
      * destruct (c_drop c); [injection Hst as <-; rewrite app_nil_r; reflexivity|discriminate].
      * injection Hst as <-. cbn [wire]. rewrite first_msgs_app, first_msgs_prefix. reflexivity.
    + injection Hst as <-. rewrite app_nil_r. reflexivity.
  - injection Hst as <-. cbn [wire]. rewrite app_nil_r. reflexivity.
Qed.

(** ** credit *)

Fixpoint granted (es : list ev) : N :=
  match es with [] => 0 | Grant n :: r => n + granted r | Call _ :: r => granted r end.

(** calls that took a credit *)
Fixpoint consumed (s : lstate) (es : list ev) : N :=
  match es with
  | [] => 0
  | e :: r =>
      match step s e with
      | None => 0
      | Some s' =>
          (match e with
           | Call c => if takes_credit (c_drop c) && negb (credit s =? 0) then 1 else 0
           | Grant _ => 0
           end) + consumed s' r
      end
  end.

(** events up to the call that blocks (all of them if none does) *)
Fixpoint executed (s : lstate) (es : list ev) : list ev :=
  match es with
  | [] => []
  | e :: r => match step s e with None => [] | Some s' => e :: executed s' r end
  end.

Theorem credit_conserved es : forall s,
  credit (run s es) + consumed s es = credit s + granted (executed s es) /\
  dcount (run s es) = dcount s + consumed s es.
Proof.
  induction es as [|e es IH]; intros s; cbn [run consumed executed granted]; [split; lia|].
  destruct (step s e) as [s'|] eqn:Hst; [|cbn [granted]; split; lia].
  destruct (IH s') as [IH1 IH2].
  destruct e as [c|n]; cbn [step] in Hst; cbn [granted].
  - unfold do_call in Hst. destruct (takes_credit (c_drop c)); cbn [negb andb] in *.
    + destruct (credit s =? 0) eqn:Hc; cbn [negb].
      * destruct (c_drop c); [injection Hst as <-; split; lia|discriminate].
      * injection Hst as <-. cbn [credit dcount] in *. apply N.eqb_neq in Hc. split; lia.
    + injection Hst as <-. split; lia.
  - injection Hst as <-. cbn [credit dcount] in *. split; lia.
Qed.

(** a call dropped after it has taken its credit and before its first transfer is queued loses the credit:
    one credit granted, nothing delivered, and the next call (never dropped) waits for ever *)
Lemma credit_leak_refutes :
  let es := [Grant 1; Call (mkC 0 1 (Some 1%nat)); Call (mkC 1 1 None)] in
  wire (run (init 0) es) = [] /\ credit (run (init 0) es) = 0 /\ length (executed (init 0) es) = 2%nat.
Proof. cbn. repeat split. Qed.

(** without such a drop every credit taken has begun a delivery *)
Definition no_leak (e : ev) : Prop :=
  match e with Call c => (1 <= c_pieces c)%nat /\ c_drop c <> Some 1%nat | Grant _ => True end.

Theorem no_leak_no_starvation es : forall s, Forall no_leak es ->
  N.of_nat (length (begun s es)) = consumed s es.
Proof.
  induction es as [|e es IH]; intros s Hok; cbn [begun consumed]; [reflexivity|].
  inversion Hok as [|e' es' He Hes]; subst.
  destruct (step s e) as [s'|] eqn:Hst; [|reflexivity].
  rewrite app_length, Nat2N.inj_add, (IH s' Hes). f_equal.
  destruct e as [c|n]; [|reflexivity]. destruct He as [Hn Hd].
  destruct (takes_credit (c_drop c)) eqn:Ht; cbn [andb]; [|reflexivity].
  destruct (credit s =? 0); cbn [negb andb]; [reflexivity|].
  assert (Hq : Nat.eqb (queued (c_pieces c) (c_drop c)) 0 = false).
  { apply Nat.eqb_neq. unfold queued. destruct (c_drop c) as [k|]; [|lia].
    destruct k as [|[|k]]; [discriminate Ht|contradiction Hd; reflexivity|]. lia. }
  rewrite Hq. assert (Hp : Nat.eqb (c_pieces c) 0 = false) by (apply Nat.eqb_neq; lia). rewrite Hp. reflexivity.
Qed.

Example run_mixed :
  wire (run (init 5) [Grant 3; Call (mkC 7 1 (Some 0%nat)); Call (mkC 7 1 None); Call (mkC 8 2 (Some 9%nat)); Call (mkC 9 1 None)]) =
  [mkF 5 7 0 false; mkF 6 8 0 true; mkF 6 8 1 false; mkF 7 9 0 false].
Proof. reflexivity. Qed.
