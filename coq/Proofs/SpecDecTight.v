(** How tight the two extra hypotheses of [spec_valid_is_decoded_partial] are.

    - [nodup_keys] is NECESSARY: the library's decoder model never returns a
      value in which a map repeats a key (every map is built by
      [IndexMap::insert]), so whenever the reference decoder yields such a
      value the library cannot agree with it ([nodup_keys_necessary]).
    - the array clause (2) [size < count] of [rarrayk] is NECESSARY for a
      top-level array: the library then always answers InvalidValue
      ([array8_size_lt_count_rejected] and its array32 twin).
    - the former clause (1) ([count = 0] with a non-empty body) is gone: since
      the repair of the decoder the bytes after the count are skipped
      ([array8_count0_body_skipped], [array32_count0_body_skipped]; before the
      repair these two theorems were refutations, the body was left unread).
    - clause (3) (sized compound element constructors, count <> 0) is the only one that is
      not exact: e.g. a one-element array of list8 still decodes.  Every
      excluded constructor does have a failing witness
      ([refuted_compound_elements] in SpecDec.v). *)
From FV Require Import Base.Bytes Codec.Value Codec.Dec Codec.Spec
  Proofs.BytesProofs Proofs.RoundTripScalars Proofs.RoundTrip Proofs.SpecDec.
From Coq Require Import Lia ZArith ZifyN ZifyBool ZifyNat.
Open Scope N_scope.

(** ** [omap_insert] keeps keys distinct *)
Lemma key_fresh_ext k m m' : map fst m = map fst m' -> key_fresh k m = key_fresh k m'.
Proof.
  unfold key_fresh. revert m'. induction m as [|p m IH]; intros [|p' m'] H; try discriminate; [reflexivity|].
  cbn [map] in H. injection H as Hp Hm. cbn [existsb]. rewrite Hp.
  f_equal. f_equal. specialize (IH _ Hm). apply (f_equal negb) in IH. rewrite !negb_involutive in IH. exact IH.
Qed.

Lemma keys_fresh_ext l : forall acc acc', map fst acc = map fst acc' -> keys_fresh acc l = keys_fresh acc' l.
Proof.
  induction l as [|[k v] l IH]; intros acc acc' H; cbn [keys_fresh]; [reflexivity|].
  rewrite (key_fresh_ext k _ _ H). f_equal. apply IH. rewrite !map_app, H. reflexivity.
Qed.

Lemma key_fresh_snoc k acc k' v' :
  key_fresh k (acc ++ [(k', v')]) = key_fresh k acc && negb (value_eqb k k').
Proof.
  unfold key_fresh. rewrite existsb_app. cbn [existsb fst]. rewrite orb_false_r, negb_orb. reflexivity.
Qed.

Lemma keys_fresh_insert k v : forall m acc,
  keys_fresh acc m = true -> key_fresh k acc = true -> keys_fresh acc (omap_insert k v m) = true.
Proof.
  induction m as [|[k' v'] m IH]; intros acc Hm Hk; cbn [omap_insert keys_fresh] in *.
  - rewrite Hk. reflexivity.
  - apply andb_true_iff in Hm. destruct Hm as [Hk' Hm].
    destruct (value_eqb k k') eqn:E; cbn [keys_fresh]; rewrite Hk'; cbn [andb].
    + rewrite (keys_fresh_ext m _ (acc ++ [(k', v')])); [exact Hm|]. rewrite !map_app. reflexivity.
    + apply IH; [exact Hm|]. rewrite key_fresh_snoc, Hk, E. reflexivity.
Qed.

Definition pair_ok (p : value * value) : bool := nodup_keys (fst p) && nodup_keys (snd p).

Lemma forallb_insert k v : forall m,
  forallb pair_ok m = true -> nodup_keys k = true -> nodup_keys v = true ->
  forallb pair_ok (omap_insert k v m) = true.
Proof.
  induction m as [|[k' v'] m IH]; intros Hm Hk Hv; cbn [omap_insert forallb] in *.
  - unfold pair_ok. cbn [fst snd]. rewrite Hk, Hv. reflexivity.
  - apply andb_true_iff in Hm. destruct Hm as [Hp Hm]. unfold pair_ok in Hp. cbn [fst snd] in Hp.
    apply andb_true_iff in Hp. destruct Hp as [Hk' Hv'].
    destruct (value_eqb k k'); cbn [forallb]; unfold pair_ok at 1; cbn [fst snd].
    + rewrite Hk', Hv, Hm. reflexivity.
    + rewrite Hk', Hv', IH by assumption. reflexivity.
Qed.

Lemma forallb_rev_append {A} (p : A -> bool) : forall l acc,
  forallb p l = true -> forallb p acc = true -> forallb p (rev_append l acc) = true.
Proof.
  induction l as [|x l IH]; intros acc Hl Ha; cbn [rev_append forallb] in *; [exact Ha|].
  apply andb_true_iff in Hl. destruct Hl as [Hx Hl]. apply IH; [exact Hl|]. cbn [forallb]. rewrite Hx, Ha. reflexivity.
Qed.

(** ** the decoder *)
Ltac step H :=
  match type of H with
  | bind ?x _ = Ok _ =>
      let E := fresh "E" in destruct x as [?| | |] eqn:E; cbn [bind] in H; [|discriminate H ..]
  | (let (_, _) := ?p in _) = Ok _ => destruct p
  | (if ?c then _ else _) = Ok _ => destruct c eqn:?
  | Ok _ = Ok _ => injection H as <- <- <-
  | Err _ = Ok _ => discriminate H
  | match ?b with [] => _ | _ :: _ => _ end = Ok _ => destruct b
  end.

Section Body.
Variable self : dstate -> bytes -> result (value * dstate * bytes).
Hypothesis Hself : forall e bs v e' r, self e bs = Ok (v, e', r) -> nodup_keys v = true.

Lemma list_loop_nodup : forall n e bs acc l e' r,
  list_loop self n e bs acc = Ok (l, e', r) -> forallb nodup_keys acc = true -> forallb nodup_keys l = true.
Proof.
  induction n as [|n IH]; intros e bs acc l e' r H Hacc; cbn [list_loop] in H.
  - injection H as <- <- <-. apply forallb_rev_append; auto.
  - destruct (self e bs) as [[[v e1] r1]| | |] eqn:E; cbn [bind] in H; try discriminate H.
    eapply IH; [exact H|]. cbn [forallb]. rewrite (Hself _ _ _ _ _ E), Hacc. reflexivity.
Qed.

Lemma array_loop_nodup : forall n size start e bs acc l e' r,
  array_loop self n size start e bs acc = Ok (l, e', r) -> forallb nodup_keys acc = true ->
  forallb nodup_keys l = true.
Proof.
  induction n as [|n IH]; intros size start e bs acc l e' r H Hacc; cbn [array_loop] in H.
  - injection H as <- <- <-. apply forallb_rev_append; auto.
  - destruct (self e bs) as [[[v e1] r1]| | |] eqn:E; cbn [bind] in H; try discriminate H.
    destruct (size <? start - lenN r1); [discriminate H|].
    eapply IH; [exact H|]. cbn [forallb]. rewrite (Hself _ _ _ _ _ E), Hacc. reflexivity.
Qed.

Lemma map_loop_nodup : forall fuel count e bs acc l e' r,
  map_loop self fuel count e bs acc = Ok (l, e', r) ->
  forallb pair_ok acc = true -> keys_fresh [] acc = true ->
  forallb pair_ok l = true /\ keys_fresh [] l = true.
Proof.
  induction fuel as [|fuel IH]; intros count e bs acc l e' r H Ha Hf; cbn [map_loop] in H; [discriminate H|].
  destruct (count =? 0); [injection H as <- <- <-; auto|].
  destruct (count =? 1); [discriminate H|].
  destruct (self e bs) as [[[k e1] r1]| | |] eqn:Ek; cbn [bind] in H; try discriminate H.
  destruct (self e1 r1) as [[[v e2] r2]| | |] eqn:Ev; cbn [bind] in H; try discriminate H.
  eapply IH; [exact H| |].
  - apply forallb_insert; eauto.
  - apply keys_fresh_insert; auto.
Qed.

Lemma dec_seq_nodup e bs l e' r : dec_seq self e bs = Ok (l, e', r) -> forallb nodup_keys l = true.
Proof.
  intros H. unfold dec_seq in H. repeat step H; try reflexivity.
  all: first [eapply array_loop_nodup; [eassumption|reflexivity] | eapply list_loop_nodup; [eassumption|reflexivity]].
Qed.

Lemma dec_map_nodup e bs l e' r : dec_map self e bs = Ok (l, e', r) -> nodup_keys (VMap l) = true.
Proof.
  intros H. unfold dec_map in H. repeat step H.
  all: destruct (map_loop_nodup _ _ _ _ _ _ _ _ H eq_refl eq_refl) as [A B]; cbn [nodup_keys]; fold pair_ok;
       change (forallb (fun p => nodup_keys (fst p) && nodup_keys (snd p)) l) with (forallb pair_ok l);
       rewrite A, B; reflexivity.
Qed.

Lemma dec_described_nodup e bs v e' r : dec_described self e bs = Ok (v, e', r) -> nodup_keys v = true.
Proof.
  intros H. unfold dec_described in H. repeat step H. cbn [nodup_keys]. eapply Hself; eassumption.
Qed.

Lemma dec_body_nodup e bs v e' r : dec_body self e bs = Ok (v, e', r) -> nodup_keys v = true.
Proof.
  intros H. unfold dec_body in H. repeat step H; try reflexivity.
  - eapply dec_described_nodup; eassumption.
  - cbn [nodup_keys]. eapply dec_seq_nodup; eassumption.
  - eapply dec_map_nodup; eassumption.
  - cbn [nodup_keys]. eapply dec_seq_nodup; eassumption.
Qed.
End Body.

Lemma dec_nodup f : forall e bs v e' r, dec f e bs = Ok (v, e', r) -> nodup_keys v = true.
Proof.
  induction f as [|f IH]; intros e bs v e' r H; [discriminate H|].
  cbn [dec] in H. eapply dec_body_nodup; eassumption.
Qed.

(** the library never returns a value with a repeated map key ... *)
Theorem from_slice_nodup : forall fuel bs v rest, from_slice fuel bs = Ok (v, rest) -> nodup_keys v = true.
Proof.
  intros fuel bs v rest H. unfold from_slice in H.
  destruct (dec fuel None bs) as [[[v' e] r]| | |] eqn:E; cbn [bind] in H; try discriminate H.
  injection H as <- <-. eapply dec_nodup; eassumption.
Qed.
Print Assumptions from_slice_nodup.

(** ... so [nodup_keys v] is NECESSARY for the conclusion of (B), for any fuel:
    the hypothesis of [spec_valid_is_decoded_partial] cannot be weakened on maps *)
Corollary nodup_keys_necessary : forall bs v rest,
  nodup_keys v = false -> forall fuel', from_slice fuel' bs <> Ok (v, rest).
Proof. intros bs v rest Hn fuel' H. apply from_slice_nodup in H. congruence. Qed.
Print Assumptions nodup_keys_necessary.

(** ** the array clause (2) and the former clause (1), top level *)
Lemma from_slice_array f c r : (c = 224 \/ c = 240) ->
  from_slice (S f) (c :: r) = let* (l, _, r') := dec_seq (dec f) None (c :: r) in Ok (VArray l, r').
Proof.
  intros Hc. unfold from_slice. rewrite dec_unfold, dec_body_array by exact Hc.
  destruct (dec_seq (dec f) None (c :: r)) as [[[l e] r']| | |]; reflexivity.
Qed.

(** former class (1), count 0 but a body (an element constructor): the body is
    skipped, whatever it is, and the result is the empty array -- as the
    reference decoder says *)
Theorem array8_count0_body_skipped : forall size body r f,
  size = 1 + lenN body ->
  from_slice (S f) (224 :: size :: 0 :: body ++ r) = Ok (VArray [], r).
Proof.
  intros size body r f Hs. rewrite from_slice_array, dec_seq_array8_empty by auto. reflexivity.
Qed.

Theorem array32_count0_body_skipped : forall h1 h2 body r f,
  length h1 = 4%nat -> length h2 = 4%nat -> from_be h2 = 0 -> from_be h1 = 4 + lenN body ->
  from_slice (S f) (240 :: h1 ++ h2 ++ body ++ r) = Ok (VArray [], r).
Proof.
  intros h1 h2 body r f L1 L2 Hc Hs. rewrite from_slice_array, dec_seq_array32_empty by auto. reflexivity.
Qed.

(** (2) count above the size field: always InvalidValue *)
Theorem array8_size_lt_count_rejected : forall size count r f,
  size < count -> from_slice (S f) (224 :: size :: count :: r) = Err EInvalidValue.
Proof.
  intros size count r f Hlt. rewrite from_slice_array by auto. unfold dec_seq.
  cbn -[N.to_nat array_loop lenN]. destruct ((MAXCOUNT <? count) || (size <? count)) eqn:E; [reflexivity|lia].
Qed.

Theorem array32_size_lt_count_rejected : forall h1 h2 r f,
  length h1 = 4%nat -> length h2 = 4%nat -> from_be h1 < from_be h2 ->
  from_slice (S f) (240 :: h1 ++ h2 ++ r) = Err EInvalidValue.
Proof.
  intros h1 h2 r f L1 L2 Hlt. rewrite from_slice_array by auto. unfold dec_seq.
  cbn -[N.to_nat array_loop lenN read_be].
  rewrite read_be_app by exact L1. cbn -[N.to_nat array_loop lenN read_be].
  rewrite read_be_app by exact L2. cbn -[N.to_nat array_loop lenN read_be].
  destruct ((MAXCOUNT <? from_be h2) || (from_be h1 <? from_be h2)) eqn:E; [reflexivity|lia].
Qed.
Print Assumptions array8_count0_body_skipped.
Print Assumptions array32_size_lt_count_rejected.
