From FV Require Import Base.Bytes.
From Coq Require Import Lia ZArith ZifyN ZifyBool ZifyNat.
Ltac Zify.zify_post_hook ::= Z.div_mod_to_equations.
Open Scope N_scope.

Lemma lenN_app {A} (a b : list A) : lenN (a ++ b) = lenN a + lenN b.
Proof. unfold lenN. rewrite app_length. lia. Qed.
Lemma lenN_cons {A} (x : A) l : lenN (x :: l) = 1 + lenN l.
Proof. unfold lenN. cbn [length]. lia. Qed.
Lemma lenN_nil {A} : lenN (@nil A) = 0.
Proof. reflexivity. Qed.

Lemma to_le_length k n : length (to_le k n) = k.
Proof. revert n; induction k; intros; cbn; auto. Qed.
Lemma to_be_length k n : length (to_be k n) = k.
Proof. unfold to_be. rewrite rev_length. apply to_le_length. Qed.
Lemma lenN_to_be k n : lenN (to_be k n) = N.of_nat k.
Proof. unfold lenN. rewrite to_be_length. reflexivity. Qed.

Lemma from_le_to_le k : forall n, n < 256 ^ N.of_nat k -> from_le (to_le k n) = n.
Proof.
  induction k as [|k IH]; intros n H.
  - cbn in *. lia.
  - cbn [to_le from_le]. rewrite IH.
    + pose proof (N.div_mod n 256). lia.
    + rewrite Nat2N.inj_succ, N.pow_succ_r' in H. 
      apply N.div_lt_upper_bound; lia.
Qed.

Lemma from_be_to_be k n : n < 256 ^ N.of_nat k -> from_be (to_be k n) = n.
Proof. intros H. unfold from_be, to_be. rewrite rev_involutive. apply from_le_to_le; exact H. Qed.

Lemma to_le_ok k : forall n, bytes_ok (to_le k n).
Proof. unfold bytes_ok. induction k as [|k IH]; intros n; cbn [to_le]; constructor; [apply N.mod_lt; lia | apply IH]. Qed.
Lemma bytes_ok_rev b : bytes_ok b -> bytes_ok (rev b).
Proof. unfold bytes_ok. intros H. apply Forall_forall. intros x Hx. apply in_rev in Hx. rewrite Forall_forall in H. auto. Qed.
Lemma to_be_ok k n : bytes_ok (to_be k n).
Proof. apply bytes_ok_rev, to_le_ok. Qed.

Lemma take_n_app (b rest : bytes) : take_n (length b) (b ++ rest) = Some (b, rest).
Proof. induction b as [|x b IH]; cbn; auto. rewrite IH. reflexivity. Qed.

Lemma take_n_app_k k (b rest : bytes) : length b = k -> take_n k (b ++ rest) = Some (b, rest).
Proof. intros <-. apply take_n_app. Qed.

Lemma bytes_okb_spec b : bytes_okb b = true <-> bytes_ok b.
Proof.
  unfold bytes_okb, bytes_ok, byte_okb. rewrite forallb_forall, Forall_forall.
  split; intros H x Hx; specialize (H x Hx); lia.
Qed.

Lemma take_n_length k : forall bs h t, take_n k bs = Some (h, t) -> (length t + k = length bs)%nat.
Proof.
  induction k as [|k IH]; intros bs h t H; cbn in H.
  - injection H as <- <-. lia.
  - destruct bs as [|b r]; [discriminate|]. destruct (take_n k r) as [[h' t']|] eqn:E; [|discriminate].
    injection H as <- <-. specialize (IH _ _ _ E). cbn. lia.
Qed.

