(** The controller side of a transaction (Txn/Controller.v): what goes on the wire names the
    transaction the handle was declared as, the fail flag says what the application asked for, the
    coordinator's verdict is what the call returns, and a transaction is discharged at most once. *)
From Coq Require Import List NArith Bool Lia PeanoNat.
From FV Require Import Txn.Controller.
Import ListNotations.

Lemma issued_app a b : issued (a ++ b) = issued a ++ issued b.
Proof.
  induction a as [|o a IH]; [reflexivity|]. cbn [app issued].
  destruct o as [an| | | | |]; try exact IH. destruct an; cbn [app]; rewrite IH; reflexivity.
Qed.

Lemma slot_app_old st x k : k < length st -> slot (st ++ [x]) k = slot st k.
Proof. intros H. unfold slot. rewrite nth_error_app1 by exact H. reflexivity. Qed.

Lemma slot_app_new st x : slot (st ++ [x]) (length st) = x.
Proof.
  unfold slot. rewrite nth_error_app2 by lia. rewrite Nat.sub_diag. cbn. destruct x; reflexivity.
Qed.

Lemma slot_some_lt st k h : slot st k = Some h -> k < length st.
Proof.
  unfold slot. intros H. destruct (nth_error st k) eqn:E; [|discriminate].
  apply nth_error_Some. congruence.
Qed.

Lemma set_slot_length st k v : k < length st -> length (set_slot st k v) = length st.
Proof.
  intros H. unfold set_slot. rewrite app_length. cbn [length]. rewrite firstn_length, skipn_length. lia.
Qed.

Lemma nth_error_firstn_lt {A} (l : list A) : forall k j, j < k -> nth_error (firstn k l) j = nth_error l j.
Proof.
  induction l as [|x l IH]; intros k j H; [rewrite firstn_nil; reflexivity|].
  destruct k; [lia|]. destruct j; [reflexivity|]. cbn. apply IH. lia.
Qed.

Lemma nth_error_skipn_add {A} (l : list A) : forall k j, nth_error (skipn k l) j = nth_error l (k + j).
Proof.
  induction l as [|x l IH]; intros k j; [rewrite skipn_nil; destruct j, k; reflexivity|].
  destruct k; [reflexivity|]. cbn. apply IH.
Qed.

Lemma nth_error_set_slot st k v j : k < length st ->
  nth_error (set_slot st k v) j = if Nat.eqb j k then Some v else nth_error st j.
Proof.
  intros H. unfold set_slot.
  assert (Lf : length (firstn k st) = k) by (rewrite firstn_length; lia).
  destruct (Nat.eqb_spec j k) as [->|Hne].
  - rewrite nth_error_app2 by lia. rewrite Lf, Nat.sub_diag. reflexivity.
  - destruct (Nat.lt_ge_cases j k) as [Hlt|Hge].
    + rewrite nth_error_app1 by lia. apply nth_error_firstn_lt. exact Hlt.
    + rewrite nth_error_app2 by lia. rewrite Lf.
      destruct (j - k) as [|d] eqn:Ed; [lia|]. cbn [nth_error].
      rewrite nth_error_skipn_add. f_equal. lia.
Qed.

Lemma slot_set_slot st k v j : k < length st ->
  slot (set_slot st k v) j = if Nat.eqb j k then v else slot st j.
Proof.
  intros H. unfold slot. rewrite nth_error_set_slot by exact H.
  destruct (Nat.eqb j k); [destruct v|]; reflexivity.
Qed.

(** ** the handles are about what the coordinator issued *)
Definition Inv (hist : list cop) (st : cstate) : Prop :=
  length st = length (issued hist) /\
  forall k h, slot st k = Some h -> nth_error (issued hist) k = Some (Some (h_id h)).

Lemma inv_init : Inv [] [].
Proof. split; [reflexivity|]. intros k h H. unfold slot in H. destruct k; discriminate. Qed.

Lemma discharge_id h fail a w r h' : discharge h fail a = (w, r, h') -> h_id h' = h_id h.
Proof.
  unfold discharge. destruct (h_done h); [intros E; injection E as <- <- <-; reflexivity|].
  destruct a; intros E; injection E as <- <- <-; reflexivity.
Qed.

Lemma inv_step hist st o st' w r : Inv hist st -> cstep st o = (st', w, r) -> Inv (hist ++ [o]) st'.
Proof.
  intros [Hlen Hid] E. unfold Inv. rewrite issued_app.
  assert (Hkeep : issued [o] = [] -> forall s, length s = length st ->
            (forall k h, slot s k = Some h -> exists h0, slot st k = Some h0 /\ h_id h0 = h_id h) ->
            length s = length (issued hist ++ issued [o]) /\
            forall k h, slot s k = Some h -> nth_error (issued hist ++ issued [o]) k = Some (Some (h_id h))).
  { intros Hi s Hs Hsl. rewrite Hi, app_nil_r. split; [congruence|].
    intros k h Hk. destruct (Hsl k h Hk) as (h0 & H0 & <-). apply Hid. exact H0. }
  destruct o as [a|k m a|k a|k a|k fail a|k]; cbn [cstep] in E.
  - (* declare *)
    assert (Hnew : forall x idopt, issued [ODecl a] = [idopt] ->
              (forall h, x = Some h -> idopt = Some (h_id h)) ->
              length (st ++ [x]) = length (issued hist ++ [idopt]) /\
              forall k h, slot (st ++ [x]) k = Some h -> nth_error (issued hist ++ [idopt]) k = Some (Some (h_id h))).
    { intros x idopt _ Hx. split; [rewrite !app_length; cbn; lia|].
      intros k h Hk. pose proof (slot_some_lt _ _ _ Hk) as Hlt. rewrite app_length in Hlt. cbn in Hlt.
      destruct (Nat.eq_dec k (length st)) as [->|Hne].
      - rewrite slot_app_new in Hk. rewrite Hlen. rewrite nth_error_app2 by lia. rewrite Nat.sub_diag. cbn.
        rewrite (Hx h Hk). reflexivity.
      - rewrite slot_app_old in Hk by lia. rewrite nth_error_app1 by lia. apply Hid. exact Hk. }
    destruct a as [id|  |c|]; injection E as <- <- <-; cbn [issued].
    + apply (Hnew _ (Some id) eq_refl). intros h Hh. injection Hh as <-. reflexivity.
    + apply (Hnew None None eq_refl). intros h Hh. discriminate.
    + apply (Hnew None None eq_refl). intros h Hh. discriminate.
    + apply (Hnew None None eq_refl). intros h Hh. discriminate.
  - destruct (slot st k) as [h0|]; injection E as <- <- <-; apply Hkeep; try reflexivity; eauto.
  - destruct (slot st k) as [h0|] eqn:Es; [|injection E as <- <- <-; apply Hkeep; try reflexivity; eauto].
    destruct (discharge h0 false a) as [[w0 r0] h1]. injection E as <- <- <-.
    pose proof (slot_some_lt _ _ _ Es) as Hlt.
    apply Hkeep; [reflexivity|apply set_slot_length; exact Hlt|].
    intros j h Hj. rewrite slot_set_slot in Hj by exact Hlt. destruct (Nat.eqb j k); [discriminate|eauto].
  - destruct (slot st k) as [h0|] eqn:Es; [|injection E as <- <- <-; apply Hkeep; try reflexivity; eauto].
    destruct (discharge h0 true a) as [[w0 r0] h1]. injection E as <- <- <-.
    pose proof (slot_some_lt _ _ _ Es) as Hlt.
    apply Hkeep; [reflexivity|apply set_slot_length; exact Hlt|].
    intros j h Hj. rewrite slot_set_slot in Hj by exact Hlt. destruct (Nat.eqb j k); [discriminate|eauto].
  - destruct (slot st k) as [h0|] eqn:Es; [|injection E as <- <- <-; apply Hkeep; try reflexivity; eauto].
    destruct (discharge h0 fail a) as [[w0 r0] h1] eqn:Ed. injection E as <- <- <-.
    pose proof (slot_some_lt _ _ _ Es) as Hlt.
    apply Hkeep; [reflexivity|apply set_slot_length; exact Hlt|].
    intros j h Hj. rewrite slot_set_slot in Hj by exact Hlt.
    destruct (Nat.eqb_spec j k) as [->|Hne]; [|eauto].
    injection Hj as <-. exists h0. split; [exact Es|]. symmetry. eapply discharge_id. exact Ed.
  - destruct (slot st k) as [h0|] eqn:Es; [|injection E as <- <- <-; apply Hkeep; try reflexivity; eauto].
    injection E as <- <- <-. pose proof (slot_some_lt _ _ _ Es) as Hlt.
    apply Hkeep; [reflexivity|apply set_slot_length; exact Hlt|].
    intros j h Hj. rewrite slot_set_slot in Hj by exact Hlt. destruct (Nat.eqb j k); [discriminate|eauto].
Qed.

(** one thing on the wire, written by the call [o] after the calls [hist] *)
Definition wire_ok (hist : list cop) (o : cop) (x : cwire) : Prop :=
  match x with
  | WDecl => exists a, o = ODecl a
  | WPost id _ | WDisch id _ => exists k, op_slot o = Some k /\ nth_error (issued hist) k = Some (Some id)
  end.

Lemma discharge_wire h fail a w r h' x : discharge h fail a = (w, r, h') -> In x w -> x = WDisch (h_id h) fail.
Proof.
  unfold discharge. destruct (h_done h); [intros E; injection E as <- <- <-; intros []|].
  destruct a; intros E; injection E as <- <- <-; intros [<-|[]]; reflexivity.
Qed.
Lemma drop_wire_in h x : In x (drop_wire h) -> x = WDisch (h_id h) true /\ h_done h = false.
Proof. unfold drop_wire. destruct (h_done h); [intros []|intros [<-|[]]; auto]. Qed.

Lemma step_wire_ok hist st o st' w r : Inv hist st -> cstep st o = (st', w, r) -> forall x, In x w -> wire_ok hist o x.
Proof.
  intros [_ Hid] E x Hx.
  destruct o as [a|k m a|k a|k a|k fail a|k]; cbn [cstep] in E.
  - destruct a; injection E as <- <- <-; destruct Hx as [<-|[]]; cbn; eauto.
  - destruct (slot st k) as [h0|] eqn:Es; injection E as <- <- <-; [|destruct Hx].
    destruct Hx as [<-|[]]. cbn. eauto.
  - destruct (slot st k) as [h0|] eqn:Es; [|injection E as <- <- <-; destruct Hx].
    destruct (discharge h0 false a) as [[w0 r0] h1] eqn:Ed. injection E as <- <- <-.
    apply in_app_or in Hx. destruct Hx as [Hx|Hx].
    + rewrite (discharge_wire _ _ _ _ _ _ _ Ed Hx). cbn. eauto.
    + destruct (drop_wire_in _ _ Hx) as [-> _]. rewrite (discharge_id _ _ _ _ _ _ Ed). cbn. eauto.
  - destruct (slot st k) as [h0|] eqn:Es; [|injection E as <- <- <-; destruct Hx].
    destruct (discharge h0 true a) as [[w0 r0] h1] eqn:Ed. injection E as <- <- <-.
    apply in_app_or in Hx. destruct Hx as [Hx|Hx].
    + rewrite (discharge_wire _ _ _ _ _ _ _ Ed Hx). cbn. eauto.
    + destruct (drop_wire_in _ _ Hx) as [-> _]. rewrite (discharge_id _ _ _ _ _ _ Ed). cbn. eauto.
  - destruct (slot st k) as [h0|] eqn:Es; [|injection E as <- <- <-; destruct Hx].
    destruct (discharge h0 fail a) as [[w0 r0] h1] eqn:Ed. injection E as <- <- <-.
    rewrite (discharge_wire _ _ _ _ _ _ _ Ed Hx). cbn. eauto.
  - destruct (slot st k) as [h0|] eqn:Es; injection E as <- <- <-; [|destruct Hx].
    destruct (drop_wire_in _ _ Hx) as [-> _]. cbn. eauto.
Qed.

(** every call of every run: what it writes names the transaction that the coordinator issued to
    the declare call the handle came from *)
Theorem run_wire_ids : forall ops hist st, Inv hist st ->
  forall i o w r, nth_error ops i = Some o -> nth_error (snd (crun st ops)) i = Some (w, r) ->
  forall x, In x w -> wire_ok (hist ++ firstn i ops) o x.
Proof.
  induction ops as [|o0 ops IH]; intros hist st HI i o w r Ho Hw x Hx; [destruct i; discriminate|].
  cbn [crun] in Hw. destruct (cstep st o0) as [[st1 w0] r0] eqn:E0. destruct (crun st1 ops) as [st2 outs] eqn:E1.
  cbn [snd] in Hw. destruct i as [|i].
  - cbn in Ho, Hw. injection Ho as <-. injection Hw as <- <-. cbn [firstn]. rewrite app_nil_r.
    eapply step_wire_ok; eauto.
  - cbn [nth_error] in Ho, Hw. cbn [firstn].
    replace (hist ++ o0 :: firstn i ops) with ((hist ++ [o0]) ++ firstn i ops) by (rewrite <- app_assoc; reflexivity).
    eapply (IH (hist ++ [o0]) st1); [eapply inv_step; eauto|exact Ho| |exact Hx].
    rewrite E1. exact Hw.
Qed.

(** ... and so do the rollbacks written for the handles that are still held at the end *)
Theorem final_wire_ids hist st x : Inv hist st -> In x (final_wire st) ->
  exists k id, x = WDisch id true /\ nth_error (issued hist) k = Some (Some id).
Proof.
  intros [_ Hid] Hx. unfold final_wire in Hx. apply in_concat in Hx. destruct Hx as (l & Hl & Hx).
  apply in_map_iff in Hl. destruct Hl as (s & <- & Hs).
  destruct s as [h|]; [|destruct Hx]. destruct (drop_wire_in _ _ Hx) as [-> _].
  apply In_nth_error in Hs. destruct Hs as [k Hk]. exists k, (h_id h). split; [reflexivity|].
  apply Hid. unfold slot. rewrite Hk. reflexivity.
Qed.

Lemma inv_run : forall ops hist st, Inv hist st -> Inv (hist ++ ops) (fst (crun st ops)).
Proof.
  induction ops as [|o ops IH]; intros hist st HI; [rewrite app_nil_r; exact HI|].
  cbn [crun]. destruct (cstep st o) as [[st1 w0] r0] eqn:E0. destruct (crun st1 ops) as [st2 outs] eqn:E1.
  cbn [fst]. replace (hist ++ o :: ops) with ((hist ++ [o]) ++ ops) by (rewrite <- app_assoc; reflexivity).
  specialize (IH (hist ++ [o]) st1 (inv_step _ _ _ _ _ _ HI E0)). rewrite E1 in IH. exact IH.
Qed.

(** ** the fail flag and the verdict *)
Ltac verdict_goal :=
  repeat split; intros; cbn in *; try discriminate; try congruence; try tauto;
  repeat match goal with H : _ \/ _ |- _ => destruct H as [H|H] end; try contradiction; try congruence.

Theorem commit_says_commit st k a h st' w r :
  slot st k = Some h -> h_done h = false -> cstep st (OCommit k a) = (st', w, r) ->
  exists rest, w = WDisch (h_id h) false :: rest /\
    (forall x, In x rest -> x = WDisch (h_id h) true) /\
    (a = AAccepted -> rest = [] /\ r = ROk) /\
    (forall c, a = ARejected c -> r = RRejected c) /\
    (r = ROk -> a = AAccepted).
Proof.
  intros Hs Hd E. cbn [cstep] in E. rewrite Hs in E. unfold discharge in E. rewrite Hd in E.
  destruct a; cbn in E; unfold drop_wire in E; cbn in E; try rewrite Hd in E; injection E as <- <- <-;
    eexists; (split; [reflexivity|]); clear Hs Hd; verdict_goal.
Qed.

Theorem rollback_says_rollback st k a h st' w r :
  slot st k = Some h -> h_done h = false -> cstep st (ORollback k a) = (st', w, r) ->
  w <> [] /\ (forall x, In x w -> x = WDisch (h_id h) true) /\
  (a = AAccepted -> w = [WDisch (h_id h) true] /\ r = ROk) /\
  (forall c, a = ARejected c -> r = RRejected c) /\
  (r = ROk -> a = AAccepted).
Proof.
  intros Hs Hd E. cbn [cstep] in E. rewrite Hs in E. unfold discharge in E. rewrite Hd in E.
  destruct a; cbn in E; unfold drop_wire in E; cbn in E; try rewrite Hd in E; injection E as <- <- <-;
    clear Hs Hd; verdict_goal.
Qed.

Theorem drop_rolls_back st k h st' w r :
  slot st k = Some h -> h_done h = false -> cstep st (ODrop k) = (st', w, r) -> w = [WDisch (h_id h) true].
Proof.
  intros Hs Hd E. cbn [cstep] in E. rewrite Hs in E. injection E as <- <- <-. unfold drop_wire. rewrite Hd. reflexivity.
Qed.

Theorem declare_verdict st a st' w r :
  cstep st (ODecl a) = (st', w, r) ->
  w = [WDecl] /\ (forall id, a = ADeclared id -> r = ROkId id /\ slot st' (length st) = Some {| h_id := id; h_done := false |}) /\
  (forall c, a = ARejected c -> r = RRejected c) /\
  ((forall id, a <> ADeclared id) -> slot st' (length st) = None).
Proof.
  intros E. cbn [cstep] in E.
  destruct a; injection E as <- <- <-; repeat split; intros;
    try discriminate; try reflexivity; try apply slot_app_new;
    try (match goal with H : _ = _ |- _ => injection H as -> end; first [reflexivity | apply slot_app_new]);
    try (exfalso; match goal with H : forall _, _ <> _ |- _ => eapply H; reflexivity end).
Qed.

(** ** discharged at most once *)
Definition closed (st : cstate) (k : nat) : Prop :=
  k < length st /\ match slot st k with None => True | Some h => h_done h = true end.

Definition is_disch (x : cwire) : bool := match x with WDisch _ _ => true | _ => false end.

Lemma step_length st o st' w r : cstep st o = (st', w, r) -> length st <= length st'.
Proof.
  destruct o as [a|k m a|k a|k a|k fail a|k]; cbn [cstep].
  - destruct a; intros E; injection E as <- <- <-; rewrite app_length; cbn; lia.
  - destruct (slot st k); intros E; injection E as <- <- <-; lia.
  - destruct (slot st k) eqn:Es; [|intros E; injection E as <- <- <-; lia].
    destruct (discharge h false a) as [[? ?] ?]. intros E; injection E as <- <- <-.
    rewrite set_slot_length; [lia|eapply slot_some_lt; eauto].
  - destruct (slot st k) eqn:Es; [|intros E; injection E as <- <- <-; lia].
    destruct (discharge h true a) as [[? ?] ?]. intros E; injection E as <- <- <-.
    rewrite set_slot_length; [lia|eapply slot_some_lt; eauto].
  - destruct (slot st k) eqn:Es; [|intros E; injection E as <- <- <-; lia].
    destruct (discharge h fail a) as [[? ?] ?]. intros E; injection E as <- <- <-.
    rewrite set_slot_length; [lia|eapply slot_some_lt; eauto].
  - destruct (slot st k) eqn:Es; intros E; injection E as <- <- <-; [|lia].
    rewrite set_slot_length; [lia|eapply slot_some_lt; eauto].
Qed.

Lemma discharge_done h fail a w r h' : h_done h = true -> discharge h fail a = (w, r, h') -> w = [] /\ h' = h.
Proof. unfold discharge. intros ->. intros E; injection E as <- <- <-. auto. Qed.

(** a closed handle stays closed, and a call on it writes no discharge *)
Lemma closed_step st k o st' w r : closed st k -> cstep st o = (st', w, r) ->
  closed st' k /\ (op_slot o = Some k -> existsb is_disch w = false).
Proof.
  intros [Hlt Hc] E. pose proof (step_length _ _ _ _ _ E) as Hlen.
  assert (Hsame : forall j v, j < length st -> (j = k -> match v with None => True | Some h => h_done h = true end) ->
                    closed (set_slot st j v) k).
  { intros j v Hj Hv. split; [rewrite set_slot_length by exact Hj; exact Hlt|].
    rewrite slot_set_slot by exact Hj. destruct (Nat.eqb_spec k j) as [->|Hne]; [apply Hv; reflexivity|exact Hc]. }
  destruct o as [a|j m a|j a|j a|j fail a|j]; cbn [cstep op_slot] in *.
  - split; [|discriminate]. split; [lia|].
    assert (Hst : exists x, st' = st ++ [x]) by (destruct a; injection E as <- <- <-; eauto).
    destruct Hst as [x ->]. rewrite slot_app_old by exact Hlt. exact Hc.
  - destruct (slot st j) as [h0|] eqn:Es; injection E as <- <- <-; (split; [split; assumption|reflexivity]).
  - destruct (slot st j) as [h0|] eqn:Es; [|injection E as <- <- <-; split; [split; assumption|reflexivity]].
    destruct (discharge h0 false a) as [[w0 r0] h1] eqn:Ed. injection E as <- <- <-.
    pose proof (slot_some_lt _ _ _ Es) as Hj. split; [apply Hsame; [exact Hj|trivial]|].
    intros Hk. injection Hk as ->. rewrite Es in Hc.
    destruct (discharge_done _ _ _ _ _ _ Hc Ed) as [-> ->]. unfold drop_wire. rewrite Hc. reflexivity.
  - destruct (slot st j) as [h0|] eqn:Es; [|injection E as <- <- <-; split; [split; assumption|reflexivity]].
    destruct (discharge h0 true a) as [[w0 r0] h1] eqn:Ed. injection E as <- <- <-.
    pose proof (slot_some_lt _ _ _ Es) as Hj. split; [apply Hsame; [exact Hj|trivial]|].
    intros Hk. injection Hk as ->. rewrite Es in Hc.
    destruct (discharge_done _ _ _ _ _ _ Hc Ed) as [-> ->]. unfold drop_wire. rewrite Hc. reflexivity.
  - destruct (slot st j) as [h0|] eqn:Es; [|injection E as <- <- <-; split; [split; assumption|reflexivity]].
    destruct (discharge h0 fail a) as [[w0 r0] h1] eqn:Ed. injection E as <- <- <-.
    pose proof (slot_some_lt _ _ _ Es) as Hj. split.
    + apply Hsame; [exact Hj|]. intros ->. rewrite Es in Hc. destruct (discharge_done _ _ _ _ _ _ Hc Ed) as [_ ->]. exact Hc.
    + intros Hk. injection Hk as ->. rewrite Es in Hc. destruct (discharge_done _ _ _ _ _ _ Hc Ed) as [-> _]. reflexivity.
  - destruct (slot st j) as [h0|] eqn:Es; injection E as <- <- <-; [|split; [split; assumption|reflexivity]].
    pose proof (slot_some_lt _ _ _ Es) as Hj. split; [apply Hsame; [exact Hj|trivial]|].
    intros Hk. injection Hk as ->. rewrite Es in Hc. unfold drop_wire. rewrite Hc. reflexivity.
Qed.

(** a discharge the coordinator accepted, and every commit / rollback / drop, closes the handle *)
Lemma closing_step st k o st' w r h :
  slot st k = Some h ->
  cstep st o = (st', w, r) ->
  (exists a, o = OCommit k a) \/ (exists a, o = ORollback k a) \/ o = ODrop k \/ (exists fail, o = ODisch k fail AAccepted) ->
  closed st' k.
Proof.
  intros Hs E Ho. pose proof (slot_some_lt _ _ _ Hs) as Hlt.
  destruct Ho as [[a ->]|[[a ->]|[->|[fail ->]]]]; cbn [cstep] in E; rewrite Hs in E.
  - destruct (discharge h false a) as [[w0 r0] h1]. injection E as <- <- <-.
    split; [rewrite set_slot_length; assumption|]. rewrite slot_set_slot by exact Hlt. rewrite Nat.eqb_refl. exact I.
  - destruct (discharge h true a) as [[w0 r0] h1]. injection E as <- <- <-.
    split; [rewrite set_slot_length; assumption|]. rewrite slot_set_slot by exact Hlt. rewrite Nat.eqb_refl. exact I.
  - injection E as <- <- <-.
    split; [rewrite set_slot_length; assumption|]. rewrite slot_set_slot by exact Hlt. rewrite Nat.eqb_refl. exact I.
  - unfold discharge in E. destruct (h_done h) eqn:Hd; injection E as <- <- <-;
      (split; [rewrite set_slot_length; assumption|]); rewrite slot_set_slot by exact Hlt; rewrite Nat.eqb_refl; [exact Hd|reflexivity].
Qed.

(** once closed, no call on that handle in any continuation writes a discharge, and the end writes none for it *)
Theorem discharged_at_most_once : forall ops st k, closed st k ->
  closed (fst (crun st ops)) k /\
  forall i o w r, nth_error ops i = Some o -> nth_error (snd (crun st ops)) i = Some (w, r) ->
    op_slot o = Some k -> existsb is_disch w = false.
Proof.
  induction ops as [|o0 ops IH]; intros st k Hc; [split; [exact Hc|intros [|i]; discriminate]|].
  cbn [crun]. destruct (cstep st o0) as [[st1 w0] r0] eqn:E0. destruct (crun st1 ops) as [st2 outs] eqn:E1.
  destruct (closed_step _ _ _ _ _ _ Hc E0) as [Hc1 Hw0]. specialize (IH st1 k Hc1). rewrite E1 in IH.
  destruct IH as [IHc IHw]. cbn [fst snd] in *. split; [exact IHc|].
  intros [|i] o w r Ho Hw Hk; cbn [nth_error] in Ho, Hw.
  - injection Ho as <-. injection Hw as <- <-. apply Hw0. exact Hk.
  - eapply IHw; eauto.
Qed.

Lemma closed_final st k : closed st k ->
  match nth_error st k with Some (Some h) => drop_wire h = [] | _ => True end.
Proof.
  intros [_ Hc]. unfold slot in Hc. destruct (nth_error st k) as [[h|]|]; trivial. unfold drop_wire. rewrite Hc. reflexivity.
Qed.

(** non-vacuity: two transactions, one committed and refused (then rolled back by the drop), one rolled back *)
Example controller_example :
  let a := [10%N; 11%N] in let b := [7%N] in
  crun [] [ODecl (ADeclared a); ODecl (ARejected 2%N); ODecl (ADeclared b);
           OPost 0 0 PTxAccepted; OCommit 0 (ARejected 1%N); OPost 2 1 (PTxRejected 3%N); ORollback 2 AAccepted; OCommit 0 AAccepted] =
  ([None; None; None],
   [([WDecl], ROkId a); ([WDecl], RRejected 2%N); ([WDecl], ROkId b);
    ([WPost a 0], ROkAccepted);
    ([WDisch a false; WDisch a true], RRejected 1%N);
    ([WPost b 1], ROkRejected 3%N);
    ([WDisch b true], ROk);
    ([], RSkip)]).
Proof. vm_compute. reflexivity. Qed.
