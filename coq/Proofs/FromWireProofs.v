(** The whole chain for one delivery that does not fit a frame: the bytes the sending transport writes
    -> the receiving frame decoder -> the receiving link: nothing is handed to the application before
    the last frame, and the last frame hands over exactly the payload. *)
From Coq Require Import NArith List Lia.
From FV Require Import Base.Bytes Base.Serial Codec.Value Codec.Enc Codec.Dec Codec.Composite Codec.CompositeSpec.
From FV Require Import Frame.Transfer Frame.AmqpFrame Frame.TransferWire Link.Receiver Link.FromWire.
From FV Require Import Proofs.FrameProofs Proofs.TransferWireProofs Proofs.ReceiverProofs.
Import ListNotations.
Open Scope N_scope.

Theorem wire_to_delivery :
  forall m ch h d tb f st rs b payload p chunks fuel s,
    let vs := [h; VUint d; VBinary tb; VUint f; VNull; VBool false; VNull; st; rs; VBool false; b] in
    ch < 65536 -> fields_ok (s_fields transfer_schema) vs = true ->
    Forall (fun v => (depth v <= fuel)%nat) vs -> (1 <= fuel)%nat ->
    transfer_perfs vs = Some p ->
    transfer_layout m ch p payload chunks ->
    m - 4 < lenN (p_single p) + lenN payload ->
    r_waiting s = true -> r_queue s = [] -> r_inc s = None -> 1 <= r_credit s ->
    exists frames xs,
      map (dec_frame fuel) chunks = map (@Ok frame) frames /\
      map xfer_of_frame frames = map (@Some xfer) xs /\
      let r := rrun s (map EXfer xs) in
      exists info res,
        concat (removelast (snd r)) = [] /\ last (snd r) [] = [res] /\
        (res = ORecv info (Some f) payload \/ res = ORecvErr EIllegalRsm) /\
        d_id info = d /\ d_tag info = from_be tb /\
        r_inc (fst r) = None /\ r_credit (fst r) = r_credit s - 1 /\ r_dc (fst r) = wadd (r_dc s) 1.
Proof.
  intros m ch h d tb f st rs b payload p chunks fuel s vs Hch Hok Hd Hf Hp Hl Hm Hw Hq Hi Hc.
  destruct (transfer_wire_decodes m ch vs p payload chunks fuel Hch Hok Hd Hf Hp Hl) as [_ Hmulti].
  destruct (Hmulti Hm) as (first & mids & last & Hcat & Hdec).
  set (x0 := xfer_of_fields (with_more true vs) first).
  set (xm := fun part => xfer_of_fields (with_more true (cleared vs)) part).
  set (xf := xfer_of_fields (cleared vs) last).
  exists (expected_frames ch vs first mids last), (x0 :: map xm mids ++ [xf]).
  split; [exact Hdec|]. split.
  - unfold expected_frames. cbn [map]. rewrite !map_app, !map_map. cbn [map]. reflexivity.
  - cbv zeta.
    assert (Hxs : forallb (fun x => continues d (from_be tb) f x && x_more x) (map xm mids) = true).
    { apply forallb_forall. intros x Hin. apply in_map_iff in Hin. destruct Hin as (part & <- & _). reflexivity. }
    pose proof (reassembly s d (from_be tb) f x0 (map xm mids) xf Hw Hq Hi Hc eq_refl eq_refl eq_refl eq_refl eq_refl Hxs
                  ltac:(unfold continues; cbn; rewrite ?N.eqb_refl; reflexivity) eq_refl) as R.
    cbv zeta in R. destruct R as (info & res & A & B & C & D & E & F & G & H).
    assert (Hpay : x_pay x0 ++ concat (map x_pay (map xm mids)) ++ x_pay xf = payload).
    { cbn [x0 xf xfer_of_fields x_pay]. rewrite map_map. cbn [xm xfer_of_fields x_pay]. rewrite map_id. exact Hcat. }
    rewrite Hpay in C.
    assert (Hshape : map EXfer (x0 :: map xm mids ++ [xf]) = EXfer x0 :: map EXfer (map xm mids) ++ [EXfer xf]).
    { cbn [map]. rewrite map_app. reflexivity. }
    rewrite Hshape. exists info, res. repeat split; assumption.
Qed.

(** ** a delivery that fits one frame *)
Lemma step_only s d t f x :
  r_waiting s = true -> r_queue s = [] -> r_inc s = None -> 1 <= r_credit s ->
  x_did x = Some d -> x_tag x = Some t -> x_fmt x = Some f -> x_aborted x = false -> x_more x = false ->
  exists info r,
    snd (rstep s (EXfer x)) = [r] /\
    (r = ORecv info (Some f) (x_pay x) \/ r = ORecvErr EIllegalRsm) /\
    d_id info = d /\ d_tag info = t /\
    r_inc (fst (rstep s (EXfer x))) = None /\
    r_credit (fst (rstep s (EXfer x))) = r_credit s - 1 /\ r_dc (fst (rstep s (EXfer x))) = wadd (r_dc s) 1.
Proof.
  intros Hw Hq Hi Hcr Hd Ht Hf Hab Hm.
  cbn [rstep]. unfold fuel_of. cbn [r_queue length]. rewrite Hq. cbn [app length].
  rewrite (pump_one _ x) by (cbn; auto).
  cbn [r_mode r_second r_credit r_dc r_drain r_processed r_inc r_waiting r_held r_unsettled r_reg].
  unfold process. cbn [r_inc]. rewrite Hab, Hm, Hi.
  unfold complete, start.
  cbn [set_inc r_credit r_mode r_second r_dc r_drain r_processed r_inc r_queue r_waiting r_held r_unsettled r_reg i_did i_tag i_settled i_fmt i_buf i_rsm].
  destruct (r_credit s <? 1) eqn:E; [lia|].
  rewrite Hd, Ht, Hf.
  destruct (match x_settled x with Some true => true | _ => false end).
  - exists (mkD d t None). eexists. cbn [fst snd stop_waiting r_inc r_waiting r_queue r_credit r_dc].
    split; [reflexivity|]. split; [left; reflexivity|]. repeat split; reflexivity.
  - destruct (negb (r_second s) && match x_rsm x with Some true => true | _ => false end).
    + exists (mkD d t None). eexists. cbn [fst snd stop_waiting r_inc r_waiting r_queue r_credit r_dc].
      split; [reflexivity|]. split; [right; reflexivity|]. repeat split; reflexivity.
    + exists (mkD d t (x_rsm x)). eexists. cbn [fst snd stop_waiting r_inc r_waiting r_queue r_credit r_dc].
      split; [reflexivity|]. split; [left; reflexivity|]. repeat split; reflexivity.
Qed.

Theorem wire_to_delivery_single :
  forall m ch h d tb f st rs b payload p chunks fuel s,
    let vs := [h; VUint d; VBinary tb; VUint f; VNull; VBool false; VNull; st; rs; VBool false; b] in
    ch < 65536 -> fields_ok (s_fields transfer_schema) vs = true ->
    Forall (fun v => (depth v <= fuel)%nat) vs -> (1 <= fuel)%nat ->
    transfer_perfs vs = Some p ->
    transfer_layout m ch p payload chunks ->
    lenN (p_single p) + lenN payload <= m - 4 ->
    r_waiting s = true -> r_queue s = [] -> r_inc s = None -> 1 <= r_credit s ->
    exists fr x,
      map (dec_frame fuel) chunks = [Ok fr] /\ xfer_of_frame fr = Some x /\
      exists info res,
        snd (rstep s (EXfer x)) = [res] /\
        (res = ORecv info (Some f) payload \/ res = ORecvErr EIllegalRsm) /\
        d_id info = d /\ d_tag info = from_be tb /\
        r_inc (fst (rstep s (EXfer x))) = None /\
        r_credit (fst (rstep s (EXfer x))) = r_credit s - 1 /\ r_dc (fst (rstep s (EXfer x))) = wadd (r_dc s) 1.
Proof.
  intros m ch h d tb f st rs b payload p chunks fuel s vs Hch Hok Hd Hf Hp Hl Hs Hw Hq Hi Hc.
  destruct (transfer_wire_decodes m ch vs p payload chunks fuel Hch Hok Hd Hf Hp Hl) as [Hsingle _].
  exists {| f_channel := ch; f_body := FPerf transfer_schema vs payload |}, (xfer_of_fields vs payload).
  split; [exact (Hsingle Hs)|]. split; [reflexivity|].
  exact (step_only s d (from_be tb) f (xfer_of_fields vs payload) Hw Hq Hi Hc eq_refl eq_refl eq_refl eq_refl eq_refl).
Qed.
