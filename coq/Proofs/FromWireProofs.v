(** The whole chain for one delivery that does not fit a frame: the bytes the sending transport writes
    -> the receiving frame decoder -> the receiving link: nothing is handed to the application before
    the last frame, and the last frame hands over exactly the payload. *)
From Coq Require Import NArith List Lia.
From FV Require Import Base.Bytes Base.Serial Codec.Value Codec.Enc Codec.Dec Codec.Composite Codec.CompositeSpec.
From FV Require Import Frame.Transfer Frame.AmqpFrame Frame.TransferWire Link.Receiver Link.FromWire.
From FV Require Import Proofs.FrameProofs Proofs.TransferWireProofs Proofs.ReceiverProofs.
Import ListNotations.
Open Scope N_scope.

Theorem wire_to_delivery :
  forall m ch h d tb f st rs b payload p chunks fuel s,
    let vs := [h; VUint d; VBinary tb; VUint f; VNull; VBool false; VNull; st; rs; VBool false; b] in
    ch < 65536 -> fields_ok (s_fields transfer_schema) vs = true ->
    Forall (fun v => (depth v <= fuel)%nat) vs -> (1 <= fuel)%nat ->
    transfer_perfs vs = Some p ->
    transfer_layout m ch p payload chunks ->
    m - 4 < lenN (p_single p) + lenN payload ->
    r_waiting s = true -> r_queue s = [] -> r_inc s = None -> 1 <= r_credit s ->
    exists frames xs,
      map (dec_frame fuel) chunks = map (@Ok frame) frames /\
      map xfer_of_frame frames = map (@Some xfer) xs /\
      let r := rrun s (map EXfer xs) in
      exists info res,
        concat (removelast (snd r)) = [] /\ last (snd r) [] = [res] /\
        (res = ORecv info (Some f) payload \/ res = ORecvErr EIllegalRsm) /\
        d_id info = d /\ d_tag info = from_be tb /\
        r_inc (fst r) = None /\ r_credit (fst r) = r_credit s - 1 /\ r_dc (fst r) = wadd (r_dc s) 1.
Proof.
  intros m ch h d tb f st rs b payload p chunks fuel s vs Hch Hok Hd Hf Hp Hl Hm Hw Hq Hi Hc.
  destruct (transfer_wire_decodes m ch vs p payload chunks fuel Hch Hok Hd Hf Hp Hl) as [_ Hmulti].
  destruct (Hmulti Hm) as (first & mids & last & Hcat & Hdec).
  set (x0 := xfer_of_fields (with_more true vs) first).
  set (xm := fun part => xfer_of_fields (with_more true (cleared vs)) part).
  set (xf := xfer_of_fields (cleared vs) last).
  exists (expected_frames ch vs first mids last), (x0 :: map xm mids ++ [xf]).
  split; [exact Hdec|]. split.
  - unfold expected_frames. cbn [map]. rewrite !map_app, !map_map. cbn [map]. reflexivity.
  - cbv zeta.
    assert (Hxs : forallb (fun x => continues d (from_be tb) f x && x_more x) (map xm mids) = true).
    { apply forallb_forall. intros x Hin. apply in_map_iff in Hin. destruct Hin as (part & <- & _). reflexivity. }
    pose proof (reassembly s d (from_be tb) f x0 (map xm mids) xf Hw Hq Hi Hc eq_refl eq_refl eq_refl eq_refl eq_refl Hxs
                  ltac:(unfold continues; cbn; rewrite ?N.eqb_refl; reflexivity) eq_refl) as R.
    cbv zeta in R. destruct R as (info & res & A & B & C & D & E & F & G & H).
    assert (Hpay : x_pay x0 ++ concat (map x_pay (map xm mids)) ++ x_pay xf = payload).
    { cbn [x0 xf xfer_of_fields x_pay]. rewrite map_map. cbn [xm xfer_of_fields x_pay]. rewrite map_id. exact Hcat. }
    rewrite Hpay in C.
    assert (Hshape : map EXfer (x0 :: map xm mids ++ [xf]) = EXfer x0 :: map EXfer (map xm mids) ++ [EXfer xf]).
    { cbn [map]. rewrite map_app. reflexivity. }
    rewrite Hshape. exists info, res. repeat split; assumption.
Qed.
