(** The AMQP frame codec: what the encoder writes for a frame the decoder reads back
    as that frame; the decoder is total on arbitrary bytes. *)
From Coq Require Import NArith List Lia.
From FV Require Import Base.Bytes Codec.Value Codec.Enc Codec.Dec Codec.Composite Codec.CompositeSpec Frame.AmqpFrame.
From FV Require Import Proofs.BytesProofs Proofs.RoundTripScalars Proofs.RoundTrip Proofs.DecTotal.
From FV Require Import Tie.Tie_Composites Proofs.CompositeProofs Proofs.CompositeTable.
Import ListNotations.
Open Scope N_scope.

Lemma performative_in_table s : In s performative_schemas -> In s spec_schemas.
Proof. unfold performative_schemas. intros H. apply filter_In in H. tauto. Qed.

Lemma performative_codes_distinct : NoDup (map s_code performative_schemas).
Proof. apply nodupb_NoDup. vm_compute. reflexivity. Qed.

Lemma performative_dispatch s : In s performative_schemas -> dispatch performative_schemas (DCode (s_code s)) = Some s.
Proof. intros H. apply dispatch_finds; [exact H|exact performative_codes_distinct]. Qed.

Lemma from_be_2 ch : ch < 65536 -> exists c1 c0, to_be 2 ch = [c1; c0] /\ from_be [c1; c0] = ch.
Proof.
  intros H. pose proof (to_be_length 2 ch) as L. destruct (to_be 2 ch) as [|c1 [|c0 [|? ?]]] eqn:E; cbn in L; try discriminate.
  exists c1, c0. split; [reflexivity|]. rewrite <- E. apply from_be_to_be. cbn. lia.
Qed.

(** the bytes of a composite start with the descriptor: 0x00, the code as a ulong, then the list *)
Lemma enc_composite_shape s vs b :
  enc_composite Plain s vs = Some b ->
  exists lb, b = 0 :: enc_ulong Plain (s_code s) ++ lb.
Proof.
  unfold enc_composite. cbn [enc enc_descriptor]. unfold opt_app.
  destruct (match cat_opt (map (enc Plain) (elide (s_fields s) vs 0)) with
            | Some buf => write_list Plain (lenN (elide (s_fields s) vs 0)) buf | None => None end) as [lb|]; [|discriminate].
  intros E. injection E as <-. exists lb. reflexivity.
Qed.

Theorem frame_roundtrip f b fuel :
  f_channel f < 65536 -> body_ok (f_body f) ->
  (match f_body f with FPerf _ vs _ => Forall (fun v => (depth v <= fuel)%nat) vs /\ (1 <= fuel)%nat | FEmpty => True end) ->
  enc_frame f = Some b -> dec_frame fuel b = Ok f.
Proof.
  destruct f as [ch body]. cbn [f_channel f_body]. intros Hch Hok Hfuel E.
  destruct (from_be_2 ch Hch) as (c1 & c0 & Hto & Hfrom).
  unfold enc_frame in E. cbn [f_channel f_body] in E. rewrite Hto in E.
  destruct body as [|s vs payload].
  - injection E as <-. cbn. rewrite Hfrom. reflexivity.
  - destruct Hok as (Hin & Hfields & Hpay). destruct Hfuel as [Hdep Hf1].
    destruct (enc_composite Plain s vs) as [cb|] eqn:Ec; [|discriminate]. injection E as <-.
    destruct (enc_composite_shape s vs cb Ec) as (lb & Hshape).
    pose proof (performative_in_table s Hin) as Hin'.
    pose proof (table_schema_ok s Hin') as Hs. unfold schema_ok in Hs.
    apply andb_true_iff in Hs. destruct Hs as [Hs _]. apply andb_true_iff in Hs. destruct Hs as [_ Hcode].
    cbn [app dec_frame]. change (negb (0 =? 0)) with false. change (negb (2 =? 2)) with false. cbv iota.
    rewrite Hfrom.
    assert (Hbody : cb ++ payload = 0 :: enc_ulong Plain (s_code s) ++ (lb ++ payload)).
    { rewrite Hshape. cbn [app]. rewrite <- app_assoc. reflexivity. }
    destruct cb as [|cb0 cbr]; [discriminate|]. cbn [app].
    change (cb0 :: cbr ++ payload) with ((cb0 :: cbr) ++ payload).
    unfold dec_via_enum. rewrite Hbody.
    rewrite (dec_descriptor_rt (DCode (s_code s)) (enc_ulong Plain (s_code s)) (lb ++ payload) Hcode eq_refl).
    cbn [bind]. rewrite (performative_dispatch s Hin). rewrite <- Hbody.
    rewrite (table_roundtrip s Hin' vs fuel (cb0 :: cbr) payload Hfields Hdep Hf1 Ec). cbn [bind].
    destruct Hpay as [Ht| ->].
    + rewrite Ht. reflexivity.
    + destruct (s_code s =? TRANSFER_CODE); reflexivity.
Qed.

(** ** totality *)
Lemma list_header_np bs : list_header bs <> Panic /\ list_header bs <> OutOfFuel.
Proof.
  unfold list_header.
  destruct (take_code_cases None bs) as [(c & t & H)|(er & H)]; rewrite H; cbn [bind]; [|split; discriminate].
  destruct (c =? 69); [split; discriminate|].
  destruct (c =? 192).
  { destruct (read_byte_cases t) as [(x & t' & Hr)|(er & Hr)]; rewrite Hr; cbn [bind]; [|split; discriminate].
    destruct (read_byte_cases t') as [(y & t'' & Hr')|(er & Hr')]; rewrite Hr'; cbn [bind]; split; discriminate. }
  destruct (c =? 208); [|split; discriminate].
  destruct (read_be_cases 4 t) as [(x & t' & Hr)|(er & Hr)]; rewrite Hr; cbn [bind]; [|split; discriminate].
  destruct (read_be_cases 4 t') as [(y & t'' & Hr')|(er & Hr')]; rewrite Hr'; cbn [bind]; split; discriminate.
Qed.

Lemma field_of_present_np k v : field_of_present k v <> Panic /\ field_of_present k v <> OutOfFuel.
Proof. destruct k; cbn; try (split; discriminate). destruct (is_null v); split; discriminate. Qed.
Lemma field_of_missing_np k : field_of_missing k <> Panic /\ field_of_missing k <> OutOfFuel.
Proof. destruct k; cbn; split; discriminate. Qed.

(** the field loop never panics; with fuel beyond the length of the input it never runs out of fuel *)
Lemma dec_fields_np fuel : forall ks left bs, dec_fields fuel ks left bs <> Panic.
Proof.
  induction ks as [|k ks IH]; intros left bs; cbn [dec_fields]; [discriminate|].
  assert (Hmiss : (let* fv := field_of_missing k in let* (fvs, r') := dec_fields fuel ks left bs in Ok (fv :: fvs, r')) <> Panic).
  { destruct (field_of_missing k) eqn:Em; cbn [bind]; try discriminate.
    - specialize (IH left bs). destruct (dec_fields fuel ks left bs) as [[? ?]| | |]; cbn [bind]; congruence.
    - exfalso. exact (proj1 (field_of_missing_np k) Em). }
  destruct bs as [|b r]; [exact Hmiss|].
  destruct (0 <? left); [|exact Hmiss].
  destruct (negb (known_code b)); [discriminate|].
  pose proof (dec_no_panic fuel None (b :: r)) as Hd.
  destruct (dec fuel None (b :: r)) as [[[v e] r']| | |]; cbn [bind]; try congruence; try discriminate.
  destruct (field_of_present k v) eqn:Ep; cbn [bind]; try discriminate.
  - specialize (IH (left - 1) r'). destruct (dec_fields fuel ks (left - 1) r') as [[? ?]| | |]; cbn [bind]; congruence.
  - exfalso. exact (proj1 (field_of_present_np k v) Ep).
Qed.

Lemma dec_fields_fuel fuel : forall ks left bs, (length bs < fuel)%nat -> dec_fields fuel ks left bs <> OutOfFuel.
Proof.
  induction ks as [|k ks IH]; intros left bs Hlen; cbn [dec_fields]; [discriminate|].
  assert (Hmiss : (let* fv := field_of_missing k in let* (fvs, r') := dec_fields fuel ks left bs in Ok (fv :: fvs, r')) <> OutOfFuel).
  { destruct (field_of_missing k) eqn:Em; cbn [bind]; try discriminate.
    - specialize (IH left bs Hlen). destruct (dec_fields fuel ks left bs) as [[? ?]| | |]; cbn [bind]; congruence.
    - exfalso. exact (proj2 (field_of_missing_np k) Em). }
  destruct bs as [|b r]; [exact Hmiss|].
  destruct (0 <? left); [|exact Hmiss].
  destruct (negb (known_code b)); [discriminate|].
  pose proof (dec_good fuel None (b :: r) Hlen) as Hd.
  destruct (dec fuel None (b :: r)) as [[[v e] r']| | |]; cbn [bind]; try discriminate; try (cbn in Hd; contradiction).
  cbn in Hd. unfold rest3 in Hd. cbn [snd] in Hd.
  destruct (field_of_present k v) eqn:Ep; cbn [bind]; try discriminate.
  - assert (Hl' : (length r' < fuel)%nat) by (cbn [length] in Hlen; lia).
    specialize (IH (left - 1) r' Hl'). destruct (dec_fields fuel ks (left - 1) r') as [[? ?]| | |]; cbn [bind]; congruence.
  - exfalso. exact (proj2 (field_of_present_np k v) Ep).
Qed.

Lemma list_header_rest bs c r : list_header bs = Ok (c, r) -> (length r <= length bs)%nat.
Proof.
  unfold list_header.
  destruct (take_code_cases None bs) as [(cd & t & H)|(er & H)]; rewrite H; cbn [bind]; [|discriminate].
  pose proof (take_code_none_ok _ _ _ H) as L.
  destruct (cd =? 69); [intros E; injection E as <- <-; lia|].
  destruct (cd =? 192).
  { destruct (read_byte_cases t) as [(x & t' & Hr)|(er & Hr)]; rewrite Hr; cbn [bind]; [|discriminate].
    pose proof (read_byte_ok _ _ _ Hr).
    destruct (read_byte_cases t') as [(y & t'' & Hr')|(er & Hr')]; rewrite Hr'; cbn [bind]; [|discriminate].
    pose proof (read_byte_ok _ _ _ Hr'). intros E; injection E as <- <-; lia. }
  destruct (cd =? 208); [|discriminate].
  destruct (read_be_cases 4 t) as [(x & t' & Hr)|(er & Hr)]; rewrite Hr; cbn [bind]; [|discriminate].
  pose proof (read_be_ok _ _ _ _ Hr).
  destruct (read_be_cases 4 t') as [(y & t'' & Hr')|(er & Hr')]; rewrite Hr'; cbn [bind]; [|discriminate].
  pose proof (read_be_ok _ _ _ _ Hr'). intros E; injection E as <- <-; lia.
Qed.

Lemma dec_composite_total fuel s bs :
  dec_composite fuel s bs <> Panic /\ ((length bs < fuel)%nat -> dec_composite fuel s bs <> OutOfFuel).
Proof.
  unfold dec_composite. pose proof (dec_descriptor_good None bs) as Hd.
  destruct (dec_descriptor None bs) as [[d r1]| | |]; cbn [bind]; try contradiction; [|split; discriminate].
  destruct (negb (descriptor_matches s d)); [split; discriminate|].
  pose proof (list_header_np r1) as [Hp Ho].
  destruct (list_header r1) as [[count r2]| | |] eqn:El; cbn [bind]; try congruence; [|split; discriminate].
  pose proof (list_header_rest _ _ _ El). split; [apply dec_fields_np|].
  intros Hlen. apply dec_fields_fuel. lia.
Qed.

Lemma dec_via_enum_total fuel tbl bs :
  dec_via_enum fuel tbl bs <> Panic /\ ((length bs < fuel)%nat -> dec_via_enum fuel tbl bs <> OutOfFuel).
Proof.
  unfold dec_via_enum. pose proof (dec_descriptor_good None bs) as Hd.
  destruct (dec_descriptor None bs) as [[d r1]| | |]; cbn [bind]; try contradiction; [|split; discriminate].
  destruct (dispatch tbl d) as [s|]; [|split; discriminate].
  pose proof (dec_composite_total fuel s bs) as [Hp Ho].
  destruct (dec_composite fuel s bs) as [[vs rest]| | |]; cbn [bind]; try congruence; try (split; discriminate).
  split; [discriminate|]. intros Hlen. exfalso. apply Ho; [exact Hlen|reflexivity].
Qed.

(** an enum of composites reads its own variant back *)
Theorem enum_roundtrip tbl s vs fuel b rest :
  In s tbl -> NoDup (map s_code tbl) -> schema_ok s = true ->
  fields_ok (s_fields s) vs = true -> Forall (fun v => (depth v <= fuel)%nat) vs -> (1 <= fuel)%nat ->
  enc_composite Plain s vs = Some b ->
  dec_via_enum fuel tbl (b ++ rest) = Ok (s, vs, rest).
Proof.
  intros Hin Hnd Hs Hfields Hdep Hf1 Ec.
  destruct (enc_composite_shape s vs b Ec) as (lb & Hshape).
  pose proof Hs as Hs'. unfold schema_ok in Hs'.
  apply andb_true_iff in Hs'. destruct Hs' as [Hs' _]. apply andb_true_iff in Hs'. destruct Hs' as [_ Hcode].
  assert (Hbody : b ++ rest = 0 :: enc_ulong Plain (s_code s) ++ (lb ++ rest)).
  { rewrite Hshape. cbn [app]. rewrite <- app_assoc. reflexivity. }
  unfold dec_via_enum. rewrite Hbody.
  rewrite (dec_descriptor_rt (DCode (s_code s)) (enc_ulong Plain (s_code s)) (lb ++ rest) Hcode eq_refl).
  cbn [bind]. rewrite (dispatch_finds tbl s Hin Hnd). rewrite <- Hbody.
  rewrite (composite_roundtrip s vs fuel b rest Hs Hfields Hdep Hf1 Ec). reflexivity.
Qed.

Theorem dec_frame_total bs :
  (forall fuel, dec_frame fuel bs <> Panic) /\ dec_frame (S (length bs)) bs <> OutOfFuel.
Proof.
  assert (Hgen : forall fuel, dec_frame fuel bs <> Panic /\ ((length bs < fuel)%nat -> dec_frame fuel bs <> OutOfFuel)).
  { intros fuel. unfold dec_frame.
    destruct bs as [|doff [|ftype [|c1 [|c0 body]]]]; try (split; discriminate).
    destruct (negb (ftype =? 0)); [split; discriminate|]. destruct (negb (doff =? 2)); [split; discriminate|].
    destruct body as [|b0 body']; [split; discriminate|].
    pose proof (dec_via_enum_total fuel performative_schemas (b0 :: body')) as [Hp Ho].
    destruct (dec_via_enum fuel performative_schemas (b0 :: body')) as [[[s vs] rest]| | |]; cbn [bind]; try congruence; try (split; discriminate).
    split; [discriminate|]. intros Hlen. exfalso. apply Ho; [cbn [length] in *; lia|reflexivity]. }
  split; [intros fuel; apply Hgen|]. apply Hgen. lia.
Qed.

(** ** non-vacuity and the header rules *)
Definition begin_schema : schema := nth 1 spec_schemas {| s_name := []; s_code := 0; s_fields := [] |}.
Definition begin_frame : frame :=
  {| f_channel := 3;
     f_body := FPerf begin_schema [VNull; VUint 1; VUint 2048; VUint 2048; VUint 4294967295; VNull; VNull; VNull] [] |}.
Example begin_frame_example :
  body_ok (f_body begin_frame) /\
  enc_frame begin_frame = Some [2; 0; 0; 3; 0; 83; 17; 192; 14; 4; 64; 82; 1; 112; 0; 0; 8; 0; 112; 0; 0; 8; 0] /\
  dec_frame 5 [2; 0; 0; 3; 0; 83; 17; 192; 14; 4; 64; 82; 1; 112; 0; 0; 8; 0; 112; 0; 0; 8; 0] = Ok begin_frame.
Proof.
  split; [|split; vm_compute; reflexivity].
  cbn. split; [|split; [vm_compute; reflexivity|right; reflexivity]].
  vm_compute. right. left. reflexivity.
Qed.

Theorem header_rules fuel doff ftype c1 c0 body :
  (ftype <> 0 \/ doff <> 2) -> exists e, dec_frame fuel (doff :: ftype :: c1 :: c0 :: body) = Err e.
Proof.
  intros H. cbn [dec_frame]. destruct (ftype =? 0) eqn:Et; cbn [negb]; [|eauto].
  destruct (doff =? 2) eqn:Ed; cbn [negb]; [|eauto].
  apply N.eqb_eq in Et, Ed. destruct H; contradiction.
Qed.

Theorem short_frame_refused fuel bs : (length bs < 4)%nat -> exists e, dec_frame fuel bs = Err e.
Proof.
  intros H. destruct bs as [|a [|b [|c [|d r]]]]; cbn [dec_frame]; eauto. cbn [length] in H. lia.
Qed.

Theorem heartbeat_frame fuel c1 c0 :
  dec_frame fuel [2; 0; c1; c0] = Ok {| f_channel := from_be [c1; c0]; f_body := FEmpty |}.
Proof. reflexivity. Qed.

(** ** enums of composites accept every layout, with the descriptor by code or by name *)
Lemma performative_dispatch_by_name s :
  In s performative_schemas -> dispatch performative_schemas (DName (s_name s)) = Some s.
Proof.
  intros Hin. vm_compute in Hin.
  repeat (destruct Hin as [<- |Hin]; [vm_compute; reflexivity|]). contradiction.
Qed.
Lemma delivery_state_dispatch_by_name s :
  In s delivery_state_schemas -> dispatch delivery_state_schemas (DName (s_name s)) = Some s.
Proof.
  intros Hin. vm_compute in Hin.
  repeat (destruct Hin as [<- |Hin]; [vm_compute; reflexivity|]). contradiction.
Qed.
Lemma delivery_state_codes_distinct : NoDup (map s_code delivery_state_schemas).
Proof. apply nodupb_NoDup. vm_compute. reflexivity. Qed.
Lemma delivery_state_in_table s : In s delivery_state_schemas -> In s spec_schemas.
Proof. unfold delivery_state_schemas. intros H. apply filter_In in H. tauto. Qed.

Theorem enum_layouts_accepted tbl s d vs ws fuel b rest :
  In s spec_schemas -> dispatch tbl d = Some s ->
  (d = DCode (s_code s) \/ d = DName (s_name s)) ->
  fields_ok (s_fields s) vs = true ->
  presentation (s_fields s) vs ws = true ->
  forallb wf ws = true -> lenN ws <= MAXCOUNT -> Forall (fun w => (depth w <= fuel)%nat) ws ->
  enc Plain (VDescribed d (VList ws)) = Some b ->
  dec_via_enum fuel tbl (b ++ rest) = Ok (s, vs, rest).
Proof.
  intros Hin Hdisp Hd Hok Hp Hwf Hc Hdep E.
  pose proof (table_layouts_accepted s Hin d vs ws fuel b rest Hd Hok Hp Hwf Hc Hdep E) as Hdec.
  assert (Hwd : wf_descriptor d = true).
  { pose proof (table_schema_ok s Hin) as Hs. unfold schema_ok in Hs.
    apply andb_true_iff in Hs. destruct Hs as [Hs _]. apply andb_true_iff in Hs. destruct Hs as [_ Hcode].
    pose proof table_names_wf as Hn. rewrite forallb_forall in Hn. specialize (Hn s Hin).
    destruct Hd as [-> | ->]; [exact Hcode|exact Hn]. }
  cbn [enc] in E. unfold opt_app in E.
  destruct (enc_descriptor Plain d) as [db|] eqn:Ed; [|discriminate].
  destruct (match cat_opt (map (enc Plain) ws) with Some buf => write_list Plain (lenN ws) buf | None => None end) as [lb|]; [|discriminate].
  injection E as <-. unfold dec_via_enum.
  match goal with
  | |- context [dec_descriptor None (?X ++ rest)] =>
      assert (Hb : X ++ rest = 0 :: db ++ (lb ++ rest)) by (cbn [app]; rewrite <- ?app_assoc; reflexivity);
      rewrite Hb; rewrite (dec_descriptor_rt d db (lb ++ rest) Hwd Ed); cbn [bind]; rewrite Hdisp; rewrite <- Hb
  end.
  rewrite Hdec. reflexivity.
Qed.
