(** Byte-level composition of the sending transport (Frame/Transfer.v, C06) with the typed layer and the
    frame decoder (Codec/Composite.v, Frame/AmqpFrame.v): every frame [encode_transfer] writes for a
    delivery is read by the frame decoder as a transfer performative with exactly the expected fields
    and payload part, and the parts concatenate to the payload. *)
From Coq Require Import NArith List Lia.
From FV Require Import Base.Bytes Codec.Value Codec.Enc Codec.Dec Codec.Composite Codec.CompositeSpec.
From FV Require Import Frame.Transfer Frame.AmqpFrame Frame.TransferWire.
From FV Require Import Proofs.BytesProofs Proofs.FrameProofs Proofs.CompositeProofs Proofs.AmqpFrameProofs.
Import ListNotations.
Open Scope N_scope.

Lemma write_header_to_be ch : ch < 65536 -> write_header ch = 2 :: 0 :: to_be 2 ch.
Proof.
  intros H. unfold write_header, to_be. cbn [to_le rev app].
  assert (E : (ch / 256) mod 256 = ch / 256).
  { apply N.mod_small. apply N.div_lt_upper_bound; lia. }
  rewrite E. reflexivity.
Qed.

Lemma transfer_is_performative : In transfer_schema performative_schemas.
Proof. vm_compute. do 4 right. left. reflexivity. Qed.
Lemma transfer_code : s_code transfer_schema = TRANSFER_CODE.
Proof. reflexivity. Qed.

Lemma fields_ok_set_nth : forall ks vs n x,
  fields_ok ks vs = true ->
  (forall k, nth_error ks n = Some k -> field_ok k x = true) ->
  fields_ok ks (set_nth n x vs) = true.
Proof.
  induction ks as [|k ks IH]; intros [|v vs] n x H Hx; cbn [fields_ok] in H; try discriminate.
  - destruct n; reflexivity.
  - apply andb_true_iff in H. destruct H as [Hk H]. destruct n as [|n]; cbn [set_nth fields_ok].
    + rewrite (Hx k eq_refl), H. reflexivity.
    + rewrite Hk. cbn [andb]. apply IH; [exact H|]. intros k' Hn. apply Hx. exact Hn.
Qed.

Lemma set_nth_depth {fuel} : forall vs n x,
  Forall (fun v => (depth v <= fuel)%nat) vs -> (depth x <= fuel)%nat ->
  Forall (fun v => (depth v <= fuel)%nat) (set_nth n x vs).
Proof.
  induction vs as [|v vs IH]; intros n x H Hx; destruct n; cbn [set_nth]; auto.
  - inversion H; subst. constructor; auto.
  - inversion H; subst. constructor; auto.
Qed.

Lemma with_more_ok b vs :
  fields_ok (s_fields transfer_schema) vs = true -> fields_ok (s_fields transfer_schema) (with_more b vs) = true.
Proof.
  intros H. apply fields_ok_set_nth; [exact H|]. intros k Hk. vm_compute in Hk. injection Hk as <-. destruct b; reflexivity.
Qed.
Lemma cleared_ok vs :
  fields_ok (s_fields transfer_schema) vs = true -> fields_ok (s_fields transfer_schema) (cleared vs) = true.
Proof.
  intros H. unfold cleared.
  repeat (apply fields_ok_set_nth; [|intros k Hk; vm_compute in Hk; injection Hk as <-; reflexivity]).
  exact H.
Qed.
Lemma with_more_depth fuel b vs :
  (1 <= fuel)%nat -> Forall (fun v => (depth v <= fuel)%nat) vs -> Forall (fun v => (depth v <= fuel)%nat) (with_more b vs).
Proof. intros Hf H. apply set_nth_depth; [exact H|cbn; lia]. Qed.
Lemma cleared_depth fuel vs :
  (1 <= fuel)%nat -> Forall (fun v => (depth v <= fuel)%nat) vs -> Forall (fun v => (depth v <= fuel)%nat) (cleared vs).
Proof. intros Hf H. unfold cleared. repeat (apply set_nth_depth; [|cbn; lia]). exact H. Qed.

(** one frame *)
Lemma transfer_frame_decodes ch vs perf part fuel :
  ch < 65536 -> fields_ok (s_fields transfer_schema) vs = true ->
  Forall (fun v => (depth v <= fuel)%nat) vs -> (1 <= fuel)%nat ->
  enc_composite Plain transfer_schema vs = Some perf ->
  dec_frame fuel (frame_of (write_header ch) perf part) =
    Ok {| f_channel := ch; f_body := FPerf transfer_schema vs part |}.
Proof.
  intros Hch Hok Hd Hf E.
  apply (frame_roundtrip {| f_channel := ch; f_body := FPerf transfer_schema vs part |}).
  - exact Hch.
  - cbn [f_body body_ok]. split; [exact transfer_is_performative|]. split; [exact Hok|]. left. exact transfer_code.
  - cbn [f_body]. split; assumption.
  - unfold enc_frame. cbn [f_channel f_body]. rewrite E. unfold frame_of. rewrite (write_header_to_be ch Hch). reflexivity.
Qed.

Theorem transfer_wire_decodes m ch vs p payload chunks fuel :
  ch < 65536 -> fields_ok (s_fields transfer_schema) vs = true ->
  Forall (fun v => (depth v <= fuel)%nat) vs -> (1 <= fuel)%nat ->
  transfer_perfs vs = Some p ->
  transfer_layout m ch p payload chunks ->
  (lenN (p_single p) + lenN payload <= m - 4 ->
     map (dec_frame fuel) chunks = [Ok {| f_channel := ch; f_body := FPerf transfer_schema vs payload |}]) /\
  (m - 4 < lenN (p_single p) + lenN payload ->
     exists first mids last,
       first ++ concat mids ++ last = payload /\
       map (dec_frame fuel) chunks = map (@Ok frame) (expected_frames ch vs first mids last)).
Proof.
  intros Hch Hok Hd Hf Hp [Hsingle Hmulti]. unfold transfer_perfs in Hp.
  destruct (enc_composite Plain transfer_schema vs) as [a|] eqn:Ea; [|discriminate].
  destruct (enc_composite Plain transfer_schema (with_more true vs)) as [b|] eqn:Eb; [|discriminate].
  destruct (enc_composite Plain transfer_schema (with_more true (cleared vs))) as [c|] eqn:Ec; [|discriminate].
  destruct (enc_composite Plain transfer_schema (cleared vs)) as [d|] eqn:Ed; [|discriminate].
  injection Hp as <-. cbn [p_single p_first p_mid p_last] in *.
  split.
  - intros Hs. rewrite (Hsingle Hs). cbn [map].
    rewrite (transfer_frame_decodes ch vs a payload fuel Hch Hok Hd Hf Ea). reflexivity.
  - intros Hm. destruct (Hmulti Hm) as (first & mids & last & Hchunks & Hcat & _).
    exists first, mids, last. split; [exact Hcat|]. rewrite Hchunks. unfold expected_frames.
    cbn [map]. rewrite !map_app, !map_map. cbn [map].
    rewrite (transfer_frame_decodes ch (with_more true vs) b first fuel Hch (with_more_ok true vs Hok) (with_more_depth fuel true vs Hf Hd) Hf Eb).
    rewrite (transfer_frame_decodes ch (cleared vs) d last fuel Hch (cleared_ok vs Hok) (cleared_depth fuel vs Hf Hd) Hf Ed).
    f_equal. f_equal. apply map_ext. intros part.
    apply (transfer_frame_decodes ch (with_more true (cleared vs)) c part fuel Hch); auto.
    + apply with_more_ok. apply cleared_ok. exact Hok.
    + apply with_more_depth; [exact Hf|]. apply cleared_depth; assumption.
Qed.

(** non-vacuity: a transfer on handle 3 with delivery-id 7, a tag and a payload cut into three frames *)
Definition ex_transfer : list value :=
  [VUint 3; VUint 7; VBinary [1; 2; 3; 4]; VUint 0; VNull; VBool false; VNull; VNull; VBool false; VBool false; VBool false].
Example transfer_wire_example :
  fields_ok (s_fields transfer_schema) ex_transfer = true /\
  match transfer_perfs ex_transfer with
  | Some p => (lenN (p_single p), lenN (p_first p), lenN (p_mid p), lenN (p_last p)) = (17, 19, 13, 8)
  | None => False
  end.
Proof. split; vm_compute; reflexivity. Qed.
