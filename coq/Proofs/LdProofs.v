From FV Require Import Base.Bytes Lib.LengthDelimited Frame.Transfer Proofs.BytesProofs Proofs.FrameProofs.
From Coq Require Import Lia ZArith ZifyN ZifyBool ZifyNat.
Open Scope N_scope.
Arguments to_be : simpl never.
Arguments from_be : simpl never.

Lemma take_n_app_more k : forall a b h t, take_n k a = Some (h, t) -> take_n k (a ++ b) = Some (h, t ++ b).
Proof.
  induction k as [|k IH]; intros a b h t H; cbn in *.
  - injection H as <- <-. reflexivity.
  - destruct a as [|x a]; [discriminate|]. destruct (take_n k a) as [[h' t']|] eqn:E; [|discriminate].
    injection H as <- <-. cbn. rewrite (IH _ b _ _ E). reflexivity.
Qed.

Lemma take_n_some k : forall bs, (k <= length bs)%nat -> exists h t, take_n k bs = Some (h, t).
Proof.
  induction k as [|k IH]; intros bs H; cbn; eauto.
  destruct bs as [|b r]; [cbn in H; lia|]. destruct (IH r ltac:(cbn in H; lia)) as (h & t & E). rewrite E. eauto.
Qed.

(** once a frame (or an error) is determined, more bytes do not change it *)
Lemma ld_next_frame_mono maxf a b body rest :
  ld_next maxf a = Frame body rest -> ld_next maxf (a ++ b) = Frame body (rest ++ b).
Proof.
  unfold ld_next. destruct (take_n 4 a) as [[h r]|] eqn:E; [|discriminate].
  rewrite (take_n_app_more _ _ b _ _ E).
  destruct (maxf <? from_be h); [discriminate|]. destruct (from_be h <? 4); [discriminate|].
  destruct (lenN r <? from_be h - 4) eqn:El; [discriminate|].
  destruct (take_n (N.to_nat (from_be h - 4)) r) as [[bd rs]|] eqn:E2; [|discriminate].
  intros H. injection H as <- <-.
  rewrite lenN_app. destruct (lenN r + lenN b <? from_be h - 4) eqn:El2; [lia|].
  rewrite (take_n_app_more _ _ b _ _ E2). reflexivity.
Qed.

Lemma ld_next_error_mono maxf a b : ld_next maxf a = LdError -> ld_next maxf (a ++ b) = LdError.
Proof.
  unfold ld_next. destruct (take_n 4 a) as [[h r]|] eqn:E; [|discriminate].
  rewrite (take_n_app_more _ _ b _ _ E).
  destruct (maxf <? from_be h); [reflexivity|]. destruct (from_be h <? 4); [reflexivity|].
  destruct (lenN r <? from_be h - 4); [discriminate|].
  destruct (take_n (N.to_nat (from_be h - 4)) r) as [[bd rs]|]; discriminate.
Qed.

Lemma ld_next_frame_shorter maxf a body rest : ld_next maxf a = Frame body rest -> (length rest < length a)%nat.
Proof.
  unfold ld_next. destruct (take_n 4 a) as [[h r]|] eqn:E; [|discriminate].
  destruct (maxf <? from_be h); [discriminate|]. destruct (from_be h <? 4); [discriminate|].
  destruct (lenN r <? from_be h - 4); [discriminate|].
  destruct (take_n (N.to_nat (from_be h - 4)) r) as [[bd rs]|] eqn:E2; [|discriminate].
  intros H. injection H as <- <-. apply take_n_length in E, E2. lia.
Qed.

(** more fuel than bytes changes nothing *)
Lemma ld_parse_fuel maxf : forall f1 f2 buf, (length buf < f1)%nat -> (length buf < f2)%nat ->
  ld_parse f1 maxf buf = ld_parse f2 maxf buf.
Proof.
  induction f1 as [|f1 IH]; intros f2 buf H1 H2; [lia|]. destruct f2 as [|f2]; [lia|].
  cbn [ld_parse]. destruct (ld_next maxf buf) as [|body rest|] eqn:E; auto.
  apply ld_next_frame_shorter in E. rewrite (IH f2 rest) by lia. reflexivity.
Qed.

(** the key lemma: parsing [a ++ b] = parsing [a], then parsing what is left of [a] with [b] *)
Lemma ld_parse_app maxf : forall f a b, (length a < f)%nat ->
  ld_parse_all maxf (a ++ b) =
  let '(f1, r1, e1) := ld_parse f maxf a in
  if e1 then (f1, r1 ++ b, true)
  else let '(f2, r2, e2) := ld_parse_all maxf (r1 ++ b) in (f1 ++ f2, r2, e2).
Proof.
  induction f as [|f IH]; intros a b Hf; [lia|]. cbn [ld_parse].
  destruct (ld_next maxf a) as [|body rest|] eqn:E.
  - cbn [app]. destruct (ld_parse_all maxf (a ++ b)) as [[f2 r2] e2]. reflexivity.
  - pose proof (ld_next_frame_shorter _ _ _ _ E) as Hs.
    specialize (IH rest b ltac:(lia)).
    destruct (ld_parse f maxf rest) as [[f1 r1] e1] eqn:Ep.
    unfold ld_parse_all at 1. cbn [ld_parse]. rewrite (ld_next_frame_mono _ _ b _ _ E).
    rewrite (ld_parse_fuel maxf (length (a ++ b)) (S (length (rest ++ b))) (rest ++ b))
      by (rewrite !app_length in *; lia).
    fold (ld_parse_all maxf (rest ++ b)). rewrite IH.
    destruct e1; [reflexivity|]. destruct (ld_parse_all maxf (r1 ++ b)) as [[f2 r2] e2]. reflexivity.
  - unfold ld_parse_all. cbn [ld_parse]. rewrite (ld_next_error_mono _ _ b E). reflexivity.
Qed.

Lemma ld_parse_all_unfold maxf a : ld_parse_all maxf a = ld_parse (S (length a)) maxf a.
Proof. reflexivity. Qed.

Definition same_obs (x y : ld_state * list bytes) : Prop :=
  snd x = snd y /\ ld_failed (fst x) = ld_failed (fst y) /\
  (ld_failed (fst x) = false -> ld_buf (fst x) = ld_buf (fst y)).

Lemma ld_feed_all_failed maxf : forall chunks st, ld_failed st = true -> ld_feed_all maxf st chunks = (st, []).
Proof.
  induction chunks as [|c r IH]; intros st H; cbn [ld_feed_all]; [reflexivity|].
  unfold ld_feed. rewrite H. rewrite (IH st H). reflexivity.
Qed.

Lemma ld_parse_rest_needmore maxf : forall f buf fs r,
  (length buf < f)%nat -> ld_parse f maxf buf = (fs, r, false) -> ld_next maxf r = NeedMore.
Proof.
  induction f as [|f IH]; intros buf fs r Hf E; [lia|]. cbn [ld_parse] in E.
  destruct (ld_next maxf buf) as [|body rest|] eqn:En.
  - injection E as <- <-. exact En.
  - destruct (ld_parse f maxf rest) as [[fs' r'] e'] eqn:Ep. injection E as <- <- ->.
    apply ld_next_frame_shorter in En. eapply IH; [|exact Ep]. lia.
  - discriminate.
Qed.

Definition drained (maxf : N) (st : ld_state) : Prop := ld_next maxf (ld_buf st) = NeedMore.

Lemma drained_parse maxf st : drained maxf st -> ld_parse_all maxf (ld_buf st) = ([], ld_buf st, false).
Proof. unfold drained, ld_parse_all. intros H. cbn [ld_parse]. rewrite H. reflexivity. Qed.

Lemma ld_feed_drained maxf st c st' fs :
  ld_failed st = false -> ld_feed maxf st c = (st', fs) -> ld_failed st' = false -> drained maxf st'.
Proof.
  unfold ld_feed. intros H. rewrite H.
  destruct (ld_parse_all maxf (ld_buf st ++ c)) as [[fs' r] e] eqn:E. intros Hq Hf.
  injection Hq as <- <-. cbn in Hf. subst e. unfold drained. cbn [ld_buf].
  unfold ld_parse_all in E. eapply ld_parse_rest_needmore; [|exact E]. lia.
Qed.

(** However the byte stream is cut into reads, the frames delivered are the same
    (and so is the failure, and the undelivered remainder). *)
Theorem fragmentation_independent maxf : forall chunks st,
  ld_failed st = false -> drained maxf st ->
  same_obs (ld_feed_all maxf st chunks) (ld_feed maxf st (concat chunks)).
Proof.
  induction chunks as [|c r IH]; intros st Hst Hd.
  - cbn [ld_feed_all concat]. unfold ld_feed. rewrite Hst, app_nil_r, (drained_parse _ _ Hd).
    destruct st; cbn in *. subst. repeat split.
  - cbn [ld_feed_all concat].
    destruct (ld_feed maxf st c) as [st1 f1] eqn:E1.
    pose proof E1 as E1'. unfold ld_feed in E1. rewrite Hst in E1.
    destruct (ld_parse_all maxf (ld_buf st ++ c)) as [[fs1 r1] e1] eqn:Ep. injection E1 as <- <-.
    unfold ld_feed. rewrite Hst, app_assoc.
    rewrite (ld_parse_app maxf (S (length (ld_buf st ++ c))) (ld_buf st ++ c) (concat r) ltac:(lia)).
    unfold ld_parse_all in Ep. rewrite Ep.
    destruct e1.
    + rewrite ld_feed_all_failed by reflexivity. unfold same_obs. cbn. rewrite app_nil_r. repeat split. discriminate.
    + assert (Hd1 : drained maxf (mkLD r1 false)) by (eapply ld_feed_drained; [exact Hst|exact E1'|reflexivity]).
      specialize (IH (mkLD r1 false) eq_refl Hd1).
      destruct (ld_feed_all maxf (mkLD r1 false) r) as [st2 f2] eqn:E2.
      unfold ld_feed in IH. cbn [ld_failed ld_buf] in IH.
      destruct (ld_parse_all maxf (r1 ++ concat r)) as [[fs2 r2] e2].
      destruct IH as (A & B & C). cbn in A, B, C. unfold same_obs. cbn. subst. repeat split; auto.
Qed.

(** what the sender's length-delimited encoder writes is split back into exactly the chunks *)
Lemma ld_next_encoded maxf chunk rest :
  lenN chunk + 4 <= maxf -> lenN chunk + 4 < 4294967296 ->
  ld_next maxf (ld_encode chunk ++ rest) = Frame chunk rest.
Proof.
  intros H1 H2. unfold ld_next, ld_encode. rewrite <- app_assoc.
  rewrite (take_n_app_k 4 (to_be 4 (lenN chunk + 4)) (chunk ++ rest)) by apply to_be_length.
  rewrite from_be_to_be by (cbn; lia).
  destruct (maxf <? lenN chunk + 4) eqn:E1; [lia|]. destruct (lenN chunk + 4 <? 4) eqn:E2; [lia|].
  rewrite lenN_app. destruct (lenN chunk + lenN rest <? lenN chunk + 4 - 4) eqn:E3; [lia|].
  replace (N.to_nat (lenN chunk + 4 - 4)) with (length chunk) by (unfold lenN; lia).
  rewrite take_n_app. reflexivity.
Qed.

Theorem ld_decode_encode maxf : forall chunks,
  Forall (fun c => lenN c + 4 <= maxf /\ lenN c + 4 < 4294967296) chunks ->
  ld_parse_all maxf (concat (map ld_encode chunks)) = (chunks, [], false).
Proof.
  intros chunks H. unfold ld_parse_all.
  assert (G : forall f, (length (concat (map ld_encode chunks)) < f)%nat ->
                        ld_parse f maxf (concat (map ld_encode chunks)) = (chunks, [], false)).
  { induction H as [|c chunks [Hc1 Hc2] _ IH]; intros f Hf.
    - destruct f; [lia|]. reflexivity.
    - destruct f; [lia|]. cbn [map concat ld_parse]. rewrite ld_next_encoded by assumption.
      rewrite IH; [reflexivity|]. cbn [map concat] in Hf. rewrite app_length in Hf.
      assert (0 < length (ld_encode c))%nat by (unfold ld_encode; rewrite app_length, to_be_length; lia). lia. }
  apply G. lia.
Qed.
