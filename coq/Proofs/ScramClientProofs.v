(** Proofs about the SCRAM client model (Auth/ScramClient.v). *)
From FV Require Import Auth.ScramClient.

(** what marks a connection as authenticated on the client side: the AMQP header or the open written, open() = Ok *)
Definition trusts (o : cobs) : bool := match o with OAmqpHdr | OOpen | ROk => true | _ => false end.

Definition sev_eqb (a b : sev) : bool :=
  match a, b with
  | VHdrSasl, VHdrSasl | VHdrOther, VHdrOther | VAmqp, VAmqp | VGarbage, VGarbage | VEof, VEof => true
  | VMechs x, VMechs y | VChal x, VChal y => Bool.eqb x y
  | VOutcome c d, VOutcome c' d' =>
      (match c, c' with KOk, KOk | KAuth, KAuth | KSys, KSys | KSysPerm, KSysPerm | KSysTemp, KSysTemp | KOther, KOther => true | _, _ => false end) &&
      (match d, d' with DGood, DGood | DBad, DBad | DNone, DNone => true | _, _ => false end)
  | _, _ => false
  end.

Fixpoint cis_prefix (p l : list sev) : bool :=
  match p, l with
  | [], _ => true
  | a :: p', b :: l' => sev_eqb a b && cis_prefix p' l'
  | _ :: _, [] => false
  end.

(** what is still needed before the client trusts the server *)
Definition cneed (s : cstate) : option (list sev) :=
  match s with
  | CWaitHdr => Some proving_exchange
  | CWaitMechs => Some (tl proving_exchange)
  | CWaitChal => Some (tl (tl proving_exchange))
  | CWaitOutcome => Some (tl (tl (tl proving_exchange)))
  | _ => None
  end.

Definition cbefore_proof (s : cstate) : bool := match cneed s with Some _ => true | None => false end.

Lemma cfailed_stays vs : crun CFailed vs = (CFailed, map (fun _ => []) vs).
Proof. induction vs as [|v vs IH]; cbn [crun map]; [reflexivity|]. cbn [cstep]. rewrite IH. reflexivity. Qed.

Lemma failed_trusts_nothing vs : existsb trusts (concat (snd (crun CFailed vs))) = false.
Proof. rewrite cfailed_stays. cbn [snd]. induction vs as [|v vs IH]; [reflexivity|exact IH]. Qed.

(** if the client ever trusts the server, the server's messages began with what [cneed] says *)
Lemma trust_needs vs : forall s n, cneed s = Some n ->
  existsb trusts (concat (snd (crun s vs))) = true -> cis_prefix n vs = true.
Proof.
  induction vs as [|v vs IH]; intros s n Hn Ht.
  - cbn in Ht. discriminate.
  - cbn [crun] in Ht. destruct (cstep s v) as [s1 o] eqn:Es. destruct (crun s1 vs) as [s2 os] eqn:Er.
    cbn [snd concat] in Ht. rewrite existsb_app in Ht.
    assert (Hr : existsb trusts (concat (snd (crun s1 vs))) = existsb trusts (concat os)) by (rewrite Er; reflexivity).
    destruct s; cbn in Hn; try discriminate; injection Hn as <-.
    + (* CWaitHdr *)
      destruct v; cbn in Es; injection Es as <- <-; cbn in Ht; try (rewrite <- Hr, failed_trusts_nothing in Ht; discriminate).
      cbn [cis_prefix sev_eqb andb]. rewrite <- Hr in Ht. exact (IH CWaitMechs _ eq_refl Ht).
    + destruct v as [| |[|]| | | | |]; cbn in Es; injection Es as <- <-; cbn in Ht; try (rewrite <- Hr, failed_trusts_nothing in Ht; discriminate).
      cbn [cis_prefix sev_eqb andb Bool.eqb tl proving_exchange]. rewrite <- Hr in Ht. exact (IH CWaitChal _ eq_refl Ht).
    + destruct v as [| | |[|]| | | |]; cbn in Es; injection Es as <- <-; cbn in Ht; try (rewrite <- Hr, failed_trusts_nothing in Ht; discriminate).
      cbn [cis_prefix sev_eqb andb Bool.eqb tl proving_exchange]. rewrite <- Hr in Ht. exact (IH CWaitOutcome _ eq_refl Ht).
    + destruct v as [| | | |c d| | |]; try destruct c; try destruct d; cbn in Es; injection Es as <- <-; cbn in Ht;
        try (rewrite <- Hr, failed_trusts_nothing in Ht; discriminate).
      reflexivity.
Qed.

Theorem client_trusts_only_a_proving_server vs s os :
  crun CWaitHdr vs = (s, os) -> existsb trusts (concat os) = true -> cis_prefix proving_exchange vs = true.
Proof. intros Hr Ht. apply (trust_needs vs CWaitHdr _ eq_refl). rewrite Hr. exact Ht. Qed.

(** the first message that departs from the proving exchange fails the negotiation at once: open() returns an
    error, and neither the AMQP header nor an open is written *)
Theorem deviation_fails_client s v n0 rest : cneed s = Some (n0 :: rest) -> sev_eqb v n0 = false ->
  fst (cstep s v) = CFailed /\ (exists e, In (RErr e) (snd (cstep s v))) /\ existsb trusts (snd (cstep s v)) = false.
Proof.
  intros Hn Hv. destruct s; cbn in Hn; try discriminate; injection Hn as <- <-;
    destruct v as [| |[|]|[|]|c d| | |]; try destruct c; try destruct d; cbn in Hv; try discriminate;
    cbn; (split; [reflexivity|split; [eexists; left; reflexivity|reflexivity]]).
Qed.

(** in particular: an outcome ok without the server's signature, or with a wrong one, is refused *)
Lemma ok_without_proof_refused d : d <> DGood -> cstep CWaitOutcome (VOutcome KOk d) = (CFailed, [RErr EScram]).
Proof. destruct d; intros H; try contradiction; reflexivity. Qed.

(** ... and a challenge whose nonce does not extend the client's (or is otherwise malformed) is refused *)
Lemma bad_challenge_refused : cstep CWaitChal (VChal false) = (CFailed, [RErr EScram]).
Proof. reflexivity. Qed.

Lemma proving_accepted :
  crun CWaitHdr (proving_exchange ++ [VAmqp]) = (CDone, [[]; [OInit]; [OResp]; [OAmqpHdr]; [OOpen; ROk]]).
Proof. reflexivity. Qed.
