(** Every piece fits a frame, nothing is lost: one frame per numbered transfer. *)
From FV Require Import Frame.SessionSplit.
From Coq Require Import Lia ZArith ZifyN ZifyBool ZifyNat.
Open Scope N_scope.

Definition sumN (l : list N) : N := fold_right N.add 0 l.

Lemma rest_sum fuel : forall mfb lr n, sumN (rest_pieces fuel mfb lr n) = n.
Proof.
  induction fuel as [|f IH]; intros mfb lr n; cbn [rest_pieces]; [cbn; lia|].
  destruct ((mfb <? lr + n) && (N.max 1 (mfb - lr) <? n)) eqn:E; [|cbn; lia].
  cbn [sumN fold_right]. fold (sumN (rest_pieces f mfb lr (n - N.max 1 (mfb - lr)))). rewrite IH. lia.
Qed.

(** with enough fuel and a frame that has room for at least one payload byte, every piece fits *)
Lemma rest_fit fuel : forall mfb lr n, lr < mfb -> (N.to_nat n <= fuel)%nat ->
  Forall (fun k => lr + k <= mfb) (rest_pieces fuel mfb lr n).
Proof.
  induction fuel as [|f IH]; intros mfb lr n Hr Hf; cbn [rest_pieces].
  - constructor; [lia|constructor].
  - destruct ((mfb <? lr + n) && (N.max 1 (mfb - lr) <? n)) eqn:E.
    + apply andb_prop in E as [E1 E2]. constructor; [lia|]. apply IH; [exact Hr|lia].
    + constructor; [|constructor]. apply andb_false_iff in E as [E|E]; lia.
Qed.

Lemma split_sum mfb lf lr n : sumN (session_split mfb lf lr n) = n.
Proof.
  unfold session_split. destruct (lf + n <=? mfb); [cbn; lia|].
  cbn [sumN fold_right]. fold (sumN (rest_pieces (N.to_nat n) mfb lr (n - N.min (mfb - lf) n))). rewrite rest_sum. lia.
Qed.

(** [lf <= mfb], [lr < mfb]: the frame is large enough for the performative; then the first piece
    fits with its reserved performative and every other piece fits with the short one *)
Lemma split_fit mfb lf lr n : lf <= mfb -> lr < mfb ->
  match session_split mfb lf lr n with
  | [] => False
  | first :: rest => lf + first <= mfb /\ Forall (fun k => lr + k <= mfb) rest
  end.
Proof.
  intros Hf Hr. unfold session_split. destruct (lf + n <=? mfb) eqn:E; [split; [lia|constructor]|].
  split; [lia|]. apply rest_fit; [exact Hr|lia].
Qed.

(** a delivery that fits goes out as one transfer, untouched *)
Lemma split_single mfb lf lr n : lf + n <= mfb -> session_split mfb lf lr n = [n].
Proof. intros H. unfold session_split. destruct (lf + n <=? mfb) eqn:E; [reflexivity|lia]. Qed.
