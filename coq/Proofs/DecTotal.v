(** Totality facts about the decoder model (C04): it never yields [Panic], a
    successful decode never returns more bytes than it was given, and fuel
    [length bs + 1] always suffices. *)
From FV Require Import Base.Bytes Codec.Value Codec.Dec Proofs.BytesProofs.
From Coq Require Import Lia ZArith ZifyN ZifyBool ZifyNat.
Open Scope N_scope.

(** a result that is either an error or a value whose remaining input is no longer than [n] *)
Definition good {A} (rest_of : A -> bytes) (n : nat) (r : result A) : Prop :=
  match r with
  | Ok a => (length (rest_of a) <= n)%nat
  | Err _ => True
  | Panic => False
  | OutOfFuel => False
  end.
(** the same but tolerating OutOfFuel (used for the fuel-independent facts) *)
Definition fine {A} (rest_of : A -> bytes) (n : nat) (r : result A) : Prop :=
  match r with
  | Ok a => (length (rest_of a) <= n)%nat
  | Err _ => True
  | Panic => False
  | OutOfFuel => True
  end.

Lemma good_fine {A} ro n (r : result A) : good ro n r -> fine ro n r.
Proof. destruct r; cbn; auto. Qed.

Lemma read_n_ok k bs h t : read_n k bs = Ok (h, t) -> (length t + k = length bs)%nat.
Proof. unfold read_n. destruct (take_n k bs) as [[h' t']|] eqn:E; [|discriminate]. intros H; injection H as <- <-. eapply take_n_length; eauto. Qed.
Lemma read_n_np k bs : read_n k bs <> Panic /\ read_n k bs <> OutOfFuel.
Proof. unfold read_n. destruct (take_n k bs); split; discriminate. Qed.

Lemma read_be_ok k bs n t : read_be k bs = Ok (n, t) -> (length t + k = length bs)%nat.
Proof.
  unfold read_be. destruct (read_n k bs) as [[h t']| | |] eqn:E; cbn; try discriminate.
  intros H; injection H as <- <-. eapply read_n_ok; eauto.
Qed.
Lemma read_be_cases k bs : (exists n t, read_be k bs = Ok (n, t)) \/ (exists e, read_be k bs = Err e).
Proof.
  unfold read_be. pose proof (read_n_np k bs) as [A B]. destruct (read_n k bs) as [[h t]| | |]; cbn; eauto; congruence.
Qed.

Lemma read_byte_ok bs b t : read_byte bs = Ok (b, t) -> (length t + 1 = length bs)%nat.
Proof. destruct bs; cbn; [discriminate|]. intros H; injection H as <- <-. lia. Qed.
Lemma read_byte_cases bs : (exists n t, read_byte bs = Ok (n, t)) \/ (exists e, read_byte bs = Err e).
Proof. destruct bs; cbn; eauto. Qed.

Lemma read_len_ok len bs h t : read_len len bs = Ok (h, t) -> (length t <= length bs)%nat.
Proof.
  unfold read_len. destruct (lenN bs <? len); [discriminate|]. intros H. apply read_n_ok in H. lia.
Qed.
Lemma read_len_cases len bs : (exists h t, read_len len bs = Ok (h, t)) \/ (exists e, read_len len bs = Err e).
Proof.
  unfold read_len. destruct (lenN bs <? len); eauto. pose proof (read_n_np (N.to_nat len) bs) as [A B].
  destruct (read_n (N.to_nat len) bs) as [[h t]| | |]; eauto; congruence.
Qed.

Lemma read_var_ok code c8 c32 bs h t : read_var code c8 c32 bs = Ok (h, t) -> (length t <= length bs)%nat.
Proof.
  unfold read_var. destruct (code =? c8).
  - destruct (read_byte bs) as [[l r]| | |] eqn:E; cbn; try discriminate.
    intros H. apply read_len_ok in H. apply read_byte_ok in E. lia.
  - destruct (code =? c32); [|discriminate].
    destruct (read_be 4 bs) as [[l r]| | |] eqn:E; cbn; try discriminate.
    intros H. apply read_len_ok in H. apply read_be_ok in E. lia.
Qed.
Lemma read_var_cases code c8 c32 bs :
  (exists h t, read_var code c8 c32 bs = Ok (h, t)) \/ (exists e, read_var code c8 c32 bs = Err e).
Proof.
  unfold read_var. destruct (code =? c8).
  - destruct (read_byte_cases bs) as [(l & r & ->)|(e & ->)]; cbn; eauto. apply read_len_cases.
  - destruct (code =? c32); eauto.
    destruct (read_be_cases 4 bs) as [(l & r & ->)|(e & ->)]; cbn; eauto. apply read_len_cases.
Qed.

Lemma take_code_ok e bs c t : take_code e bs = Ok (c, t) -> (length t <= length bs)%nat.
Proof.
  unfold take_code. destruct e; [intros H; injection H as <- <-; lia|].
  destruct bs; [discriminate|]. destruct (known_code n); [|discriminate]. intros H; injection H as <- <-. cbn; lia.
Qed.
Lemma take_code_none_ok bs c t : take_code None bs = Ok (c, t) -> (length t + 1 = length bs)%nat.
Proof.
  unfold take_code. destruct bs; [discriminate|]. destruct (known_code n); [|discriminate]. intros H; injection H as <- <-. cbn; lia.
Qed.
Lemma take_code_cases e bs : (exists c t, take_code e bs = Ok (c, t)) \/ (exists er, take_code e bs = Err er).
Proof. unfold take_code. destruct e; eauto. destruct bs; eauto. destruct (known_code n); eauto. Qed.
Lemma peek_code_cases e bs : (exists c, peek_code e bs = Ok c) \/ (exists er, peek_code e bs = Err er).
Proof. unfold peek_code. destruct e; eauto. destruct bs; eauto. destruct (known_code n); eauto. Qed.
Lemma checked_sub_len_cases a b : (exists n, checked_sub_len a b = Ok n) \/ (exists e, checked_sub_len a b = Err e).
Proof. unfold checked_sub_len. destruct (a <? b); eauto. Qed.
Lemma check_utf8_cases p : check_utf8 p = Ok p \/ (exists e, check_utf8 p = Err e).
Proof. unfold check_utf8. destruct (utf8_valid (fst p)); eauto. Qed.

Definition rest3 {A} (x : A * dstate * bytes) : bytes := snd x.

(** [goodp oof]: as [good], with the verdict on OutOfFuel left as a parameter *)
Definition goodp {A} (oof : Prop) (rest_of : A -> bytes) (n : nat) (r : result A) : Prop :=
  match r with
  | Ok a => (length (rest_of a) <= n)%nat
  | Err _ => True
  | Panic => False
  | OutOfFuel => oof
  end.

Definition SelfOk (oof : Prop) (self : dstate -> bytes -> result (value * dstate * bytes)) (n : nat) : Prop :=
  forall e bs, (length bs < n)%nat -> goodp oof rest3 (length bs) (self e bs).

Ltac prim :=
  match goal with
  | |- context [take_code None ?bs] =>
      let H := fresh "Htc" in let c := fresh "c" in let t := fresh "t" in let er := fresh "er" in
      destruct (take_code_cases None bs) as [(c & t & H)|(er & H)]; rewrite H; cbn [bind];
      [pose proof (take_code_none_ok _ _ _ H)|exact I]
  | |- context [take_code ?e ?bs] =>
      let H := fresh "Htc" in let c := fresh "c" in let t := fresh "t" in let er := fresh "er" in
      destruct (take_code_cases e bs) as [(c & t & H)|(er & H)]; rewrite H; cbn [bind];
      [pose proof (take_code_ok _ _ _ _ H)|exact I]
  | |- context [peek_code ?e ?bs] =>
      let H := fresh "Hpc" in let c := fresh "pc" in let er := fresh "er" in
      destruct (peek_code_cases e bs) as [(c & H)|(er & H)]; rewrite H; cbn [bind]; [|exact I]
  | |- context [read_byte ?bs] =>
      let H := fresh "Hrb" in let c := fresh "b" in let t := fresh "t" in let er := fresh "er" in
      destruct (read_byte_cases bs) as [(c & t & H)|(er & H)]; rewrite H; cbn [bind];
      [pose proof (read_byte_ok _ _ _ H)|exact I]
  | |- context [read_be ?k ?bs] =>
      let H := fresh "Hre" in let c := fresh "n" in let t := fresh "t" in let er := fresh "er" in
      destruct (read_be_cases k bs) as [(c & t & H)|(er & H)]; rewrite H; cbn [bind];
      [pose proof (read_be_ok _ _ _ _ H)|exact I]
  | |- context [read_var ?c ?c8 ?c32 ?bs] =>
      let H := fresh "Hrv" in let h := fresh "h" in let t := fresh "t" in let er := fresh "er" in
      destruct (read_var_cases c c8 c32 bs) as [(h & t & H)|(er & H)]; rewrite H; cbn [bind];
      [pose proof (read_var_ok _ _ _ _ _ _ H)|exact I]
  | |- context [read_len ?len ?bs] =>
      let H := fresh "Hrl" in let h := fresh "h" in let t := fresh "t" in let er := fresh "er" in
      destruct (read_len_cases len bs) as [(h & t & H)|(er & H)]; rewrite H; cbn [bind];
      [pose proof (read_len_ok _ _ _ _ H)|exact I]
  | |- context [checked_sub_len ?a ?b] =>
      let H := fresh "Hcs" in let c := fresh "n" in let er := fresh "er" in
      destruct (checked_sub_len_cases a b) as [(c & H)|(er & H)]; rewrite H; cbn [bind]; [|exact I]
  | |- context [check_utf8 ?p] =>
      let H := fresh "Hcu" in let er := fresh "er" in
      destruct (check_utf8_cases p) as [H|(er & H)]; rewrite H; cbn [bind]; [|exact I]
  end.

Section Loops.
Variable oof : Prop.
Variable self : dstate -> bytes -> result (value * dstate * bytes).
Variable n : nat.
Hypothesis Hself : SelfOk oof self n.

Lemma list_loop_good : forall count e bs acc, (length bs < n)%nat ->
  goodp oof rest3 (length bs) (list_loop self count e bs acc).
Proof.
  induction count as [|c IH]; intros e bs acc Hb; cbn [list_loop].
  - cbn. lia.
  - pose proof (Hself e bs Hb) as Hs. destruct (self e bs) as [[[v e1] r]| | |]; cbn [bind goodp] in *; auto.
    cbn [rest3 snd] in Hs. specialize (IH e1 r (v :: acc) ltac:(lia)).
    destruct (list_loop self c e1 r (v :: acc)) as [[[l e2] r2]| | |]; cbn in *; auto. lia.
Qed.

Lemma array_loop_good : forall count size start e bs acc, (length bs < n)%nat ->
  goodp oof rest3 (length bs) (array_loop self count size start e bs acc).
Proof.
  induction count as [|c IH]; intros size start e bs acc Hb; cbn [array_loop].
  - cbn. lia.
  - pose proof (Hself e bs Hb) as Hs. destruct (self e bs) as [[[v e1] r]| | |]; cbn [bind goodp] in *; auto.
    cbn [rest3 snd] in Hs. destruct (size <? start - lenN r); [exact I|].
    specialize (IH size start e1 r (v :: acc) ltac:(lia)).
    destruct (array_loop self c size start e1 r (v :: acc)) as [[[l e2] r2]| | |]; cbn in *; auto. lia.
Qed.

Lemma map_loop_good : forall fuel count e bs acc, (length bs < n)%nat -> (N.to_nat count < 2 * fuel)%nat ->
  goodp oof rest3 (length bs) (map_loop self fuel count e bs acc).
Proof.
  induction fuel as [|f IH]; intros count e bs acc Hb Hf; [lia|]. cbn [map_loop].
  destruct (count =? 0) eqn:E0; [cbn; lia|]. destruct (count =? 1) eqn:E1; [exact I|].
  pose proof (Hself e bs Hb) as Hs. destruct (self e bs) as [[[k e1] r]| | |]; cbn [bind goodp] in *; auto.
  cbn [rest3 snd] in Hs.
  pose proof (Hself e1 r ltac:(lia)) as Hs2. destruct (self e1 r) as [[[v e2] r2]| | |]; cbn [bind goodp] in *; auto.
  cbn [rest3 snd] in Hs2.
  specialize (IH (count - 2) e2 r2 (omap_insert k v acc) ltac:(lia) ltac:(lia)).
  destruct (map_loop self f (count - 2) e2 r2 (omap_insert k v acc)) as [[[l e3] r3]| | |]; cbn in *; auto. lia.
Qed.

Ltac loop_tac L :=
  match goal with
  | |- goodp _ _ ?m (bind ?X _) =>
      let H := fresh "HL" in
      assert (H : goodp oof rest3 m X \/ True) by (left; exact L || right; exact I)
  end.

Lemma dec_seq_good e bs : (length bs < S n)%nat -> goodp oof rest3 (length bs) (dec_seq self e bs).
Proof.
  intros Hb. unfold dec_seq. prim.
  destruct (c =? 224).
  { prim. prim. destruct ((MAXCOUNT <? b0) || (b <? b0)); [exact I|].
    destruct (b0 =? 0); [prim; prim; cbn in *; lia|]. prim. prim.
    pose proof (array_loop_good (N.to_nat b0) n0 (lenN t2) (Some c0) t2 [] ltac:(lia)) as HL.
    destruct (array_loop self (N.to_nat b0) n0 (lenN t2) (Some c0) t2 []) as [[[l e2] r2]| | |]; cbn in *; auto. lia. }
  destruct (c =? 240).
  { prim. prim. destruct ((MAXCOUNT <? n1) || (n0 <? n1)); [exact I|].
    destruct (n1 =? 0); [prim; prim; cbn in *; lia|]. prim. prim.
    pose proof (array_loop_good (N.to_nat n1) n2 (lenN t2) (Some c0) t2 [] ltac:(lia)) as HL.
    destruct (array_loop self (N.to_nat n1) n2 (lenN t2) (Some c0) t2 []) as [[[l e2] r2]| | |]; cbn in *; auto. lia. }
  destruct (c =? 69); [cbn; lia|].
  destruct (c =? 192).
  { prim. prim. prim.
    pose proof (list_loop_good (N.to_nat b0) None t1 [] ltac:(lia)) as HL.
    destruct (list_loop self (N.to_nat b0) None t1 []) as [[[l e2] r2]| | |]; cbn in *; auto. lia. }
  destruct (c =? 208); [|exact I].
  prim. prim. destruct (MAXCOUNT <? n1); [exact I|]. prim.
  pose proof (list_loop_good (N.to_nat n1) None t1 [] ltac:(lia)) as HL.
  destruct (list_loop self (N.to_nat n1) None t1 []) as [[[l e2] r2]| | |]; cbn in *; auto. lia.
Qed.
End Loops.

Section Body.
Variable oof : Prop.
Variable self : dstate -> bytes -> result (value * dstate * bytes).
Variable n : nat.
Hypothesis Hself : SelfOk oof self n.

Lemma dec_map_good e bs : (length bs < S n)%nat -> goodp oof rest3 (length bs) (dec_map self e bs).
Proof.
  intros Hb. unfold dec_map. prim.
  destruct (c =? 193).
  { prim. prim. prim.
    pose proof (map_loop_good oof self n Hself (S (N.to_nat b0)) b0 e t1 [] ltac:(lia) ltac:(lia)) as HL.
    destruct (map_loop self (S (N.to_nat b0)) b0 e t1 []) as [[[l e2] r2]| | |]; cbn in *; auto. lia. }
  destruct (c =? 209); [|exact I].
  prim. prim. destruct (MAXCOUNT <? n1); [exact I|]. prim.
  pose proof (map_loop_good oof self n Hself (S (N.to_nat n1)) n1 e t1 [] ltac:(lia) ltac:(lia)) as HL.
  destruct (map_loop self (S (N.to_nat n1)) n1 e t1 []) as [[[l e2] r2]| | |]; cbn in *; auto. lia.
Qed.

Definition rest2 (x : descriptor * bytes) : bytes := snd x.

Lemma dec_descriptor_good e bs :
  match dec_descriptor e bs with
  | Ok (d, r) => (length r < length bs)%nat
  | Err _ => True
  | Panic | OutOfFuel => False
  end.
Proof.
  unfold dec_descriptor.
  destruct (read_byte_cases bs) as [(b0 & r0 & H)|(er & H)]; rewrite H; cbn [bind]; [|exact I].
  pose proof (read_byte_ok _ _ _ H) as L0.
  destruct (negb (known_code b0)); [exact I|]. destruct (negb (b0 =? 0)); [exact I|].
  destruct (peek_code_cases e r0) as [(code & Hp)|(er & Hp)]; rewrite Hp; cbn [bind]; [|exact I].
  destruct ((code =? 163) || (code =? 179)).
  { destruct (take_code_cases e r0) as [(c & t & Ht)|(er & Ht)]; rewrite Ht; cbn [bind]; [|exact I].
    pose proof (take_code_ok _ _ _ _ Ht).
    destruct (read_var_cases c 163 179 t) as [(h & t' & Hr)|(er & Hr)]; rewrite Hr; cbn [bind]; [|exact I].
    pose proof (read_var_ok _ _ _ _ _ _ Hr).
    destruct (check_utf8_cases (h, t')) as [Hc|(er & Hc)]; rewrite Hc; cbn [bind]; [lia|exact I]. }
  destruct ((code =? 128) || (code =? 83) || (code =? 68)); [|exact I].
  destruct (take_code_cases e r0) as [(c & t & Ht)|(er & Ht)]; rewrite Ht; cbn [bind]; [|exact I].
  pose proof (take_code_ok _ _ _ _ Ht).
  destruct (c =? 128).
  { destruct (read_be_cases 8 t) as [(x & t' & Hr)|(er & Hr)]; rewrite Hr; cbn [bind]; [|exact I].
    pose proof (read_be_ok _ _ _ _ Hr). lia. }
  destruct (c =? 83).
  { destruct (read_byte_cases t) as [(x & t' & Hr)|(er & Hr)]; rewrite Hr; cbn [bind]; [|exact I].
    pose proof (read_byte_ok _ _ _ Hr). lia. }
  lia.
Qed.

Lemma dec_described_good e bs : (length bs < S n)%nat -> goodp oof rest3 (length bs) (dec_described self e bs).
Proof.
  intros Hb. unfold dec_described. destruct bs as [|b r]; [exact I|].
  destruct (negb (known_code b)); [exact I|].
  pose proof (dec_descriptor_good e (b :: r)) as Hd.
  destruct (dec_descriptor e (b :: r)) as [[d r1]| | |]; cbn [bind]; try contradiction; [|exact I].
  destruct r1 as [|b1 r1']; [exact I|]. destruct (negb (known_code b1)); [exact I|].
  pose proof (Hself e (b1 :: r1') ltac:(lia)) as Hs.
  destruct (self e (b1 :: r1')) as [[[v e1] r2]| | |]; cbn in *; auto. lia.
Qed.

Ltac fin := first [exact I | cbn [goodp rest3 snd]; lia].

Lemma dec_body_good e bs : (length bs < S n)%nat -> goodp oof rest3 (length bs) (dec_body self e bs).
Proof.
  intros Hb. unfold dec_body. prim.
  destruct (pc =? 0); [apply dec_described_good; exact Hb|].
  destruct (pc =? 64); [prim; fin|].
  destruct ((pc =? 86) || (pc =? 65) || (pc =? 66)).
  { prim. destruct (c =? 86); [|fin]. prim. destruct (b =? 0); [fin|]. destruct (b =? 1); fin. }
  destruct (pc =? 80); [prim; prim; fin|].
  destruct (pc =? 96); [prim; prim; fin|].
  destruct ((pc =? 112) || (pc =? 82) || (pc =? 67)).
  { prim. destruct (c =? 112); [prim; fin|]. destruct (c =? 82); [prim; fin|fin]. }
  destruct ((pc =? 128) || (pc =? 83) || (pc =? 68)).
  { prim. destruct (c =? 128); [prim; fin|]. destruct (c =? 83); [prim; fin|fin]. }
  destruct (pc =? 81); [prim; prim; fin|].
  destruct (pc =? 97); [prim; prim; fin|].
  destruct ((pc =? 113) || (pc =? 84)).
  { prim. destruct (c =? 113); [prim; fin|prim; fin]. }
  destruct ((pc =? 129) || (pc =? 85)).
  { prim. destruct (c =? 129); [prim; fin|prim; fin]. }
  destruct (pc =? 114); [prim; prim; fin|].
  destruct (pc =? 130); [prim; prim; fin|].
  destruct (pc =? 116).
  { prim. pose proof (read_n_np 4 t) as [A B]. destruct (read_n 4 t) as [[h t']| | |] eqn:E; cbn [bind]; try congruence; [|fin].
    apply read_n_ok in E. fin. }
  destruct (pc =? 132).
  { prim. pose proof (read_n_np 8 t) as [A B]. destruct (read_n 8 t) as [[h t']| | |] eqn:E; cbn [bind]; try congruence; [|fin].
    apply read_n_ok in E. fin. }
  destruct (pc =? 148).
  { prim. pose proof (read_n_np 16 t) as [A B]. destruct (read_n 16 t) as [[h t']| | |] eqn:E; cbn [bind]; try congruence; [|fin].
    apply read_n_ok in E. fin. }
  destruct (pc =? 115); [prim; prim; destruct (is_scalar n0); fin|].
  destruct (pc =? 131); [prim; prim; fin|].
  destruct (pc =? 152).
  { prim. pose proof (read_n_np 16 t) as [A B]. destruct (read_n 16 t) as [[h t']| | |] eqn:E; cbn [bind]; try congruence; [|fin].
    apply read_n_ok in E. fin. }
  destruct ((pc =? 160) || (pc =? 176)); [prim; prim; fin|].
  destruct ((pc =? 161) || (pc =? 177)); [prim; prim; prim; fin|].
  destruct ((pc =? 163) || (pc =? 179)); [prim; prim; prim; fin|].
  destruct ((pc =? 69) || (pc =? 192) || (pc =? 208)).
  { pose proof (dec_seq_good oof self n Hself e bs Hb) as HL.
    destruct (dec_seq self e bs) as [[[l e2] r2]| | |]; cbn in *; auto. }
  destruct ((pc =? 193) || (pc =? 209)).
  { pose proof (dec_map_good e bs Hb) as HL.
    destruct (dec_map self e bs) as [[[l e2] r2]| | |]; cbn in *; auto. }
  destruct ((pc =? 224) || (pc =? 240)); [|fin].
  pose proof (dec_seq_good oof self n Hself e bs Hb) as HL.
  destruct (dec_seq self e bs) as [[[l e2] r2]| | |]; cbn in *; auto.
Qed.
End Body.

(** with fuel f, every input shorter than f is decoded without running out of fuel *)
Lemma dec_good : forall f, SelfOk False (dec f) f.
Proof.
  induction f as [|f IH]; intros e bs Hb; [lia|].
  change (dec (S f) e bs) with (dec_body (dec f) e bs). exact (dec_body_good False (dec f) f IH e bs Hb).
Qed.

(** whatever the fuel, the decoder never panics and never hands back more than it got *)
Lemma dec_fine : forall f n, SelfOk True (dec f) n.
Proof.
  induction f as [|f IH]; intros n e bs Hb; [exact I|].
  change (dec (S f) e bs) with (dec_body (dec f) e bs).
  exact (dec_body_good True (dec f) (length bs) (IH (length bs)) e bs ltac:(lia)).
Qed.

Theorem dec_no_panic f e bs : dec f e bs <> Panic.
Proof.
  pose proof (dec_fine f (S (length bs)) e bs ltac:(lia)) as H. intros E. rewrite E in H. exact H.
Qed.

Theorem dec_enough_fuel e bs : dec (S (length bs)) e bs <> OutOfFuel.
Proof.
  pose proof (dec_good (S (length bs)) e bs ltac:(lia)) as H. intros E. rewrite E in H. exact H.
Qed.

Theorem dec_rest_le f e bs v e' r : dec f e bs = Ok (v, e', r) -> (length r <= length bs)%nat.
Proof.
  pose proof (dec_fine f (S (length bs)) e bs ltac:(lia)) as H. intros E. rewrite E in H. exact H.
Qed.

(** ** recursion depth is not bounded by a constant: [n] nested list32 headers
    (9n+1 bytes) need exactly [n+1] levels of recursion *)
Fixpoint nest (n : nat) : bytes :=
  match n with
  | O => [64]
  | S k => [208; 0; 0; 255; 255; 0; 0; 0; 1] ++ nest k
  end.

Lemma nest_length n : length (nest n) = (9 * n + 1)%nat.
Proof. induction n; cbn [nest length app]; lia. Qed.

Lemma nest_needs_depth : forall n, dec n None (nest n) = OutOfFuel.
Proof.
  induction n as [|n IH]; [reflexivity|].
  change (dec (S n) None (nest (S n))) with (dec_body (dec n) None (nest (S n))).
  cbn [nest app]. unfold dec_body. cbn -[dec nest]. unfold dec_seq. cbn -[dec nest].
  change (Pos.to_nat 1) with 1%nat. cbn [list_loop]. rewrite IH. reflexivity.
Qed.

Fixpoint nested_lists (n : nat) : value :=
  match n with O => VNull | S k => VList [nested_lists k] end.

Lemma nest_decodes : forall n rest, dec (S n) None (nest n ++ rest) = Ok (nested_lists n, None, rest).
Proof.
  induction n as [|n IH]; intros rest; [reflexivity|].
  change (dec (S (S n)) None (nest (S n) ++ rest)) with (dec_body (dec (S n)) None (nest (S n) ++ rest)).
  cbn [nest app]. unfold dec_body. cbn -[dec nest]. unfold dec_seq. cbn -[dec nest].
  change (Pos.to_nat 1) with 1%nat. cbn [list_loop]. rewrite IH. reflexivity.
Qed.
