(** Proofs about Session/Window.v (C07). *)
From FV Require Import Base.Serial Session.Window Proofs.SerialProofs.
From Coq Require Import ZArith Lia ZifyN ZifyBool.
Ltac Zify.zify_post_hook ::= Z.div_mod_to_equations.
Open Scope N_scope.

(** ** Specification-side ghost state: what the peer last advertised and what
    it last stated as its next-outgoing-id, tracked from the history alone. *)
Record ghost := mkG {
  g_base : N;      (* peer's next-incoming-id as last advertised (or our initial id) *)
  g_win : N;       (* peer's incoming-window as last advertised *)
  g_nii : N        (* peer's last stated next-outgoing-id, advanced per received transfer *)
}.

Definition ghost_step (init : N) (g : ghost) (e : ev) : ghost :=
  match e with
  | InFlow f => mkG (match f_nii f with Some n => n | None => init end) (f_iw f) (f_noi f)
  | InXfer => mkG (g_base g) (g_win g) (wadd (g_nii g) 1)
  | OutXfer _ => g
  end.

Definition wf_ev (e : ev) : Prop :=
  match e with InFlow f => f_iw f < W | _ => True end.

Definition wf_evb (e : ev) : bool :=
  match e with InFlow f => f_iw f <? W | _ => true end.
Lemma wf_evs_of_b evs : forallb wf_evb evs = true -> Forall wf_ev evs.
Proof.
  intros H. apply Forall_forall. intros e He.
  rewrite forallb_forall in H. specialize (H e He).
  destruct e; cbn in *; auto. apply N.ltb_lt; exact H.
Qed.

(** the invariant tying the code's counters to the ghost *)
Definition InvC (g : ghost) (s : sess) : Prop :=
  s_noi s < W /\ g_win g < W /\
  s_riw s = sat_sub (g_win g) (sdist (g_base g) (s_noi s)) /\
  s_nii s = g_nii g.
Definition Inv (g : ghost) (s : sess) : Prop :=
  InvC g s /\ (s_buf s = [] \/ s_riw s = 0).

(** what each emitted frame must satisfy w.r.t. the ghost at emission time *)
Definition frame_ok (g : ghost) (s_after : sess) (fr : sframe) : Prop :=
  match fr with
  | FTransfer tid did x =>
      in_window (g_base g) (g_win g) tid /\
      did = match x_tag x with Some _ => Some tid | None => None end
  | FFlow f =>
      f_nii f = Some (g_nii g) /\ f_iw f = s_iw s_after /\ f_ow f = s_ow s_after
  end.

(** wire-order consistency: transfer-ids are consecutive from [noi] and every
    flow reports as next-outgoing-id exactly the number of transfers before it *)
Fixpoint wire_consistent (noi : N) (l : list sframe) : Prop :=
  match l with
  | [] => True
  | FTransfer tid _ _ :: r => tid = noi /\ wire_consistent (wadd noi 1) r
  | FFlow f :: r => f_noi f = noi /\ wire_consistent noi r
  end.

Fixpoint count_xfers (l : list sframe) : N :=
  match l with
  | [] => 0
  | FTransfer _ _ _ :: r => 1 + count_xfers r
  | FFlow _ :: r => count_xfers r
  end.

Fixpoint xfers_of (l : list sframe) : list xfer :=
  match l with
  | [] => []
  | FTransfer _ _ x :: r => x :: xfers_of r
  | FFlow _ :: r => xfers_of r
  end.

Lemma xfers_of_app a b : xfers_of (a ++ b) = xfers_of a ++ xfers_of b.
Proof. induction a as [|[ | ] a IH]; cbn; rewrite ?IH; reflexivity. Qed.

Lemma count_xfers_app a b : count_xfers (a ++ b) = count_xfers a + count_xfers b.
Proof. induction a as [|[ | ] a IH]; cbn [count_xfers app]; rewrite ?IH; lia. Qed.

Lemma wire_consistent_app noi a b : noi < W ->
  (wire_consistent noi (a ++ b) <->
   wire_consistent noi a /\ wire_consistent (wadd noi (count_xfers a)) b).
Proof.
  revert noi; induction a as [|[tid did x|f] a IH]; intros noi Hn; cbn [wire_consistent count_xfers app].
  - rewrite wadd_0 by exact Hn. tauto.
  - rewrite (IH (wadd noi 1)) by apply wadd_lt. rewrite wadd_wadd. tauto.
  - rewrite (IH noi) by exact Hn. tauto.
Qed.

(** ** [out_inner] *)
Lemma out_inner_spec g s x s' fr :
  InvC g s -> 0 < s_riw s -> out_inner s x = (s', fr) ->
  fr = FTransfer (s_noi s) (match x_tag x with Some _ => Some (s_noi s) | None => None end) x /\
  in_window (g_base g) (g_win g) (s_noi s) /\
  s_noi s' = wadd (s_noi s) 1 /\ s_riw s' = s_riw s - 1 /\
  s_buf s' = s_buf s /\ s_iw s' = s_iw s /\ s_ow s' = s_ow s /\
  s_init_oi s' = s_init_oi s /\ s_nfc s' = s_nfc s /\ s_row s' = s_row s /\ s_mapped s' = s_mapped s /\
  InvC g s'.
Proof.
  intros (Hn & Hw & Hr & Hi) Hpos E. unfold out_inner in E. inversion E; subst; clear E.
  unfold InvC.
  cbn [s_noi s_riw s_buf s_nii s_iw s_ow s_init_oi s_nfc s_row s_mapped].
  assert (Hd : sdist (g_base g) (s_noi s) < g_win g).
  { unfold sat_sub in Hr. lia. }
  repeat split; try reflexivity; auto.
  - apply wadd_lt.
  - rewrite sdist_wadd1 by (unfold W in *; lia). unfold sat_sub in *. lia.
Qed.

Definition same_static (s s' : sess) : Prop :=
  s_nii s' = s_nii s /\ s_iw s' = s_iw s /\ s_ow s' = s_ow s /\ s_init_oi s' = s_init_oi s /\
  s_nfc s' = s_nfc s /\ s_row s' = s_row s /\ s_mapped s' = s_mapped s.

Definition all_transfers (l : list sframe) : Prop :=
  forall fr, In fr l -> exists t d x, fr = FTransfer t d x.

(** ** the drain loop *)
Lemma drain_buf_spec g : forall buf s acc s' out,
  InvC g s -> drain_buf s buf acc = (s', out) ->
  exists new,
    out = acc ++ new /\
    InvC g s' /\
    xfers_of new ++ s_buf s' = buf /\
    Forall (frame_ok g s') new /\
    wire_consistent (s_noi s) new /\
    s_noi s' = wadd (s_noi s) (count_xfers new) /\
    (s_buf s' = [] \/ s_riw s' = 0) /\
    same_static s s' /\
    (s_riw s = 0 -> new = []) /\
    all_transfers new.
Proof.
  induction buf as [|x rest IH]; intros s acc s' out HI E; cbn [drain_buf] in E.
  - inversion E; subst; clear E. exists []. rewrite app_nil_r.
    destruct HI as (Hn & Hw & Hr & Hi).
    unfold InvC, same_static, all_transfers. cbn. repeat split; auto.
    + rewrite wadd_0; auto.
    + intros fr [].
  - destruct (0 <? s_riw s) eqn:Hpos.
    + apply N.ltb_lt in Hpos.
      destruct (out_inner (set_buf s rest) x) as [s1 fr] eqn:Eo.
      assert (HI' : InvC g (set_buf s rest)) by exact HI.
      destruct (out_inner_spec g _ x s1 fr HI' Hpos Eo)
        as (Hfr & Hin & Hnoi & Hriw & Hbuf & Hiw & How & Hio & Hnfc & Hrow & Hmp & HI1).
      destruct (IH s1 (acc ++ [fr]) s' out HI1 E)
        as (new & Hout & HIs' & Hx & Hok & Hwc & Hnoi' & Hdone & Hst & Hz & Hall).
      exists (fr :: new).
      destruct Hst as (S1 & S2 & S3 & S4 & S5 & S6 & S7).
      assert (Hnii1 : s_nii s1 = s_nii s).
      { destruct HI1 as (_ & _ & _ & A). destruct HI as (_ & _ & _ & B). cbn in *. congruence. }
      cbn in Hnoi, Hiw, How, Hio, Hnfc, Hrow, Hmp, Hfr.
      repeat split.
      * rewrite Hout, <- app_assoc. reflexivity.
      * apply HIs'.
      * apply HIs'.
      * apply HIs'.
      * apply HIs'.
      * subst fr. cbn [xfers_of app]. f_equal. exact Hx.
      * constructor; [|exact Hok]. subst fr. cbn. split; [exact Hin|reflexivity].
      * subst fr. cbn [wire_consistent]. split; [reflexivity|]. rewrite <- Hnoi. exact Hwc.
      * subst fr. cbn [count_xfers]. rewrite Hnoi', Hnoi, wadd_wadd. reflexivity.
      * exact Hdone.
      * congruence.
      * congruence.
      * congruence.
      * congruence.
      * congruence.
      * congruence.
      * congruence.
      * intros Hz0. lia.
      * intros f [<-|Hf]; [subst fr; eauto | apply Hall; exact Hf].
    + apply N.ltb_ge in Hpos. inversion E; subst; clear E. exists []. rewrite app_nil_r.
      destruct HI as (Hn & Hw & Hr & Hi).
      unfold InvC, same_static, all_transfers. cbn. repeat split; auto.
      * rewrite wadd_0; auto.
      * right. lia.
      * intros fr [].
Qed.

(** ** one step *)
Definition submitted1 (e : ev) : list xfer := match e with OutXfer x => [x] | _ => [] end.

Ltac side :=
  try solve [ assumption | reflexivity | congruence
            | match goal with H : InvC _ _ |- _ => apply H end
            | rewrite wadd_0; [reflexivity | solve [assumption | match goal with H : InvC _ _ |- _ => apply H end]]
            | rewrite app_nil_r; solve [reflexivity | assumption | congruence]
            | constructor ].

Lemma step_spec g s e s' out :
  Inv g s -> wf_ev e -> step s e = (s', out) ->
  let g' := ghost_step (s_init_oi s) g e in
  Inv g' s' /\
  Forall (frame_ok g' s') out /\
  wire_consistent (s_noi s) out /\
  s_noi s' = wadd (s_noi s) (count_xfers out) /\
  xfers_of out ++ s_buf s' = s_buf s ++ submitted1 e /\
  s_init_oi s' = s_init_oi s /\ s_iw s' = s_iw s /\ s_ow s' = s_ow s.
Proof.
  intros [HC HB] Hwf E. destruct e as [x|f|]; cbn [step] in E; cbn [ghost_step submitted1].
  - (* OutXfer *)
    unfold on_outgoing_transfer in E.
    destruct (s_riw s =? 0) eqn:Hz.
    + apply N.eqb_eq in Hz. inversion E; subst; clear E.
      assert (HC' : InvC g (set_buf s (s_buf s ++ [x]))) by exact HC.
      unfold Inv. cbn [wire_consistent count_xfers xfers_of app]. repeat split; side.
      right. exact Hz.
    + apply N.eqb_neq in Hz.
      destruct (s_buf s) as [|b0 bs] eqn:Hbuf.
      * destruct (out_inner s x) as [s1 fr] eqn:Eo. inversion E; subst; clear E.
        destruct (out_inner_spec g s x s' fr HC ltac:(lia) Eo)
          as (Hfr & Hin & Hnoi & Hriw & Hbuf' & Hiw & How & Hio & Hnfc & Hrow & Hmp & HI1).
        subst fr. unfold Inv. cbn [wire_consistent count_xfers xfers_of app].
        repeat split; side.
        all: try (left; congruence).
        all: try (constructor; [|constructor]; cbn; split; [exact Hin|reflexivity]).
        all: try (rewrite Hbuf', Hbuf; reflexivity).
      * exfalso. destruct HB as [HB|HB]; [discriminate|contradiction].
  - (* InFlow *)
    unfold on_incoming_flow in E. cbn [app] in E.
    set (s1 := on_incoming_flow_counters s f) in *.
    set (g' := mkG _ _ _).
    assert (HC1 : InvC g' s1).
    { destruct HC as (Hn & Hw & Hr & Hi). unfold InvC, g', s1, on_incoming_flow_counters, flow_base.
      cbn. repeat split; auto. }
    assert (Hs1 : s_noi s1 = s_noi s /\ s_buf s1 = s_buf s /\ s_init_oi s1 = s_init_oi s /\
                  s_iw s1 = s_iw s /\ s_ow s1 = s_ow s) by (cbn; auto).
    destruct Hs1 as (A1 & A2 & A3 & A4 & A5).
    destruct ((0 <? s_riw s1) && negb (match s_buf s1 with [] => true | _ => false end)) eqn:Hc.
    + unfold prepare_buffered in E.
      destruct (drain_buf_spec g' _ _ _ _ _ HC1 E)
        as (new & Hout & HIs' & Hx & Hok & Hwc & Hnoi' & Hdone & Hst & Hz & Hall).
      cbn [app] in Hout. subst out.
      destruct Hst as (S1 & S2 & S3 & S4 & S5 & S6 & S7).
      unfold Inv. repeat split; side.
      all: try (rewrite <- A1; exact Hwc).
    + inversion E; subst; clear E. unfold Inv. cbn [wire_consistent count_xfers xfers_of app].
      apply andb_false_iff in Hc.
      repeat split; side.
      all: try (rewrite A1, wadd_0; [reflexivity|apply HC]).
      all: try (destruct Hc as [Hc|Hc];
        [ right; apply N.ltb_ge in Hc; lia
        | left; destruct (s_buf s1); [reflexivity|discriminate] ]).
  - (* InXfer *)
    unfold maybe_outgoing_session_flow in E.
    set (s1 := on_incoming_transfer_counters s) in *.
    set (g' := mkG _ _ _).
    assert (HC1 : InvC g' s1).
    { destruct HC as (Hn & Hw & Hr & Hi). unfold InvC, g', s1, on_incoming_transfer_counters.
      cbn. repeat split; auto. congruence. }
    assert (HB1 : s_buf s1 = [] \/ s_riw s1 = 0) by exact HB.
    assert (Hn1 : s_noi s1 < W) by apply HC1.
    assert (Hs1 : s_noi s1 = s_noi s /\ s_buf s1 = s_buf s /\ s_init_oi s1 = s_init_oi s /\
                  s_iw s1 = s_iw s /\ s_ow s1 = s_ow s) by (cbn; auto).
    destruct Hs1 as (A1 & A2 & A3 & A4 & A5).
    destruct (negb (s_mapped s1)).
    + inversion E; subst; clear E. unfold Inv. cbn [wire_consistent count_xfers xfers_of app].
      repeat split; side. all: try (rewrite A1, wadd_0; [reflexivity|apply HC]).
    + destruct (s_iw s1 / 2 <=? s_nfc s1).
      * inversion E; subst; clear E.
        match goal with |- context [Inv g' ?S] => set (s2 := S) end.
        assert (HC2 : InvC g' s2) by exact HC1.
        unfold Inv.
        cbn [wire_consistent count_xfers xfers_of app on_outgoing_flow f_noi].
        repeat split; side.
        all: try (rewrite wadd_0; [reflexivity|apply HC]).
        constructor; [|constructor]. destruct HC2 as (_ & _ & _ & Hi). cbn in Hi |- *. rewrite <- Hi. auto.
      * inversion E; subst; clear E. unfold Inv. cbn [wire_consistent count_xfers xfers_of app].
        repeat split; side. all: try (rewrite A1, wadd_0; [reflexivity|apply HC]).
Qed.

(** ** whole histories *)
Fixpoint ghost_trace (init : N) (g : ghost) (evs : list ev) : list ghost :=
  match evs with
  | [] => []
  | e :: r => let g' := ghost_step init g e in g' :: ghost_trace init g' r
  end.

Definition frames_ok (iw ow : N) (g : ghost) (out : list sframe) : Prop :=
  Forall (fun fr =>
    match fr with
    | FTransfer tid did x =>
        in_window (g_base g) (g_win g) tid /\
        did = match x_tag x with Some _ => Some tid | None => None end
    | FFlow f => f_nii f = Some (g_nii g) /\ f_iw f = iw /\ f_ow f = ow
    end) out.

Lemma frame_ok_frames_ok g s out : Forall (frame_ok g s) out -> frames_ok (s_iw s) (s_ow s) g out.
Proof.
  unfold frames_ok. apply Forall_impl. intros [tid did x|f]; cbn; auto.
Qed.

Definition submitted (evs : list ev) : list xfer := flat_map submitted1 evs.

Theorem run_spec : forall evs g s s' outs,
  Inv g s -> Forall wf_ev evs -> run s evs = (s', outs) ->
  Inv (fold_left (ghost_step (s_init_oi s)) evs g) s' /\
  Forall2 (frames_ok (s_iw s) (s_ow s)) (ghost_trace (s_init_oi s) g evs) outs /\
  wire_consistent (s_noi s) (concat outs) /\
  s_noi s' = wadd (s_noi s) (count_xfers (concat outs)) /\
  xfers_of (concat outs) ++ s_buf s' = s_buf s ++ submitted evs /\
  s_init_oi s' = s_init_oi s /\ s_iw s' = s_iw s /\ s_ow s' = s_ow s.
Proof.
  induction evs as [|e r IH]; intros g s s' outs HI Hwf E; cbn [run] in E.
  - inversion E; subst; clear E. cbn [fold_left ghost_trace concat count_xfers xfers_of submitted flat_map app wire_consistent].
    rewrite app_nil_r.
    split; [exact HI|]. repeat split; auto. rewrite wadd_0; [reflexivity|apply HI].
  - destruct (step s e) as [s1 o] eqn:Es. destruct (run s1 r) as [s2 os] eqn:Er.
    inversion E; subst; clear E.
    inversion Hwf as [|? ? Hwe Hwr]; subst.
    destruct (step_spec g s e s1 o HI Hwe Es) as (HI1 & Hok & Hwc & Hnoi & Hx & Hio & Hiw & How).
    destruct (IH _ _ _ _ HI1 Hwr Er) as (HI2 & Hoks & Hwcs & Hnois & Hxs & Hio2 & Hiw2 & How2).
    rewrite Hio in *. rewrite Hiw, How in *.
    cbn [fold_left ghost_trace concat submitted flat_map].
    assert (Hn : s_noi s < W) by apply HI.
    split; [exact HI2|].
    repeat split; try congruence; auto.
    + constructor; [|exact Hoks]. apply frame_ok_frames_ok in Hok. rewrite Hiw, How in Hok. exact Hok.
    + apply wire_consistent_app; [exact Hn|]. split; [exact Hwc|]. rewrite <- Hnoi. exact Hwcs.
    + rewrite count_xfers_app, Hnois, Hnoi, wadd_wadd. reflexivity.
    + rewrite xfers_of_app, <- app_assoc, Hxs.
      fold (submitted r). rewrite app_assoc, Hx, <- app_assoc. reflexivity.
Qed.

(** non-vacuity: the state after a begin exchange satisfies the invariant *)
Lemma Inv_after_begin noi iw ow b_noi b_iw b_ow :
  noi < W -> b_iw < W ->
  Inv (mkG noi b_iw b_noi) (on_incoming_begin (sess_init noi iw ow) b_noi b_iw b_ow).
Proof.
  intros Hn Hw. unfold Inv, InvC. cbn. repeat split; auto.
  rewrite sdist_self by exact Hn. unfold sat_sub. lia.
Qed.
