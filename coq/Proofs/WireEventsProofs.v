(** Whatever the bytes of a frame are, an open connection (without sessions) reacts in one of four
    defined ways. *)
From Coq Require Import List.
From FV Require Import Base.Bytes Codec.Value Codec.Composite Frame.AmqpFrame Conn.Lifecycle Conn.WireEvents.
Import ListNotations.

Theorem any_frame_on_open_connection fuel bs :
  let r := on_frame_bytes fuel SOpened bs in
  (r = (SOpened, [])) \/                                                            (* heartbeat *)
  (exists k, r = (SDiscardProto k WHandle, [WCloseErr k])) \/                        (* illegal here: close with an error, then discard *)
  (exists e, r = (SEnded (RErr e) HLive, [WClose; WEof]) /\ (e = KRemoteClosed \/ e = KRemoteClosedWithError)) \/  (* the peer's close, answered *)
  (r = (SEnded (RErr KTransportError) HLive, [WEof])).                              (* does not decode: the engine stops *)
Proof.
  unfold on_frame_bytes. destruct (dec_frame fuel bs) as [f| | |]; try (right; right; right; reflexivity).
  unfold classify. destruct (f_body f) as [|s vs p].
  - left. reflexivity.
  - destruct (s_code s =? 16)%N; [right; left; eexists; reflexivity|].
    destruct (s_code s =? 24)%N.
    { destruct (first_field_null vs); cbn; right; right; left; eexists; split; try reflexivity; auto. }
    destruct (s_code s =? 17)%N; [destruct (first_field_null vs); right; left; eexists; reflexivity|].
    destruct (s_code s =? 23)%N; right; left; eexists; reflexivity.
Qed.

(** afterwards nothing more is written, whatever else arrives (until the peer's close) *)
Theorem after_an_illegal_frame_nothing_is_written fuel k bs :
  let r := on_frame_bytes fuel (SDiscardProto k WHandle) bs in
  snd r = [] \/ snd r = [WEof].
Proof.
  unfold on_frame_bytes. destruct (dec_frame fuel bs) as [f| | |]; try (right; reflexivity).
  unfold classify. destruct (f_body f) as [|s vs p]; [left; reflexivity|].
  destruct (s_code s =? 16)%N; [left; reflexivity|].
  destruct (s_code s =? 24)%N; [destruct (first_field_null vs); right; reflexivity|].
  destruct (s_code s =? 17)%N; [destruct (first_field_null vs); left; reflexivity|].
  destruct (s_code s =? 23)%N; left; reflexivity.
Qed.
