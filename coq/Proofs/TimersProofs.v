(** Proofs about the timed connection model (Conn/Timers.v) and the channel-max
    bound of the channel allocator (Session/Ids.v). *)
From FV Require Import Conn.Timers Lib.Slab Session.Ids Proofs.IdsProofs.
From Coq Require Import Lia ZArith ZifyN ZifyBool ZifyNat.
Ltac Zify.zify_post_hook ::= Z.div_mod_to_equations.
Open Scope N_scope.

Definition running (ph : tphase) : bool :=
  match ph with PWaitOpen | POpened | PCloseSent | PDiscard => true | _ => false end.

Definition is_arrival (x : stim) : bool :=
  match x with SPeerOpen _ | SPeerEmpty | SPeerClose => true | _ => false end.

(** time and last arrival after a script, from the script alone *)
Fixpoint clock (t la : N) (es : list (stim * N)) : N * N :=
  match es with
  | [] => (t, la)
  | (x, dt) :: r => clock (t + dt) (if is_arrival x then t else la) r
  end.

(** * ticks *)
Lemma tick_n_next t p limit : 0 < p -> limit < t + tick_n t p limit * p.
Proof.
  intros Hp. unfold tick_n. destruct (t <=? limit) eqn:E; [|lia].
  assert (limit - t < ((limit - t) / p + 1) * p) by (zify; nia).
  lia.
Qed.

Lemma tick_n_last t p limit j : 0 < p -> j < tick_n t p limit -> t + j * p <= limit.
Proof.
  intros Hp. unfold tick_n. destruct (t <=? limit) eqn:E; [|lia].
  intros Hj. assert (j <= (limit - t) / p) by lia.
  assert ((limit - t) / p * p <= limit - t) by (zify; nia).
  assert (j * p <= (limit - t) / p * p) by nia. lia.
Qed.

Lemma ticks_in t p limit j : j < tick_n t p limit -> In (t + j * p) (fst (ticks t p limit)).
Proof.
  intros Hj. unfold ticks. cbn [fst]. apply in_map_iff. exists (N.to_nat j). split; [f_equal; lia|].
  apply in_seq. lia.
Qed.

Lemma ticks_only t p limit x : In x (fst (ticks t p limit)) -> exists j, j < tick_n t p limit /\ x = t + j * p.
Proof.
  unfold ticks. cbn [fst]. intros H. apply in_map_iff in H as (i & <- & Hi). apply in_seq in Hi.
  exists (N.of_nat i). split; [lia|reflexivity].
Qed.

(** * the local idle deadline *)
Section Idle.
Variable l : N.
Hypothesis Hl : 0 < l.

(** [t]: current time, [la]: time of the last arrival (0: the transport was created) *)
Definition IdleInv (s : tstate) (t la : N) : Prop :=
  now s = t /\ (running (phase s) = true -> idle s = Some (la + l, l) /\ t < la + l).

Lemma apply_idle s x t la : IdleInv s t la ->
  IdleInv (fst (apply s x)) t (if is_arrival x then t else la).
Proof.
  intros (Hn & Hr). unfold IdleInv, apply.
  destruct (phase s) as [| | | |r0 rep|] eqn:Ep; destruct x as [|ro| | | |]; try destruct rep;
    cbn [fst now phase idle running is_arrival].
  all: try (split; [exact Hn|intros; discriminate]).
  all: try (rewrite Ep; cbn [running]; split; [exact Hn|intros; discriminate]).
  all: try (rewrite Ep; exact (conj Hn Hr)).
  all: split; [exact Hn|]; intros _; destruct (Hr eq_refl) as [Hi Ht];
       unfold reset_idle; rewrite ?Hi, ?Hn; split; [reflexivity|lia].
Qed.

Lemma advance_idle s dt t la : IdleInv s t la -> IdleInv (fst (advance s dt)) (t + dt) la.
Proof.
  intros (Hn & Hr). unfold IdleInv, advance.
  destruct (phase s) eqn:Ep;
    try (cbn [fst now phase running]; split; [lia|intros; discriminate]).
  all: cbn in Hr; destruct (Hr eq_refl) as [Hi Ht]; rewrite Hi.
  all: destruct (la + l <=? now s + dt) eqn:Ed.
  all: destruct (hb s) as [[h p]|]; try destruct (ticks h p _) as [ts nx]; cbn [fst now phase idle running].
  all: try (split; [lia|intros; discriminate]).
  all: split; [lia|intros _; split; [reflexivity|lia]].
Qed.

Lemma tstep_idle s e t la : IdleInv s t la ->
  IdleInv (fst (tstep s e)) (t + snd e) (if is_arrival (fst e) then t else la).
Proof.
  intros H. unfold tstep. destruct (apply s (fst e)) as [s1 o1] eqn:E1.
  destruct (advance s1 (snd e)) as [s2 o2] eqn:E2. cbn [fst].
  pose proof (apply_idle s (fst e) t la H) as H1. rewrite E1 in H1. cbn [fst] in H1.
  pose proof (advance_idle s1 (snd e) _ _ H1) as H2. rewrite E2 in H2. exact H2.
Qed.

Lemma trun_idle es : forall s t la, IdleInv s t la ->
  IdleInv (fst (trun s es)) (fst (clock t la es)) (snd (clock t la es)).
Proof.
  induction es as [|[x dt] es IH]; intros s t la H; cbn [trun clock]; [exact H|].
  destruct (tstep s (x, dt)) as [s1 o] eqn:E1. destruct (trun s1 es) as [s2 os] eqn:E2. cbn [fst].
  pose proof (tstep_idle s (x, dt) t la H) as H1. rewrite E1 in H1. cbn [fst snd] in H1.
  pose proof (IH s1 _ _ H1) as H2. rewrite E2 in H2. exact H2.
Qed.

Lemma IdleInv_init : IdleInv (tinit (Some l)) 0 0.
Proof.
  unfold IdleInv, tinit. cbn [now phase idle running]. split; [reflexivity|intros _].
  destruct l eqn:E; [lia|]. cbn. split; [reflexivity|lia].
Qed.

(** a connection that is still running has heard from the peer less than [l] ago *)
Lemma idle_enforced es s os : trun (tinit (Some l)) es = (s, os) -> running (phase s) = true ->
  let '(t, la) := clock 0 0 es in now s = t /\ t < la + l.
Proof.
  intros E R. pose proof (trun_idle es _ _ _ IdleInv_init) as (Hn & Hr). rewrite E in Hn, Hr. cbn [fst] in Hn, Hr.
  destruct (clock 0 0 es) as [t la]. cbn [fst snd] in *. destruct (Hr R) as [_ Ht]. split; assumption.
Qed.

Lemma apply_stopped_kind s x r rep : running (phase s) = true ->
  phase (fst (apply s x)) = PStopped r rep -> r <> TIdleTimeout.
Proof.
  unfold apply. destruct (phase s) eqn:Ep; try discriminate; intros _; destruct x; cbn [fst phase];
    rewrite ?Ep; intros H; try discriminate; injection H as <- _; discriminate.
Qed.

(** the step in which the deadline fires: it fires exactly [l] after the last arrival *)
Lemma idle_exact s x dt t la rep : IdleInv s t la -> running (phase s) = true ->
  phase (fst (tstep s (x, dt))) = PStopped TIdleTimeout rep ->
  let la' := if is_arrival x then t else la in
  In (OEof (la' + l)) (snd (tstep s (x, dt))) /\ t <= la' + l <= t + dt.
Proof.
  intros H R. cbn zeta. unfold tstep. cbn [fst snd].
  pose proof (apply_idle s x t la H) as (Hn1 & Hr1).
  pose proof (apply_stopped_kind s x) as Hk.
  destruct (apply s x) as [s1 o1]. cbn [fst] in Hn1, Hr1, Hk.
  unfold advance.
  destruct (phase s1) as [| | | |r1 rep1|] eqn:Ep1; cbn [fst snd phase].
  5: { intros Hp. injection Hp as -> _. exfalso. exact (Hk _ _ R eq_refl eq_refl). }
  5: { discriminate. }
  all: destruct (Hr1 eq_refl) as [Hi Ht]; rewrite Hi.
  all: destruct ((if is_arrival x then t else la) + l <=? now s1 + dt) eqn:Ed.
  all: destruct (hb s1) as [[h p]|]; try destruct (ticks h p _) as [ts nx]; cbn [fst snd phase]; try rewrite Ep1; try discriminate.
  all: intros _; split; [apply in_or_app; right; apply in_or_app; right; cbn; auto 6|lia].
Qed.

End Idle.

(** without a configured time-out (unset or 0) the deadline never exists *)
Lemma no_idle_apply s x : idle s = None -> idle (fst (apply s x)) = None.
Proof.
  intros H. unfold apply, reset_idle. rewrite H.
  destruct (phase s) as [| | | |r0 rep|]; destruct x; try destruct rep; cbn; try exact H; reflexivity.
Qed.

Lemma no_idle_advance s dt : idle s = None -> idle (fst (advance s dt)) = None /\
  (forall r rep, phase (fst (advance s dt)) = PStopped r rep -> phase s = PStopped r rep).
Proof.
  intros H. unfold advance. rewrite H.
  destruct (phase s) eqn:Ep; cbn [fst idle phase]; try (split; [reflexivity|intros; assumption]).
  all: destruct (hb s) as [[h p]|]; try destruct (ticks h p _) as [ts nx]; cbn [fst idle phase]; (split; [reflexivity || exact H|intros; discriminate]).
Qed.

Definition not_timed_out (ph : tphase) : Prop :=
  match ph with PStopped TIdleTimeout _ => False | _ => True end.

Lemma apply_not_timed_out s x : not_timed_out (phase s) -> not_timed_out (phase (fst (apply s x))).
Proof.
  unfold apply. destruct (phase s) as [| | | |r rep|] eqn:Ep; destruct x; cbn; try tauto; try (rewrite Ep; cbn; tauto);
    destruct rep; cbn; try (rewrite Ep; cbn); tauto.
Qed.

Lemma no_idle_trun es : forall s, idle s = None -> not_timed_out (phase s) ->
  not_timed_out (phase (fst (trun s es))).
Proof.
  induction es as [|[x dt] es IH]; intros s Hi Hp; cbn [trun]; [exact Hp|].
  unfold tstep. cbn [fst snd].
  destruct (apply s x) as [s1 o1] eqn:E1. destruct (advance s1 dt) as [s2 o2] eqn:E2.
  destruct (trun s2 es) as [s3 os] eqn:E3. cbn [fst].
  pose proof (no_idle_apply s x Hi) as Hi1. rewrite E1 in Hi1. cbn [fst] in Hi1.
  pose proof (apply_not_timed_out s x Hp) as Hp1. rewrite E1 in Hp1. cbn [fst] in Hp1.
  destruct (no_idle_advance s1 dt Hi1) as [Hi2 Hs2]. rewrite E2 in Hi2, Hs2. cbn [fst] in Hi2, Hs2.
  assert (Hp2 : not_timed_out (phase s2)).
  { destruct (phase s2) as [| | | |r rep|] eqn:Ep2; cbn; try tauto. rewrite (Hs2 r rep eq_refl) in Hp1. exact Hp1. }
  pose proof (IH s2 Hi2 Hp2) as H3. rewrite E3 in H3. exact H3.
Qed.

Lemma never_times_out_unconfigured l es s os :
  l = None \/ l = Some 0 -> trun (tinit l) es = (s, os) -> not_timed_out (phase s).
Proof.
  intros Hl E. pose proof (no_idle_trun es (tinit l)) as H. rewrite E in H. apply H.
  - destruct Hl as [-> | ->]; reflexivity.
  - exact I.
Qed.

(** * the heartbeat *)
Section Heartbeat.
Variable r : N.
Hypothesis Hr : 0 < r.
Variable t_o : N.                  (* the instant the peer's open was processed *)

Definition emitted (os : list tobs) (t : N) : Prop := In (OEmpty t) os.

(** while open: the next tick is [t_o + k r], all earlier ticks have been written, and it is not overdue *)
Definition HbInv (s : tstate) (sent : list tobs) : Prop :=
  phase s = POpened ->
  exists k, hb s = Some (t_o + k * r, r) /\ (forall j, j < k -> emitted sent (t_o + j * r)) /\ now s <= t_o + k * r.

Lemma covered_of_inv s sent : HbInv s sent -> phase s = POpened ->
  forall a, t_o <= a -> a + r <= now s -> exists t, emitted sent t /\ a <= t < a + r.
Proof.
  intros H Hp a Ha Hw. destruct (H Hp) as (k & _ & Hall & Hn).
  set (j := (a - t_o + r - 1) / r).
  assert (Hj1 : a - t_o <= j * r) by (subst j; zify; nia).
  assert (Hj2 : j * r < a - t_o + r) by (subst j; zify; nia).
  exists (t_o + j * r). split; [apply Hall; nia|lia].
Qed.

Lemma apply_hb s x sent : HbInv s sent -> phase (fst (apply s x)) = POpened -> phase s = POpened ->
  HbInv (fst (apply s x)) (sent ++ snd (apply s x)).
Proof.
  intros H Hp' Hp _. destruct (H Hp) as (k & Hh & Hall & Hn). unfold apply in *. rewrite Hp in *.
  destruct x; cbn [fst snd phase hb now] in *; try discriminate.
  - exists k. rewrite app_nil_r. auto.
  - exists k. rewrite app_nil_r. auto.
Qed.

Lemma advance_hb_open s dt sent : HbInv s sent -> phase (fst (advance s dt)) = POpened ->
  HbInv (fst (advance s dt)) (sent ++ snd (advance s dt)).
Proof.
  intros H Hp' _. unfold advance in *.
  destruct (phase s) eqn:Ep; try (cbn [fst phase] in Hp'; discriminate).
  2: {
    destruct (H Ep) as (k & Hh & Hall & Hn).
    rewrite Hh in *.
    destruct (idle s) as [[d l']|].
    - destruct (d <=? now s + dt) eqn:Ed.
      + destruct (ticks (t_o + k * r) r d) as [ts nx]. cbn [fst phase] in Hp'. discriminate.
      + destruct (ticks (t_o + k * r) r (now s + dt)) as [ts nx] eqn:Et. cbn [fst snd phase hb now].
        pose proof (tick_n_next (t_o + k * r) r (now s + dt) Hr) as Hnx.
        assert (nx = t_o + k * r + tick_n (t_o + k * r) r (now s + dt) * r) by (unfold ticks in Et; injection Et as _ <-; reflexivity).
        exists (k + tick_n (t_o + k * r) r (now s + dt)). split; [f_equal; f_equal; lia|]. split; [|lia].
        intros j Hj. unfold emitted. apply in_or_app. destruct (j <? k) eqn:Ejk.
        * left. apply Hall. lia.
        * right. unfold tick_obs. apply in_map.
          assert (Hin : In (t_o + k * r + (j - k) * r) (fst (ticks (t_o + k * r) r (now s + dt)))) by (apply ticks_in; lia).
          rewrite Et in Hin. cbn [fst] in Hin. replace (t_o + j * r) with (t_o + k * r + (j - k) * r) by nia. exact Hin.
    - destruct (ticks (t_o + k * r) r (now s + dt)) as [ts nx] eqn:Et. cbn [fst snd phase hb now].
      pose proof (tick_n_next (t_o + k * r) r (now s + dt) Hr) as Hnx.
      assert (nx = t_o + k * r + tick_n (t_o + k * r) r (now s + dt) * r) by (unfold ticks in Et; injection Et as _ <-; reflexivity).
      exists (k + tick_n (t_o + k * r) r (now s + dt)). split; [f_equal; f_equal; lia|]. split; [|lia].
      intros j Hj. unfold emitted. apply in_or_app. destruct (j <? k) eqn:Ejk.
      * left. apply Hall. lia.
      * right. unfold tick_obs. apply in_map.
        assert (Hin : In (t_o + k * r + (j - k) * r) (fst (ticks (t_o + k * r) r (now s + dt)))) by (apply ticks_in; lia).
        rewrite Et in Hin. cbn [fst] in Hin. replace (t_o + j * r) with (t_o + k * r + (j - k) * r) by nia. exact Hin.
  }
  all: exfalso; destruct (idle s) as [[d l']|]; try destruct (d <=? now s + dt);
       destruct (hb s) as [[h p]|]; try destruct (ticks h p _) as [ts nx]; cbn [fst phase] in Hp'; discriminate.
Qed.

Lemma advance_phase_open s dt : phase (fst (advance s dt)) = POpened -> phase s = POpened.
Proof.
  unfold advance. destruct (phase s) eqn:Ep; try reflexivity; intros H; exfalso.
  all: try (cbn [fst phase] in H; discriminate).
  all: destruct (idle s) as [[d l']|]; try destruct (d <=? now s + dt);
       destruct (hb s) as [[h p]|]; try destruct (ticks h p _) as [ts nx]; cbn [fst phase] in H; discriminate.
Qed.

Lemma advance_phase_wait s dt : phase (fst (advance s dt)) = PWaitOpen -> phase s = PWaitOpen.
Proof.
  unfold advance. destruct (phase s) eqn:Ep; try reflexivity; intros H; exfalso.
  all: try (cbn [fst phase] in H; discriminate).
  all: destruct (idle s) as [[d l']|]; try destruct (d <=? now s + dt);
       destruct (hb s) as [[h p]|]; try destruct (ticks h p _) as [ts nx]; cbn [fst phase] in H; discriminate.
Qed.

Definition pre_or_open (ph : tphase) : bool :=
  match ph with PWaitOpen | POpened => true | _ => false end.

Lemma apply_left s x : pre_or_open (phase s) = false -> pre_or_open (phase (fst (apply s x))) = false.
Proof.
  unfold apply. destruct (phase s) as [| | | |r0 rep|] eqn:Ep; try discriminate; intros _;
    destruct x; try destruct rep; cbn [fst phase pre_or_open]; rewrite ?Ep; reflexivity.
Qed.

Lemma tstep_left s e : pre_or_open (phase s) = false -> pre_or_open (phase (fst (tstep s e))) = false.
Proof.
  intros H. unfold tstep. pose proof (apply_left s (fst e) H) as H1.
  destruct (apply s (fst e)) as [s1 o1]. cbn [fst] in H1.
  pose proof (advance_phase_open s1 (snd e)) as A. pose proof (advance_phase_wait s1 (snd e)) as B.
  destruct (advance s1 (snd e)) as [s2 o2]. cbn [fst] in *.
  destruct (phase s2); try reflexivity; [rewrite B in H1 by reflexivity|rewrite A in H1 by reflexivity]; discriminate.
Qed.

Lemma trun_left es : forall s, pre_or_open (phase s) = false -> pre_or_open (phase (fst (trun s es))) = false.
Proof.
  induction es as [|e es IH]; intros s H; cbn [trun]; [exact H|].
  pose proof (tstep_left s e H) as H1. destruct (tstep s e) as [s1 o]. cbn [fst] in H1.
  pose proof (IH s1 H1) as H2. destruct (trun s1 es) as [s2 os]. exact H2.
Qed.

Lemma apply_open_from s x : phase (fst (apply s x)) = POpened -> phase s = POpened ->
  True.
Proof. trivial. Qed.

Lemma tstep_hb s e sent : HbInv s sent -> phase s = POpened -> phase (fst (tstep s e)) = POpened ->
  HbInv (fst (tstep s e)) (sent ++ snd (tstep s e)).
Proof.
  intros H Hp Hp'. unfold tstep in *.
  pose proof (apply_hb s (fst e) sent H) as H1.
  destruct (apply s (fst e)) as [s1 o1]. cbn [fst snd] in H1.
  pose proof (advance_phase_open s1 (snd e)) as A.
  pose proof (advance_hb_open s1 (snd e) (sent ++ o1)) as H2.
  destruct (advance s1 (snd e)) as [s2 o2]. cbn [fst snd] in *.
  rewrite app_assoc. apply H2; [apply H1; [apply A; exact Hp'|exact Hp]|exact Hp'].
Qed.

Lemma trun_hb es : forall s sent, HbInv s sent -> phase s = POpened -> phase (fst (trun s es)) = POpened ->
  HbInv (fst (trun s es)) (sent ++ concat (snd (trun s es))).
Proof.
  induction es as [|e es IH]; intros s sent H Hp Hp'; cbn [trun] in *.
  - cbn. rewrite app_nil_r. exact H.
  - pose proof (tstep_hb s e sent H Hp) as H1. pose proof (tstep_left s e) as L.
    destruct (tstep s e) as [s1 o] eqn:E1. cbn [fst snd] in *.
    pose proof (trun_left es s1) as L2. pose proof (IH s1 (sent ++ o)) as H2.
    destruct (trun s1 es) as [s2 os] eqn:E2. cbn [fst snd concat] in *.
    assert (Hs1 : phase s1 = POpened).
    { destruct (phase s1) eqn:Ep1; try reflexivity; try (rewrite L2 in Hp' by reflexivity; discriminate);
        try (rewrite Hp' in L2; specialize (L2 eq_refl); discriminate).
      (* PWaitOpen after POpened is impossible *)
      exfalso. clear - E1 Hp Ep1. unfold tstep in E1. destruct (apply s (fst e)) as [s' o'] eqn:Ea.
      destruct (advance s' (snd e)) as [s'' o''] eqn:Eb. injection E1 as <- _.
      pose proof (advance_phase_wait s' (snd e)) as B. rewrite Eb in B. cbn [fst] in B. specialize (B Ep1).
      unfold apply in Ea. rewrite Hp in Ea. destruct (fst e); injection Ea as <- _; cbn [phase] in B; try discriminate; congruence. }
    rewrite app_assoc. apply H2; [apply H1; exact Hs1|exact Hs1|exact Hp'].
Qed.

End Heartbeat.

(** the peer's open with idle-time-out [r] > 0 is processed at time [now s0]; as long as the
    connection stays open, every window of length [r] since then contains a written frame *)
Lemma heartbeat_covers r s0 dt es s os :
  0 < r -> phase s0 = PWaitOpen ->
  trun s0 ((SPeerOpen (Some r), dt) :: es) = (s, os) -> phase s = POpened ->
  forall a, now s0 <= a -> a + r <= now s ->
    exists t, In (OEmpty t) (concat os) /\ a <= t < a + r.
Proof.
  intros Hr Hp0 E Hp a Ha Hw. cbn [trun] in E.
  destruct (tstep s0 (SPeerOpen (Some r), dt)) as [s1 o1] eqn:E1.
  destruct (trun s1 es) as [s2 os2] eqn:E2. injection E as <- <-.
  (* the opening step establishes the invariant *)
  assert (Hs1 : phase s1 = POpened).
  { pose proof (trun_left es s1) as L. rewrite E2 in L. cbn [fst] in L.
    destruct (phase s1) eqn:Ep1; try reflexivity;
      try (specialize (L eq_refl); rewrite Hp in L; discriminate).
    exfalso. unfold tstep in E1. cbn [fst snd] in E1. unfold apply in E1. rewrite Hp0 in E1.
    destruct (advance _ dt) as [s'' o''] eqn:Eb. injection E1 as <- _.
    match type of Eb with advance ?sa _ = _ => pose proof (advance_phase_wait sa dt) as B end.
    rewrite Eb in B. cbn [fst phase] in B. specialize (B Ep1). discriminate. }
  assert (H1 : HbInv r (now s0) s1 o1).
  { unfold tstep in E1. cbn [fst snd] in E1. unfold apply in E1. rewrite Hp0 in E1.
    set (sa := {| now := now s0; phase := POpened; hb := hb_of (Some r) (now s0); idle := reset_idle s0 |}) in *.
    pose proof (advance_hb_open r Hr (now s0) sa dt [OOpenDone true]) as A.
    destruct (advance sa dt) as [s'' o''] eqn:Eb. injection E1 as <- <-. cbn [fst snd] in A.
    apply A; [|exact Hs1].
    intros _. exists 0. subst sa. cbn [hb now]. destruct r; [lia|]. cbn [hb_of].
    split; [f_equal; f_equal; lia|]. split; [intros j Hj; lia|lia]. }
  pose proof (trun_hb r Hr (now s0) es s1 o1 H1 Hs1) as H2. rewrite E2 in H2. cbn [fst snd] in H2.
  specialize (H2 Hp).
  destruct (covered_of_inv r Hr (now s0) s2 _ H2 Hp a Ha Hw) as (t & Ht & Hin).
  exists t. split; [exact Ht|exact Hin].
Qed.

(** * channel-max *)
Fixpoint crun (s : conn) (ops : list cop) : conn * list cres :=
  match ops with
  | [] => (s, [])
  | o :: r => let '(s1, x) := cstep s o in let '(s2, xs) := crun s1 r in (s2, x :: xs)
  end.

Lemma crun_inv ops : forall s s' rs, CInv s -> crun s ops = (s', rs) -> CInv s' /\ cn_max s' = cn_max s.
Proof.
  induction ops as [|o ops IH]; intros s s' rs H E; cbn [crun] in E.
  - injection E as <- _. split; [exact H|reflexivity].
  - destruct (cstep s o) as [s1 x] eqn:E1. destruct (crun s1 ops) as [s2 xs] eqn:E2. injection E as <- _.
    destruct (cstep_inv s o s1 x H E1) as [H1 M1]. destruct (IH s1 s2 xs H1 E2) as [H2 M2].
    split; [exact H2|congruence].
Qed.

(** every channel a session is ever begun on is within both channel-max values *)
Lemma channel_max_respected lm rm ops s rs o s' c :
  crun (cn_init lm rm) ops = (s, rs) -> cstep s o = (s', COk c) -> o = OpAllocSession ->
  c <= lm /\ c <= rm.
Proof.
  intros E E1 ->. destruct (crun_inv ops _ _ _ (CInv_init lm rm) E) as [H M].
  pose proof (alloc_session_spec s s' (COk c) H E1) as S. cbn in S. destruct S as (Hc & _).
  rewrite M in Hc. unfold cn_init in Hc. cbn in Hc. lia.
Qed.

(** ... and a refusal happens only when the next free channel is above the agreed maximum *)
Lemma channel_refused_only_above lm rm ops s rs s' e :
  crun (cn_init lm rm) ops = (s, rs) -> cstep s OpAllocSession = (s', CErr e) ->
  e = EChannelMax /\ s' = s /\ N.min lm rm < vacant_key (cn_slab s).
Proof.
  intros E E1. destruct (crun_inv ops _ _ _ (CInv_init lm rm) E) as [H M].
  pose proof (alloc_session_spec s s' (CErr e) H E1) as S. cbn in S.
  destruct e; try contradiction. destruct S as [-> S]. rewrite M in S. cbn in S. auto.
Qed.
