(** Proofs about the session lifecycle model (Session/Lifecycle.v). *)
From FV Require Import Session.SessLife.

Definition s_is_write (o : sobs) : bool := match o with WBegin | WEnd _ => true | _ => false end.
Definition swrites (os : list sobs) : list sobs := filter s_is_write os.

Lemma swrites_app a b : swrites (a ++ b) = swrites a ++ swrites b.
Proof. apply filter_app. Qed.

(** what has been written on the channel, by state *)
Definition SG (s : sstate) (l : list sobs) : Prop :=
  match s with
  | SNone => l = []
  | SBeginSent | SMapped => l = [WBegin]
  | SEndSent _ | SEnded _ _ => exists b, l = [WBegin; WEnd b]
  end.

Lemma sstep_SG s e l : SG s l -> SG (fst (sstep s e)) (l ++ swrites (snd (sstep s e))).
Proof.
  destruct s as [| | |w|r h]; cbn; intros H.
  - subst l. destruct e; cbn; reflexivity.
  - subst l. destruct e; cbn; reflexivity.
  - subst l. destruct e as [| | | | | |[|]]; cbn; try reflexivity; eexists; reflexivity.
  - destruct H as (b & ->). destruct e as [| | | | | |[|]]; destruct w; cbn; eexists; reflexivity.
  - destruct H as (b & ->). destruct e as [| | | | | |[|]]; destruct h; cbn; eexists; reflexivity.
Qed.

Lemma srun_SG es : forall s l, SG s l -> SG (fst (srun s es)) (l ++ swrites (concat (snd (srun s es)))).
Proof.
  induction es as [|e es IH]; intros s l H; cbn [srun].
  - cbn. rewrite app_nil_r. exact H.
  - pose proof (sstep_SG s e l H) as H1. destruct (sstep s e) as [s1 o]. cbn [fst snd] in H1.
    pose proof (IH s1 _ H1) as H2. destruct (srun s1 es) as [s2 os]. cbn [fst snd concat] in *.
    rewrite swrites_app, app_assoc. exact H2.
Qed.

(** the channel carries one begin, then at most one end, then nothing *)
Lemma session_grammar es s os : srun SNone es = (s, os) ->
  let w := swrites (concat os) in w = [] \/ w = [WBegin] \/ exists b, w = [WBegin; WEnd b].
Proof.
  intros E. pose proof (srun_SG es SNone [] eq_refl) as H. rewrite E in H. cbn [fst snd app] in H. cbn zeta.
  destruct s; cbn in H; auto.
Qed.

(** a peer's end is answered with an end in that very step, unless ours is already out *)
Lemma peer_end_answered es s os b : srun SNone es = (s, os) -> swrites (concat os) = [WBegin] -> s = SMapped ->
  In (WEnd false) (snd (sstep s (SPEnd b))).
Proof. intros _ _ ->. destruct b; cbn; auto. Qed.

(** end()/end_with_error() complete only in the step that consumes the peer's end (or later, from the stored result) *)
Lemma end_waits_for_peer s e r : In (DEnd r) (snd (sstep s e)) ->
  (exists w b, s = SEndSent w /\ e = SPEnd b) \/ (exists h, s = SEnded r h).
Proof.
  destruct s as [| | |w|r0 h]; destruct e as [| | | | | |[|]]; try destruct w; try destruct h; cbn; intros H;
    repeat (destruct H as [H|H]); try contradiction; try discriminate;
    try (left; eexists; eexists; split; reflexivity);
    try (injection H as <-; right; eexists; reflexivity).
Qed.

(** the caller gets the peer's error *)
Lemma peer_error_reported s r : In (DEnd r) (snd (sstep s (SPEnd true))) -> r = SRemoteEndedWithError.
Proof.
  destruct s as [| | |w|r0 h0]; try destruct w; try destruct h0; cbn; intros H;
    repeat (destruct H as [H|H]); try contradiction; try discriminate; injection H as <-; reflexivity.
Qed.

Lemma peer_error_stored s r h : fst (sstep s (SPEnd true)) = SEnded r h -> (forall r' h', s <> SEnded r' h') ->
  r = SRemoteEndedWithError.
Proof.
  destruct s as [| | |w|r0 h0]; cbn; try discriminate.
  - intros H _. injection H as <- _. reflexivity.
  - destruct w; cbn; intros H _; injection H as <- _; reflexivity.
  - intros _ H. exfalso. exact (H r0 h0 eq_refl).
Qed.

(** a clean exchange: end() on a mapped session, the peer answers without error *)
Lemma clean_end : srun SNone [SBegin; SPBegin; SEnd; SPEnd false] =
  (SEnded SOk SHReported, [[WBegin]; [DBegin]; [WEnd false]; [DEnd SOk]]).
Proof. reflexivity. Qed.
