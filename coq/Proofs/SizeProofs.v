From FV Require Import Base.Bytes Codec.Value Codec.Enc Codec.Size Proofs.BytesProofs Proofs.RoundTripScalars Proofs.RoundTrip.
From Coq Require Import Lia ZArith ZifyN ZifyBool ZifyNat.
Open Scope N_scope.
Arguments to_be : simpl never.

Definition agree (s : option N) (e : option bytes) : Prop :=
  match s, e with
  | Some n, Some b => n = lenN b
  | None, None => True
  | _, _ => False
  end.

Lemma agree_some n b : n = lenN b -> agree (Some n) (Some b).
Proof. intros ->; reflexivity. Qed.

Lemma with_code_len c code body : lenN (with_code c code body) = sz_code c (lenN body).
Proof. destruct c; cbn [with_code sz_code]; rewrite ?lenN_cons; reflexivity. Qed.

Lemma agree_var c c8 c32 b : agree (size_var c b) (enc_var c c8 c32 b).
Proof.
  unfold size_var, enc_var. destruct c.
  - destruct (lenN b <=? U8MAX1); [unfold agree; rewrite !lenN_cons; lia|].
    destruct (lenN b <=? U32MAX4); [|exact I]. unfold agree. rewrite lenN_cons, lenN_app, lenN_to_be. lia.
  - unfold agree. rewrite lenN_cons, lenN_app, lenN_to_be. lia.
  - unfold agree. rewrite lenN_app, lenN_to_be. lia.
Qed.

Lemma agree_opt_app s1 s2 e1 e2 : agree s1 e1 -> agree s2 e2 -> agree (opt_add s1 s2) (opt_app e1 e2).
Proof.
  destruct s1, s2, e1, e2; cbn; try tauto. intros -> ->. rewrite lenN_app. reflexivity.
Qed.

Lemma agree_cat (ss : list (option N)) (es : list (option bytes)) :
  Forall2 agree ss es -> agree (sum_opt ss) (cat_opt es).
Proof.
  induction 1 as [|s e ss es H _ IH]; cbn [sum_opt cat_opt]; [reflexivity|].
  destruct s, e; cbn in H; try contradiction; [|exact I].
  destruct (sum_opt ss), (cat_opt es); cbn in IH |- *; try contradiction; auto.
  subst. rewrite lenN_app. reflexivity.
Qed.

Lemma agree_list c num len buf : len = lenN buf -> agree (list_size c len) (write_list c num buf).
Proof.
  intros ->. unfold list_size, write_list. destruct (lenN buf =? 0); [reflexivity|].
  destruct (lenN buf <=? U8MAX1); [unfold agree; rewrite with_code_len, !lenN_cons; f_equal; lia|].
  destruct (lenN buf <=? U32MAX4); [|exact I]. unfold agree. rewrite with_code_len, !lenN_app, !lenN_to_be. f_equal. lia.
Qed.
Lemma agree_map c num len buf : len = lenN buf -> agree (map_size c len) (write_map c num buf).
Proof.
  intros ->. unfold map_size, write_map.
  destruct (lenN buf <=? U8MAX1); [unfold agree; rewrite with_code_len, !lenN_cons; f_equal; lia|].
  destruct (lenN buf <=? U32MAX4); [|exact I]. unfold agree. rewrite with_code_len, !lenN_app, !lenN_to_be. f_equal. lia.
Qed.
Lemma agree_array c num len buf : len = lenN buf -> agree (array_size c len) (write_array c num buf).
Proof.
  intros ->. unfold array_size, map_size, write_array.
  destruct (lenN buf <=? U8MAX1); [unfold agree; rewrite with_code_len, !lenN_cons; f_equal; lia|].
  destruct (lenN buf <=? U32MAX4); [|exact I]. unfold agree. rewrite with_code_len, !lenN_app, !lenN_to_be. f_equal. lia.
Qed.

Lemma agree_descriptor c d : agree (size_descriptor c d) (enc_descriptor c d).
Proof.
  destruct d as [s|n]; cbn [size_descriptor enc_descriptor]; [apply agree_var|].
  apply agree_some. unfold size_ulong, enc_ulong. destruct c.
  - destruct (n =? 0); [reflexivity|]. destruct (n <=? 255); [reflexivity|]. rewrite lenN_cons, lenN_to_be. reflexivity.
  - rewrite lenN_cons, lenN_to_be. reflexivity.
  - rewrite lenN_to_be. reflexivity.
Qed.

(** scalars: every serializer position *)
Lemma agree_scalar c v : is_compound v = false -> agree (size_of c v) (enc c v).
Proof.
  intros H. destruct v; try discriminate H; cbn [size_of enc];
    try apply agree_var;
    try (apply agree_some; rewrite with_code_len; rewrite ?lenN_to_be; cbn; reflexivity).
  - reflexivity.
  - apply agree_some. destruct c, b; reflexivity.
  - apply agree_some. unfold size_uint, enc_uint. destruct c.
    + destruct (n =? 0); [reflexivity|]. destruct (n <=? 255); [reflexivity|]. rewrite lenN_cons, lenN_to_be. reflexivity.
    + rewrite lenN_cons, lenN_to_be. reflexivity.
    + rewrite lenN_to_be. reflexivity.
  - apply agree_some. unfold size_ulong, enc_ulong. destruct c.
    + destruct (n =? 0); [reflexivity|]. destruct (n <=? 255); [reflexivity|]. rewrite lenN_cons, lenN_to_be. reflexivity.
    + rewrite lenN_cons, lenN_to_be. reflexivity.
    + rewrite lenN_to_be. reflexivity.
  - apply agree_some. unfold size_int, enc_int. destruct c.
    + destruct (small_signed 32 n); [reflexivity|]. rewrite lenN_cons, lenN_to_be. reflexivity.
    + rewrite lenN_cons, lenN_to_be. reflexivity.
    + rewrite lenN_to_be. reflexivity.
  - apply agree_some. unfold size_long, enc_long. destruct c.
    + destruct (small_signed 64 n); [reflexivity|]. rewrite lenN_cons, lenN_to_be. reflexivity.
    + rewrite lenN_cons, lenN_to_be. reflexivity.
    + rewrite lenN_to_be. reflexivity.
Qed.

Lemma Forall2_map2 {A B C} (R : B -> C -> Prop) (f : A -> B) (g : A -> C) l :
  Forall (fun x => R (f x) (g x)) l -> Forall2 R (map f l) (map g l).
Proof. induction 1; cbn; constructor; auto. Qed.

Theorem size_agrees v :
  no_described_elems v = true -> forall c, (c = Plain \/ kind v <> 0) -> agree (size_of c v) (enc c v).
Proof.
  induction v as [v Hs|d x IH|l IH|l IH|l IH] using value_ind'; intros Hnd c Hc.
  - apply agree_scalar; exact Hs.
  - destruct Hc as [->|Hc]; [|cbn in Hc; congruence]. cbn [size_of enc no_described_elems] in *.
    apply (agree_opt_app (Some 1) _ (Some [0])); [reflexivity|].
    apply agree_opt_app; [apply agree_descriptor|]. apply IH; auto.
  - cbn [size_of enc no_described_elems] in *.
    assert (HA : agree (sum_opt (map (size_of Plain) l)) (cat_opt (map (enc Plain) l))).
    { apply agree_cat, Forall2_map2. apply Forall_forall. intros x Hx. rewrite Forall_forall in IH.
      apply IH; auto. rewrite forallb_forall in Hnd. auto. }
    destruct (sum_opt (map (size_of Plain) l)) as [len|], (cat_opt (map (enc Plain) l)) as [buf|];
      cbn in HA; try contradiction; [|exact I].
    apply agree_list; exact HA.
  - cbn [size_of enc no_described_elems] in *.
    assert (HA : agree (sum_opt (map (fun p => opt_add (size_of Plain (fst p)) (size_of Plain (snd p))) l))
                       (cat_opt (map (fun p => opt_app (enc Plain (fst p)) (enc Plain (snd p))) l))).
    { apply agree_cat, (Forall2_map2 agree). apply Forall_forall. intros p Hp. rewrite Forall_forall in IH.
      destruct (IH p Hp) as [IHk IHv]. rewrite forallb_forall in Hnd. specialize (Hnd p Hp).
      apply andb_true_iff in Hnd. destruct Hnd as [Hk Hv].
      apply agree_opt_app; [apply IHk|apply IHv]; auto. }
    match type of HA with agree ?s ?e => destruct s as [len|], e as [buf|] end;
      cbn in HA; try contradiction; [|exact I].
    apply agree_map; exact HA.
  - cbn [size_of enc no_described_elems] in *. destruct l as [|x r].
    + apply agree_array. reflexivity.
    + inversion IH as [|? ? IHx IHr]; subst. cbn [forallb] in Hnd.
      apply andb_true_iff in Hnd. destruct Hnd as [Hx Hr]. apply andb_true_iff in Hx. destruct Hx as [Hkx Hndx].
      assert (HA : agree (sum_opt (size_of First x :: map (size_of Other) r))
                         (cat_opt (enc First x :: map (enc Other) r))).
      { apply agree_cat. constructor.
        - apply IHx; auto. right. apply negb_true_iff, N.eqb_neq in Hkx. exact Hkx.
        - apply (Forall2_map2 agree). apply Forall_forall. intros y Hy. rewrite Forall_forall in IHr.
          rewrite forallb_forall in Hr. specialize (Hr y Hy). apply andb_true_iff in Hr. destruct Hr as [Hky Hndy].
          apply IHr; auto. right. apply negb_true_iff, N.eqb_neq in Hky. exact Hky. }
      match type of HA with agree ?s ?e => destruct s as [len|], e as [buf|] end;
        cbn in HA; try contradiction; [|exact I].
      apply agree_array; exact HA.
Qed.

(** the two serializers disagree on an array of described values (known finding) *)
Lemma size_disagrees_on_described_array :
  exists v, ~ agree (size_of Plain v) (enc Plain v).
Proof.
  exists (VArray [VDescribed (DCode 1) (VUint 1); VDescribed (DCode 1) (VUint 1)]).
  vm_compute. discriminate.
Qed.
