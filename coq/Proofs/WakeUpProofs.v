From FV Require Import Async.WakeUp.
From Coq Require Import NArith List Bool Arith Lia.
Import ListNotations.

Section RTC.
Variable need : N.
Let stepR := step RegisterThenCheck need.

Definition WInv (c : cfg) : Prop :=
  c_w c <> WGap /\
  (forall s, c_w c = WParked s -> s = c_gen c -> (c_credit c < need)%N \/ c_pend c = true) /\
  (forall s, c_w c = WParked s \/ c_w c = WReg s -> s <= c_gen c).

Lemma WInv_step c c' : WInv c -> stepR c c' -> WInv c'.
Proof.
  intros (H1 & H2 & H3) St. unfold stepR in St.
  inversion St; subst; try congruence; unfold WInv; cbn [c_w c_credit c_gen c_pend c_grants];
    (split; [congruence || auto | split; [intros s0 Hs Heq | intros s0 Hs]]).
  all: try (destruct Hs as [Hs|Hs]).
  all: try congruence.
  all: try (right; reflexivity).
  all: try (left; assumption).
  all: try solve [eauto].
  all: try (specialize (H3 s0 (or_introl Hs)); lia).
  all: try (specialize (H3 s0 (or_intror Hs)); lia).
  all: try (inversion Hs; lia).
  all: try (inversion Hs; subst; apply H3; right; assumption).
Qed.

Lemma WInv_init grants : WInv (init grants).
Proof. unfold WInv, init; cbn. repeat split; try discriminate. intros s [H|H]; discriminate. Qed.

Lemma WInv_reach c0 c : WInv c0 -> reach RegisterThenCheck need c0 c -> WInv c.
Proof. intros H0 R. induction R as [|c0 c1 c2 R IH St]; [exact H0|]. exact (WInv_step c1 c2 (IH H0) St). Qed.

Theorem no_lost_wakeup grants c :
  reach RegisterThenCheck need (init grants) c -> ~ lost_wakeup RegisterThenCheck need c.
Proof.
  intros R (Hstuck & Hcred & Hnd).
  pose proof (WInv_reach _ _ (WInv_init grants) R) as (H1 & H2 & H3).
  destruct (c_w c) as [| |s|s|] eqn:Hw.
  - eapply Hstuck. eapply W_reg; eauto.
  - congruence.
  - eapply Hstuck. eapply W_check_ok; eauto.
  - destruct (Nat.eq_dec s (c_gen c)) as [Heq|Hne].
    + destruct (H2 s eq_refl Heq) as [Hlt|Hp].
      * apply N.lt_nge in Hlt. contradiction.
      * eapply Hstuck. eapply P_notify; eauto.
    + eapply Hstuck. eapply W_wake; eauto.
  - congruence.
Qed.
End RTC.

(** the order before the repair loses a wake-up: explicit schedule *)
Theorem lost_wakeup_check_then_register :
  exists c, reach CheckThenRegister 1 (init [1%N]) c /\ lost_wakeup CheckThenRegister 1 c.
Proof.
  exists (mkC 1 1 false [] (WParked 1)). split.
  - eapply reach_step. eapply reach_step. eapply reach_step. eapply reach_step. apply reach_refl.
    + apply W_check_fail'; cbn; auto. reflexivity.
    + eapply P_update; cbn; eauto.
    + apply P_notify; cbn; auto.
    + apply (W_reg' CheckThenRegister 1 (mkC 1 1 false [] WGap)); cbn; auto.
  - split; [|split].
    + intros c' St. inversion St; subst; cbn in *; try discriminate; try congruence.
      all: try (match goal with H : WParked _ = WParked _ |- _ => inversion H; subst end; congruence).
    + cbn. reflexivity.
    + cbn. discriminate.
Qed.
