(** Composite types (derive macros + DescribedAccess): every layout of a field
    vector that the specification allows decodes to that field vector; the
    serializer's layout (pending nulls, trailing-field elision) is one of them. *)
From FV Require Import Base.Bytes Codec.Value Codec.Enc Codec.Dec Codec.Composite.
From FV Require Import Proofs.BytesProofs Proofs.RoundTripScalars Proofs.RoundTrip Codec.Size Proofs.SizeProofs.
From Coq Require Import Lia ZArith ZifyN ZifyBool ZifyNat.
Ltac Zify.zify_post_hook ::= Z.div_mod_to_equations.
Open Scope N_scope.
Arguments to_be : simpl never.
Arguments from_be : simpl never.
Opaque to_be from_be N.mul N.add N.sub N.modulo N.div.

(** ** [value_eqb] decides equality *)
Lemma bytes_eqb_eq a : forall b, bytes_eqb a b = true -> a = b.
Proof.
  unfold bytes_eqb. induction a as [|x a IH]; intros [|y b] H; cbn in H; try discriminate; [reflexivity|].
  apply andb_true_iff in H. destruct H as [Hl Hf]. apply andb_true_iff in Hf. destruct Hf as [Hxy Hf].
  apply N.eqb_eq in Hxy. subst y. f_equal. apply IH. rewrite Hl, Hf. reflexivity.
Qed.
Lemma bytes_eqb_refl a : bytes_eqb a a = true.
Proof.
  unfold bytes_eqb. induction a as [|x a IH]; [reflexivity|]. cbn.
  apply andb_true_iff in IH. destruct IH as [Hl Hf]. rewrite Hl, Hf, N.eqb_refl. reflexivity.
Qed.
Lemma descriptor_eqb_eq a b : descriptor_eqb a b = true -> a = b.
Proof.
  destruct a, b; cbn; try discriminate; intros H.
  - apply bytes_eqb_eq in H. subst. reflexivity.
  - apply N.eqb_eq in H. subst. reflexivity.
Qed.
Lemma descriptor_eqb_refl a : descriptor_eqb a a = true.
Proof. destruct a; cbn; [apply bytes_eqb_refl|apply N.eqb_refl]. Qed.

Lemma value_eqb_eq a : forall b, value_eqb a b = true -> a = b.
Proof.
  induction a as [v Hs|d x IH|l IH|l IH|l IH] using value_ind'; intros b H.
  - destruct v; try discriminate Hs; destruct b; cbn in H; try discriminate; try reflexivity;
      try (apply N.eqb_eq in H; subst; reflexivity);
      try (apply bytes_eqb_eq in H; subst; reflexivity).
    apply Bool.eqb_prop in H. subst. reflexivity.
  - destruct b; cbn in H; try discriminate. apply andb_true_iff in H. destruct H as [Hd Hx].
    apply descriptor_eqb_eq in Hd. apply IH in Hx. subst. reflexivity.
  - destruct b as [| | | | | | | | | | | | | | | | | | | | | |l2| |]; cbn in H; try discriminate.
    f_equal. revert l2 H. induction IH as [|x l Hx _ IHl]; intros [|y l2] H; cbn in H; try discriminate; [reflexivity|].
    apply andb_true_iff in H. destruct H as [H1 H2]. apply Hx in H1. apply IHl in H2. subst. reflexivity.
  - destruct b as [| | | | | | | | | | | | | | | | | | | | | | |l2|]; cbn in H; try discriminate.
    f_equal. revert l2 H. induction IH as [|[k v] l [Hk Hv] _ IHl]; intros [|[k2 v2] l2] H; cbn in H; try discriminate; [reflexivity|].
    apply andb_true_iff in H. destruct H as [H12 H3]. apply andb_true_iff in H12. destruct H12 as [H1 H2].
    cbn [fst snd] in *. apply Hk in H1. apply Hv in H2. apply IHl in H3. subst. reflexivity.
  - destruct b as [| | | | | | | | | | | | | | | | | | | | | | | |l2]; cbn in H; try discriminate.
    f_equal. revert l2 H. induction IH as [|x l Hx _ IHl]; intros [|y l2] H; cbn in H; try discriminate; [reflexivity|].
    apply andb_true_iff in H. destruct H as [H1 H2]. apply Hx in H1. apply IHl in H2. subst. reflexivity.
Qed.

Lemma value_eqb_refl a : value_eqb a a = true.
Proof.
  induction a as [v Hs|d x IH|l IH|l IH|l IH] using value_ind'.
  - destruct v; try discriminate Hs; cbn; try reflexivity; try apply N.eqb_refl; try apply bytes_eqb_refl.
    apply Bool.eqb_reflx.
  - cbn. rewrite descriptor_eqb_refl, IH. reflexivity.
  - cbn. induction IH as [|x l Hx _ IHl]; [reflexivity|]. rewrite Hx. exact IHl.
  - cbn. induction IH as [|[k v] l [Hk Hv] _ IHl]; [reflexivity|]. cbn [fst snd] in *. rewrite Hk, Hv. exact IHl.
  - cbn. induction IH as [|x l Hx _ IHl]; [reflexivity|]. rewrite Hx. exact IHl.
Qed.

Lemma is_null_eq v : is_null v = true -> v = VNull.
Proof. destruct v; cbn; try discriminate; reflexivity. Qed.
Lemma is_empty_array_eq v : is_empty_array v = true -> v = VArray [].
Proof. destruct v as [| | | | | | | | | | | | | | | | | | | | | | | |[|? ?]]; cbn; try discriminate; reflexivity. Qed.

(** ** one field *)
Lemma present_ok k v w :
  field_ok k v = true -> presents k v w = true -> field_of_present k w = Ok v.
Proof.
  unfold field_ok, presents. intros Hok Hp. apply andb_true_iff in Hok. destruct Hok as [_ Hok].
  apply orb_true_iff in Hp. destruct Hp as [Heq|Habs].
  - apply value_eqb_eq in Heq. subst w. destruct k; cbn [field_of_present] in *.
    + reflexivity.
    + apply negb_true_iff in Hok. rewrite Hok. reflexivity.
    + apply negb_true_iff in Hok. rewrite Hok. reflexivity.
    + apply orb_true_iff in Hok. destruct Hok as [Hn|Ha].
      * apply is_null_eq in Hn. subst. reflexivity.
      * destruct v as [| | | | | | | | | | | | | | | | | | | | | | | |[|? ?]]; try discriminate. reflexivity.
  - apply andb_true_iff in Habs. destruct Habs as [Ha Hw]. destruct k; cbn [field_absent field_of_present] in *.
    + rewrite orb_false_r in Hw. apply is_null_eq in Hw. apply is_null_eq in Ha. subst. reflexivity.
    + discriminate.
    + rewrite orb_false_r in Hw. apply is_null_eq in Hw. apply value_eqb_eq in Ha. subst. reflexivity.
    + apply is_null_eq in Ha. subst v. apply orb_true_iff in Hw. destruct Hw as [Hw|Hw].
      * apply is_null_eq in Hw. subst. reflexivity.
      * rewrite Hw. reflexivity.
Qed.

Lemma missing_ok k v : field_absent k v = true -> field_of_missing k = Ok v.
Proof.
  destruct k; cbn; intros H; try discriminate.
  - apply is_null_eq in H. subst. reflexivity.
  - apply value_eqb_eq in H. subst. reflexivity.
  - apply is_null_eq in H. subst. reflexivity.
Qed.

(** ** the field loop *)
Lemma dec_fields_missing fuel : forall ks vs left bs,
  (left = 0 \/ bs = []) -> presentation ks vs [] = true ->
  dec_fields fuel ks left bs = Ok (vs, bs).
Proof.
  induction ks as [|k ks IH]; intros [|v vs] left bs Hstop Hp; cbn [presentation] in Hp; try discriminate.
  - reflexivity.
  - apply andb_true_iff in Hp. destruct Hp as [Ha Hp]. cbn [dec_fields].
    rewrite (missing_ok k v Ha), (IH vs left bs Hstop Hp).
    destruct bs as [|b r]; [reflexivity|]. destruct Hstop as [-> |Hnil]; [|discriminate]. reflexivity.
Qed.

Lemma dec_fields_pres fuel : forall ks vs ws parts rest,
  fields_ok ks vs = true ->
  presentation ks vs ws = true ->
  Forall (RT fuel) ws ->
  Forall2 (fun w p => enc Plain w = Some p) ws parts ->
  dec_fields fuel ks (lenN ws) (concat parts ++ rest) = Ok (vs, rest).
Proof.
  induction ks as [|k ks IH]; intros vs ws parts rest Hok Hp Hrt F2.
  - destruct vs, ws; cbn [presentation] in Hp; try discriminate. inversion F2; subst. reflexivity.
  - destruct vs as [|v vs]; [discriminate|]. cbn [fields_ok] in Hok. apply andb_true_iff in Hok. destruct Hok as [Hk Hok].
    destruct ws as [|w ws].
    + inversion F2; subst. cbn [concat app]. apply dec_fields_missing; [left; reflexivity|exact Hp].
    + cbn [presentation] in Hp. apply andb_true_iff in Hp. destruct Hp as [Hpw Hp].
      inversion F2 as [|? p ? parts' Hwp F2']; subst. inversion Hrt as [|? ? Hw Hrt']; subst.
      cbn [concat]. rewrite <- app_assoc.
      pose proof (Hw p (concat parts' ++ rest) Hwp) as Hdec.
      destruct (dec_ok_head _ _ _ Hdec) as (c & r & Heq & Hkc).
      cbn [dec_fields]. rewrite Heq. rewrite <- Heq.
      assert (Hpos : (0 <? lenN (w :: ws)) = true) by (rewrite lenN_cons; lia). rewrite Hpos, Hkc. cbn [negb].
      rewrite Hdec. cbn [bind]. rewrite (present_ok k v w Hk Hpw). cbn [bind].
      replace (lenN (w :: ws) - 1) with (lenN ws) by (rewrite lenN_cons; lia).
      rewrite (IH vs ws parts' rest Hok Hp Hrt' F2'). reflexivity.
Qed.

(** ** the list header written by the struct serializer *)
Lemma list_header_of_list ws lb parts rest :
  Forall2 (fun w p => enc Plain w = Some p) ws parts ->
  Forall (fun p => 1 <= lenN p) parts ->
  lenN ws <= MAXCOUNT ->
  write_list Plain (lenN ws) (concat parts) = Some lb ->
  list_header (lb ++ rest) = Ok (lenN ws, concat parts ++ rest).
Proof.
  intros F2 Hne Hc E.
  pose proof (lenN_concat_ge parts Hne) as Hge.
  assert (Hlen : lenN ws = lenN parts) by (unfold lenN; rewrite (Forall2_length _ _ _ F2); reflexivity).
  unfold write_list in E.
  destruct (lenN (concat parts) =? 0) eqn:E0.
  - injection E as <-. apply N.eqb_eq in E0.
    assert (ws = []) by (destruct ws; [reflexivity|rewrite lenN_cons in Hlen; lia]). subst ws.
    inversion F2; subst. reflexivity.
  - destruct (lenN (concat parts) <=? U8MAX1) eqn:E8.
    + injection E as <-. cbn [with_code app]. unfold U8MAX1 in *.
      rewrite N.mod_small by lia. reflexivity.
    + destruct (lenN (concat parts) <=? U32MAX4) eqn:E32; [|discriminate].
      injection E as <-. cbn [with_code app]. rewrite <- !app_assoc.
      unfold U32MAX4, MAXCOUNT in *. rewrite N.mod_small by lia.
      unfold list_header. cbn -[to_be read_be]. rewrite read_be_to_be by (cbn; lia).
      cbn -[to_be read_be]. rewrite read_be_to_be by (cbn; lia). reflexivity.
Qed.

(** ** a whole composite *)
Lemma Forall_RT_of_wf fuel ws :
  forallb wf ws = true -> Forall (fun w => (depth w <= fuel)%nat) ws -> Forall (RT fuel) ws.
Proof.
  intros Hwf Hd. apply Forall_forall. intros w Hin. rewrite forallb_forall in Hwf. rewrite Forall_forall in Hd.
  apply roundtrip_fuel; auto.
Qed.

Theorem composite_presentation_accepted s d vs ws fuel b rest :
  fields_ok (s_fields s) vs = true ->
  presentation (s_fields s) vs ws = true ->
  forallb wf ws = true -> lenN ws <= MAXCOUNT -> Forall (fun w => (depth w <= fuel)%nat) ws ->
  wf_descriptor d = true -> descriptor_matches s d = true ->
  enc Plain (VDescribed d (VList ws)) = Some b ->
  dec_composite fuel s (b ++ rest) = Ok (vs, rest).
Proof.
  intros Hok Hp Hwf Hc Hd Hwd Hm E.
  pose proof (Forall_RT_of_wf fuel ws Hwf Hd) as HRT.
  cbn [enc] in E. unfold opt_app in E.
  destruct (enc_descriptor Plain d) as [db|] eqn:Ed; [|discriminate].
  destruct (cat_opt (map (enc Plain) ws)) as [buf|] eqn:Ec; [|discriminate].
  destruct (write_list Plain (lenN ws) buf) as [lb|] eqn:El; [|discriminate]. injection E as <-.
  destruct (cat_opt_some _ _ _ Ec) as (parts & F2 & ->).
  assert (Hne : Forall (fun p => 1 <= lenN p) parts).
  { clear - F2 HRT. induction F2 as [|x p l parts Hxp _ IH]; constructor.
    - inversion HRT; subst. eapply RT_nonempty; eauto.
    - apply IH. inversion HRT; auto. }
  unfold dec_composite. cbn [app]. rewrite <- app_assoc.
  rewrite (dec_descriptor_rt d db (lb ++ rest) Hwd Ed). cbn [bind]. rewrite Hm. cbn [negb].
  rewrite (list_header_of_list ws lb parts rest F2 Hne Hc El). cbn [bind].
  apply dec_fields_pres; auto.
Qed.

(** ** the serializer's own layout is a presentation *)
Lemma presentation_all_absent : forall ks vs,
  length ks = length vs -> Forall2 (fun k v => field_absent k v = true) ks vs -> presentation ks vs [] = true.
Proof.
  induction ks as [|k ks IH]; intros [|v vs] Hl F; cbn in *; try discriminate; [reflexivity|].
  inversion F; subst. rewrite H2. apply IH; auto.
Qed.

Lemma presentation_prefix_nulls : forall ksp vsp ks vs ws,
  Forall2 (fun k v => field_absent k v = true) ksp vsp ->
  presentation ks vs ws = true ->
  presentation (ksp ++ ks) (vsp ++ vs) (repeat VNull (length ksp) ++ ws) = true.
Proof.
  induction 1 as [|k v ksp vsp Ha _ IH]; intros Hp; cbn [app length repeat presentation]; [exact Hp|].
  unfold presents. rewrite Ha. cbn [is_null]. rewrite orb_true_r. cbn [andb]. apply IH. exact Hp.
Qed.

Lemma presentation_elide : forall ks vs ksp vsp,
  fields_ok ks vs = true ->
  Forall2 (fun k v => field_absent k v = true) ksp vsp ->
  presentation (ksp ++ ks) (vsp ++ vs) (elide ks vs (length ksp)) = true.
Proof.
  induction ks as [|k ks IH]; intros [|v vs] ksp vsp Hok F; cbn [fields_ok] in Hok; try discriminate.
  - cbn [elide]. rewrite !app_nil_r. apply presentation_all_absent; [eapply Forall2_length; eauto|exact F].
  - apply andb_true_iff in Hok. destruct Hok as [Hk Hok]. cbn [elide].
    destruct (field_absent k v) eqn:Ha.
    + replace (ksp ++ k :: ks) with ((ksp ++ [k]) ++ ks) by (rewrite <- app_assoc; reflexivity).
      replace (vsp ++ v :: vs) with ((vsp ++ [v]) ++ vs) by (rewrite <- app_assoc; reflexivity).
      replace (S (length ksp)) with (length (ksp ++ [k])) by (rewrite app_length; cbn; lia).
      apply IH; [exact Hok|]. apply Forall2_app; [exact F|constructor; [exact Ha|constructor]].
    + apply presentation_prefix_nulls; [exact F|]. cbn [presentation]. unfold presents.
      rewrite value_eqb_refl. cbn [orb andb].
      exact (IH vs [] [] Hok (Forall2_nil _)).
Qed.

Lemma elide_elems : forall ks vs n w, In w (elide ks vs n) -> w = VNull \/ In w vs.
Proof.
  induction ks as [|k ks IH]; intros [|v vs] n w Hin; cbn [elide] in Hin; try contradiction.
  destruct (field_absent k v).
  - destruct (IH _ _ _ Hin); [left|right; right]; auto.
  - apply in_app_or in Hin. destruct Hin as [Hin|[->|Hin]].
    + left. eapply repeat_spec; eauto.
    + right; left; reflexivity.
    + destruct (IH _ _ _ Hin); [left|right; right]; auto.
Qed.

Lemma elide_length : forall ks vs n, (length (elide ks vs n) <= n + length ks)%nat.
Proof.
  induction ks as [|k ks IH]; intros [|v vs] n; cbn [elide length]; try lia.
  destruct (field_absent k v).
  - specialize (IH vs (S n)). lia.
  - rewrite app_length, repeat_length. cbn [length]. specialize (IH vs 0%nat). lia.
Qed.

Lemma fields_ok_wf : forall ks vs, fields_ok ks vs = true -> forallb wf vs = true.
Proof.
  induction ks as [|k ks IH]; intros [|v vs] H; cbn [fields_ok] in H; try discriminate; [reflexivity|].
  apply andb_true_iff in H. destruct H as [Hk H]. unfold field_ok in Hk. apply andb_true_iff in Hk. destruct Hk as [Hw _].
  cbn [forallb]. rewrite Hw. exact (IH vs H).
Qed.

Theorem composite_roundtrip s vs fuel b rest :
  schema_ok s = true -> fields_ok (s_fields s) vs = true ->
  Forall (fun v => (depth v <= fuel)%nat) vs -> (1 <= fuel)%nat ->
  enc_composite Plain s vs = Some b ->
  dec_composite fuel s (b ++ rest) = Ok (vs, rest).
Proof.
  intros Hs Hok Hd Hf E. unfold schema_ok in Hs.
  apply andb_true_iff in Hs. destruct Hs as [Hs Hcount]. apply andb_true_iff in Hs. destruct Hs as [_ Hcode].
  unfold enc_composite in E.
  apply (composite_presentation_accepted s (DCode (s_code s)) vs (elide (s_fields s) vs 0) fuel b rest); auto.
  - exact (presentation_elide (s_fields s) vs [] [] Hok (Forall2_nil _)).
  - apply forallb_forall. intros w Hin. destruct (elide_elems _ _ _ _ Hin) as [-> |Hin']; [reflexivity|].
    pose proof (fields_ok_wf _ _ Hok) as Hwf. rewrite forallb_forall in Hwf. auto.
  - pose proof (elide_length (s_fields s) vs 0). unfold lenN in *. lia.
  - apply Forall_forall. intros w Hin. destruct (elide_elems _ _ _ _ Hin) as [-> |Hin']; [cbn; lia|].
    rewrite Forall_forall in Hd. auto.
  - cbn. apply N.eqb_refl.
Qed.

(** ** truncation: a list that stops before a mandatory field is refused *)
Lemma dec_fields_mandatory_missing fuel : forall ks left bs,
  (left = 0 \/ bs = []) -> existsb (fun k => match k with FMand => true | _ => false end) ks = true ->
  exists e, dec_fields fuel ks left bs = Err e.
Proof.
  induction ks as [|k ks IH]; intros left bs Hstop Hex; cbn [existsb] in Hex; [discriminate|].
  assert (Hstep : dec_fields fuel (k :: ks) left bs =
                  (let* fv := field_of_missing k in let* (fvs, r') := dec_fields fuel ks left bs in Ok (fv :: fvs, r'))).
  { cbn [dec_fields]. destruct bs as [|b r]; [reflexivity|]. destruct Hstop as [-> |Hn]; [reflexivity|discriminate]. }
  rewrite Hstep. destruct k; cbn [field_of_missing bind]; cbn [orb] in Hex.
  - destruct (IH left bs Hstop Hex) as (e & ->). cbn [bind]. eauto.
  - eauto.
  - destruct (IH left bs Hstop Hex) as (e & ->). cbn [bind]. eauto.
  - destruct (IH left bs Hstop Hex) as (e & ->). cbn [bind]. eauto.
Qed.

(** ** dispatch: with pairwise different codes the table is searched unambiguously *)
Lemma dispatch_finds : forall tbl s,
  In s tbl -> NoDup (map s_code tbl) -> dispatch tbl (DCode (s_code s)) = Some s.
Proof.
  induction tbl as [|t tbl IH]; intros s Hin Hnd; [contradiction|]. cbn [dispatch descriptor_matches].
  cbn [map] in Hnd. inversion Hnd as [|? ? Hnotin Hnd']; subst.
  destruct Hin as [-> |Hin].
  - rewrite N.eqb_refl. reflexivity.
  - destruct (s_code s =? s_code t) eqn:E.
    + apply N.eqb_eq in E. exfalso. apply Hnotin. rewrite <- E. apply in_map. exact Hin.
    + apply IH; auto.
Qed.

(** ** the size serializer agrees with the serializer on composites *)
Theorem composite_size_is_length s vs :
  forallb no_described_elems vs = true ->
  agree (size_composite Plain s vs) (enc_composite Plain s vs).
Proof.
  intros H. unfold size_composite, enc_composite. apply size_agrees; [|left; reflexivity].
  cbn [no_described_elems]. apply forallb_forall. intros w Hin.
  destruct (elide_elems _ _ _ _ Hin) as [-> |Hin']; [reflexivity|].
  rewrite forallb_forall in H. auto.
Qed.

(** ** any encoding of the fields, of the list header and of the descriptor

    [decodes_to fuel p w]: the bytes [p], followed by anything, are read by the value decoder as [w]
    and nothing else is consumed.  The encoder's own bytes are one instance ([decodes_to_enc]); every
    other spec-valid encoding of [w] that the value decoder accepts (C05_valid_encodings_are_accepted_partial)
    is another. *)
Definition decodes_to (fuel : nat) (p : bytes) (w : value) : Prop :=
  forall rest, dec fuel None (p ++ rest) = Ok (w, None, rest).

Lemma decodes_to_enc fuel w p :
  wf w = true -> (depth w <= fuel)%nat -> enc Plain w = Some p -> decodes_to fuel p w.
Proof. intros Hwf Hd E rest. exact (roundtrip_fuel w Hwf fuel Hd p rest E). Qed.

Lemma dec_fields_any fuel : forall ks vs ws parts rest,
  fields_ok ks vs = true ->
  presentation ks vs ws = true ->
  Forall2 (decodes_to fuel) parts ws ->
  dec_fields fuel ks (lenN ws) (concat parts ++ rest) = Ok (vs, rest).
Proof.
  induction ks as [|k ks IH]; intros vs ws parts rest Hok Hp F2.
  - destruct vs, ws; cbn [presentation] in Hp; try discriminate. inversion F2; subst. reflexivity.
  - destruct vs as [|v vs]; [discriminate|]. cbn [fields_ok] in Hok. apply andb_true_iff in Hok. destruct Hok as [Hk Hok].
    destruct ws as [|w ws].
    + inversion F2; subst. cbn [concat app]. apply dec_fields_missing; [left; reflexivity|exact Hp].
    + cbn [presentation] in Hp. apply andb_true_iff in Hp. destruct Hp as [Hpw Hp].
      inversion F2 as [|p ? parts' ? Hpw' F2']; subst.
      cbn [concat]. rewrite <- app_assoc.
      pose proof (Hpw' (concat parts' ++ rest)) as Hdec.
      destruct (dec_ok_head _ _ _ Hdec) as (c & r & Heq & Hkc).
      cbn [dec_fields]. rewrite Heq. rewrite <- Heq.
      assert (Hpos : (0 <? lenN (w :: ws)) = true) by (rewrite lenN_cons; lia). rewrite Hpos, Hkc. cbn [negb].
      rewrite Hdec. cbn [bind]. rewrite (present_ok k v w Hk Hpw). cbn [bind].
      replace (lenN (w :: ws) - 1) with (lenN ws) by (rewrite lenN_cons; lia).
      rewrite (IH vs ws parts' rest Hok Hp F2'). reflexivity.
Qed.

Theorem composite_accepts_any_encoding s d vs ws parts descb hdr fuel rest :
  fields_ok (s_fields s) vs = true ->
  presentation (s_fields s) vs ws = true ->
  (forall r, dec_descriptor None (descb ++ r) = Ok (d, r)) -> descriptor_matches s d = true ->
  (forall r, list_header (hdr ++ r) = Ok (lenN ws, r)) ->
  Forall2 (decodes_to fuel) parts ws ->
  dec_composite fuel s (descb ++ hdr ++ concat parts ++ rest) = Ok (vs, rest).
Proof.
  intros Hok Hp Hd Hm Hh F2. unfold dec_composite.
  rewrite Hd. cbn [bind]. rewrite Hm. cbn [negb]. rewrite Hh. cbn [bind].
  apply dec_fields_any; assumption.
Qed.

(** the size field of the list header is not looked at: list8 with any size octet, list32 with any size *)
Lemma list_header_list8 sz count r : count < 256 -> sz < 256 -> list_header (192 :: sz :: count :: r) = Ok (count, r).
Proof. intros _ _. reflexivity. Qed.
Lemma list_header_list32 sz count r :
  count < 4294967296 -> sz < 4294967296 -> list_header (208 :: to_be 4 sz ++ to_be 4 count ++ r) = Ok (count, r).
Proof.
  intros Hc Hs. unfold list_header. cbn -[to_be read_be]. rewrite read_be_to_be by (cbn; lia).
  cbn -[to_be read_be]. rewrite read_be_to_be by (cbn; lia). reflexivity.
Qed.
