(** (A) The bytes the encoder model produces for a well-formed value are a valid
    AMQP 1.0 encoding of exactly that value, as judged by the reference decoder
    written from the specification (Codec/Spec.v).

    No hypothesis beyond [wf] is needed: [wf] already restricts arrays to the
    element kinds of [array_elem_kind_ok] (no null / list / map / array /
    described elements), so the reference decoder's own exclusion of arrays of
    described values ([if ec =? 0 then None]) is never hit. *)
From FV Require Import Base.Bytes Codec.Value Codec.Enc Codec.Dec Codec.Spec
  Proofs.BytesProofs Proofs.RoundTripScalars Proofs.RoundTrip Proofs.SpecLemmas.
From Coq Require Import Lia ZArith ZifyN ZifyBool ZifyNat.
Ltac Zify.zify_post_hook ::= Z.div_mod_to_equations.
Open Scope N_scope.
Arguments to_be : simpl never.
Arguments from_be : simpl never.
Arguments sbe : simpl never.
Arguments stake : simpl never.
Opaque to_be from_be N.mul N.add N.sub N.modulo N.div.

Ltac spec_go :=
  unfold spec_data;
  cbn -[sbe stake to_be from_be is_scalar utf8_valid lenN values_exact pairs_exact datas_exact sext N.to_nat].

Lemma sext_small32 bits : bits < 4294967296 -> small_signed 32 bits = true -> sext 32 (bits mod 256) = bits.
Proof. exact (sext8_small32 bits). Qed.
Lemma sext_small64 bits : bits < 18446744073709551616 -> small_signed 64 bits = true -> sext 64 (bits mod 256) = bits.
Proof. exact (sext8_small64 bits). Qed.

Lemma stake_okb (b rest : bytes) k : (lenN b =? k) = true -> stake k (b ++ rest) = Some (b, rest).
Proof. intros H. apply N.eqb_eq in H. apply stake_app_k. exact H. Qed.

(** ** scalars and variable-width values *)
Section Scalars.
Variable vd : bytes -> option (value * bytes).
Variable dd : N -> bytes -> option (value * bytes).

Ltac var_case E b0 rest :=
  unfold enc_var in E;
  destruct (lenN b0 <=? U8MAX1) eqn:?;
  [ injection E as <-; eexists; eexists; split; [reflexivity|]; split; [reflexivity|];
    spec_go; rewrite sbe_1, stake_app
  | destruct (lenN b0 <=? U32MAX4) eqn:?; [|discriminate];
    injection E as <-; eexists; eexists; split; [reflexivity|]; split; [reflexivity|];
    rewrite <- app_assoc; spec_go; rewrite sbe_to_be by (unfold U32MAX4 in *; cbn; lia); rewrite stake_app ].

(** plain position: the first byte is a non-zero constructor, the rest its data *)
Lemma spec_scalar_plain v b rest :
  is_compound v = false -> wf v = true -> enc Plain v = Some b ->
  exists c r, b = c :: r /\ (c =? 0) = false /\ spec_data vd dd c (r ++ rest) = Some (v, rest).
Proof.
  intros Hc Hwf E. destruct v; try discriminate Hc; cbn [enc wf] in *.
  - (* Null *) injection E as <-. exists 64, []. repeat split.
  - (* Bool *) injection E as <-. destruct b0; [exists 65, []|exists 66, []]; repeat split.
  - (* Ubyte *) injection E as <-. exists 80, [n]. repeat split. spec_go. rewrite sbe_1. reflexivity.
  - (* Ushort *) injection E as <-. exists 96, (to_be 2 n). repeat split. spec_go.
    rewrite sbe_to_be by (cbn; lia). reflexivity.
  - (* Uint *) injection E as <-. unfold enc_uint.
    destruct (n =? 0) eqn:E0; [apply N.eqb_eq in E0; subst; exists 67, []; repeat split|].
    destruct (n <=? 255) eqn:E1.
    + exists 82, [n]. repeat split. spec_go. rewrite sbe_1. reflexivity.
    + exists 112, (to_be 4 n). repeat split. spec_go. rewrite sbe_to_be by (cbn; lia). reflexivity.
  - (* Ulong *) injection E as <-. unfold enc_ulong.
    destruct (n =? 0) eqn:E0; [apply N.eqb_eq in E0; subst; exists 68, []; repeat split|].
    destruct (n <=? 255) eqn:E1.
    + exists 83, [n]. repeat split. spec_go. rewrite sbe_1. reflexivity.
    + exists 128, (to_be 8 n). repeat split. spec_go. rewrite sbe_to_be by (cbn; lia). reflexivity.
  - (* Byte *) injection E as <-. exists 81, [n]. repeat split. spec_go. rewrite sbe_1. reflexivity.
  - (* Short *) injection E as <-. exists 97, (to_be 2 n). repeat split. spec_go.
    rewrite sbe_to_be by (cbn; lia). reflexivity.
  - (* Int *) injection E as <-. unfold enc_int.
    destruct (small_signed 32 n) eqn:Es.
    + exists 84, [n mod 256]. repeat split. spec_go. rewrite sbe_1, sext_small32 by (auto; lia). reflexivity.
    + exists 113, (to_be 4 n). repeat split. spec_go. rewrite sbe_to_be by (cbn; lia). reflexivity.
  - (* Long *) injection E as <-. unfold enc_long.
    destruct (small_signed 64 n) eqn:Es.
    + exists 85, [n mod 256]. repeat split. spec_go. rewrite sbe_1, sext_small64 by (auto; lia). reflexivity.
    + exists 129, (to_be 8 n). repeat split. spec_go. rewrite sbe_to_be by (cbn; lia). reflexivity.
  - (* Float *) injection E as <-. exists 114, (to_be 4 n). repeat split. spec_go.
    rewrite sbe_to_be by (cbn; lia). reflexivity.
  - (* Double *) injection E as <-. exists 130, (to_be 8 n). repeat split. spec_go.
    rewrite sbe_to_be by (cbn; lia). reflexivity.
  - (* Dec32 *) injection E as <-. wf_split Hwf. exists 116, b0. repeat split. spec_go.
    rewrite stake_okb by assumption. reflexivity.
  - (* Dec64 *) injection E as <-. wf_split Hwf. exists 132, b0. repeat split. spec_go.
    rewrite stake_okb by assumption. reflexivity.
  - (* Dec128 *) injection E as <-. wf_split Hwf. exists 148, b0. repeat split. spec_go.
    rewrite stake_okb by assumption. reflexivity.
  - (* Char *) injection E as <-. exists 115, (to_be 4 n). repeat split. spec_go.
    assert (n < 4294967296) by (unfold is_scalar in Hwf; lia).
    rewrite sbe_to_be by (cbn; lia). rewrite Hwf. reflexivity.
  - (* Timestamp *) injection E as <-. exists 131, (to_be 8 n). repeat split. spec_go.
    rewrite sbe_to_be by (cbn; lia). reflexivity.
  - (* Uuid *) injection E as <-. wf_split Hwf. exists 152, b0. repeat split. spec_go.
    rewrite stake_okb by assumption. reflexivity.
  - (* Binary *) unfold len_ok in Hwf. wf_split Hwf. var_case E b0 rest; reflexivity.
  - (* String *) unfold len_ok in Hwf. wf_split Hwf. var_case E b0 rest; rewrite Hwf1; reflexivity.
  - (* Symbol *) unfold len_ok in Hwf. wf_split Hwf. var_case E b0 rest; rewrite Hwf1; reflexivity.
Qed.

(** array position: first element = constructor ++ payload, other elements = payload *)
Lemma spec_scalar_array v rest :
  array_elem_kind_ok (kind v) = true -> wf v = true ->
  exists p, enc First v = Some (acode v :: p) /\ enc Other v = Some p /\ 1 <= lenN p /\
            (acode v =? 0) = false /\
            spec_data vd dd (acode v) (p ++ rest) = Some (v, rest).
Proof.
  intros Hk Hwf. destruct v; try discriminate Hk; cbn [enc wf acode] in *.
  - (* Bool *) exists [if b then 1 else 0]. destruct b; repeat split; try reflexivity; cbn; lia.
  - exists [n]. repeat split; try reflexivity; try solve [cbn; lia]. spec_go. rewrite sbe_1. reflexivity.
  - exists (to_be 2 n). repeat split; try reflexivity; try solve [rewrite lenN_to_be; lia].
    spec_go. rewrite sbe_to_be by (cbn; lia). reflexivity.
  - exists (to_be 4 n). repeat split; try reflexivity; try solve [rewrite lenN_to_be; lia].
    spec_go. rewrite sbe_to_be by (cbn; lia). reflexivity.
  - exists (to_be 8 n). repeat split; try reflexivity; try solve [rewrite lenN_to_be; lia].
    spec_go. rewrite sbe_to_be by (cbn; lia). reflexivity.
  - exists [n]. repeat split; try reflexivity; try solve [cbn; lia]. spec_go. rewrite sbe_1. reflexivity.
  - exists (to_be 2 n). repeat split; try reflexivity; try solve [rewrite lenN_to_be; lia].
    spec_go. rewrite sbe_to_be by (cbn; lia). reflexivity.
  - exists (to_be 4 n). repeat split; try reflexivity; try solve [rewrite lenN_to_be; lia].
    spec_go. rewrite sbe_to_be by (cbn; lia). reflexivity.
  - exists (to_be 8 n). repeat split; try reflexivity; try solve [rewrite lenN_to_be; lia].
    spec_go. rewrite sbe_to_be by (cbn; lia). reflexivity.
  - exists (to_be 4 n). repeat split; try reflexivity; try solve [rewrite lenN_to_be; lia].
    spec_go. rewrite sbe_to_be by (cbn; lia). reflexivity.
  - exists (to_be 8 n). repeat split; try reflexivity; try solve [rewrite lenN_to_be; lia].
    spec_go. rewrite sbe_to_be by (cbn; lia). reflexivity.
  - wf_split Hwf. exists b. repeat split; try reflexivity; try solve [apply N.eqb_eq in Hwf1; lia].
    spec_go. rewrite stake_okb by assumption. reflexivity.
  - wf_split Hwf. exists b. repeat split; try reflexivity; try solve [apply N.eqb_eq in Hwf1; lia].
    spec_go. rewrite stake_okb by assumption. reflexivity.
  - wf_split Hwf. exists b. repeat split; try reflexivity; try solve [apply N.eqb_eq in Hwf1; lia].
    spec_go. rewrite stake_okb by assumption. reflexivity.
  - assert (n < 4294967296) by (unfold is_scalar in Hwf; lia).
    exists (to_be 4 n). repeat split; try reflexivity; try solve [rewrite lenN_to_be; lia].
    spec_go. rewrite sbe_to_be by (cbn; lia). rewrite Hwf. reflexivity.
  - exists (to_be 8 n). repeat split; try reflexivity; try solve [rewrite lenN_to_be; lia].
    spec_go. rewrite sbe_to_be by (cbn; lia). reflexivity.
  - wf_split Hwf. exists b. repeat split; try reflexivity; try solve [apply N.eqb_eq in Hwf1; lia].
    spec_go. rewrite stake_okb by assumption. reflexivity.
  - unfold len_ok in Hwf. wf_split Hwf. unfold enc_var, U32MAX4 in *.
    rewrite N.mod_small by lia. exists (to_be 4 (lenN b) ++ b).
    repeat split; try reflexivity; try solve [rewrite lenN_app, lenN_to_be; lia].
    rewrite <- app_assoc. spec_go. rewrite sbe_to_be by (cbn; lia). rewrite stake_app. reflexivity.
  - unfold len_ok in Hwf. wf_split Hwf. unfold enc_var, U32MAX4 in *.
    rewrite N.mod_small by lia. exists (to_be 4 (lenN b) ++ b).
    repeat split; try reflexivity; try solve [rewrite lenN_app, lenN_to_be; lia].
    rewrite <- app_assoc. spec_go. rewrite sbe_to_be by (cbn; lia). rewrite stake_app, Hwf1. reflexivity.
  - unfold len_ok in Hwf. wf_split Hwf. unfold enc_var, U32MAX4 in *.
    rewrite N.mod_small by lia. exists (to_be 4 (lenN b) ++ b).
    repeat split; try reflexivity; try solve [rewrite lenN_app, lenN_to_be; lia].
    rewrite <- app_assoc. spec_go. rewrite sbe_to_be by (cbn; lia). rewrite stake_app, Hwf1. reflexivity.
Qed.

(** descriptors: a symbol (sym8 / sym32) or an unsigned long (ulong0 / smallulong / ulong) *)
Lemma spec_descriptor d db rest :
  wf_descriptor d = true -> enc_descriptor Plain d = Some db ->
  exists dc dr, db = dc :: dr /\
    ((dc =? 163) || (dc =? 179) || (dc =? 128) || (dc =? 83) || (dc =? 68)) = true /\
    spec_data vd dd dc (dr ++ rest) =
      Some (match d with DName s => VSymbol s | DCode n => VUlong n end, rest).
Proof.
  intros Hwf E. destruct d as [s|n]; cbn [enc_descriptor wf_descriptor] in *.
  - unfold len_ok in Hwf. wf_split Hwf. var_case E s rest; rewrite Hwf1; reflexivity.
  - injection E as <-. unfold enc_ulong.
    destruct (n =? 0) eqn:E0; [apply N.eqb_eq in E0; subst; exists 68, []; repeat split|].
    destruct (n <=? 255) eqn:E1.
    + exists 83, [n]. repeat split. spec_go. rewrite sbe_1. reflexivity.
    + exists 128, (to_be 8 n). repeat split. spec_go. rewrite sbe_to_be by (cbn; lia). reflexivity.
Qed.
End Scalars.

(** ** the statement, with a rest, at a given fuel *)
Definition SV (f : nat) (v : value) : Prop :=
  forall b rest, enc Plain v = Some b -> spec_dec f (b ++ rest) = Some (v, rest).

Lemma spec_dec_none_nil f : spec_dec f [] = None.
Proof. destruct f; reflexivity. Qed.

Lemma SV_nonempty f v b : SV f v -> enc Plain v = Some b -> 1 <= lenN b.
Proof.
  intros H E. destruct b as [|x b]; [|rewrite lenN_cons; lia].
  exfalso. specialize (H [] [] E). cbn [app] in H. rewrite spec_dec_none_nil in H. discriminate.
Qed.

Lemma spec_value_data vd dd c r : (c =? 0) = false -> spec_value vd dd (c :: r) = dd c r.
Proof. intros H. unfold spec_value. rewrite H. reflexivity. Qed.

Lemma sv_scalar f v : is_compound v = false -> wf v = true -> SV (S f) v.
Proof.
  intros Hc Hwf b rest E. rewrite spec_dec_S.
  destruct (spec_scalar_plain (spec_dec f) (fun c b => spec_data_inner f c b) v b rest Hc Hwf E)
    as (c & r & -> & Hc0 & Hd).
  cbn [app]. rewrite spec_value_data by exact Hc0. exact Hd.
Qed.

Ltac pw4 := change (256 ^ N.of_nat 4) with 4294967296; lia.

(** ** compound headers as the reference decoder reads them *)
Section Compound.
Variable vd : bytes -> option (value * bytes).
Variable dd : N -> bytes -> option (value * bytes).

Lemma spec_list8 len count buf rest l :
  len = lenN buf -> count <= MAXCOUNT ->
  values_exact vd (N.to_nat count) buf = Some l ->
  spec_data vd dd 192 (((len + 1) :: count :: buf) ++ rest) = Some (VList l, rest).
Proof.
  intros -> Hc Hv. spec_go. rewrite sbe_1.
  change (count :: buf ++ rest) with ((count :: buf) ++ rest).
  rewrite stake_app_k by (rewrite lenN_cons; lia). rewrite sbe_1.
  destruct (MAXCOUNT <? count) eqn:E; [lia|]. rewrite Hv. reflexivity.
Qed.

Lemma spec_list32 len count buf rest l :
  len = lenN buf -> len <= U32MAX4 -> count <= MAXCOUNT ->
  values_exact vd (N.to_nat count) buf = Some l ->
  spec_data vd dd 208 ((to_be 4 (len + 4) ++ to_be 4 count ++ buf) ++ rest) = Some (VList l, rest).
Proof.
  intros -> Hl Hc Hv. unfold U32MAX4, MAXCOUNT in *. rewrite <- app_assoc. spec_go.
  rewrite sbe_to_be by pw4. rewrite <- app_assoc, app_assoc.
  rewrite stake_app_k by (rewrite lenN_app, lenN_to_be; lia).
  rewrite sbe_to_be by pw4.
  destruct (MAXCOUNT <? count) eqn:E; [unfold MAXCOUNT in E; lia|]. rewrite Hv. reflexivity.
Qed.

Lemma spec_map8 len n buf rest l :
  len = lenN buf -> 2 * n <= MAXCOUNT ->
  pairs_exact vd (N.to_nat n) buf = Some l ->
  spec_data vd dd 193 (((len + 1) :: (2 * n) :: buf) ++ rest) = Some (VMap l, rest).
Proof.
  intros -> Hc Hv. spec_go. rewrite sbe_1.
  change (2 * n :: buf ++ rest) with ((2 * n :: buf) ++ rest).
  rewrite stake_app_k by (rewrite lenN_cons; lia). rewrite sbe_1.
  destruct (MAXCOUNT <? 2 * n) eqn:E; [lia|].
  replace (2 * n mod 2 =? 0) with true by lia. cbn [negb].
  replace (2 * n / 2) with n by lia. rewrite Hv. reflexivity.
Qed.

Lemma spec_map32 len n buf rest l :
  len = lenN buf -> len <= U32MAX4 -> 2 * n <= MAXCOUNT ->
  pairs_exact vd (N.to_nat n) buf = Some l ->
  spec_data vd dd 209 ((to_be 4 (len + 4) ++ to_be 4 (2 * n) ++ buf) ++ rest) = Some (VMap l, rest).
Proof.
  intros -> Hl Hc Hv. unfold U32MAX4, MAXCOUNT in *. rewrite <- app_assoc. spec_go.
  rewrite sbe_to_be by pw4. rewrite <- app_assoc, app_assoc.
  rewrite stake_app_k by (rewrite lenN_app, lenN_to_be; lia).
  rewrite sbe_to_be by pw4.
  destruct (MAXCOUNT <? 2 * n) eqn:E; [unfold MAXCOUNT in E; lia|].
  replace (2 * n mod 2 =? 0) with true by lia. cbn [negb].
  replace (2 * n / 2) with n by lia. rewrite Hv. reflexivity.
Qed.

Lemma spec_array8 len count ec elems rest l :
  len = lenN (ec :: elems) -> count <= MAXCOUNT -> (ec =? 0) = false ->
  datas_exact dd ec (N.to_nat count) elems = Some l ->
  spec_data vd dd 224 (((len + 1) :: count :: ec :: elems) ++ rest) = Some (VArray l, rest).
Proof.
  intros -> Hc Hec Hv. spec_go. rewrite sbe_1.
  change (count :: ec :: elems ++ rest) with ((count :: ec :: elems) ++ rest).
  rewrite stake_app_k by (rewrite !lenN_cons; lia). rewrite sbe_1.
  destruct (MAXCOUNT <? count) eqn:E; [lia|]. rewrite Hec, Hv. reflexivity.
Qed.

Lemma spec_array32 len count ec elems rest l :
  len = lenN (ec :: elems) -> len <= U32MAX4 -> count <= MAXCOUNT -> (ec =? 0) = false ->
  datas_exact dd ec (N.to_nat count) elems = Some l ->
  spec_data vd dd 240 ((to_be 4 (len + 4) ++ to_be 4 count ++ ec :: elems) ++ rest) = Some (VArray l, rest).
Proof.
  intros -> Hl Hc Hec Hv. unfold U32MAX4, MAXCOUNT in *. rewrite <- app_assoc. spec_go.
  rewrite sbe_to_be by pw4. rewrite <- app_assoc, app_assoc.
  rewrite stake_app_k by (rewrite lenN_app, lenN_to_be; lia).
  rewrite sbe_to_be by pw4.
  destruct (MAXCOUNT <? count) eqn:E; [unfold MAXCOUNT in E; lia|]. rewrite Hec, Hv. reflexivity.
Qed.
Lemma spec_array_empty rest : spec_data vd dd 224 (1 :: 0 :: rest) = Some (VArray [], rest).
Proof.
  spec_go. rewrite sbe_1. change (0 :: rest) with ([0] ++ rest).
  rewrite stake_app_k by reflexivity. rewrite sbe_1. reflexivity.
Qed.
End Compound.

(** ** lists *)
Lemma values_exact_sv f : forall l parts,
  Forall2 (fun x p => enc Plain x = Some p) l parts ->
  Forall (SV f) l ->
  values_exact (spec_dec f) (length l) (concat parts) = Some l.
Proof.
  induction 1 as [|x p l parts Hxp _ IH]; intros HSV; cbn [length values_exact concat]; [reflexivity|].
  inversion HSV as [|? ? Hx Hl]; subst. rewrite (Hx p _ Hxp), (IH Hl). reflexivity.
Qed.

Lemma sv_list f l : Forall (SV f) l -> lenN l <= MAXCOUNT -> SV (S f) (VList l).
Proof.
  intros HSV Hcount b rest E. cbn [enc] in E.
  destruct (cat_opt (map (enc Plain) l)) as [buf|] eqn:Ec; [|discriminate].
  destruct (cat_opt_some _ _ _ Ec) as (parts & F2 & ->).
  assert (Hne : Forall (fun p => 1 <= lenN p) parts).
  { clear - F2 HSV. induction F2 as [|x p l parts Hxp _ IH]; constructor.
    - inversion HSV; subst. eapply SV_nonempty; eauto.
    - apply IH. inversion HSV; auto. }
  pose proof (lenN_concat_ge parts Hne) as Hge.
  assert (Hlen : lenN l = lenN parts) by (unfold lenN; rewrite (Forall2_length _ _ _ F2); reflexivity).
  pose proof (values_exact_sv f l parts F2 HSV) as Hv.
  replace (length l) with (N.to_nat (lenN l)) in Hv by (unfold lenN; lia).
  rewrite spec_dec_S. unfold write_list in E.
  destruct (lenN (concat parts) =? 0) eqn:E0.
  - injection E as <-. apply N.eqb_eq in E0.
    assert (l = []) by (destruct l; [reflexivity|rewrite lenN_cons in Hlen; lia]). subst l.
    reflexivity.
  - destruct (lenN (concat parts) <=? U8MAX1) eqn:E8.
    + injection E as <-. cbn [with_code]. rewrite <- app_comm_cons, spec_value_data by reflexivity.
      unfold U8MAX1 in *. rewrite N.mod_small by lia.
      apply spec_list8; auto.
    + destruct (lenN (concat parts) <=? U32MAX4) eqn:E32; [|discriminate].
      injection E as <-. cbn [with_code]. rewrite <- app_comm_cons, spec_value_data by reflexivity.
      rewrite N.mod_small by (unfold MAXCOUNT in *; lia).
      apply spec_list32; auto; lia.
Qed.

(** ** maps *)
Lemma pairs_exact_sv f : forall l parts,
  Forall2 (fun p part => enc_pair p = Some part) l parts ->
  Forall (fun p => SV f (fst p) /\ SV f (snd p)) l ->
  pairs_exact (spec_dec f) (length l) (concat parts) = Some l.
Proof.
  induction 1 as [|[k v] part l parts Hp _ IH]; intros HSV; cbn [length pairs_exact concat]; [reflexivity|].
  inversion HSV as [|? ? [Hk Hv] Hl]; subst. cbn [fst snd] in *.
  unfold enc_pair, opt_app in Hp. cbn [fst snd] in Hp.
  destruct (enc Plain k) as [bk|] eqn:Ek; [|discriminate].
  destruct (enc Plain v) as [bv|] eqn:Ev; [|discriminate]. injection Hp as <-.
  rewrite <- app_assoc, (Hk bk _ Ek), (Hv bv _ Ev), (IH Hl). reflexivity.
Qed.

Lemma sv_map f l :
  Forall (fun p => SV f (fst p) /\ SV f (snd p)) l -> 2 * lenN l <= MAXCOUNT -> SV (S f) (VMap l).
Proof.
  intros HSV Hcount b rest E. rewrite enc_map_unfold in E.
  destruct (cat_opt (map enc_pair l)) as [buf|] eqn:Ec; [|discriminate].
  destruct (cat_opt_some _ _ _ Ec) as (parts & F2 & ->).
  assert (Hne : Forall (fun p => 2 <= lenN p) parts).
  { clear - F2 HSV. induction F2 as [|[k v] p l parts Hxp _ IH]; constructor.
    - inversion HSV as [|? ? [Hk Hv] Hl]; subst. unfold enc_pair, opt_app in Hxp. cbn [fst snd] in *.
      destruct (enc Plain k) as [bk|] eqn:Ek; [|discriminate].
      destruct (enc Plain v) as [bv|] eqn:Ev; [|discriminate]. injection Hxp as <-.
      pose proof (SV_nonempty _ _ _ Hk Ek). pose proof (SV_nonempty _ _ _ Hv Ev).
      rewrite lenN_app. lia.
    - apply IH. inversion HSV; auto. }
  assert (Hge : 2 * lenN parts <= lenN (concat parts)).
  { clear - Hne. induction Hne as [|p parts Hp _ IH]; cbn [concat]; [cbn; lia|].
    rewrite lenN_cons, lenN_app. lia. }
  assert (Hlen : lenN l = lenN parts) by (unfold lenN; rewrite (Forall2_length _ _ _ F2); reflexivity).
  pose proof (pairs_exact_sv f l parts F2 HSV) as Hv.
  replace (length l) with (N.to_nat (lenN l)) in Hv by (unfold lenN; lia).
  rewrite spec_dec_S. unfold write_map in E.
  destruct (lenN (concat parts) <=? U8MAX1) eqn:E8.
  - injection E as <-. cbn [with_code]. rewrite <- app_comm_cons, spec_value_data by reflexivity.
    unfold U8MAX1 in *. rewrite N.mod_small by lia.
    apply spec_map8; auto.
  - destruct (lenN (concat parts) <=? U32MAX4) eqn:E32; [|discriminate].
    injection E as <-. cbn [with_code]. rewrite <- app_comm_cons, spec_value_data by reflexivity.
    rewrite N.mod_small by (unfold MAXCOUNT in *; lia).
    apply spec_map32; auto; lia.
Qed.

(** ** arrays *)
Lemma datas_exact_sv (dd : N -> bytes -> option (value * bytes)) c : forall l ps,
  Forall2 (fun y p => forall rest, dd c (p ++ rest) = Some (y, rest)) l ps ->
  datas_exact dd c (length l) (concat ps) = Some l.
Proof.
  induction 1 as [|y p l ps Hy _ IH]; cbn [length datas_exact concat]; [reflexivity|].
  rewrite Hy, IH. reflexivity.
Qed.

Lemma sv_array f l :
  forallb wf l = true -> lenN l <= MAXCOUNT ->
  match l with
  | [] => True
  | x :: r => array_elem_kind_ok (kind x) = true /\ forallb (fun y => kind y =? kind x) r = true
  end ->
  SV (S (S f)) (VArray l).
Proof.
  intros Hwf Hcount Hhom b rest E. destruct l as [|x r].
  - cbn in E. injection E as <-. rewrite spec_dec_S. cbn [app].
    rewrite spec_value_data by reflexivity. apply spec_array_empty.
  - destruct Hhom as [Hk Hsame]. cbn [forallb] in Hwf. apply andb_true_iff in Hwf. destruct Hwf as [Hwx Hwr].
    rewrite enc_array_unfold in E.
    set (c := acode x) in *.
    set (vd := spec_dec (S f)).
    set (dd := fun c b => spec_data_inner (S f) c b).
    assert (Hdd : forall c b, dd c b = spec_data (spec_dec f) (fun c b => spec_data_inner f c b) c b) by reflexivity.
    (* payloads of the tail *)
    assert (Htail : exists ps,
              map (enc Other) r = map Some ps /\
              Forall (fun p => 1 <= lenN p) ps /\
              Forall2 (fun y p => forall rest, dd c (p ++ rest) = Some (y, rest)) r ps).
    { clear E Hcount. induction r as [|y r IH].
      - exists []. repeat split; constructor.
      - cbn [forallb] in Hwr, Hsame. apply andb_true_iff in Hwr. destruct Hwr as [Hwy Hwr].
        apply andb_true_iff in Hsame. destruct Hsame as [Hky Hsame]. apply N.eqb_eq in Hky.
        destruct (IH Hwr Hsame) as (ps & A & B & C).
        assert (Hkoy : array_elem_kind_ok (kind y) = true) by (rewrite Hky; exact Hk).
        destruct (spec_scalar_array (spec_dec f) (fun c b => spec_data_inner f c b) y [] Hkoy Hwy)
          as (p & _ & Eo & Hp & _ & _).
        exists (p :: ps). cbn [map]. rewrite Eo, A. repeat split; [constructor; auto|].
        constructor; [|exact C]. intros rest'. rewrite Hdd.
        destruct (spec_scalar_array (spec_dec f) (fun c b => spec_data_inner f c b) y rest' Hkoy Hwy)
          as (p' & _ & Eo' & _ & _ & Hd).
        assert (p' = p) by congruence. subst p'. unfold c. rewrite <- (acode_kind y x Hky). exact Hd. }
    destruct Htail as (ps & Hmap & Hps1 & Hdec).
    destruct (spec_scalar_array (spec_dec f) (fun c b => spec_data_inner f c b) x [] Hk Hwx)
      as (px & Ef & _ & Hpx & Hc0 & _).
    assert (Hdx : forall rest, dd c (px ++ rest) = Some (x, rest)).
    { intros rest'. rewrite Hdd.
      destruct (spec_scalar_array (spec_dec f) (fun c b => spec_data_inner f c b) x rest' Hk Hwx)
        as (p' & Ef' & _ & _ & _ & Hd).
      assert (p' = px) by congruence. subst p'. exact Hd. }
    rewrite Ef, Hmap in E. fold c in E, Hc0.
    match type of E with context [cat_opt ?t] =>
      assert (Hcat : cat_opt t = Some (c :: px ++ concat ps)) end.
    { clear. cbn [cat_opt]. assert (H : cat_opt (map Some ps) = Some (concat ps)).
      { induction ps as [|p ps IH]; cbn [map cat_opt concat]; [reflexivity|rewrite IH; reflexivity]. }
      rewrite H. reflexivity. }
    rewrite Hcat in E.
    assert (Hn : lenN r <= lenN (concat ps)).
    { assert (lenN r = lenN ps).
      { unfold lenN. f_equal. apply (f_equal (@length _)) in Hmap. rewrite !map_length in Hmap. exact Hmap. }
      pose proof (lenN_concat_ge ps Hps1). lia. }
    pose proof (Forall2_cons x px Hdx Hdec) as Hall.
    pose proof (datas_exact_sv dd c (x :: r) (px :: ps) Hall) as Hv.
    replace (length (x :: r)) with (N.to_nat (lenN (x :: r))) in Hv by (unfold lenN; lia).
    cbn [concat] in Hv.
    rewrite (spec_dec_S (S f)). fold vd. change (fun code bs => spec_data_inner (S f) code bs) with dd.
    unfold write_array in E. rewrite lenN_cons in Hcount.
    destruct (lenN (c :: px ++ concat ps) <=? U8MAX1) eqn:E8.
    + injection E as <-. cbn [with_code]. rewrite <- app_comm_cons, spec_value_data by reflexivity.
      unfold U8MAX1 in *. rewrite lenN_cons, lenN_app in E8. rewrite N.mod_small by (rewrite lenN_cons; lia).
      apply spec_array8; auto. rewrite lenN_cons. exact Hcount.
    + destruct (lenN (c :: px ++ concat ps) <=? U32MAX4) eqn:E32; [|discriminate].
      injection E as <-. cbn [with_code]. rewrite <- app_comm_cons, spec_value_data by reflexivity.
      rewrite N.mod_small by (rewrite lenN_cons; unfold MAXCOUNT in *; lia).
      apply spec_array32; auto; [lia|]. rewrite lenN_cons. exact Hcount.
Qed.

(** ** described values *)
Lemma sv_described f d x : SV f x -> wf_descriptor d = true -> SV (S f) (VDescribed d x).
Proof.
  intros Hx Hd b rest E. cbn [enc] in E. unfold opt_app in E.
  destruct (enc_descriptor Plain d) as [db|] eqn:Ed; [|discriminate].
  destruct (enc Plain x) as [xb|] eqn:Ex; [|discriminate]. injection E as <-.
  rewrite spec_dec_S. cbn [app]. rewrite <- app_assoc.
  destruct (spec_descriptor (spec_dec f) (fun c b => spec_data_inner f c b) d db (xb ++ rest) Hd Ed)
    as (dc & dr & -> & Hdc & Hdesc).
  unfold spec_value. change (0 =? 0) with true. cbv iota. rewrite <- app_comm_cons.
  rewrite Hdc, Hdesc. destruct d as [s|n]; rewrite (Hx xb rest Ex); reflexivity.
Qed.

(** ** the theorem *)
Theorem enc_spec_fuel v : wf v = true -> forall f, (depth v <= f)%nat -> SV f v.
Proof.
  induction v as [v Hs|d x IH|l IH|l IH|l IH] using value_ind'; intros Hwf f Hf.
  - pose proof (depth_pos v). destruct f as [|f]; [lia|]. apply sv_scalar; auto.
  - cbn [wf depth] in *. apply andb_true_iff in Hwf. destruct Hwf as [Hd Hx].
    destruct f as [|f]; [lia|]. apply sv_described; auto. apply IH; auto. lia.
  - cbn [wf depth] in *. apply andb_true_iff in Hwf. destruct Hwf as [Hl Hc].
    destruct f as [|f]; [lia|]. apply sv_list; [|lia].
    apply Forall_forall. intros x Hx. rewrite Forall_forall in IH. apply IH; auto.
    + rewrite forallb_forall in Hl. auto.
    + pose proof (fold_max_le depth l x Hx). lia.
  - cbn [wf depth] in *. apply andb_true_iff in Hwf. destruct Hwf as [Hwf Hc].
    apply andb_true_iff in Hwf. destruct Hwf as [Hl Hfresh].
    destruct f as [|f]; [lia|]. apply sv_map; auto; [|lia].
    apply Forall_forall. intros p Hp. rewrite Forall_forall in IH. destruct (IH p Hp) as [IHk IHv].
    rewrite forallb_forall in Hl. specialize (Hl p Hp). apply andb_true_iff in Hl. destruct Hl as [Hk Hv].
    pose proof (fold_max_le (fun p => Nat.max (depth (fst p)) (depth (snd p))) l p Hp) as Hm. cbn beta in Hm.
    split; [apply IHk|apply IHv]; auto; lia.
  - cbn [wf depth] in *. apply andb_true_iff in Hwf. destruct Hwf as [Hwf Hhom].
    apply andb_true_iff in Hwf. destruct Hwf as [Hl Hc].
    destruct f as [|[|f]].
    + lia.
    + destruct l as [|x r]; [|pose proof (depth_pos x); cbn in Hf; lia].
      intros b rest E. cbn in E. injection E as <-. rewrite spec_dec_S. cbn [app].
      rewrite spec_value_data by reflexivity. apply spec_array_empty.
    + apply sv_array; auto; [lia|]. destruct l as [|x r]; [exact I|].
      apply andb_true_iff in Hhom. exact Hhom.
Qed.

(** with a rest, at any fuel at least the nesting depth *)
Theorem enc_is_spec_dec v b rest f :
  wf v = true -> enc_bytes v = Some b -> (depth v <= f)%nat ->
  spec_dec f (b ++ rest) = Some (v, rest).
Proof. intros Hwf E Hf. exact (enc_spec_fuel v Hwf f Hf b rest E). Qed.
Print Assumptions enc_is_spec_dec.

(** the bytes the encoder produces are, as a whole, one valid encoding of [v];
    fuel [depth v] already suffices, hence so does any larger amount *)
Theorem enc_is_spec_valid_depth : forall v b,
  wf v = true -> enc_bytes v = Some b -> spec_valid (depth v) b = Some v.
Proof.
  intros v b Hwf E. unfold spec_valid.
  pose proof (enc_is_spec_dec v b [] (depth v) Hwf E (le_n _)) as H.
  rewrite app_nil_r in H. rewrite H. reflexivity.
Qed.

Theorem enc_is_spec_valid : forall v b,
  wf v = true -> enc_bytes v = Some b -> spec_valid (S (depth v)) b = Some v.
Proof.
  intros v b Hwf E. apply (spec_valid_mono (depth v)); [lia|]. apply enc_is_spec_valid_depth; assumption.
Qed.
Print Assumptions enc_is_spec_valid.

Corollary enc_is_spec_valid_any_fuel v b f :
  wf v = true -> enc_bytes v = Some b -> (depth v <= f)%nat -> spec_valid f b = Some v.
Proof. intros Hwf E Hf. apply (spec_valid_mono (depth v)); [exact Hf|]. apply enc_is_spec_valid_depth; assumption. Qed.

(** a concrete nested value: described (symbol and ulong descriptors), list, map,
    arrays of strings / of ints, every scalar width variant *)
Definition sample : value :=
  VDescribed (DName [97; 109; 113; 112])
    (VList [ VMap [ (VSymbol [107], VArray [VString [104; 105]; VString []; VString [206; 187]]);
                    (VUint 0, VDescribed (DCode 112) (VList [VNull; VBool true; VUlong 0; VUlong 7; VUlong 70000]));
                    (VInt 4294967295, VLong 300) ];
             VArray [VInt 1; VInt 4294967168; VInt 70000];
             VArray [];
             VList [];
             VBinary [0; 255];
             VChar 955;
             VUuid [1;2;3;4;5;6;7;8;9;10;11;12;13;14;15;16] ]).

Example sample_wf : wf sample = true.
Proof. vm_compute. reflexivity. Qed.

Example sample_spec_valid :
  exists b, enc_bytes sample = Some b /\ lenN b = 114 /\
            spec_valid (S (depth sample)) b = Some sample /\
            from_slice (depth sample) b = Ok (sample, []).
Proof. eexists. repeat split; vm_compute; reflexivity. Qed.
