From FV Require Import Base.Serial Link.SenderCredit Proofs.SerialProofs.
From Coq Require Import ZArith Lia ZifyN ZifyBool.
Ltac Zify.zify_post_hook ::= Z.div_mod_to_equations.
Open Scope N_scope.

(** specification-side ghost: the receiver's latest limit (delivery-count_rcv, link-credit_rcv) *)
Record lghost := mkLG { lg_base : N; lg_credit : N }.

Definition lghost_step (init : N) (g : lghost) (e : lev) : lghost :=
  match e with
  | LFlow f => match lf_credit f with
               | Some lc => mkLG (match lf_dc f with Some d => d | None => init end) lc
               | None => g end
  | LSend => g
  end.

Definition lwf_ev (e : lev) : Prop :=
  match e with LFlow f => match lf_credit f with Some lc => lc < W | None => True end | LSend => True end.
Definition lwf_evb (e : lev) : bool :=
  match e with LFlow f => match lf_credit f with Some lc => lc <? W | None => true end | LSend => true end.
Lemma lwf_evs_of_b evs : forallb lwf_evb evs = true -> Forall lwf_ev evs.
Proof.
  intros H. apply Forall_forall. intros e He. rewrite forallb_forall in H. specialize (H e He).
  destruct e as [f|]; cbn in *; auto. destruct (lf_credit f); auto. apply N.ltb_lt; exact H.
Qed.

Definition LInv (g : lghost) (s : lstate) : Prop :=
  l_dc s < W /\ lg_credit g < W /\
  l_credit s = sat_sub (lg_credit g) (sdist (lg_base g) (l_dc s)).

(** what an output must satisfy *)
Definition lout_ok (g : lghost) (s_before s_after : lstate) (e : lev) (o : lout) : Prop :=
  match e, o with
  | LSend, OSent tag =>
      tag = l_dc s_before /\ in_window (lg_base g) (lg_credit g) tag /\
      l_dc s_after = wadd (l_dc s_before) 1 /\ l_credit s_after = l_credit s_before - 1
  | LSend, OWait => l_credit s_before = 0 /\ s_after = s_before
  | LFlow f, OFlow r =>
      (lf_drain f = true ->
         l_credit s_after = 0 /\
         exists r', r = Some r' /\ lf_credit r' = Some 0 /\ lf_dc r' = Some (l_dc s_after) /\ lf_drain r' = true) /\
      (lf_drain f = false -> lf_echo f = false -> r = None) /\
      (lf_drain f = false -> lf_echo f = true -> r = Some (as_link_flow s_after) /\ l_dc s_after = l_dc s_before)
  | _, _ => False
  end.

Lemma lstep_spec g s e s' o :
  LInv g s -> lwf_ev e -> lstep s e = (s', o) ->
  let g' := lghost_step (l_init_dc s) g e in
  LInv g' s' /\ lout_ok g' s s' e o /\ l_init_dc s' = l_init_dc s.
Proof.
  intros (Hd & Hc & Hr) Hwf E. destruct e as [f|]; cbn [lstep] in E.
  - unfold snd_on_incoming_flow in E. cbn [lghost_step].
    destruct f as [fdc fcr fav fdr fec]; cbn [lf_dc lf_credit lf_avail lf_drain lf_echo] in *.
    destruct fdr.
    + inversion E; subst; clear E. cbn [lf_drain lf_echo]. unfold LInv, lout_ok.
      cbn [l_dc l_credit l_init_dc l_avail l_drain lg_base lg_credit lf_drain lf_echo as_link_flow lf_credit lf_dc].
      destruct fcr as [lc|]; cbn [lg_base lg_credit].
      * cbn in Hwf. repeat split; try (intros; discriminate); auto.
        -- apply wadd_lt.
        -- unfold_serial. lia.
        -- eexists; repeat split.
      * repeat split; try (intros; discriminate); auto.
        -- apply wadd_lt.
        -- rewrite Hr. unfold_serial. lia.
        -- eexists; repeat split.
    + destruct fec; inversion E; subst; clear E; unfold LInv, lout_ok;
        cbn [l_dc l_credit l_init_dc l_avail l_drain lg_base lg_credit lf_drain lf_echo as_link_flow lf_credit lf_dc];
        destruct fcr as [lc|]; cbn [lg_base lg_credit]; cbn in Hwf;
        repeat split; try (intros; discriminate); auto.
  - unfold consume_link_credit in E. cbn [lghost_step].
    destruct (l_credit s <? 1) eqn:Hlt.
    + apply N.ltb_lt in Hlt. inversion E; subst; clear E. unfold LInv, lout_ok. repeat split; auto. lia.
    + apply N.ltb_ge in Hlt. inversion E; subst; clear E. unfold LInv, lout_ok, in_window.
      cbn [l_dc l_credit l_init_dc l_avail l_drain].
      assert (Hdl : sdist (lg_base g) (l_dc s) < lg_credit g) by (unfold sat_sub in Hr; lia).
      repeat split; auto.
      all: try apply wadd_lt.
      all: try (rewrite sdist_wadd1 by (unfold W in *; lia); unfold sat_sub in *; lia).
Qed.

Fixpoint lghost_trace (init : N) (g : lghost) (evs : list lev) : list lghost :=
  match evs with
  | [] => []
  | e :: r => let g' := lghost_step init g e in g' :: lghost_trace init g' r
  end.

(** sends that went out, with the ghost limit in force *)
Definition sent_in_limit (g : lghost) (o : lout) : Prop :=
  match o with OSent tag => in_window (lg_base g) (lg_credit g) tag | _ => True end.

Theorem lrun_spec : forall evs g s s' outs,
  LInv g s -> Forall lwf_ev evs -> lrun s evs = (s', outs) ->
  LInv (fold_left (lghost_step (l_init_dc s)) evs g) s' /\
  Forall2 sent_in_limit (lghost_trace (l_init_dc s) g evs) outs /\
  l_init_dc s' = l_init_dc s.
Proof.
  induction evs as [|e r IH]; intros g s s' outs HI Hwf E; cbn [lrun] in E.
  - inversion E; subst. cbn. auto.
  - destruct (lstep s e) as [s1 o] eqn:Es. destruct (lrun s1 r) as [s2 os] eqn:Er.
    inversion E; subst; clear E. inversion Hwf as [|? ? Hwe Hwr]; subst.
    destruct (lstep_spec g s e s1 o HI Hwe Es) as (HI1 & Hok & Hinit).
    destruct (IH _ _ _ _ HI1 Hwr Er) as (HI2 & Hoks & Hinit2).
    rewrite Hinit in *. cbn [fold_left lghost_trace]. split; [exact HI2|]. split; [|congruence].
    constructor; [|exact Hoks]. destruct e as [f|], o as [rr|tag|]; cbn in Hok |- *; auto; try contradiction; try apply Hok.
Qed.

Lemma LInv_init d : d < W -> LInv (mkLG d 0) (linit d).
Proof. intros H. unfold LInv. cbn. repeat split; auto; unfold W; lia. Qed.

(** one credit per delivery: a run of n successful sends after a grant advances the
    delivery-count by exactly n and uses n credits (direct corollary of lstep_spec) *)
Lemma drain_spec g s f s' r :
  LInv g s -> lwf_ev (LFlow f) -> lf_drain f = true -> snd_on_incoming_flow s f = (s', r) ->
  l_credit s' = 0 /\
  (exists r', r = Some r' /\ lf_credit r' = Some 0 /\ lf_dc r' = Some (l_dc s') /\ lf_drain r' = true) /\
  (* the delivery-count advanced by exactly the credit that was unused *)
  l_dc s' = wadd (l_dc s) (match lf_credit f with
                           | Some lc => sat_sub lc (wsub (l_dc s) (match lf_dc f with Some d => d | None => l_init_dc s end))
                           | None => l_credit s end).
Proof.
  intros HI Hwf Hd E.
  assert (Es : lstep s (LFlow f) = (s', OFlow r)) by (cbn; rewrite E; reflexivity).
  destruct (lstep_spec g s _ _ _ HI Hwf Es) as (_ & Hok & _). cbn in Hok.
  destruct Hok as (H1 & _). specialize (H1 Hd). destruct H1 as (A & B).
  repeat split; auto.
  unfold snd_on_incoming_flow in E. rewrite Hd in E. inversion E; subst; clear E. cbn. reflexivity.
Qed.

Lemma one_credit_per_delivery g s s' o : LInv g s -> lstep s LSend = (s', o) ->
    match o with
    | OSent tag => tag = l_dc s /\ l_dc s' = wadd (l_dc s) 1 /\ l_credit s' = l_credit s - 1 /\ 1 <= l_credit s
    | OWait => l_credit s = 0 /\ s' = s
    | OFlow _ => False
    end.
Proof.
  intros HI E. destruct (lstep_spec g s LSend s' o HI I E) as (HI' & Hok & _).
  destruct o as [r|tag|]; cbn in Hok; auto.
  destruct Hok as (A & B & C & D). repeat split; auto.
  destruct HI as (_ & _ & Hr). unfold in_window in B. cbn in B. unfold sat_sub in Hr. subst tag. lia.
Qed.
