(** Proofs about the receiver-link lifecycle model (Link/RecvLife.v). *)
From FV Require Import Link.RecvLife.

Definition ris_det (o : robs) : bool := match o with YDetach _ => true | _ => false end.
Definition ris_att (o : robs) : bool := match o with YAttach => true | _ => false end.
Definition ris_flow (o : robs) : bool := match o with YFlow => true | _ => false end.
Definition ris_disp (o : robs) : bool := match o with YDisp => true | _ => false end.

Ltac rcases s e :=
  destruct s as [|q rd| | | |c|c|c| | |]; destruct e as [| |k| | | | |];
  try (destruct rd as [[| |]|]); try (destruct q as [|q]); try destruct k; try destruct c.

(** has this link endpoint written its detach (for the current attach)? *)
Definition rdetached_locally (s : rlstate) : bool :=
  match s with RDetSent | RClsSent | RReCls _ | RDetached _ | RDropped | RGone | RSessEnded => true | _ => false end.

(** the one transition that writes a second detach: close() answered by a non-closing detach *)
Definition rsecond_detach (s : rlstate) (e : rlev) : bool :=
  match s, e with RClsSent, EPDetach QDetach => true | _, _ => false end.

(** a state that has written its detach writes no flow, no disposition, and no further detach except in
    [rsecond_detach] (a re-attach starts a new attach) *)
Lemma r_after_detach_quiet s e : rdetached_locally s = true -> rsecond_detach s e = false ->
  existsb ris_flow (snd (rkstep s e)) = false /\ existsb ris_disp (snd (rkstep s e)) = false /\
  (existsb ris_det (snd (rkstep s e)) = true -> False).
Proof.
  rcases s e; cbn; intros H1 H2; try discriminate; repeat split; try reflexivity; discriminate.
Qed.

Lemma r_second_detach_refutes :
  exists es, let os := concat (snd (rkrun RAttSent es)) in
    length (filter ris_det os) = 2%nat /\ length (filter ris_att os) = 0%nat.
Proof. exists [EPAttach; EClose; EPDetach QDetach]. cbn. split; reflexivity. Qed.

(** an unseen peer detach is answered by the application's next operation on the link - unless that operation
    is a recv() that finds a delivery queued before the detach *)
Definition rnext_op (e : rlev) : bool := match e with ERecv | EDetach | EClose | EDrop => true | _ => false end.

Lemma r_peer_detach_answered q k e : rnext_op e = true -> (e = ERecv -> q = 0%nat) ->
  existsb ris_det (snd (rkstep (RIdle q (Some k)) e)) = true.
Proof.
  destruct e; try discriminate; intros _ H; destruct k; destruct q as [|q]; cbn; try reflexivity;
    specialize (H eq_refl); discriminate.
Qed.

(** a recv() that is waiting answers the peer's detach at once, and in kind *)
Lemma r_pending_recv_answers k :
  In (YDetach (ranswer k)) (snd (rkstep RRecvWait (EPDetach k))).
Proof. destruct k; cbn; auto. Qed.

Lemma r_detach_behind_transfer_refutes : forall q k,
  snd (rkstep (RIdle (S q) (Some k)) ERecv) = [YDisp; YFlow; RRecv None].
Proof. intros q k. destruct k; reflexivity. Qed.

(** ... and in kind when the operation is close(), drop or recv(); detach() after a closing detach is not *)
Lemma r_answered_in_kind q k e : (e = EClose \/ e = EDrop \/ (e = ERecv /\ q = 0%nat)) ->
  In (YDetach (ranswer k)) (snd (rkstep (RIdle q (Some k)) e)) \/ In (YDetach true) (snd (rkstep (RIdle q (Some k)) e)).
Proof.
  intros [-> | [-> | [-> ->]]]; destruct k; try destruct q; cbn; auto.
Qed.

Lemma r_detach_not_in_kind_refutes : forall q,
  snd (rkstep (RIdle q (Some QClose)) EDetach) = [YDetach false; RDet (Some EDetachedByRemote)].
Proof. intros q. destruct q; reflexivity. Qed.

(** detach() and close() return only when the peer's detach has arrived: in the step that consumes it, or at once
    when it had arrived before the call *)
Lemma r_detach_close_wait s e r :
  (In (RDet r) (snd (rkstep s e)) \/ In (RCls r) (snd (rkstep s e))) ->
  (exists k, e = EPDetach k /\ (s = RDetSent \/ s = RClsSent \/ exists c, s = RReCls c)) \/
  (exists q k, s = RIdle q (Some k)) \/ (exists c, s = RDetached c).
Proof.
  rcases s e; cbn; intros [H|H]; repeat (destruct H as [H|H]); try contradiction; try discriminate;
    try (left; eexists; split; [reflexivity|]; solve [auto | right; right; eexists; reflexivity]);
    try (right; left; eexists; eexists; reflexivity);
    try (right; right; eexists; reflexivity).
Qed.

(** the peer's error reaches the caller of close() and of recv() *)
Lemma r_peer_error_to_close s r : In (RCls r) (snd (rkstep s (EPDetach QCloseErr))) -> r = Some ERemoteClosedWithError.
Proof.
  destruct s as [|q rd| | | |c|c|c| | |]; try destruct rd as [[| |]|]; try destruct q; try destruct c; cbn; intros H;
    repeat (destruct H as [H|H]); try contradiction; try discriminate; try (injection H as <-; reflexivity).
Qed.

Lemma r_peer_error_to_recv s r : In (RRecv r) (snd (rkstep s (EPDetach QCloseErr))) -> r = Some ERemoteClosedWithError.
Proof.
  destruct s as [|q rd| | | |c|c|c| | |]; try destruct rd as [[| |]|]; try destruct q; try destruct c; cbn; intros H;
    repeat (destruct H as [H|H]); try contradiction; try discriminate; try (injection H as <-; reflexivity).
Qed.

Lemma r_peer_error_unseen q :
  In (RRecv (Some ERemoteClosedWithError)) (snd (rkstep (RIdle 0 (Some QCloseErr)) ERecv)) /\
  In (RCls (Some ERemoteClosedWithError)) (snd (rkstep (RIdle q (Some QCloseErr)) EClose)).
Proof. split; try destruct q; cbn; auto. Qed.

(** ... but not the caller of detach(): at once when the error is waiting unseen, and after the re-attach when
    the error came as the answer to the detach *)
Lemma r_peer_error_lost_refutes :
  (forall q, snd (rkstep (RIdle q (Some QCloseErr)) EDetach) = [YDetach false; RDet (Some EDetachedByRemote)]) /\
  snd (rkrun RAttSent [EPAttach; EDetach; EPDetach QCloseErr; EPAttach; EPDetach QClose]) =
    [[YFlow; RAttached]; [YDetach false]; [YAttach]; [YDetach true]; [RDet (Some EClosedByRemote)]].
Proof. split; [intros q; destruct q; reflexivity | reflexivity]. Qed.

(** the link never brings its session down: no step writes an end *)
Lemma r_never_ends_session s e : ~ In YEnd (snd (rkstep s e)).
Proof.
  rcases s e; cbn; intros H; repeat (destruct H as [H|H]); try contradiction; try discriminate.
Qed.

(** a delivery that arrives for a receiver whose handle was dropped before the peer's detach is discarded *)
Lemma r_drop_then_transfer :
  snd (rkrun RAttSent [EPAttach; EDrop; EPTransfer; EPDetach QClose]) = [[YFlow; RAttached]; [YDetach true]; []; []].
Proof. reflexivity. Qed.

(** a clean detach and a clean close *)
Lemma r_clean_detach_close :
  rkrun RAttSent [EPAttach; EPTransfer; ERecv; EDetach; EPDetach QDetach] =
    (RGone, [[YFlow; RAttached]; []; [YDisp; YFlow; RRecv None]; [YDetach false]; [RDet None]]) /\
  rkrun RAttSent [EPAttach; ERecv; EPTransfer; EClose; EPDetach QClose] =
    (RGone, [[YFlow; RAttached]; []; [YDisp; YFlow; RRecv None]; [YDetach true]; [RCls None]]).
Proof. split; reflexivity. Qed.
