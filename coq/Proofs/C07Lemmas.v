From FV Require Import Base.Serial Session.Window Proofs.SerialProofs Proofs.WindowProofs.
From Coq Require Import Lia.
Open Scope N_scope.

(** the session right after the begin exchange, and the matching ghost *)
Definition begun (noi iw ow b_noi b_iw b_ow : N) : sess :=
  on_incoming_begin (sess_init noi iw ow) b_noi b_iw b_ow.
Definition ghost0 (noi b_noi b_iw : N) : ghost := mkG noi b_iw b_noi.

Definition transfers_in_window (g : ghost) (out : list sframe) : Prop :=
  forall tid did x, In (FTransfer tid did x) out -> in_window (g_base g) (g_win g) tid.
Definition flows_report (iw ow : N) (g : ghost) (out : list sframe) : Prop :=
  forall f, In (FFlow f) out -> f_nii f = Some (g_nii g) /\ f_iw f = iw /\ f_ow f = ow.

Lemma frames_ok_split iw ow g out :
  frames_ok iw ow g out -> transfers_in_window g out /\ flows_report iw ow g out.
Proof.
  unfold frames_ok. rewrite Forall_forall. intros H. split.
  - intros tid did x Hin. apply (H _ Hin).
  - intros f Hin. apply (H _ Hin).
Qed.

Lemma Forall2_impl' {A B} (P Q : A -> B -> Prop) l1 l2 :
  (forall a b, P a b -> Q a b) -> Forall2 P l1 l2 -> Forall2 Q l1 l2.
Proof. intros H F; induction F; constructor; auto. Qed.

Section Begun.
Variables noi iw ow b_noi b_iw b_ow : N.
Hypothesis Hnoi : noi < W.
Hypothesis Hbiw : b_iw < W.
Let s0 := begun noi iw ow b_noi b_iw b_ow.
Let g0 := ghost0 noi b_noi b_iw.

Lemma run_begun evs s' outs :
  Forall wf_ev evs -> run s0 evs = (s', outs) ->
  Inv (fold_left (ghost_step noi) evs g0) s' /\
  Forall2 (frames_ok iw ow) (ghost_trace noi g0 evs) outs /\
  wire_consistent noi (concat outs) /\
  s_noi s' = wadd noi (count_xfers (concat outs)) /\
  xfers_of (concat outs) ++ s_buf s' = submitted evs.
Proof.
  intros Hwf E.
  pose proof (run_spec evs g0 s0 s' outs (Inv_after_begin noi iw ow b_noi b_iw b_ow Hnoi Hbiw) Hwf E) as H.
  cbn in H. destruct H as (A & B & C & D & F & _). repeat split; auto; apply A.
Qed.

Lemma window_respected evs s' outs :
  Forall wf_ev evs -> run s0 evs = (s', outs) ->
  Forall2 transfers_in_window (ghost_trace noi g0 evs) outs.
Proof.
  intros Hwf E. destruct (run_begun evs s' outs Hwf E) as (_ & B & _).
  eapply Forall2_impl'; [|exact B]. intros g out H. apply (frames_ok_split _ _ _ _ H).
Qed.

Lemma buffer_fifo evs s' outs :
  Forall wf_ev evs -> run s0 evs = (s', outs) ->
  xfers_of (concat outs) ++ s_buf s' = submitted evs.
Proof. intros Hwf E. apply (run_begun evs s' outs Hwf E). Qed.

Lemma nothing_waits_in_open_window evs s' outs :
  Forall wf_ev evs -> run s0 evs = (s', outs) ->
  let g := fold_left (ghost_step noi) evs g0 in
  s_buf s' = [] \/ ~ in_window (g_base g) (g_win g) (s_noi s').
Proof.
  intros Hwf E g. destruct (run_begun evs s' outs Hwf E) as (((Hn & Hw & Hr & Hi) & HB) & _).
  destruct HB as [HB|HB]; [left; exact HB|right].
  fold g in Hr. unfold in_window. unfold sat_sub in Hr. lia.
Qed.

Lemma counters_exact evs s' outs :
  Forall wf_ev evs -> run s0 evs = (s', outs) ->
  wire_consistent noi (concat outs) /\
  s_noi s' = wadd noi (count_xfers (concat outs)) /\
  s_nii s' = g_nii (fold_left (ghost_step noi) evs g0) /\
  Forall2 (flows_report iw ow) (ghost_trace noi g0 evs) outs.
Proof.
  intros Hwf E. destruct (run_begun evs s' outs Hwf E) as (((Hn & Hw & Hr & Hi) & HB) & B & C & D & _).
  repeat split; auto.
  eapply Forall2_impl'; [|exact B]. intros g out H. apply (frames_ok_split _ _ _ _ H).
Qed.
End Begun.

(** Non-vacuity: a history near the 2^32 wrap with a shrinking window, a
    closed window and a reopening; the emitted ids wrap through 0. *)
Definition ex_x (p : N) : xfer := mkX 0 0 (Some p) None false p.
Definition ex_evs : list ev :=
  [OutXfer (ex_x 1); OutXfer (ex_x 2); OutXfer (ex_x 3);
   InFlow (mkF (Some 4294967295) 2 0 10 None);     (* peer saw one, window 2: one more may go *)
   OutXfer (ex_x 4); OutXfer (ex_x 5);
   InFlow (mkF (Some 1) 0 0 10 None);              (* window closed *)
   InXfer;
   InFlow (mkF (Some 1) 5 7 10 None)].             (* reopened *)
Definition ex_run := run (begun 4294967294 4 10 0 2 10) ex_evs.
