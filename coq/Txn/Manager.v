(** Model of the listener-side transactional resource of one session:
    transaction/session.rs [TxnSession] ([allocate_transaction_id],
    [commit_transaction], [rollback_transaction], [on_incoming_transfer]),
    transaction/manager.rs [TransactionManager], [ResourceTransaction::on_incoming_post],
    transaction/coordinator.rs [TxnCoordinator] ([on_declare], [on_discharge], [Drop]),
    session/engine.rs (SessionControl::{AllocateTransactionId, CommitTransaction,
    RollbackTransaction, AbortTransaction}, SessionInnerError::UnknownTxnId).

    One step = one action of the remote controller followed by everything the
    listener does until it is quiet.

    What is kept: the transactions of the manager's map [txns] (id -> posts
    buffered in posting order), for every transaction the control link whose
    coordinator holds the id in its [txn_ids] set (the two tables of the code are
    merged into the [t_ctl] field: they agree except in the known findings listed
    below), the attached control links and data links, whether the session is
    still there, and the deliveries handed to the receiving application.

    What is abstracted:
    - transaction ids.  The code draws a random UUID and redraws while the id is
      in the map of LIVE transactions; the model issues the values of a counter.
      Freshness against every id issued before is a property of the counter; for
      the code it holds up to UUID collisions.
    - link credit, delivery ids, settlement of the data deliveries by the
      application, frames (a message cut into several transfers is one post),
      transactional retirement and acquisition.
    - the coordinator's [Drop] reaches the manager through the session's control
      queue ([try_send], capacity 128) some time after the detach; in the model
      the transactions of a control link end in the step of its detach.
    The model is faithful to the code where the code is harsher than necessary: a
    post under an id that is not live ends the whole session with
    amqp:transaction:unknown-id.
    Not modelled (known findings, outside the model's alphabet): a NON-closing
    detach of the control link (c18-ctl-detach-zombie), link credit not given back
    after rollback (c18-nontx-affected), a multi-frame post under an unknown id
    (closes the connection), more than 128 live transactions on one control link
    at its detach (c18-abort-lost). *)
From Coq Require Export List Bool NArith.
Export ListNotations.
Open Scope N_scope.

(** the transaction error conditions of the protocol; this code path produces only the first *)
Inductive txerr := UnknownId | TxRollback | TxTimeout.

Inductive event :=
| ECtlAttach (c : N)                          (* attach of control link c (target = coordinator) *)
| ECtlDetach (c : N)                          (* its closing detach: the coordinator stops and is dropped *)
| ELinkAttach (l : N)                         (* attach of data link l (the peer sends) *)
| EDeclare (c : N)                            (* declare on control link c *)
| EPost (l : N) (tx : option N) (settled : bool) (m : N)   (* message m on link l, under transaction tx or plain *)
| ECommit (c : N) (id : N)                    (* discharge, fail = false or absent *)
| ERollback (c : N) (id : N)                  (* discharge, fail = true *)
| ESessionEnd                                 (* the peer ends the session *)
| EConnLost.                                  (* the transport goes away *)

Inductive output :=
| OAttached | ODetached                       (* the listener's attach / detach in answer *)
| ODeclared (id : N)                          (* declare settled with declared(id) *)
| OAccepted                                   (* discharge settled with accepted *)
| ORejected (e : txerr)                       (* declare / discharge settled with rejected(e) *)
| OProvisional (id : N)                       (* post settled with transactional-state(id, accepted) *)
| OSessionEnd (e : option txerr)              (* the listener's end, with the error it carries *)
| ODeliver (l m : N).                         (* recv() on link l returned message m *)

Record txn := mkT { t_id : N; t_ctl : N; t_posts : list (N * N) }.

Record state := mkS {
  alive : bool;                 (* the session is mapped *)
  next_id : N;                  (* the ids issued so far are 0 .. next_id-1 *)
  ctls : list N;                (* attached control links (running coordinators) *)
  links : list N;               (* attached data links *)
  live : list txn;              (* the manager's map, in declaration order *)
  delivered : list (N * N)      (* everything handed to the application, oldest first *)
}.

Definition init : state := mkS true 0 [] [] [] [].

Definition mem (x : N) (l : list N) : bool := existsb (N.eqb x) l.
Definition remove (x : N) (l : list N) : list N := filter (fun y => negb (N.eqb x y)) l.

Fixpoint find_tx (id : N) (ts : list txn) : option txn :=
  match ts with
  | [] => None
  | t :: r => if N.eqb (t_id t) id then Some t else find_tx id r
  end.
Definition drop_tx (id : N) (ts : list txn) : list txn := filter (fun t => negb (N.eqb (t_id t) id)) ts.
Definition drop_ctl (c : N) (ts : list txn) : list txn := filter (fun t => negb (N.eqb (t_ctl t) c)) ts.
Fixpoint add_post (id : N) (p : N * N) (ts : list txn) : list txn :=
  match ts with
  | [] => []
  | t :: r => if N.eqb (t_id t) id then mkT (t_id t) (t_ctl t) (t_posts t ++ [p]) :: r else t :: add_post id p r
  end.

(** the posts buffered under a live id *)
Definition posts (s : state) (id : N) : option (list (N * N)) :=
  match find_tx id (live s) with Some t => Some (t_posts t) | None => None end.
(** the control link that may discharge it *)
Definition owner (s : state) (id : N) : option N :=
  match find_tx id (live s) with Some t => Some (t_ctl t) | None => None end.
(** the queue of link l as the application has seen it *)
Definition queue (s : state) (l : N) : list N :=
  map snd (filter (fun p => N.eqb (fst p) l) (delivered s)).

Definition deliver (p : N * N) : output := ODeliver (fst p) (snd p).

(** the session is gone: the coordinators stop, the manager is dropped with its map *)
Definition dead (s : state) : state := mkS false (next_id s) [] [] [] (delivered s).

(** can the (protocol-abiding) peer perform the action at all?  A scripted peer skips the others. *)
Definition enabled (s : state) (e : event) : bool :=
  alive s &&
  match e with
  | ECtlAttach c => negb (mem c (ctls s))
  | ECtlDetach c | EDeclare c | ECommit c _ | ERollback c _ => mem c (ctls s)
  | ELinkAttach l => negb (mem l (links s))
  | EPost l _ _ _ => mem l (links s)
  | ESessionEnd | EConnLost => true
  end.

(** a discharge on control link c: the coordinator knows the id only if it declared it *)
Definition owned (s : state) (c id : N) : option txn :=
  match find_tx id (live s) with
  | Some t => if N.eqb (t_ctl t) c then Some t else None
  | None => None
  end.

Definition act (s : state) (e : event) : state * list output :=
  match e with
  | ECtlAttach c => (mkS true (next_id s) (c :: ctls s) (links s) (live s) (delivered s), [OAttached])
  | ECtlDetach c => (mkS true (next_id s) (remove c (ctls s)) (links s) (drop_ctl c (live s)) (delivered s), [ODetached])
  | ELinkAttach l => (mkS true (next_id s) (ctls s) (l :: links s) (live s) (delivered s), [OAttached])
  | EDeclare c =>
      (mkS true (N.succ (next_id s)) (ctls s) (links s) (live s ++ [mkT (next_id s) c []]) (delivered s),
       [ODeclared (next_id s)])
  | EPost l None _ m =>
      (mkS true (next_id s) (ctls s) (links s) (live s) (delivered s ++ [(l, m)]), [ODeliver l m])
  | EPost l (Some id) settled m =>
      match find_tx id (live s) with
      | Some _ => (mkS true (next_id s) (ctls s) (links s) (add_post id (l, m) (live s)) (delivered s),
                   if settled then [] else [OProvisional id])
      | None => (dead s, [OSessionEnd (Some UnknownId)])
      end
  | ECommit c id =>
      match owned s c id with
      | Some t => (mkS true (next_id s) (ctls s) (links s) (drop_tx id (live s)) (delivered s ++ t_posts t),
                   OAccepted :: map deliver (t_posts t))
      | None => (s, [ORejected UnknownId])
      end
  | ERollback c id =>
      match owned s c id with
      | Some _ => (mkS true (next_id s) (ctls s) (links s) (drop_tx id (live s)) (delivered s), [OAccepted])
      | None => (s, [ORejected UnknownId])
      end
  | ESessionEnd => (dead s, [OSessionEnd None])
  | EConnLost => (dead s, [])
  end.

Definition step (s : state) (e : event) : state * list output :=
  if enabled s e then act s e else (s, []).

Fixpoint run (s : state) (es : list event) : state * list (list output) :=
  match es with
  | [] => (s, [])
  | e :: r => let '(s1, o) := step s e in let '(s2, os) := run s1 r in (s2, o :: os)
  end.

(** the deliveries among the outputs of a step *)
Fixpoint deliveries (os : list output) : list (N * N) :=
  match os with
  | [] => []
  | ODeliver l m :: r => (l, m) :: deliveries r
  | _ :: r => deliveries r
  end.
