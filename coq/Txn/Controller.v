(** Model of the controller side of a transaction: transaction/controller.rs
    ([declare_on_link], [discharge_on_link]) and transaction/mod.rs ([Transaction]: declare,
    post, discharge / commit / rollback, [Drop] with its best-effort rollback), for transactions
    that share one [Controller], at the granularity of whole calls.  The coordinator is the
    environment: every call that writes a declare, a post or a discharge comes with the terminal
    state the coordinator answers it with.

    - declare: the declare message goes out; `declared(id)` yields a handle on [id], `rejected`
      is reported as [Rejected], any other terminal state as [IllegalDeliveryState];
    - post: a transfer whose state is transactional-state([id of the handle]) goes out (the handle
      does not look at [is_discharged]); the provisional outcome is reported;
    - discharge(fail) on a handle that is not discharged: discharge(id, fail) goes out; `accepted`
      marks the handle discharged; `rejected` and every other state are errors and leave it
      undischarged; on a discharged handle nothing is written;
    - commit / rollback = discharge(false / true) and the handle is dropped;
    - dropping an undischarged handle writes discharge(id, true) without waiting for the answer.
    The application's handles are numbered in the order of its declare calls (a failed declare
    takes a number too, as in the harness). *)
From Coq Require Import List NArith Bool.
Import ListNotations.

Definition txid := list N.

Inductive answer :=
| ADeclared (id : txid)
| AAccepted
| ARejected (c : N)                 (* the condition, as an index into the harness's table *)
| AOther.                           (* released / modified: terminal, neither accepted nor rejected *)

Inductive panswer := PTxAccepted | PTxRejected (c : N) | PRejected (c : N).

Inductive cop :=
| ODecl (a : answer)
| OPost (k m : nat) (a : panswer)
| OCommit (k : nat) (a : answer)
| ORollback (k : nat) (a : answer)
| ODisch (k : nat) (fail : bool) (a : answer)      (* TransactionDischarge::discharge: the handle stays *)
| ODrop (k : nat).

Inductive cwire :=
| WDecl
| WPost (id : txid) (m : nat)
| WDisch (id : txid) (fail : bool).

Inductive cres :=
| ROkId (id : txid) | ROk | ROkAccepted | ROkRejected (c : N)
| RRejected (c : N) | RIllegalState | RDropped | RSkip.

Record handle := { h_id : txid; h_done : bool }.
Definition cstate := list (option handle).

Definition set_slot (st : cstate) (k : nat) (v : option handle) : cstate :=
  firstn k st ++ v :: skipn (S k) st.

Definition slot (st : cstate) (k : nat) : option handle :=
  match nth_error st k with Some (Some h) => Some h | _ => None end.

(** [Transaction::discharge] *)
Definition discharge (h : handle) (fail : bool) (a : answer) : list cwire * cres * handle :=
  if h_done h then ([], ROk, h)
  else
    let w := [WDisch (h_id h) fail] in
    match a with
    | AAccepted => (w, ROk, {| h_id := h_id h; h_done := true |})
    | ARejected c => (w, RRejected c, h)
    | ADeclared _ | AOther => (w, RIllegalState, h)
    end.

(** [Drop for Transaction] *)
Definition drop_wire (h : handle) : list cwire :=
  if h_done h then [] else [WDisch (h_id h) true].

Definition cstep (st : cstate) (o : cop) : cstate * list cwire * cres :=
  match o with
  | ODecl a =>
      match a with
      | ADeclared id => (st ++ [Some {| h_id := id; h_done := false |}], [WDecl], ROkId id)
      | ARejected c => (st ++ [None], [WDecl], RRejected c)
      | AAccepted | AOther => (st ++ [None], [WDecl], RIllegalState)
      end
  | OPost k m a =>
      match slot st k with
      | None => (st, [], RSkip)
      | Some h =>
          (st, [WPost (h_id h) m],
           match a with PTxAccepted => ROkAccepted | PTxRejected c | PRejected c => ROkRejected c end)
      end
  | OCommit k a | ORollback k a =>
      match slot st k with
      | None => (st, [], RSkip)
      | Some h =>
          let fail := match o with OCommit _ _ => false | _ => true end in
          let '(w, r, h') := discharge h fail a in
          (set_slot st k None, w ++ drop_wire h', r)
      end
  | ODisch k fail a =>
      match slot st k with
      | None => (st, [], RSkip)
      | Some h =>
          let '(w, r, h') := discharge h fail a in
          (set_slot st k (Some h'), w, r)
      end
  | ODrop k =>
      match slot st k with
      | None => (st, [], RSkip)
      | Some h => (set_slot st k None, drop_wire h, RDropped)
      end
  end.

Fixpoint crun (st : cstate) (ops : list cop) : cstate * list (list cwire * cres) :=
  match ops with
  | [] => (st, [])
  | o :: r =>
      let '(st1, w, res) := cstep st o in
      let '(st2, outs) := crun st1 r in
      (st2, (w, res) :: outs)
  end.

(** when the application goes away every handle it still holds is dropped, in order *)
Definition final_wire (st : cstate) : list cwire :=
  concat (map (fun s => match s with Some h => drop_wire h | None => [] end) st).

(** the handle an operation is about *)
Definition op_slot (o : cop) : option nat :=
  match o with
  | ODecl _ => None
  | OPost k _ _ | OCommit k _ | ORollback k _ | ODisch k _ _ | ODrop k => Some k
  end.

(** what the coordinator issued, per declare call *)
Fixpoint issued (ops : list cop) : list (option txid) :=
  match ops with
  | [] => []
  | ODecl (ADeclared id) :: r => Some id :: issued r
  | ODecl _ :: r => None :: issued r
  | _ :: r => issued r
  end.
