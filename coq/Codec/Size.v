(** Model of [serde_amqp::serialized_size] for values: [SizeSerializer]
    (size_ser.rs) driven by [impl Serialize for Value].  Mirrors size_ser.rs
    case by case; like the code it gives every list/array element, every map
    key/value *and the value of a described type* a fresh serializer. *)
From FV Require Import Base.Bytes Codec.Value Codec.Enc.

Definition sz_code (c : ctx) (body : N) : N := match c with Plain | First => 1 + body | Other => body end.

Definition size_bool (c : ctx) : N := match c with Plain => 1 | First => 2 | Other => 1 end.
Definition size_uint (c : ctx) (n : N) : N :=
  match c with Plain => if n =? 0 then 1 else if n <=? 255 then 2 else 5 | First => 5 | Other => 4 end.
Definition size_ulong (c : ctx) (n : N) : N :=
  match c with Plain => if n =? 0 then 1 else if n <=? 255 then 2 else 9 | First => 9 | Other => 8 end.
Definition size_int (c : ctx) (bits : N) : N :=
  match c with Plain => if small_signed 32 bits then 2 else 5 | First => 5 | Other => 4 end.
Definition size_long (c : ctx) (bits : N) : N :=
  match c with Plain => if small_signed 64 bits then 2 else 9 | First => 9 | Other => 8 end.
Definition size_var (c : ctx) (b : bytes) : option N :=
  let l := lenN b in
  match c with
  | Plain => if l <=? U8MAX1 then Some (2 + l) else if l <=? U32MAX4 then Some (5 + l) else None
  | First => Some (5 + l)
  | Other => Some (4 + l)
  end.

(** [list_size] / [map_size] / [array_size] *)
Definition list_size (c : ctx) (len : N) : option N :=
  if len =? 0 then Some 1
  else if len <=? U8MAX1 then Some (sz_code c (2 + len))
  else if len <=? U32MAX4 then Some (sz_code c (8 + len))
  else None.
Definition map_size (c : ctx) (len : N) : option N :=
  if len <=? U8MAX1 then Some (sz_code c (2 + len))
  else if len <=? U32MAX4 then Some (sz_code c (8 + len))
  else None.
Definition array_size := map_size.

Fixpoint sum_opt (l : list (option N)) : option N :=
  match l with
  | [] => Some 0
  | None :: _ => None
  | Some a :: r => match sum_opt r with Some t => Some (a + t) | None => None end
  end.
Definition opt_add (a b : option N) : option N :=
  match a, b with Some x, Some y => Some (x + y) | _, _ => None end.

Definition size_descriptor (c : ctx) (d : descriptor) : option N :=
  match d with DName s => size_var c s | DCode n => Some (size_ulong c n) end.

Fixpoint size_of (c : ctx) (v : value) {struct v} : option N :=
  match v with
  | VDescribed d x => opt_add (Some 1) (opt_add (size_descriptor c d) (size_of Plain x))
  | VNull => Some 1
  | VBool _ => Some (size_bool c)
  | VUbyte _ | VByte _ => Some (sz_code c 1)
  | VUshort _ | VShort _ => Some (sz_code c 2)
  | VUint n => Some (size_uint c n)
  | VUlong n => Some (size_ulong c n)
  | VInt n => Some (size_int c n)
  | VLong n => Some (size_long c n)
  | VFloat _ | VChar _ => Some (sz_code c 4)
  | VDouble _ | VTimestamp _ => Some (sz_code c 8)
  | VDec32 b | VDec64 b | VDec128 b | VUuid b => Some (sz_code c (lenN b))
  | VBinary b | VString b | VSymbol b => size_var c b
  | VList l =>
      match sum_opt (map (size_of Plain) l) with Some len => list_size c len | None => None end
  | VMap l =>
      match sum_opt (map (fun p => opt_add (size_of Plain (fst p)) (size_of Plain (snd p))) l) with
      | Some len => map_size c len | None => None end
  | VArray l =>
      match l with
      | [] => array_size c 0
      | x :: r => match sum_opt (size_of First x :: map (size_of Other) r) with
                  | Some len => array_size c len | None => None end
      end
  end.

(** no array has a described element (where the two serializers differ: known finding) *)
Fixpoint no_described_elems (v : value) : bool :=
  match v with
  | VDescribed _ x => no_described_elems x
  | VList l => forallb no_described_elems l
  | VMap l => forallb (fun p => no_described_elems (fst p) && no_described_elems (snd p)) l
  | VArray l => forallb (fun x => negb (kind x =? 0) && no_described_elems x) l
  | _ => true
  end.
