(** Model of the typed layer for composite types (the derive macros
    [SerializeComposite] / [DeserializeComposite] of serde_amqp_derive with
    [encoding = "list"], and [DescribedAccess] of serde_amqp/src/de.rs): a
    composite is a described list whose fields are optional, mandatory,
    defaulted or `multiple`.

    - serializer (derive/src/ser.rs, macros [buffer_if_none],
      [buffer_if_eq_default]): an absent field (None, or a defaulted field whose
      value equals the default) is *buffered* as a pending null; the pending
      nulls are flushed in front of the next present field and dropped at the
      end (trailing-field elision);
    - deserializer (derive/src/de.rs [impl_visit_seq_for_struct],
      de.rs [DescribedAccess::next_element_seed] + [consume_list_header]): the
      descriptor is read and compared, the list header gives the number of
      elements (its size field is ignored), then one element per field while the
      count lasts and bytes remain; a field that is not there or is null takes
      None / its default, a mandatory field that is not there or is null is an error,
      an empty array in a `multiple` field is None.

    A field vector is a [list value] with [VNull] for None.  The decoding of one
    field is the value decoder [dec] (the typed field decoders agree with it on
    type-correct input: that is what the `comp` correspondence exercises). *)
From FV Require Import Base.Bytes Codec.Value Codec.Enc Codec.Dec Codec.Size.

Inductive fkind :=
| FOpt                      (* Option<T> *)
| FMand                     (* T *)
| FDflt (d : value)         (* #[amqp_contract(default)] T, d = T::default() *)
| FMulti.                   (* #[amqp_contract(multiple)] Option<Array<T>> *)

Record schema := { s_name : bytes; s_code : N; s_fields : list fkind }.

Definition is_null (v : value) : bool := match v with VNull => true | _ => false end.
Definition is_empty_array (v : value) : bool := match v with VArray [] => true | _ => false end.

(** does the serializer buffer a null for this field? *)
Definition field_absent (k : fkind) (v : value) : bool :=
  match k with
  | FOpt | FMulti => is_null v            (* [$fident.is_some()] *)
  | FMand => false
  | FDflt d => value_eqb v d               (* [*$fident != Default::default()] *)
  end.

(** the list of values the derived [serialize] hands to the struct serializer *)
Fixpoint elide (ks : list fkind) (vs : list value) (nulls : nat) : list value :=
  match ks, vs with
  | k :: ks', v :: vs' =>
      if field_absent k v then elide ks' vs' (S nulls)
      else repeat VNull nulls ++ v :: elide ks' vs' 0
  | _, _ => []
  end.

(** [to_vec(&x)] for a composite: descriptor by code, then the list *)
Definition enc_composite (c : ctx) (s : schema) (vs : list value) : option bytes :=
  enc c (VDescribed (DCode (s_code s)) (VList (elide (s_fields s) vs 0))).

(** [serialized_size(&x)] for a composite: the derived [serialize] drives the [SizeSerializer] with the same
    sequence of fields *)
Definition size_composite (c : ctx) (s : schema) (vs : list value) : option N :=
  size_of c (VDescribed (DCode (s_code s)) (VList (elide (s_fields s) vs 0))).

(** [DescribedAccess::consume_list_header]: the size is read and ignored *)
Definition list_header (bs : bytes) : result (N * bytes) :=
  let* (code, r0) := take_code None bs in
  if code =? 69 then Ok (0, r0)
  else if code =? 192 then
    let* (_, r1) := read_byte r0 in
    let* (count, r2) := read_byte r1 in Ok (count, r2)
  else if code =? 208 then
    let* (_, r1) := read_be 4 r0 in
    let* (count, r2) := read_be 4 r1 in Ok (count, r2)
  else Err EOther.

(** what the visitor makes of an element that is there *)
Definition field_of_present (k : fkind) (v : value) : result value :=
  match k with
  | FOpt => Ok v
  | FMand => if is_null v then Err EOther else Ok v
  | FDflt d => Ok (if is_null v then d else v)
  | FMulti => Ok (if is_empty_array v then VNull else v)
  end.
(** ... and of one that is not *)
Definition field_of_missing (k : fkind) : result value :=
  match k with
  | FOpt | FMulti => Ok VNull
  | FMand => Err EOther                     (* "Insufficient number of items" *)
  | FDflt d => Ok d
  end.

(** [visit_seq]: one [next_element] per field; [left] = elements the header still promises *)
Fixpoint dec_fields (fuel : nat) (ks : list fkind) (left : N) (bs : bytes) : result (list value * bytes) :=
  match ks with
  | [] => Ok ([], bs)
  | k :: ks' =>
      match bs with
      | b :: _ =>
          if 0 <? left then
            if negb (known_code b) then Err EInvalidFormatCode
            else
              let* (v, _, r) := dec fuel None bs in
              let* fv := field_of_present k v in
              let* (fvs, r') := dec_fields fuel ks' (left - 1) r in
              Ok (fv :: fvs, r')
          else
            let* fv := field_of_missing k in
            let* (fvs, r') := dec_fields fuel ks' left bs in
            Ok (fv :: fvs, r')
      | [] =>
          let* fv := field_of_missing k in
          let* (fvs, r') := dec_fields fuel ks' left bs in
          Ok (fv :: fvs, r')
      end
  end.

Definition descriptor_matches (s : schema) (d : descriptor) : bool :=
  match d with
  | DCode c => c =? s_code s
  | DName n => bytes_eqb n (s_name s)
  end.

(** [from_slice::<T>] for a composite [T]; elements beyond the schema are left unread *)
Definition dec_composite (fuel : nat) (s : schema) (bs : bytes) : result (list value * bytes) :=
  let* (d, r1) := dec_descriptor None bs in
  if negb (descriptor_matches s d) then Err EOther
  else
    let* (count, r2) := list_header r1 in
    dec_fields fuel (s_fields s) count r2.

(** ** what the theorems assume of a field vector *)
Definition field_ok (k : fkind) (v : value) : bool :=
  wf v &&
  match k with
  | FOpt => true
  | FMand => negb (is_null v)
  | FDflt d => negb (is_null v)
  | FMulti => is_null v || (match v with VArray (_ :: _) => true | _ => false end)
  end.
Fixpoint fields_ok (ks : list fkind) (vs : list value) : bool :=
  match ks, vs with
  | [], [] => true
  | k :: ks', v :: vs' => field_ok k v && fields_ok ks' vs'
  | _, _ => false
  end.
Definition kind_ok (k : fkind) : bool :=
  match k with FDflt d => wf d && negb (is_null d) | _ => true end.
Definition schema_ok (s : schema) : bool :=
  forallb kind_ok (s_fields s) && (s_code s <? 18446744073709551616) && (lenN (s_fields s) <=? MAXCOUNT).

(** ** presentations: every layout of a field vector that the specification allows
    (an absent field written as null, a defaulted field written out, an empty
    array for an absent `multiple` field, trailing absent fields left out) *)
Definition presents (k : fkind) (v w : value) : bool :=
  value_eqb w v ||
  (field_absent k v && (is_null w || match k with FMulti => is_empty_array w | _ => false end)).
Fixpoint presentation (ks : list fkind) (vs ws : list value) : bool :=
  match ks, vs, ws with
  | [], [], [] => true
  | k :: ks', v :: vs', w :: ws' => presents k v w && presentation ks' vs' ws'
  | k :: ks', v :: vs', [] => field_absent k v && presentation ks' vs' []
  | _, _, _ => false
  end.

(** dispatch on the descriptor (the [Performative] / [DeliveryState] / ... enums):
    the first schema of the table that the descriptor matches *)
Fixpoint dispatch (tbl : list schema) (d : descriptor) : option schema :=
  match tbl with
  | [] => None
  | s :: r => if descriptor_matches s d then Some s else dispatch r d
  end.

(** an enum of composites ([Performative], [DeliveryState], [Outcome]): [deserialize_enum] peeks at
    the descriptor ([parse_described_identifier]: nothing is consumed), picks the variant the
    descriptor names - by code or by name - and reads it through the variant's own visitor *)
Definition dec_via_enum (fuel : nat) (tbl : list schema) (bs : bytes) : result (schema * list value * bytes) :=
  let* (d, _) := dec_descriptor None bs in
  match dispatch tbl d with
  | None => Err EOther                      (* "Wrong code value for descriptor" *)
  | Some s => let* (vs, rest) := dec_composite fuel s bs in Ok (s, vs, rest)
  end.
