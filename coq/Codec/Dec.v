(** Model of the value decoder: [impl Deserialize for Value] (value/de.rs)
    driving [serde_amqp::de::Deserializer] (de.rs) over a slice reader, after
    the repair a556718 (checked size arithmetic, odd map counts).  The only
    deserializer state that survives between two values is
    [elem_format_code] ([dstate]); it is threaded exactly where the code
    shares one [Deserializer].  Fuel = nesting depth; open recursion so that
    unfolding lemmas are by reflexivity. *)
From FV Require Import Base.Bytes Codec.Value.

Definition dstate := option N.           (* Deserializer::elem_format_code *)

(** [EncodingCodes::try_from(u8)] succeeds exactly on these bytes *)
Definition known_codes : list N :=
  [0; 64; 86; 65; 66; 80; 96; 112; 82; 67; 128; 83; 68; 81; 97; 113; 84; 129; 85; 114; 130;
   116; 132; 148; 115; 131; 152; 160; 176; 161; 177; 163; 179; 69; 192; 208; 193; 209; 224; 240].
Definition known_code (c : N) : bool := existsb (N.eqb c) known_codes.

(** [get_elem_code_or_read_format_code] *)
Definition take_code (e : dstate) (bs : bytes) : result (N * bytes) :=
  match e with
  | Some c => Ok (c, bs)
  | None => match bs with
            | [] => Err EEof
            | b :: r => if known_code b then Ok (b, r) else Err EInvalidFormatCode
            end
  end.
(** [get_elem_code_or_peek_byte] followed by [try_into] *)
Definition peek_code (e : dstate) (bs : bytes) : result N :=
  match e with
  | Some c => Ok c
  | None => match bs with
            | [] => Err EEof
            | b :: _ => if known_code b then Ok b else Err EInvalidFormatCode
            end
  end.

Definition read_n (k : nat) (bs : bytes) : result (bytes * bytes) :=
  match take_n k bs with Some p => Ok p | None => Err EEof end.
(** a length that comes from the wire: compare as [N] first, so that no huge
    unary number is ever built (the outcome is the same: not enough bytes -> EOF) *)
Definition read_len (len : N) (bs : bytes) : result (bytes * bytes) :=
  if lenN bs <? len then Err EEof else read_n (N.to_nat len) bs.
Definition read_be (k : nat) (bs : bytes) : result (N * bytes) :=
  let* (h, t) := read_n k bs in Ok (from_be h, t).
Definition read_byte (bs : bytes) : result (N * bytes) :=
  match bs with [] => Err EEof | b :: r => Ok (b, r) end.

(** sign extension of a one-byte two's complement value to [w] bits *)
Definition sext8 (w : N) (b : N) : N := if b <? 128 then b else 2 ^ w - 256 + b.

Definition checked_sub_len (a b : N) : result N := if a <? b then Err EInvalidLength else Ok (a - b).

(** variable-width payload after the format code: 8-bit or 32-bit length *)
Definition read_var (code c8 c32 : N) (bs : bytes) : result (bytes * bytes) :=
  if code =? c8 then
    let* (len, r) := read_byte bs in read_len len r
  else if code =? c32 then
    let* (len, r) := read_be 4 bs in read_len len r
  else Err EInvalidFormatCode.

Definition check_utf8 (p : bytes * bytes) : result (bytes * bytes) :=
  if utf8_valid (fst p) then Ok p else Err EUtf8.

Section Body.
(** the recursive call: decode one [Value] *)
Variable self : dstate -> bytes -> result (value * dstate * bytes).

(** [ListAccess]: [count] elements, no size check *)
Fixpoint list_loop (count : nat) (e : dstate) (bs : bytes) (acc : list value)
  : result (list value * dstate * bytes) :=
  match count with
  | O => Ok (rev_append acc [], e, bs)                   (* [acc] is kept reversed *)
  | S c => let* (v, e1, r) := self e bs in list_loop c e1 r (v :: acc)
  end.

(** [ArrayAccess]: [count] elements, bounded by [size] bytes from [start_len] *)
Fixpoint array_loop (count : nat) (size : N) (start_len : N) (e : dstate) (bs : bytes) (acc : list value)
  : result (list value * dstate * bytes) :=
  match count with
  | O => Ok (rev_append acc [], None, bs)                (* elem_format_code := None at the end; [acc] reversed *)
  | S c =>
      let* (v, e1, r) := self e bs in
      if size <? start_len - lenN r then Err EInvalidValue
      else array_loop c size start_len e1 r (v :: acc)
  end.

(** [MapAccess::next_entry_seed] loop; [count] counts keys and values *)
Fixpoint map_loop (fuel : nat) (count : N) (e : dstate) (bs : bytes) (acc : list (value * value))
  : result (list (value * value) * dstate * bytes) :=
  match fuel with
  | O => OutOfFuel
  | S f =>
      if count =? 0 then Ok (acc, e, bs)
      else if count =? 1 then Err EInvalidLength
      else
        let* (k, e1, r1) := self e bs in
        let* (v, e2, r2) := self e1 r1 in
        map_loop f (count - 2) e2 r2 (omap_insert k v acc)
  end.

(** [deserialize_seq] *)
Definition dec_seq (e : dstate) (bs : bytes) : result (list value * dstate * bytes) :=
  let* (code, r0) := take_code e bs in
  if code =? 224 then                                    (* array8 *)
    let* (len, r1) := read_byte r0 in
    let* (count, r2) := read_byte r1 in
    if (MAXCOUNT <? count) || (len <? count) then Err EInvalidValue
    else if count =? 0 then
      (* an empty array may still carry its element constructor: the bytes the size announces after the count are skipped *)
      let* rest := checked_sub_len len 1 in
      let* (_, r3) := read_len rest r2 in Ok ([], None, r3)
    else
      let* (fc, r3) := take_code None r2 in
      let* size := checked_sub_len len 2 in
      array_loop (N.to_nat count) size (lenN r3) (Some fc) r3 []
  else if code =? 240 then                               (* array32 *)
    let* (len, r1) := read_be 4 r0 in
    let* (count, r2) := read_be 4 r1 in
    if (MAXCOUNT <? count) || (len <? count) then Err EInvalidValue
    else if count =? 0 then
      let* rest := checked_sub_len len 4 in
      let* (_, r3) := read_len rest r2 in Ok ([], None, r3)
    else
      let* (fc, r3) := take_code None r2 in
      let* size := checked_sub_len len 5 in
      array_loop (N.to_nat count) size (lenN r3) (Some fc) r3 []
  else if code =? 69 then Ok ([], e, r0)                 (* list0 *)
  else if code =? 192 then                               (* list8 *)
    let* (len, r1) := read_byte r0 in
    let* (count, r2) := read_byte r1 in
    let* _ := checked_sub_len len 1 in
    list_loop (N.to_nat count) None r2 []
  else if code =? 208 then                               (* list32 *)
    let* (len, r1) := read_be 4 r0 in
    let* (count, r2) := read_be 4 r1 in
    if MAXCOUNT <? count then Err EInvalidValue
    else
      let* _ := checked_sub_len len 4 in
      list_loop (N.to_nat count) None r2 []
  else Err EInvalidFormatCode.

(** [deserialize_map] *)
Definition dec_map (e : dstate) (bs : bytes) : result (list (value * value) * dstate * bytes) :=
  let* (code, r0) := take_code e bs in
  if code =? 193 then
    let* (size, r1) := read_byte r0 in
    let* (count, r2) := read_byte r1 in
    let* _ := checked_sub_len size 1 in
    map_loop (S (N.to_nat count)) count e r2 []
  else if code =? 209 then
    let* (size, r1) := read_be 4 r0 in
    let* (count, r2) := read_be 4 r1 in
    if MAXCOUNT <? count then Err EInvalidValue
    else
      let* _ := checked_sub_len size 4 in
      map_loop (S (N.to_nat count)) count e r2 []
  else Err EInvalidFormatCode.

(** [Descriptor::deserialize]: consumes 0x00, looks at the next code, then a symbol or a ulong *)
Definition dec_descriptor (e : dstate) (bs : bytes) : result (descriptor * bytes) :=
  let* (b0, r0) := read_byte bs in
  if negb (known_code b0) then Err EInvalidFormatCode
  else if negb (b0 =? 0) then Err EInvalidFormatCode
  else
    let* code := peek_code e r0 in
    if (code =? 163) || (code =? 179) then
      let* (c, r1) := take_code e r0 in
      let* p := read_var c 163 179 r1 in
      let* (s, r2) := check_utf8 p in
      Ok (DName s, r2)
    else if (code =? 128) || (code =? 83) || (code =? 68) then
      let* (c, r1) := take_code e r0 in
      if c =? 128 then let* (n, r2) := read_be 8 r1 in Ok (DCode n, r2)
      else if c =? 83 then let* (n, r2) := read_byte r1 in Ok (DCode n, r2)
      else Ok (DCode 0, r1)
    else Err EOther.

(** [Described<Value>::deserialize] through [DescribedAccess::basic] *)
Definition dec_described (e : dstate) (bs : bytes) : result (value * dstate * bytes) :=
  match bs with
  | [] => Err EOther                                  (* "Expecting descriptor" *)
  | b :: _ =>
      if negb (known_code b) then Err EInvalidFormatCode
      else
        let* (d, r1) := dec_descriptor e bs in
        match r1 with
        | [] => Err EOther                            (* "Insufficient number of elements" *)
        | b1 :: _ =>
            if negb (known_code b1) then Err EInvalidFormatCode
            else
              let* (v, e1, r2) := self e r1 in
              Ok (VDescribed d v, e1, r2)
        end
  end.

Definition dec_body (e : dstate) (bs : bytes) : result (value * dstate * bytes) :=
  let* code := peek_code e bs in
  if code =? 0 then dec_described e bs
  else if code =? 64 then
    let* (_, r) := take_code e bs in Ok (VNull, e, r)
  else if (code =? 86) || (code =? 65) || (code =? 66) then
    let* (c, r) := take_code e bs in
    if c =? 86 then
      let* (b, r1) := read_byte r in
      if b =? 0 then Ok (VBool false, e, r1) else if b =? 1 then Ok (VBool true, e, r1) else Err EInvalidValue
    else Ok (VBool (c =? 65), e, r)
  else if code =? 80 then
    let* (_, r) := take_code e bs in let* (b, r1) := read_byte r in Ok (VUbyte b, e, r1)
  else if code =? 96 then
    let* (_, r) := take_code e bs in let* (n, r1) := read_be 2 r in Ok (VUshort n, e, r1)
  else if (code =? 112) || (code =? 82) || (code =? 67) then
    let* (c, r) := take_code e bs in
    if c =? 112 then let* (n, r1) := read_be 4 r in Ok (VUint n, e, r1)
    else if c =? 82 then let* (n, r1) := read_byte r in Ok (VUint n, e, r1)
    else Ok (VUint 0, e, r)
  else if (code =? 128) || (code =? 83) || (code =? 68) then
    let* (c, r) := take_code e bs in
    if c =? 128 then let* (n, r1) := read_be 8 r in Ok (VUlong n, e, r1)
    else if c =? 83 then let* (n, r1) := read_byte r in Ok (VUlong n, e, r1)
    else Ok (VUlong 0, e, r)
  else if code =? 81 then
    let* (_, r) := take_code e bs in let* (b, r1) := read_byte r in Ok (VByte b, e, r1)
  else if code =? 97 then
    let* (_, r) := take_code e bs in let* (n, r1) := read_be 2 r in Ok (VShort n, e, r1)
  else if (code =? 113) || (code =? 84) then
    let* (c, r) := take_code e bs in
    if c =? 113 then let* (n, r1) := read_be 4 r in Ok (VInt n, e, r1)
    else let* (b, r1) := read_byte r in Ok (VInt (sext8 32 b), e, r1)
  else if (code =? 129) || (code =? 85) then
    let* (c, r) := take_code e bs in
    if c =? 129 then let* (n, r1) := read_be 8 r in Ok (VLong n, e, r1)
    else let* (b, r1) := read_byte r in Ok (VLong (sext8 64 b), e, r1)
  else if code =? 114 then
    let* (_, r) := take_code e bs in let* (n, r1) := read_be 4 r in Ok (VFloat n, e, r1)
  else if code =? 130 then
    let* (_, r) := take_code e bs in let* (n, r1) := read_be 8 r in Ok (VDouble n, e, r1)
  else if code =? 116 then
    let* (_, r) := take_code e bs in let* (b, r1) := read_n 4 r in Ok (VDec32 b, e, r1)
  else if code =? 132 then
    let* (_, r) := take_code e bs in let* (b, r1) := read_n 8 r in Ok (VDec64 b, e, r1)
  else if code =? 148 then
    let* (_, r) := take_code e bs in let* (b, r1) := read_n 16 r in Ok (VDec128 b, e, r1)
  else if code =? 115 then
    let* (_, r) := take_code e bs in let* (n, r1) := read_be 4 r in
    if is_scalar n then Ok (VChar n, e, r1) else Err EInvalidValue
  else if code =? 131 then
    let* (_, r) := take_code e bs in let* (n, r1) := read_be 8 r in Ok (VTimestamp n, e, r1)
  else if code =? 152 then
    let* (_, r) := take_code e bs in let* (b, r1) := read_n 16 r in Ok (VUuid b, e, r1)
  else if (code =? 160) || (code =? 176) then
    let* (c, r) := take_code e bs in let* (b, r1) := read_var c 160 176 r in Ok (VBinary b, e, r1)
  else if (code =? 161) || (code =? 177) then
    let* (c, r) := take_code e bs in let* p := read_var c 161 177 r in
    let* (b, r1) := check_utf8 p in Ok (VString b, e, r1)
  else if (code =? 163) || (code =? 179) then
    let* (c, r) := take_code e bs in let* p := read_var c 163 179 r in
    let* (b, r1) := check_utf8 p in Ok (VSymbol b, e, r1)
  else if (code =? 69) || (code =? 192) || (code =? 208) then
    let* (l, e1, r) := dec_seq e bs in Ok (VList l, e1, r)
  else if (code =? 193) || (code =? 209) then
    let* (l, e1, r) := dec_map e bs in Ok (VMap l, e1, r)
  else if (code =? 224) || (code =? 240) then
    let* (l, e1, r) := dec_seq e bs in Ok (VArray l, e1, r)
  else Err EInvalidFormatCode.
End Body.

Fixpoint dec (fuel : nat) : dstate -> bytes -> result (value * dstate * bytes) :=
  match fuel with
  | O => fun _ _ => OutOfFuel
  | S f => dec_body (dec f)
  end.

(** [from_slice::<Value>]: a fresh deserializer; trailing bytes are left alone *)
Definition from_slice (fuel : nat) (bs : bytes) : result (value * bytes) :=
  let* (v, _, r) := dec fuel None bs in Ok (v, r).
