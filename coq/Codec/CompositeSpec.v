(** The composite types of the AMQP 1.0 specification (transport 2.7, messaging 3.2 / 3.4 / 3.5,
    transactions 4.5, security 5.3) as far as the library implements them with the
    list encoding: descriptor, fields in wire order, and for every field whether it is
    optional, mandatory, has a default (with the default value) or is `multiple`.
    Written by hand from the specification; [Tie_Composites] proves that the table
    regenerated from the struct definitions of this run is this one. *)
From Coq Require Import NArith List String.
From FV Require Import Base.Bytes Codec.Value Codec.Composite Gen.Composites.
Import ListNotations.
Open Scope N_scope.

Inductive skind := SOpt | SMand | SDflt (d : value) | SMulti.
Definition erase (k : skind) : gkind :=
  match k with SOpt => GOpt | SMand => GMand | SDflt _ => GDflt | SMulti => GMulti end.
Definition fkind_of (k : skind) : fkind :=
  match k with SOpt => FOpt | SMand => FMand | SDflt d => FDflt d | SMulti => FMulti end.

(* "session-end" *)
Definition SESSION_END : bytes := [115; 101; 115; 115; 105; 111; 110; 45; 101; 110; 100].

Definition spec_composites : list (string * string * N * list (string * skind)) :=
  [("Open"%string, "amqp:open:list"%string, 16,
     [("container-id"%string, SMand); ("hostname"%string, SOpt); ("max-frame-size"%string, SDflt (VUint 4294967295)); ("channel-max"%string, SDflt (VUshort 65535)); ("idle-time-out"%string, SOpt); ("outgoing-locales"%string, SMulti); ("incoming-locales"%string, SMulti); ("offered-capabilities"%string, SMulti); ("desired-capabilities"%string, SMulti); ("properties"%string, SOpt)]);
   ("Begin"%string, "amqp:begin:list"%string, 17,
     [("remote-channel"%string, SOpt); ("next-outgoing-id"%string, SMand); ("incoming-window"%string, SMand); ("outgoing-window"%string, SMand); ("handle-max"%string, SDflt (VUint 4294967295)); ("offered-capabilities"%string, SMulti); ("desired-capabilities"%string, SMulti); ("properties"%string, SOpt)]);
   ("Attach"%string, "amqp:attach:list"%string, 18,
     [("name"%string, SMand); ("handle"%string, SMand); ("role"%string, SMand); ("snd-settle-mode"%string, SDflt (VUbyte 2)); ("rcv-settle-mode"%string, SDflt (VUbyte 0)); ("source"%string, SOpt); ("target"%string, SOpt); ("unsettled"%string, SOpt); ("incomplete-unsettled"%string, SDflt (VBool false)); ("initial-delivery-count"%string, SOpt); ("max-message-size"%string, SOpt); ("offered-capabilities"%string, SMulti); ("desired-capabilities"%string, SMulti); ("properties"%string, SOpt)]);
   ("Flow"%string, "amqp:flow:list"%string, 19,
     [("next-incoming-id"%string, SOpt); ("incoming-window"%string, SMand); ("next-outgoing-id"%string, SMand); ("outgoing-window"%string, SMand); ("handle"%string, SOpt); ("delivery-count"%string, SOpt); ("link-credit"%string, SOpt); ("available"%string, SOpt); ("drain"%string, SDflt (VBool false)); ("echo"%string, SDflt (VBool false)); ("properties"%string, SOpt)]);
   ("Transfer"%string, "amqp:transfer:list"%string, 20,
     [("handle"%string, SMand); ("delivery-id"%string, SOpt); ("delivery-tag"%string, SOpt); ("message-format"%string, SOpt); ("settled"%string, SOpt); ("more"%string, SDflt (VBool false)); ("rcv-settle-mode"%string, SOpt); ("state"%string, SOpt); ("resume"%string, SDflt (VBool false)); ("aborted"%string, SDflt (VBool false)); ("batchable"%string, SDflt (VBool false))]);
   ("Disposition"%string, "amqp:disposition:list"%string, 21,
     [("role"%string, SMand); ("first"%string, SMand); ("last"%string, SOpt); ("settled"%string, SDflt (VBool false)); ("state"%string, SOpt); ("batchable"%string, SDflt (VBool false))]);
   ("Detach"%string, "amqp:detach:list"%string, 22,
     [("handle"%string, SMand); ("closed"%string, SDflt (VBool false)); ("error"%string, SOpt)]);
   ("End"%string, "amqp:end:list"%string, 23,
     [("error"%string, SOpt)]);
   ("Close"%string, "amqp:close:list"%string, 24,
     [("error"%string, SOpt)]);
   ("Error"%string, "amqp:error:list"%string, 29,
     [("condition"%string, SMand); ("description"%string, SOpt); ("info"%string, SOpt)]);
   ("Received"%string, "amqp:received:list"%string, 35,
     [("section-number"%string, SMand); ("section-offset"%string, SMand)]);
   ("Accepted"%string, "amqp:accepted:list"%string, 36,
     []);
   ("Rejected"%string, "amqp:rejected:list"%string, 37,
     [("error"%string, SOpt)]);
   ("Released"%string, "amqp:released:list"%string, 38,
     []);
   ("Modified"%string, "amqp:modified:list"%string, 39,
     [("delivery-failed"%string, SOpt); ("undeliverable-here"%string, SOpt); ("message-annotations"%string, SOpt)]);
   ("Source"%string, "amqp:source:list"%string, 40,
     [("address"%string, SOpt); ("durable"%string, SDflt (VUint 0)); ("expiry-policy"%string, SDflt (VSymbol SESSION_END)); ("timeout"%string, SDflt (VUint 0)); ("dynamic"%string, SDflt (VBool false)); ("dynamic-node-properties"%string, SOpt); ("distribution-mode"%string, SOpt); ("filter"%string, SOpt); ("default-outcome"%string, SOpt); ("outcomes"%string, SMulti); ("capabilities"%string, SMulti)]);
   ("Target"%string, "amqp:target:list"%string, 41,
     [("address"%string, SOpt); ("durable"%string, SDflt (VUint 0)); ("expiry-policy"%string, SDflt (VSymbol SESSION_END)); ("timeout"%string, SDflt (VUint 0)); ("dynamic"%string, SDflt (VBool false)); ("dynamic-node-properties"%string, SOpt); ("capabilities"%string, SMulti)]);
   ("DeleteOnClose"%string, "amqp:delete-on-close:list"%string, 43,
     []);
   ("DeleteOnNoLinks"%string, "amqp:delete-on-no-links:list"%string, 44,
     []);
   ("DeleteOnNoMessages"%string, "amqp:delete-on-no-messages:list"%string, 45,
     []);
   ("DeleteOnNoLinksOrMessages"%string, "amqp:delete-on-no-links-or-messages:list"%string, 46,
     []);
   ("Coordinator"%string, "amqp:coordinator:list"%string, 48,
     [("capabilities"%string, SMulti)]);
   ("Declare"%string, "amqp:declare:list"%string, 49,
     [("global-id"%string, SOpt)]);
   ("Discharge"%string, "amqp:discharge:list"%string, 50,
     [("txn-id"%string, SMand); ("fail"%string, SOpt)]);
   ("Declared"%string, "amqp:declared:list"%string, 51,
     [("txn-id"%string, SMand)]);
   ("TransactionalState"%string, "amqp:transactional-state:list"%string, 52,
     [("txn-id"%string, SMand); ("outcome"%string, SOpt)]);
   ("SaslInit"%string, "amqp:sasl-init:list"%string, 65,
     [("mechanism"%string, SMand); ("initial-response"%string, SOpt); ("hostname"%string, SOpt)]);
   ("SaslChallenge"%string, "amqp:sasl-challenge:list"%string, 66,
     [("challenge"%string, SMand)]);
   ("SaslResponse"%string, "amqp:sasl-response:list"%string, 67,
     [("response"%string, SMand)]);
   ("SaslOutcome"%string, "amqp:sasl-outcome:list"%string, 68,
     [("code"%string, SMand); ("additional-data"%string, SOpt)]);
   ("Header"%string, "amqp:header:list"%string, 112,
     [("durable"%string, SDflt (VBool false)); ("priority"%string, SDflt (VUbyte 4)); ("ttl"%string, SOpt); ("first-acquirer"%string, SDflt (VBool false)); ("delivery-count"%string, SDflt (VUint 0))]);
   ("Properties"%string, "amqp:properties:list"%string, 115,
     [("message-id"%string, SOpt); ("user-id"%string, SOpt); ("to"%string, SOpt); ("subject"%string, SOpt); ("reply-to"%string, SOpt); ("correlation-id"%string, SOpt); ("content-type"%string, SOpt); ("content-encoding"%string, SOpt); ("absolute-expiry-time"%string, SOpt); ("creation-time"%string, SOpt); ("group-id"%string, SOpt); ("group-sequence"%string, SOpt); ("reply-to-group-id"%string, SOpt)])].

Definition erase_row (r : string * string * N * list (string * skind)) : string * string * N * list (string * gkind) :=
  let '(n, d, c, fs) := r in (n, d, c, map (fun p => (fst p, erase (snd p))) fs).

Definition bytes_of_string (s : string) : bytes := map (fun a => N.of_nat (Ascii.nat_of_ascii a)) (list_ascii_of_string s).

Definition schema_of_row (r : string * string * N * list (string * skind)) : schema :=
  let '(_, d, c, fs) := r in {| s_name := bytes_of_string d; s_code := c; s_fields := map (fun p => fkind_of (snd p)) fs |}.

Definition spec_schemas : list schema := map schema_of_row spec_composites.

(** the wire names of the fields of the type with descriptor code [c] (what the oracle driver compares
    with the names the harness reads from the struct definitions) *)
Definition spec_field_names (c : N) : option (list bytes) :=
  match find (fun r => let '(_, _, c', _) := r in N.eqb c' c) spec_composites with
  | Some (_, _, _, fs) => Some (map (fun p => bytes_of_string (fst p)) fs)
  | None => None
  end.

(** the nine performatives (2.7): what [FrameBody] / [Performative] dispatches on *)
Definition performative_codes : list N := [16; 17; 18; 19; 20; 21; 22; 23; 24].

Definition code_in (l : list N) (s : schema) : bool := existsb (N.eqb (s_code s)) l.
Definition performative_schemas : list schema := filter (code_in performative_codes) spec_schemas.
(** delivery states (3.4 and 4.5.8 / 4.5.5): received, accepted, rejected, released, modified, declared, transactional-state *)
Definition delivery_state_codes : list N := [35; 36; 37; 38; 39; 51; 52].
Definition delivery_state_schemas : list schema := filter (code_in delivery_state_codes) spec_schemas.
