(** The AMQP value tree ([serde_amqp::Value]) and the well-formedness predicate
    (the AMQP type system plus the decoder's deliberate count cap). *)
From FV Require Import Base.Bytes.

Inductive descriptor := DName (s : bytes) | DCode (n : N).

(** Signed integers, floats, chars and timestamps are kept as their bit
    patterns (two's complement / IEEE bits): the codec moves bit patterns. *)
Inductive value :=
| VDescribed (d : descriptor) (v : value)
| VNull
| VBool (b : bool)
| VUbyte (n : N) | VUshort (n : N) | VUint (n : N) | VUlong (n : N)
| VByte (n : N) | VShort (n : N) | VInt (n : N) | VLong (n : N)
| VFloat (n : N) | VDouble (n : N)
| VDec32 (b : bytes) | VDec64 (b : bytes) | VDec128 (b : bytes)
| VChar (n : N) | VTimestamp (n : N) | VUuid (b : bytes)
| VBinary (b : bytes) | VString (b : bytes) | VSymbol (b : bytes)
| VList (l : list value)
| VMap (l : list (value * value))
| VArray (l : list value).

(** constructor tag, used for array homogeneity *)
Definition kind (v : value) : N :=
  match v with
  | VDescribed _ _ => 0 | VNull => 1 | VBool _ => 2 | VUbyte _ => 3 | VUshort _ => 4 | VUint _ => 5
  | VUlong _ => 6 | VByte _ => 7 | VShort _ => 8 | VInt _ => 9 | VLong _ => 10 | VFloat _ => 11
  | VDouble _ => 12 | VDec32 _ => 13 | VDec64 _ => 14 | VDec128 _ => 15 | VChar _ => 16
  | VTimestamp _ => 17 | VUuid _ => 18 | VBinary _ => 19 | VString _ => 20 | VSymbol _ => 21
  | VList _ => 22 | VMap _ => 23 | VArray _ => 24
  end.

(** element kinds for which the implementation's array layout is sound: scalars and
    variable-width types.  null / list / map / array / described elements are the
    known-finding class [array-of-null-compound-described]. *)
Definition array_elem_kind_ok (k : N) : bool :=
  negb ((k =? 0) || (k =? 1) || (k =? 22) || (k =? 23) || (k =? 24)).

Definition bytes_eqb (a b : bytes) : bool :=
  Nat.eqb (length a) (length b) && forallb (fun p => fst p =? snd p) (combine a b).
Definition descriptor_eqb (a b : descriptor) : bool :=
  match a, b with
  | DName x, DName y => bytes_eqb x y
  | DCode x, DCode y => x =? y
  | _, _ => false
  end.

(** structural equality, as [IndexMap] key comparison uses it *)
Fixpoint value_eqb (a b : value) {struct a} : bool :=
  let fix list_eqb (l1 l2 : list value) {struct l1} : bool :=
    match l1, l2 with
    | [], [] => true
    | x :: r1, y :: r2 => value_eqb x y && list_eqb r1 r2
    | _, _ => false
    end in
  let fix map_eqb (l1 l2 : list (value * value)) {struct l1} : bool :=
    match l1, l2 with
    | [], [] => true
    | (k1, v1) :: r1, (k2, v2) :: r2 => value_eqb k1 k2 && value_eqb v1 v2 && map_eqb r1 r2
    | _, _ => false
    end in
  match a, b with
  | VDescribed d1 v1, VDescribed d2 v2 => descriptor_eqb d1 d2 && value_eqb v1 v2
  | VNull, VNull => true
  | VBool x, VBool y => Bool.eqb x y
  | VUbyte x, VUbyte y | VUshort x, VUshort y | VUint x, VUint y | VUlong x, VUlong y
  | VByte x, VByte y | VShort x, VShort y | VInt x, VInt y | VLong x, VLong y
  | VFloat x, VFloat y | VDouble x, VDouble y | VChar x, VChar y | VTimestamp x, VTimestamp y => x =? y
  | VDec32 x, VDec32 y | VDec64 x, VDec64 y | VDec128 x, VDec128 y | VUuid x, VUuid y
  | VBinary x, VBinary y | VString x, VString y | VSymbol x, VSymbol y => bytes_eqb x y
  | VList l1, VList l2 => list_eqb l1 l2
  | VMap l1, VMap l2 => map_eqb l1 l2
  | VArray l1, VArray l2 => list_eqb l1 l2
  | _, _ => false
  end.

(** [IndexMap::insert] over an association list: a repeated key keeps its
    first position and takes the new value *)
Fixpoint omap_insert (k v : value) (m : list (value * value)) : list (value * value) :=
  match m with
  | [] => [(k, v)]
  | (k', v') :: r => if value_eqb k k' then (k', v) :: r else (k', v') :: omap_insert k v r
  end.

Definition key_fresh (k : value) (m : list (value * value)) : bool :=
  negb (existsb (fun p => value_eqb k (fst p)) m).

Definition U8MAX1 : N := 254.
Definition U32MAX4 : N := 4294967291.
Definition MAXCOUNT : N := 65536.

Definition len_ok (b : bytes) : bool := bytes_okb b && (lenN b <=? U32MAX4).

Definition wf_descriptor (d : descriptor) : bool :=
  match d with
  | DName s => len_ok s && utf8_valid s
  | DCode n => n <? 18446744073709551616
  end.

Fixpoint keys_fresh (acc : list (value * value)) (l : list (value * value)) : bool :=
  match l with
  | [] => true
  | (k, v) :: r => key_fresh k acc && keys_fresh (acc ++ [(k, v)]) r
  end.

(** well-formedness: ranges, UTF-8, fixed widths, homogeneous arrays of supported
    element kinds, distinct map keys, counts within the decoder's cap.  The
    total-size bound (2^32-5 bytes per compound) is checked by the encoder itself
    ([enc] returns an error beyond it). *)
Fixpoint wf (v : value) : bool :=
  match v with
  | VDescribed d x => wf_descriptor d && wf x
  | VNull | VBool _ => true
  | VUbyte n | VByte n => n <? 256
  | VUshort n | VShort n => n <? 65536
  | VUint n | VInt n | VFloat n => n <? 4294967296
  | VUlong n | VLong n | VDouble n | VTimestamp n => n <? 18446744073709551616
  | VDec32 b => bytes_okb b && (lenN b =? 4)
  | VDec64 b => bytes_okb b && (lenN b =? 8)
  | VDec128 b | VUuid b => bytes_okb b && (lenN b =? 16)
  | VChar n => is_scalar n
  | VBinary b => len_ok b
  | VString b | VSymbol b => len_ok b && utf8_valid b
  | VList l => forallb wf l && (lenN l <=? MAXCOUNT)
  | VMap l => forallb (fun p => wf (fst p) && wf (snd p)) l && keys_fresh [] l && (2 * lenN l <=? MAXCOUNT)
  | VArray l =>
      forallb wf l && (lenN l <=? MAXCOUNT) &&
      match l with
      | [] => true
      | x :: r => array_elem_kind_ok (kind x) && forallb (fun y => kind y =? kind x) r
      end
  end.

Fixpoint depth (v : value) : nat :=
  match v with
  | VDescribed _ x => S (depth x)
  | VList l => S (fold_right (fun x m => Nat.max (depth x) m) 0%nat l)
  | VArray l => S (fold_right (fun x m => Nat.max (depth x) m) 0%nat l)
  | VMap l => S (fold_right (fun p m => Nat.max (Nat.max (depth (fst p)) (depth (snd p))) m) 0%nat l)
  | _ => 1%nat
  end.
