(** Reference decoder written from the AMQP 1.0 specification (part 1: types),
    independently of the implementation: it accepts every encoding variant the
    specification permits and nothing else.  In particular it checks what the
    implementation's decoder does not: that every size field counts exactly the
    bytes that follow it (count field included), that a compound's body holds
    exactly [count] values, that a map count is even and that an array has ONE
    element constructor followed by [count] data encodings.

    Liberal readings (so that the check never demands more than the property
    states): an array with count 0 may omit the element constructor; symbols
    may be any UTF-8 (the implementation stores them in a [String]). *)
From FV Require Import Base.Bytes Codec.Value.
From Coq Require Import String.
Open Scope N_scope.

(** format codes, by name, from the specification's type tables *)
Definition spec_code_table : list (string * N) :=
  [("DescribedType", 0); ("Null", 64); ("Boolean", 86); ("BooleanTrue", 65); ("BooleanFalse", 66);
   ("Ubyte", 80); ("Ushort", 96); ("Uint", 112); ("SmallUint", 82); ("Uint0", 67);
   ("Ulong", 128); ("SmallUlong", 83); ("Ulong0", 68); ("Byte", 81); ("Short", 97);
   ("Int", 113); ("SmallInt", 84); ("Long", 129); ("SmallLong", 85); ("Float", 114);
   ("Double", 130); ("Decimal32", 116); ("Decimal64", 132); ("Decimal128", 148); ("Char", 115);
   ("Timestamp", 131); ("Uuid", 152); ("Vbin8", 160); ("Vbin32", 176); ("Str8", 161);
   ("Str32", 177); ("Sym8", 163); ("Sym32", 179); ("List0", 69); ("List8", 192);
   ("List32", 208); ("Map8", 193); ("Map32", 209); ("Array8", 224); ("Array32", 240)]%string.

Definition stake (k : N) (bs : bytes) : option (bytes * bytes) :=
  if lenN bs <? k then None else take_n (N.to_nat k) bs.
Definition sbe (k : nat) (bs : bytes) : option (N * bytes) :=
  match take_n k bs with Some (h, t) => Some (from_be h, t) | None => None end.
Definition sext (w : N) (b : N) : N := if b <? 128 then b else 2 ^ w - 256 + b.

Section SpecBody.
(** decode one complete value (constructor + data) *)
Variable value_dec : bytes -> option (value * bytes).
(** decode the data of one value whose primitive constructor is [code] *)
Variable data_dec : N -> bytes -> option (value * bytes).

(** exactly [count] values filling [body] exactly *)
Fixpoint values_exact (count : nat) (body : bytes) : option (list value) :=
  match count with
  | O => match body with [] => Some [] | _ => None end
  | S c => match value_dec body with
           | Some (v, r) => match values_exact c r with Some l => Some (v :: l) | None => None end
           | None => None
           end
  end.
Fixpoint pairs_exact (count : nat) (body : bytes) : option (list (value * value)) :=
  match count with
  | O => match body with [] => Some [] | _ => None end
  | S c => match value_dec body with
           | Some (k, r) =>
               match value_dec r with
               | Some (v, r') => match pairs_exact c r' with Some l => Some ((k, v) :: l) | None => None end
               | None => None
               end
           | None => None
           end
  end.
(** exactly [count] data encodings for constructor [code] filling [body] exactly *)
Fixpoint datas_exact (code : N) (count : nat) (body : bytes) : option (list value) :=
  match count with
  | O => match body with [] => Some [] | _ => None end
  | S c => match data_dec code body with
           | Some (v, r) => match datas_exact code c r with Some l => Some (v :: l) | None => None end
           | None => None
           end
  end.

(** the data part for each primitive constructor *)
Definition spec_data (code : N) (bs : bytes) : option (value * bytes) :=
  let fixed (k : nat) (mk : N -> value) :=
    match sbe k bs with Some (n, r) => Some (mk n, r) | None => None end in
  let raw (k : N) (mk : bytes -> value) :=
    match stake k bs with Some (h, r) => Some (mk h, r) | None => None end in
  let var (w : nat) (mk : bytes -> option value) :=
    match sbe w bs with
    | Some (len, r) => match stake len r with
                       | Some (h, r') => match mk h with Some v => Some (v, r') | None => None end
                       | None => None end
    | None => None end in
  let text (mk : bytes -> value) (h : bytes) := if utf8_valid h then Some (mk h) else None in
  let compound (w : nat) (k : bytes -> N -> bytes -> option value) :=
    (* size counts the count field and the body *)
    match sbe w bs with
    | Some (size, r) =>
        match stake size r with
        | Some (inner, r') =>
            match sbe w inner with
            | Some (count, body) => match k inner count body with Some v => Some (v, r') | None => None end
            | None => None end
        | None => None end
    | None => None end in
  let listk (_ : bytes) (count : N) (body : bytes) :=
    if MAXCOUNT <? count then None
    else match values_exact (N.to_nat count) body with Some l => Some (VList l) | None => None end in
  let mapk (_ : bytes) (count : N) (body : bytes) :=
    if MAXCOUNT <? count then None
    else if negb (count mod 2 =? 0) then None
    else match pairs_exact (N.to_nat (count / 2)) body with Some l => Some (VMap l) | None => None end in
  let arrayk (_ : bytes) (count : N) (body : bytes) :=
    if MAXCOUNT <? count then None
    else match body with
         | [] => if count =? 0 then Some (VArray []) else None
         | ec :: elems =>
             if ec =? 0 then None     (* arrays of described values: not produced or accepted here *)
             else match datas_exact ec (N.to_nat count) elems with Some l => Some (VArray l) | None => None end
         end in
  if code =? 64 then Some (VNull, bs)
  else if code =? 65 then Some (VBool true, bs)
  else if code =? 66 then Some (VBool false, bs)
  else if code =? 86 then
    match bs with 0 :: r => Some (VBool false, r) | 1 :: r => Some (VBool true, r) | _ => None end
  else if code =? 80 then fixed 1%nat VUbyte
  else if code =? 96 then fixed 2%nat VUshort
  else if code =? 112 then fixed 4%nat VUint
  else if code =? 82 then fixed 1%nat VUint
  else if code =? 67 then Some (VUint 0, bs)
  else if code =? 128 then fixed 8%nat VUlong
  else if code =? 83 then fixed 1%nat VUlong
  else if code =? 68 then Some (VUlong 0, bs)
  else if code =? 81 then fixed 1%nat VByte
  else if code =? 97 then fixed 2%nat VShort
  else if code =? 113 then fixed 4%nat VInt
  else if code =? 84 then fixed 1%nat (fun b => VInt (sext 32 b))
  else if code =? 129 then fixed 8%nat VLong
  else if code =? 85 then fixed 1%nat (fun b => VLong (sext 64 b))
  else if code =? 114 then fixed 4%nat VFloat
  else if code =? 130 then fixed 8%nat VDouble
  else if code =? 116 then raw 4 VDec32
  else if code =? 132 then raw 8 VDec64
  else if code =? 148 then raw 16 VDec128
  else if code =? 115 then
    match sbe 4 bs with Some (n, r) => if is_scalar n then Some (VChar n, r) else None | None => None end
  else if code =? 131 then fixed 8%nat VTimestamp
  else if code =? 152 then raw 16 VUuid
  else if code =? 160 then var 1%nat (fun h => Some (VBinary h))
  else if code =? 176 then var 4%nat (fun h => Some (VBinary h))
  else if code =? 161 then var 1%nat (text VString)
  else if code =? 177 then var 4%nat (text VString)
  else if code =? 163 then var 1%nat (text VSymbol)
  else if code =? 179 then var 4%nat (text VSymbol)
  else if code =? 69 then Some (VList [], bs)
  else if code =? 192 then compound 1%nat listk
  else if code =? 208 then compound 4%nat listk
  else if code =? 193 then compound 1%nat mapk
  else if code =? 209 then compound 4%nat mapk
  else if code =? 224 then compound 1%nat arrayk
  else if code =? 240 then compound 4%nat arrayk
  else None.

(** constructor: a format code, or 0x00 descriptor-value followed by a value *)
Definition spec_value (bs : bytes) : option (value * bytes) :=
  match bs with
  | [] => None
  | c :: r =>
      if c =? 0 then
        match r with
        | [] => None
        | dc :: dr =>
            (* the descriptor is a symbol or an unsigned long, in any width *)
            let desc :=
              if (dc =? 163) || (dc =? 179) || (dc =? 128) || (dc =? 83) || (dc =? 68) then data_dec dc dr else None in
            match desc with
            | Some (VSymbol s, r1) =>
                match value_dec r1 with Some (v, r2) => Some (VDescribed (DName s) v, r2) | None => None end
            | Some (VUlong n, r1) =>
                match value_dec r1 with Some (v, r2) => Some (VDescribed (DCode n) v, r2) | None => None end
            | _ => None
            end
        end
      else data_dec c r
  end.
End SpecBody.

(** tie the knot with fuel (nesting depth) *)
Fixpoint spec_dec (fuel : nat) : bytes -> option (value * bytes) :=
  match fuel with
  | O => fun _ => None
  | S f => spec_value (spec_dec f) (spec_data (spec_dec f) (fun code bs => spec_data_inner f code bs))
  end
with spec_data_inner (fuel : nat) (code : N) (bs : bytes) : option (value * bytes) :=
  match fuel with
  | O => None
  | S f => spec_data (spec_dec f) (fun c b => spec_data_inner f c b) code bs
  end.

(** the whole byte string is one valid encoding of [v] *)
Definition spec_valid (fuel : nat) (bs : bytes) : option value :=
  match spec_dec fuel bs with Some (v, []) => Some v | _ => None end.
