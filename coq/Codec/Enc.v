(** Model of the value encoder: [impl Serialize for Value] driving
    [serde_amqp::ser::Serializer] (ser.rs), after the repairs ef816f4 (string
    length in arrays), 1899127 (timestamp marker), 375681b (sequence type).
    One function per serializer method; [ctx] is [IsArrayElement].
    Each list/array element and each map key/value is written by a fresh
    serializer in the code, so no mode flag survives between two values. *)
From FV Require Import Base.Bytes Codec.Value.

Inductive ctx := Plain | First | Other.     (* IsArrayElement::{False, FirstElement, OtherElement} *)

Definition with_code (c : ctx) (code : N) (body : bytes) : bytes :=
  match c with Plain | First => code :: body | Other => body end.

Definition enc_bool (c : ctx) (b : bool) : bytes :=
  match c with
  | Plain => [if b then 65 else 66]
  | First => [86; if b then 1 else 0]
  | Other => [if b then 1 else 0]
  end.

Definition enc_uint (c : ctx) (n : N) : bytes :=
  match c with
  | Plain => if n =? 0 then [67] else if n <=? 255 then [82; n] else 112 :: to_be 4 n
  | First => 112 :: to_be 4 n
  | Other => to_be 4 n
  end.
Definition enc_ulong (c : ctx) (n : N) : bytes :=
  match c with
  | Plain => if n =? 0 then [68] else if n <=? 255 then [83; n] else 128 :: to_be 8 n
  | First => 128 :: to_be 8 n
  | Other => to_be 8 n
  end.
(** i32 / i64 as bit patterns: -128..=127 is bits < 128 or bits >= 2^w - 128 *)
Definition small_signed (w : N) (bits : N) : bool := (bits <? 128) || (2 ^ w - 128 <=? bits).
Definition enc_int (c : ctx) (bits : N) : bytes :=
  match c with
  | Plain => if small_signed 32 bits then [84; bits mod 256] else 113 :: to_be 4 bits
  | First => 113 :: to_be 4 bits
  | Other => to_be 4 bits
  end.
Definition enc_long (c : ctx) (bits : N) : bytes :=
  match c with
  | Plain => if small_signed 64 bits then [85; bits mod 256] else 129 :: to_be 8 bits
  | First => 129 :: to_be 8 bits
  | Other => to_be 8 bits
  end.

(** variable-width: vbin / str / sym share the shape; [c8]/[c32] are the codes *)
Definition enc_var (c : ctx) (c8 c32 : N) (b : bytes) : option bytes :=
  let l := lenN b in
  match c with
  | Plain => if l <=? U8MAX1 then Some (c8 :: l :: b)
             else if l <=? U32MAX4 then Some (c32 :: to_be 4 l ++ b)
             else None
  | First => Some (c32 :: to_be 4 (l mod 4294967296) ++ b)
  | Other => Some (to_be 4 (l mod 4294967296) ++ b)
  end.

(** [write_list] / [write_map] / [write_array]: [num] is truncated by `as u8` / `as u32` *)
Definition write_list (c : ctx) (num : N) (buf : bytes) : option bytes :=
  let len := lenN buf in
  if len =? 0 then Some [69]
  else if len <=? U8MAX1 then Some (with_code c 192 ((len + 1) :: (num mod 256) :: buf))
  else if len <=? U32MAX4 then Some (with_code c 208 (to_be 4 (len + 4) ++ to_be 4 (num mod 4294967296) ++ buf))
  else None.
Definition write_map (c : ctx) (num : N) (buf : bytes) : option bytes :=
  let len := lenN buf in
  if len <=? U8MAX1 then Some (with_code c 193 ((len + 1) :: (num mod 256) :: buf))
  else if len <=? U32MAX4 then Some (with_code c 209 (to_be 4 (len + 4) ++ to_be 4 (num mod 4294967296) ++ buf))
  else None.
Definition write_array (c : ctx) (num : N) (buf : bytes) : option bytes :=
  let len := lenN buf in
  if len <=? U8MAX1 then Some (with_code c 224 ((len + 1) :: (num mod 256) :: buf))
  else if len <=? U32MAX4 then Some (with_code c 240 (to_be 4 (len + 4) ++ to_be 4 (num mod 4294967296) ++ buf))
  else None.

Fixpoint cat_opt (l : list (option bytes)) : option bytes :=
  match l with
  | [] => Some []
  | None :: _ => None
  | Some b :: r => match cat_opt r with Some t => Some (b ++ t) | None => None end
  end.

Definition opt_app (a : option bytes) (b : option bytes) : option bytes :=
  match a, b with Some x, Some y => Some (x ++ y) | _, _ => None end.

Definition enc_descriptor (c : ctx) (d : descriptor) : option bytes :=
  match d with
  | DName s => enc_var c 163 179 s
  | DCode n => Some (enc_ulong c n)
  end.

Fixpoint enc (c : ctx) (v : value) {struct v} : option bytes :=
  match v with
  | VDescribed d x => opt_app (Some [0]) (opt_app (enc_descriptor c d) (enc c x))
  | VNull => Some [64]                                   (* serialize_unit ignores the position *)
  | VBool b => Some (enc_bool c b)
  | VUbyte n => Some (with_code c 80 [n])
  | VUshort n => Some (with_code c 96 (to_be 2 n))
  | VUint n => Some (enc_uint c n)
  | VUlong n => Some (enc_ulong c n)
  | VByte n => Some (with_code c 81 [n])
  | VShort n => Some (with_code c 97 (to_be 2 n))
  | VInt n => Some (enc_int c n)
  | VLong n => Some (enc_long c n)
  | VFloat n => Some (with_code c 114 (to_be 4 n))
  | VDouble n => Some (with_code c 130 (to_be 8 n))
  | VDec32 b => Some (with_code c 116 b)
  | VDec64 b => Some (with_code c 132 b)
  | VDec128 b => Some (with_code c 148 b)
  | VChar n => Some (with_code c 115 (to_be 4 n))
  | VTimestamp n => Some (with_code c 131 (to_be 8 n))
  | VUuid b => Some (with_code c 152 b)
  | VBinary b => enc_var c 160 176 b
  | VString b => enc_var c 161 177 b
  | VSymbol b => enc_var c 163 179 b
  | VList l =>
      match cat_opt (map (enc Plain) l) with
      | Some buf => write_list c (lenN l) buf
      | None => None end
  | VMap l =>
      match cat_opt (map (fun p => opt_app (enc Plain (fst p)) (enc Plain (snd p))) l) with
      | Some buf => write_map c (2 * lenN l) buf
      | None => None end
  | VArray l =>
      match l with
      | [] => write_array c 0 []
      | x :: r =>
          match cat_opt (enc First x :: map (enc Other) r) with
          | Some buf => write_array c (lenN l) buf
          | None => None end
      end
  end.

(** [to_vec] *)
Definition enc_bytes (v : value) : option bytes := enc Plain v.
