(** Model of the message codec at the level of sections: [impl Serialize for Message<B>] and the
    visitor of [Message<B>::deserialize] (fe2o3-amqp-types/src/messaging/message/mod.rs), with the
    body as [Body<Value>] (body.rs) whose data / amqp-sequence batches are read by
    [TransparentVecAccess] (serde_amqp/src/de.rs).

    A message is the concatenation of its sections, each a described value: header (0x70),
    delivery-annotations (0x71), message-annotations (0x72), properties (0x73),
    application-properties (0x74), the body - one or more data sections (0x75), one or more
    amqp-sequence sections (0x76) or a single amqp-value section (0x77) - and the footer (0x78).

    serializer: the sections that are there, in that order.
    deserializer: at most seven rounds; each round peeks at the descriptor of the next section
    (by code or by name) to learn what it is, then reads it: a later section of a kind replaces an
    earlier one; a data / amqp-sequence body takes all the directly following sections that carry
    the SAME descriptor (same form, same value); the end of the input ends the message; a body that
    never came is the empty body.

    Sections are kept as values (each section is decoded by the value decoder: the typed section
    decoders agree with it on type-correct input, which is what the `msg` correspondence exercises). *)
From FV Require Import Base.Bytes Codec.Value Codec.Enc Codec.Dec.

Record msg := mkMsg {
  m_header : option value; m_da : option value; m_ma : option value; m_props : option value;
  m_ap : option value; m_body : list value; m_footer : option value
}.
Definition empty_msg : msg := mkMsg None None None None None [] None.

Definition opt_list {A} (o : option A) : list A := match o with Some x => [x] | None => [] end.
(** [impl Serialize for Body<T>]: the empty body is written as an amqp-value section holding null (the core
    specification asks for at least one body section); on the wire it cannot be told from that value *)
Definition body_sections (l : list value) : list value :=
  match l with [] => [VDescribed (DCode 119) VNull] | _ => l end.
Definition sections_of (m : msg) : list value :=
  opt_list (m_header m) ++ opt_list (m_da m) ++ opt_list (m_ma m) ++ opt_list (m_props m) ++
  opt_list (m_ap m) ++ body_sections (m_body m) ++ opt_list (m_footer m).

Definition enc_message (m : msg) : option bytes :=
  match cat_opt (map (enc Plain) (sections_of m)) with Some b => Some b | None => None end.

Inductive sclass := SHeader | SDA | SMA | SProps | SAP | SBody | SFooter.
Definition class_of_code (c : N) : option sclass :=
  if c =? 112 then Some SHeader else if c =? 113 then Some SDA else if c =? 114 then Some SMA
  else if c =? 115 then Some SProps else if c =? 116 then Some SAP
  else if (117 <=? c) && (c <=? 119) then Some SBody
  else if c =? 120 then Some SFooter else None.

(* the descriptor names of the sections, as ASCII *)
Definition N_header : bytes := [97;109;113;112;58;104;101;97;100;101;114;58;108;105;115;116].
Definition N_da : bytes := [97;109;113;112;58;100;101;108;105;118;101;114;121;45;97;110;110;111;116;97;116;105;111;110;115;58;109;97;112].
Definition N_ma : bytes := [97;109;113;112;58;109;101;115;115;97;103;101;45;97;110;110;111;116;97;116;105;111;110;115;58;109;97;112].
Definition N_props : bytes := [97;109;113;112;58;112;114;111;112;101;114;116;105;101;115;58;108;105;115;116].
Definition N_ap : bytes := [97;109;113;112;58;97;112;112;108;105;99;97;116;105;111;110;45;112;114;111;112;101;114;116;105;101;115;58;109;97;112].
Definition N_data : bytes := [97;109;113;112;58;100;97;116;97;58;98;105;110;97;114;121].
Definition N_seq : bytes := [97;109;113;112;58;97;109;113;112;45;115;101;113;117;101;110;99;101;58;108;105;115;116].
Definition N_value : bytes := [97;109;113;112;58;97;109;113;112;45;118;97;108;117;101;58;42].
Definition N_footer : bytes := [97;109;113;112;58;102;111;111;116;101;114;58;109;97;112].

Definition code_of_descriptor (d : descriptor) : option N :=
  match d with
  | DCode c => Some c
  | DName n =>
      if bytes_eqb n N_header then Some 112 else if bytes_eqb n N_da then Some 113
      else if bytes_eqb n N_ma then Some 114 else if bytes_eqb n N_props then Some 115
      else if bytes_eqb n N_ap then Some 116 else if bytes_eqb n N_data then Some 117
      else if bytes_eqb n N_seq then Some 118 else if bytes_eqb n N_value then Some 119
      else if bytes_eqb n N_footer then Some 120 else None
  end.

Definition set_section (k : sclass) (v : value) (m : msg) : msg :=
  match k with
  | SHeader => mkMsg (Some v) (m_da m) (m_ma m) (m_props m) (m_ap m) (m_body m) (m_footer m)
  | SDA => mkMsg (m_header m) (Some v) (m_ma m) (m_props m) (m_ap m) (m_body m) (m_footer m)
  | SMA => mkMsg (m_header m) (m_da m) (Some v) (m_props m) (m_ap m) (m_body m) (m_footer m)
  | SProps => mkMsg (m_header m) (m_da m) (m_ma m) (Some v) (m_ap m) (m_body m) (m_footer m)
  | SAP => mkMsg (m_header m) (m_da m) (m_ma m) (m_props m) (Some v) (m_body m) (m_footer m)
  | SBody => mkMsg (m_header m) (m_da m) (m_ma m) (m_props m) (m_ap m) [v] (m_footer m)
  | SFooter => mkMsg (m_header m) (m_da m) (m_ma m) (m_props m) (m_ap m) (m_body m) (Some v)
  end.
Definition set_body (vs : list value) (m : msg) : msg :=
  mkMsg (m_header m) (m_da m) (m_ma m) (m_props m) (m_ap m) vs (m_footer m).

(** [TransparentVecAccess]: the following sections that carry the very descriptor [d0] *)
Fixpoint batch (n : nat) (fuel : nat) (d0 : descriptor) (bs : bytes) (acc : list value) : result (list value * bytes) :=
  match n with
  | O => Ok (rev acc, bs)
  | S n' =>
      match bs with
      | [] => Ok (rev acc, bs)
      | b :: _ =>
          if negb (known_code b) then Err EInvalidFormatCode
          else if b =? 0 then
            let* (d, _) := dec_descriptor None bs in
            if descriptor_eqb d d0 then
              let* (v, _, r) := dec fuel None bs in batch n' fuel d0 r (v :: acc)
            else Ok (rev acc, bs)
          else Ok (rev acc, bs)
      end
  end.

Fixpoint msg_loop (count : nat) (fuel : nat) (m : msg) (bs : bytes) : result msg :=
  match count with
  | O => Ok m
  | S c =>
      match bs with
      | [] => Ok m
      | _ :: _ =>
          let* (d, _) := dec_descriptor None bs in                 (* peeked *)
          match code_of_descriptor d with
          | None => Err EOther                                      (* "Unknown identifier" *)
          | Some code =>
              match class_of_code code with
              | None => Err EOther
              | Some SBody =>
                  if code =? 119 then
                    let* (v, _, r) := dec fuel None bs in msg_loop c fuel (set_body [v] m) r
                  else
                    let* (vs, r) := batch (S (length bs)) fuel d bs [] in msg_loop c fuel (set_body vs m) r
              | Some k =>
                  let* (v, _, r) := dec fuel None bs in msg_loop c fuel (set_section k v m) r
              end
          end
      end
  end.

Definition dec_message (fuel : nat) (bs : bytes) : result msg := msg_loop 7 fuel empty_msg bs.

(** ** what the theorems ask of a message *)
Definition section_with (c : N) (v : value) : bool :=
  match v with VDescribed (DCode c') _ => (c' =? c) && wf v | _ => false end.
Definition opt_section (c : N) (o : option value) : bool :=
  match o with Some v => section_with c v | None => true end.
Definition body_ok (l : list value) : bool :=
  match l with
  | [] => false                     (* the empty body does not round-trip: known finding c03-typed-roundtrip-message-body-empty *)
  | [v] => section_with 117 v || section_with 118 v || section_with 119 v
  | _ => forallb (section_with 117) l || forallb (section_with 118) l
  end.
Definition msg_ok (m : msg) : bool :=
  opt_section 112 (m_header m) && opt_section 113 (m_da m) && opt_section 114 (m_ma m) &&
  opt_section 115 (m_props m) && opt_section 116 (m_ap m) && body_ok (m_body m) && opt_section 120 (m_footer m).
