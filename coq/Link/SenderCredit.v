(** Model of the sender side of link flow control
    (fe2o3-amqp/src/link/state.rs): [LinkFlowState<SenderMarker>::on_incoming_flow]
    (after the serial-arithmetic repair) and [consume_link_credit].  No proofs here. *)
From FV Require Import Base.Serial.

Record lstate := mkL {
  l_init_dc : N;      (* initial_delivery_count *)
  l_dc : N;           (* delivery_count *)
  l_credit : N;       (* link_credit *)
  l_avail : N;        (* available *)
  l_drain : bool
}.

(** the link part of a flow frame *)
Record lflow := mkLF {
  lf_dc : option N; lf_credit : option N; lf_avail : option N;
  lf_drain : bool; lf_echo : bool }.

(** [LinkFlowStateInner::as_link_flow] (echo = false, no properties) *)
Definition as_link_flow (s : lstate) : lflow :=
  mkLF (Some (l_dc s)) (Some (l_credit s)) (Some (l_avail s)) (l_drain s) false.

(** sender [on_incoming_flow] *)
Definition snd_on_incoming_flow (s : lstate) (f : lflow) : lstate * option lflow :=
  let dc_rcv := match lf_dc f with Some d => d | None => l_init_dc s end in
  let credit1 := match lf_credit f with
                 | Some lc => sat_sub lc (wsub (l_dc s) dc_rcv)
                 | None => l_credit s end in
  let s1 := mkL (l_init_dc s) (l_dc s) credit1 (l_avail s) (lf_drain f) in
  if lf_drain f then
    let s2 := mkL (l_init_dc s1) (wadd (l_dc s1) (l_credit s1)) 0 (l_avail s1) (l_drain s1) in
    (s2, Some (as_link_flow s2))
  else if lf_echo f then (s1, Some (as_link_flow s1))
  else (s1, None).

(** [consume_link_credit]: [None] = insufficient credit (the caller waits),
    [Some tag] = the delivery-count used as the delivery tag *)
Definition consume_link_credit (s : lstate) (count : N) : lstate * option N :=
  if l_credit s <? count then (s, None)
  else (mkL (l_init_dc s) (wadd (l_dc s) count) (sat_sub (l_credit s) count) (l_avail s) (l_drain s),
        Some (l_dc s)).

Inductive lev := LFlow (f : lflow) | LSend.     (* a send attempt takes one credit *)
Inductive lout := OFlow (r : option lflow) | OSent (tag : N) | OWait.

Definition lstep (s : lstate) (e : lev) : lstate * lout :=
  match e with
  | LFlow f => let '(s', r) := snd_on_incoming_flow s f in (s', OFlow r)
  | LSend => match consume_link_credit s 1 with
             | (s', Some t) => (s', OSent t)
             | (s', None) => (s', OWait)
             end
  end.

Fixpoint lrun (s : lstate) (evs : list lev) : lstate * list lout :=
  match evs with
  | [] => (s, [])
  | e :: r => let '(s1, o) := lstep s e in let '(s2, os) := lrun s1 r in (s2, o :: os)
  end.

Definition linit (init_dc : N) : lstate := mkL init_dc init_dc 0 0 false.
