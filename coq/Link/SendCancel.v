(** C16 (sending side): the sending link's [send] call at the granularity of its await points, with the
    point at which the call's future is dropped.

    Code modelled: fe2o3-amqp/src/link/sender_link.rs [send_payload] = [get_delivery_tag_or_detached] (takes one
    credit: delivery-count + 1, link-credit - 1, the tag is the old delivery-count) followed by
    [send_transfer_without_modifying_unsettled_map] (queues the message to the session's channel as ONE transfer,
    or - when the peer's max-message-size is set and smaller than the message - as several transfers of that
    size, all but the last with more=true), followed by the wait for the outcome.  Every one of these steps is an
    await point; dropping the future after [k] completed steps leaves exactly the effects of those [k] steps.

    What the model abstracts away: WHY a step is pending (no credit yet, the session's channel full) - the
    harness decides at which step each real call was dropped from what reached the wire ([txcm] cases). *)
From Coq Require Import List NArith Bool Lia.
Import ListNotations.
Open Scope N_scope.

Record frame := mkF { f_tag : N; f_msg : N; f_idx : nat; f_more : bool }.

Record lstate := mkL { credit : N; dcount : N; wire : list frame }.

(** a call: message id, number of link-level transfers it is cut into (>= 1), and the number of completed
    steps after which the future was dropped ([None]: never dropped) *)
Record call := mkC { c_msg : N; c_pieces : nat; c_drop : option nat }.

Inductive ev := Call (c : call) | Grant (n : N).

(** the frames of one delivery: [n] pieces, all but the last with more=true *)
Fixpoint pieces_from (tag msg : N) (i n : nat) : list frame :=
  match n with
  | O => []
  | S n' => mkF tag msg i (negb (Nat.eqb n' 0)) :: pieces_from tag msg (S i) n'
  end.
Definition delivery (tag msg : N) (n : nat) : list frame := pieces_from tag msg 0 n.

(** how many pieces a call dropped after [k] steps has queued: step 1 is the credit, steps 2.. the pieces *)
Definition queued (n : nat) (drop : option nat) : nat :=
  match drop with
  | None => n
  | Some k => Nat.min (k - 1) n
  end.

Definition takes_credit (drop : option nat) : bool :=
  match drop with Some O => false | _ => true end.

(** one call; [None] = the call is never dropped and there is no credit: it blocks (the script ends there) *)
Definition do_call (s : lstate) (c : call) : option lstate :=
  if negb (takes_credit (c_drop c)) then Some s
  else if credit s =? 0 then
    match c_drop c with
    | None => None                          (* waits for credit for ever *)
    | Some _ => Some s                      (* dropped while waiting for credit *)
    end
  else
    Some (mkL (credit s - 1) (dcount s + 1)
              (wire s ++ firstn (queued (c_pieces c) (c_drop c)) (delivery (dcount s) (c_msg c) (c_pieces c)))).

Definition step (s : lstate) (e : ev) : option lstate :=
  match e with
  | Call c => do_call s c
  | Grant n => Some (mkL (credit s + n) (dcount s) (wire s))
  end.

Fixpoint run (s : lstate) (es : list ev) : lstate :=
  match es with
  | [] => s
  | e :: r => match step s e with Some s' => run s' r | None => s end
  end.

Definition init (dc : N) : lstate := mkL 0 dc [].

(** a frame sequence is a sequence of whole deliveries: every delivery's pieces are together, the last one
    closes it (more=false), and tags strictly increase *)
Fixpoint whole_from (expect : option (N * nat)) (fs : list frame) : bool :=
  match fs with
  | [] => match expect with None => true | Some _ => false end
  | f :: r =>
      match expect with
      | None => Nat.eqb (f_idx f) 0 && whole_from (if f_more f then Some (f_tag f, 1%nat) else None) r
      | Some (t, i) => (f_tag f =? t) && Nat.eqb (f_idx f) i && whole_from (if f_more f then Some (t, S i) else None) r
      end
  end.
Definition whole (fs : list frame) : bool := whole_from None fs.
