(** Model of a receiver link's lifecycle (attach / recv / detach / close / drop /
    cancellation) against a protocol-abiding peer that plays the sender, on a
    session that stays mapped until the link itself brings it down:
    link/receiver.rs [attach], [recv] / [recv_inner] (the [Detach] arm),
    [detach], [close], [Drop for ReceiverInner]; link/shared_inner.rs
    [detach_with_error], [close_with_error], [reattach_and_then_close],
    [recv_remote_detach]; link/mod.rs [send_detach], [on_incoming_detach],
    [LinkRelay::on_incoming_transfer]; session/engine.rs (a transfer for a link
    whose handle was dropped).  The receiver is attached with credit mode
    Auto(2) and auto-accept, so that every delivery handed to the application
    writes a disposition and a flow; the attach has been written (state
    [RAttSent]).

    The link looks at what the peer sent only inside an operation: transfers and
    a peer detach wait in the link's queue ([q] transfers, then [rd]) until the
    application's next call.  detach()/close() skip queued transfers.  This model
    is faithful, including the behaviours that contradict the property: see
    Props/C13.v.  The transitions marked (+) depend on the order in which the
    session engine's select! sees the link's two channels and are left out of the
    generated scripts (they are what the implementation did in every observed
    run). *)
From Coq Require Export List Bool NArith.
Export ListNotations.

Inductive rkind := QDetach | QClose | QCloseErr.      (* the peer's detach: closed=false / closed=true / closed=true with an error *)

Inductive rlev :=
| EPAttach                       (* peer: attach (role sender) answering ours, also answering a re-attach *)
| EPTransfer                     (* peer: one complete unsettled delivery, within the credit *)
| EPDetach (k : rkind)
| ERecv | EDetach | EClose       (* local calls *)
| EDrop                          (* the idle receiver is dropped *)
| EAbort.                        (* the pending call is cancelled, dropping the receiver *)

Inductive rerr := ERemoteDetached | ERemoteClosed | ERemoteClosedWithError | EDetachedByRemote | EClosedByRemote | EIllegalState.

Inductive robs :=
| YFlow | YDisp | YDetach (closed : bool) | YAttach    (* written for the link *)
| YEnd                                                 (* the session writes an end with an error *)
| RAttached | RRecv (r : option rerr) | RDet (r : option rerr) | RCls (r : option rerr).

Inductive rlstate :=
| RAttSent
| RIdle (q : nat) (rd : option rkind)                  (* handle with the application; unseen: [q] transfers, then the peer detach [rd] *)
| RRecvWait                                            (* recv() waits, nothing queued *)
| RDetSent | RClsSent                                  (* detach()/close() wait for the peer's detach *)
| RReattach (closing : bool)                           (* re-attach written by detach() (false) / close() (true), waiting for the peer's attach *)
| RReCls (closing : bool)                              (* re-attached, closing detach written, waiting for the peer's detach *)
| RDetached (closing : bool)                           (* recv() exchanged the detaches, handle with the application *)
| RDropped                                             (* the handle is gone, the peer's detach has not arrived *)
| RGone
| RSessEnded.                                          (* the session was ended with an error *)

Definition ranswer (k : rkind) : bool := match k with QDetach => false | _ => true end.
Definition recv_err (k : rkind) : rerr := match k with QDetach => ERemoteDetached | QClose => ERemoteClosed | QCloseErr => ERemoteClosedWithError end.
(** what the call that re-attached reports when the peer's detach arrives *)
Definition reclose_result (k : rkind) : option rerr := match k with QDetach => Some EIllegalState | QClose => None | QCloseErr => Some ERemoteClosedWithError end.
Definition redetach_result (k : rkind) : option rerr := match k with QDetach => Some EIllegalState | QClose => Some EClosedByRemote | QCloseErr => Some ERemoteClosedWithError end.

Definition rkstep (s : rlstate) (e : rlev) : rlstate * list robs :=
  match s, e with
  | RAttSent, EPAttach => (RIdle 0 None, [YFlow; RAttached])
  | RAttSent, _ => (RAttSent, [])
  (* ---- attached, idle ---- *)
  | RIdle q None, EPTransfer => (RIdle (S q) None, [])
  | RIdle q None, EPDetach k => (RIdle q (Some k), [])
  | RIdle (S q) rd, ERecv => (RIdle q rd, [YDisp; YFlow; RRecv None])        (* a queued delivery comes before a queued detach *)
  | RIdle 0 (Some k), ERecv => (RDetached (ranswer k), [YDetach (ranswer k); RRecv (Some (recv_err k))])
  | RIdle 0 None, ERecv => (RRecvWait, [])
  | RIdle q None, EDetach => (RDetSent, [YDetach false])
  | RIdle q (Some QDetach), EDetach => (RGone, [YDetach false; RDet None])
  | RIdle q (Some _), EDetach => (RGone, [YDetach false; RDet (Some EDetachedByRemote)])              (* (+) *)
  | RIdle q None, EClose => (RClsSent, [YDetach true])
  | RIdle q (Some QDetach), EClose => (RGone, [YDetach true; RCls (Some EDetachedByRemote)])          (* (+) *)
  | RIdle q (Some QClose), EClose => (RGone, [YDetach true; RCls None])
  | RIdle q (Some QCloseErr), EClose => (RGone, [YDetach true; RCls (Some ERemoteClosedWithError)])
  | RIdle q None, EDrop => (RDropped, [YDetach true])
  | RIdle q (Some _), EDrop => (RGone, [YDetach true])
  | RIdle q rd, _ => (RIdle q rd, [])
  (* ---- recv() waiting ---- *)
  | RRecvWait, EPTransfer => (RIdle 0 None, [YDisp; YFlow; RRecv None])
  | RRecvWait, EPDetach k => (RDetached (ranswer k), [YDetach (ranswer k); RRecv (Some (recv_err k))])
  | RRecvWait, EAbort => (RDropped, [YDetach true])
  | RRecvWait, _ => (RRecvWait, [])
  (* ---- detach() / close() waiting: transfers are skipped ---- *)
  | RDetSent, EPDetach QDetach => (RGone, [RDet None])
  | RDetSent, EPDetach _ => (RReattach false, [YAttach])
  | RDetSent, EAbort => (RDropped, [])
  | RDetSent, _ => (RDetSent, [])
  | RClsSent, EPDetach QClose => (RGone, [RCls None])
  | RClsSent, EPDetach QCloseErr => (RGone, [RCls (Some ERemoteClosedWithError)])
  | RClsSent, EPDetach QDetach => (RGone, [YDetach true; RCls (Some EDetachedByRemote)])   (* the re-attach fails; the drop of the receiver writes a second detach *)
  | RClsSent, EAbort => (RDropped, [])
  | RClsSent, _ => (RClsSent, [])
  (* ---- re-attach, then close ---- *)
  | RReattach c, EPAttach => (RReCls c, [YDetach true])
  | RReattach c, EAbort => (RGone, [YDetach true])
  | RReattach c, _ => (RReattach c, [])
  | RReCls false, EPDetach k => (RGone, [RDet (redetach_result k)])
  | RReCls true, EPDetach k => (RGone, [RCls (reclose_result k)])
  | RReCls c, EAbort => (RGone, [])
  | RReCls c, _ => (RReCls c, [])
  (* ---- detached both ways by recv(), handle alive ---- *)
  | RDetached c, ERecv => (RDetached c, [RRecv (Some EIllegalState)])
  | RDetached false, EDetach => (RGone, [RDet None])
  | RDetached true, EDetach => (RGone, [RDet (Some EClosedByRemote)])
  | RDetached false, EClose => (RReattach true, [YAttach])
  | RDetached true, EClose => (RGone, [RCls None])
  | RDetached c, EDrop => (RGone, [])
  | RDetached c, _ => (RDetached c, [])
  (* ---- the handle is gone but the peer has not detached: a transfer that crosses is discarded ---- *)
  | RDropped, EPDetach _ => (RGone, [])
  | RDropped, _ => (RDropped, [])
  | RGone, _ => (RGone, [])
  | RSessEnded, _ => (RSessEnded, [])
  end.

Fixpoint rkrun (s : rlstate) (es : list rlev) : rlstate * list (list robs) :=
  match es with
  | [] => (s, [])
  | e :: r => let '(s1, o) := rkstep s e in let '(s2, os) := rkrun s1 r in (s2, o :: os)
  end.
