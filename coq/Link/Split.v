(** Model of the link-level split of a delivery
    (link/sender_link.rs [send_transfer_without_modifying_unsettled_map], with
    the repair 9ae4fe4): when the peer's max-message-size is non-zero and the
    payload is larger, the payload is cut into pieces of that size; only the
    first transfer carries the delivery-tag (and message-format / settled). *)
From FV Require Import Base.Bytes Frame.Transfer.

Record lframe := mkLFr { lf_tag : option N; lf_more : bool; lf_part : bytes }.

Fixpoint split_rest (fuel : nat) (mms : N) (payload : bytes) : list lframe :=
  match fuel with
  | O => [mkLFr None false payload]
  | S f =>
      if mms <? lenN payload then
        let '(part, rest) := split_at (N.to_nat mms) payload in
        mkLFr None true part :: split_rest f mms rest
      else [mkLFr None false payload]
  end.

Definition link_split (mms : N) (tag : N) (payload : bytes) : list lframe :=
  if negb (mms =? 0) && (mms <? lenN payload) then
    let '(part, rest) := split_at (N.to_nat mms) payload in
    mkLFr (Some tag) true part :: split_rest (length rest) mms rest
  else [mkLFr (Some tag) false payload].
