(** How the receiving side reads a decoded transfer frame: the fields of the performative that the
    receiving link looks at (link/receiver.rs [on_incoming_transfer]) as the [xfer] record of
    Link/Receiver.v.  Delivery-tags are compared as byte strings in the code; Link/Receiver.v keeps
    them as numbers, so a tag is read as its big-endian value here. *)
From FV Require Import Base.Bytes Codec.Value Codec.Composite Link.Receiver Frame.AmqpFrame Frame.TransferWire.

Definition opt_uint (v : value) : option N := match v with VUint n => Some n | _ => None end.
Definition opt_tag (v : value) : option N := match v with VBinary b => Some (from_be b) | _ => None end.
Definition opt_bool (v : value) : option bool := match v with VBool b => Some b | _ => None end.
Definition opt_rsm (v : value) : option bool := match v with VUbyte n => Some (n =? 1) | _ => None end.
Definition is_true (v : value) : bool := match v with VBool true => true | _ => false end.

Definition xfer_of_fields (vs : list value) (payload : bytes) : xfer :=
  mkX (opt_uint (nth 1 vs VNull)) (opt_tag (nth 2 vs VNull)) (opt_uint (nth 3 vs VNull)) (opt_bool (nth 4 vs VNull))
      (is_true (nth 5 vs VNull)) (opt_rsm (nth 6 vs VNull)) (is_true (nth 9 vs VNull)) payload.

Definition xfer_of_frame (f : frame) : option xfer :=
  match f_body f with
  | FPerf s vs p => if s_code s =? TRANSFER_CODE then Some (xfer_of_fields vs p) else None
  | FEmpty => None
  end.
