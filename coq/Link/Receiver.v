(** Model of a receiving link as the application and the peer see it:
    link/receiver.rs [recv], [recv_inner], [on_incoming_transfer],
    [on_incomplete_transfer], [on_complete_transfer], [dispose], [dispose_all],
    [update_credit_if_auto], [set_credit], [drain]; link/receiver_link.rs
    [on_complete_transfer], [dispose], [dispose_all], [dispose_consecutive],
    [consecutive_chunk_indices], [get_link_flow]; link/state.rs
    [LinkFlowState<ReceiverMarker>::consume], [on_incoming_flow];
    link/incomplete_transfer.rs [or_assign], [append]; link/mod.rs
    [LinkRelay::on_incoming_flow] (receiver arm).

    Transfers are queued by the session and processed only while the
    application is inside [recv]; the peer's flows are processed on arrival.
    Payloads are byte lists; a delivery's message is the concatenation of the
    payloads of its frames. *)
From Coq Require Export List NArith Bool.
From FV Require Export Base.Serial.
Export ListNotations.
Open Scope N_scope.

Inductive cmode := Manual | Auto (n : N).

Record xfer := mkX {
  x_did : option N;
  x_tag : option N;
  x_fmt : option N;
  x_settled : option bool;
  x_more : bool;
  x_rsm : option bool;          (* Some true: second *)
  x_aborted : bool;
  x_pay : list N
}.

Record dinfo := mkD { d_id : N; d_tag : N; d_rsm : option bool }.

Inductive rerr :=
| ETransferLimit | EInconsistent | ENoDeliveryId | ENoDeliveryTag | EIllegalRsm.

Inductive ev :=
| EXfer (x : xfer)                          (* a transfer frame from the peer *)
| ERecv                                     (* the application calls recv() *)
| ECancelRecv                               (* the pending recv() future is dropped *)
| ECredit (n : N) | EDrain                  (* set_credit / drain *)
| EPFlow (dc : option N) (echo : bool)      (* a link flow from the peer (sender) *)
| EAccept (newest : bool)                   (* accept the oldest / the newest delivery held *)
| EAcceptAll                                (* accept_all over every delivery held *)
| EPSettle (first last : N).                (* the sender's settling disposition *)

Inductive obs :=
| OFlow (dc credit : N) (drain echo : bool)
| ODisp (first : N) (last : option N) (settled : bool)
| ORecv (d : dinfo) (fmt : option N) (msg : list N)
| ORecvErr (e : rerr).

Record incomplete := mkI {
  i_did : option N; i_tag : option N; i_fmt : option N; i_settled : option bool;
  i_rsm : option bool; i_buf : list N
}.

Record rstate := mkR {
  r_mode : cmode;
  r_second : bool;                (* negotiated rcv-settle-mode is second *)
  r_credit : N;
  r_dc : N;                       (* delivery-count, mod 2^32 *)
  r_drain : bool;
  r_processed : N;
  r_inc : option incomplete;
  r_queue : list xfer;            (* transfers not yet looked at *)
  r_waiting : bool;               (* a recv() is pending *)
  r_held : list dinfo;            (* deliveries returned to the application, oldest first *)
  r_unsettled : list N;           (* tags in the link's unsettled map *)
  r_reg : list (N * N)            (* session: delivery-id -> tag of unsettled mode-second deliveries *)
}.

Definition rinit (mode : cmode) (second : bool) (idc : N) : rstate :=
  mkR mode second
      (match mode with Auto n => n | Manual => 0 end) idc false 0 None [] false [] [] [].

(** the attach of the receiver is followed by the first flow in Auto mode (credit n) *)

Definition or_opt {A} (eqb : A -> A -> bool) (a b : option A) : option (option A) :=
  match a, b with
  | Some x, Some y => if eqb x y then Some a else None
  | Some _, None => Some a
  | None, _ => Some b
  end.

Definition or_settled (a b : option bool) : option bool :=
  match a, b with
  | Some v, Some o => if v then Some v else Some o
  | Some v, None => Some v
  | None, _ => b
  end.

Definition merge (i : incomplete) (x : xfer) : option incomplete :=
  match or_opt N.eqb (i_did i) (x_did x), or_opt N.eqb (i_tag i) (x_tag x), or_opt N.eqb (i_fmt i) (x_fmt x) with
  | Some d, Some t, Some f =>
      Some (mkI d t f (or_settled (i_settled i) (x_settled x)) (i_rsm i) (i_buf i ++ x_pay x))
  | _, _, _ => None
  end.

Definition start (x : xfer) : incomplete :=
  mkI (x_did x) (x_tag x) (x_fmt x) (x_settled x) (x_rsm x) (x_pay x).

Definition set_inc (s : rstate) (i : option incomplete) : rstate :=
  mkR (r_mode s) (r_second s) (r_credit s) (r_dc s) (r_drain s) (r_processed s) i
      (r_queue s) (r_waiting s) (r_held s) (r_unsettled s) (r_reg s).

Definition add_unsettled (t : N) (u : list N) : list N :=
  if existsb (N.eqb t) u then u else u ++ [t].

Fixpoint remove_tag (t : N) (u : list N) : list N :=
  match u with
  | [] => []
  | h :: r => if N.eqb t h then r else h :: remove_tag t r
  end.

(** the final frame of a delivery has arrived: [i] is the merged delivery *)
Definition complete (s : rstate) (i : incomplete) : rstate * list obs :=
  let s0 := set_inc s None in
  if r_credit s0 <? 1 then (s0, [ORecvErr ETransferLimit])
  else
    let s1 := mkR (r_mode s0) (r_second s0) (r_credit s0 - 1) (wadd (r_dc s0) 1) (r_drain s0)
                  (r_processed s0) None (r_queue s0) (r_waiting s0) (r_held s0) (r_unsettled s0) (r_reg s) in
    match i_did i, i_tag i with
    | None, _ => (s1, [ORecvErr ENoDeliveryId])
    | Some _, None => (s1, [ORecvErr ENoDeliveryTag])
    | Some d, Some t =>
        let settled := match i_settled i with Some true => true | _ => false end in
        if settled then
          (mkR (r_mode s1) (r_second s1) (r_credit s1) (r_dc s1) (r_drain s1) (r_processed s1) None
               (r_queue s1) false (r_held s1 ++ [mkD d t None]) (remove_tag t (r_unsettled s1)) (r_reg s),
           [ORecv (mkD d t None) (i_fmt i) (i_buf i)])
        else if negb (r_second s1) && (match i_rsm i with Some true => true | _ => false end) then
          (s1, [ORecvErr EIllegalRsm])
        else
          (mkR (r_mode s1) (r_second s1) (r_credit s1) (r_dc s1) (r_drain s1) (r_processed s1) None
               (r_queue s1) false (r_held s1 ++ [mkD d t (i_rsm i)]) (add_unsettled t (r_unsettled s1)) (r_reg s),
           [ORecv (mkD d t (i_rsm i)) (i_fmt i) (i_buf i)])
    end.

(** one queued transfer frame is looked at by a pending recv(); an error ends the call *)
Definition process (s : rstate) (x : xfer) : rstate * list obs :=
  if x_aborted x then (set_inc s None, [])
  else if x_more x then
    match r_inc s with
    | Some i =>
        match merge i x with
        | Some i' =>
            let s' := set_inc s (Some i') in
            (match i_tag i' with
             | Some t => mkR (r_mode s') (r_second s') (r_credit s') (r_dc s') (r_drain s') (r_processed s')
                             (r_inc s') (r_queue s') (r_waiting s') (r_held s') (add_unsettled t (r_unsettled s')) (r_reg s)
             | None => s'
             end, [])
        | None => (set_inc s None, [ORecvErr EInconsistent])   (* the delivery is dropped *)
        end
    | None =>
        let i' := start x in
        let s' := set_inc s (Some i') in
        (match i_tag i' with
         | Some t => mkR (r_mode s') (r_second s') (r_credit s') (r_dc s') (r_drain s') (r_processed s')
                         (r_inc s') (r_queue s') (r_waiting s') (r_held s') (add_unsettled t (r_unsettled s')) (r_reg s)
         | None => s'
         end, [])
    end
  else
    match r_inc s with
    | Some i =>
        match merge i x with
        | Some i' => complete s i'
        | None => (set_inc s None, [ORecvErr EInconsistent])
        end
    | None => complete s (start x)
    end.

Definition stop_waiting (s : rstate) : rstate :=
  mkR (r_mode s) (r_second s) (r_credit s) (r_dc s) (r_drain s) (r_processed s) (r_inc s)
      (r_queue s) false (r_held s) (r_unsettled s) (r_reg s).

(** a pending recv() works through the queue until it returns *)
Fixpoint pump (fuel : nat) (s : rstate) : rstate * list obs :=
  match fuel with
  | O => (s, [])
  | S f =>
      if r_waiting s then
        match r_queue s with
        | [] => (s, [])
        | x :: q =>
            let s0 := mkR (r_mode s) (r_second s) (r_credit s) (r_dc s) (r_drain s) (r_processed s) (r_inc s)
                          q (r_waiting s) (r_held s) (r_unsettled s) (r_reg s) in
            let '(s1, o) := process s0 x in
            match o with
            | [] => pump f s1
            | _ => (stop_waiting s1, o)
            end
        end
      else (s, [])
  end.

Definition flow_out (s : rstate) (credit : N) (drain : bool) : rstate * list obs :=
  (mkR (r_mode s) (r_second s) credit (r_dc s) drain (r_processed s) (r_inc s) (r_queue s)
       (r_waiting s) (r_held s) (r_unsettled s) (r_reg s),
   [OFlow (r_dc s) credit drain false]).

(** after [k] more dispositions: top the credit up in Auto mode *)
Definition processed_more (s : rstate) (k : N) : rstate * list obs :=
  let p := r_processed s + k in
  match r_mode s with
  | Auto n =>
      if n / 2 <=? p then
        flow_out (mkR (r_mode s) (r_second s) (r_credit s) (r_dc s) (r_drain s) 0 (r_inc s) (r_queue s)
                      (r_waiting s) (r_held s) (r_unsettled s) (r_reg s)) n false
      else (mkR (r_mode s) (r_second s) (r_credit s) (r_dc s) (r_drain s) p (r_inc s) (r_queue s)
                (r_waiting s) (r_held s) (r_unsettled s) (r_reg s), [])
  | Manual => (mkR (r_mode s) (r_second s) (r_credit s) (r_dc s) (r_drain s) p (r_inc s) (r_queue s)
                   (r_waiting s) (r_held s) (r_unsettled s) (r_reg s), [])
  end.

Definition is_second (s : rstate) (d : dinfo) : bool :=
  match d_rsm d with Some b => b | None => r_second s end.

(** dispose of one delivery: a disposition goes out only if the tag is in the unsettled map *)
Definition dispose_one (s : rstate) (d : dinfo) : rstate * list obs :=
  let known := existsb (N.eqb (d_tag d)) (r_unsettled s) in
  let second := is_second s d in
  let u := if second then r_unsettled s else remove_tag (d_tag d) (r_unsettled s) in   (* second: only the recorded state changes *)
  let s1 := mkR (r_mode s) (r_second s) (r_credit s) (r_dc s) (r_drain s) (r_processed s) (r_inc s) (r_queue s)
                (r_waiting s) (r_held s) u (r_reg s) in
  let o := if known then [ODisp (d_id d) None (negb second)] else [] in
  let '(s2, o2) := processed_more s1 1 in
  (s2, o ++ o2).

Definition drop_held (s : rstate) (keep : list dinfo) : rstate :=
  mkR (r_mode s) (r_second s) (r_credit s) (r_dc s) (r_drain s) (r_processed s) (r_inc s) (r_queue s)
      (r_waiting s) keep (r_unsettled s) (r_reg s).

(** insertion sort by delivery-id (plain u32 order, as sort_by_key does) *)
Fixpoint insert_d (d : dinfo) (l : list dinfo) : list dinfo :=
  match l with
  | [] => [d]
  | h :: r => if d_id d <? d_id h then d :: l else h :: insert_d d r
  end.
Definition sort_d (l : list dinfo) : list dinfo := fold_left (fun acc d => insert_d d acc) l [].
(* stable for equal ids: insert after equal elements *)

Definition same_rsm (a b : option bool) : bool :=
  match a, b with
  | None, None => true
  | Some x, Some y => Bool.eqb x y
  | _, _ => false
  end.

(** runs of consecutive ids with the same per-delivery mode *)
Fixpoint chunks (cur : list dinfo) (l : list dinfo) : list (list dinfo) :=
  match l with
  | [] => match cur with [] => [] | _ => [rev cur] end
  | d :: r =>
      match cur with
      | [] => chunks [d] r
      | p :: _ =>
          if N.eqb (wadd (d_id p) 1) (d_id d) && same_rsm (d_rsm p) (d_rsm d)
          then chunks (d :: cur) r
          else rev cur :: chunks [d] r
      end
  end.

Definition dispose_chunk (s : rstate) (c : list dinfo) : list N * list obs :=
  match c with
  | [] => (r_unsettled s, [])
  | d0 :: _ =>
      let second := is_second s d0 in
      let u := fold_left (fun u d => if second then add_unsettled (d_tag d) u else remove_tag (d_tag d) u) c (r_unsettled s) in
      (u, [ODisp (d_id d0) (Some (d_id (last c d0))) (negb second)])
  end.

Definition dispose_all (s : rstate) (ds : list dinfo) : rstate * list obs :=
  let total := N.of_nat (length ds) in
  let known := filter (fun d => existsb (N.eqb (d_tag d)) (r_unsettled s)) (sort_d ds) in
  let '(u, o) := fold_left (fun '(u, o) c =>
                    let '(u', o') := dispose_chunk (mkR (r_mode s) (r_second s) (r_credit s) (r_dc s) (r_drain s)
                                                        (r_processed s) (r_inc s) (r_queue s) (r_waiting s) (r_held s) u (r_reg s)) c in
                    (u', o ++ o')) (chunks [] known) (r_unsettled s, []) in
  let s1 := mkR (r_mode s) (r_second s) (r_credit s) (r_dc s) (r_drain s) (r_processed s) (r_inc s) (r_queue s)
                (r_waiting s) (r_held s) u (r_reg s) in
  let '(s2, o2) := processed_more s1 total in
  (s2, o ++ o2).

Definition fuel_of (s : rstate) : nat := S (length (r_queue s)).

Definition rstep (s : rstate) (e : ev) : rstate * list obs :=
  match e with
  | EXfer x =>
      (* the session registers an unsettled delivery of a mode-second link under its delivery-id *)
      let reg :=
        match r_second s, x_settled x, x_did x, x_tag x with
        | true, Some true, _, _ => r_reg s
        | true, _, Some d, Some t => filter (fun p => negb (N.eqb (fst p) d)) (r_reg s) ++ [(d, t)]   (* insert overwrites *)
        | _, _, _, _ => r_reg s
        end in
      let s1 := mkR (r_mode s) (r_second s) (r_credit s) (r_dc s) (r_drain s) (r_processed s) (r_inc s)
                    (r_queue s ++ [x]) (r_waiting s) (r_held s) (r_unsettled s) reg in
      pump (fuel_of s1) s1
  | ERecv =>
      if r_waiting s then (s, [])
      else
        let s1 := mkR (r_mode s) (r_second s) (r_credit s) (r_dc s) (r_drain s) (r_processed s) (r_inc s)
                      (r_queue s) true (r_held s) (r_unsettled s) (r_reg s) in
        pump (fuel_of s1) s1
  | ECancelRecv => (stop_waiting s, [])        (* everything recv() had worked on lives in the link, not in the future *)
  | ECredit n =>
      let s1 := mkR (match r_mode s with Auto _ => Auto n | Manual => Manual end) (r_second s) (r_credit s) (r_dc s)
                    (r_drain s) 0 (r_inc s) (r_queue s) (r_waiting s) (r_held s) (r_unsettled s) (r_reg s) in
      flow_out s1 n false
  | EDrain =>
      let s1 := mkR (r_mode s) (r_second s) (r_credit s) (r_dc s) (r_drain s) 0 (r_inc s) (r_queue s)
                    (r_waiting s) (r_held s) (r_unsettled s) (r_reg s) in
      if r_drain s then (s1, []) else flow_out s1 (r_credit s) true
  | EPFlow dc echo =>
      (* the sender's delivery-count is adopted as it is, whatever is still queued; the credit is left alone *)
      let '(dc', credit') :=
        match dc with
        | Some v => (v, r_credit s)
        | None => (r_dc s, r_credit s)
        end in
      let s1 := mkR (r_mode s) (r_second s) credit' dc' (r_drain s) (r_processed s) (r_inc s) (r_queue s)
                    (r_waiting s) (r_held s) (r_unsettled s) (r_reg s) in
      (s1, if echo then [OFlow dc' credit' (r_drain s) false] else [])
  | EAccept newest =>
      match (if newest then rev (r_held s) else r_held s) with
      | [] => (s, [])
      | d :: rest => dispose_one (drop_held s (if newest then rev rest else rest)) d
      end
  | EAcceptAll =>
      match r_held s with
      | [] => (s, [])
      | ds => dispose_all (drop_held s []) ds
      end
  | EPSettle first last =>
      (* the sender's settled disposition: every registered delivery-id in first..=last (plain u32 range) is
         forgotten by the session and its tag leaves the link's unsettled map *)
      let hit := filter (fun p => (first <=? fst p) && (fst p <=? last)) (r_reg s) in
      (mkR (r_mode s) (r_second s) (r_credit s) (r_dc s) (r_drain s) (r_processed s) (r_inc s) (r_queue s)
           (r_waiting s) (r_held s)
           (filter (fun t => negb (existsb (fun p => N.eqb (snd p) t) hit)) (r_unsettled s))
           (filter (fun p => negb ((first <=? fst p) && (fst p <=? last))) (r_reg s)), [])
  end.

Fixpoint rrun (s : rstate) (es : list ev) : rstate * list (list obs) :=
  match es with
  | [] => (s, [])
  | e :: r => let '(s1, o) := rstep s e in let '(s2, os) := rrun s1 r in (s2, o :: os)
  end.
