(** Model of a sender link's lifecycle (attach / send / detach / close / drop /
    cancellation) against a protocol-abiding peer, on a session that stays
    mapped: link/sender.rs [attach], [send], [detach], [close], [Drop];
    link/shared_inner.rs [detach_with_error], [close_with_error],
    [reattach_and_then_close]; link/mod.rs [send_detach], [on_incoming_detach];
    link/sender_link.rs.  The attach has been written (state [LAttSent]).  The
    link looks at what the peer sent only inside an operation, so a peer detach
    stays unseen ([rd]) until the application's next call.  This model is
    faithful, including the behaviours that contradict the property (recorded as
    known findings): see Props/C13.v. *)
From Coq Require Export List Bool NArith.
Export ListNotations.

Inductive dkind := KDetach | KClose | KCloseErr.       (* the peer's detach: closed=false / closed=true / closed=true with an error *)

Inductive lev :=
| VPAttach                       (* peer: attach answering ours *)
| VPFlow                         (* peer: link credit 10 *)
| VPAccept                       (* peer: settles the delivery in flight as accepted *)
| VPDetach (k : dkind)
| VSend | VDetach | VClose       (* local calls *)
| VDrop                          (* the idle sender is dropped *)
| VAbort.                        (* the pending call is cancelled, dropping the sender *)

Inductive lerr := RRemoteDetached | RRemoteClosed | RRemoteClosedWithError | RDetachedByRemote | RClosedByRemote | RExpectImmediateDetach | RIllegalState.

Inductive lobs2 :=
| XTransfer | XDetach (closed : bool) | XAttach       (* written *)
| DAttach | DSend (r : option lerr) | DDetach (r : option lerr) | DClose (r : option lerr).

Inductive lstate2 :=
| LAttSent
| LIdle (rd : option dkind) (credit : bool)           (* handle with the application; [rd]: an unseen peer detach *)
| LSendBlocked                                        (* send() waits for credit *)
| LSendWait (rd : option dkind)                       (* transfer written, send() waits for the outcome *)
| LDetSent | LClsSent                                 (* detach()/close() wait for the peer's detach *)
| LReattach                                           (* re-attach written, waiting *)
| LDetached (closing : bool)                          (* both detaches exchanged, handle with the application *)
| LGone.

Definition answer (k : dkind) : bool := match k with KDetach => false | _ => true end.
Definition send_err (k : dkind) : lerr := match k with KDetach => RRemoteDetached | KClose => RRemoteClosed | KCloseErr => RRemoteClosedWithError end.

Definition lkstep (s : lstate2) (e : lev) : lstate2 * list lobs2 :=
  match s, e with
  | LAttSent, VPAttach => (LIdle None false, [DAttach])
  | LAttSent, _ => (LAttSent, [])
  (* ---- attached, idle ---- *)
  | LIdle None c, VPFlow => (LIdle None true, [])
  | LIdle None c, VPDetach k => (LIdle (Some k) c, [])
  | LIdle None true, VSend => (LSendWait None, [XTransfer])
  | LIdle None false, VSend => (LSendBlocked, [])
  | LIdle (Some k) c, VSend => (LDetached (answer k), [XDetach (answer k); DSend (Some (send_err k))])   (* an unseen detach is looked at before the credit *)
  | LIdle None c, VDetach => (LDetSent, [XDetach false])
  | LIdle (Some KDetach) c, VDetach => (LGone, [XDetach false; DDetach None])
  | LIdle (Some _) c, VDetach => (LGone, [XDetach false; DDetach (Some RDetachedByRemote)])
  | LIdle None c, VClose => (LClsSent, [XDetach true])
  | LIdle (Some KDetach) c, VClose => (LGone, [XDetach true; DClose (Some RDetachedByRemote)])
  | LIdle (Some KClose) c, VClose => (LGone, [XDetach true; DClose None])
  | LIdle (Some KCloseErr) c, VClose => (LGone, [XDetach true; DClose (Some RRemoteClosedWithError)])
  | LIdle rd c, VDrop => (LGone, [XDetach true])
  | LIdle rd c, _ => (LIdle rd c, [])
  (* ---- send() waiting for credit ---- *)
  | LSendBlocked, VPFlow => (LSendWait None, [XTransfer])
  | LSendBlocked, VPDetach k => (LDetached (answer k), [XDetach (answer k); DSend (Some (send_err k))])
  | LSendBlocked, VAbort => (LGone, [XDetach true])
  | LSendBlocked, _ => (LSendBlocked, [])
  (* ---- send() waiting for the outcome: only the outcome wakes it ---- *)
  | LSendWait rd, VPAccept => (LIdle rd true, [DSend None])      (* the peer granted 10 credits: scripts stay below that *)
  | LSendWait None, VPDetach KDetach => (LSendWait (Some KDetach), [])       (* a non-closing detach: the outcome may still come after a resume *)
  | LSendWait None, VPDetach k => (LIdle (Some k) true, [DSend (Some RIllegalState)])   (* a closing detach fails the pending outcome *)
  | LSendWait rd, VAbort => (LGone, [XDetach true])
  | LSendWait rd, _ => (LSendWait rd, [])
  (* ---- detach() / close() waiting ---- *)
  | LDetSent, VPDetach KDetach => (LGone, [DDetach None])
  | LDetSent, VPDetach _ => (LReattach, [XAttach])
  | LDetSent, VAbort => (LGone, [])
  | LDetSent, _ => (LDetSent, [])
  | LClsSent, VPDetach KClose => (LGone, [DClose None])
  | LClsSent, VPDetach KCloseErr => (LGone, [DClose (Some RRemoteClosedWithError)])
  | LClsSent, VPDetach KDetach => (LGone, [XDetach true; DClose (Some RDetachedByRemote)])
  | LClsSent, VAbort => (LGone, [])
  | LClsSent, _ => (LClsSent, [])
  | LReattach, VAbort => (LGone, [XDetach true])
  | LReattach, _ => (LReattach, [])
  (* ---- detached both ways, handle alive ---- *)
  | LDetached false, VDetach => (LGone, [DDetach None])
  | LDetached true, VDetach => (LGone, [DDetach (Some RClosedByRemote)])
  | LDetached false, VClose => (LReattach, [XAttach])
  | LDetached true, VClose => (LGone, [DClose None])
  | LDetached c, VSend => (LDetached c, [DSend (Some RExpectImmediateDetach)])
  | LDetached c, VDrop => (LGone, [])
  | LDetached c, _ => (LDetached c, [])
  | LGone, _ => (LGone, [])
  end.

Fixpoint lkrun (s : lstate2) (es : list lev) : lstate2 * list (list lobs2) :=
  match es with
  | [] => (s, [])
  | e :: r => let '(s1, o) := lkstep s e in let '(s2, os) := lkrun s1 r in (s2, o :: os)
  end.
