(** Tie: the statement order of [SenderFlowState::consume] and [Producer::produce]
    as extracted from the Rust source on this run is the order the wake-up
    theorem is about. *)
From FV Require Import Gen.WakeOrder Async.WakeUp.

Definition code_order : order :=
  if gen_consume_registers_before_check then RegisterThenCheck else CheckThenRegister.

Lemma tie_wake_order :
  code_order = RegisterThenCheck /\ gen_produce_updates_before_notify = true.
Proof. split; reflexivity. Qed.
