(** Tie: the format-code table of the Rust source (regenerated on this run)
    equals the specification table the spec decoder is written against, and
    [TryFrom<u8>] is exactly the inverse of the enum; the codec constants equal
    the ones used by the model. *)
From FV Require Import Gen.FormatCodes Gen.CodecConsts Codec.Spec Codec.Value Codec.Dec.
From Coq Require Import String NArith List Bool.
Import ListNotations.
Open Scope N_scope.

Definition entry_eqb (a b : string * N) : bool := String.eqb (fst a) (fst b) && (snd a =? snd b).
Definition subset (l1 l2 : list (string * N)) : bool := forallb (fun a => existsb (entry_eqb a) l2) l1.

Lemma tie_enum_is_spec :
  subset gen_enum_table spec_code_table = true /\ subset spec_code_table gen_enum_table = true /\
  length gen_enum_table = length spec_code_table.
Proof. repeat split; vm_compute; reflexivity. Qed.

Lemma tie_try_from_is_inverse :
  subset (map (fun p => (snd p, fst p)) gen_try_from_table) gen_enum_table = true /\
  length gen_try_from_table = length gen_enum_table.
Proof. split; vm_compute; reflexivity. Qed.

Lemma tie_known_codes :
  forallb (fun c => existsb (fun p => snd p =? c) spec_code_table) known_codes = true /\
  length known_codes = length spec_code_table.
Proof. split; vm_compute; reflexivity. Qed.

Lemma tie_codec_consts :
  offset_list8 = 1 /\ offset_list32 = 4 /\ offset_map8 = 1 /\ offset_map32 = 4 /\
  offset_array8 = 2 /\ offset_array32 = 5 /\ max_array_count = MAXCOUNT /\
  u8_max_minus_1 = U8MAX1 /\ u32_max_minus_4 = U32MAX4 /\
  decimal32_width = 4 /\ decimal64_width = 8 /\ decimal128_width = 16 /\ uuid_width = 16.
Proof. repeat split; reflexivity. Qed.
