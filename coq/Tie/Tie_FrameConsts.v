(** Tie: the framing constants and codec configuration found in the source on
    this run are the ones the frame model is written with. *)
From FV Require Import Gen.FrameConsts Frame.Transfer.
From Coq Require Import NArith.
Open Scope N_scope.

Lemma tie_frame_consts :
  gen_min_max_frame_size = MIN_MAX_FRAME_SIZE /\
  gen_frame_type_amqp = 0 /\ gen_frame_type_sasl = 1 /\ gen_doff = 2 /\
  gen_frame_header_len = 4 /\
  gen_ld_enc_field_len = 4 /\ gen_ld_enc_adjust_neg = 4 /\ gen_ld_enc_adjust_is_negative = true /\
  gen_ld_enc_max_minus = 4 /\
  gen_ld_dec_field_len = 4 /\ gen_ld_dec_adjust_neg = 4 /\ gen_ld_dec_adjust_is_negative = true /\
  gen_ld_dec_max_minus = 0 /\ gen_set_encoder_minus = 4 /\
  (* frames we write obey the peer's max-frame-size, frames we read are checked against our own *)
  gen_encoder_limit_is_remote = true /\ gen_decoder_limit_is_remote = false.
Proof. repeat split; reflexivity. Qed.
