(** Tie: the composite table regenerated from the struct definitions of this run
    (names, descriptor codes, field order, Option / mandatory / default / multiple)
    is the specification's. *)
From Coq Require Import NArith List String.
From FV Require Import Base.Bytes Codec.Value Codec.Composite Gen.Composites Codec.CompositeSpec.
Import ListNotations.

Lemma tie_composites : gen_composites = map erase_row spec_composites.
Proof. reflexivity. Qed.

(** every schema of the table satisfies what the theorems ask of a schema, the codes are
    pairwise different and the performatives are among them *)
Lemma spec_schemas_ok : forallb schema_ok spec_schemas = true.
Proof. vm_compute. reflexivity. Qed.

Fixpoint nodupb (l : list N) : bool :=
  match l with [] => true | x :: r => negb (existsb (N.eqb x) r) && nodupb r end.
Lemma nodupb_NoDup l : nodupb l = true -> NoDup l.
Proof.
  induction l as [|x r IH]; cbn; intros H; constructor; apply andb_true_iff in H; destruct H as [H1 H2].
  - intros Hin. apply negb_true_iff in H1. assert (existsb (N.eqb x) r = true); [|congruence].
    apply existsb_exists. exists x. split; [exact Hin|apply N.eqb_refl].
  - auto.
Qed.
Lemma spec_codes_distinct : NoDup (map s_code spec_schemas).
Proof. apply nodupb_NoDup. vm_compute. reflexivity. Qed.
Lemma performatives_present : forallb (fun c => existsb (fun s => N.eqb (s_code s) c) spec_schemas) performative_codes = true.
Proof. vm_compute. reflexivity. Qed.
