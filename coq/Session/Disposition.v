(** Model of settlement bookkeeping on a session
    (session/mod.rs [on_incoming_disposition] with [consecutive_chunk_indices],
    link/mod.rs [LinkRelay::on_incoming_disposition]), after the repairs
    4c3b656 (echo the last run), and the two C02 repairs of this development
    (echo only terminal outcomes; forget the delivery once it is echoed).
    Delivery tags and delivery states are abstracted to numbers; state codes:
    0 accepted, 1 rejected, 2 released, 3 modified (terminal), 4 received. *)
From FV Require Import Base.Serial Session.Window.

Definition terminal (st : option N) : bool :=
  match st with Some c => c <? 4 | None => false end.

(** a sender link's unsettled entry: [Some st] = last non-terminal state seen *)
Inductive link :=
| LSender (second : bool) (unsettled : list (N * option N))
| LReceiver (unsettled : list (N * option N)).

Definition links := list (N * link).          (* link_by_input_handle *)

Fixpoint assoc_remove (tag : N) (m : list (N * option N)) : list (N * option N) :=
  match m with
  | [] => []
  | (t, s) :: r => if t =? tag then assoc_remove tag r else (t, s) :: assoc_remove tag r
  end.
Fixpoint assoc_mem (tag : N) (m : list (N * option N)) : bool :=
  match m with [] => false | (t, _) :: r => (t =? tag) || assoc_mem tag r end.
Fixpoint assoc_set (tag : N) (st : option N) (m : list (N * option N)) : list (N * option N) :=
  match m with
  | [] => []
  | (t, s) :: r => if t =? tag then (t, st) :: r else (t, s) :: assoc_set tag st r
  end.

(** a resolved send: (input handle, tag, outcome) *)
Definition resolution := (N * N * option N)%type.

(** [LinkRelay::on_incoming_disposition]: new link, resolutions, echo needed? *)
Definition relay_disposition (ih : N) (l : link) (settled : bool) (st : option N) (tag : N)
  : link * list resolution * bool :=
  match l with
  | LSender second uns =>
      if settled then
        (LSender second (assoc_remove tag uns),
         if assoc_mem tag uns then [(ih, tag, st)] else [], false)
      else if terminal st then
        (LSender second (assoc_remove tag uns),
         if assoc_mem tag uns then [(ih, tag, st)] else [], second)
      else (LSender second (assoc_set tag st uns), [], false)
  | LReceiver uns =>
      if settled then (LReceiver (assoc_remove tag uns), [], false)
      else (LReceiver (assoc_set tag st uns), [], false)
  end.

Fixpoint links_get (ih : N) (ls : links) : option link :=
  match ls with [] => None | (h, l) :: r => if h =? ih then Some l else links_get ih r end.
Fixpoint links_set (ih : N) (l : link) (ls : links) : links :=
  match ls with
  | [] => []
  | (h, l0) :: r => if h =? ih then (h, l) :: r else (h, l0) :: links_set ih l r
  end.

(** the ids of [dmap] for [role] within first..=last, ascending: what the
    [for delivery_id in first..=last] loop visits with a hit *)
Fixpoint insert_sorted (x : N) (l : list N) : list N :=
  match l with [] => [x] | y :: r => if x <=? y then x :: l else y :: insert_sorted x r end.
Definition ids_in_range (role : bool) (first last : N) (m : dmap) : list N :=
  fold_right insert_sorted []
    (map (fun e => snd (fst e))
         (filter (fun e => Bool.eqb (fst (fst e)) role && (first <=? snd (fst e)) && (snd (fst e) <=? last)) m)).

Record dstate := mkD { d_map : dmap; d_links : links }.

(** one id of the loop *)
Definition dispose_one (role settled : bool) (st : option N) (s : dstate) (id : N)
  : dstate * list resolution * list N :=
  match dm_get (role, id) (d_map s) with
  | None => (s, [], [])
  | Some (ih, tag) =>
      let m1 := if settled then dm_remove (role, id) (d_map s) else d_map s in
      match links_get ih (d_links s) with
      | None => (mkD m1 (d_links s), [], [])
      | Some l =>
          let '(l', res, echo) := relay_disposition ih l settled st tag in
          let m2 := if echo then dm_remove (role, id) m1 else m1 in
          (mkD m2 (links_set ih l' (d_links s)), res, if echo then [id] else [])
      end
  end.

Fixpoint dispose_ids (role settled : bool) (st : option N) (s : dstate) (ids : list N)
  : dstate * list resolution * list N :=
  match ids with
  | [] => (s, [], [])
  | id :: r =>
      let '(s1, r1, e1) := dispose_one role settled st s id in
      let '(s2, r2, e2) := dispose_ids role settled st s1 r in
      (s2, r1 ++ r2, e1 ++ e2)
  end.

(** maximal runs of consecutive ids: (first, last) per run *)
Fixpoint runs_from (cur_first cur_last : N) (ids : list N) : list (N * N) :=
  match ids with
  | [] => [(cur_first, cur_last)]
  | x :: r => if x =? cur_last + 1 then runs_from cur_first x r
              else (cur_first, cur_last) :: runs_from x x r
  end.
Definition runs (ids : list N) : list (N * N) :=
  match ids with [] => [] | x :: r => runs_from x x r end.

(** an echo: settled disposition (first, last, state) with role = sender *)
Definition echo := (N * N * option N)%type.

(** [Session::on_incoming_disposition] *)
Definition on_incoming_disposition (s : dstate) (role : bool) (first : N) (last : option N)
  (settled : bool) (st : option N) : dstate * list resolution * list echo :=
  let lastv := match last with Some l => l | None => first end in
  let ids := ids_in_range role first lastv (d_map s) in
  let '(s', res, echoed) := dispose_ids role settled st s ids in
  (s', res, if settled then [] else map (fun r => (fst r, snd r, st)) (runs echoed)).

(** histories: unsettled sends interleaved with dispositions *)
Inductive dev :=
| DSend (ih tag : N)
| DDisp (role : bool) (first : N) (last : option N) (settled : bool) (st : option N).

Record dsess := mkDS { ds : dstate; ds_next : N }.

Definition link_add_unsettled (l : link) (tag : N) : link :=
  match l with
  | LSender sec uns => LSender sec (uns ++ [(tag, None)])
  | LReceiver uns => LReceiver (uns ++ [(tag, None)])
  end.

Definition dstep (s : dsess) (e : dev) : dsess * list resolution * list echo :=
  match e with
  | DSend ih tag =>
      let m := dm_insert (true, ds_next s) (ih, tag) (d_map (ds s)) in
      let ls := match links_get ih (d_links (ds s)) with
                | Some l => links_set ih (link_add_unsettled l tag) (d_links (ds s))
                | None => d_links (ds s) end in
      (mkDS (mkD m ls) (wadd (ds_next s) 1), [], [])
  | DDisp role first last settled st =>
      let '(d', res, ech) := on_incoming_disposition (ds s) role first last settled st in
      (mkDS d' (ds_next s), res, ech)
  end.
