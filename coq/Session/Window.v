(** Model of the session flow-control core of fe2o3-amqp
    (fe2o3-amqp/src/session/mod.rs): [on_outgoing_transfer],
    [on_outgoing_transfer_inner], [prepare_session_frames_from_buffered_*],
    [on_incoming_flow(_inner)] (session part), [on_incoming_transfer] (counter
    part), [maybe_outgoing_session_flow], [on_outgoing_flow],
    [on_incoming_begin] (field copies).  No proofs in this file. *)
From FV Require Import Base.Serial.

(** A transfer handed to the session by a link.  The payload and the delivery
    tag are abstracted to identities. *)
Record xfer := mkX {
  x_ih : N;                 (* input handle (key of the link for dispositions) *)
  x_handle : N;             (* output handle carried in the performative *)
  x_tag : option N;         (* delivery-tag; None on continuation frames *)
  x_settled : option bool;
  x_more : bool;
  x_pay : N                 (* payload identity *)
}.

Record lflow := mkLF {
  lf_handle : N; lf_dc : option N; lf_credit : option N; lf_avail : option N;
  lf_drain : bool; lf_echo : bool }.

(** a flow frame as received / emitted *)
Record flow := mkF {
  f_nii : option N; f_iw : N; f_noi : N; f_ow : N; f_link : option lflow }.

Inductive sframe :=
| FTransfer (tid : N) (did : option N) (x : xfer)   (* tid: the implicit transfer-id *)
| FFlow (f : flow).

(** key (remote role is receiver?, delivery-id) -> (input handle, tag) *)
Definition dkey := (bool * N)%type.
Definition dmap := list (dkey * (N * N)).

Definition dkey_eqb (a b : dkey) : bool :=
  Bool.eqb (fst a) (fst b) && (snd a =? snd b).

Fixpoint dm_remove (k : dkey) (m : dmap) : dmap :=
  match m with
  | [] => []
  | (k', v) :: m' => if dkey_eqb k k' then dm_remove k m' else (k', v) :: dm_remove k m'
  end.
Definition dm_insert (k : dkey) (v : N * N) (m : dmap) : dmap := dm_remove k m ++ [(k, v)].
Fixpoint dm_get (k : dkey) (m : dmap) : option (N * N) :=
  match m with
  | [] => None
  | (k', v) :: m' => if dkey_eqb k k' then Some v else dm_get k m'
  end.

Record sess := mkS {
  s_init_oi : N;            (* initial_outgoing_id (Constant) *)
  s_noi : N;                (* next_outgoing_id *)
  s_iw : N;                 (* incoming_window *)
  s_ow : N;                 (* outgoing_window *)
  s_nii : N;                (* next_incoming_id *)
  s_nfc : N;                (* need_flow_count *)
  s_riw : N;                (* remote_incoming_window *)
  s_row : N;                (* remote_outgoing_window *)
  s_buf : list xfer;        (* remote_incoming_window_exhausted_buffer *)
  s_dmap : dmap;            (* delivery_tag_by_id *)
  s_mapped : bool           (* local_state == Mapped *)
}.

Definition set_riw (s : sess) (v : N) : sess :=
  mkS (s_init_oi s) (s_noi s) (s_iw s) (s_ow s) (s_nii s) (s_nfc s) v (s_row s) (s_buf s) (s_dmap s) (s_mapped s).
Definition set_buf (s : sess) (b : list xfer) : sess :=
  mkS (s_init_oi s) (s_noi s) (s_iw s) (s_ow s) (s_nii s) (s_nfc s) (s_riw s) (s_row s) b (s_dmap s) (s_mapped s).

(** [Builder::into_session] followed by [on_incoming_begin] *)
Definition sess_init (noi iw ow : N) : sess :=
  mkS noi noi iw ow 0 0 0 0 [] [] true.
Definition on_incoming_begin (s : sess) (b_noi b_iw b_ow : N) : sess :=
  mkS (s_init_oi s) (s_noi s) (s_iw s) (s_ow s) b_noi (s_nfc s) b_iw b_ow (s_buf s) (s_dmap s) (s_mapped s).

(** [on_outgoing_transfer_inner] *)
Definition out_inner (s : sess) (x : xfer) : sess * sframe :=
  let settled := match x_settled x with Some b => b | None => false end in
  let did := match x_tag x with Some _ => Some (s_noi s) | None => None end in
  let dm := match x_tag x with
            | Some t => if settled then s_dmap s
                        else dm_insert (true, s_noi s) (x_ih x, t) (s_dmap s)
            | None => s_dmap s end in
  (mkS (s_init_oi s) (wadd (s_noi s) 1) (s_iw s) (s_ow s) (s_nii s) (s_nfc s)
       (sat_sub (s_riw s) 1) (s_row s) (s_buf s) dm (s_mapped s),
   FTransfer (s_noi s) did x).

(** [prepare_session_frames_from_buffered_transfers]: the while loop, by
    structural recursion on the buffer *)
Fixpoint drain_buf (s : sess) (buf : list xfer) (acc : list sframe) : sess * list sframe :=
  match buf with
  | [] => (set_buf s [], acc)
  | x :: rest =>
      if 0 <? s_riw s then
        let '(s', fr) := out_inner (set_buf s rest) x in
        drain_buf s' rest (acc ++ [fr])
      else (set_buf s buf, acc)
  end.

Definition prepare_buffered (s : sess) (acc : list sframe) : sess * list sframe :=
  drain_buf s (s_buf s) acc.

(** [prepare_session_frames_from_buffered_and_current_transfers] *)
Definition prepare_buffered_and_current (s : sess) (x : xfer) : sess * list sframe :=
  let '(s1, frames) := prepare_buffered s [] in
  if 0 <? s_riw s1 then
    let '(s2, fr) := out_inner s1 x in (s2, frames ++ [fr])
  else (set_buf s1 (s_buf s1 ++ [x]), frames).

(** [on_outgoing_transfer] *)
Definition on_outgoing_transfer (s : sess) (x : xfer) : sess * list sframe :=
  if s_riw s =? 0 then (set_buf s (s_buf s ++ [x]), [])
  else match s_buf s with
       | [] => let '(s', fr) := out_inner s x in (s', [fr])
       | _ => prepare_buffered_and_current s x
       end.

(** the session part of [on_incoming_flow_inner] (after the serial-arithmetic
    repair: in_flight := next_outgoing_id -w base; window := iw -sat in_flight) *)
Definition flow_base (s : sess) (f : flow) : N :=
  match f_nii f with Some n => n | None => s_init_oi s end.
Definition on_incoming_flow_counters (s : sess) (f : flow) : sess :=
  let in_flight := wsub (s_noi s) (flow_base s f) in
  mkS (s_init_oi s) (s_noi s) (s_iw s) (s_ow s) (f_noi f) (s_nfc s)
      (sat_sub (f_iw f) in_flight) (f_ow f) (s_buf s) (s_dmap s) (s_mapped s).

(** [on_outgoing_flow]: wrap a link flow with the session's state *)
Definition on_outgoing_flow (s : sess) (l : option lflow) : sframe :=
  FFlow (mkF (Some (s_nii s)) (s_iw s) (s_noi s) (s_ow s) l).

(** [on_incoming_flow] for a session-only flow, or a link flow whose link-level
    reply ([echo]) is supplied by the link model *)
Definition on_incoming_flow (s : sess) (f : flow) (echo : option lflow) : sess * list sframe :=
  let s1 := on_incoming_flow_counters s f in
  let pre := match echo with Some l => [on_outgoing_flow s1 (Some l)] | None => [] end in
  if (0 <? s_riw s1) && negb (match s_buf s1 with [] => true | _ => false end)
  then prepare_buffered s1 pre
  else (s1, pre).

(** counter part of [on_incoming_transfer] followed by
    [maybe_outgoing_session_flow] as the session engine calls them *)
Definition on_incoming_transfer_counters (s : sess) : sess :=
  mkS (s_init_oi s) (s_noi s) (s_iw s) (s_ow s) (wadd (s_nii s) 1) (sat_add (s_nfc s) 1)
      (s_riw s) (sat_sub (s_row s) 1) (s_buf s) (s_dmap s) (s_mapped s).
Definition maybe_outgoing_session_flow (s : sess) : sess * list sframe :=
  if negb (s_mapped s) then (s, [])
  else if s_iw s / 2 <=? s_nfc s then
    let s' := mkS (s_init_oi s) (s_noi s) (s_iw s) (s_ow s) (s_nii s) 0
                  (s_riw s) (s_row s) (s_buf s) (s_dmap s) (s_mapped s) in
    (s', [on_outgoing_flow s' None])
  else (s, []).

(** events of the C07 history *)
Inductive ev :=
| OutXfer (x : xfer)
| InFlow (f : flow)            (* session-only flow (no handle) *)
| InXfer.

Definition step (s : sess) (e : ev) : sess * list sframe :=
  match e with
  | OutXfer x => on_outgoing_transfer s x
  | InFlow f => on_incoming_flow s f None
  | InXfer => maybe_outgoing_session_flow (on_incoming_transfer_counters s)
  end.

Fixpoint run (s : sess) (evs : list ev) : sess * list (list sframe) :=
  match evs with
  | [] => (s, [])
  | e :: rest => let '(s1, o) := step s e in
                 let '(s2, os) := run s1 rest in (s2, o :: os)
  end.

(** entry point used by the correspondence oracle *)
Definition begun_for_oracle (noi iw ow b_noi b_iw b_ow : N) : sess :=
  on_incoming_begin (sess_init noi iw ow) b_noi b_iw b_ow.
