(** Model of a client session's lifecycle as seen on its channel and at the
    API: session/mod.rs [Session::begin], [SessionHandle::end],
    [end_with_error], [on_end], [Drop]; session/engine.rs [begin_client_session],
    [event_loop], [on_control] (End), [on_incoming] (Begin, End),
    [end_session]; session/mod.rs [send_begin], [send_end], [on_incoming_begin],
    [on_incoming_end].  The connection is open throughout; the peer stays within
    the protocol (one begin in answer to ours, at most one end after it); no links
    (the link lifecycle is checked on the implementation only).  One event per
    quiescence barrier. *)
From Coq Require Export List Bool.
Export ListNotations.

Inductive sev :=
| SBegin                         (* local: Session::begin *)
| SPBegin                        (* peer: begin answering ours *)
| SEnd | SEndErr                 (* local: end() / end_with_error() *)
| SDropS                         (* local: the handle is dropped *)
| SAbortS                        (* local: a pending end()/end_with_error() is cancelled, dropping the handle *)
| SPEnd (with_error : bool).     (* peer: end *)

Inductive sres := SOk | SRemoteEnded | SRemoteEndedWithError.

Inductive sobs :=
| WBegin | WEnd (with_error : bool)              (* written on the channel *)
| DBegin | DEnd (r : sres).                      (* API calls completing *)

Inductive swaiter := SWCall | SWGone.
Inductive shandle := SHLive | SHReported | SHGone.

Inductive sstate :=
| SNone
| SBeginSent
| SMapped
| SEndSent (w : swaiter)
| SEnded (r : sres) (h : shandle).

Definition sfinish (w : swaiter) (r : sres) : sstate * list sobs :=
  match w with
  | SWCall => (SEnded r SHReported, [DEnd r])
  | SWGone => (SEnded r SHGone, [])
  end.

Definition sstep (s : sstate) (e : sev) : sstate * list sobs :=
  match s, e with
  | SNone, SBegin => (SBeginSent, [WBegin])
  | SNone, _ => (SNone, [])
  | SBeginSent, SPBegin => (SMapped, [DBegin])
  | SBeginSent, _ => (SBeginSent, [])                 (* no handle yet: nothing the application can do *)
  | SMapped, SEnd => (SEndSent SWCall, [WEnd false])
  | SMapped, SEndErr => (SEndSent SWCall, [WEnd true])
  | SMapped, SDropS => (SEndSent SWGone, [WEnd false])
  | SMapped, SPEnd false => (SEnded SRemoteEnded SHLive, [WEnd false])          (* the peer's end is answered at once *)
  | SMapped, SPEnd true => (SEnded SRemoteEndedWithError SHLive, [WEnd false])
  | SMapped, _ => (SMapped, [])
  | SEndSent w, SPEnd false => sfinish w SOk
  | SEndSent w, SPEnd true => sfinish w SRemoteEndedWithError
  | SEndSent SWCall, SAbortS => (SEndSent SWGone, [])
  | SEndSent w, _ => (SEndSent w, [])
  | SEnded r SHLive, (SEnd | SEndErr) => (SEnded r SHReported, [DEnd r])
  | SEnded r SHLive, SDropS => (SEnded r SHGone, [])
  | SEnded r h, _ => (SEnded r h, [])
  end.

Fixpoint srun (s : sstate) (es : list sev) : sstate * list (list sobs) :=
  match es with
  | [] => (s, [])
  | e :: r => let '(s1, o) := sstep s e in let '(s2, os) := srun s1 r in (s2, o :: os)
  end.
