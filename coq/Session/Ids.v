(** Model of handle / link-name bookkeeping on a session (session/mod.rs
    [allocate_link], [allocate_incoming_link], [deallocate_link],
    [on_incoming_attach], [on_incoming_detach], [on_outgoing_detach] and the
    routing of incoming link frames by input handle) and of channel bookkeeping
    on a connection (connection/mod.rs [allocate_session], [deallocate_session],
    [on_incoming_begin_inner], [on_incoming_end], engine [forward_to_session]).
    Link names are abstracted to numbers. *)
From FV Require Import Lib.Slab.

(** ** links of one session *)
Record lsess := mkLS {
  ls_slab : slab N;                        (* link_name_by_output_handle *)
  ls_by_name : list (N * option N);        (* link_by_name: Some h = relay not yet taken *)
  ls_by_in : list (N * N);                 (* link_by_input_handle: input handle -> output handle of the relay *)
  ls_mapped : bool
}.

Fixpoint al_get {V} (k : N) (m : list (N * V)) : option V :=
  match m with [] => None | (k', v) :: r => if k' =? k then Some v else al_get k r end.
Fixpoint al_remove {V} (k : N) (m : list (N * V)) : list (N * V) :=
  match m with [] => [] | (k', v) :: r => if k' =? k then al_remove k r else (k', v) :: al_remove k r end.
Definition al_set {V} (k : N) (v : V) (m : list (N * V)) : list (N * V) := al_remove k m ++ [(k, v)].

Inductive lerr := ENotMapped | EDupName | EHandleInUse | ENameNotFound | EUnattached.
Inductive lres := LOk (h : N) | LErr (e : lerr) | LUnit.

Inductive lop :=
| OpAlloc (name : N)                     (* a local link asks for a handle *)
| OpAllocIncoming (name ih : N)          (* listener side: link created for a remote attach *)
| OpInAttach (name ih : N)               (* the peer's attach for a local link *)
| OpInDetach (ih : N)
| OpOutDetach (h : N)                    (* local detach frame going out: releases the handle *)
| OpRoute (ih : N).                      (* an incoming link frame with this handle *)

Definition alloc_link (s : lsess) (name : N) (keep_relay : bool) : lsess * lres :=
  if negb (ls_mapped s) then (s, LErr ENotMapped)
  else match al_get name (ls_by_name s) with
       | Some _ => (s, LErr EDupName)
       | None =>
           let h := vacant_key (ls_slab s) in
           (mkLS (slab_insert (ls_slab s) name)
                 (al_set name (if keep_relay then Some h else None) (ls_by_name s))
                 (ls_by_in s) (ls_mapped s), LOk h)
       end.

Definition lstep (s : lsess) (o : lop) : lsess * lres :=
  match o with
  | OpAlloc name => alloc_link s name true
  | OpAllocIncoming name ih =>
      match alloc_link s name false with
      | (s', LOk h) => (mkLS (ls_slab s') (ls_by_name s') (al_set ih h (ls_by_in s')) (ls_mapped s'), LOk h)
      | r => r
      end
  | OpInAttach name ih =>
      match al_get name (ls_by_name s) with
      | Some (Some h) =>
          (mkLS (ls_slab s) (al_set name None (ls_by_name s)) (al_set ih h (ls_by_in s)) (ls_mapped s), LUnit)
      | Some None => (s, LErr EHandleInUse)
      | None => (s, LErr ENameNotFound)
      end
  | OpInDetach ih =>
      match al_get ih (ls_by_in s) with
      | Some h => (mkLS (ls_slab s) (ls_by_name s) (al_remove ih (ls_by_in s)) (ls_mapped s), LOk h)
      | None => (s, LErr EUnattached)
      end
  | OpOutDetach h =>
      match slab_try_remove (ls_slab s) h with
      | (Some name, sl) => (mkLS sl (al_remove name (ls_by_name s)) (ls_by_in s) (ls_mapped s), LUnit)
      | (None, _) => (s, LUnit)
      end
  | OpRoute ih =>
      match al_get ih (ls_by_in s) with
      | Some h => (s, LOk h)
      | None => (s, LErr EUnattached)
      end
  end.

Definition ls_init : lsess := mkLS slab_empty [] [] true.

(** ** sessions of one connection *)
Record conn := mkCn {
  cn_slab : slab unit;                    (* session_by_outgoing_channel *)
  cn_by_in : list (N * N);                (* session_by_incoming_channel -> outgoing channel *)
  cn_max : N;                             (* agreed_channel_max *)
  cn_opened : bool                        (* local_state == Opened *)
}.

Inductive cerr := EChannelMax | ENotFound | EIllegalState | ENotImplemented.
Inductive cres := COk (c : N) | CErr (e : cerr) | CUnit | CPanic.

Inductive cop :=
| OpAllocSession
| OpDeallocSession (c : N)
| OpInBegin (inc : N) (remote : option N)
| OpInEnd (inc : N)
| OpRouteCh (inc : N).

Definition cstep (s : conn) (o : cop) : conn * cres :=
  match o with
  | OpAllocSession =>
      let c := vacant_key (cn_slab s) in
      if cn_max s <? c then (s, CErr EChannelMax)
      else (mkCn (slab_insert (cn_slab s) tt) (cn_by_in s) (cn_max s) (cn_opened s), COk c)
  | OpDeallocSession c =>
      match slab_try_remove (cn_slab s) c with
      | (Some _, sl) => (mkCn sl (cn_by_in s) (cn_max s) (cn_opened s), CUnit)
      | (None, _) => (s, CPanic)               (* Slab::remove on a vacant key *)
      end
  | OpInBegin inc remote =>
      if negb (cn_opened s) then (s, CErr EIllegalState)
      else match remote with
           | Some out =>
               match slab_get (cn_slab s) out with
               | Some _ => (mkCn (cn_slab s) (al_set inc out (cn_by_in s)) (cn_max s) (cn_opened s), COk out)
               | None => (s, CErr ENotFound)
               end
           | None => (s, CErr ENotImplemented)
           end
  | OpInEnd inc =>
      if negb (cn_opened s) then (s, CErr EIllegalState)
      else match al_get inc (cn_by_in s) with
           | Some out => (mkCn (cn_slab s) (al_remove inc (cn_by_in s)) (cn_max s) (cn_opened s), COk out)
           | None => (s, CErr ENotFound)
           end
  | OpRouteCh inc =>
      match al_get inc (cn_by_in s) with
      | Some out => (s, COk out)
      | None => (s, CErr ENotFound)
      end
  end.

Definition cn_init (local_max remote_max : N) : conn := mkCn slab_empty [] (N.min local_max remote_max) true.
