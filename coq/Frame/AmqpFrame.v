(** Model of the AMQP frame codec of fe2o3-amqp/src/frames/amqp.rs ([FrameEncoder] for a
    frame that fits, [FrameDecoder]) on the bytes that follow the 4-byte size field
    (the length-delimited layer is Lib/LengthDelimited.v, the cut of a transfer that
    does not fit is Frame/Transfer.v).

    decoder: fewer than 4 bytes is an error; doff, type, channel; the type must be 0 and
    doff must be 2 (an extended header is refused with NotImplemented); an empty body is
    the heartbeat frame; otherwise [Performative::deserialize] peeks at the descriptor
    ([parse_described_identifier]), picks the performative and reads it through the
    derived visitor ([dec_composite]); for a transfer the rest of the frame is the
    payload, for every other performative what follows is dropped. *)
From FV Require Import Base.Bytes Codec.Value Codec.Enc Codec.Dec Codec.Composite Codec.CompositeSpec.

Inductive fbody :=
| FEmpty
| FPerf (s : schema) (vs : list value) (payload : bytes).
Record frame := { f_channel : N; f_body : fbody }.

Definition TRANSFER_CODE : N := 20.

(** [write_header] + the performative + the payload *)
Definition enc_frame (f : frame) : option bytes :=
  let hdr := 2 :: 0 :: to_be 2 (f_channel f) in
  match f_body f with
  | FEmpty => Some hdr
  | FPerf s vs payload =>
      match enc_composite Plain s vs with
      | Some b => Some (hdr ++ b ++ payload)
      | None => None
      end
  end.

Definition dec_frame (fuel : nat) (bs : bytes) : result frame :=
  match bs with
  | doff :: ftype :: c1 :: c0 :: body =>
      if negb (ftype =? 0) then Err EOther            (* NotImplemented *)
      else if negb (doff =? 2) then Err EOther         (* NotImplemented *)
      else
        let ch := from_be [c1; c0] in
        match body with
        | [] => Ok {| f_channel := ch; f_body := FEmpty |}
        | _ :: _ =>
            let* (s, vs, rest) := dec_via_enum fuel performative_schemas body in
            Ok {| f_channel := ch;
                  f_body := FPerf s vs (if s_code s =? TRANSFER_CODE then rest else []) |}
        end
  | _ => Err EOther                                    (* "frame is shorter than the frame header" *)
  end.

(** what the theorems ask of a frame *)
Definition body_ok (b : fbody) : Prop :=
  match b with
  | FEmpty => True
  | FPerf s vs payload =>
      In s performative_schemas /\ fields_ok (s_fields s) vs = true /\
      (s_code s = TRANSFER_CODE \/ payload = [])
  end.
