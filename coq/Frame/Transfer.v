(** Model of the sending side of the transport:
    frames/amqp.rs [write_header], [FrameEncoder::new], [encode_transfer],
    [Encoder<Frame>::encode]; transport/mod.rs [start_send] (with the repair
    a2409e6) and the configured tokio-util [LengthDelimitedCodec] encoder
    (4-byte big-endian length, length_adjustment(-4), max_frame_length).
    The encodings of the transfer performative (as given, first, middle, last)
    are parameters: they are produced by the codec (C03). *)
From FV Require Import Base.Bytes.

Definition MIN_MAX_FRAME_SIZE : N := 512.

(** [set_encoder_max_frame_size(M)]: the encoder's max_frame_length *)
Definition encoder_max (peer_max : N) : N := N.max MIN_MAX_FRAME_SIZE peer_max - 4.

Definition write_header (channel : N) : bytes := [2; 0; channel / 256; channel mod 256].

Fixpoint split_at (k : nat) (bs : bytes) : bytes * bytes :=
  match k, bs with
  | O, _ => ([], bs)
  | S k', [] => ([], [])
  | S k', b :: r => let '(h, t) := split_at k' r in (b :: h, t)
  end.

(** the four encodings of the transfer performative used by [encode_transfer] *)
Record perfs := mkP {
  p_single : bytes;   (* as given *)
  p_first : bytes;    (* more := true *)
  p_mid : bytes;      (* ids/tag/format/settled/rcv-settle-mode cleared, more = true *)
  p_last : bytes      (* cleared, more := the caller's more *)
}.

(** the middle-frame loop: [while remaining_bytes > max_frame_body_size] *)
Fixpoint mid_frames (fuel : nat) (hdr pmid : bytes) (mfb : N) (payload : bytes) : list bytes * bytes :=
  match fuel with
  | O => ([], payload)
  | S f =>
      if mfb <? lenN pmid + lenN payload then
        let '(part, rest) := split_at (N.to_nat (mfb - lenN pmid)) payload in
        let '(frames, last) := mid_frames f hdr pmid mfb rest in
        ((hdr ++ pmid ++ part) :: frames, last)
      else ([], payload)
  end.

(** [encode_transfer]: the chunks appended to [dst], each one complete frame
    minus its 4-byte size; [None] models the unchecked subtraction underflowing *)
Definition encode_transfer (m : N) (channel : N) (p : perfs) (payload : bytes) : option (list bytes) :=
  let mfb := m - 4 in
  let hdr := write_header channel in
  if mfb <? lenN (p_single p) + lenN payload then
    if (mfb <? lenN (p_first p)) || (mfb <=? lenN (p_mid p)) then None
    else
      let '(part, rest) := split_at (N.to_nat (mfb - lenN (p_first p))) payload in
      let '(mids, last) := mid_frames (length payload) hdr (p_mid p) mfb rest in
      Some ((hdr ++ p_first p ++ part) :: mids ++ [hdr ++ p_last p ++ last])
  else Some [hdr ++ p_single p ++ payload].

(** [start_send]: cut the concatenated buffer at [m] bytes *)
Fixpoint rechunk (fuel : nat) (m : N) (buf : bytes) : list bytes :=
  match fuel with
  | O => [buf]
  | S f =>
      if m <? lenN buf then
        let '(h, t) := split_at (N.to_nat m) buf in h :: rechunk f m t
      else [buf]
  end.

(** the length-delimited encoder: a 4-byte size that counts itself *)
Definition ld_encode (chunk : bytes) : bytes := to_be 4 (lenN chunk + 4) ++ chunk.

(** what a transfer puts on the wire *)
Definition wire_transfer (peer_max channel : N) (p : perfs) (payload : bytes) : option (list bytes) :=
  let m := encoder_max peer_max in
  match encode_transfer m channel p payload with
  | None => None
  | Some chunks => let buf := concat chunks in Some (map ld_encode (rechunk (length buf) m buf))
  end.

(** any other performative: one frame, or a framing error *)
Definition wire_other (peer_max channel : N) (perf : bytes) : option (list bytes) :=
  let m := encoder_max peer_max in
  let buf := write_header channel ++ perf in
  if m <? lenN buf then None else Some [ld_encode buf].
