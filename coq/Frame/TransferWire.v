(** The transfer performatives [encode_transfer] (frames/amqp.rs) writes for one delivery, built with the
    typed layer: the performative as given, with more := true for the first frame, with the
    per-delivery fields cleared (delivery-id, delivery-tag, message-format, settled, rcv-settle-mode)
    for the middle frames, cleared with the caller's `more` for the last.  This instantiates the
    performative encodings that Frame/Transfer.v takes as parameters. *)
From FV Require Import Base.Bytes Codec.Value Codec.Enc Codec.Composite Codec.CompositeSpec Frame.Transfer Frame.AmqpFrame.

Definition transfer_schema : schema := nth 4 spec_schemas {| s_name := []; s_code := 0; s_fields := [] |}.

Fixpoint set_nth {A} (n : nat) (x : A) (l : list A) : list A :=
  match n, l with
  | _, [] => []
  | O, _ :: r => x :: r
  | S k, y :: r => y :: set_nth k x r
  end.

(* field positions: 0 handle, 1 delivery-id, 2 delivery-tag, 3 message-format, 4 settled, 5 more,
   6 rcv-settle-mode, 7 state, 8 resume, 9 aborted, 10 batchable *)
Definition with_more (b : bool) (vs : list value) : list value := set_nth 5 (VBool b) vs.
Definition cleared (vs : list value) : list value :=
  set_nth 1 VNull (set_nth 2 VNull (set_nth 3 VNull (set_nth 4 VNull (set_nth 6 VNull vs)))).
Definition more_of (vs : list value) : bool := match nth 5 vs VNull with VBool true => true | _ => false end.

Definition transfer_perfs (vs : list value) : option perfs :=
  match enc_composite Plain transfer_schema vs,
        enc_composite Plain transfer_schema (with_more true vs),
        enc_composite Plain transfer_schema (with_more true (cleared vs)),
        enc_composite Plain transfer_schema (cleared vs) with
  | Some a, Some b, Some c, Some d => Some (mkP a b c d)
  | _, _, _, _ => None
  end.

(** the frames the receiving side is expected to read for a delivery cut into [first], [mids], [last] *)
Definition expected_frames (ch : N) (vs : list value) (first : bytes) (mids : list bytes) (last : bytes) : list frame :=
  {| f_channel := ch; f_body := FPerf transfer_schema (with_more true vs) first |}
  :: map (fun part => {| f_channel := ch; f_body := FPerf transfer_schema (with_more true (cleared vs)) part |}) mids
  ++ [{| f_channel := ch; f_body := FPerf transfer_schema (cleared vs) last |}].
