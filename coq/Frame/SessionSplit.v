(** Model of frames/amqp.rs [split_transfer]: the session engine cuts a transfer
    that does not fit one frame into pieces before the session numbers them
    (session/engine.rs [on_outgoing_link_frames]), so that every frame on the
    wire is one numbered transfer.  Sizes only: [lf] is the encoded length of
    the performative of the first piece with room reserved for the delivery-id,
    [lr] that of the following pieces, [mfb] the frame body limit, [n] the
    payload length.  The result is the payload length of each piece. *)
From Coq Require Export List NArith Bool.
Export ListNotations.
Open Scope N_scope.

(** the pieces after the first: [while lr + n > mfb && n > k] cut k = max 1 (mfb - lr) bytes *)
Fixpoint rest_pieces (fuel : nat) (mfb lr n : N) : list N :=
  let k := N.max 1 (mfb - lr) in
  match fuel with
  | O => [n]
  | S f => if (mfb <? lr + n) && (k <? n) then k :: rest_pieces f mfb lr (n - k) else [n]
  end.

Definition session_split (mfb lf lr n : N) : list N :=
  if lf + n <=? mfb then [n]
  else
    let first := N.min (mfb - lf) n in
    first :: rest_pieces (N.to_nat n) mfb lr (n - first).
