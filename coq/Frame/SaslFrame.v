(** Model of the SASL frame codec of fe2o3-amqp/src/frames/sasl.rs ([FrameCodec]) on the
    bytes that follow the 4-byte size field, and of the five SASL frame bodies of
    fe2o3-amqp-types/src/sasl (sasl-mechanisms is implemented by hand in mechanisms.rs: one
    mandatory field; the other four are derived and come from the specification table).

    encoder: doff 2, type 1, two zero bytes, the body.
    decoder: fewer than 4 bytes is an error; doff, type, two ignored bytes; the type must be 1
    and doff must be 2 (NotImplemented otherwise); the body is an enum of composites read by its
    descriptor - code or name - ([deserialize_enum] + [newtype_variant]); an empty body is an
    error (there is no SASL heartbeat); what follows the body is dropped. *)
From Coq Require Import String.
From FV Require Import Base.Bytes Codec.Value Codec.Enc Codec.Dec Codec.Composite Codec.CompositeSpec.

Definition mechanisms_schema : schema :=
  {| s_name := bytes_of_string "amqp:sasl-mechanisms:list"%string; s_code := 64; s_fields := [FMand] |}.

Definition sasl_codes : list N := [65; 66; 67; 68].
Definition sasl_schemas : list schema := mechanisms_schema :: filter (code_in sasl_codes) spec_schemas.

Record sframe := { sf_schema : schema; sf_fields : list value }.

Definition enc_sasl_frame (f : sframe) : option bytes :=
  match enc_composite Plain (sf_schema f) (sf_fields f) with
  | Some b => Some (2 :: 1 :: 0 :: 0 :: b)
  | None => None
  end.

Definition dec_sasl_frame (fuel : nat) (bs : bytes) : result sframe :=
  match bs with
  | doff :: ftype :: _ :: _ :: body =>
      if negb (ftype =? 1) then Err EOther            (* NotImplemented *)
      else if negb (doff =? 2) then Err EOther         (* NotImplemented *)
      else
        let* (s, vs, _) := dec_via_enum fuel sasl_schemas body in
        Ok {| sf_schema := s; sf_fields := vs |}
  | _ => Err EOther                                    (* "frame is shorter than the frame header" *)
  end.

Definition sframe_ok (f : sframe) : Prop :=
  In (sf_schema f) sasl_schemas /\ fields_ok (s_fields (sf_schema f)) (sf_fields f) = true.
