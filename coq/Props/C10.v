(** C10 — Reassembly is independent of how the peer fragments a delivery.
    About Link/Receiver.v, the model of a receiving link that the
    correspondence check runs against the real Receiver (scripted sender peer).
    The state [s] is a link whose application is inside recv() with nothing
    queued and no delivery in progress. *)
From FV Require Import Base.Serial Link.Receiver Proofs.ReceiverProofs.
Open Scope N_scope.

(** However the peer splits a delivery - a first frame carrying id, tag and
    format, any number of continuation frames that omit or repeat them (and may
    carry empty payloads), and a final frame - nothing is returned before the
    final frame, and the final frame returns exactly one message: the
    concatenation of the payloads in order.  (The only other outcome is the
    error for a transfer that asks for rcv-settle-mode second on a link
    negotiated as first.)  One credit is used and the delivery-count advances by one. *)
Theorem C10_reassembly :
  forall s d t f x0 xs xf,
    r_waiting s = true -> r_queue s = [] -> r_inc s = None -> 1 <= r_credit s ->
    x_did x0 = Some d -> x_tag x0 = Some t -> x_fmt x0 = Some f -> x_aborted x0 = false -> x_more x0 = true ->
    forallb (fun x => continues d t f x && x_more x) xs = true ->
    continues d t f xf = true -> x_more xf = false ->
    let r := rrun s (EXfer x0 :: map EXfer xs ++ [EXfer xf]) in
    exists info res,
      concat (removelast (snd r)) = [] /\ last (snd r) [] = [res] /\
      (res = ORecv info (Some f) (x_pay x0 ++ concat (map x_pay xs) ++ x_pay xf) \/ res = ORecvErr EIllegalRsm) /\
      d_id info = d /\ d_tag info = t /\
      r_inc (fst r) = None /\ r_credit (fst r) = r_credit s - 1 /\ r_dc (fst r) = wadd (r_dc s) 1.
Proof. exact reassembly. Qed.
Print Assumptions C10_reassembly.

(** An aborted frame, at any position: no message, the delivery in progress is
    forgotten, credit and delivery-count are untouched - the next delivery
    starts from a clean state (so [C10_reassembly] applies to it). *)
Theorem C10_abort :
  forall s x, r_waiting s = true -> r_queue s = [] -> x_aborted x = true ->
    snd (rstep s (EXfer x)) = [] /\ r_inc (fst (rstep s (EXfer x))) = None /\
    r_waiting (fst (rstep s (EXfer x))) = true /\ r_queue (fst (rstep s (EXfer x))) = [] /\
    r_credit (fst (rstep s (EXfer x))) = r_credit s /\ r_dc (fst (rstep s (EXfer x))) = r_dc s /\
    r_held (fst (rstep s (EXfer x))) = r_held s.
Proof. exact step_abort. Qed.
Print Assumptions C10_abort.

(** A continuation frame whose delivery-id, delivery-tag or message-format
    contradicts the delivery in progress is reported as an error; the delivery is
    dropped (nothing that follows can be spliced onto it) and nothing is delivered. *)
Theorem C10_contradiction :
  forall s i x, r_waiting s = true -> r_queue s = [] -> r_inc s = Some i -> x_aborted x = false -> merge i x = None ->
    snd (rstep s (EXfer x)) = [ORecvErr EInconsistent] /\ r_inc (fst (rstep s (EXfer x))) = None /\
    r_credit (fst (rstep s (EXfer x))) = r_credit s /\ r_dc (fst (rstep s (EXfer x))) = r_dc s /\
    r_held (fst (rstep s (EXfer x))) = r_held s.
Proof. exact step_contradiction. Qed.
Print Assumptions C10_contradiction.

(** Non-vacuity: a delivery cut into four frames (one of them empty, fields omitted, repeated),
    then an aborted one, then a single-frame one. *)
Example C10_example :
  let x d t f m pay := mkX d t f None m None false pay in
  snd (rrun (rinit (Auto 5) false 10)
         [ERecv; EXfer (x (Some 7) (Some 7) (Some 0) true [1; 2]); EXfer (x None None None true []);
          EXfer (x (Some 7) None None true [3]); EXfer (x None (Some 7) (Some 0) false [4; 5]);
          ERecv; EXfer (x (Some 8) (Some 8) (Some 0) true [9]); EXfer (mkX None None None None false None true [9; 9]);
          EXfer (x (Some 9) (Some 9) (Some 0) false [6])]) =
  [[]; []; []; []; [ORecv (mkD 7 7 None) (Some 0) [1; 2; 3; 4; 5]]; []; []; []; [ORecv (mkD 9 9 None) (Some 0) [6]]].
Proof. vm_compute. reflexivity. Qed.
