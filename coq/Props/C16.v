(** C16 — Cancelling a pending send or recv loses nothing and corrupts nothing.

    Receiving side: theorems about the receiving-link model Link/Receiver.v (run against the real Receiver
    every run, with cancellations in the scripts).  Sending side: theorems about Link/SendCancel.v, the send
    call at the granularity of its await points; the real sender is checked against it by the [txcm]
    correspondence (every observed trace must be explained by some choice of drop points of the model) and
    judged directly by the [txc] oracle.

    The property is false of the code in three named situations; the model is faithful, so each is a proved
    exception with a refutation witness (all three are known findings replayed on the implementation):
    a drop between two transfers of a message cut by max-message-size; a drop between taking the credit and
    queuing the first transfer; recv() with auto-accept dropped while its disposition is pending (not in this
    model: decided on the implementation only). *)
From Coq Require Import List NArith Sorted.
From FV Require Import Link.Receiver Proofs.ReceiverProofs Link.SendCancel Proofs.SendCancelProofs.
Import ListNotations.
Open Scope N_scope.

(** Dropping a pending recv() at any point of any history and calling recv() again changes nothing:
    the same final state and the same observations as the history without the cancellation -
    nothing the cancelled call had taken in (whole deliveries, or the frames of an incomplete one) is lost. *)
Theorem C16_recv_cancel_anywhere :
  forall m second idc es1 es2,
    let s0 := rinit m second idc in
    r_waiting (fst (rrun s0 es1)) = true ->
    fst (rrun s0 (es1 ++ ECancelRecv :: ERecv :: es2)) = fst (rrun s0 (es1 ++ es2)) /\
    concat (snd (rrun s0 (es1 ++ ECancelRecv :: ERecv :: es2))) = concat (snd (rrun s0 (es1 ++ es2))).
Proof. exact cancel_anywhere. Qed.
Print Assumptions C16_recv_cancel_anywhere.

Theorem C16_recv_cancel_idle : forall s, r_waiting s = false -> rstep s ECancelRecv = (s, []).
Proof. exact cancel_idle. Qed.
Print Assumptions C16_recv_cancel_idle.

(** Whatever send() calls are dropped and at whatever await point - as long as none is dropped between two
    transfers of one message - the link's output is a sequence of whole deliveries with strictly increasing
    delivery tags: no partial delivery, no duplicate, nothing out of order. *)
Theorem C16_send_never_partial_partial :
  forall dc es, Forall ok_ev es ->
    whole (wire (run (init dc) es)) = true /\ StronglySorted N.lt (first_tags (wire (run (init dc) es))).
Proof. exact never_partial. Qed.
Print Assumptions C16_send_never_partial_partial.

(** ... in particular for messages that go out as one transfer (no max-message-size split), at every drop point *)
Theorem C16_send_never_partial_single :
  forall dc es, Forall single_piece es ->
    whole (wire (run (init dc) es)) = true /\ StronglySorted N.lt (first_tags (wire (run (init dc) es))).
Proof. exact never_partial_single. Qed.
Print Assumptions C16_send_never_partial_single.

Theorem C16_send_partial_refuted : exists es, whole (wire (run (init 0) es)) = false.
Proof. exact partial_refutes. Qed.

(** The deliveries begun on the link are the messages of the calls that got as far as their first transfer,
    each once, in call order - for every history and every drop point. *)
Theorem C16_send_in_order_at_most_once :
  forall es s, first_msgs (wire (run s es)) = first_msgs (wire s) ++ begun s es.
Proof. exact in_order_at_most_once. Qed.
Print Assumptions C16_send_in_order_at_most_once.

(** Credit: what was granted is what is left plus what the calls took; and unless a call is dropped between
    taking its credit and queuing its first transfer, every credit taken has begun a delivery (no starvation). *)
Theorem C16_send_credit_partial :
  (forall es s, credit (run s es) + consumed s es = credit s + granted (executed s es) /\
                dcount (run s es) = dcount s + consumed s es) /\
  (forall es s, Forall no_leak es -> N.of_nat (length (begun s es)) = consumed s es).
Proof. split; [exact credit_conserved|exact no_leak_no_starvation]. Qed.
Print Assumptions C16_send_credit_partial.

Theorem C16_send_credit_leak_refuted :
  let es := [Grant 1; Call (mkC 0 1 (Some 1%nat)); Call (mkC 1 1 None)] in
  wire (run (init 0) es) = [] /\ credit (run (init 0) es) = 0 /\ length (executed (init 0) es) = 2%nat.
Proof. exact credit_leak_refutes. Qed.

Example C16_send_mixed :
  wire (run (init 5) [Grant 3; Call (mkC 7 1 (Some 0%nat)); Call (mkC 7 1 None); Call (mkC 8 2 (Some 9%nat)); Call (mkC 9 1 None)]) =
  [mkF 5 7 0 false; mkF 6 8 0 true; mkF 6 8 1 false; mkF 7 9 0 false].
Proof. exact run_mixed. Qed.
