(** C19 — SASL: no connection without successful authentication.
    About Auth/SaslListener.v, the model of the listener's SASL layer at the
    granularity of whole client actions (run against the real listener with PLAIN
    and SCRAM-SHA-1/256/512 acceptors on abstracted scripts every run).  The
    SCRAM client's clauses are decided on the implementation by the direct
    oracle against a scripted server (see DESIGN.md). *)
From FV Require Import Auth.SaslListener Proofs.SaslProofs.

(** Whatever the client does: if the listener ever writes outcome OK, the AMQP
    header or its open, or accept() returns a connection, then the client's
    actions began with exactly the valid exchange - SASL header, an init with the
    configured credentials (PLAIN) or a well-formed init followed by the correct
    response (SCRAM). *)
Theorem C19_no_connection_without_authentication :
  forall m acts s os, lrun m LHdr acts = (s, os) -> existsb granted (concat os) = true ->
    is_prefix (valid_exchange m) acts = true.
Proof. exact no_open_without_auth. Qed.
Print Assumptions C19_no_connection_without_authentication.

(** The first action that departs from the valid exchange - wrong credentials, a
    frame out of turn, a skipped SASL layer, a premature AMQP header or frame,
    EOF - fails the negotiation at once: accept() returns an error and nothing
    that marks an authenticated connection is written. *)
Theorem C19_deviation_fails :
  forall m s a n0 rest, pre_auth s = true -> need m s = Some (n0 :: rest) -> a <> n0 ->
    fst (lstep m s a) = LFailed /\ In LAcceptErr (snd (lstep m s a)) /\ existsb granted (snd (lstep m s a)) = false.
Proof. exact deviation_fails. Qed.
Print Assumptions C19_deviation_fails.

(** Non-vacuity: the valid exchange is accepted. *)
Theorem C19_valid_accepted :
  forall m, lrun m LHdr (valid_exchange m ++ [CHa; COpen]) =
    (LDone, match m with
            | MPlain => [[LM]; [LOutOk; LH]; [LO]; [LAcceptOk]]
            | MScram => [[LM]; [LCh]; [LOutOk; LH]; [LO]; [LAcceptOk]]
            end).
Proof. exact valid_accepted. Qed.
Print Assumptions C19_valid_accepted.
