(** C19 — SASL: no connection without successful authentication.
    About Auth/SaslListener.v, the model of the listener's SASL layer at the
    granularity of whole client actions (run against the real listener with PLAIN
    and SCRAM-SHA-1/256/512 acceptors on abstracted scripts every run).  The
    SCRAM client is modelled in Auth/ScramClient.v (run against the real client,
    three hash variants, against a scripted, tampering server every run). *)
From FV Require Import Auth.SaslListener Proofs.SaslProofs Auth.ScramClient Proofs.ScramClientProofs.
From FV Require Import Base.Bytes Codec.Value Codec.Dec Codec.Composite Frame.SaslFrame Auth.Plain Auth.SaslWire Proofs.SaslFrameProofs.

(** Whatever the client does: if the listener ever writes outcome OK, the AMQP
    header or its open, or accept() returns a connection, then the client's
    actions began with exactly the valid exchange - SASL header, an init with the
    configured credentials (PLAIN) or a well-formed init followed by the correct
    response (SCRAM). *)
Theorem C19_no_connection_without_authentication :
  forall m acts s os, lrun m LHdr acts = (s, os) -> existsb granted (concat os) = true ->
    is_prefix (valid_exchange m) acts = true.
Proof. exact no_open_without_auth. Qed.
Print Assumptions C19_no_connection_without_authentication.

(** The first action that departs from the valid exchange - wrong credentials, a
    frame out of turn, a skipped SASL layer, a premature AMQP header or frame,
    EOF - fails the negotiation at once: accept() returns an error and nothing
    that marks an authenticated connection is written. *)
Theorem C19_deviation_fails :
  forall m s a n0 rest, pre_auth s = true -> need m s = Some (n0 :: rest) -> a <> n0 ->
    fst (lstep m s a) = LFailed /\ In LAcceptErr (snd (lstep m s a)) /\ existsb granted (snd (lstep m s a)) = false.
Proof. exact deviation_fails. Qed.
Print Assumptions C19_deviation_fails.

(** Non-vacuity: the valid exchange is accepted. *)
Theorem C19_valid_accepted :
  forall m, lrun m LHdr (valid_exchange m ++ [CHa; COpen]) =
    (LDone, match m with
            | MPlain => [[LM]; [LOutOk; LH]; [LO]; [LAcceptOk]]
            | MScram => [[LM]; [LCh]; [LOutOk; LH]; [LO]; [LAcceptOk]]
            end).
Proof. exact valid_accepted. Qed.
Print Assumptions C19_valid_accepted.

(** ** The SCRAM client (Auth/ScramClient.v) *)

(** Whatever the server sends: if the client ever writes the AMQP header or its open, or open() returns a
    connection, the server's messages began with exactly the proving exchange - SASL header, a mechanism list
    offering the client's mechanism, a well-formed challenge whose nonce extends the client's, and outcome ok
    carrying the server signature computed from the password. *)
Theorem C19_client_trusts_only_a_proving_server :
  forall vs s os, crun CWaitHdr vs = (s, os) -> existsb trusts (concat os) = true ->
    cis_prefix proving_exchange vs = true.
Proof. exact client_trusts_only_a_proving_server. Qed.
Print Assumptions C19_client_trusts_only_a_proving_server.

(** The first message that departs from it fails the negotiation at once: open() returns an error and neither
    the AMQP header nor an open is written. *)
Theorem C19_client_deviation_fails :
  forall s v n0 rest, cneed s = Some (n0 :: rest) -> sev_eqb v n0 = false ->
    fst (cstep s v) = CFailed /\ (exists e, In (RErr e) (snd (cstep s v))) /\ existsb trusts (snd (cstep s v)) = false.
Proof. exact deviation_fails_client. Qed.
Print Assumptions C19_client_deviation_fails.

Theorem C19_client_ok_without_proof_refused :
  (forall d, d <> DGood -> cstep CWaitOutcome (VOutcome KOk d) = (CFailed, [RErr EScram])) /\
  cstep CWaitChal (VChal false) = (CFailed, [RErr EScram]).
Proof. split; [exact ok_without_proof_refused|exact bad_challenge_refused]. Qed.
Print Assumptions C19_client_ok_without_proof_refused.

Example C19_client_proving_accepted :
  crun CWaitHdr (proving_exchange ++ [VAmqp]) = (CDone, [[]; [OInit]; [OResp]; [OAmqpHdr]; [OOpen; ROk]]).
Proof. exact proving_accepted. Qed.

(** ** From the bytes on the wire (Frame/SaslFrame.v, Auth/Plain.v, Auth/SaslWire.v) *)

(** The SASL frame codec reads back what it writes: any of the five SASL frames, any field values. *)
Theorem C19_sasl_frame_roundtrip :
  forall f b fuel, sframe_ok f -> Forall (fun v => (depth v <= fuel)%nat) (sf_fields f) -> (1 <= fuel)%nat ->
    enc_sasl_frame f = Some b -> dec_sasl_frame fuel b = Ok f.
Proof. exact sasl_frame_roundtrip. Qed.
Print Assumptions C19_sasl_frame_roundtrip.

(** Malformed SASL frames are errors: another frame type, an extended header, a frame without a body. *)
Theorem C19_malformed_sasl_frame_is_an_error :
  (forall fuel doff ftype c1 c0 body, (ftype <> 1%N \/ doff <> 2%N) -> exists e, dec_sasl_frame fuel (doff :: ftype :: c1 :: c0 :: body) = Err e) /\
  (forall fuel bs, (length bs <= 4)%nat -> exists e, dec_sasl_frame fuel bs = Err e).
Proof. exact (conj sasl_header_rules sasl_short_frame_refused). Qed.
Print Assumptions C19_malformed_sasl_frame_is_an_error.

(** The PLAIN check passes on exactly the responses  authzid NUL user NUL password:
    a wrong password, an unknown user, a missing or an extra separator are all refused. *)
Theorem C19_plain_credentials_exact :
  forall user pass resp, plain_ok user pass resp = true <->
    exists authzid, resp = authzid ++ 0%N :: user ++ 0%N :: pass /\ ~ In 0%N authzid /\ ~ In 0%N user.
Proof. exact plain_ok_iff. Qed.
Print Assumptions C19_plain_credentials_exact.

(** Whatever bytes a client sends as its first frame to a PLAIN listener: either they are a well-typed
    sasl-init whose initial response carries the configured user and password - then outcome ok and the
    AMQP header follow - or the negotiation fails at once: accept() returns an error and nothing that
    marks an authenticated connection is written.  Composed with C19_no_connection_without_authentication
    (the [CInitOk] of the action alphabet is exactly this case). *)
Theorem C19_plain_listener_any_frame_bytes :
  forall fuel user pass bs,
  let r := plain_on_frame_bytes fuel user pass bs in
  (exists m authzid h, dec_sasl_frame fuel bs =
       Ok {| sf_schema := nth 1 sasl_schemas mechanisms_schema;
             sf_fields := [VSymbol m; VBinary (authzid ++ 0%N :: user ++ 0%N :: pass); h] |}
     /\ ~ In 0%N authzid /\ r = (LAmqpHdr, [LOutOk; LH]))
  \/ (fst r = LFailed /\ In LAcceptErr (snd r) /\ existsb granted (snd r) = false).
Proof. exact plain_frame_bytes. Qed.
Print Assumptions C19_plain_listener_any_frame_bytes.

Example C19_plain_listener_example :
  plain_on_frame_bytes 4 [117%N] [112%N]
    [2; 1; 0; 0; 0; 83; 65; 192; 14; 2; 163; 5; 80; 76; 65; 73; 78; 160; 4; 0; 117; 0; 112]%N = (LAmqpHdr, [LOutOk; LH])
  /\ plain_on_frame_bytes 4 [117%N] [112%N]
    [2; 1; 0; 0; 0; 83; 65; 192; 14; 2; 163; 5; 80; 76; 65; 73; 78; 160; 4; 0; 117; 0; 113]%N = (LFailed, [LOutFail; LAcceptErr; LEof]).
Proof. exact plain_init_example. Qed.
