(** C19 — SASL: no connection without successful authentication.
    About Auth/SaslListener.v, the model of the listener's SASL layer at the
    granularity of whole client actions (run against the real listener with PLAIN
    and SCRAM-SHA-1/256/512 acceptors on abstracted scripts every run).  The
    SCRAM client is modelled in Auth/ScramClient.v (run against the real client,
    three hash variants, against a scripted, tampering server every run). *)
From FV Require Import Auth.SaslListener Proofs.SaslProofs Auth.ScramClient Proofs.ScramClientProofs.

(** Whatever the client does: if the listener ever writes outcome OK, the AMQP
    header or its open, or accept() returns a connection, then the client's
    actions began with exactly the valid exchange - SASL header, an init with the
    configured credentials (PLAIN) or a well-formed init followed by the correct
    response (SCRAM). *)
Theorem C19_no_connection_without_authentication :
  forall m acts s os, lrun m LHdr acts = (s, os) -> existsb granted (concat os) = true ->
    is_prefix (valid_exchange m) acts = true.
Proof. exact no_open_without_auth. Qed.
Print Assumptions C19_no_connection_without_authentication.

(** The first action that departs from the valid exchange - wrong credentials, a
    frame out of turn, a skipped SASL layer, a premature AMQP header or frame,
    EOF - fails the negotiation at once: accept() returns an error and nothing
    that marks an authenticated connection is written. *)
Theorem C19_deviation_fails :
  forall m s a n0 rest, pre_auth s = true -> need m s = Some (n0 :: rest) -> a <> n0 ->
    fst (lstep m s a) = LFailed /\ In LAcceptErr (snd (lstep m s a)) /\ existsb granted (snd (lstep m s a)) = false.
Proof. exact deviation_fails. Qed.
Print Assumptions C19_deviation_fails.

(** Non-vacuity: the valid exchange is accepted. *)
Theorem C19_valid_accepted :
  forall m, lrun m LHdr (valid_exchange m ++ [CHa; COpen]) =
    (LDone, match m with
            | MPlain => [[LM]; [LOutOk; LH]; [LO]; [LAcceptOk]]
            | MScram => [[LM]; [LCh]; [LOutOk; LH]; [LO]; [LAcceptOk]]
            end).
Proof. exact valid_accepted. Qed.
Print Assumptions C19_valid_accepted.

(** ** The SCRAM client (Auth/ScramClient.v) *)

(** Whatever the server sends: if the client ever writes the AMQP header or its open, or open() returns a
    connection, the server's messages began with exactly the proving exchange - SASL header, a mechanism list
    offering the client's mechanism, a well-formed challenge whose nonce extends the client's, and outcome ok
    carrying the server signature computed from the password. *)
Theorem C19_client_trusts_only_a_proving_server :
  forall vs s os, crun CWaitHdr vs = (s, os) -> existsb trusts (concat os) = true ->
    cis_prefix proving_exchange vs = true.
Proof. exact client_trusts_only_a_proving_server. Qed.
Print Assumptions C19_client_trusts_only_a_proving_server.

(** The first message that departs from it fails the negotiation at once: open() returns an error and neither
    the AMQP header nor an open is written. *)
Theorem C19_client_deviation_fails :
  forall s v n0 rest, cneed s = Some (n0 :: rest) -> sev_eqb v n0 = false ->
    fst (cstep s v) = CFailed /\ (exists e, In (RErr e) (snd (cstep s v))) /\ existsb trusts (snd (cstep s v)) = false.
Proof. exact deviation_fails_client. Qed.
Print Assumptions C19_client_deviation_fails.

Theorem C19_client_ok_without_proof_refused :
  (forall d, d <> DGood -> cstep CWaitOutcome (VOutcome KOk d) = (CFailed, [RErr EScram])) /\
  cstep CWaitChal (VChal false) = (CFailed, [RErr EScram]).
Proof. split; [exact ok_without_proof_refused|exact bad_challenge_refused]. Qed.
Print Assumptions C19_client_ok_without_proof_refused.

Example C19_client_proving_accepted :
  crun CWaitHdr (proving_exchange ++ [VAmqp]) = (CDone, [[]; [OInit]; [OResp]; [OAmqpHdr]; [OOpen; ROk]]).
Proof. exact proving_accepted. Qed.
