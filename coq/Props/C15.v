(** C15 — A misbehaving peer cannot crash, wedge or spin an endpoint.
    What is proved here is the part that a model can carry: the decoder that
    every frame body goes through is total on arbitrary bytes (never panics, never
    runs out of steps within the length of its input, consumes a prefix), and the
    lifecycle models decide every event in every state (they are total functions:
    an illegal frame has a defined, finite effect).  The engine-level clauses
    (no hang, bounded work, error visible, other connections unaffected) are
    decided by the catalogue x state exploration on the implementation: see
    DESIGN.md. *)
From FV Require Import Base.Bytes Codec.Value Codec.Dec Proofs.DecTotal.
From FV Require Import Conn.Lifecycle Proofs.LifecycleProofs Session.SessLife Auth.SaslListener Proofs.SaslProofs.
From FV Require Import Frame.AmqpFrame Proofs.AmqpFrameProofs Conn.WireEvents Proofs.WireEventsProofs.
From FV Require Import Frame.SaslFrame Proofs.SaslFrameProofs.
Open Scope N_scope.

(** whatever bytes a frame body holds, decoding them returns a value or an error - never a panic,
    never an endless loop (fuel = length of the input + 1 always suffices), and what is left over is a suffix *)
Theorem C15_decoder_total :
  (forall fuel e bs, dec fuel e bs <> Panic) /\
  (forall e bs, dec (S (length bs)) e bs <> OutOfFuel).
Proof. split; [exact dec_no_panic|exact dec_enough_fuel]. Qed.
Print Assumptions C15_decoder_total.

(** once the connection has been shut down (by an illegal frame or otherwise) nothing more is written *)
Theorem C15_connection_stays_down :
  forall s e, stopped s = true ->
    stopped (fst (step s e)) = true /\ writes (snd (step s e)) = [].
Proof. intros s e H. destruct (stopped_step s e H) as (A & B & _). split; assumption. Qed.
Print Assumptions C15_connection_stays_down.

(** a frame that is illegal on an open connection has one, finite effect: a close with an error; afterwards
    everything is discarded until the peer's close *)
Theorem C15_illegal_frame_effect :
  forall i, snd (step SOpened (EPIllegal i)) = [WCloseErr (illegal_kind i)] /\ discarding (fst (step SOpened (EPIllegal i))) = true.
Proof. intros i. split; reflexivity. Qed.
Print Assumptions C15_illegal_frame_effect.

(** during SASL, whatever the client sends out of turn fails the negotiation at once *)
Theorem C15_sasl_out_of_turn :
  forall m s a n0 rest, pre_auth s = true -> need m s = Some (n0 :: rest) -> a <> n0 ->
    fst (lstep m s a) = LFailed /\ In LAcceptErr (snd (lstep m s a)).
Proof. intros m s a n0 rest H1 H2 H3. destruct (deviation_fails m s a n0 rest H1 H2 H3) as (A & B & _). split; assumption. Qed.
Print Assumptions C15_sasl_out_of_turn.

(** the frame decoder (header, performative dispatch, typed field loop, payload) is total too: whatever
    bytes follow the size field it returns a frame or an error - no panic for any fuel, and fuel
    length + 1 always suffices *)
Theorem C15_frame_decoder_total :
  forall bs, (forall fuel, dec_frame fuel bs <> Panic) /\ dec_frame (S (length bs)) bs <> OutOfFuel.
Proof. exact dec_frame_total. Qed.
Print Assumptions C15_frame_decoder_total.

(** ... and so is the SASL frame decoder *)
Theorem C15_sasl_frame_decoder_total :
  forall bs, (forall fuel, dec_sasl_frame fuel bs <> Panic) /\ dec_sasl_frame (S (length bs)) bs <> OutOfFuel.
Proof. exact dec_sasl_frame_total. Qed.
Print Assumptions C15_sasl_frame_decoder_total.

(** frames of an unknown type or with an extended header, and frames shorter than their header, are errors *)
Theorem C15_malformed_frame_header_is_an_error :
  (forall fuel doff ftype c1 c0 body, (ftype <> 0 \/ doff <> 2) -> exists e, dec_frame fuel (doff :: ftype :: c1 :: c0 :: body) = Err e) /\
  (forall fuel bs, (length bs < 4)%nat -> exists e, dec_frame fuel bs = Err e).
Proof. exact (conj header_rules short_frame_refused). Qed.
Print Assumptions C15_malformed_frame_header_is_an_error.

(** ** whatever bytes a frame holds, an open connection reacts in one of four defined ways

    [on_frame_bytes] (Conn/WireEvents.v) composes the frame decoder model with the connection
    lifecycle model: the bytes after the size field are decoded; a frame that decodes is classified
    as the engine's on_incoming does for a connection without sessions; a frame that does not decode
    is a transport error, on which the engine stops at once.  For EVERY byte string: the connection
    stays open and writes nothing (heartbeat), or writes exactly one close with an error and discards
    from then on, or answers the peer's close and stops, or stops without writing.  (Run against the
    real engine on raw frames every run: the `pw` events of the c12 sub.) *)
Theorem C15_any_frame_on_open_connection :
  forall fuel bs,
    let r := on_frame_bytes fuel Lifecycle.SOpened bs in
    (r = (Lifecycle.SOpened, [])) \/
    (exists k, r = (Lifecycle.SDiscardProto k Lifecycle.WHandle, [Lifecycle.WCloseErr k])) \/
    (exists e, r = (Lifecycle.SEnded (Lifecycle.RErr e) Lifecycle.HLive, [Lifecycle.WClose; Lifecycle.WEof]) /\ (e = Lifecycle.KRemoteClosed \/ e = Lifecycle.KRemoteClosedWithError)) \/
    (r = (Lifecycle.SEnded (Lifecycle.RErr Lifecycle.KTransportError) Lifecycle.HLive, [Lifecycle.WEof])).
Proof. exact any_frame_on_open_connection. Qed.
Print Assumptions C15_any_frame_on_open_connection.

(** ... and once it has closed with an error, nothing more is written whatever else arrives *)
Theorem C15_after_an_illegal_frame_nothing_is_written :
  forall fuel k bs,
    let r := on_frame_bytes fuel (Lifecycle.SDiscardProto k Lifecycle.WHandle) bs in
    snd r = [] \/ snd r = [Lifecycle.WEof].
Proof. exact after_an_illegal_frame_nothing_is_written. Qed.
Print Assumptions C15_after_an_illegal_frame_nothing_is_written.
