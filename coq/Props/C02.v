(** C02 — Settlement: each send resolves once, with its own delivery's outcome. *)
From FV Require Import Base.Serial Session.Window Session.Disposition Proofs.DispositionProofs.
Open Scope N_scope.

(** A send is resolved only by a disposition that is settled or carries a terminal
    outcome and whose range contains the send's own delivery-id; it is resolved
    with that disposition's state; it was unsettled before and is no longer
    unsettled afterwards (so it cannot be resolved a second time). *)
Theorem C02_own_outcome_once :
  forall role settled st s id s' res e ih tag o,
    dispose_one role settled st s id = (s', res, e) -> In (ih, tag, o) res ->
    o = st /\ (settled = true \/ terminal st = true) /\
    dm_get (role, id) (d_map s) = Some (ih, tag) /\
    sender_has s ih tag = true /\ sender_has s' ih tag = false.
Proof. exact dispose_one_resolution. Qed.
Print Assumptions C02_own_outcome_once.

Theorem C02_own_outcome :
  forall s role first last settled st s' res es ih tag o,
    on_incoming_disposition s role first last settled st = (s', res, es) ->
    In (ih, tag, o) res -> o = st /\ (settled = true \/ terminal st = true).
Proof. exact resolutions_own. Qed.
Print Assumptions C02_own_outcome.

(** rcv-settle-mode=second: for an unsettled disposition the settled echoes cover
    exactly the delivery-ids of the range that are known to the session, belong to
    a second-mode sender link and for which the reported state is terminal; every
    echo carries the reported state. *)
Theorem C02_second_mode_echo :
  forall s role first last st s' res es,
    keys_unique (d_map s) ->
    on_incoming_disposition s role first last false st = (s', res, es) ->
    let lastv := match last with Some l => l | None => first end in
    (forall x, echo_covers es x <-> (first <= x <= lastv /\ echo_wanted role false st s x = true)) /\
    (forall e, In e es -> snd e = st).
Proof. exact echo_exact. Qed.
Print Assumptions C02_second_mode_echo.

Theorem C02_settled_disposition_is_not_echoed :
  forall s role first last st s' res es,
    on_incoming_disposition s role first last true st = (s', res, es) -> es = [].
Proof. exact settled_no_echo. Qed.
Print Assumptions C02_settled_disposition_is_not_echoed.

(** After a settled disposition, or once the settlement has been echoed, the
    session no longer holds the delivery. *)
Theorem C02_nothing_retained :
  forall role settled st s id s' res e,
    dispose_one role settled st s id = (s', res, e) ->
    (settled = true \/ e = [id]) -> dm_get (role, id) (d_map s') = None.
Proof. exact dispose_one_forgets. Qed.
Print Assumptions C02_nothing_retained.

(** Non-vacuity: two links (first / second mode), three sends near the id wrap,
    a range disposition with a terminal outcome: the second-mode deliveries are
    echoed in one run each, all three sends resolve with their own outcome. *)
Definition c02_s0 : dsess :=
  mkDS (mkD [] [(100, LSender false []); (101, LSender true [])]) 4294967295.
Definition c02_hist : list dev :=
  [DSend 101 7; DSend 100 8; DSend 101 9; DDisp true 0 (Some 1) false (Some 1);
   DDisp true 4294967295 None false (Some 4); DDisp true 4294967295 None false (Some 0)].
Example C02_example :
  let run := fold_left (fun acc e => let '(s, out) := acc in
                                     let '(s', r, ec) := dstep s e in (s', out ++ [(r, ec)])) c02_hist (c02_s0, []) in
  snd run =
  [([], []); ([], []); ([], []);
   ([(100, 8, Some 1); (101, 9, Some 1)], [(1, 1, Some 1)]);
   ([], []);
   ([(101, 7, Some 0)], [(4294967295, 4294967295, Some 0)])].
Proof. vm_compute. reflexivity. Qed.
