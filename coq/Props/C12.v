(** C12 — Connection lifecycle follows the AMQP open/close state machine.
    The theorems are about [Lifecycle.step]/[run] (Conn/Lifecycle.v), the model
    of the client endpoint that the correspondence check runs against the real
    engine on the same scripts.  [init] is the endpoint before [open]; a run
    is any list of local operations and peer actions. *)
From FV Require Import Conn.Lifecycle Proofs.LifecycleProofs.
From FV Require Import Base.Bytes Frame.AmqpFrame Conn.WireEvents Proofs.WireEventsProofs.

(** What the endpoint writes over a whole run, for every interleaving of local
    operations and peer behaviour: nothing; or the header; or the header and the
    open; or header, open and exactly one close (plain or with an error) — the
    header comes first, the open once and before anything else, at most one
    close, and nothing after it. *)
Theorem C12_wire_grammar :
  forall evs s os, run init evs = (s, os) ->
    let w := writes (concat os) in
    w = [] \/ w = [WHeader] \/ w = [WHeader; WOpen] \/
    exists c, is_close c = true /\ w = [WHeader; WOpen; c].
Proof. exact wire_grammar. Qed.
Print Assumptions C12_wire_grammar.

(** Once the endpoint has shut its side of the transport it stays stopped and
    writes nothing more; and it only shuts the transport in a stopped state. *)
Theorem C12_nothing_after_shutdown :
  forall s e, stopped s = true ->
    stopped (fst (step s e)) = true /\ writes (snd (step s e)) = [] /\ ~ In WEof (snd (step s e)).
Proof. exact stopped_step. Qed.
Print Assumptions C12_nothing_after_shutdown.

(** A close from the peer is answered with a close: in every reachable state in
    which the endpoint's open is on the wire and no close has been written yet,
    the step that consumes the peer's close writes one. *)
Theorem C12_peer_close_answered :
  forall evs s os b, run init evs = (s, os) -> writes (concat os) = [WHeader; WOpen] ->
    exists c, is_close c = true /\ In c (snd (step s (EPClose b))).
Proof. exact peer_close_answered. Qed.
Print Assumptions C12_peer_close_answered.

(** After a close with an error the endpoint is discarding (or has already
    stopped), and while discarding every event other than the peer's close or
    EOF produces no output at all and leaves the state as it is. *)
Theorem C12_discarding :
  (forall evs s os k, run init evs = (s, os) -> writes (concat os) = [WHeader; WOpen; WCloseErr k] ->
     discarding s = true \/ stopped s = true) /\
  (forall s e, discarding s = true -> is_peer_close_or_eof e = false ->
     snd (step s e) = [] /\ discarding (fst (step s e)) = true /\ (is_peer e = true -> fst (step s e) = s)).
Proof. split; [exact error_close_discards|exact discarding_ignores]. Qed.
Print Assumptions C12_discarding.

(** A frame that is illegal in the current state (a begin for a remotely
    initiated or unknown session, a frame on an unmapped channel, a second open)
    closes the connection with an error, in every reachable state in which the
    open has been written and no close yet; the endpoint is then discarding. *)
Theorem C12_illegal_frame_closes :
  (forall evs s os i, run init evs = (s, os) -> writes (concat os) = [WHeader; WOpen] ->
     exists k, snd (step s (EPIllegal i)) = [WCloseErr k] /\ discarding (fst (step s (EPIllegal i))) = true) /\
  (snd (step SOpened EPOpen) = [WCloseErr KIllegalState] /\ discarding (fst (step SOpened EPOpen)) = true).
Proof. split; [exact illegal_frame_closes|exact second_open_closes]. Qed.
Print Assumptions C12_illegal_frame_closes.

(** The handle's result.  A clean close — close() on an open connection, any
    frames the peer still had in flight, then the peer's close — reports Ok when
    the peer's close carries no error and the peer's error when it does. *)
Theorem C12_close_result :
  forall pre os fl b, run init pre = (SOpened, os) -> forallb inflight fl = true ->
    exists os',
      run init (pre ++ [EClose] ++ fl ++ [EPClose b]) =
        (SEnded (if b then RErr KRemoteClosedWithError else ROk) HReported,
         os ++ [[WClose]] ++ os' ++ [[DClose (if b then RErr KRemoteClosedWithError else ROk); WEof]]) /\
      concat os' = [].
Proof. exact clean_close_reports_ok. Qed.
Print Assumptions C12_close_result.

(** When the peer closes first, the close is answered and the first close() on
    the handle reports the peer's close — with the error if there was one; and
    in any state, a close call completed by a peer close that carries an error
    reports that error, as does the result kept for a later call; open() reports
    it when the peer closes instead of opening. *)
Theorem C12_peer_error_reported :
  (forall b : bool, let r := if b then RErr KRemoteClosedWithError else RErr KRemoteClosed in
     step SOpened (EPClose b) = (SEnded r HLive, [WClose; WEof]) /\
     step (SEnded r HLive) EClose = (SEnded r HReported, [DClose r])) /\
  (forall s r, In (DClose r) (snd (step s (EPClose true))) -> r = RErr KRemoteClosedWithError) /\
  (forall s r h, fst (step s (EPClose true)) = SEnded r h -> stopped s = false -> r = RErr KRemoteClosedWithError) /\
  step SOpenSent (EPClose true) = (SDead, [WClose; DOpen (RErr KRemoteClosedWithError); WEof]).
Proof.
  split; [exact peer_close_reported|]. split; [intros s r H; exact (peer_error_wins s r _ H eq_refl)|].
  split; [exact peer_error_stored|exact open_reports_peer_error].
Qed.
Print Assumptions C12_peer_error_reported.

(** Non-vacuity: the states named in the hypotheses are reached by ordinary runs. *)
Example C12_reach_opened :
  run init [EOpen; EPHeader; EPOpen] = (SOpened, [[WHeader]; [WOpen]; [DOpen ROk]]).
Proof. reflexivity. Qed.
Example C12_reach_pipelined_peer :
  run init [EPHeader; EPOpen; EOpen] = (SOpened, [[]; []; [WHeader; WOpen; DOpen ROk]]).
Proof. reflexivity. Qed.
Example C12_reach_discarding :
  fst (run init [EOpen; EPHeader; EPOpen; EPIllegal IFrameUnmapped; EPEmpty; EPOpen]) = SDiscardProto KNotFound WHandle.
Proof. reflexivity. Qed.
Example C12_clean_close_with_inflight :
  snd (run init [EOpen; EPHeader; EPOpen; EClose; EPIllegal IFrameUnmapped; EPClose false]) =
  [[WHeader]; [WOpen]; [DOpen ROk]; [WClose]; []; [DClose ROk; WEof]].
Proof. reflexivity. Qed.

(** ** whatever bytes a frame holds, an open connection reacts in one of four defined ways

    [on_frame_bytes] (Conn/WireEvents.v) composes the frame decoder model with the connection
    lifecycle model: the bytes after the size field are decoded; a frame that decodes is classified
    as the engine's on_incoming does for a connection without sessions; a frame that does not decode
    is a transport error, on which the engine stops at once.  For EVERY byte string: the connection
    stays open and writes nothing (heartbeat), or writes exactly one close with an error and discards
    from then on, or answers the peer's close and stops, or stops without writing.  (Run against the
    real engine on raw frames every run: the `pw` events of the c12 sub.) *)
Theorem C12_any_frame_on_open_connection :
  forall fuel bs,
    let r := on_frame_bytes fuel SOpened bs in
    (r = (SOpened, [])) \/
    (exists k, r = (SDiscardProto k WHandle, [WCloseErr k])) \/
    (exists e, r = (SEnded (RErr e) HLive, [WClose; WEof]) /\ (e = KRemoteClosed \/ e = KRemoteClosedWithError)) \/
    (r = (SEnded (RErr KTransportError) HLive, [WEof])).
Proof. exact any_frame_on_open_connection. Qed.
Print Assumptions C12_any_frame_on_open_connection.

(** ... and once it has closed with an error, nothing more is written whatever else arrives *)
Theorem C12_after_an_illegal_frame_nothing_is_written :
  forall fuel k bs,
    let r := on_frame_bytes fuel (SDiscardProto k WHandle) bs in
    snd r = [] \/ snd r = [WEof].
Proof. exact after_an_illegal_frame_nothing_is_written. Qed.
Print Assumptions C12_after_an_illegal_frame_nothing_is_written.
