(** C07 — Session flow control: never overrun the peer's incoming window;
    nothing lost.  Property statements only; proofs live in Proofs/. *)
From FV Require Import Base.Serial Session.Window Proofs.WindowProofs Proofs.C07Lemmas.
Open Scope N_scope.

(** For every initial next-outgoing-id (including ids next to 2^32), every
    window the peer's begin advertises and every history of outgoing transfers,
    incoming session flows (any next-incoming-id, set or unset, any window
    below 2^32) and incoming transfers: every transfer frame emitted while the
    peer's latest advertisement is (base, win) has its transfer-id inside
    [base, base+win) in serial arithmetic. *)
Theorem C07_window_respected :
  forall noi iw ow b_noi b_iw b_ow evs s' outs,
    noi < W -> b_iw < W -> Forall wf_ev evs ->
    run (begun noi iw ow b_noi b_iw b_ow) evs = (s', outs) ->
    Forall2 transfers_in_window (ghost_trace noi (ghost0 noi b_noi b_iw) evs) outs.
Proof. intros noi iw ow b_noi b_iw b_ow evs s' outs H1 H2 H3 H4.
  exact (window_respected noi iw ow b_noi b_iw b_ow H1 H2 evs s' outs H3 H4). Qed.
Print Assumptions C07_window_respected.

(** Transfers are neither dropped, duplicated nor reordered: what has been
    emitted followed by what is still buffered is exactly what was submitted. *)
Theorem C07_buffer_fifo :
  forall noi iw ow b_noi b_iw b_ow evs s' outs,
    noi < W -> b_iw < W -> Forall wf_ev evs ->
    run (begun noi iw ow b_noi b_iw b_ow) evs = (s', outs) ->
    xfers_of (concat outs) ++ s_buf s' = submitted evs.
Proof. intros noi iw ow b_noi b_iw b_ow evs s' outs H1 H2 H3 H4.
  exact (buffer_fifo noi iw ow b_noi b_iw b_ow H1 H2 evs s' outs H3 H4). Qed.
Print Assumptions C07_buffer_fifo.

(** Every waiting transfer is sent once the peer reopens the window: after any
    history a transfer is still buffered only if the next transfer-id lies
    outside the window the peer last advertised. *)
Theorem C07_nothing_waits_in_open_window :
  forall noi iw ow b_noi b_iw b_ow evs s' outs,
    noi < W -> b_iw < W -> Forall wf_ev evs ->
    run (begun noi iw ow b_noi b_iw b_ow) evs = (s', outs) ->
    let g := fold_left (ghost_step noi) evs (ghost0 noi b_noi b_iw) in
    s_buf s' = [] \/ ~ in_window (g_base g) (g_win g) (s_noi s').
Proof. intros noi iw ow b_noi b_iw b_ow evs s' outs H1 H2 H3 H4.
  exact (nothing_waits_in_open_window noi iw ow b_noi b_iw b_ow H1 H2 evs s' outs H3 H4). Qed.
Print Assumptions C07_nothing_waits_in_open_window.

(** The reported session state is exact: on the wire, transfer-ids are
    consecutive from the initial next-outgoing-id, every flow frame reports as
    next-outgoing-id the initial id plus the number of transfer frames sent
    before it, as next-incoming-id the peer's last stated value plus the
    transfer frames received since, and the configured windows. *)
Theorem C07_counters_exact :
  forall noi iw ow b_noi b_iw b_ow evs s' outs,
    noi < W -> b_iw < W -> Forall wf_ev evs ->
    run (begun noi iw ow b_noi b_iw b_ow) evs = (s', outs) ->
    wire_consistent noi (concat outs) /\
    s_noi s' = wadd noi (count_xfers (concat outs)) /\
    s_nii s' = g_nii (fold_left (ghost_step noi) evs (ghost0 noi b_noi b_iw)) /\
    Forall2 (flows_report iw ow) (ghost_trace noi (ghost0 noi b_noi b_iw) evs) outs.
Proof. intros noi iw ow b_noi b_iw b_ow evs s' outs H1 H2 H3 H4.
  exact (counters_exact noi iw ow b_noi b_iw b_ow H1 H2 evs s' outs H3 H4). Qed.
Print Assumptions C07_counters_exact.

(** Non-vacuity: a concrete history through the wrap-around that satisfies the
    hypotheses and exercises every branch (buffering, shrinking, reopening). *)
Example C07_example :
  Forall wf_ev ex_evs /\
  map (fun o => map (fun fr => match fr with FTransfer t _ _ => Some t | FFlow _ => None end) o)
      (snd ex_run)
  = [[Some 4294967294]; [Some 4294967295]; []; [Some 0]; []; []; []; []; [Some 1; Some 2]].
Proof. split; [apply wf_evs_of_b; vm_compute; reflexivity | vm_compute; reflexivity]. Qed.

(** The session counts one transfer per frame on the wire: a transfer too large
    for one frame is cut by the session engine ([split_transfer], model
    Frame/SessionSplit.v) before the transfers are numbered.  Nothing of the
    payload is lost, and as soon as the frame body limit [mfb] leaves room for
    the performative, the first piece fits with the performative that has room
    reserved for the delivery-id and every further piece fits with the short
    performative - so the frame encoder writes exactly one frame per numbered
    transfer (checked against the real encoder for every generated piece). *)
From FV Require Import Frame.SessionSplit Proofs.SessionSplitProofs.
Theorem C07_every_frame_numbered :
  forall mfb lf lr n, (lf <= mfb)%N -> (lr < mfb)%N ->
    sumN (session_split mfb lf lr n) = n /\
    match session_split mfb lf lr n with
    | [] => False
    | first :: rest => (lf + first <= mfb)%N /\ Forall (fun k => (lr + k <= mfb)%N) rest
    end.
Proof. intros mfb lf lr n Hf Hr. split; [apply split_sum|apply split_fit; assumption]. Qed.
Print Assumptions C07_every_frame_numbered.

Example C07_split_example : session_split 504 30 12 1500 = [474; 492; 492; 42]%N.
Proof. vm_compute. reflexivity. Qed.
