(** C20 — All codec entry points agree with each other (value level). *)
From FV Require Import Base.Bytes Codec.Value Codec.Enc Codec.Size Proofs.SizeProofs.
From FV Require Import Tie.Tie_FormatCodes Gen.FormatCodes Gen.CodecConsts Codec.Spec.
From Coq Require Import List.
From FV Require Import Codec.Composite Proofs.CompositeProofs.
Open Scope N_scope.

(** Tie to the source of this run: the regenerated format-code table is the
    specification's, TryFrom<u8> is its inverse, and the size offsets / caps /
    thresholds are the ones the model uses. *)
Theorem C20_tie_tables :
  (subset gen_enum_table spec_code_table = true /\ subset spec_code_table gen_enum_table = true /\
   length gen_enum_table = length spec_code_table) /\
  (offset_list8 = 1 /\ offset_list32 = 4 /\ offset_map8 = 1 /\ offset_map32 = 4 /\
   offset_array8 = 2 /\ offset_array32 = 5 /\ max_array_count = MAXCOUNT /\
   u8_max_minus_1 = U8MAX1 /\ u32_max_minus_4 = U32MAX4 /\
   decimal32_width = 4 /\ decimal64_width = 8 /\ decimal128_width = 16 /\ uuid_width = 16).
Proof. exact (conj tie_enum_is_spec tie_codec_consts). Qed.

(** The size reported without encoding equals the length of the encoding, and
    both fail together (beyond 2^32-5 bytes) - for every value, in every
    serializer position, provided no array has a described element (the
    known-finding class where SizeSerializer and Serializer differ). *)
Theorem C20_size_is_length :
  forall v, no_described_elems v = true ->
    match size_of Plain v, enc Plain v with
    | Some n, Some b => n = lenN b
    | None, None => True
    | _, _ => False
    end.
Proof. intros v H. exact (size_agrees v H Plain (or_introl eq_refl)). Qed.
Print Assumptions C20_size_is_length.

Theorem C20_size_is_length_any_position :
  forall v c, no_described_elems v = true -> kind v <> 0 -> agree (size_of c v) (enc c v).
Proof. intros v c H K. exact (size_agrees v H c (or_intror K)). Qed.
Print Assumptions C20_size_is_length_any_position.

(** the restriction is needed: SizeSerializer gives the value of a described
    array element a fresh serializer, Serializer does not *)
Theorem C20_size_refuted_for_described_array_elements :
  exists v, ~ agree (size_of Plain v) (enc Plain v).
Proof. exact size_disagrees_on_described_array. Qed.
Print Assumptions C20_size_refuted_for_described_array_elements.

Example C20_example :
  no_described_elems (VList [VArray [VNull; VNull]; VMap [(VSymbol [97], VList [])]; VBinary (repeat 1 300)]) = true /\
  size_of Plain (VList [VArray [VNull; VNull]; VMap [(VSymbol [97], VList [])]; VBinary (repeat 1 300)]) = Some 326.
Proof. split; vm_compute; reflexivity. Qed.

(** the typed layer: for every composite type (any schema) and every field vector, the size the derived
    [serialize] reports through the SizeSerializer is the length of what it writes through the Serializer
    (pending nulls, trailing-field elision and defaults included), and they fail together *)
Theorem C20_composite_size_is_length :
  forall s vs, forallb no_described_elems vs = true ->
    agree (size_composite Plain s vs) (enc_composite Plain s vs).
Proof. exact composite_size_is_length. Qed.
Print Assumptions C20_composite_size_is_length.
