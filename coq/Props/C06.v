(** C06 — Frames on the wire: intact, within max-frame-size, under any fragmentation. *)
From FV Require Import Base.Bytes Frame.Transfer Lib.LengthDelimited Proofs.FrameProofs Proofs.LdProofs
  Tie.Tie_FrameConsts Gen.FrameConsts.
From Coq Require Import List.
From FV Require Import Codec.Value Codec.Composite Codec.CompositeSpec Frame.AmqpFrame Proofs.AmqpFrameProofs Frame.TransferWire Proofs.TransferWireProofs.
Import ListNotations.
Open Scope N_scope.

(** A transfer with a payload of any size towards a peer that advertised any
    max-frame-size M >= 512, on any channel, with any encodings of the transfer
    performative that fit (first <= M-8, middle < M-8; the cleared encodings are
    not longer than the ones they derive from): what is written is a list of
    length-prefixed chunks, each at most M bytes and each starting with a frame
    header, laid out as first / middle* / last frames whose payload parts
    concatenate to exactly the payload, all frames but the last filled to
    exactly M bytes (so the cuts made by start_send fall on the frame boundaries). *)
Theorem C06_transfer_frames :
  forall M ch p payload,
    512 <= M ->
    lenN (p_first p) <= M - 8 -> lenN (p_mid p) < M - 8 ->
    lenN (p_single p) <= lenN (p_first p) -> lenN (p_last p) <= lenN (p_mid p) ->
    exists chunks,
      wire_transfer M ch p payload = Some (map ld_encode chunks) /\
      transfer_layout (M - 4) ch p payload chunks /\
      Forall (fun w => lenN w <= M) (map ld_encode chunks) /\
      Forall (fun c => exists body, c = write_header ch ++ body) chunks.
Proof. exact wire_transfer_spec. Qed.
Print Assumptions C06_transfer_frames.

(** Every other performative is one complete frame within the limit, and an
    error (nothing written) beyond it (repair a2409e6). *)
Theorem C06_other_frames :
  forall M ch perf, 512 <= M ->
    (lenN perf <= M - 8 -> wire_other M ch perf = Some [ld_encode (write_header ch ++ perf)] /\
                           lenN (ld_encode (write_header ch ++ perf)) <= M) /\
    (M - 8 < lenN perf -> wire_other M ch perf = None).
Proof. exact wire_other_spec. Qed.
Print Assumptions C06_other_frames.

(** Incoming bytes are split into the same frames (with the same failure and the
    same undelivered remainder) however the stream is cut into reads - 1-byte
    reads and cuts inside the 8-byte header included. *)
Theorem C06_fragmentation_independent :
  forall maxf chunks st, ld_failed st = false -> drained maxf st ->
    same_obs (ld_feed_all maxf st chunks) (ld_feed maxf st (concat chunks)).
Proof. exact fragmentation_independent. Qed.
Print Assumptions C06_fragmentation_independent.

(** What the sender's encoder writes is split back into exactly the chunks it was given. *)
Theorem C06_decode_encode :
  forall maxf chunks,
    Forall (fun c => lenN c + 4 <= maxf /\ lenN c + 4 < 4294967296) chunks ->
    ld_parse_all maxf (concat (map ld_encode chunks)) = (chunks, [], false).
Proof. exact ld_decode_encode. Qed.
Print Assumptions C06_decode_encode.

Theorem C06_tie_consts :
  gen_min_max_frame_size = MIN_MAX_FRAME_SIZE /\
  gen_frame_type_amqp = 0 /\ gen_frame_type_sasl = 1 /\ gen_doff = 2 /\
  gen_frame_header_len = 4 /\
  gen_ld_enc_field_len = 4 /\ gen_ld_enc_adjust_neg = 4 /\ gen_ld_enc_adjust_is_negative = true /\
  gen_ld_enc_max_minus = 4 /\
  gen_ld_dec_field_len = 4 /\ gen_ld_dec_adjust_neg = 4 /\ gen_ld_dec_adjust_is_negative = true /\
  gen_ld_dec_max_minus = 0 /\ gen_set_encoder_minus = 4 /\
  (* after the open exchange the writer is limited by the peer's max-frame-size, the reader by our own *)
  gen_encoder_limit_is_remote = true /\ gen_decoder_limit_is_remote = false.
Proof. exact tie_frame_consts. Qed.

(** Non-vacuity: M = 512, a 1200-byte payload, 20/12/10-byte performatives. *)
Definition c06_p : perfs := mkP (repeat 1 20) (repeat 2 21) (repeat 3 10) (repeat 4 9).
Example C06_example :
  match wire_transfer 512 7 c06_p (repeat 9 1200) with
  | Some ws => map (fun w => lenN w) ws = [512; 512; 240]
  | None => False
  end.
Proof. vm_compute. reflexivity. Qed.

(** ** the frame codec: what the encoder writes for a frame, the decoder reads as that frame

    [enc_frame] / [dec_frame] (Frame/AmqpFrame.v) model FrameEncoder / FrameDecoder of
    frames/amqp.rs on the bytes after the size field: header (doff 2, type 0, channel),
    the performative through the typed layer (Codec/Composite.v: derive macros,
    DescribedAccess, the Performative enum), the payload.  For every channel, every
    performative of the protocol with any admissible field vector, and - for a transfer -
    any payload: decoding the encoder's bytes gives back the channel, the performative with
    exactly those fields, and exactly the payload. *)
Theorem C06_frame_roundtrip :
  forall f b fuel,
    f_channel f < 65536 -> body_ok (f_body f) ->
    (match f_body f with
     | FPerf _ vs _ => Forall (fun v => (depth v <= fuel)%nat) vs /\ (1 <= fuel)%nat
     | FEmpty => True end) ->
    enc_frame f = Some b -> dec_frame fuel b = Ok f.
Proof. exact frame_roundtrip. Qed.
Print Assumptions C06_frame_roundtrip.

(** a frame of another type, or with an extended header, or shorter than its header is refused;
    four header bytes and nothing else are the heartbeat frame *)
Theorem C06_frame_header_rules :
  (forall fuel doff ftype c1 c0 body, (ftype <> 0 \/ doff <> 2) -> exists e, dec_frame fuel (doff :: ftype :: c1 :: c0 :: body) = Err e) /\
  (forall fuel bs, (length bs < 4)%nat -> exists e, dec_frame fuel bs = Err e) /\
  (forall fuel c1 c0, dec_frame fuel [2; 0; c1; c0] = Ok {| f_channel := from_be [c1; c0]; f_body := FEmpty |}).
Proof. exact (conj header_rules (conj short_frame_refused heartbeat_frame)). Qed.
Print Assumptions C06_frame_header_rules.

Example C06_frame_example :
  body_ok (f_body begin_frame) /\
  enc_frame begin_frame = Some [2; 0; 0; 3; 0; 83; 17; 192; 14; 4; 64; 82; 1; 112; 0; 0; 8; 0; 112; 0; 0; 8; 0] /\
  dec_frame 5 [2; 0; 0; 3; 0; 83; 17; 192; 14; 4; 64; 82; 1; 112; 0; 0; 8; 0; 112; 0; 0; 8; 0] = Ok begin_frame.
Proof. exact begin_frame_example. Qed.

(** ** on the wire: the sending transport composed with the receiving frame decoder

    [transfer_perfs] builds the four transfer performatives [encode_transfer] writes (as given / more
    := true / per-delivery fields cleared / cleared with the caller's more) with the model of the
    typed layer; [transfer_layout] is what C06_transfer_frames establishes for the chunks the encoder
    puts on the wire.  For every channel, every admissible transfer field vector, every payload and
    every frame limit: each chunk is read by the model of the receiving FrameDecoder as a transfer
    performative with exactly the expected fields - the first frame carries the delivery-id, tag,
    format and settled flag, the later ones do not, all but the last say more = true - and the payload
    parts read, in order, concatenate to the payload. *)
Theorem C06_transfer_wire_decodes :
  forall m ch vs p payload chunks fuel,
    ch < 65536 -> fields_ok (s_fields transfer_schema) vs = true ->
    Forall (fun v => (depth v <= fuel)%nat) vs -> (1 <= fuel)%nat ->
    transfer_perfs vs = Some p ->
    transfer_layout m ch p payload chunks ->
    (lenN (p_single p) + lenN payload <= m - 4 ->
       map (dec_frame fuel) chunks = [Ok {| f_channel := ch; f_body := FPerf transfer_schema vs payload |}]) /\
    (m - 4 < lenN (p_single p) + lenN payload ->
       exists first mids last,
         first ++ concat mids ++ last = payload /\
         map (dec_frame fuel) chunks = map (@Ok frame) (expected_frames ch vs first mids last)).
Proof. exact transfer_wire_decodes. Qed.
Print Assumptions C06_transfer_wire_decodes.
