(** C06 — Frames on the wire: intact, within max-frame-size, under any fragmentation. *)
From FV Require Import Base.Bytes Frame.Transfer Lib.LengthDelimited Proofs.FrameProofs Proofs.LdProofs
  Tie.Tie_FrameConsts Gen.FrameConsts.
Open Scope N_scope.

(** A transfer with a payload of any size towards a peer that advertised any
    max-frame-size M >= 512, on any channel, with any encodings of the transfer
    performative that fit (first <= M-8, middle < M-8; the cleared encodings are
    not longer than the ones they derive from): what is written is a list of
    length-prefixed chunks, each at most M bytes and each starting with a frame
    header, laid out as first / middle* / last frames whose payload parts
    concatenate to exactly the payload, all frames but the last filled to
    exactly M bytes (so the cuts made by start_send fall on the frame boundaries). *)
Theorem C06_transfer_frames :
  forall M ch p payload,
    512 <= M ->
    lenN (p_first p) <= M - 8 -> lenN (p_mid p) < M - 8 ->
    lenN (p_single p) <= lenN (p_first p) -> lenN (p_last p) <= lenN (p_mid p) ->
    exists chunks,
      wire_transfer M ch p payload = Some (map ld_encode chunks) /\
      transfer_layout (M - 4) ch p payload chunks /\
      Forall (fun w => lenN w <= M) (map ld_encode chunks) /\
      Forall (fun c => exists body, c = write_header ch ++ body) chunks.
Proof. exact wire_transfer_spec. Qed.
Print Assumptions C06_transfer_frames.

(** Every other performative is one complete frame within the limit, and an
    error (nothing written) beyond it (repair a2409e6). *)
Theorem C06_other_frames :
  forall M ch perf, 512 <= M ->
    (lenN perf <= M - 8 -> wire_other M ch perf = Some [ld_encode (write_header ch ++ perf)] /\
                           lenN (ld_encode (write_header ch ++ perf)) <= M) /\
    (M - 8 < lenN perf -> wire_other M ch perf = None).
Proof. exact wire_other_spec. Qed.
Print Assumptions C06_other_frames.

(** Incoming bytes are split into the same frames (with the same failure and the
    same undelivered remainder) however the stream is cut into reads - 1-byte
    reads and cuts inside the 8-byte header included. *)
Theorem C06_fragmentation_independent :
  forall maxf chunks st, ld_failed st = false -> drained maxf st ->
    same_obs (ld_feed_all maxf st chunks) (ld_feed maxf st (concat chunks)).
Proof. exact fragmentation_independent. Qed.
Print Assumptions C06_fragmentation_independent.

(** What the sender's encoder writes is split back into exactly the chunks it was given. *)
Theorem C06_decode_encode :
  forall maxf chunks,
    Forall (fun c => lenN c + 4 <= maxf /\ lenN c + 4 < 4294967296) chunks ->
    ld_parse_all maxf (concat (map ld_encode chunks)) = (chunks, [], false).
Proof. exact ld_decode_encode. Qed.
Print Assumptions C06_decode_encode.

Theorem C06_tie_consts :
  gen_min_max_frame_size = MIN_MAX_FRAME_SIZE /\
  gen_frame_type_amqp = 0 /\ gen_frame_type_sasl = 1 /\ gen_doff = 2 /\
  gen_frame_header_len = 4 /\
  gen_ld_enc_field_len = 4 /\ gen_ld_enc_adjust_neg = 4 /\ gen_ld_enc_adjust_is_negative = true /\
  gen_ld_enc_max_minus = 4 /\
  gen_ld_dec_field_len = 4 /\ gen_ld_dec_adjust_neg = 4 /\ gen_ld_dec_adjust_is_negative = true /\
  gen_ld_dec_max_minus = 0 /\ gen_set_encoder_minus = 4 /\
  (* after the open exchange the writer is limited by the peer's max-frame-size, the reader by our own *)
  gen_encoder_limit_is_remote = true /\ gen_decoder_limit_is_remote = false.
Proof. exact tie_frame_consts. Qed.

(** Non-vacuity: M = 512, a 1200-byte payload, 20/12/10-byte performatives. *)
Definition c06_p : perfs := mkP (repeat 1 20) (repeat 2 21) (repeat 3 10) (repeat 4 9).
Example C06_example :
  match wire_transfer 512 7 c06_p (repeat 9 1200) with
  | Some ws => map (fun w => lenN w) ws = [512; 512; 240]
  | None => False
  end.
Proof. vm_compute. reflexivity. Qed.
