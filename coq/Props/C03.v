(** C03 — Wire codec round-trip: decode(encode(x)) == x. *)
From FV Require Import Base.Bytes Codec.Value Codec.Enc Codec.Dec Proofs.RoundTrip.
From FV Require Import Tie.Tie_FormatCodes Gen.FormatCodes Gen.CodecConsts Codec.Spec.
Open Scope N_scope.

(** Tie to the source of this run: the regenerated format-code table is the
    specification's, TryFrom<u8> is its inverse, and the size offsets / caps /
    thresholds are the ones the model uses. *)
Theorem C03_tie_tables :
  (subset gen_enum_table spec_code_table = true /\ subset spec_code_table gen_enum_table = true /\
   length gen_enum_table = length spec_code_table) /\
  (offset_list8 = 1 /\ offset_list32 = 4 /\ offset_map8 = 1 /\ offset_map32 = 4 /\
   offset_array8 = 2 /\ offset_array32 = 5 /\ max_array_count = MAXCOUNT /\
   u8_max_minus_1 = U8MAX1 /\ u32_max_minus_4 = U32MAX4 /\
   decimal32_width = 4 /\ decimal64_width = 8 /\ decimal128_width = 16 /\ uuid_width = 16).
Proof. exact (conj tie_enum_is_spec tie_codec_consts). Qed.

(** For every well-formed value (any nesting depth, any sizes on both sides of
    the 254/255 boundary, every primitive, lists, maps with keys of every type,
    homogeneous arrays of every scalar and variable-width element type,
    described values): whenever the encoder produces bytes, the decoder applied
    to those bytes followed by anything returns exactly the value, leaves the
    rest untouched and ends with no leftover decoder mode.  [wf] is the AMQP
    type system (ranges, UTF-8, distinct map keys, homogeneous arrays) plus the
    decoder's count cap; arrays whose elements are null / list / map / array /
    described are the known-finding class excluded by [wf] (see below). *)
Theorem C03_value_roundtrip :
  forall v b rest,
    wf v = true -> enc_bytes v = Some b ->
    from_slice (depth v) (b ++ rest) = Ok (v, rest).
Proof. exact roundtrip. Qed.
Print Assumptions C03_value_roundtrip.

(** the same with the decoder state made explicit: more fuel never hurts and the
    element-format-code register is clear afterwards *)
Theorem C03_value_roundtrip_state :
  forall v, wf v = true -> forall f, (depth v <= f)%nat ->
    forall b rest, enc Plain v = Some b -> dec f None (b ++ rest) = Ok (v, None, rest).
Proof. exact roundtrip_fuel. Qed.
Print Assumptions C03_value_roundtrip_state.

(** Known finding (class array-of-null-compound-described): the full statement
    without the element-kind restriction is false of the faithful model, and of
    the implementation: an array of two one-element lists does not decode. *)
Definition c03_witness : value := VArray [VList [VUint 1]; VList [VUint 2]].
Theorem C03_roundtrip_refuted_for_compound_array_elements :
  exists v b, enc_bytes v = Some b /\ from_slice 10 b <> Ok (v, []).
Proof.
  exists c03_witness, (match enc_bytes c03_witness with Some b => b | None => [] end).
  split; [vm_compute; reflexivity | vm_compute; discriminate].
Qed.
Print Assumptions C03_roundtrip_refuted_for_compound_array_elements.

(** Non-vacuity: a nested value with a non-ASCII string array, a timestamp-keyed
    map, 32-bit widths and a described value satisfies the hypotheses. *)
Definition c03_example : value :=
  VList [VArray [VString [195; 169]; VString [97; 98]];
         VMap [(VTimestamp 5, VLong 7); (VArray [VUint 1], VList [VUint 1])];
         VDescribed (DCode 16) (VList [VSymbol [97]; VNull; VBool true; VInt 4294967295]);
         VBinary (repeat 7 300)].
Example C03_example_ok :
  wf c03_example = true /\
  (exists b, enc_bytes c03_example = Some b /\ from_slice (depth c03_example) (b ++ [1; 2]) = Ok (c03_example, [1; 2])).
Proof.
  split; [vm_compute; reflexivity|].
  exists (match enc_bytes c03_example with Some b => b | None => [] end).
  split; vm_compute; reflexivity.
Qed.
