(** C03 — Wire codec round-trip: decode(encode(x)) == x. *)
From FV Require Import Base.Bytes Codec.Value Codec.Enc Codec.Dec Proofs.RoundTrip.
From FV Require Import Tie.Tie_FormatCodes Gen.FormatCodes Gen.CodecConsts Codec.Spec.
From FV Require Import Codec.Composite Codec.CompositeSpec Gen.Composites Tie.Tie_Composites Proofs.CompositeProofs Proofs.CompositeTable Codec.Message Proofs.MessageProofs.
Open Scope N_scope.

(** Tie to the source of this run: the regenerated format-code table is the
    specification's, TryFrom<u8> is its inverse, and the size offsets / caps /
    thresholds are the ones the model uses. *)
Theorem C03_tie_tables :
  (subset gen_enum_table spec_code_table = true /\ subset spec_code_table gen_enum_table = true /\
   length gen_enum_table = length spec_code_table) /\
  (offset_list8 = 1 /\ offset_list32 = 4 /\ offset_map8 = 1 /\ offset_map32 = 4 /\
   offset_array8 = 2 /\ offset_array32 = 5 /\ max_array_count = MAXCOUNT /\
   u8_max_minus_1 = U8MAX1 /\ u32_max_minus_4 = U32MAX4 /\
   decimal32_width = 4 /\ decimal64_width = 8 /\ decimal128_width = 16 /\ uuid_width = 16).
Proof. exact (conj tie_enum_is_spec tie_codec_consts). Qed.

(** For every well-formed value (any nesting depth, any sizes on both sides of
    the 254/255 boundary, every primitive, lists, maps with keys of every type,
    homogeneous arrays of every scalar and variable-width element type,
    described values): whenever the encoder produces bytes, the decoder applied
    to those bytes followed by anything returns exactly the value, leaves the
    rest untouched and ends with no leftover decoder mode.  [wf] is the AMQP
    type system (ranges, UTF-8, distinct map keys, homogeneous arrays) plus the
    decoder's count cap; arrays whose elements are null / list / map / array /
    described are the known-finding class excluded by [wf] (see below). *)
Theorem C03_value_roundtrip :
  forall v b rest,
    wf v = true -> enc_bytes v = Some b ->
    from_slice (depth v) (b ++ rest) = Ok (v, rest).
Proof. exact roundtrip. Qed.
Print Assumptions C03_value_roundtrip.

(** the same with the decoder state made explicit: more fuel never hurts and the
    element-format-code register is clear afterwards *)
Theorem C03_value_roundtrip_state :
  forall v, wf v = true -> forall f, (depth v <= f)%nat ->
    forall b rest, enc Plain v = Some b -> dec f None (b ++ rest) = Ok (v, None, rest).
Proof. exact roundtrip_fuel. Qed.
Print Assumptions C03_value_roundtrip_state.

(** Known finding (class array-of-null-compound-described): the full statement
    without the element-kind restriction is false of the faithful model, and of
    the implementation: an array of two one-element lists does not decode. *)
Definition c03_witness : value := VArray [VList [VUint 1]; VList [VUint 2]].
Theorem C03_roundtrip_refuted_for_compound_array_elements :
  exists v b, enc_bytes v = Some b /\ from_slice 10 b <> Ok (v, []).
Proof.
  exists c03_witness, (match enc_bytes c03_witness with Some b => b | None => [] end).
  split; [vm_compute; reflexivity | vm_compute; discriminate].
Qed.
Print Assumptions C03_roundtrip_refuted_for_compound_array_elements.

(** Non-vacuity: a nested value with a non-ASCII string array, a timestamp-keyed
    map, 32-bit widths and a described value satisfies the hypotheses. *)
Definition c03_example : value :=
  VList [VArray [VString [195; 169]; VString [97; 98]];
         VMap [(VTimestamp 5, VLong 7); (VArray [VUint 1], VList [VUint 1])];
         VDescribed (DCode 16) (VList [VSymbol [97]; VNull; VBool true; VInt 4294967295]);
         VBinary (repeat 7 300)].
Example C03_example_ok :
  wf c03_example = true /\
  (exists b, enc_bytes c03_example = Some b /\ from_slice (depth c03_example) (b ++ [1; 2]) = Ok (c03_example, [1; 2])).
Proof.
  split; [vm_compute; reflexivity|].
  exists (match enc_bytes c03_example with Some b => b | None => [] end).
  split; vm_compute; reflexivity.
Qed.

(** ** the typed layer: composite types (performatives, termini, delivery states, SASL
    frame bodies, message header and properties, transaction messages)

    [enc_composite] / [dec_composite] (Codec/Composite.v) model the derive macros and
    [DescribedAccess]: pending nulls and trailing-field elision on the way out; count
    from the list header, defaults, mandatory fields, `multiple` on the way in.  The
    table of types ([spec_schemas]) is the specification's, and the table regenerated
    from the struct definitions of this run is proved equal to it. *)
Theorem C03_tie_composites : gen_composites = map erase_row spec_composites.
Proof. exact tie_composites. Qed.
Print Assumptions C03_tie_composites.

(** For every composite type of the table and every field vector that is admissible
    for it (well-formed field values of any depth and size, mandatory and defaulted
    fields not null, a `multiple` field null or a non-empty array): decoding the
    serializer's bytes followed by anything returns exactly the field vector and the
    rest - whichever fields are absent, equal to their default or present. *)
Theorem C03_composite_roundtrip :
  forall s, In s spec_schemas ->
  forall vs fuel b rest,
    fields_ok (s_fields s) vs = true ->
    Forall (fun v => (depth v <= fuel)%nat) vs -> (1 <= fuel)%nat ->
    enc_composite Plain s vs = Some b ->
    dec_composite fuel s (b ++ rest) = Ok (vs, rest).
Proof. exact table_roundtrip. Qed.
Print Assumptions C03_composite_roundtrip.

(** the same for any schema a user of the derive macros may write *)
Theorem C03_any_composite_roundtrip :
  forall s vs fuel b rest,
    schema_ok s = true -> fields_ok (s_fields s) vs = true ->
    Forall (fun v => (depth v <= fuel)%nat) vs -> (1 <= fuel)%nat ->
    enc_composite Plain s vs = Some b ->
    dec_composite fuel s (b ++ rest) = Ok (vs, rest).
Proof. exact composite_roundtrip. Qed.
Print Assumptions C03_any_composite_roundtrip.

(** a frame body is routed to the one type whose descriptor it carries *)
Theorem C03_composite_dispatch :
  forall s, In s spec_schemas -> dispatch spec_schemas (DCode (s_code s)) = Some s.
Proof. exact table_dispatch. Qed.
Print Assumptions C03_composite_dispatch.

(** Non-vacuity: an open frame body (defaulted max-frame-size elided, channel-max
    written, interior nulls, a `multiple` field) meets the hypotheses; its bytes. *)
Example C03_composite_example :
  In open_schema spec_schemas /\ fields_ok (s_fields open_schema) open_fields = true /\
  enc_composite Plain open_schema open_fields =
    Some [0; 83; 16; 192; 32; 8; 161; 2; 99; 49; 64; 64; 96; 0; 100; 112; 0; 0; 117; 48; 64; 64;
          224; 13; 2; 179; 0; 0; 0; 1; 120; 0; 0; 0; 2; 121; 122] /\
  presentation (s_fields open_schema) open_fields
    [VString [99; 49]; VNull; VUint 4294967295; VUshort 100; VUint 30000; VArray []; VNull;
     VArray [VSymbol [120]; VSymbol [121; 122]]; VNull] = true.
Proof. exact open_example. Qed.

(** ** messages: the sections of a message survive the message codec

    [enc_message] / [dec_message] (Codec/Message.v) model the message serializer and the visitor of
    the message deserializer at the level of sections (header, delivery- and message-annotations,
    properties, application-properties, body, footer), with data / amqp-sequence batches read as
    TransparentVecAccess does.  For every message whose optional sections are any well-formed
    sections of the right kind and whose body is one amqp-value section, or one or more data
    sections, or one or more amqp-sequence sections: decoding the serializer's bytes gives back
    exactly these sections.  (The empty body is written as an amqp-value null and reads back as
    that: known finding c03-typed-roundtrip-message-body-empty, witnessed in the example.) *)
Theorem C03_message_roundtrip :
  forall m fuel b,
    msg_ok m = true -> Forall (fun v => (depth v <= fuel)%nat) (sections_of m) ->
    enc_message m = Some b -> dec_message fuel b = Ok m.
Proof. exact message_roundtrip. Qed.
Print Assumptions C03_message_roundtrip.

Example C03_message_example :
  msg_ok ex_msg = true /\
  (exists b, enc_message ex_msg = Some b /\ dec_message 4 b = Ok ex_msg) /\
  (exists b, enc_message empty_msg = Some b /\ dec_message 4 b = Ok (set_body [VDescribed (DCode 119) VNull] empty_msg)).
Proof. exact message_example. Qed.
