(** C18 — Transactions on the listener are atomic and isolated.
    The theorems are about Txn/Manager.v, the model of the listener-side
    transactional resource of one session (transaction manager, coordinators of
    the control links, the session's handling of transactional transfers), which
    is run against the real listener on scripts every run (harness sub [txnm]).
    [step s e] is one action of the remote controller with everything the listener
    does in answer; [run] folds it over a script; [init] is a fresh session.  The
    theorems hold for ALL scripts (no bound).  Message ids are only labels: where a
    statement follows one message, the script must not post the same label twice.

    The model is faithful to the code where the code is harsher than the property
    asks (a post under an unknown or finished id ends the whole session with
    amqp:transaction:unknown-id) and leaves out the triggers of the known findings
    (non-closing detach of the control link, credit after rollback, multi-frame
    post under an unknown id, more than 128 live transactions on a detaching
    control link); the controller side of the property is decided on the
    implementation by the direct oracle of the [txn] harness. *)
From FV Require Import Txn.Manager Proofs.TxnProofs.

(** Every state a script can reach is well-formed (live ids pairwise different and below the
    counter, every live transaction owned by an attached control link, none on a dead session). *)
Theorem C18_reachable_wf : forall es, wf (fst (run init es)).
Proof. exact wf_reach. Qed.
Print Assumptions C18_reachable_wf.

(** (a) Isolation.  A message posted under transaction [id] is handed to the application neither
    by the post nor by any later step, as long as no commit of [id] happens. *)
Theorem C18_isolation :
  forall s l id b m es, ~ buffered s m ->
    Forall (fun e => is_post_of m e = false) es -> Forall (fun e => is_commit_of id e = false) es ->
    Forall (fun o => ~ delivers m o) (snd (run s (EPost l (Some id) b m :: es))).
Proof. exact isolation. Qed.
Print Assumptions C18_isolation.

Theorem C18_isolation_from_start :
  forall es1 l id b m es2,
    Forall (fun e => is_post_of m e = false) es1 ->
    Forall (fun e => is_post_of m e = false) es2 -> Forall (fun e => is_commit_of id e = false) es2 ->
    exists os1 os2, snd (run init (es1 ++ EPost l (Some id) b m :: es2)) = os1 ++ os2 /\
      length os1 = length es1 /\ Forall (fun o => ~ delivers m o) os2.
Proof. exact isolation_init. Qed.
Print Assumptions C18_isolation_from_start.

(** Only two kinds of steps hand a message to the application: its plain post, and the commit of a
    live transaction that holds it, through the control link that declared the transaction. *)
Theorem C18_delivery_sources :
  forall s e m, delivers m (snd (step s e)) ->
    (exists l b, e = EPost l None b m) \/
    (exists c id t, e = ECommit c id /\ In t (live s) /\ t_id t = id /\ t_ctl t = c /\ holds t m).
Proof. exact delivers_step. Qed.
Print Assumptions C18_delivery_sources.

(** (b) Atomicity and order.  The commit of a live transaction by its control link is accepted and
    hands over exactly the buffered posts, in posting order, so every link's queue grows by that
    link's posts in posting order; the transaction is gone afterwards. *)
Theorem C18_commit_exact :
  forall s c id ps, wf s -> posts s id = Some ps -> owner s id = Some c ->
    snd (step s (ECommit c id)) = OAccepted :: map deliver ps /\
    deliveries (snd (step s (ECommit c id))) = ps /\
    (forall l, queue (fst (step s (ECommit c id))) l = queue s l ++ on_link l ps) /\
    posts (fst (step s (ECommit c id))) id = None.
Proof. exact commit_exact. Qed.
Print Assumptions C18_commit_exact.

(** ... and the buffer is exactly what the script posted under the id since the declare: declare,
    any script that leaves the transaction alone, commit - delivers those posts and only those. *)
Theorem C18_declare_commit_exact :
  forall s c es, wf s -> enabled s (EDeclare c) = true ->
    let id := next_id s in
    let s2 := fst (run (fst (step s (EDeclare c))) es) in
    Forall (fun e => quiet c id e = true) es -> alive s2 = true ->
    (forall l b m, In (EPost l (Some id) b m) es -> mem l (links s) = true) ->
    snd (step s2 (ECommit c id)) = OAccepted :: map deliver (tx_posts id es) /\
    (forall l, queue (fst (step s2 (ECommit c id))) l = queue s2 l ++ on_link l (tx_posts id es)).
Proof. exact declare_commit_exact. Qed.
Print Assumptions C18_declare_commit_exact.

(** (c) Rollback, closing detach of the declaring control link, end of the session, loss of the
    transport: the step delivers nothing, the transaction is gone, and a message that only it held
    is never delivered by any later step. *)
Theorem C18_rollback_never :
  forall s c id m e es, wf s -> only_under s m id -> owner s id = Some c ->
    finishes c id e = true -> Forall (fun e' => is_post_of m e' = false) es ->
    deliveries (snd (step s e)) = [] /\ posts (fst (step s e)) id = None /\
    Forall (fun o => ~ delivers m o) (snd (run (fst (step s e)) es)).
Proof. exact rollback_never. Qed.
Print Assumptions C18_rollback_never.

(** a message in no buffer that is not posted again is never delivered; a dead session is silent *)
Theorem C18_no_source :
  forall es s m, ~ buffered s m -> Forall (fun e => is_post_of m e = false) es ->
    Forall (fun o => ~ delivers m o) (snd (run s es)).
Proof. exact no_source. Qed.
Print Assumptions C18_no_source.

Theorem C18_dead_silent :
  forall es s, alive s = false -> Forall (fun o => o = []) (snd (run s es)) /\ fst (run s es) = s.
Proof. exact dead_silent. Qed.
Print Assumptions C18_dead_silent.

(** (d) Freshness: the ids answered to the declares of a script are pairwise different; a declare
    is answered with an id that no earlier declare of the script was answered with. *)
Theorem C18_fresh_ids : forall es, NoDup (declared (concat (snd (run init es)))).
Proof. exact freshness. Qed.
Print Assumptions C18_fresh_ids.

Theorem C18_fresh_declare :
  forall es e id, In (ODeclared id) (snd (step (fst (run init es)) e)) ->
    ~ In id (declared (concat (snd (run init es)))).
Proof. exact fresh_declare. Qed.
Print Assumptions C18_fresh_declare.

(** (e) Once.  The discharge of a live transaction by its control link is accepted; afterwards every
    discharge of that id and every post under it is refused with unknown-id (or could not even be
    sent) and delivers nothing - for the rest of any script. *)
Theorem C18_once :
  forall s c id e es, wf s -> owner s id = Some c -> discharges c id e ->
    In OAccepted (snd (step s e)) /\
    Forall (fun eo => mentions id (fst eo) = true -> refusal (snd eo) /\ deliveries (snd eo) = [])
           (trace (fst (step s e)) es).
Proof. exact once. Qed.
Print Assumptions C18_once.

(** Unknown or finished ids: a discharge is rejected with unknown-id and changes nothing; a post ends
    the session with unknown-id; neither delivers anything.  An id that was issued and is not live
    never becomes live again. *)
Theorem C18_unknown_refused :
  forall s e id, posts s id = None -> mentions id e = true ->
    refusal (snd (step s e)) /\ deliveries (snd (step s e)) = [] /\
    (enabled s e = true ->
     match e with
     | EPost _ _ _ _ => step s e = (dead s, [OSessionEnd (Some UnknownId)])
     | _ => step s e = (s, [ORejected UnknownId])
     end).
Proof. exact unknown_refused. Qed.
Print Assumptions C18_unknown_refused.

Theorem C18_finished_forever :
  forall es s id, posts s id = None -> id < next_id s -> posts (fst (run s es)) id = None.
Proof. exact dead_forever. Qed.
Print Assumptions C18_finished_forever.

(** a control link can discharge only what it declared: a foreign discharge is refused, the transaction stays *)
Theorem C18_foreign_discharge_refused :
  forall s c c' id e, owner s id = Some c -> c' <> c -> discharges c' id e -> enabled s e = true ->
    step s e = (s, [ORejected UnknownId]).
Proof. exact foreign_discharge_refused. Qed.
Print Assumptions C18_foreign_discharge_refused.

(** (f) A plain post on an attached link of a live session is delivered in its own step whatever the
    transactions are, at the end of its link's queue, and touches no transaction and no other queue. *)
Theorem C18_plain_post :
  forall s l b m, alive s = true -> mem l (links s) = true ->
    snd (step s (EPost l None b m)) = [ODeliver l m] /\
    live (fst (step s (EPost l None b m))) = live s /\
    queue (fst (step s (EPost l None b m))) l = queue s l ++ [m] /\
    (forall l', l' <> l -> queue (fst (step s (EPost l None b m))) l' = queue s l').
Proof. exact plain_post. Qed.
Print Assumptions C18_plain_post.

(** Non-vacuity: concrete scripts (commit with two links, rollback, loss of the control link, end of
    the session, four declares, two control links, plain posts) ... *)
Theorem C18_ex_commit :
  snd (run init [ECtlAttach 0; ELinkAttach 1; ELinkAttach 2; EDeclare 0; EPost 1 (Some 0) false 10;
                 EPost 2 (Some 0) false 11; EPost 1 None false 12; EPost 1 (Some 0) true 13; ECommit 0 0;
                 ECommit 0 0; EPost 1 (Some 0) false 14; EPost 1 None false 15]) =
  [[OAttached]; [OAttached]; [OAttached]; [ODeclared 0]; [OProvisional 0]; [OProvisional 0]; [ODeliver 1 12]; [];
   [OAccepted; ODeliver 1 10; ODeliver 2 11; ODeliver 1 13]; [ORejected UnknownId]; [OSessionEnd (Some UnknownId)]; []].
Proof. exact ex_commit. Qed.

Theorem C18_ex_rollback :
  snd (run init [ECtlAttach 0; ELinkAttach 1; EDeclare 0; EPost 1 (Some 0) false 10; ERollback 0 0;
                 EPost 1 None false 11; ERollback 0 0; ECommit 0 0]) =
  [[OAttached]; [OAttached]; [ODeclared 0]; [OProvisional 0]; [OAccepted]; [ODeliver 1 11];
   [ORejected UnknownId]; [ORejected UnknownId]].
Proof. exact ex_rollback. Qed.

Theorem C18_ex_ctl_loss :
  snd (run init [ECtlAttach 0; ELinkAttach 1; EDeclare 0; EPost 1 (Some 0) false 10; ECtlDetach 0;
                 ECtlAttach 0; ECommit 0 0; EPost 1 None false 11]) =
  [[OAttached]; [OAttached]; [ODeclared 0]; [OProvisional 0]; [ODetached]; [OAttached];
   [ORejected UnknownId]; [ODeliver 1 11]].
Proof. exact ex_ctl_loss. Qed.

Theorem C18_ex_session_end :
  snd (run init [ECtlAttach 0; ELinkAttach 1; EDeclare 0; EPost 1 (Some 0) false 10; ESessionEnd;
                 ECommit 0 0; EPost 1 None false 11]) =
  [[OAttached]; [OAttached]; [ODeclared 0]; [OProvisional 0]; [OSessionEnd None]; []; []].
Proof. exact ex_session_end. Qed.

Theorem C18_ex_fresh :
  declared (concat (snd (run init [ECtlAttach 0; EDeclare 0; EDeclare 0; ECommit 0 0; EDeclare 0;
                                   ERollback 0 1; EDeclare 0]))) = [0; 1; 2; 3]%N.
Proof. exact ex_fresh. Qed.

Theorem C18_ex_foreign :
  snd (run init [ECtlAttach 0; ECtlAttach 1; ELinkAttach 1; EDeclare 0; EDeclare 1; EPost 1 (Some 0) false 10;
                 EPost 1 (Some 1) false 11; ECommit 1 0; ERollback 1 0; ECtlDetach 1; ECommit 0 0]) =
  [[OAttached]; [OAttached]; [OAttached]; [ODeclared 0]; [ODeclared 1]; [OProvisional 0]; [OProvisional 1];
   [ORejected UnknownId]; [ORejected UnknownId]; [ODetached]; [OAccepted; ODeliver 1 10]].
Proof. exact ex_foreign. Qed.

Theorem C18_ex_plain :
  snd (run init [ELinkAttach 1; ECtlAttach 0; EDeclare 0; EPost 1 (Some 0) false 10; EPost 1 None false 11;
                 EPost 1 None true 12; ERollback 0 0; EPost 1 None false 13]) =
  [[OAttached]; [OAttached]; [ODeclared 0]; [OProvisional 0]; [ODeliver 1 11]; [ODeliver 1 12]; [OAccepted]; [ODeliver 1 13]].
Proof. exact ex_plain. Qed.

(** ... and the hypotheses of the theorems above are met on such scripts. *)
Theorem C18_ex_isolation_hyps :
  let s := fst (run init [ECtlAttach 0; ELinkAttach 1; EDeclare 0]) in
  let es := [EPost 1 None false 11; EDeclare 0; EPost 1 (Some 1) false 12; ECommit 0 1] in
  ~ buffered s 10 /\ Forall (fun e => is_post_of 10 e = false) es /\ Forall (fun e => is_commit_of 0 e = false) es /\
  snd (step s (EPost 1 (Some 0) false 10)) = [OProvisional 0] /\
  snd (run s (EPost 1 (Some 0) false 10 :: es)) =
    [[OProvisional 0]; [ODeliver 1 11]; [ODeclared 1]; [OProvisional 1]; [OAccepted; ODeliver 1 12]].
Proof. exact ex_isolation_hyps. Qed.

Theorem C18_ex_rollback_hyps :
  let s := fst (run init [ECtlAttach 0; ELinkAttach 1; EDeclare 0; EPost 1 (Some 0) false 10]) in
  wf s /\ only_under s 10 0 /\ owner s 0 = Some 0%N /\ buffered s 10 /\
  finishes 0 0 (ERollback 0 0) = true /\ finishes 0 0 (ECtlDetach 0) = true /\
  finishes 0 0 ESessionEnd = true /\ finishes 0 0 EConnLost = true.
Proof. exact ex_rollback_hyps. Qed.

Theorem C18_ex_declare_commit_hyps :
  let s := fst (run init [ECtlAttach 0; ELinkAttach 1; ELinkAttach 2]) in
  let es := [EPost 1 (Some 0) false 10; EPost 2 (Some 0) false 11; EPost 1 None false 12; EDeclare 0;
             EPost 1 (Some 1) false 14; EPost 1 (Some 0) true 13; ERollback 0 1] in
  wf s /\ enabled s (EDeclare 0) = true /\ next_id s = 0%N /\
  Forall (fun e => quiet 0 0 e = true) es /\ alive (fst (run (fst (step s (EDeclare 0))) es)) = true /\
  (forall l b m, In (EPost l (Some 0%N) b m) es -> mem l (links s) = true) /\
  tx_posts 0 es = [(1, 10); (2, 11); (1, 13)]%N.
Proof. exact ex_declare_commit_hyps. Qed.

Theorem C18_ex_once_hyps :
  let s := fst (run init [ECtlAttach 0; ELinkAttach 1; EDeclare 0; EDeclare 0]) in
  wf s /\ owner s 1 = Some 0%N /\ discharges 0 1 (ECommit 0 1) /\ discharges 0 1 (ERollback 0 1) /\
  mentions 1 (ECommit 0 1) = true /\ mentions 1 (EPost 1 (Some 1%N) false 5) = true.
Proof. exact ex_once_hyps. Qed.

(** ** The controller side (Txn/Controller.v): right id, right fail flag, the verdict reported, one discharge *)
From FV Require Import Txn.Controller Proofs.ControllerProofs.

(** In every run of declare / post / commit / rollback / discharge / drop calls, whatever the coordinator
    answers: a declare message is written only by a declare call, and every post and every discharge
    written by a call on handle k names exactly the transaction id that the coordinator issued in its
    answer to the k-th declare call. *)
Theorem C18_controller_right_id_on_the_wire :
  forall ops i o w r, nth_error ops i = Some o -> nth_error (snd (crun [] ops)) i = Some (w, r) ->
  forall x, In x w ->
    match x with
    | WDecl => exists a, o = ODecl a
    | WPost id _ | WDisch id _ => exists k, op_slot o = Some k /\ nth_error (issued (firstn i ops)) k = Some (Some id)
    end.
Proof. intros ops i o w r Ho Hw x Hx. exact (run_wire_ids ops [] [] inv_init i o w r Ho Hw x Hx). Qed.
Print Assumptions C18_controller_right_id_on_the_wire.

(** ... and the rollbacks written for handles still held when the application goes away *)
Theorem C18_controller_final_rollbacks :
  forall ops x, In x (final_wire (fst (crun [] ops))) ->
    exists k id, x = WDisch id true /\ nth_error (issued ops) k = Some (Some id).
Proof. intros ops x Hx. exact (final_wire_ids ([] ++ ops) _ x (inv_run ops [] [] inv_init) Hx). Qed.
Print Assumptions C18_controller_final_rollbacks.

(** commit writes discharge(id, fail = false) first - anything after it is the rollback of the handle
    dropped undischarged -, returns Ok exactly when the coordinator accepted and the coordinator's
    rejection otherwise; rollback and drop write fail = true only *)
Theorem C18_controller_fail_flag_and_verdict :
  (forall st k a h st' w r, slot st k = Some h -> h_done h = false -> cstep st (OCommit k a) = (st', w, r) ->
     exists rest, w = WDisch (h_id h) false :: rest /\ (forall x, In x rest -> x = WDisch (h_id h) true) /\
       (a = AAccepted -> rest = [] /\ r = ROk) /\ (forall c, a = ARejected c -> r = RRejected c) /\ (r = ROk -> a = AAccepted)) /\
  (forall st k a h st' w r, slot st k = Some h -> h_done h = false -> cstep st (ORollback k a) = (st', w, r) ->
     w <> [] /\ (forall x, In x w -> x = WDisch (h_id h) true) /\
       (a = AAccepted -> w = [WDisch (h_id h) true] /\ r = ROk) /\ (forall c, a = ARejected c -> r = RRejected c) /\ (r = ROk -> a = AAccepted)) /\
  (forall st k h st' w r, slot st k = Some h -> h_done h = false -> cstep st (ODrop k) = (st', w, r) -> w = [WDisch (h_id h) true]).
Proof. exact (conj commit_says_commit (conj rollback_says_rollback drop_rolls_back)). Qed.
Print Assumptions C18_controller_fail_flag_and_verdict.

(** the declare call reports what the coordinator answered *)
Theorem C18_controller_declare_verdict :
  forall st a st' w r, cstep st (ODecl a) = (st', w, r) ->
  w = [WDecl] /\ (forall id, a = ADeclared id -> r = ROkId id /\ slot st' (length st) = Some {| h_id := id; h_done := false |}) /\
  (forall c, a = ARejected c -> r = RRejected c) /\
  ((forall id, a <> ADeclared id) -> slot st' (length st) = None).
Proof. exact declare_verdict. Qed.
Print Assumptions C18_controller_declare_verdict.

(** a commit, a rollback, a drop, or a discharge the coordinator accepted closes the handle; once closed,
    no call on it in any continuation writes a discharge again *)
Theorem C18_controller_discharged_at_most_once :
  (forall st k o st' w r h, slot st k = Some h -> cstep st o = (st', w, r) ->
     (exists a, o = OCommit k a) \/ (exists a, o = ORollback k a) \/ o = ODrop k \/ (exists fail, o = ODisch k fail AAccepted) ->
     closed st' k) /\
  (forall ops st k, closed st k ->
     closed (fst (crun st ops)) k /\
     forall i o w r, nth_error ops i = Some o -> nth_error (snd (crun st ops)) i = Some (w, r) ->
       op_slot o = Some k -> existsb is_disch w = false).
Proof. exact (conj closing_step discharged_at_most_once). Qed.
Print Assumptions C18_controller_discharged_at_most_once.

Example C18_controller_example :
  let a := [10%N; 11%N] in let b := [7%N] in
  crun [] [ODecl (ADeclared a); ODecl (ARejected 2%N); ODecl (ADeclared b);
           OPost 0 0 PTxAccepted; OCommit 0 (ARejected 1%N); OPost 2 1 (PTxRejected 3%N); ORollback 2 AAccepted; OCommit 0 AAccepted] =
  ([None; None; None],
   [([WDecl], ROkId a); ([WDecl], RRejected 2%N); ([WDecl], ROkId b);
    ([WPost a 0], ROkAccepted);
    ([WDisch a false; WDisch a true], RRejected 1%N);
    ([WPost b 1], ROkRejected 3%N);
    ([WDisch b true], ROk);
    ([], RSkip)]).
Proof. exact controller_example. Qed.
