(** C01 — End-to-end delivery.  The theorem composes the model of the sending
    session's cut of a delivery into frames (Frame/SessionSplit.v, tied to
    split_transfer and to the frame encoder by the C07 check) with the model of
    the receiving link's reassembly (Link/Receiver.v, tied to the Receiver by the
    C10 check).  Ordering of transfers on a session is C07/C11, framing on the
    byte stream C06.  The composition itself - real sender, real listener, real
    byte stream cut at arbitrary offsets - is exercised end to end on generated
    configurations every run (harness e2e). *)
From FV Require Import Base.Serial Frame.SessionSplit Link.Receiver Proofs.SessionSplitProofs Proofs.ReceiverProofs Proofs.EndToEnd.
Open Scope N_scope.

(** Whatever the message [m] (any bytes, any length) and whatever the frame size
    (any body limit [mfb] that leaves room for the transfer performatives of
    lengths [lf], [lr]): the frames the sending session produces, fed to a
    receiving link that is inside recv() with credit, yield nothing until the last
    frame and then exactly one delivery whose bytes are [m], with the delivery-id
    and tag of the first frame. *)
Theorem C01_one_delivery_intact :
  forall s mfb lf lr d t f (m : list N),
    lf <= mfb -> lr < mfb ->
    r_waiting s = true -> r_queue s = [] -> r_inc s = None -> 1 <= r_credit s ->
    let sizes := session_split mfb lf lr (N.of_nat (length m)) in
    let r := rrun s (map EXfer (frames_of d t f (cut sizes m))) in
    concat (removelast (snd r)) = [] /\
    exists info, last (snd r) [] = [ORecv info (Some f) m] /\ d_id info = d /\ d_tag info = t.
Proof. exact end_to_end. Qed.
Print Assumptions C01_one_delivery_intact.

(** Non-vacuity: 1500 bytes through frames with a 504-byte body limit (4 frames) into a fresh Auto(5) link. *)
Example C01_example :
  let m := map N.of_nat (seq 0 1500) in
  let s := fst (rstep (rinit (Auto 5) false 0) ERecv) in
  let r := rrun s (map EXfer (frames_of 7 7 0 (cut (session_split 504 30 12 1500) m))) in
  length (snd r) = 4%nat /\ last (snd r) [] = [ORecv (mkD 7 7 None) (Some 0) m].
Proof. vm_compute. split; reflexivity. Qed.
