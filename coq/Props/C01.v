(** C01 — End-to-end delivery.  The theorem composes the model of the sending
    session's cut of a delivery into frames (Frame/SessionSplit.v, tied to
    split_transfer and to the frame encoder by the C07 check) with the model of
    the receiving link's reassembly (Link/Receiver.v, tied to the Receiver by the
    C10 check).  Ordering of transfers on a session is C07/C11, framing on the
    byte stream C06.  The composition itself - real sender, real listener, real
    byte stream cut at arbitrary offsets - is exercised end to end on generated
    configurations every run (harness e2e). *)
From FV Require Import Base.Serial Frame.SessionSplit Link.Receiver Proofs.SessionSplitProofs Proofs.ReceiverProofs Proofs.EndToEnd Proofs.Stream.
From Coq Require Import List.
From FV Require Import Base.Bytes Codec.Value Codec.Composite Codec.CompositeSpec Frame.Transfer Frame.AmqpFrame Frame.TransferWire Proofs.FrameProofs Proofs.TransferWireProofs Link.FromWire Proofs.FromWireProofs Codec.Message Proofs.MessageProofs.
Import ListNotations.
Open Scope N_scope.

(** Whatever the message [m] (any bytes, any length) and whatever the frame size
    (any body limit [mfb] that leaves room for the transfer performatives of
    lengths [lf], [lr]): the frames the sending session produces, fed to a
    receiving link that is inside recv() with credit, yield nothing until the last
    frame and then exactly one delivery whose bytes are [m], with the delivery-id
    and tag of the first frame. *)
Theorem C01_one_delivery_intact :
  forall s mfb lf lr d t f (m : list N),
    lf <= mfb -> lr < mfb ->
    r_waiting s = true -> r_queue s = [] -> r_inc s = None -> 1 <= r_credit s ->
    let sizes := session_split mfb lf lr (N.of_nat (length m)) in
    let r := rrun s (map EXfer (frames_of d t f (cut sizes m))) in
    concat (removelast (snd r)) = [] /\
    exists info, last (snd r) [] = [ORecv info (Some f) m] /\ d_id info = d /\ d_tag info = t.
Proof. exact end_to_end. Qed.
Print Assumptions C01_one_delivery_intact.

(** Non-vacuity: 1500 bytes through frames with a 504-byte body limit (4 frames) into a fresh Auto(5) link. *)
Example C01_example :
  let m := map N.of_nat (seq 0 1500) in
  let s := fst (rstep (rinit (Auto 5) false 0) ERecv) in
  let r := rrun s (map EXfer (frames_of 7 7 0 (cut (session_split 504 30 12 1500) m))) in
  length (snd r) = 4%nat /\ last (snd r) [] = [ORecv (mkD 7 7 None) (Some 0) m].
Proof. vm_compute. split; reflexivity. Qed.

(** The stream: for every list of messages (any number, any bytes, any lengths, any delivery-ids), every frame
    size that leaves room for the transfer performatives and every automatic credit n >= 1: when the application
    calls recv(), the frames of the next message arrive, and the application accepts the delivery - over and over -
    the deliveries returned are exactly the messages sent, each once, in order, unchanged; no delivery is ever
    refused for lack of credit; and the link is back in its idle state (credit + processed = n) after every
    round, so the stream can go on for ever.  This composes the session's cut (C07), the receiving link's
    reassembly (C10) and its credit replenishment (C09). *)
Theorem C01_stream_intact :
  forall n mfb lf lr, 1 <= n -> lf <= mfb -> lr < mfb ->
  forall (ms : list (N * list N)) s, idle_auto n s ->
    let r := rrun s (concat (map (fun p => mround mfb lf lr (fst p) (snd p)) ms)) in
    idle_auto n (fst r) /\ payloads (concat (snd r)) = map snd ms /\ ~ In (ORecvErr ETransferLimit) (concat (snd r)).
Proof. exact stream_intact. Qed.
Print Assumptions C01_stream_intact.

(** the initial state of a link in Auto(n) mode is idle *)
Example C01_stream_start : forall n second idc, idle_auto n (rinit (Auto n) second idc).
Proof. exact idle_auto_init. Qed.

Example C01_stream_example :
  let ms := [(0, map N.of_nat (seq 0 700)); (1, []); (2, map N.of_nat (seq 5 1200)); (3, [7])] in
  payloads (concat (snd (rrun (rinit (Auto 3) false 0) (concat (map (fun p => mround 504 30 12 (fst p) (snd p)) ms))))) = map snd ms.
Proof. exact stream_example. Qed.

(** ** on the wire: the sending transport composed with the receiving frame decoder

    [transfer_perfs] builds the four transfer performatives [encode_transfer] writes (as given / more
    := true / per-delivery fields cleared / cleared with the caller's more) with the model of the
    typed layer; [transfer_layout] is what C06_transfer_frames establishes for the chunks the encoder
    puts on the wire.  For every channel, every admissible transfer field vector, every payload and
    every frame limit: each chunk is read by the model of the receiving FrameDecoder as a transfer
    performative with exactly the expected fields - the first frame carries the delivery-id, tag,
    format and settled flag, the later ones do not, all but the last say more = true - and the payload
    parts read, in order, concatenate to the payload. *)
Theorem C01_wire_transfer_read_back :
  forall m ch vs p payload chunks fuel,
    ch < 65536 -> fields_ok (s_fields transfer_schema) vs = true ->
    Forall (fun v => (depth v <= fuel)%nat) vs -> (1 <= fuel)%nat ->
    transfer_perfs vs = Some p ->
    transfer_layout m ch p payload chunks ->
    (lenN (p_single p) + lenN payload <= m - 4 ->
       map (dec_frame fuel) chunks = [Ok {| f_channel := ch; f_body := FPerf transfer_schema vs payload |}]) /\
    (m - 4 < lenN (p_single p) + lenN payload ->
       exists first mids last,
         first ++ concat mids ++ last = payload /\
         map (dec_frame fuel) chunks = map (@Ok frame) (expected_frames ch vs first mids last)).
Proof. exact transfer_wire_decodes. Qed.
Print Assumptions C01_wire_transfer_read_back.

(** ** the whole chain for a delivery that does not fit one frame

    sending transport (encode_transfer with the typed layer's performatives, laid out as C06 proves)
    -> the bytes of every frame -> receiving FrameDecoder -> the fields the receiving link reads
    ([xfer_of_frame]: delivery-id, tag, format, settled, more, rcv-settle-mode, aborted, payload)
    -> receiving link inside recv() with credit: nothing is handed over before the last frame, the last
    frame hands over exactly one delivery whose bytes are the payload, with the delivery-id and tag the
    sender put on the first frame; one credit is used.  For every channel, handle, delivery-id, tag,
    message-format, delivery state, payload and frame limit.  (The other outcome the receiving-link
    model has, the error for rcv-settle-mode second on a link negotiated as first, cannot occur for
    these frames - they carry no rcv-settle-mode - but is kept as stated by C10_reassembly.) *)
Theorem C01_wire_to_delivery :
  forall m ch h d tb f st rs b payload p chunks fuel s,
    let vs := [h; VUint d; VBinary tb; VUint f; VNull; VBool false; VNull; st; rs; VBool false; b] in
    ch < 65536 -> fields_ok (s_fields transfer_schema) vs = true ->
    Forall (fun v => (depth v <= fuel)%nat) vs -> (1 <= fuel)%nat ->
    transfer_perfs vs = Some p ->
    transfer_layout m ch p payload chunks ->
    m - 4 < lenN (p_single p) + lenN payload ->
    r_waiting s = true -> r_queue s = [] -> r_inc s = None -> 1 <= r_credit s ->
    exists frames xs,
      map (dec_frame fuel) chunks = map (@Ok frame) frames /\
      map xfer_of_frame frames = map (@Some xfer) xs /\
      let r := rrun s (map EXfer xs) in
      exists info res,
        concat (removelast (snd r)) = [] /\ last (snd r) [] = [res] /\
        (res = ORecv info (Some f) payload \/ res = ORecvErr EIllegalRsm) /\
        d_id info = d /\ d_tag info = from_be tb /\
        r_inc (fst r) = None /\ r_credit (fst r) = r_credit s - 1 /\ r_dc (fst r) = wadd (r_dc s) 1.
Proof. exact wire_to_delivery. Qed.
Print Assumptions C01_wire_to_delivery.

(** ... and for a delivery that fits one frame: the one frame is read back and handed over at once *)
Theorem C01_wire_to_delivery_single_frame :
  forall m ch h d tb f st rs b payload p chunks fuel s,
    let vs := [h; VUint d; VBinary tb; VUint f; VNull; VBool false; VNull; st; rs; VBool false; b] in
    ch < 65536 -> fields_ok (s_fields transfer_schema) vs = true ->
    Forall (fun v => (depth v <= fuel)%nat) vs -> (1 <= fuel)%nat ->
    transfer_perfs vs = Some p ->
    transfer_layout m ch p payload chunks ->
    lenN (p_single p) + lenN payload <= m - 4 ->
    r_waiting s = true -> r_queue s = [] -> r_inc s = None -> 1 <= r_credit s ->
    exists fr x,
      map (dec_frame fuel) chunks = [Ok fr] /\ xfer_of_frame fr = Some x /\
      exists info res,
        snd (rstep s (EXfer x)) = [res] /\
        (res = ORecv info (Some f) payload \/ res = ORecvErr EIllegalRsm) /\
        d_id info = d /\ d_tag info = from_be tb /\
        r_inc (fst (rstep s (EXfer x))) = None /\
        r_credit (fst (rstep s (EXfer x))) = r_credit s - 1 /\ r_dc (fst (rstep s (EXfer x))) = wadd (r_dc s) 1.
Proof. exact wire_to_delivery_single. Qed.
Print Assumptions C01_wire_to_delivery_single_frame.

(** ** the last link of the chain: the payload handed over is decoded to the message that was encoded

    [enc_message] / [dec_message] (Codec/Message.v) model the message serializer and the visitor of
    the message deserializer at the level of sections (header, delivery- and message-annotations,
    properties, application-properties, body, footer), with data / amqp-sequence batches read as
    TransparentVecAccess does.  For every message whose optional sections are any well-formed
    sections of the right kind and whose body is one amqp-value section, or one or more data
    sections, or one or more amqp-sequence sections: decoding the serializer's bytes gives back
    exactly these sections.  (The empty body is written as an amqp-value null and reads back as
    that: known finding c03-typed-roundtrip-message-body-empty, witnessed in the example.) *)
Theorem C01_message_sections_intact :
  forall m fuel b,
    msg_ok m = true -> Forall (fun v => (depth v <= fuel)%nat) (sections_of m) ->
    enc_message m = Some b -> dec_message fuel b = Ok m.
Proof. exact message_roundtrip. Qed.
Print Assumptions C01_message_sections_intact.
