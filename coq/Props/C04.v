(** C04 — Decoding untrusted bytes is total and resource-bounded (Value, slice reader). *)
From FV Require Import Base.Bytes Codec.Value Codec.Dec Proofs.DecTotal.
From FV Require Import Tie.Tie_FormatCodes Gen.FormatCodes Gen.CodecConsts Codec.Spec.
From FV Require Import Codec.Composite Frame.AmqpFrame Proofs.AmqpFrameProofs.
Open Scope N_scope.

(** Tie to the source of this run: the regenerated format-code table is the
    specification's, TryFrom<u8> is its inverse, and the size offsets / caps /
    thresholds are the ones the model uses. *)
Theorem C04_tie_tables :
  (subset gen_enum_table spec_code_table = true /\ subset spec_code_table gen_enum_table = true /\
   length gen_enum_table = length spec_code_table) /\
  (offset_list8 = 1 /\ offset_list32 = 4 /\ offset_map8 = 1 /\ offset_map32 = 4 /\
   offset_array8 = 2 /\ offset_array32 = 5 /\ max_array_count = MAXCOUNT /\
   u8_max_minus_1 = U8MAX1 /\ u32_max_minus_4 = U32MAX4 /\
   decimal32_width = 4 /\ decimal64_width = 8 /\ decimal128_width = 16 /\ uuid_width = 16).
Proof. exact (conj tie_enum_is_spec tie_codec_consts). Qed.

(** For every byte string, every decoder state and every amount of fuel the
    decoder model returns a value or an error, never [Panic]: every size
    subtraction is checked, an odd map count is an error. *)
Theorem C04_no_panic : forall fuel e bs, dec fuel e bs <> Panic.
Proof. exact dec_no_panic. Qed.
Print Assumptions C04_no_panic.

(** Termination with a bound: the nesting depth the decoder explores never
    exceeds the input length + 1 (every level of recursion is entered only
    after at least one byte has been consumed); every loop on a level runs at
    most [count] times, and [count] is capped at MAX_ARRAY_COUNT. *)
Theorem C04_terminates : forall e bs, dec (S (length bs)) e bs <> OutOfFuel.
Proof. exact dec_enough_fuel. Qed.
Print Assumptions C04_terminates.

(** A successful decode consumes a prefix: what it hands back is no longer than what it got. *)
Theorem C04_consumes_prefix :
  forall fuel e bs v e' r, dec fuel e bs = Ok (v, e', r) -> (length r <= length bs)%nat.
Proof. exact dec_rest_le. Qed.
Print Assumptions C04_consumes_prefix.

(** Known finding (class c04-stack-depth): the recursion depth is NOT bounded by
    a constant.  [nest n] is 9n+1 bytes long, decodes successfully, and needs
    exactly n+1 nested calls; the implementation recurses on the native stack
    (1000 levels abort a debug build). *)
Definition C04_depth_bounded_statement : Prop :=
  exists D : nat, forall bs, dec D None bs <> OutOfFuel.
Theorem C04_depth_bounded_refuted : ~ C04_depth_bounded_statement.
Proof. intros [D H]. exact (H (nest D) (nest_needs_depth D)). Qed.
Print Assumptions C04_depth_bounded_refuted.

Theorem C04_deep_input_is_valid :
  forall n, length (nest n) = (9 * n + 1)%nat /\ dec (S n) None (nest n) = Ok (nested_lists n, None, []).
Proof.
  intros n. split; [apply nest_length|]. rewrite <- (app_nil_r (nest n)). apply nest_decodes.
Qed.
Print Assumptions C04_deep_input_is_valid.

(** Non-vacuity / former panics: the inputs on which the code used to panic are plain errors. *)
Example C04_former_panics_are_errors :
  map (fun bs => match dec 5 None bs with Err _ => true | _ => false end)
      [[192; 0; 0]; [193; 0; 0]; [208; 0; 0; 0; 0; 0; 0; 0; 0]; [224; 1; 1; 64]; [193; 2; 1; 64]]
  = [true; true; true; true; true].
Proof. vm_compute. reflexivity. Qed.

(** the typed layer on top of the value decoder - the field loop of a composite, an enum of composites, a
    whole frame body - is total as well *)
Theorem C04_typed_layer_total :
  (forall fuel s bs, dec_composite fuel s bs <> Panic /\ ((length bs < fuel)%nat -> dec_composite fuel s bs <> OutOfFuel)) /\
  (forall fuel tbl bs, dec_via_enum fuel tbl bs <> Panic /\ ((length bs < fuel)%nat -> dec_via_enum fuel tbl bs <> OutOfFuel)) /\
  (forall bs, (forall fuel, dec_frame fuel bs <> Panic) /\ dec_frame (S (length bs)) bs <> OutOfFuel).
Proof. exact (conj dec_composite_total (conj dec_via_enum_total dec_frame_total)). Qed.
Print Assumptions C04_typed_layer_total.
