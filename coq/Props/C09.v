(** C09 — Receiver link credit: accounting, enforcement and replenishment.
    About Link/Receiver.v (see C10 for the model's scope). *)
From FV Require Import Base.Serial Link.Receiver Proofs.ReceiverProofs.
Open Scope N_scope.

(** Enforcement.  In every step: either no delivery is returned, or the step
    writes no flow and the deliveries it returns are taken off the credit the
    link holds - so between two flows the link never returns more deliveries
    than the credit of the earlier one; and with no credit a completed delivery
    is refused with the transfer-limit error instead of being returned. *)
Theorem C09_enforcement :
  (forall s e, let r := rstep s e in
     count_recv (snd r) = 0 \/
     (forallb (fun o => negb (is_flow o)) (snd r) = true /\ r_credit (fst r) + count_recv (snd r) <= r_credit s)) /\
  (forall s i, r_credit s = 0 -> snd (complete s i) = [ORecvErr ETransferLimit]).
Proof. split; [exact rstep_credit|exact complete_refuses]. Qed.
Print Assumptions C09_enforcement.

(** Every flow the link writes reports the delivery-count and the credit the
    link holds at that moment (the credit it grants). *)
Theorem C09_flow_reports_state :
  forall s e dc c dr ec, In (OFlow dc c dr ec) (snd (rstep s e)) ->
    dc = r_dc (fst (rstep s e)) /\ c = r_credit (fst (rstep s e)).
Proof. exact flow_reports_state. Qed.
Print Assumptions C09_flow_reports_state.

(** Replenishment.  In Auto(n) mode, n >= 1, against a sender that sends one
    delivery at a time and an application that accepts each delivery after
    receiving it: a stream of any length is received completely, no delivery is
    ever refused, and at the start of every round the link holds at least one credit. *)
Theorem C09_replenishment :
  forall n second idc (ds : list (N * list N)), 1 <= n ->
    let r := rrun (rinit (Auto n) second idc) (concat (map (fun p => round (fst p) (snd p)) ds)) in
    idle_auto n (fst r) /\ 1 <= r_credit (fst r) /\
    count_recv (concat (snd r)) = N.of_nat (length ds) /\
    ~ In (ORecvErr ETransferLimit) (concat (snd r)).
Proof.
  intros n second idc ds Hn.
  destruct (stream_never_stalls n Hn ds _ (idle_auto_init n second idc)) as (A & B & C).
  cbn zeta. split; [exact A|]. split; [exact (idle_auto_has_credit n _ Hn A)|]. split; assumption.
Qed.
Print Assumptions C09_replenishment.

(** Accounting.  The statement "a flow reports the sender's delivery-count as
    last learnt, advanced by the deliveries received since" does NOT hold of the
    faithful model (nor of the code): the peer's flow is applied on arrival while
    transfers wait in the link's queue until the application calls recv(), so a
    delivery that arrived before the flow is counted again after it.  Witness:
    idc 552, one delivery arrives, the sender reports delivery-count 554, the
    application receives the delivery and sets credit 4: the flow says 555. *)
Theorem C09_accounting_refuted :
  exists es dc c dr ec,
    In (OFlow dc c dr ec) (concat (snd (rrun (rinit (Auto 2) true 552) es))) /\ dc = 555 /\
    es = [EXfer (single 9 [0]); EPFlow (Some 554) true; ERecv; ECredit 4].
Proof.
  exists [EXfer (single 9 [0]); EPFlow (Some 554) true; ERecv; ECredit 4], 555, 4, false, false.
  split; [vm_compute; auto|]. split; reflexivity.
Qed.
Print Assumptions C09_accounting_refuted.

(** Non-vacuity: Auto(3), three rounds - the credit is topped up after the first disposition. *)
Example C09_example :
  snd (rrun (rinit (Auto 3) false 100) (round 1 [7] ++ round 2 [8])) =
  [[]; [ORecv (mkD 1 1 None) (Some 0) [7]]; [ODisp 1 None true; OFlow 101 3 false false];
   []; [ORecv (mkD 2 2 None) (Some 0) [8]]; [ODisp 2 None true; OFlow 102 3 false false]].
Proof. vm_compute. reflexivity. Qed.
