(** C13 — Session and link lifecycles.  The theorems are about the session
    lifecycle model Session/SessLife.v, the sender-link lifecycle model
    Link/LinkLife.v and the receiver-link lifecycle model Link/RecvLife.v (all
    run against the real engines on scripts every run). *)
From FV Require Import Session.SessLife Proofs.SessionLifeProofs Link.LinkLife Proofs.LinkLifeProofs.

(** For every interleaving of local calls (begin, end, end_with_error, drop,
    cancelled end) and a protocol-abiding peer: the session writes one begin,
    later at most one end, and nothing on its channel afterwards. *)
Theorem C13_session_grammar :
  forall es s os, srun SNone es = (s, os) ->
    let w := swrites (concat os) in w = [] \/ w = [WBegin] \/ exists b, w = [WBegin; WEnd b].
Proof. exact session_grammar. Qed.
Print Assumptions C13_session_grammar.

(** A peer's end is answered with an end in the same step whenever ours is not already out. *)
Theorem C13_peer_end_answered :
  forall es s os b, srun SNone es = (s, os) -> swrites (concat os) = [WBegin] -> s = SMapped ->
    In (WEnd false) (snd (sstep s (SPEnd b))).
Proof. exact peer_end_answered. Qed.
Print Assumptions C13_peer_end_answered.

(** end()/end_with_error() return only in the step that consumes the peer's end, or
    afterwards from the stored result; and an error carried by the peer's end is what
    the caller gets, at once or later. *)
Theorem C13_end_returns_after_peer :
  (forall s e r, In (DEnd r) (snd (sstep s e)) ->
     (exists w b, s = SEndSent w /\ e = SPEnd b) \/ (exists h, s = SEnded r h)) /\
  (forall s r, In (DEnd r) (snd (sstep s (SPEnd true))) -> r = SRemoteEndedWithError) /\
  (forall s r h, fst (sstep s (SPEnd true)) = SEnded r h -> (forall r' h', s <> SEnded r' h') -> r = SRemoteEndedWithError).
Proof. split; [exact end_waits_for_peer|]. split; [exact peer_error_reported|exact peer_error_stored]. Qed.
Print Assumptions C13_end_returns_after_peer.

Example C13_clean_end : srun SNone [SBegin; SPBegin; SEnd; SPEnd false] =
  (SEnded SOk SHReported, [[WBegin]; [DBegin]; [WEnd false]; [DEnd SOk]]).
Proof. exact clean_end. Qed.

(** ** Link clauses (model Link/LinkLife.v of the sending link).

    The model is faithful to the code, and the code does not meet every link clause: the clauses that hold are
    theorems, the others are stated with the exact exception and a refutation witness (each witness is a
    known finding replayed on the implementation by the [life] harness). *)

(** Once the link has written its detach it writes no transfer and no second detach - except in the one
    transition [second_detach] (close() answered by a non-closing detach: the code re-attaches/closes again). *)
Theorem C13_link_after_detach_partial :
  forall s e, detached_locally s = true -> second_detach s e = false ->
    existsb is_xfer (snd (lkstep s e)) = false /\ (existsb is_det (snd (lkstep s e)) = true -> False).
Proof. exact after_detach_quiet. Qed.
Print Assumptions C13_link_after_detach_partial.

Theorem C13_link_second_detach_refuted :
  exists es, let os := concat (snd (lkrun LAttSent es)) in
    length (filter is_det os) = 2%nat /\ length (filter is_att os) = 0%nat.
Proof. exact second_detach_refutes. Qed.

(** A peer detach not yet seen by the application is answered by its next operation on the link, in kind
    for close(), drop and send(); and no transfer is written after it has arrived. *)
Theorem C13_link_peer_detach_answered_partial :
  (forall k c e, next_op e = true -> existsb is_det (snd (lkstep (LIdle (Some k) c) e)) = true) /\
  (forall k c e, (e = VClose \/ e = VDrop \/ e = VSend) ->
     In (XDetach (answer k)) (snd (lkstep (LIdle (Some k) c) e)) \/ In (XDetach true) (snd (lkstep (LIdle (Some k) c) e))) /\
  (forall k c e, existsb is_xfer (snd (lkstep (LIdle (Some k) c) e)) = false).
Proof. split; [exact peer_detach_answered|]. split; [exact answered_in_kind|exact no_transfer_after_peer_detach]. Qed.
Print Assumptions C13_link_peer_detach_answered_partial.

Theorem C13_link_answer_in_kind_refuted : forall c,
  snd (lkstep (LIdle (Some KClose) c) VDetach) = [XDetach false; DDetach (Some RDetachedByRemote)].
Proof. exact detach_not_in_kind_refutes. Qed.

(** detach()/close() return only in the step that consumes the peer's detach or when it had arrived before;
    the peer's error is what close() and a blocked send() report. *)
Theorem C13_link_returns_after_peer :
  (forall s e r, (In (DDetach r) (snd (lkstep s e)) \/ In (DClose r) (snd (lkstep s e))) ->
     (exists k, e = VPDetach k /\ (s = LDetSent \/ s = LClsSent)) \/
     (exists k c, s = LIdle (Some k) c) \/ (exists c, s = LDetached c)) /\
  (forall s r, In (DClose r) (snd (lkstep s (VPDetach KCloseErr))) -> r = Some RRemoteClosedWithError) /\
  (forall c, In (DSend (Some RRemoteClosedWithError)) (snd (lkstep (LIdle (Some KCloseErr) c) VSend)) /\
             In (DClose (Some RRemoteClosedWithError)) (snd (lkstep (LIdle (Some KCloseErr) c) VClose))).
Proof. split; [exact detach_close_wait|]. split; [exact peer_error_to_close|exact peer_error_to_send]. Qed.
Print Assumptions C13_link_returns_after_peer.

Example C13_link_clean :
  snd (lkrun LAttSent [VPAttach; VDetach; VPDetach KDetach]) = [[DAttach]; [XDetach false]; [DDetach None]] /\
  snd (lkrun LAttSent [VPAttach; VPFlow; VSend; VPAccept; VClose; VPDetach KClose]) =
    [[DAttach]; []; [XTransfer]; [DSend None]; [XDetach true]; [DClose None]].
Proof. exact clean_detach_close. Qed.

(** ** Link clauses (model Link/RecvLife.v of the receiving link: Receiver::{attach, recv, detach, close, drop}).

    As for the sending link the model is faithful to the code (run against it on scripts every run, sub [lifer]), the
    clauses that hold are theorems, the others are stated with the exact exception and a refutation witness
    (each witness is replayed on the implementation by the [lifer] / [lifex] harness). *)
From FV Require Import Link.RecvLife Proofs.RecvLifeProofs.

(** Once the link has written its detach it writes no flow, no disposition and no second detach - except in the one
    transition [rsecond_detach] (close() answered by a non-closing detach: the re-attach fails and the drop of the
    receiver writes a closing detach again). *)
Theorem C13_rlink_after_detach_partial :
  forall s e, rdetached_locally s = true -> rsecond_detach s e = false ->
    existsb ris_flow (snd (rkstep s e)) = false /\ existsb ris_disp (snd (rkstep s e)) = false /\
    (existsb ris_det (snd (rkstep s e)) = true -> False).
Proof. exact r_after_detach_quiet. Qed.
Print Assumptions C13_rlink_after_detach_partial.

Theorem C13_rlink_second_detach_refuted :
  exists es, let os := concat (snd (rkrun RAttSent es)) in
    length (filter ris_det os) = 2%nat /\ length (filter ris_att os) = 0%nat.
Proof. exact r_second_detach_refutes. Qed.
Print Assumptions C13_rlink_second_detach_refuted.

(** A peer detach not yet seen by the application is answered by its next operation on the link (recv, detach,
    close, drop) unless that operation is a recv() that finds a delivery queued before the detach; a recv() that is
    already waiting answers at once and in kind; the answer is in kind for close(), drop and recv(). *)
Theorem C13_rlink_peer_detach_answered_partial :
  (forall q k e, rnext_op e = true -> (e = ERecv -> q = 0%nat) ->
     existsb ris_det (snd (rkstep (RIdle q (Some k)) e)) = true) /\
  (forall k, In (YDetach (ranswer k)) (snd (rkstep RRecvWait (EPDetach k)))) /\
  (forall q k e, (e = EClose \/ e = EDrop \/ (e = ERecv /\ q = 0%nat)) ->
     In (YDetach (ranswer k)) (snd (rkstep (RIdle q (Some k)) e)) \/ In (YDetach true) (snd (rkstep (RIdle q (Some k)) e))).
Proof. split; [exact r_peer_detach_answered|]. split; [exact r_pending_recv_answers|exact r_answered_in_kind]. Qed.
Print Assumptions C13_rlink_peer_detach_answered_partial.

(** the exception: the next operation returns a queued delivery and writes no detach *)
Theorem C13_rlink_detach_behind_transfer_refuted : forall q k,
  snd (rkstep (RIdle (S q) (Some k)) ERecv) = [YDisp; YFlow; RRecv None].
Proof. exact r_detach_behind_transfer_refutes. Qed.
Print Assumptions C13_rlink_detach_behind_transfer_refuted.

(** detach() answers a closing detach with a non-closing one *)
Theorem C13_rlink_answer_in_kind_refuted : forall q,
  snd (rkstep (RIdle q (Some QClose)) EDetach) = [YDetach false; RDet (Some EDetachedByRemote)].
Proof. exact r_detach_not_in_kind_refutes. Qed.
Print Assumptions C13_rlink_answer_in_kind_refuted.

(** detach()/close() return only in the step that consumes the peer's detach or when it had arrived before;
    the peer's error is what close() and recv() report. *)
Theorem C13_rlink_returns_after_peer :
  (forall s e r, (In (RDet r) (snd (rkstep s e)) \/ In (RCls r) (snd (rkstep s e))) ->
     (exists k, e = EPDetach k /\ (s = RDetSent \/ s = RClsSent \/ exists c, s = RReCls c)) \/
     (exists q k, s = RIdle q (Some k)) \/ (exists c, s = RDetached c)) /\
  (forall s r, In (RCls r) (snd (rkstep s (EPDetach QCloseErr))) -> r = Some ERemoteClosedWithError) /\
  (forall s r, In (RRecv r) (snd (rkstep s (EPDetach QCloseErr))) -> r = Some ERemoteClosedWithError) /\
  (forall q, In (RRecv (Some ERemoteClosedWithError)) (snd (rkstep (RIdle 0 (Some QCloseErr)) ERecv)) /\
             In (RCls (Some ERemoteClosedWithError)) (snd (rkstep (RIdle q (Some QCloseErr)) EClose))).
Proof.
  split; [exact r_detach_close_wait|]. split; [exact r_peer_error_to_close|]. split; [exact r_peer_error_to_recv|exact r_peer_error_unseen].
Qed.
Print Assumptions C13_rlink_returns_after_peer.

(** the exception: detach() does not report the peer's error - neither when the closing detach with the error was
    waiting unseen, nor when it came as the answer to the detach (the error is dropped before the re-attach) *)
Theorem C13_rlink_peer_error_lost_refuted :
  (forall q, snd (rkstep (RIdle q (Some QCloseErr)) EDetach) = [YDetach false; RDet (Some EDetachedByRemote)]) /\
  snd (rkrun RAttSent [EPAttach; EDetach; EPDetach QCloseErr; EPAttach; EPDetach QClose]) =
    [[YFlow; RAttached]; [YDetach false]; [YAttach]; [YDetach true]; [RDet (Some EClosedByRemote)]].
Proof. exact r_peer_error_lost_refutes. Qed.
Print Assumptions C13_rlink_peer_error_lost_refuted.

(** The link never brings its session down ("dropping a handle never tears down the enclosing session"): no step
    writes an end; a delivery that arrives for a receiver whose handle was dropped before the peer's detach is
    discarded (it used to end the session with unattached-handle: repaired). *)
Theorem C13_rlink_never_ends_session :
  forall s e, ~ In YEnd (snd (rkstep s e)).
Proof. exact r_never_ends_session. Qed.
Print Assumptions C13_rlink_never_ends_session.

Example C13_rlink_drop_then_transfer :
  snd (rkrun RAttSent [EPAttach; EDrop; EPTransfer; EPDetach QClose]) = [[YFlow; RAttached]; [YDetach true]; []; []].
Proof. exact r_drop_then_transfer. Qed.

Example C13_rlink_clean :
  rkrun RAttSent [EPAttach; EPTransfer; ERecv; EDetach; EPDetach QDetach] =
    (RGone, [[YFlow; RAttached]; []; [YDisp; YFlow; RRecv None]; [YDetach false]; [RDet None]]) /\
  rkrun RAttSent [EPAttach; ERecv; EPTransfer; EClose; EPDetach QClose] =
    (RGone, [[YFlow; RAttached]; []; [YDisp; YFlow; RRecv None]; [YDetach true]; [RCls None]]).
Proof. exact r_clean_detach_close. Qed.
