(** C13 — Session and link lifecycles.  The theorems are about the session
    lifecycle model Session/Lifecycle.v (run against the real session engine on
    scripts every run); the link clauses are checked on the implementation by the
    direct oracle only (see DESIGN.md). *)
From FV Require Import Session.SessLife Proofs.SessionLifeProofs.

(** For every interleaving of local calls (begin, end, end_with_error, drop,
    cancelled end) and a protocol-abiding peer: the session writes one begin,
    later at most one end, and nothing on its channel afterwards. *)
Theorem C13_session_grammar :
  forall es s os, srun SNone es = (s, os) ->
    let w := swrites (concat os) in w = [] \/ w = [WBegin] \/ exists b, w = [WBegin; WEnd b].
Proof. exact session_grammar. Qed.
Print Assumptions C13_session_grammar.

(** A peer's end is answered with an end in the same step whenever ours is not already out. *)
Theorem C13_peer_end_answered :
  forall es s os b, srun SNone es = (s, os) -> swrites (concat os) = [WBegin] -> s = SMapped ->
    In (WEnd false) (snd (sstep s (SPEnd b))).
Proof. exact peer_end_answered. Qed.
Print Assumptions C13_peer_end_answered.

(** end()/end_with_error() return only in the step that consumes the peer's end, or
    afterwards from the stored result; and an error carried by the peer's end is what
    the caller gets, at once or later. *)
Theorem C13_end_returns_after_peer :
  (forall s e r, In (DEnd r) (snd (sstep s e)) ->
     (exists w b, s = SEndSent w /\ e = SPEnd b) \/ (exists h, s = SEnded r h)) /\
  (forall s r, In (DEnd r) (snd (sstep s (SPEnd true))) -> r = SRemoteEndedWithError) /\
  (forall s r h, fst (sstep s (SPEnd true)) = SEnded r h -> (forall r' h', s <> SEnded r' h') -> r = SRemoteEndedWithError).
Proof. split; [exact end_waits_for_peer|]. split; [exact peer_error_reported|exact peer_error_stored]. Qed.
Print Assumptions C13_end_returns_after_peer.

Example C13_clean_end : srun SNone [SBegin; SPBegin; SEnd; SPEnd false] =
  (SEnded SOk SHReported, [[WBegin]; [DBegin]; [WEnd false]; [DEnd SOk]]).
Proof. exact clean_end. Qed.
