(** C13 — Session and link lifecycles.  The theorems are about the session
    lifecycle model Session/SessLife.v and the sender-link lifecycle model
    Link/LinkLife.v (both run against the real engines on scripts every run). *)
From FV Require Import Session.SessLife Proofs.SessionLifeProofs Link.LinkLife Proofs.LinkLifeProofs.

(** For every interleaving of local calls (begin, end, end_with_error, drop,
    cancelled end) and a protocol-abiding peer: the session writes one begin,
    later at most one end, and nothing on its channel afterwards. *)
Theorem C13_session_grammar :
  forall es s os, srun SNone es = (s, os) ->
    let w := swrites (concat os) in w = [] \/ w = [WBegin] \/ exists b, w = [WBegin; WEnd b].
Proof. exact session_grammar. Qed.
Print Assumptions C13_session_grammar.

(** A peer's end is answered with an end in the same step whenever ours is not already out. *)
Theorem C13_peer_end_answered :
  forall es s os b, srun SNone es = (s, os) -> swrites (concat os) = [WBegin] -> s = SMapped ->
    In (WEnd false) (snd (sstep s (SPEnd b))).
Proof. exact peer_end_answered. Qed.
Print Assumptions C13_peer_end_answered.

(** end()/end_with_error() return only in the step that consumes the peer's end, or
    afterwards from the stored result; and an error carried by the peer's end is what
    the caller gets, at once or later. *)
Theorem C13_end_returns_after_peer :
  (forall s e r, In (DEnd r) (snd (sstep s e)) ->
     (exists w b, s = SEndSent w /\ e = SPEnd b) \/ (exists h, s = SEnded r h)) /\
  (forall s r, In (DEnd r) (snd (sstep s (SPEnd true))) -> r = SRemoteEndedWithError) /\
  (forall s r h, fst (sstep s (SPEnd true)) = SEnded r h -> (forall r' h', s <> SEnded r' h') -> r = SRemoteEndedWithError).
Proof. split; [exact end_waits_for_peer|]. split; [exact peer_error_reported|exact peer_error_stored]. Qed.
Print Assumptions C13_end_returns_after_peer.

Example C13_clean_end : srun SNone [SBegin; SPBegin; SEnd; SPEnd false] =
  (SEnded SOk SHReported, [[WBegin]; [DBegin]; [WEnd false]; [DEnd SOk]]).
Proof. exact clean_end. Qed.

(** ** Link clauses (model Link/LinkLife.v of the sending link).

    The model is faithful to the code, and the code does not meet every link clause: the clauses that hold are
    theorems, the others are stated with the exact exception and a refutation witness (each witness is a
    known finding replayed on the implementation by the [life] harness). *)

(** Once the link has written its detach it writes no transfer and no second detach - except in the one
    transition [second_detach] (close() answered by a non-closing detach: the code re-attaches/closes again). *)
Theorem C13_link_after_detach_partial :
  forall s e, detached_locally s = true -> second_detach s e = false ->
    existsb is_xfer (snd (lkstep s e)) = false /\ (existsb is_det (snd (lkstep s e)) = true -> False).
Proof. exact after_detach_quiet. Qed.
Print Assumptions C13_link_after_detach_partial.

Theorem C13_link_second_detach_refuted :
  exists es, let os := concat (snd (lkrun LAttSent es)) in
    length (filter is_det os) = 2%nat /\ length (filter is_att os) = 0%nat.
Proof. exact second_detach_refutes. Qed.

(** A peer detach not yet seen by the application is answered by its next operation on the link, in kind
    for close(), drop and send(); and no transfer is written after it has arrived. *)
Theorem C13_link_peer_detach_answered_partial :
  (forall k c e, next_op e = true -> existsb is_det (snd (lkstep (LIdle (Some k) c) e)) = true) /\
  (forall k c e, (e = VClose \/ e = VDrop \/ e = VSend) ->
     In (XDetach (answer k)) (snd (lkstep (LIdle (Some k) c) e)) \/ In (XDetach true) (snd (lkstep (LIdle (Some k) c) e))) /\
  (forall k c e, existsb is_xfer (snd (lkstep (LIdle (Some k) c) e)) = false).
Proof. split; [exact peer_detach_answered|]. split; [exact answered_in_kind|exact no_transfer_after_peer_detach]. Qed.
Print Assumptions C13_link_peer_detach_answered_partial.

Theorem C13_link_answer_in_kind_refuted : forall c,
  snd (lkstep (LIdle (Some KClose) c) VDetach) = [XDetach false; DDetach (Some RDetachedByRemote)].
Proof. exact detach_not_in_kind_refutes. Qed.

(** detach()/close() return only in the step that consumes the peer's detach or when it had arrived before;
    the peer's error is what close() and a blocked send() report. *)
Theorem C13_link_returns_after_peer :
  (forall s e r, (In (DDetach r) (snd (lkstep s e)) \/ In (DClose r) (snd (lkstep s e))) ->
     (exists k, e = VPDetach k /\ (s = LDetSent \/ s = LClsSent)) \/
     (exists k c, s = LIdle (Some k) c) \/ (exists c, s = LDetached c)) /\
  (forall s r, In (DClose r) (snd (lkstep s (VPDetach KCloseErr))) -> r = Some RRemoteClosedWithError) /\
  (forall c, In (DSend (Some RRemoteClosedWithError)) (snd (lkstep (LIdle (Some KCloseErr) c) VSend)) /\
             In (DClose (Some RRemoteClosedWithError)) (snd (lkstep (LIdle (Some KCloseErr) c) VClose))).
Proof. split; [exact detach_close_wait|]. split; [exact peer_error_to_close|exact peer_error_to_send]. Qed.
Print Assumptions C13_link_returns_after_peer.

Example C13_link_clean :
  snd (lkrun LAttSent [VPAttach; VDetach; VPDetach KDetach]) = [[DAttach]; [XDetach false]; [DDetach None]] /\
  snd (lkrun LAttSent [VPAttach; VPFlow; VSend; VPAccept; VClose; VPDetach KClose]) =
    [[DAttach]; []; [XTransfer]; [DSend None]; [XDetach true]; [DClose None]].
Proof. exact clean_detach_close. Qed.
