(** C17 — Negotiated limits are honoured: channel-max and idle time-outs.
    Channel-max is about the channel allocator of Session/Ids.v (the model of
    Connection::allocate_session and friends, the same one C11 uses); the
    time-outs are about Conn/Timers.v, the timed model of an open connection
    that the correspondence check runs against the real engine under tokio's
    paused clock. *)
From FV Require Import Conn.Timers Lib.Slab Session.Ids Proofs.IdsProofs Proofs.TimersProofs.
Open Scope N_scope.

(** After any history of allocate / deallocate / peer begin / peer end / routed
    frames on a connection whose open exchange agreed on min(local, remote)
    channel-max: a session is only ever begun on a channel within both limits ... *)
Theorem C17_channel_max :
  forall lm rm ops s rs o s' c,
    crun (cn_init lm rm) ops = (s, rs) -> cstep s o = (s', COk c) -> o = OpAllocSession ->
    c <= lm /\ c <= rm.
Proof. exact channel_max_respected. Qed.
Print Assumptions C17_channel_max.

(** ... and the only refusal is the local channel-max error, raised exactly when
    the next free channel lies above the agreed maximum; nothing changes then. *)
Theorem C17_channel_refused_locally :
  forall lm rm ops s rs s' e,
    crun (cn_init lm rm) ops = (s, rs) -> cstep s OpAllocSession = (s', CErr e) ->
    e = EChannelMax /\ s' = s /\ N.min lm rm < vacant_key (cn_slab s).
Proof. exact channel_refused_only_above. Qed.
Print Assumptions C17_channel_refused_locally.

(** The peer advertised idle-time-out [r] > 0 in the open processed at time
    [now s0].  Whatever happens afterwards (any stimuli, any delays), as long as
    the connection is still open at the end, every window of [r] ms since the
    open contains a frame written by the endpoint (an empty frame here: the
    model has no other traffic). *)
Theorem C17_heartbeat :
  forall r s0 dt es s os,
    0 < r -> phase s0 = PWaitOpen ->
    trun s0 ((SPeerOpen (Some r), dt) :: es) = (s, os) -> phase s = POpened ->
    forall a, now s0 <= a -> a + r <= now s ->
      exists t, In (OEmpty t) (concat os) /\ a <= t < a + r.
Proof. exact heartbeat_covers. Qed.
Print Assumptions C17_heartbeat.

(** The endpoint configured idle-time-out [l] > 0.  For every script: if the
    connection is still running at the end, then at that moment less than [l] ms
    have passed since the last frame from the peer (or since the transport was
    created) - [clock] computes both times from the script alone. *)
Theorem C17_idle_enforced :
  forall l es s os, 0 < l ->
    trun (tinit (Some l)) es = (s, os) -> running (phase s) = true ->
    let '(t, la) := clock 0 0 es in now s = t /\ t < la + l.
Proof. intros l es s os Hl. exact (idle_enforced l Hl es s os). Qed.
Print Assumptions C17_idle_enforced.

(** The deadline fires exactly [l] ms after the last arrival, never earlier: the
    step in which a running connection stops with the idle time-out shuts the
    transport at [la' + l] where [la'] is the last arrival up to and including
    that step's stimulus - so it cannot fire while frames keep arriving less
    than [l] apart. *)
Theorem C17_idle_exact :
  forall l s x dt t la rep, 0 < l ->
    IdleInv l s t la -> running (phase s) = true ->
    phase (fst (tstep s (x, dt))) = PStopped TIdleTimeout rep ->
    let la' := if is_arrival x then t else la in
    In (OEof (la' + l)) (snd (tstep s (x, dt))) /\ t <= la' + l <= t + dt.
Proof. intros l s x dt t la rep Hl. exact (idle_exact l Hl s x dt t la rep). Qed.
Print Assumptions C17_idle_exact.

(** [IdleInv] is what every reachable state satisfies (so the theorem above applies
    to every step of every run) *)
Theorem C17_idle_invariant :
  forall l es, 0 < l ->
    IdleInv l (fst (trun (tinit (Some l)) es)) (fst (clock 0 0 es)) (snd (clock 0 0 es)).
Proof. intros l es Hl. exact (trun_idle l Hl es _ _ _ (IdleInv_init l Hl)). Qed.
Print Assumptions C17_idle_invariant.

(** No idle-time-out configured (unset or 0): the connection never stops with a time-out. *)
Theorem C17_no_timeout_unconfigured :
  forall l es s os, l = None \/ l = Some 0 -> trun (tinit l) es = (s, os) -> not_timed_out (phase s).
Proof. exact never_times_out_unconfigured. Qed.
Print Assumptions C17_no_timeout_unconfigured.

(** Non-vacuity: heartbeats every 40 ms while open, silence after the close; the deadline
    50 ms after the last frame. *)
Example C17_example_heartbeat :
  snd (trun (tinit None) [(SPeerOpen (Some 40), 12); (SNone, 104); (SClose, 8); (SNone, 48); (SPeerClose, 8)]) =
  [[OOpenDone true; OEmpty 0]; [OEmpty 40; OEmpty 80]; [OClose 116 false]; []; [OCloseDone TOk; OEof 172]].
Proof. vm_compute. reflexivity. Qed.
Example C17_example_deadline :
  trun (tinit (Some 50)) [(SPeerOpen None, 12); (SPeerEmpty, 40); (SPeerEmpty, 48); (SNone, 56)] =
  ({| now := 156; phase := PStopped TIdleTimeout false; hb := None; idle := None |},
   [[OOpenDone true]; []; []; [OEof 102]]).
Proof. vm_compute. reflexivity. Qed.
