(** C14 — Failures propagate: no call hangs and every handle learns why it stopped.

    The theorems are about the model Conn/Failure.v (connection engine, session engine, one sending and one
    receiving link, four application handles; run against the real client on every byte offset / frame position
    of the reference conversation by the [cutm] harness).  [reachable st]: [st] is reached from [init] by ANY
    list of events (application calls, peer frames, transport failures, propagation steps).  The model follows
    the code, and the code does not meet every clause: the clauses that hold are theorems, the others are stated
    with their exact exception (each exception is a known finding reproduced on the implementation). *)
From FV Require Import Conn.Failure Proofs.FailureProofs.

(** ** (a) No operation stays pending *)

(** The transport breaks or the peer closes, at any moment: once the failure has propagated ([step_settled] =
    the event and the propagation step) both engines have stopped and whatever was in progress on the four
    handles has completed.  Exception ([orphan]): the outcome of a delivery left unsettled on a link that the
    peer had detached without closing stays pending (c14-hang-send-outcome). *)
Theorem C14_conn_failure_quiesces : forall st e, reachable st -> conn_up (cph (cn st)) = true -> conn_failure e = true ->
  let st' := fst (step_settled st e) in
  cph (cn st') = CStopped /\ alive (sph (ss st')) = false /\ cpend (cn st') = None /\ endp (ss st') = false /\
  (lop (tx st') = None \/ (hung (tx st') /\ orphan (tx st))) /\ (lop (rx st') = None \/ (hung (rx st') /\ orphan (rx st))).
Proof. exact R_conn_failure_quiesces. Qed.
Print Assumptions C14_conn_failure_quiesces.

(** Whatever happens once the connection has stopped - a call on any handle included - nothing is in progress
    after the propagation step: no call issued afterwards can hang (same exception). *)
Theorem C14_no_hang_once_connection_stopped : forall st e, reachable st -> cph (cn st) = CStopped ->
  let st' := fst (step_settled st e) in
  cph (cn st') = CStopped /\ alive (sph (ss st')) = false /\ cpend (cn st') = None /\ endp (ss st') = false /\
  quiet (tx st') /\ quiet (rx st').
Proof. exact R_settled_when_conn_stopped. Qed.
Print Assumptions C14_no_hang_once_connection_stopped.

(** The peer ends the session (as a failure or in answer to end()): the session engine stops in that step, end()
    and every operation on the links complete, the connection is untouched. *)
Theorem C14_peer_end_quiesces : forall st e, reachable st -> cph (cn st) = COpened -> alive (sph (ss st)) = true ->
  let st' := fst (step st (EPEnd e)) in
  sph (ss st') = SStopped /\ endp (ss st') = false /\ cn st' = cn st /\
  (lop (tx st') = None \/ (hung (tx st') /\ orphan (tx st))) /\ (lop (rx st') = None \/ (hung (rx st') /\ orphan (rx st))).
Proof. exact R_peer_end_quiesces. Qed.
Print Assumptions C14_peer_end_quiesces.

(** The peer detaches a link: the operation in progress on it completes in that step.  Exceptions: a pending
    outcome survives a NON-closing detach (c14-hang-send-outcome); a detach() answered by a closing detach goes on
    with the re-attach exchange (completed by the peer's answers or by any stop, see the theorems above). *)
Theorem C14_peer_detach_quiesces : forall st sd c e, reachable st -> routed st = true -> mapped (get sd st) = true ->
  let l := get sd st in
  let l' := get sd (fst (step st (EPDetach sd c e))) in
  lop l' = None \/ (hung l' /\ c = false) \/ (lop l = Some ODetachWait /\ c = true /\ lop l' = Some (OReattach FinDetach)).
Proof. exact R_peer_detach_quiesces. Qed.
Print Assumptions C14_peer_detach_quiesces.

Example C14_transport_cut_completes_everything :
  lop (tx ex_busy) = Some OSendOutcome /\ lop (rx ex_busy) = Some ORecv /\ conn_up (cph (cn ex_busy)) = true /\
  snd (run ex_busy [ETransport TEof; EProp; ECall (CSend false); ECall CRecv; ECall CAccept; ECall (CDetach Snd); ECall CEnd; ECall CClose]) =
  [[]; [Done HTx (RErr ScConn false); Done HRx (RErr ScConn false)]; [Done HTx (RErr ScConn false)]; [Done HRx (RErr ScConn false)];
   [Done HRx (RErr ScConn false)]; [Done HTx (RErr ScConn false)]; [Done HSess ROk]; [Done HConn (RErr ScConn false)]] /\
  lop (tx (fst (step_settled ex_busy (ETransport TEof)))) = None /\ lop (rx (fst (step_settled ex_busy (ETransport TEof)))) = None.
Proof. exact ex_transport_cut. Qed.

(** the exception is real: after a non-closing detach the send never returns, whatever fails later *)
Example C14_outcome_hangs_after_nonclosing_detach :
  let st := fst (run ex_up [ECall (CSend false); EPDetach Snd false true]) in
  orphan (tx st) /\ lop (tx (fst (step_settled st (ETransport TEof)))) = Some OSendOutcome /\
  snd (run ex_up [ECall (CSend false); EPDetach Snd false true; ETransport TEof; EProp]) = [[]; []; []; []].
Proof. exact ex_orphan_hang. Qed.

Example C14_states_are_reachable : reachable ex_up /\ reachable ex_busy.
Proof. exact ex_up_reachable. Qed.

(** ** (b) Calls issued after the failure complete at once *)

(** On a stopped session (its own end, or the connection's stop): send, accept and attach fail, recv fails unless
    a delivery had arrived before, the outcome of an earlier batchable send is the error or the outcome that had
    arrived (or the hang above), detach/close/end return - all in the step of the call. *)
Theorem C14_calls_after_session_stop : forall st, reachable st -> sph (ss st) = SStopped ->
  (forall b, usable (tx st) = true -> exists sc e, snd (step st (ECall (CSend b))) = [Done HTx (RErr sc e)]) /\
  (usable (rx st) = true ->
     (exists sc e, snd (step st (ECall CRecv)) = [Done HRx (RErr sc e)]) \/
     (snd (step st (ECall CRecv)) = [Done HRx ROk] /\ exists q, inbox (rx st) = IDelivery :: q)) /\
  (usable (rx st) = true -> exists sc e, snd (step st (ECall CAccept)) = [Done HRx (RErr sc e)]) /\
  (usable (tx st) = true -> dfut (tx st) <> DNone ->
     (exists sc e, snd (step st (ECall COutcome)) = [Done HTx (RErr sc e)]) \/
     (snd (step st (ECall COutcome)) = [Done HTx ROk] /\ dfut (tx st) = DOk) \/
     (snd (step st (ECall COutcome)) = [] /\ dfut (tx st) = DUnsettled /\ mapped (tx st) = false)) /\
  (forall sd, shandle (ss st) = true -> sgone (ss st) = false -> lst (get sd st) = LNone ->
     exists sc e, snd (step st (ECall (CAttach sd))) = [Done HSess (RErr sc e)]) /\
  (forall sd, usable (get sd st) = true -> exists r, snd (step st (ECall (CDetach sd))) = [Done (lhandle sd) r]) /\
  (forall sd, usable (get sd st) = true -> exists r, snd (step st (ECall (CCloseL sd))) = [Done (lhandle sd) r]) /\
  (shandle (ss st) = true -> sgone (ss st) = false -> exists r, snd (step st (ECall CEnd)) = [Done HSess r]).
Proof. exact R_calls_after_session_stop. Qed.
Print Assumptions C14_calls_after_session_stop.

(** The connection handle of a stopped connection: close() returns what stopped the engine (the transport or
    protocol error itself), begin() fails with a connection-level error. *)
Theorem C14_connection_handle_after_stop : forall st, reachable st -> cph (cn st) = CStopped -> cgone (cn st) = false ->
  ((exists o, cout (cn st) = Some o /\ snd (step st (ECall CClose)) = [Done HConn (res_of_cresult o)]) \/ cout (cn st) = None) /\
  (sph (ss st) = SNone -> exists e, snd (step st (ECall CBegin)) = [Done HConn (RErr ScConn e)]).
Proof. exact R_conn_handle_after_stop. Qed.
Print Assumptions C14_connection_handle_after_stop.

(** ** (c), (d) The level that stopped, and the peer's error condition *)

(** Connection level: every operation that the failure completes, on every handle, reports the connection
    level, with the peer's error condition exactly when the peer supplied one ([b]).  Premises: the session's
    cell is still empty (the first reason stays, see (e)), no link is inside a re-attach exchange (that one
    reports DetachedByRemote), and the event is not the peer's plain answer to a local close ([genuine]). *)
Theorem C14_conn_failure_scope : forall st e b h x, reachable st -> conn_up (cph (cn st)) = true -> scell (ss st) = None ->
  no_reattach (tx st) -> no_reattach (rx st) -> genuine st e b ->
  In (Done h x) (snd (step_settled st e)) -> x = RErr ScConn b.
Proof. exact R_conn_failure_scope. Qed.
Print Assumptions C14_conn_failure_scope.

(** Session level: the peer's end is reported as session-level with its error condition by every operation in
    progress on the session handle and the links; the connection stays as it was. *)
Theorem C14_peer_end_scope : forall st e h x, reachable st -> cph (cn st) = COpened -> sph (ss st) = SMapped ->
  no_reattach (tx st) -> no_reattach (rx st) ->
  In (Done h x) (snd (step st (EPEnd e))) -> x = RErr ScSess e /\ cn (fst (step st (EPEnd e))) = cn st.
Proof. exact R_peer_end_scope. Qed.
Print Assumptions C14_peer_end_scope.

(** Link level: only the detached link's handle hears of the peer's detach - the other link, the session and the
    connection stay as they were - and a send() waiting for credit or a recv() reports the link level with the
    peer's error.  The exact exceptions of the code: a closing detach fails a pending outcome with an error that
    names no level and drops the peer's error (c14-peer-error-lost, c14-wrong-scope), a non-closing one leaves it
    pending; a close() crossed by a non-closing detach reports DetachedByRemote without the peer's error; a
    detach() crossed by a closing detach re-attaches and ends with ClosedByRemote (without the peer's error). *)
Theorem C14_peer_detach_scope : forall st sd c e, reachable st -> routed st = true -> mapped (get sd st) = true ->
  let st' := fst (step st (EPDetach sd c e)) in
  let o := snd (step st (EPDetach sd c e)) in
  cn st' = cn st /\ ss st' = ss st /\ get (other sd) st' = get (other sd) st /\
  (sph (ss st) = SMapped ->
   match lop (get sd st) with
   | None => o = []
   | Some (OSendCredit _) | Some ORecv => lst (get sd st) = LAttached -> o = [Done (lhandle sd) (RErr ScLink e)]
   | Some OSendOutcome | Some OOutcome => if c then o = [Done (lhandle sd) (RErr ScNone false)] else o = []
   | Some ODetachWait => if c then o = [] else o = [Done (lhandle sd) (if e then RErr ScLink true else ROk)]
   | Some OCloseWait => o = [Done (lhandle sd) (if c then (if e then RErr ScLink true else ROk) else RErr ScLink false)]
   | _ => True
   end).
Proof. exact R_peer_detach_scope. Qed.
Print Assumptions C14_peer_detach_scope.

(** A detach that arrived while the handle was idle is reported by the next call on that handle.  Exceptions of
    the code: accept() returns Ok (c14-data-op-ok-after-failure); detach() finding a closing detach and close()
    finding a non-closing one report the link level without the peer's error (c14-peer-error-lost). *)
Theorem C14_unseen_detach_next_call : forall st sd c e q, reachable st -> cph (cn st) = COpened -> sph (ss st) = SMapped ->
  lst (get sd st) = LAttached -> lop (get sd st) = None -> inbox (get sd st) = IDetach c e :: q ->
  (sd = Snd -> forall b, snd (step st (ECall (CSend b))) = [Done HTx (RErr ScLink e)]) /\
  (sd = Rcv -> snd (step st (ECall CRecv)) = [Done HRx (RErr ScLink e)]) /\
  (sd = Rcv -> snd (step st (ECall CAccept)) = [Done HRx ROk]) /\
  snd (step st (ECall (CDetach sd))) = [Done (lhandle sd) (if c then RErr ScLink false else if e then RErr ScLink true else ROk)] /\
  snd (step st (ECall (CCloseL sd))) = [Done (lhandle sd) (if c then (if e then RErr ScLink true else ROk) else RErr ScLink false)].
Proof. exact R_unseen_detach_next_call. Qed.
Print Assumptions C14_unseen_detach_next_call.

(** ... and the calls after that one get an error that names no level while the session runs
    (ExpectImmediateDetach / IllegalState): the clause "the errors say whether the link ... stopped" is refuted
    here (c14-wrong-scope). *)
Theorem C14_second_call_names_no_level_refuted : forall st sd, reachable st -> cph (cn st) = COpened -> scell (ss st) = None ->
  (lst (get sd st) = LDetached \/ lst (get sd st) = LClosed) -> lop (get sd st) = None ->
  relay (get sd st) = false -> inbox (get sd st) = [] ->
  (sd = Snd -> forall b, snd (step st (ECall (CSend b))) = [Done HTx (RErr ScNone false)]) /\
  (sd = Rcv -> snd (step st (ECall CRecv)) = [Done HRx (RErr ScNone false)]).
Proof. exact R_second_call_names_no_level. Qed.
Print Assumptions C14_second_call_names_no_level_refuted.

(** After a session or connection stop, an error of a link or session call that names the session or the
    connection is the reason recorded in the session's cell: the level that stopped first and the peer's error
    condition if the peer supplied one. *)
Theorem C14_later_errors_name_recorded_reason : forall st r c h sc e, reachable st -> sph (ss st) = SStopped -> scell (ss st) = Some r ->
  link_call c = true -> In (Done h (RErr sc e)) (snd (step st (ECall c))) -> (sc = ScConn \/ sc = ScSess) ->
  RErr sc e = res_of_sreason r.
Proof. exact R_later_errors_name_recorded_reason. Qed.
Print Assumptions C14_later_errors_name_recorded_reason.

Example C14_peer_close_with_error_reaches_every_handle :
  snd (run ex_busy [EPClose true; EProp; ECall CAccept; ECall (CDetach Snd); ECall CEnd; ECall CClose]) =
  [[]; [Done HTx (RErr ScConn true); Done HRx (RErr ScConn true)]; [Done HRx (RErr ScConn true)]; [Done HTx (RErr ScConn true)];
   [Done HSess ROk]; [Done HConn (RErr ScConn true)]] /\
  scell (ss ex_busy) = None /\ no_reattach (tx ex_busy) /\ no_reattach (rx ex_busy) /\ genuine ex_busy (EPClose true) true.
Proof. exact ex_peer_close_error. Qed.

Example C14_peer_end_with_error :
  snd (run ex_busy [EPEnd true; ECall (CSend true); ECall CEnd; ECall CClose; EPClose false]) =
  [[Done HTx (RErr ScSess true); Done HRx (RErr ScSess true)]; [Done HTx (RErr ScSess true)]; [Done HSess (RErr ScSess true)]; []; [Done HConn ROk]] /\
  cph (cn ex_busy) = COpened /\ sph (ss ex_busy) = SMapped.
Proof. exact ex_peer_end_error. Qed.

Example C14_peer_detach_leaves_the_rest_usable :
  snd (run ex_up [ECall CRecv; EPDetach Rcv true true; ECall CRecv; ECall (CSend false); EPSettle false; ECall (CCloseL Rcv);
                  ECall (CDetach Snd); EPDetach Snd false false; ECall CEnd; EPEnd false; ECall CClose; EPClose false]) =
  [[]; [Done HRx (RErr ScLink true)]; [Done HRx (RErr ScNone false)]; []; [Done HTx ROk]; [Done HRx ROk]; []; [Done HTx ROk]; [];
   [Done HSess ROk]; []; [Done HConn ROk]] /\
  routed (fst (run ex_up [ECall CRecv])) = true /\ mapped (rx (fst (run ex_up [ECall CRecv]))) = true.
Proof. exact ex_peer_detach_error. Qed.

Example C14_link_level_exceptions :
  snd (run ex_up [ECall (CSend false); EPDetach Snd true true]) = [[]; [Done HTx (RErr ScNone false)]] /\
  snd (run ex_up [EPDetach Rcv false true; ECall CAccept; ECall (CCloseL Rcv)]) = [[]; [Done HRx ROk]; [Done HRx (RErr ScLink false)]] /\
  snd (run ex_up [ECall (CDetach Snd); EPDetach Snd true true; EPAttach Snd; EPDetach Snd true false]) = [[]; []; []; [Done HTx (RErr ScLink false)]].
Proof. exact ex_link_exceptions. Qed.

(** ** (e) The stop-reason cells *)

(** written at most once: the first reason stays *)
Theorem C14_cells_write_once : forall st e, reachable st ->
  (forall r, ccell (cn st) = Some r -> ccell (cn (fst (step st e))) = Some r) /\
  (forall r, scell (ss st) = Some r -> scell (ss (fst (step st e))) = Some r).
Proof. exact R_cells_write_once. Qed.
Print Assumptions C14_cells_write_once.

(** ... and before the channels close: a stopped engine has its cell set; the session's cell is set from the
    moment its link-frame channel is closed (end() called, or stopped); a stopped session has dropped its relays *)
Theorem C14_cells_set_when_closed : forall st, reachable st ->
  (cph (cn st) = CStopped -> ccell (cn st) <> None) /\
  ((sph (ss st) = SEndSent \/ sph (ss st) = SStopped) -> scell (ss st) <> None) /\
  (sph (ss st) = SStopped -> relay (tx st) = false /\ relay (rx st) = false).
Proof. exact R_cells_set_when_closed. Qed.
Print Assumptions C14_cells_set_when_closed.

(** so no operation that a stop completes (transport failure, peer close, peer end, propagation) reports an error
    without level *)
Theorem C14_stop_never_unnamed : forall st e h sc b, reachable st -> stop_event e = true ->
  In (Done h (RErr sc b)) (snd (step st e)) -> sc <> ScNone.
Proof. exact R_stop_never_unnamed. Qed.
Print Assumptions C14_stop_never_unnamed.

Example C14_first_reason_stays :
  snd (run ex_up [EPEnd true; ETransport TReset; EProp; ECall (CSend false); ECall CClose]) =
  [[]; []; []; [Done HTx (RErr ScSess true)]; [Done HConn (RErr ScConn false)]] /\
  scell (ss (fst (run ex_up [EPEnd true; ETransport TReset; EProp]))) = Some (SRemoteEnded true) /\
  snd (run ex_up [EPDetach Snd true true; ETransport TEof; EProp; ECall (CSend false)]) = [[]; []; []; [Done HTx (RErr ScConn false)]].
Proof. exact ex_first_reason_stays. Qed.

(** The gap of the code in "before the channels close": a local close() closes the session-frame channel before
    the connection's cell is written; a session that writes then reports ConnectionStopped(Closed) by the fallback
    [connection_stop_reason_or_closed] and keeps it, although the peer answers the close with an error. *)
Example C14_local_close_gap :
  let st := fst (run ex_up [ECall CClose; ECall (CSend false); EPClose true]) in
  snd (run ex_up [ECall CClose; ECall (CSend false); EPClose true]) = [[]; [Done HTx (RErr ScConn false)]; [Done HConn (RErr ScConn true)]] /\
  ccell (cn st) = Some (CRemoteClosed true) /\ scell (ss st) = Some (SConnStopped CClosed).
Proof. exact ex_local_close_gap. Qed.

Example C14_reference_conversation :
  snd (run init ex_pre) = [[]; [Done HConn ROk]; []; [Done HConn ROk]; []; [Done HSess ROk]; []; []; [Done HSess ROk]] /\
  snd (run ex_up [ECall (CSend false); EPSettle false; EPTransfer; ECall CRecv; ECall CAccept; ECall (CDetach Snd); EPDetach Snd false false;
                  ECall (CCloseL Rcv); EPDetach Rcv true false; ECall CEnd; EPEnd false; ECall CClose; EPClose false]) =
  [[]; [Done HTx ROk]; []; [Done HRx ROk]; [Done HRx ROk]; []; [Done HTx ROk]; []; [Done HRx ROk]; []; [Done HSess ROk]; []; [Done HConn ROk]].
Proof. exact ex_reference_ok. Qed.
