(** C11 — Identifiers: increasing delivery-ids, unique handles/channels, correct routing. *)
From FV Require Import Base.Serial Base.Bytes Session.Window Lib.Slab Session.Ids Link.Split
  Proofs.WindowProofs Proofs.C07Lemmas Proofs.IdsProofs.
Open Scope N_scope.

(** Delivery-ids on a session: on the wire the transfer-ids are consecutive from
    the initial next-outgoing-id (serial arithmetic), and a transfer frame
    carries a delivery-id exactly when it carries a delivery-tag, namely its own
    transfer-id - so successive deliveries get strictly increasing ids and no id
    is stamped twice. *)
Theorem C11_delivery_ids :
  forall noi iw ow b_noi b_iw b_ow evs s' outs,
    noi < W -> b_iw < W -> Forall wf_ev evs ->
    run (begun noi iw ow b_noi b_iw b_ow) evs = (s', outs) ->
    wire_consistent noi (concat outs) /\
    Forall2 (frames_ok iw ow) (ghost_trace noi (ghost0 noi b_noi b_iw) evs) outs.
Proof.
  intros noi iw ow b_noi b_iw b_ow evs s' outs H1 H2 H3 H4.
  destruct (run_begun noi iw ow b_noi b_iw b_ow H1 H2 evs s' outs H3 H4) as (_ & A & B & _). split; assumption.
Qed.
Print Assumptions C11_delivery_ids.

(** ... and the link layer gives the session exactly one tagged transfer per
    delivery, however the delivery is split: all frames of one delivery carry
    the same delivery-id (the first) or none. *)
Theorem C11_one_tag_per_delivery :
  forall mms tag payload,
    let fs := link_split mms tag payload in
    (exists first rest, fs = first :: rest /\ lf_tag first = Some tag /\ Forall (fun f => lf_tag f = None) rest) /\
    concat (map lf_part fs) = payload /\
    map lf_more fs = repeat true (length fs - 1) ++ [false].
Proof. exact link_split_spec. Qed.
Print Assumptions C11_one_tag_per_delivery.

(** After any sequence of allocate / incoming attach / detach / route operations
    on a session: no two live links share an output handle, no link name is
    attached twice. *)
Theorem C11_handles_and_names_unique :
  forall ops s' rs, lrun ls_init ops = (s', rs) ->
    NoDup (keys (ls_slab s')) /\ NoDup (map snd (sl_occ (ls_slab s'))).
Proof.
  intros ops s' rs E. destruct (lrun_inv ops _ _ _ LInv_init E) as (A & B & _).
  split; [apply WF_keys_nodup; exact A|exact B].
Qed.
Print Assumptions C11_handles_and_names_unique.

(** A handle given to a new link is not held by any live link, the name is new,
    and the handle is either brand new or was released by a detach. *)
Theorem C11_handle_fresh_or_released :
  forall s name keep s' h,
    LInv s -> alloc_link s name keep = (s', LOk h) ->
    LInv s' /\ h = vacant_key (ls_slab s) /\ ~ In h (keys (ls_slab s)) /\
    ~ In name (map snd (sl_occ (ls_slab s))) /\
    (h = sl_len (ls_slab s) \/ In h (sl_free (ls_slab s))) /\
    ls_by_in s' = ls_by_in s.
Proof. exact alloc_link_inv. Qed.
Print Assumptions C11_handle_fresh_or_released.

(** Routing: once the peer has attached a link under an input handle, frames with
    that handle reach that link, and the routing of every other handle is unchanged. *)
Theorem C11_link_routing :
  forall s name ih s',
    lstep s (OpInAttach name ih) = (s', LUnit) ->
    exists h, al_get name (ls_by_name s) = Some (Some h) /\ lstep s' (OpRoute ih) = (s', LOk h) /\
              (forall ih', ih' <> ih -> snd (lstep s' (OpRoute ih')) = snd (lstep s (OpRoute ih'))).
Proof. exact attach_then_route. Qed.
Print Assumptions C11_link_routing.

(** Channels of a connection: fresh, within the agreed channel-max, reused only
    after release; the peer's begin binds its channel to the session it names. *)
Theorem C11_channel_fresh :
  forall s s' r, CInv s -> cstep s OpAllocSession = (s', r) ->
    match r with
    | COk c => c <= cn_max s /\ ~ In c (keys (cn_slab s)) /\ In c (keys (cn_slab s')) /\
               (c = sl_len (cn_slab s) \/ In c (sl_free (cn_slab s)))
    | CErr EChannelMax => s' = s /\ cn_max s < vacant_key (cn_slab s)
    | _ => False
    end.
Proof. exact alloc_session_spec. Qed.
Print Assumptions C11_channel_fresh.

Theorem C11_channel_routing :
  forall s inc out s',
    cstep s (OpInBegin inc (Some out)) = (s', COk out) ->
    cstep s' (OpRouteCh inc) = (s', COk out) /\
    (forall inc', inc' <> inc -> snd (cstep s' (OpRouteCh inc')) = snd (cstep s (OpRouteCh inc'))).
Proof. exact begin_then_route. Qed.
Print Assumptions C11_channel_routing.

(** Non-vacuity: handles 0,1 allocated, 0 released and reused, a duplicate name refused. *)
Example C11_example :
  snd (lrun ls_init [OpAlloc 10; OpAlloc 11; OpInAttach 10 7; OpRoute 7; OpOutDetach 0; OpAlloc 12; OpAlloc 11; OpRoute 9])
  = [LOk 0; LOk 1; LUnit; LOk 0; LUnit; LOk 0; LErr EDupName; LErr EUnattached].
Proof. vm_compute. reflexivity. Qed.
