(** C05 — Encodings are valid AMQP 1.0 and every valid encoding variant is accepted.
    [spec_dec]/[spec_valid] (Codec/Spec.v) is a reference decoder written from the
    specification alone; [enc_bytes] and [from_slice] are the models of the
    library's encoder and decoder (tied to the code by the C03/C04 correspondences
    and, for this property, by the `spec`/`specv` cases: real encoder output and
    hand-built variant encodings through the reference decoder and the real decoder). *)
From FV Require Import Base.Bytes Codec.Value Codec.Enc Codec.Dec Codec.Spec.
From FV Require Import Proofs.SpecLemmas Proofs.SpecEnc Proofs.SpecDec Proofs.SpecDecTight.
Open Scope N_scope.

(** What the encoder writes for any well-formed value is, judged by the
    specification-derived decoder, a valid encoding of exactly that value (nothing
    left over, any nesting depth). *)
Theorem C05_encodings_are_valid :
  forall v b, wf v = true -> enc_bytes v = Some b -> spec_valid (S (depth v)) b = Some v.
Proof. exact enc_is_spec_valid. Qed.
Print Assumptions C05_encodings_are_valid.

(** Conversely every encoding the specification accepts - whichever width
    variant, list0/8/32, boolean form, descriptor form - is decoded by the library
    to the same value, except for two classes of arrays (the hypothesis
    [lib_compatible]: arrays of zero-width elements whose count exceeds the size
    field, and non-empty arrays of compound elements) and for maps with a repeated
    key, which the specification itself declares invalid. *)
Theorem C05_valid_encodings_are_accepted_partial :
  forall fuel bs v rest,
    spec_dec fuel bs = Some (v, rest) ->
    lib_compatible fuel bs = true -> nodup_keys v = true ->
    from_slice fuel bs = Ok (v, rest).
Proof. exact spec_valid_is_decoded_partial. Qed.
Print Assumptions C05_valid_encodings_are_accepted_partial.

(** The full statement is false of the faithful model: an array of three nulls,
    [e0 02 03 40], is valid but rejected (the decoder refuses a count larger than
    the size field); arrays of lists, maps and arrays are mis-handled. *)
Theorem C05_valid_encodings_are_accepted_refuted :
  exists fuel bs v rest,
    spec_dec fuel bs = Some (v, rest) /\ forall fuel', from_slice fuel' bs <> Ok (v, rest).
Proof. exact spec_valid_is_decoded_refuted. Qed.
Print Assumptions C05_valid_encodings_are_accepted_refuted.

(** Repaired here: an empty array that still carries its element constructor
    (as other implementations write it) used to leave the constructor byte behind
    and silently mis-decode what followed. *)
Theorem C05_empty_array_with_constructor :
  let bs := [192; 9; 2; 224; 2; 0; 112; 160; 2; 1; 2] in
  spec_valid 2 bs = Some (VList [VArray []; VBinary [1; 2]]) /\
  (forall fuel', from_slice (S (S fuel')) bs = Ok (VList [VArray []; VBinary [1; 2]], [])).
Proof. exact silent_misdecode_repaired. Qed.
Print Assumptions C05_empty_array_with_constructor.
