(** C05 — Encodings are valid AMQP 1.0 and every valid encoding variant is accepted.
    [spec_dec]/[spec_valid] (Codec/Spec.v) is a reference decoder written from the
    specification alone; [enc_bytes] and [from_slice] are the models of the
    library's encoder and decoder (tied to the code by the C03/C04 correspondences
    and, for this property, by the `spec`/`specv` cases: real encoder output and
    hand-built variant encodings through the reference decoder and the real decoder). *)
From FV Require Import Base.Bytes Codec.Value Codec.Enc Codec.Dec Codec.Spec.
From FV Require Import Proofs.SpecLemmas Proofs.SpecEnc Proofs.SpecDec Proofs.SpecDecTight.
From Coq Require Import List.
From FV Require Import Codec.Composite Codec.CompositeSpec Gen.Composites Tie.Tie_Composites Proofs.CompositeProofs Proofs.CompositeTable Frame.AmqpFrame Proofs.AmqpFrameProofs.
Open Scope N_scope.

(** What the encoder writes for any well-formed value is, judged by the
    specification-derived decoder, a valid encoding of exactly that value (nothing
    left over, any nesting depth). *)
Theorem C05_encodings_are_valid :
  forall v b, wf v = true -> enc_bytes v = Some b -> spec_valid (S (depth v)) b = Some v.
Proof. exact enc_is_spec_valid. Qed.
Print Assumptions C05_encodings_are_valid.

(** Conversely every encoding the specification accepts - whichever width
    variant, list0/8/32, boolean form, descriptor form - is decoded by the library
    to the same value, except for two classes of arrays (the hypothesis
    [lib_compatible]: arrays of zero-width elements whose count exceeds the size
    field, and non-empty arrays of compound elements) and for maps with a repeated
    key, which the specification itself declares invalid. *)
Theorem C05_valid_encodings_are_accepted_partial :
  forall fuel bs v rest,
    spec_dec fuel bs = Some (v, rest) ->
    lib_compatible fuel bs = true -> nodup_keys v = true ->
    from_slice fuel bs = Ok (v, rest).
Proof. exact spec_valid_is_decoded_partial. Qed.
Print Assumptions C05_valid_encodings_are_accepted_partial.

(** The full statement is false of the faithful model: an array of three nulls,
    [e0 02 03 40], is valid but rejected (the decoder refuses a count larger than
    the size field); arrays of lists, maps and arrays are mis-handled. *)
Theorem C05_valid_encodings_are_accepted_refuted :
  exists fuel bs v rest,
    spec_dec fuel bs = Some (v, rest) /\ forall fuel', from_slice fuel' bs <> Ok (v, rest).
Proof. exact spec_valid_is_decoded_refuted. Qed.
Print Assumptions C05_valid_encodings_are_accepted_refuted.

(** Repaired here: an empty array that still carries its element constructor
    (as other implementations write it) used to leave the constructor byte behind
    and silently mis-decode what followed. *)
Theorem C05_empty_array_with_constructor :
  let bs := [192; 9; 2; 224; 2; 0; 112; 160; 2; 1; 2] in
  spec_valid 2 bs = Some (VList [VArray []; VBinary [1; 2]]) /\
  (forall fuel', from_slice (S (S fuel')) bs = Ok (VList [VArray []; VBinary [1; 2]], [])).
Proof. exact silent_misdecode_repaired. Qed.
Print Assumptions C05_empty_array_with_constructor.

(** ** composite types: field order, mandatory / default / multiple, and every layout

    The table of composite types regenerated from the struct definitions of this run
    (descriptor names and codes, fields in wire order, Option / mandatory /
    #[amqp_contract(default)] / #[amqp_contract(multiple)]) is the specification's. *)
Theorem C05_tie_composites : gen_composites = map erase_row spec_composites.
Proof. exact tie_composites. Qed.
Print Assumptions C05_tie_composites.

(** Every layout of a field vector that the specification allows is accepted and
    yields that field vector: an absent field written as null, a defaulted field
    written out, an empty array for an absent `multiple` field, trailing absent
    fields left out or kept, list0 / list8 / list32, the descriptor by code or by name. *)
Theorem C05_composite_layouts_accepted :
  forall s, In s spec_schemas ->
  forall d vs ws fuel b rest,
    (d = DCode (s_code s) \/ d = DName (s_name s)) ->
    fields_ok (s_fields s) vs = true ->
    presentation (s_fields s) vs ws = true ->
    forallb wf ws = true -> lenN ws <= MAXCOUNT -> Forall (fun w => (depth w <= fuel)%nat) ws ->
    enc Plain (VDescribed d (VList ws)) = Some b ->
    dec_composite fuel s (b ++ rest) = Ok (vs, rest).
Proof. exact table_layouts_accepted. Qed.
Print Assumptions C05_composite_layouts_accepted.

(** ... and the library's own layout is one of them *)
Theorem C05_own_layout_is_a_presentation :
  forall ks vs, fields_ok ks vs = true -> presentation ks vs (elide ks vs 0) = true.
Proof. intros ks vs H. exact (presentation_elide ks vs [] [] H (Forall2_nil _)). Qed.
Print Assumptions C05_own_layout_is_a_presentation.

(** a composite whose list (or whose bytes) ends before a mandatory field is refused *)
Theorem C05_missing_mandatory_field_refused :
  forall fuel ks left bs,
    (left = 0 \/ bs = []) -> existsb (fun k => match k with FMand => true | _ => false end) ks = true ->
    exists e, dec_fields fuel ks left bs = Err e.
Proof. exact truncated_mandatory_refused. Qed.
Print Assumptions C05_missing_mandatory_field_refused.

(** ... also when the composite is read through an enum that dispatches on the descriptor
    (a frame body as [Performative], a delivery state): the descriptor may be given by code
    or by name, in any width *)
Theorem C05_enum_layouts_accepted :
  forall tbl s d vs ws fuel b rest,
    In s spec_schemas -> dispatch tbl d = Some s ->
    (d = DCode (s_code s) \/ d = DName (s_name s)) ->
    fields_ok (s_fields s) vs = true ->
    presentation (s_fields s) vs ws = true ->
    forallb wf ws = true -> lenN ws <= MAXCOUNT -> Forall (fun w => (depth w <= fuel)%nat) ws ->
    enc Plain (VDescribed d (VList ws)) = Some b ->
    dec_via_enum fuel tbl (b ++ rest) = Ok (s, vs, rest).
Proof. exact enum_layouts_accepted. Qed.
Print Assumptions C05_enum_layouts_accepted.

(** the performatives and the delivery states are found under their code and under their name *)
Theorem C05_enum_dispatch :
  (forall s, In s performative_schemas ->
     dispatch performative_schemas (DCode (s_code s)) = Some s /\ dispatch performative_schemas (DName (s_name s)) = Some s) /\
  (forall s, In s delivery_state_schemas ->
     dispatch delivery_state_schemas (DCode (s_code s)) = Some s /\ dispatch delivery_state_schemas (DName (s_name s)) = Some s).
Proof.
  split; intros s H; split.
  - exact (performative_dispatch s H).
  - exact (performative_dispatch_by_name s H).
  - exact (dispatch_finds delivery_state_schemas s H delivery_state_codes_distinct).
  - exact (delivery_state_dispatch_by_name s H).
Qed.
Print Assumptions C05_enum_dispatch.

(** The strongest form: ANY encoding of the descriptor that the descriptor reader accepts, ANY list
    header that announces the right count (list8 or list32 - its size field is not looked at), and
    for every field ANY bytes that the value decoder reads as the field's value ([decodes_to]: the
    encoder's own bytes are one instance, every other width / constructor variant accepted by
    C05_valid_encodings_are_accepted_partial is another) - in any of the layouts above - decode to
    the field vector. *)
Theorem C05_composite_accepts_any_encoding :
  forall s d vs ws parts descb hdr fuel rest,
    fields_ok (s_fields s) vs = true ->
    presentation (s_fields s) vs ws = true ->
    (forall r, dec_descriptor None (descb ++ r) = Ok (d, r)) -> descriptor_matches s d = true ->
    (forall r, list_header (hdr ++ r) = Ok (lenN ws, r)) ->
    Forall2 (decodes_to fuel) parts ws ->
    dec_composite fuel s (descb ++ hdr ++ concat parts ++ rest) = Ok (vs, rest).
Proof. exact composite_accepts_any_encoding. Qed.
Print Assumptions C05_composite_accepts_any_encoding.

Theorem C05_list_header_size_is_ignored :
  (forall sz count r, count < 256 -> sz < 256 -> list_header (192 :: sz :: count :: r) = Ok (count, r)) /\
  (forall sz count r, count < 4294967296 -> sz < 4294967296 ->
     list_header (208 :: to_be 4 sz ++ to_be 4 count ++ r) = Ok (count, r)).
Proof. exact (conj list_header_list8 list_header_list32). Qed.
Print Assumptions C05_list_header_size_is_ignored.
