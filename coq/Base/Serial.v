(** RFC 1982 serial-number arithmetic on u32, and the u32 helper operations
    of the Rust code (wrapping / saturating), written out explicitly. *)
From Coq Require Export NArith List Bool Lia.
Export ListNotations.
Open Scope N_scope.

Definition W : N := 4294967296.          (* 2^32 *)
Definition U32MAX : N := 4294967295.

Definition u32 (x : N) : Prop := x < W.
Definition u32b (x : N) : bool := x <? W.

(** [u32::wrapping_add], [u32::wrapping_sub] *)
Definition wadd (a b : N) : N := (a + b) mod W.
Definition wsub (a b : N) : N := (a + W - b mod W) mod W.
(** [u32::saturating_add], [u32::saturating_sub] *)
Definition sat_add (a b : N) : N := N.min (a + b) U32MAX.
Definition sat_sub (a b : N) : N := a - b.        (* N.sub truncates at 0 *)
(** [u32::checked_sub] *)
Definition checked_sub (a b : N) : option N := if a <? b then None else Some (a - b).

(** serial distance from [base] forward to [x] *)
Definition sdist (base x : N) : N := wsub x base.
(** [x] lies in the window of [w] ids starting at [base] *)
Definition in_window (base w x : N) : Prop := sdist base x < w.
Definition in_windowb (base w x : N) : bool := sdist base x <? w.
