(** Bytes, big-endian fixed-width integers, result type.  No proofs here. *)
From Coq Require Export NArith List Bool.
Export ListNotations.
Open Scope N_scope.

Definition byte := N.                 (* always < 256 on the wire: [bytes_ok] states it *)
Definition bytes := list N.
Definition byte_okb (b : N) : bool := b <? 256.
Definition bytes_okb (bs : bytes) : bool := forallb byte_okb bs.
Definition bytes_ok (bs : bytes) : Prop := Forall (fun b => b < 256) bs.
Definition lenN {A} (l : list A) : N := N.of_nat (length l).

(** little-endian helper, then big-endian *)
Fixpoint to_le (k : nat) (n : N) : bytes :=
  match k with O => [] | S k' => n mod 256 :: to_le k' (n / 256) end.
Fixpoint from_le (bs : bytes) : N :=
  match bs with [] => 0 | b :: r => b + 256 * from_le r end.
Definition to_be (k : nat) (n : N) : bytes := rev (to_le k n).
Definition from_be (bs : bytes) : N := from_le (rev bs).

(** split off the first [k] bytes *)
Fixpoint take_n (k : nat) (bs : bytes) : option (bytes * bytes) :=
  match k with
  | O => Some ([], bs)
  | S k' => match bs with
            | [] => None
            | b :: r => match take_n k' r with
                        | Some (h, t) => Some (b :: h, t)
                        | None => None end
            end
  end.

Inductive err := EEof | EInvalidFormatCode | EInvalidValue | EInvalidLength | EUtf8 | ETooLong | EOther.
Inductive result (A : Type) := Ok (a : A) | Err (e : err) | Panic | OutOfFuel.
Arguments Ok {A} a. Arguments Err {A} e. Arguments Panic {A}. Arguments OutOfFuel {A}.

Definition bind {A B} (r : result A) (f : A -> result B) : result B :=
  match r with Ok a => f a | Err e => Err e | Panic => Panic | OutOfFuel => OutOfFuel end.
Notation "'let*' x ':=' r 'in' k" := (bind r (fun x => k)) (at level 200, x pattern, r at level 100, k at level 200).

(** UTF-8 validity as checked by [String::from_utf8] (RFC 3629: no overlong
    forms, no surrogates, nothing above U+10FFFF) *)
Definition is_cont (b : N) : bool := (128 <=? b) && (b <=? 191).
Fixpoint utf8_valid_fuel (fuel : nat) (bs : bytes) : bool :=
  match fuel with
  | O => match bs with [] => true | _ => false end
  | S f =>
    match bs with
    | [] => true
    | b0 :: r =>
      if b0 <? 128 then utf8_valid_fuel f r
      else if (194 <=? b0) && (b0 <=? 223) then
        match r with b1 :: r1 => is_cont b1 && utf8_valid_fuel f r1 | _ => false end
      else if b0 =? 224 then
        match r with b1 :: b2 :: r2 => (160 <=? b1) && (b1 <=? 191) && is_cont b2 && utf8_valid_fuel f r2 | _ => false end
      else if ((225 <=? b0) && (b0 <=? 236)) || (b0 =? 238) || (b0 =? 239) then
        match r with b1 :: b2 :: r2 => is_cont b1 && is_cont b2 && utf8_valid_fuel f r2 | _ => false end
      else if b0 =? 237 then
        match r with b1 :: b2 :: r2 => (128 <=? b1) && (b1 <=? 159) && is_cont b2 && utf8_valid_fuel f r2 | _ => false end
      else if b0 =? 240 then
        match r with b1 :: b2 :: b3 :: r3 => (144 <=? b1) && (b1 <=? 191) && is_cont b2 && is_cont b3 && utf8_valid_fuel f r3 | _ => false end
      else if (241 <=? b0) && (b0 <=? 243) then
        match r with b1 :: b2 :: b3 :: r3 => is_cont b1 && is_cont b2 && is_cont b3 && utf8_valid_fuel f r3 | _ => false end
      else if b0 =? 244 then
        match r with b1 :: b2 :: b3 :: r3 => (128 <=? b1) && (b1 <=? 143) && is_cont b2 && is_cont b3 && utf8_valid_fuel f r3 | _ => false end
      else false
    end
  end.
Definition utf8_valid (bs : bytes) : bool := utf8_valid_fuel (length bs) bs.

(** [char::from_u32] accepts exactly the Unicode scalar values *)
Definition is_scalar (n : N) : bool := (n <? 55296) || ((57343 <? n) && (n <=? 1114111)).
