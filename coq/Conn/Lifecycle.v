(** Model of the client connection lifecycle as observable at the transport
    and at the API: connection/builder.rs (header exchange),
    connection/engine.rs [open], [open_inner], [event_loop], [on_incoming],
    [on_control], [close_connection], [wait_for_remote_close], [on_error];
    connection/mod.rs state transitions ([send_open], [send_close],
    [on_incoming_open], [on_incoming_close]).  One event per quiescence
    barrier; the step function returns what the endpoint writes and which API
    calls complete in that step.  No sessions here (C13). *)
From Coq Require Export List Bool.
Export ListNotations.

(** error conditions / error kinds that can be observed *)
Inductive kind :=
| KIllegalState | KNotImplemented | KNotFound | KNotAllowed
| KRemoteClosed | KRemoteClosedWithError | KTransportError | KIo | KHeaderMismatch.

(** a peer frame that is illegal for a connection without sessions *)
Inductive illegal :=
| IBeginNoRemote        (* begin without remote-channel: remotely initiated session *)
| IBeginUnknown         (* begin naming a channel that was never allocated *)
| IEndUnmapped          (* end on a channel without session *)
| IFrameUnmapped        (* attach/flow/transfer/disposition/detach on a channel without session *)
| IOpenAgain.           (* a second open *)

Definition illegal_kind (i : illegal) : kind :=
  match i with
  | IBeginNoRemote => KNotImplemented
  | IBeginUnknown | IEndUnmapped | IFrameUnmapped => KNotFound
  | IOpenAgain => KIllegalState
  end.

Inductive ev :=
| EOpen                       (* local: Connection::open_with_stream *)
| EPHeader | EPBadHeader      (* peer: AMQP header / any other 8 bytes *)
| EPOpen
| EPClose (with_error : bool)
| EPIllegal (i : illegal)
| EPEmpty
| EEof                        (* the peer shuts its sending half *)
| EClose | ECloseErr          (* local: close() / close_with_error(not-allowed) *)
| EDrop                       (* local: the handle is dropped *)
| EAbort.                     (* local: a pending close()/close_with_error() is cancelled, dropping the handle *)

Inductive res := ROk | RErr (k : kind).

Inductive obs :=
| WHeader | WOpen | WClose | WCloseErr (k : kind)   (* written to the transport *)
| WEof                                              (* the endpoint has closed its side *)
| DOpen (r : res) | DClose (r : res).               (* API calls completing *)

(** who waits for the end of the connection *)
Inductive waiter := WHandle (* handle alive, no call pending *) | WCloseCall | WGone (* handle dropped *).

(** the application's handle once the engine has stopped *)
Inductive hstate := HLive | HReported | HGone.

Inductive cstate :=
| SStart (queued : list ev)            (* open not yet called; what the peer wrote is in the pipe *)
| SHdrSent
| SOpenSent
| SOpenFailed                                   (* a frame came before the open: closed with an error, awaiting the peer's close *)
| SOpened
| SCloseSent (w : waiter)                       (* clean close sent *)
| SDiscardLocal (w : waiter)                    (* close with error sent by the application *)
| SDiscardProto (orig : kind) (w : waiter)      (* close with error sent because of a protocol violation *)
| SEnded (result : res) (h : hstate)            (* engine stopped *)
| SDead.                                        (* open failed: no handle exists *)

Definition is_peer (e : ev) : bool :=
  match e with EOpen | EClose | ECloseErr | EDrop | EAbort => false | _ => true end.

(** the engine has stopped with [r]: tell the waiting close call, if any *)
Definition finish (w : waiter) (r : res) : cstate * list obs :=
  match w with
  | WCloseCall => (SEnded r HReported, [DClose r; WEof])
  | WHandle => (SEnded r HLive, [WEof])
  | WGone => (SEnded r HGone, [WEof])
  end.

Definition step1 (s : cstate) (e : ev) : cstate * list obs :=
  match s, e with
  (* ---- before open ---- *)
  | SStart q, EOpen => (SHdrSent, [WHeader])          (* the queue is replayed by [step] *)
  | SStart q, _ => (if is_peer e then SStart (q ++ [e]) else SStart q, [])
  (* ---- header exchange ---- *)
  | SHdrSent, EPHeader => (SOpenSent, [WOpen])
  | SHdrSent, EEof => (SDead, [DOpen (RErr KIo); WEof])
  | SHdrSent, EPBadHeader => (SDead, [DOpen (RErr KNotImplemented); WEof])
  | SHdrSent, (EPOpen | EPClose _ | EPIllegal _ | EPEmpty) =>
      (SDead, [DOpen (RErr KHeaderMismatch); WEof])     (* the bytes of a frame are not a protocol header *)
  | SHdrSent, _ => (SHdrSent, [])
  (* ---- open sent ---- *)
  | SOpenSent, EPOpen => (SOpened, [DOpen ROk])
  | SOpenSent, EPClose false => (SDead, [WClose; DOpen (RErr KRemoteClosed); WEof])
  | SOpenSent, EPClose true => (SDead, [WClose; DOpen (RErr KRemoteClosedWithError); WEof])
  | SOpenSent, (EPIllegal _ | EPEmpty | EPHeader | EPBadHeader) => (SOpenFailed, [WCloseErr KIllegalState])
  | SOpenSent, EEof => (SDead, [WClose; DOpen (RErr KTransportError); WEof])
  | SOpenSent, _ => (SOpenSent, [])
  (* ---- a frame other than the open came first: closed with an error, discarding until the peer's close ---- *)
  | SOpenFailed, EPClose false => (SDead, [DOpen (RErr KIllegalState); WEof])
  | SOpenFailed, EPClose true => (SDead, [DOpen (RErr KRemoteClosedWithError); WEof])
  | SOpenFailed, EEof => (SDead, [DOpen (RErr KTransportError); WEof])
  | SOpenFailed, _ => (SOpenFailed, [])
  (* ---- opened ---- *)
  | SOpened, EPClose false => (SEnded (RErr KRemoteClosed) HLive, [WClose; WEof])
  | SOpened, EPClose true => (SEnded (RErr KRemoteClosedWithError) HLive, [WClose; WEof])
  | SOpened, EPIllegal i => (SDiscardProto (illegal_kind i) WHandle, [WCloseErr (illegal_kind i)])
  | SOpened, EPOpen => (SDiscardProto KIllegalState WHandle, [WCloseErr KIllegalState])
  | SOpened, (EPHeader | EPBadHeader) => (SOpened, [])     (* not generated: 8 bytes are not a frame *)
  | SOpened, EPEmpty => (SOpened, [])
  | SOpened, EEof => (SEnded (RErr KTransportError) HLive, [WCloseErr KIllegalState; WEof])
  | SOpened, EClose => (SCloseSent WCloseCall, [WClose])
  | SOpened, ECloseErr => (SDiscardLocal WCloseCall, [WCloseErr KNotAllowed])
  | SOpened, EDrop => (SCloseSent WGone, [WClose])
  | SOpened, _ => (SOpened, [])
  (* ---- clean close sent ---- *)
  | SCloseSent w, EPClose false => finish w ROk
  | SCloseSent w, EPClose true => finish w (RErr KRemoteClosedWithError)
  | SCloseSent w, EEof => finish w (RErr KTransportError)
  | SCloseSent WCloseCall, EAbort => (SCloseSent WGone, [])
  | SCloseSent w, _ => (SCloseSent w, [])          (* in-flight frames are not errors *)
  (* ---- discarding ---- *)
  | SDiscardLocal w, EPClose false => finish w ROk
  | SDiscardLocal w, EPClose true => finish w (RErr KRemoteClosedWithError)
  | SDiscardLocal w, EEof => finish w ROk
  | SDiscardLocal WCloseCall, EAbort => (SDiscardLocal WGone, [])
  | SDiscardLocal w, _ => (SDiscardLocal w, [])
  | SDiscardProto k w, EPClose false => finish w (RErr k)
  | SDiscardProto k w, EPClose true => finish w (RErr KRemoteClosedWithError)
  | SDiscardProto k w, EEof => finish w (RErr KTransportError)
  | SDiscardProto k WHandle, (EClose | ECloseErr) => (SDiscardProto k WCloseCall, [])   (* the call waits for the end *)
  | SDiscardProto k WHandle, EDrop => (SDiscardProto k WGone, [])
  | SDiscardProto k WCloseCall, EAbort => (SDiscardProto k WGone, [])
  | SDiscardProto k w, _ => (SDiscardProto k w, [])
  (* ---- stopped ---- *)
  | SEnded r HLive, (EClose | ECloseErr) => (SEnded r HReported, [DClose r])
  | SEnded r HReported, (EClose | ECloseErr) => (SEnded r HReported, [DClose (RErr KIllegalState)])
  | SEnded r (HLive | HReported), EDrop => (SEnded r HGone, [])
  | SEnded r b, _ => (SEnded r b, [])
  | SDead, _ => (SDead, [])
  end.

(** [EOpen] after the peer has already written: the buffered input is consumed at once *)
Fixpoint replay (s : cstate) (q : list ev) : cstate * list obs :=
  match q with
  | [] => (s, [])
  | e :: r => let '(s1, o1) := step1 s e in let '(s2, o2) := replay s1 r in (s2, o1 ++ o2)
  end.

Definition step (s : cstate) (e : ev) : cstate * list obs :=
  match s, e with
  | SStart q, EOpen => let '(s1, o1) := step1 s e in let '(s2, o2) := replay s1 q in (s2, o1 ++ o2)
  | _, _ => step1 s e
  end.

Fixpoint run (s : cstate) (evs : list ev) : cstate * list (list obs) :=
  match evs with
  | [] => (s, [])
  | e :: r => let '(s1, o) := step s e in let '(s2, os) := run s1 r in (s2, o :: os)
  end.
