(** From the bytes of a frame to the event of the connection lifecycle model: what
    connection/engine.rs [on_incoming] makes of a decoded frame on a connection WITHOUT sessions
    (the scope of Conn/Lifecycle.v), and what the event loop does when the transport reports a frame
    that does not decode ([ConnectionInnerError::TransportError] -> the engine stops at once, nothing
    is written). *)
From FV Require Import Base.Bytes Codec.Value Codec.Composite Codec.CompositeSpec Frame.AmqpFrame Conn.Lifecycle.

Definition first_field_null (vs : list value) : bool :=
  match vs with v :: _ => is_null v | [] => true end.

Definition classify (f : frame) : ev :=
  match f_body f with
  | FEmpty => EPEmpty
  | FPerf s vs _ =>
      let c := s_code s in
      if c =? 16 then EPOpen
      else if c =? 24 then EPClose (negb (first_field_null vs))        (* close.error *)
      else if c =? 17 then                                             (* begin.remote-channel *)
        EPIllegal (if first_field_null vs then IBeginNoRemote else IBeginUnknown)
      else if c =? 23 then EPIllegal IEndUnmapped
      else EPIllegal IFrameUnmapped                                    (* attach flow transfer disposition detach *)
  end.

(** the transport failed to decode a frame: the engine stops, the handle learns a transport error *)
Definition transport_error (s : cstate) : cstate * list obs :=
  match s with
  | SOpened => (SEnded (RErr KTransportError) HLive, [WEof])
  | SCloseSent w => finish w (RErr KTransportError)
  | SDiscardLocal w => finish w (RErr KTransportError)
  | SDiscardProto _ w => finish w (RErr KTransportError)
  | _ => step s EEof
  end.

Definition on_frame_bytes (fuel : nat) (s : cstate) (bs : bytes) : cstate * list obs :=
  match dec_frame fuel bs with
  | Ok f => step s (classify f)
  | _ => transport_error s
  end.
