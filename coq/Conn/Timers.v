(** Timed model of an open connection: the heartbeat that serves the peer's
    idle-time-out (connection/heartbeat.rs, engine.rs [open_inner],
    [on_heartbeat]) and the deadline that enforces the local idle-time-out
    (transport/mod.rs [Stream::poll_next], util [IdleTimeout]), together with
    the close paths that switch them off.  Time is in milliseconds of the
    (virtual) clock; time 0 is the instant the protocol headers have been
    exchanged and the transport (with its deadline) is created.  One step =
    one stimulus applied at the current instant, followed by [dt] ms during
    which only timers fire. *)
From Coq Require Export List NArith Bool.
Export ListNotations.
Open Scope N_scope.

Inductive stim :=
| SNone
| SPeerOpen (r : option N)     (* the peer's open with its idle-time-out *)
| SPeerEmpty                   (* any frame from the peer that is legal and changes nothing else *)
| SPeerClose
| SClose | SCloseErr.          (* local close() / close_with_error() *)

Inductive tres := TOk | TRemoteClosed | TIdleTimeout.

Inductive tobs :=
| OEmpty (t : N)               (* an empty frame written at t *)
| OClose (t : N) (err : bool)  (* a close written at t *)
| OEof (t : N)                 (* transport shut down at t *)
| OOpenDone (ok : bool)
| OCloseDone (r : tres)
| OOutOfScope.                 (* the script left the scope of this model (C12 covers it) *)

Inductive tphase :=
| PWaitOpen
| POpened
| PCloseSent                   (* clean close written, close() waits *)
| PDiscard                     (* close with error written, close_with_error() waits *)
| PStopped (r : tres) (reported : bool)
| POut.

Record tstate := mkT {
  now : N;
  phase : tphase;
  hb : option (N * N);         (* next tick, period: Some only when the peer's idle-time-out is non-zero *)
  idle : option (N * N);       (* deadline, configured local idle-time-out (non-zero) *)
}.

(** the local configuration: [None] or 0 means no deadline *)
Definition idle_of (l : option N) (t : N) : option (N * N) :=
  match l with Some (Npos p) => Some (t + Npos p, Npos p) | _ => None end.

(** what the open advertises: half of the configured value (builder.rs) *)
Definition advertised (l : option N) : option N :=
  match l with Some v => Some (v / 2) | None => None end.

Definition tinit (l : option N) : tstate := mkT 0 PWaitOpen None (idle_of l 0).

Definition reset_idle (s : tstate) : option (N * N) :=
  match idle s with Some (_, l) => Some (now s + l, l) | None => None end.

Definition hb_of (r : option N) (t : N) : option (N * N) :=
  match r with Some (Npos p) => Some (t, Npos p) | _ => None end.

(** a stimulus at the current instant *)
Definition apply (s : tstate) (x : stim) : tstate * list tobs :=
  match phase s, x with
  | _, SNone => (s, [])
  | PStopped r false, (SClose | SCloseErr) =>      (* the stored result is reported to the first call *)
      (mkT (now s) (PStopped r true) None None, [OCloseDone r])
  | (PStopped _ _ | POut), _ => (s, [])
  | PWaitOpen, SPeerOpen r =>
      (mkT (now s) POpened (hb_of r (now s)) (reset_idle s), [OOpenDone true])
  | PWaitOpen, _ => (mkT (now s) POut None None, [OOutOfScope])
  | POpened, SPeerOpen _ => (mkT (now s) POut None None, [OOutOfScope])
  | POpened, SPeerEmpty => (mkT (now s) POpened (hb s) (reset_idle s), [])
  | POpened, SPeerClose =>
      (mkT (now s) (PStopped TRemoteClosed false) None None, [OClose (now s) false; OEof (now s)])
  | POpened, SClose => (mkT (now s) PCloseSent (hb s) (idle s), [OClose (now s) false])
  | POpened, SCloseErr => (mkT (now s) PDiscard (hb s) (idle s), [OClose (now s) true])
  | (PCloseSent | PDiscard), (SPeerEmpty | SPeerOpen _) =>
      (mkT (now s) (phase s) (hb s) (reset_idle s), [])
  | (PCloseSent | PDiscard), SPeerClose =>
      (mkT (now s) (PStopped TOk true) None None, [OCloseDone TOk; OEof (now s)])
  | (PCloseSent | PDiscard), _ => (s, [])
  end.

(** heartbeat ticks from [t] with period [p] up to and including [limit]:
    how many, their times, and the first tick after [limit] *)
Definition tick_n (t p limit : N) : N :=
  if t <=? limit then (limit - t) / p + 1 else 0.

Definition ticks (t p limit : N) : list N * N :=
  let m := tick_n t p limit in
  (map (fun i => t + N.of_nat i * p) (seq 0 (N.to_nat m)), t + m * p).

(** a tick writes an empty frame only while the connection is open and no close has been written *)
Definition tick_obs (ph : tphase) (ts : list N) : list tobs :=
  match ph with
  | POpened => map OEmpty ts
  | _ => []
  end.

(** [dt] ms pass *)
Definition advance (s : tstate) (dt : N) : tstate * list tobs :=
  match phase s with
  | PStopped _ _ | POut => (mkT (now s + dt) (phase s) None None, [])
  | ph =>
      let target := now s + dt in
      (* the deadline, if it falls into this interval, ends it *)
      let '(limit, expired) :=
        match idle s with
        | Some (d, _) => if d <=? target then (d, true) else (target, false)
        | None => (target, false)
        end in
      let '(hb', o_hb) :=
        match hb s with
        | Some (t, p) => let '(ts, nx) := ticks t p limit in (Some (nx, p), tick_obs ph ts)
        | None => (None, [])
        end in
      if expired then
        match ph with
        | PWaitOpen => (mkT target (PStopped TIdleTimeout true) None None,
                        o_hb ++ [OClose limit false; OOpenDone false; OEof limit])
        | POpened => (mkT target (PStopped TIdleTimeout false) None None, o_hb ++ [OEof limit])
        | _ => (mkT target (PStopped TIdleTimeout true) None None, o_hb ++ [OCloseDone TIdleTimeout; OEof limit])
        end
      else (mkT target ph hb' (idle s), o_hb)
  end.

Definition tstep (s : tstate) (e : stim * N) : tstate * list tobs :=
  let '(s1, o1) := apply s (fst e) in
  let '(s2, o2) := advance s1 (snd e) in
  (s2, o1 ++ o2).

Fixpoint trun (s : tstate) (es : list (stim * N)) : tstate * list (list tobs) :=
  match es with
  | [] => (s, [])
  | e :: r => let '(s1, o) := tstep s e in let '(s2, os) := trun s1 r in (s2, o :: os)
  end.
